(* The composed statement of C01: the producer over the broker spec of Model/ProducerCompose.v.
   A send's Deferred fires with ProduceResponse(t, p, 0, off) only if the log of (t, p) holds, from some position
   inside the acknowledged payload that was appended at base offset off, exactly the messages of that send,
   contiguously and in order - and it keeps holding them (logs only grow). *)
From AV Require Import Base.Util Model.Producer Model.ProducerCompose Proofs.ProducerBase Proofs.ProducerC01Spec
  Proofs.ProducerC01Lists Proofs.ProducerC01Fires Proofs.ProducerC01Batch Proofs.ProducerC01Step Proofs.ProducerC01Inv
  Proofs.ProducerC01Run Proofs.ProducerC01Thm.
From Coq Require Import Lia.

(* ------------------------------------------------------------------ logs only grow *)
Definition grows (lg lg' : logs) : Prop := forall x, exists more, log_of lg' x = log_of lg x ++ more.

Lemma grows_refl : forall lg, grows lg lg.
Proof. intros lg x; exists []; rewrite app_nil_r; auto. Qed.
Lemma grows_trans : forall a b c, grows a b -> grows b c -> grows a c.
Proof.
  intros a b c H1 H2 x. destruct (H1 x) as (m1 & E1). destruct (H2 x) as (m2 & E2).
  exists (m1 ++ m2). rewrite E2, E1, app_assoc; auto.
Qed.

Lemma tp_eqb_false : forall a b, tp_eqb a b = false <-> a <> b.
Proof. intros a b. rewrite <- tp_eqb_eq. destruct (tp_eqb a b); split; congruence. Qed.

Lemma log_of_filter : forall lg x y, y <> x ->
  log_of (filter (fun e : tp * plog => negb (tp_eqb (fst e) x)) lg) y = log_of lg y.
Proof.
  induction lg as [|[z l] lg IH]; simpl; intros x y N; auto.
  destruct (tp_eqb z x) eqn:E; simpl.
  - apply tp_eqb_eq in E; subst z. assert (F : tp_eqb x y = false) by (apply tp_eqb_false; congruence).
    rewrite F; auto.
  - destruct (tp_eqb z y); auto.
Qed.
Lemma log_append_same : forall lg x ms, log_of (log_append lg x ms) x = log_of lg x ++ ms.
Proof. intros; unfold log_append; simpl. rewrite tp_eqb_refl; auto. Qed.
Lemma log_append_other : forall lg x ms y, y <> x -> log_of (log_append lg x ms) y = log_of lg y.
Proof.
  intros lg x ms y N; unfold log_append; simpl.
  assert (F : tp_eqb x y = false) by (apply tp_eqb_false; congruence). rewrite F. apply log_of_filter; auto.
Qed.
Lemma log_append_grows : forall lg x ms, grows lg (log_append lg x ms).
Proof.
  intros lg x ms y. destruct (tp_eqb y x) eqn:E.
  - apply tp_eqb_eq in E; subst. exists ms. apply log_append_same.
  - apply tp_eqb_false in E. exists []. rewrite app_nil_r. apply log_append_other; auto.
Qed.

Lemma serve_grows : forall req acks pl lg lg' rs fs, serve acks req pl lg = (lg', rs, fs) -> grows lg lg'.
Proof.
  induction req as [|[x ms] r IH]; simpl; intros acks pl lg lg' rs fs H.
  - inv H. apply grows_refl.
  - destruct (plan_get pl x) as [|e app|k app].
    + destruct (serve acks r pl (log_append lg x ms)) as [[l1 r1] f1] eqn:E. inv H.
      eapply grows_trans; [apply log_append_grows|eapply IH; eauto].
    + destruct (e =? 0).
      * destruct (serve acks r pl (log_append lg x ms)) as [[l1 r1] f1] eqn:E. inv H.
        eapply grows_trans; [apply log_append_grows|eapply IH; eauto].
      * destruct (serve acks r pl (if app then _ else _)) as [[l1 r1] f1] eqn:E. inv H.
        eapply grows_trans; [|eapply IH; eauto]. destruct app; [apply log_append_grows|apply grows_refl].
    + destruct (serve acks r pl (if app then _ else _)) as [[l1 r1] f1] eqn:E. inv H.
      eapply grows_trans; [|eapply IH; eauto]. destruct app; [apply log_append_grows|apply grows_refl].
Qed.

Lemma serve_rs_tps : forall req acks pl lg lg' rs fs z e o,
  serve acks req pl lg = (lg', rs, fs) -> In (z, e, o) rs -> In z (map fst req).
Proof.
  induction req as [|[x ms] r IH]; simpl; intros acks pl lg lg' rs fs z e o H I.
  - inv H. destruct I.
  - destruct (plan_get pl x) as [|e0 app|k app].
    + destruct (serve acks r pl (log_append lg x ms)) as [[l1 r1] f1] eqn:E. inv H.
      destruct (acks =? 0); [right; eapply IH; eauto|]. destruct I as [I|I]; [inv I; auto|right; eapply IH; eauto].
    + destruct (e0 =? 0).
      * destruct (serve acks r pl (log_append lg x ms)) as [[l1 r1] f1] eqn:E. inv H.
        destruct (acks =? 0); [right; eapply IH; eauto|]. destruct I as [I|I]; [inv I; auto|right; eapply IH; eauto].
      * destruct (serve acks r pl (if app then _ else _)) as [[l1 r1] f1] eqn:E. inv H.
        destruct (acks =? 0); [right; eapply IH; eauto|]. destruct I as [I|I]; [inv I; auto|right; eapply IH; eauto].
    + destruct (serve acks r pl (if app then _ else _)) as [[l1 r1] f1] eqn:E. inv H. right; eapply IH; eauto.
Qed.

(* an acknowledgement (error 0, offset off) for x means: the payload of x was appended at off *)
Lemma serve_ack : forall req acks pl lg lg' rs fs x off ms,
  serve acks req pl lg = (lg', rs, fs) -> NoDup (map fst req) -> In (x, ms) req -> In (x, 0, off) rs ->
  exists pre post, log_of lg' x = pre ++ ms ++ post /\ Z.of_nat (length pre) = off.
Proof.
  induction req as [|[y ms0] r IH]; simpl; intros acks pl lg lg' rs fs x off ms H N I A; [destruct I|].
  inversion N as [|? ? NI N']; subst.
  assert (TAIL : forall lg1 l1 r1 f1, serve acks r pl lg1 = (l1, r1, f1) -> In (x, 0, off) r1 -> y <> x ->
                 exists pre post, log_of l1 x = pre ++ ms ++ post /\ Z.of_nat (length pre) = off).
  { intros lg1 l1 r1 f1 E A1 NE. eapply IH; eauto. destruct I as [I|I]; auto. inv I. congruence. }
  assert (HEAD : forall l1 r1 f1, serve acks r pl (log_append lg y ms0) = (l1, r1, f1) -> y = x ->
                 off = Z.of_nat (length (log_of lg y)) ->
                 exists pre post, log_of l1 x = pre ++ ms ++ post /\ Z.of_nat (length pre) = off).
  { intros l1 r1 f1 E -> ->. assert (ms0 = ms).
    { destruct I as [I|I]; [inv I; auto|]. exfalso; apply NI. apply in_map_iff. exists (x, ms); auto. }
    subst ms0. destruct (serve_grows _ _ _ _ _ _ _ E x) as (more & G). rewrite log_append_same in G.
    exists (log_of lg x), more. rewrite G, app_assoc; auto. }
  assert (NOTR : forall lg1 l1 r1 f1, serve acks r pl lg1 = (l1, r1, f1) -> In (x, 0, off) r1 -> y = x -> False).
  { intros lg1 l1 r1 f1 E A1 ->. apply NI. eapply serve_rs_tps; eauto. }
  destruct (tp_eqb y x) eqn:YX; [apply tp_eqb_eq in YX|apply tp_eqb_false in YX].
  - destruct (plan_get pl y) as [|e app|k app].
    + destruct (serve acks r pl (log_append lg y ms0)) as [[l1 r1] f1] eqn:E. inv H.
      destruct (acks =? 0); [exfalso; eapply NOTR; eauto|].
      destruct A as [A|A]; [inv A; eapply HEAD; eauto|exfalso; eapply NOTR; eauto].
    + destruct (e =? 0) eqn:EZ.
      * destruct (serve acks r pl (log_append lg y ms0)) as [[l1 r1] f1] eqn:E. inv H.
        destruct (acks =? 0); [exfalso; eapply NOTR; eauto|].
        destruct A as [A|A]; [inv A; eapply HEAD; eauto|exfalso; eapply NOTR; eauto].
      * destruct (serve acks r pl (if app then _ else _)) as [[l1 r1] f1] eqn:E. inv H.
        destruct (acks =? 0); [exfalso; eapply NOTR; eauto|].
        destruct A as [A|A]; [inv A; rewrite Z.eqb_refl in EZ; discriminate|exfalso; eapply NOTR; eauto].
    + destruct (serve acks r pl (if app then _ else _)) as [[l1 r1] f1] eqn:E. inv H. exfalso; eapply NOTR; eauto.
  - destruct (plan_get pl y) as [|e app|k app].
    + destruct (serve acks r pl (log_append lg y ms0)) as [[l1 r1] f1] eqn:E. inv H.
      destruct (acks =? 0); [eapply TAIL; eauto|]. destruct A as [A|A]; [inv A; congruence|eapply TAIL; eauto].
    + destruct (e =? 0).
      * destruct (serve acks r pl (log_append lg y ms0)) as [[l1 r1] f1] eqn:E. inv H.
        destruct (acks =? 0); [eapply TAIL; eauto|]. destruct A as [A|A]; [inv A; congruence|eapply TAIL; eauto].
      * destruct (serve acks r pl (if app then _ else _)) as [[l1 r1] f1] eqn:E. inv H.
        destruct (acks =? 0); [eapply TAIL; eauto|]. destruct A as [A|A]; [inv A; congruence|eapply TAIL; eauto].
    + destruct (serve acks r pl (if app then _ else _)) as [[l1 r1] f1] eqn:E. inv H. eapply TAIL; eauto.
Qed.

(* ------------------------------------------------------------------ a composed run is a producer run *)
Lemma run_app : forall c a s b,
  run c s (a ++ b) = let '(s1, t1) := run c s a in let '(s2, t2) := run c s1 b in (s2, t1 ++ t2).
Proof.
  induction a as [|e a IH]; simpl; intros s b.
  - destruct (run c s b); reflexivity.
  - destruct (step c s e) as [s1 o1]. rewrite IH. destruct (run c s1 a) as [s2 t2]. destruct (run c s2 b); reflexivity.
Qed.

Lemma cstep_spec : forall c s lg ce s' lg' ents, cstep c s lg ce = (s', lg', ents) ->
  grows lg lg' /\
  ((ents = [] /\ s' = s) \/
   exists e o, ents = [(e, o)] /\ step c s e = (s', o) /\
     forall v, value_of e = Some v ->
       (exists req pl rs fs, request_of s = Some req /\ serve (c_acks c) req pl lg = (lg', rs, fs) /\
                             v = mk_value (c_acks c) rs fs) \/
       (exists k, v = VKafka k \/ v = VOther k)).
Proof.
  intros c s lg ce s' lg' ents H. destruct ce as [e|pl|kafka k|[pl|]|kafka k]; unfold cstep in H.
  - assert (G : forall o, step c s e = (s', o) -> lg' = lg -> ents = [(e, o)] -> value_of e = None ->
                grows lg lg' /\ ((ents = [] /\ s' = s) \/ exists e0 o0, ents = [(e0, o0)] /\ step c s e0 = (s', o0) /\
                  forall v, value_of e0 = Some v -> (exists req pl rs fs, request_of s = Some req /\ serve (c_acks c) req pl lg = (lg', rs, fs) /\ v = mk_value (c_acks c) rs fs) \/ (exists k, v = VKafka k \/ v = VOther k))).
    { intros o S -> -> V. split; [apply grows_refl|]. right. exists e, o. splits; auto. intros v VV; congruence. }
    destruct e; try (destruct (step c s _) as [s1 o1] eqn:E; inv H; eapply G; eauto; fail).
    + inv H. split; [apply grows_refl|left; auto].
    + inv H. split; [apply grows_refl|left; auto].
    + inv H. split; [apply grows_refl|left; auto].
    + destruct cv; [inv H; split; [apply grows_refl|left; auto]|].
      destruct (step c s _) as [s1 o1] eqn:E; inv H; eapply G; eauto.
  - destruct (request_of s) as [req|] eqn:R; [|inv H; split; [apply grows_refl|left; auto]].
    destruct (serve (c_acks c) req pl lg) as [[l1 rs] fs] eqn:E.
    destruct (step c s _) as [s1 o1] eqn:S. inv H. split; [eapply serve_grows; eauto|].
    right. eexists; eexists; splits; eauto. intros v V. inv V. left. exists req, pl, rs, fs. auto.
  - destruct (step c s _) as [s1 o1] eqn:S. inv H. split; [apply grows_refl|].
    right. eexists; eexists; splits; eauto. intros v V. inv V. right. exists k. destruct kafka; auto.
  - destruct (request_of s) as [req|] eqn:R.
    + destruct (serve (c_acks c) req pl lg) as [[l1 rs] fs] eqn:E.
      destruct (step c s _) as [s1 o1] eqn:S. inv H. split; [eapply serve_grows; eauto|].
      right. eexists; eexists; splits; eauto. intros v V. inv V. left. exists req, pl, rs, fs. auto.
    + destruct (step c s _) as [s1 o1] eqn:S. inv H. split; [apply grows_refl|].
      right. eexists; eexists; splits; eauto. intros v V; discriminate.
  - destruct (step c s _) as [s1 o1] eqn:S. inv H. split; [apply grows_refl|].
    right. eexists; eexists; splits; eauto. intros v V; discriminate.
  - destruct (step c s _) as [s1 o1] eqn:S. inv H. split; [apply grows_refl|].
    right. eexists; eexists; splits; eauto. intros v V. inv V. right. exists k. destruct kafka; auto.
Qed.

(* the composed runs are honest: results come from the cluster, which accounts for every payload *)
Lemma cstep_honest : forall c s lg ce s' lg' ents, cstep c s lg ce = (s', lg', ents) ->
  Forall (fun eo : event * list output => honest_ev (fst eo) = true) ents.
Proof.
  intros c s lg ce s' lg' ents H. destruct ce as [e|pl|kafka k|[pl|]|kafka k]; unfold cstep in H.
  - destruct e; try (destruct (step c s _) as [s1 o1]; inv H; repeat constructor; fail); try (inv H; constructor).
    destruct cv; [inv H; constructor|]. destruct (step c s _) as [s1 o1]; inv H; repeat constructor.
  - destruct (request_of s) as [req|]; [|inv H; constructor].
    destruct (serve (c_acks c) req pl lg) as [[l1 rs] fs]. destruct (step c s _) as [s1 o1]. inv H. repeat constructor.
  - destruct (step c s _) as [s1 o1]. inv H. repeat constructor.
  - destruct (request_of s) as [req|].
    + destruct (serve (c_acks c) req pl lg) as [[l1 rs] fs]. destruct (step c s _) as [s1 o1]. inv H. repeat constructor.
    + destruct (step c s _) as [s1 o1]. inv H. repeat constructor.
  - destruct (step c s _) as [s1 o1]. inv H. repeat constructor.
  - destruct (step c s _) as [s1 o1]. inv H. repeat constructor.
Qed.

Lemma crun_honest : forall c ces s lg s' lg' tr, crun c s lg ces = (s', lg', tr) -> honest (map fst tr).
Proof.
  induction ces as [|ce r IH]; simpl; intros s lg s' lg' tr H.
  - inv H. constructor.
  - destruct (cstep c s lg ce) as [[s1 lg1] t1] eqn:E. destruct (crun c s1 lg1 r) as [[s2 lg2] t2] eqn:E2. inv H.
    rewrite map_app. apply Forall_app; split; [|eapply IH; eauto].
    apply cstep_honest in E. clear - E. induction t1; simpl; [constructor|]. inversion E; subst. constructor; auto.
Qed.

Lemma crun_snoc : forall c ces s lg ce,
  crun c s lg (ces ++ [ce]) =
  let '(s1, lg1, t1) := crun c s lg ces in let '(s2, lg2, t2) := cstep c s1 lg1 ce in (s2, lg2, t1 ++ t2).
Proof.
  induction ces as [|a ces IH]; simpl; intros s lg ce.
  - destruct (cstep c s lg ce) as [[s1 lg1] t1]. rewrite app_nil_r; reflexivity.
  - destruct (cstep c s lg a) as [[s1 lg1] t1]. rewrite IH. destruct (crun c s1 lg1 ces) as [[s2 lg2] t2].
    destruct (cstep c s2 lg2 ce) as [[s3 lg3] t3]. rewrite app_assoc; reflexivity.
Qed.

Lemma snoc_split : forall (A : Type) (a b c : list A) (x y : A), a ++ [x] = b ++ y :: c ->
  (c = [] /\ a = b /\ x = y) \/ (exists c', c = c' ++ [x] /\ a = b ++ y :: c').
Proof.
  intros A a b c x y H. destruct c as [|z c] using rev_ind.
  - left. apply app_inj_tail in H as [-> ->]; auto.
  - right. clear IHc. exists c. rewrite app_comm_cons, app_assoc in H. apply app_inj_tail in H as [-> ->]; auto.
Qed.

Lemma NoDup_map_filter : forall (A B : Type) (f : A -> B) (g : A -> bool) (l : list A),
  NoDup (map f l) -> NoDup (map f (filter g l)).
Proof.
  induction l as [|a l IH]; simpl; intros N; auto. inversion N; subst.
  destruct (g a); simpl; auto. constructor; auto.
  intros I. apply H1. apply in_map_iff in I as (z & Z1 & Z2). apply filter_In in Z2 as [Z2 _].
  apply in_map_iff; eauto.
Qed.

(* ------------------------------------------------------------------ the composed statement *)
Definition logged (lg : logs) (evs : list event) (sid t p off : Z) : Prop :=
  exists x ms pre post, In x (accepted 0 evs) /\ s_id x = sid /\ s_topic x = t /\ contiguous x ms /\
    log_of lg (t, p) = pre ++ ms ++ post /\ Z.of_nat (length pre) = off.

Lemma logged_mono : forall lg lg' evs more sid t p off,
  grows lg lg' -> logged lg evs sid t p off -> logged lg' (evs ++ more) sid t p off.
Proof.
  intros lg lg' evs more sid t p off G (x & ms & pre & post & A & B & C & D & E & F).
  destruct (G (t, p)) as (m & GM). exists x, ms, pre, (post ++ m). splits; auto.
  - rewrite accepted_app. apply in_or_app; auto.
  - rewrite GM, E, <- !app_assoc; auto.
Qed.

Section Composed.
Variables (c : cfg) (has_t : bool) (api0 : Z) (cache0 : list (Z * (Z * bool))).
Let s0 := init_state has_t api0 cache0.

Lemma composed_run : forall ces s lg tr, crun c s0 [] ces = (s, lg, tr) ->
  run c s0 (map fst tr) = (s, tr) /\
  forall tr1 e outs tr2 sid t p err off, tr = tr1 ++ (e, outs) :: tr2 ->
    In (OOutcome sid (OResp t p err off)) outs -> logged lg (map fst tr) sid t p off.
Proof.
  induction ces as [|ce ces IH] using rev_ind; intros s lg tr H.
  - inv H. split; [reflexivity|]. intros tr1 e outs tr2 ? ? ? ? ? E. destruct tr1; discriminate.
  - rewrite crun_snoc in H. destruct (crun c s0 [] ces) as [[s1 lg1] t1] eqn:E1.
    destruct (cstep c s1 lg1 ce) as [[s2 lg2] t2] eqn:E2. inv H.
    destruct (IH _ _ _ eq_refl) as [R1 G1].
    pose proof (crun_honest _ _ _ _ _ _ _ E1) as HN1.
    pose proof (cstep_honest _ _ _ _ _ _ _ E2) as HN2.
    destruct (cstep_spec _ _ _ _ _ _ _ E2) as [GR [[-> ->]|(e2 & o2 & -> & ST & VAL)]].
    + rewrite app_nil_r. split; auto. intros. rewrite <- (app_nil_r (map fst t1)).
      eapply logged_mono; eauto.
    + assert (R2 : run c s0 (map fst (t1 ++ [(e2, o2)])) = (s, t1 ++ [(e2, o2)])).
      { rewrite map_app, run_app, R1. simpl. rewrite ST. reflexivity. }
      split; auto. intros tr1 e outs tr2 sid t p err off E I.
      apply snoc_split in E as [(-> & -> & EQ)|(tr2' & -> & ->)].
      * inv EQ.
        assert (HN : honest (map fst (tr1 ++ [(e, outs)]))).
        { rewrite map_app. apply Forall_app; split; auto. inversion HN2; subst. repeat constructor; auto. }
        destruct (success_truthful c has_t api0 cache0 _ _ _ _ _ _ _ _ _ _ _ _ HN R2 eq_refl I)
          as (A & -> & v & pls' & ms & x & V & AK & LP & IP & X1 & X2 & X3 & _ & X4).
        destruct (VAL _ V) as [(req & pl & rs & fs & RQ & SV & ->)|(k & [-> | ->])]; [|destruct AK|destruct AK].
        pose proof (run_inv _ _ _ _ _ _ _ HN1 R1) as INV.
        unfold request_of in RQ. destruct (ph s1) as [| | |pls cur|] eqn:P; try discriminate. injection RQ as <-.
        pose proof (i_prod _ _ _ _ INV) as IPR. rewrite P in IPR. unfold viewf in IPR. rewrite IPR in LP. injection LP as <-.
        pose proof (i_wf _ _ _ _ INV) as W. unfold phase_wf in W. rewrite P in W. destruct W as [[ND _] _].
        assert (ND' : NoDup (map fst (map payload_view (filter (fun p0 : payload => tpmem (p_tp p0) cur) pls)))).
        { rewrite map_map. simpl. apply NoDup_map_filter; auto. }
        assert (AR : In ((t, p), 0, off) rs).
        { unfold mk_value in AK. destruct fs; [destruct (c_acks c =? 0); [destruct AK|exact AK]|exact AK]. }
        destruct (serve_ack _ _ _ _ _ _ _ _ _ _ SV ND' IP AR) as (pre & post & L1 & L2).
        exists x, ms, pre, post. splits; auto.
      * rewrite map_app. eapply logged_mono; eauto.
Qed.

(* acks = 0: a send fires with None only if the cluster was given its payload (the request was not lost on the way) *)
Lemma serve_not_lost : forall req acks pl lg lg' rs fs x ms,
  serve acks req pl lg = (lg', rs, fs) -> In (x, ms) req -> ~ In x (map fst fs) ->
  forall k app, plan_get pl x <> RLost k app.
Proof.
  induction req as [|[y ms0] r IH]; simpl; intros acks pl lg lg' rs fs x ms H I NF k app E; [destruct I|].
  destruct I as [I|I].
  - inv I. rewrite E in H. destruct (serve acks r pl _) as [[l1 r1] f1]. inv H. apply NF. left; reflexivity.
  - destruct (plan_get pl y) as [|e a|k' a].
    + destruct (serve acks r pl _) as [[l1 r1] f1] eqn:S. inv H. eapply IH; eauto.
    + destruct (e =? 0); destruct (serve acks r pl _) as [[l1 r1] f1] eqn:S; inv H; eapply IH; eauto.
    + destruct (serve acks r pl _) as [[l1 r1] f1] eqn:S. inv H. eapply IH; eauto. intros X; apply NF; right; auto.
Qed.

Definition served (c : cfg) (tr1 : list (event * list output)) (x : send) (p : Z) (ms : list (Z * Z)) : Prop :=
  exists req pl lg0 lg1 rs fs, last_produce tr1 = Some req /\ In ((s_topic x, p), ms) req /\
    serve (c_acks c) req pl lg0 = (lg1, rs, fs) /\ (forall k app, plan_get pl (s_topic x, p) <> RLost k app).

Lemma composed_none : forall ces s lg tr, crun c s0 [] ces = (s, lg, tr) ->
  forall tr1 e outs tr2 sid, tr = tr1 ++ (e, outs) :: tr2 -> In (OOutcome sid ONone) outs ->
  c_acks c = 0 /\ exists x p ms, In x (accepted 0 (map fst tr)) /\ s_id x = sid /\ contiguous x ms /\ served c tr1 x p ms.
Proof.
  induction ces as [|ce ces IH] using rev_ind; intros s lg tr H.
  - inv H. intros tr1 e outs tr2 sid E. destruct tr1; discriminate.
  - rewrite crun_snoc in H. destruct (crun c s0 [] ces) as [[s1 lg1] t1] eqn:E1.
    destruct (cstep c s1 lg1 ce) as [[s2 lg2] t2] eqn:E2. inv H.
    destruct (composed_run _ _ _ _ E1) as [R1 _].
    pose proof (crun_honest _ _ _ _ _ _ _ E1) as HN1.
    pose proof (cstep_honest _ _ _ _ _ _ _ E2) as HN2.
    destruct (cstep_spec _ _ _ _ _ _ _ E2) as [GR [[-> ->]|(e2 & o2 & -> & ST & VAL)]].
    + rewrite app_nil_r. eapply IH; eauto.
    + intros tr1 e outs tr2 sid E I.
      assert (R2 : run c s0 (map fst (t1 ++ [(e2, o2)])) = (s, t1 ++ [(e2, o2)])).
      { rewrite map_app, run_app, R1. simpl. rewrite ST. reflexivity. }
      apply snoc_split in E as [(-> & -> & EQ)|(tr2' & -> & ->)].
      * inv EQ.
        assert (HN : honest (map fst (tr1 ++ [(e, outs)]))).
        { rewrite map_app. apply Forall_app; split; auto. inversion HN2; subst. repeat constructor; auto. }
        destruct (success_none_truthful c has_t api0 cache0 _ _ _ _ _ _ _ _ HN R2 eq_refl I)
          as (A & v & pls' & p & ms & x & V & X1 & X2 & HO & LP & IP & CT).
        split; auto. exists x, p, ms. splits; auto.
        destruct (VAL _ V) as [(req & pl & rs & fs & RQ & SV & ->)|(k & [-> | ->])]; [|destruct HO|destruct HO].
        pose proof (run_inv _ _ _ _ _ _ _ HN1 R1) as INV.
        unfold request_of in RQ. destruct (ph s1) as [| | |pls cur|] eqn:P; try discriminate. injection RQ as <-.
        pose proof (i_prod _ _ _ _ INV) as IPR. rewrite P in IPR. unfold viewf in IPR. rewrite IPR in LP. injection LP as <-.
        eexists; exists pl, lg1, lg, rs, fs. splits; eauto.
        eapply serve_not_lost; eauto.
        unfold mk_value in HO. destruct fs; [intros []|]. destruct HO as [_ HO]. exact HO.
      * destruct (IH _ _ _ eq_refl _ _ _ _ _ eq_refl I) as (A & x & p & ms & X1 & X2 & CT & SV). split; auto.
        exists x, p, ms. splits; auto. rewrite map_app, accepted_app. apply in_or_app; auto.
Qed.

Lemma composed_truthful : forall ces s lg tr tr1 e outs tr2 sid t p err off,
  crun c s0 [] ces = (s, lg, tr) -> tr = tr1 ++ (e, outs) :: tr2 ->
  In (OOutcome sid (OResp t p err off)) outs -> logged lg (map fst tr) sid t p off.
Proof. intros. eapply (proj2 (composed_run _ _ _ _ H)); eauto. Qed.
End Composed.
