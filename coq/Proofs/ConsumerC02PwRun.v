(* PW (processor-call window) at the level of events and whole runs. *)
From Coq Require Import Lia.
From AV Require Import Base.Util Model.Consumer Model.ConsumerLog Proofs.ConsumerC02Wp Proofs.ConsumerC02Pw.

Notation J := (PInv (false, false) None).

Lemma J_pend s : J s -> forallb pw_neutral (s_pend s) = true.
Proof. unfold PInv. intro K. repeat (apply andb_prop in K; destruct K as [K ?]). assumption. Qed.

Lemma pw_ret_none s v : pw_out (pw_abs None s) (ORet v) = Some (pw_abs None s).
Proof. unfold pw_abs. cbn. destruct (s_proc s) as [[[? ?] ?]|]; reflexivity. Qed.
Lemma pw_raised_none s v : pw_out (pw_abs None s) (ORaised v) = Some (pw_abs None s).
Proof. unfold pw_abs. cbn. destruct (s_proc s) as [[[? ?] ?]|]; reflexivity. Qed.
(* the return of an API call made by the application (not from inside the processor) *)
Ltac p_emit_api :=
  lazymatch goal with
  | |- wp _ (emit (ORet _)) _ ?g ?st =>
    eapply p_eq with (w := @None (Z * Z)) (s := st); [ solve [psolve] |
      apply wp_emit; eexists; split; [ apply pw_ret_none | cbn beta iota ] ]
  | |- wp _ (emit (ORaised _)) _ ?g ?st =>
    eapply p_eq with (w := @None (Z * Z)) (s := st); [ solve [psolve] |
      apply wp_emit; eexists; split; [ apply pw_raised_none | cbn beta iota ] ]
  end.
Ltac p_flush :=
  lazymatch goal with
  | |- wp _ (fun s' : state => (Ok tt, s', ?l)) _ ?g _ =>
    apply wp_emits; exists g; split; [ apply neutral_pw; first [ apply J_pend; assumption | solve [psolve] ] | cbn beta iota ]
  end.

Section Ev.
Variable fuel : nat.
Notation rec := (run fuel).
Let Hrec := p_run fuel.

Ltac wcond := first [ assumption | solve [intro; discriminate] | solve [cbn; intros; congruence] | solve [psolve] ].
Ltac pinv_arg := try (match goal with K : PInv ?d0 _ _ |- PInv ?e _ _ => is_evar e; unify e d0 end); solve [psolve].
Ltac cE := idtac; first [ c8 | lazymatch goal with
  | |- wp _ (run fuel (KFireProc _)) _ _ _ => fail
  | |- wp _ (run fuel KStop) _ _ _ => fail
  | |- wp _ (run fuel (KProcLoop _)) _ _ _ => fail
  | |- wp _ (run fuel (KFetchResp _ _)) _ _ _ =>
    eapply p_eq with (w := @None (Z * Z)); [ solve [psolve] |
      eapply wp_call; [ eapply (Hrec_fetch rec Hrec); [ pinv_arg | wcond ] | after_call ] ]
  | |- wp _ (run fuel _) _ _ _ =>
    eapply p_eq with (w := @None (Z * Z)); [ solve [psolve] |
      eapply wp_call; [ eapply (Hrec_plain rec Hrec); [ pinv_arg | exact I ] | after_call ] ]
  | |- wp _ (handle_commit_error _ _ _ _) _ _ _ =>
    eapply p_eq with (w := @None (Z * Z)); [ solve [psolve] |
      eapply wp_call; [ eapply (p_handle_commit_error rec Hrec); pinv_arg | after_call ] ]
  end ].

Ltac ev_auto := solve [ repeat (first [ p_flush | p_stif | p_emit_api | p_emit | wp_step cE ]); p_done ].
Lemma pe_handle e s : J s -> ww (handle fuel e) (PQ (false, false) None) (pw_ev (pw_abs None s) e) s.
Proof.
  intro K. unfold handle. destruct e; cbn [pw_ev].
  all: unfold handle_offset_response, flush_pend, api_commit, api_shutdown.
  - (* EStart *) ev_auto.
  - (* EStop *) apply wp_bind, wp_get. cbn beta iota. unfold api_stop. apply wp_bind, wp_try.
    eapply wp_conseq; [ apply (Hrec KStop (false, false) None); cbn; repeat split; auto |].
    intros r g' s' [-> H]. cbn beta iota.
    assert (K' : J s') by (destruct H as [H | (_ & _ & H)]; [ clear - H; psolve | exact H ]).
    apply wp_bind, wp_get. cbn beta iota.
    destruct r; repeat (first [ p_emit_api | wp_step cE ]); p_done.
  - (* EShutdown *) pose proof (J_pend _ K) as NPs. ev_auto.
  - (* ECommit *) ev_auto.
  - (* EReqOk *) ev_auto.
  - (* EFetchOk *) ev_auto.
  - (* EReqFail *) ev_auto.
  - (* EPlan *) ev_auto.
  - (* EProcFire *) apply wp_bind, wp_get. cbn beta iota.
    destruct (s_proc s) as [[[l rest] c]|] eqn:SP.
    + apply wp_swallow. eapply wp_conseq; [ apply (Hrec (KFireProc (if ok then None else Some FK_PROC)) (false, false) None) |].
      * cbn [PreD]. rewrite SP. repeat split; auto. unfold pw_abs, fired. rewrite SP. cbn. destruct ok; reflexivity.
      * intros r g' s' [-> [H | (E & _)]]; [| discriminate E]. split; [reflexivity | exact H].
    + unfold pw_abs. rewrite SP. cbn [w_st]. apply wp_emit. eexists. split; [reflexivity|].
      split; [unfold pw_abs; rewrite SP; reflexivity | exact K].
  - (* ECommitOk *) ev_auto.
  - (* ECommitFail *) ev_auto.
  - (* EFireRetry *) ev_auto.
  - (* EFireCommitRetry *) ev_auto.
  - (* ETick *) ev_auto.
Qed.

Lemma pe_step s e s' o : J s -> step fuel s e = (s', o) -> fuel_ok o = true ->
  gouts pw_out (pw_ev (pw_abs None s) e) o = Some (pw_abs None s') /\ J s'.
Proof.
  intros K E F. unfold step in E.
  destruct ((handle fuel e;;; s'0 <- get;; emit (OEnd (s_lp s'0) (s_lc s'0))) s) as [[r s1] o1] eqn:E1.
  inversion E; subst s1 o1; clear E.
  assert (W : ww (handle fuel e;;; s'0 <- get;; emit (OEnd (s_lp s'0) (s_lc s'0))) (PQ (false, false) None) (pw_ev (pw_abs None s) e) s).
  { apply wp_bind. eapply wp_call; [ apply pe_handle; exact K |].
    intros r0 g' s0 [-> K0]. destruct r0; cbn beta iota; [| split; auto].
    apply wp_bind, wp_get. cbn beta iota. apply wp_emit. eexists. split.
    - unfold pw_abs. cbn [pw_out w_lp]. rewrite oz_eqb_refl. reflexivity.
    - split; [reflexivity | exact K0]. }
  destruct (W _ _ _ E1 F) as (g' & Hg & -> & K'). auto.
Qed.
End Ev.

Lemma J_init c m b : 0 <= c_acn c -> J (init c m b).
Proof. intro H. unfold PInv, init. cbn. apply Z.leb_le in H. rewrite H. reflexivity. Qed.

(* the monitor PW accepts every run of the model that does not run out of fuel (auto_commit_every_n >= 0, as the
   constructor checks) *)
Theorem pw_monitor_accepts fuel c maxatt buf evs :
  0 <= c_acn c -> run_fuel_ok fuel c maxatt buf evs = true ->
  mon_run pw_ev pw_out pw0 (model_obs fuel c maxatt buf evs)
  = Some (pw_abs None (fst (run_events fuel (init c maxatt buf) evs))).
Proof.
  intros A F. unfold model_obs, run_fuel_ok in *.
  change pw0 with (pw_abs None (init c maxatt buf)).
  refine (proj1 (mon_run_abs gpw pw_out pw_ev (pw_abs None) J _ fuel evs _ (J_init _ _ _ A) F)).
  intros. eapply pe_step; eauto.
Qed.
