(* Request-table invariant of Model/BrokerClient.v and the effect of every table operation. *)
From AV Require Import Base.Util Proofs.UtilFacts Model.Framing Model.BrokerClient.
From Coq Require Import Lia Sorting.Sorted.

(* ------------------------------------------------------------------ the dictionary operations *)
Lemma lookup_some rid rs r : lookup rid rs = Some r -> In r rs /\ r_id r = rid.
Proof. unfold lookup. intro H. apply find_some in H. destruct H as [H1 H2]. apply Z.eqb_eq in H2. auto. Qed.

Lemma lookup_none rid rs : lookup rid rs = None -> forall r, In r rs -> r_id r <> rid.
Proof. unfold lookup. intros H r Hr E. apply (find_none _ _ H) in Hr. apply Z.eqb_neq in Hr. auto. Qed.

Lemma lookup_nodup rid rs r : NoDup (map r_id rs) -> In r rs -> r_id r = rid -> lookup rid rs = Some r.
Proof.
  unfold lookup. induction rs as [|x rs IH]; intros ND Hin E; [contradiction|].
  cbn [map] in ND. inversion ND as [|? ? Hx ND']; subst. cbn [find].
  destruct Hin as [->|Hin].
  - rewrite Z.eqb_refl. reflexivity.
  - destruct (r_id x =? r_id r) eqn:Ex.
    + apply Z.eqb_eq in Ex. exfalso. apply Hx. rewrite Ex. apply in_map. exact Hin.
    + apply IH; auto.
Qed.

Lemma in_del rid rs r : In r (del rid rs) <-> In r rs /\ r_id r <> rid.
Proof.
  unfold del. rewrite filter_In. split; intros [H1 H2]; split; auto.
  - apply negb_true_iff in H2. apply Z.eqb_neq in H2. exact H2.
  - apply negb_true_iff. apply Z.eqb_neq. exact H2.
Qed.

Lemma in_upd rid f rs r' : In r' (upd rid f rs) <->
  exists r, In r rs /\ r' = (if r_id r =? rid then f r else r).
Proof. unfold upd. rewrite in_map_iff. split; intros (r & A & B); exists r; auto. Qed.

Lemma map_id_upd rid f rs : (forall r, r_id (f r) = r_id r) -> map r_id (upd rid f rs) = map r_id rs.
Proof. intro Hf. unfold upd. rewrite map_map. apply map_ext. intro r. destruct (r_id r =? rid); auto. Qed.
Lemma map_h_upd rid f rs : (forall r, r_h (f r) = r_h r) -> map r_h (upd rid f rs) = map r_h rs.
Proof. intro Hf. unfold upd. rewrite map_map. apply map_ext. intro r. destruct (r_id r =? rid); auto. Qed.

Lemma NoDup_map_filter {A B} (g : A -> B) p l : NoDup (map g l) -> NoDup (map g (filter p l)).
Proof.
  induction l as [|x l IH]; cbn; intro H; [constructor|]. inversion H as [|? ? Hx H']; subst.
  destruct (p x); cbn; auto. constructor; auto. intro Hin. apply Hx.
  apply in_map_iff in Hin. destruct Hin as (y & E & Hy). apply filter_In in Hy. rewrite <- E. apply in_map. tauto.
Qed.

Lemma SSorted_map_filter {A} (g : A -> nat) p l :
  StronglySorted lt (map g l) -> StronglySorted lt (map g (filter p l)).
Proof.
  induction l as [|x l IH]; cbn; intro H; [constructor|]. inversion H as [|? ? H1 H2]; subst.
  destruct (p x); cbn; auto. constructor; auto.
  rewrite Forall_forall in *. intros y Hy. apply H2.
  apply in_map_iff in Hy. destruct Hy as (z & E & Hz). apply filter_In in Hz. rewrite <- E. apply in_map. tauto.
Qed.

Lemma SSorted_app_last l x : StronglySorted lt l -> (forall y, In y l -> y < x)%nat -> StronglySorted lt (l ++ [x]).
Proof.
  induction 1 as [|a l H IH F]; intro Hx; cbn.
  - constructor; constructor.
  - constructor.
    + apply IH. intros y Hy. apply Hx. right. exact Hy.
    + rewrite Forall_forall in *. intros y Hy. apply in_app_iff in Hy. destruct Hy as [Hy|[<-|[]]].
      * apply F. exact Hy.
      * apply Hx. left. reflexivity.
Qed.

Lemma SSorted_lt_NoDup l : StronglySorted lt l -> NoDup l.
Proof.
  induction 1 as [|a l H IH F]; constructor; auto.
  intro Hin. rewrite Forall_forall in F. specialize (F a Hin). lia.
Qed.

(* two strictly increasing lists with the same elements are equal *)
Lemma SSorted_lt_ext l1 : forall l2, StronglySorted lt l1 -> StronglySorted lt l2 ->
  (forall x, In x l1 <-> In x l2) -> l1 = l2.
Proof.
  induction l1 as [|a l1 IH]; intros l2 S1 S2 E.
  - destruct l2 as [|b l2]; [reflexivity|]. exfalso. apply (E b). left. reflexivity.
  - destruct l2 as [|b l2]; [exfalso; apply (E a); left; reflexivity|].
    inversion S1 as [|? ? S1' F1]; inversion S2 as [|? ? S2' F2]; subst.
    rewrite Forall_forall in F1, F2.
    assert (a = b).
    { destruct (proj1 (E a) (or_introl eq_refl)) as [->|Ha]; [reflexivity|].
      destruct (proj2 (E b) (or_introl eq_refl)) as [->|Hb]; [reflexivity|].
      specialize (F1 b Hb). specialize (F2 a Ha). lia. }
    subst b. f_equal. apply IH; auto. intro x. split; intro Hx.
    + destruct (proj1 (E x) (or_intror Hx)) as [->|H]; [|exact H]. specialize (F1 _ Hx). lia.
    + destruct (proj2 (E x) (or_intror Hx)) as [->|H]; [|exact H]. specialize (F2 _ Hx). lia.
Qed.

Lemma memb_In h l : existsb (Nat.eqb h) l = true <-> In h l.
Proof.
  rewrite existsb_exists. split.
  - intros (x & Hx & E). apply Nat.eqb_eq in E. subst. exact Hx.
  - intro H. exists h. split; [exact H | apply Nat.eqb_refl].
Qed.
Lemma memb_nIn h l : existsb (Nat.eqb h) l = false <-> ~ In h l.
Proof.
  split.
  - intros H Hin. apply memb_In in Hin. congruence.
  - intro H. destruct (existsb (Nat.eqb h) l) eqn:E; auto. apply memb_In in E. contradiction.
Qed.

(* ------------------------------------------------------------------ the invariant of the table *)
Definition entry_ok (t : tbl) (r : req) : Prop :=
  nth_error (t_dlog t) (r_h r) = Some (r_id r)
  /\ (r_cancelled r = true -> r_sent r = true)
  /\ (r_cancelled r = false -> ~ In (r_h r) (t_fired t))
  /\ (r_cancelled r = true -> In (r_h r) (t_fired t)).

Record TInv (t : tbl) : Prop := {
  ti_ids : NoDup (map r_id (t_reqs t));                       (* dictionary keys are unique *)
  ti_sorted : StronglySorted lt (map r_h (t_reqs t));         (* dictionary order = issue order *)
  ti_entries : Forall (entry_ok t) (t_reqs t);
  ti_fired_lt : forall h, In h (t_fired t) -> (h < length (t_dlog t))%nat;
  ti_fired_nodup : NoDup (t_fired t);
  (* a Deferred that has not fired is in the table *)
  ti_complete : forall h, (h < length (t_dlog t))%nat -> ~ In h (t_fired t) -> exists r, In r (t_reqs t) /\ r_h r = h
}.

Lemma TInv_handles_nodup t : TInv t -> NoDup (map r_h (t_reqs t)).
Proof. intros [_ S _ _ _ _]. apply SSorted_lt_NoDup. exact S. Qed.

Lemma TInv_entry t r : TInv t -> In r (t_reqs t) -> entry_ok t r.
Proof. intros [_ _ E _ _ _] H. rewrite Forall_forall in E. auto. Qed.

Lemma TInv_h_inj t r1 r2 : TInv t -> In r1 (t_reqs t) -> In r2 (t_reqs t) -> r_h r1 = r_h r2 -> r1 = r2.
Proof.
  intros T. pose proof (TInv_handles_nodup t T) as ND. revert ND. generalize (t_reqs t) as l.
  induction l as [|x l IH]; intros ND H1 H2 E; [contradiction|]. cbn in ND. inversion ND as [|? ? Hx ND']; subst.
  destruct H1 as [->|H1], H2 as [->|H2]; auto.
  - exfalso. apply Hx. rewrite E. apply in_map. exact H2.
  - exfalso. apply Hx. rewrite <- E. apply in_map. exact H1.
Qed.

Lemma TInv_id_inj t r1 r2 : TInv t -> In r1 (t_reqs t) -> In r2 (t_reqs t) -> r_id r1 = r_id r2 -> r1 = r2.
Proof.
  intros [ND _ _ _ _ _]. revert ND. generalize (t_reqs t) as l.
  induction l as [|x l IH]; intros ND H1 H2 E; [contradiction|]. cbn in ND. inversion ND as [|? ? Hx ND']; subst.
  destruct H1 as [->|H1], H2 as [->|H2]; auto.
  - exfalso. apply Hx. rewrite E. apply in_map. exact H2.
  - exfalso. apply Hx. rewrite <- E. apply in_map. exact H1.
Qed.

(* the entry of an unfired Deferred: found through the id bound into its canceller *)
Lemma TInv_unfired t h rid : TInv t -> nth_error (t_dlog t) h = Some rid -> ~ In h (t_fired t) ->
  exists r, lookup rid (t_reqs t) = Some r /\ In r (t_reqs t) /\ r_h r = h /\ r_id r = rid /\ r_cancelled r = false.
Proof.
  intros T Hn Hf.
  assert (h < length (t_dlog t))%nat as Hl by (apply nth_error_Some; congruence).
  destruct (ti_complete t T h Hl Hf) as (r & Hr & Eh).
  destruct (TInv_entry t r T Hr) as (E1 & E2 & E3 & E4).
  rewrite Eh in E1. assert (r_id r = rid) by congruence.
  exists r. repeat split; auto.
  - apply lookup_nodup; auto. apply (ti_ids t T).
  - destruct (r_cancelled r) eqn:C; [|reflexivity]. exfalso. apply Hf. rewrite <- Eh. auto.
Qed.

(* ------------------------------------------------------------------ scanning a trace
   [scan d fired outs]: read the outputs left to right, starting with the set [fired] of fired Deferreds;
   None as soon as a Deferred fires twice, a request is written after its Deferred fired, a success value does
   not carry the id its Deferred was created with (per [d], handle -> correlation id), a write carries another id
   than its request, or an anomaly (OErr, KeyError in the canceller) shows up. *)
Definition memb (h : nat) (l : list nat) : bool := existsb (Nat.eqb h) l.

Definition id_of (d : list Z) (h : nat) (rid : Z) : bool :=
  match nth_error d h with Some b => rid =? b | None => false end.

Definition outcome_ok (d : list Z) (h : nat) (o : outcome) : bool :=
  match o with
  | Succ f => match corr_id f with Some a => id_of d h a | None => false end
  | _ => true
  end.

Fixpoint scan (d : list Z) (fired : list nat) (outs : list output) : option (list nat) :=
  match outs with
  | [] => Some fired
  | o :: r =>
      match o with
      | ODef h oc => if memb h fired then None
                     else if outcome_ok d h oc then scan d (h :: fired) r else None
      | OWrite h rid => if memb h fired then None else if id_of d h rid then scan d fired r else None
      | OErr _ _ => None
      | ORaised k => if k =? 5 then None else scan d fired r
      | _ => scan d fired r
      end
  end.

Lemma scan_app d : forall a b f, scan d f (a ++ b) = match scan d f a with Some f' => scan d f' b | None => None end.
Proof.
  induction a as [|o a IH]; intros b f; cbn [app scan]; [reflexivity|].
  destruct o; try apply IH.
  - destruct (memb h f); [reflexivity|]. destruct (id_of d h rid); [apply IH | reflexivity].
  - destruct (memb h f); [reflexivity|]. destruct (outcome_ok d h o); [apply IH | reflexivity].
  - destruct (k =? 5); [reflexivity | apply IH].
  - reflexivity.
Qed.

Lemma id_of_app d x h rid : id_of d h rid = true -> id_of (d ++ x) h rid = true.
Proof.
  unfold id_of. destruct (nth_error d h) eqn:E; [|discriminate].
  rewrite nth_error_app1 by (apply nth_error_Some; congruence). rewrite E. auto.
Qed.

Lemma scan_dlog_app d x : forall outs f f', scan d f outs = Some f' -> scan (d ++ x) f outs = Some f'.
Proof.
  induction outs as [|o outs IH]; intros f f' H; cbn [scan] in *; [exact H|].
  destruct o; auto.
  - destruct (memb h f); [discriminate|]. destruct (id_of d h rid) eqn:E; [|discriminate].
    rewrite (id_of_app d x h rid E). auto.
  - destruct (memb h f); [discriminate|]. destruct (outcome_ok d h o) eqn:E; [|discriminate].
    replace (outcome_ok (d ++ x) h o) with true; auto.
    symmetry. destruct o; cbn in *; auto. destruct (corr_id frame); [|discriminate]. apply id_of_app. exact E.
  - destruct (k =? 5); [discriminate|]. auto.
Qed.

(* what an accepted scan tells about the trace *)
Lemma scan_incl d : forall outs f f', scan d f outs = Some f' -> incl f f'.
Proof.
  induction outs as [|o outs IH]; intros f f' H; cbn [scan] in H.
  - injection H as <-. apply incl_refl.
  - destruct o; eauto.
    + destruct (memb h f); [discriminate|]. destruct (id_of d h rid); [eauto | discriminate].
    + destruct (memb h f); [discriminate|]. destruct (outcome_ok d h o); [|discriminate].
      apply IH in H. intros x Hx. apply H. right. exact Hx.
    + destruct (k =? 5); [discriminate | eauto].
    + discriminate.
Qed.

Lemma scan_fired_silent d : forall outs f f' h, scan d f outs = Some f' -> In h f ->
  forall o, In o outs -> (forall oc, o <> ODef h oc) /\ (forall rid, o <> OWrite h rid).
Proof.
  induction outs as [|o outs IH]; intros f f' h H Hh x Hx; [contradiction|].
  cbn [scan] in H. destruct Hx as [<-|Hx].
  - split; intros y E; subst o; unfold memb in H; rewrite (proj2 (memb_In h f) Hh) in H; discriminate.
  - destruct o; try (eapply IH; eauto; fail).
    + destruct (memb h0 f); [discriminate|]. destruct (id_of d h0 rid); [eapply IH; eauto | discriminate].
    + destruct (memb h0 f); [discriminate|]. destruct (outcome_ok d h0 o); [|discriminate].
      eapply IH; eauto. right. exact Hh.
    + destruct (k =? 5); [discriminate | eapply IH; eauto].
    + discriminate.
Qed.

Lemma scan_no_anomaly d : forall outs f f', scan d f outs = Some f' ->
  forall o, In o outs -> (forall k h, o <> OErr k h) /\ o <> ORaised 5.
Proof.
  induction outs as [|o outs IH]; intros f f' H x Hx; [contradiction|].
  cbn [scan] in H. destruct Hx as [<-|Hx].
  - split; [intros k h E | intro E]; subst o; cbn in H; discriminate.
  - destruct o; try (eapply IH; eauto; fail).
    + destruct (memb h f); [discriminate|]. destruct (id_of d h rid); [eapply IH; eauto | discriminate].
    + destruct (memb h f); [discriminate|]. destruct (outcome_ok d h o); [eapply IH; eauto | discriminate].
    + destruct (k =? 5); [discriminate | eapply IH; eauto].
    + discriminate.
Qed.

(* the Deferreds fired by a trace, in order *)
Definition def_handles (outs : list output) : list nat :=
  flat_map (fun o => match o with ODef h _ => [h] | _ => [] end) outs.

Lemma scan_fired d : forall outs f f', scan d f outs = Some f' -> f' = rev (def_handles outs) ++ f.
Proof.
  induction outs as [|o outs IH]; intros f f' H; cbn [scan] in H.
  - injection H as <-. reflexivity.
  - destruct o; cbn [def_handles flat_map app]; try (apply IH; exact H; fail).
    + destruct (memb h f); [discriminate|]. destruct (id_of d h rid); [apply IH; exact H | discriminate].
    + destruct (memb h f); [discriminate|]. destruct (outcome_ok d h o); [|discriminate].
      apply IH in H. rewrite H. cbn [rev]. rewrite <- app_assoc. reflexivity.
    + destruct (k =? 5); [discriminate | apply IH; exact H].
    + discriminate.
Qed.

Lemma scan_success d : forall outs f f' h fr, scan d f outs = Some f' -> In (ODef h (Succ fr)) outs ->
  exists rid, corr_id fr = Some rid /\ nth_error d h = Some rid.
Proof.
  induction outs as [|o outs IH]; intros f f' h fr H Hin; [contradiction|].
  cbn [scan] in H. destruct Hin as [->|Hin].
  - destruct (memb h f); [discriminate|]. cbn [outcome_ok] in H. destruct (corr_id fr) as [a|]; [|discriminate].
    unfold id_of in H. destruct (nth_error d h) as [b|]; [|discriminate].
    destruct (a =? b) eqn:E; [|discriminate]. apply Z.eqb_eq in E. subst. eauto.
  - destruct o; try (eapply IH; eauto; fail).
    + destruct (memb h0 f); [discriminate|]. destruct (id_of d h0 rid); [eapply IH; eauto | discriminate].
    + destruct (memb h0 f); [discriminate|]. destruct (outcome_ok d h0 o); [eapply IH; eauto | discriminate].
    + destruct (k =? 5); [discriminate | eapply IH; eauto].
    + discriminate.
Qed.

Lemma scan_write d : forall outs f f' h rid, scan d f outs = Some f' -> In (OWrite h rid) outs ->
  nth_error d h = Some rid.
Proof.
  induction outs as [|o outs IH]; intros f f' h rid H Hin; [contradiction|].
  cbn [scan] in H. destruct Hin as [->|Hin].
  - destruct (memb h f); [discriminate|]. unfold id_of in H. destruct (nth_error d h) as [b|]; [|discriminate].
    destruct (rid =? b) eqn:E; [|discriminate]. apply Z.eqb_eq in E. congruence.
  - destruct o; try (eapply IH; eauto; fail).
    + destruct (memb h0 f); [discriminate|]. destruct (id_of d h0 rid0); [eapply IH; eauto | discriminate].
    + destruct (memb h0 f); [discriminate|]. destruct (outcome_ok d h0 o); [eapply IH; eauto | discriminate].
    + destruct (k =? 5); [discriminate | eapply IH; eauto].
    + discriminate.
Qed.

(* ------------------------------------------------------------------ table operations *)
(* what every table operation guarantees *)
Definition op_ok (t t' : tbl) (outs : list output) : Prop :=
  TInv t' /\ t_dlog t' = t_dlog t /\ scan (t_dlog t) (t_fired t) outs = Some (t_fired t').

Lemma fire_unfired t h o : ~ In h (t_fired t) ->
  fire t h o = (mkT (t_reqs t) (t_dlog t) (h :: t_fired t), [ODef h o]).
Proof. intro H. unfold fire, is_fired. rewrite (proj2 (memb_nIn h _) H). reflexivity. Qed.

Lemma entry_ok_same_tbl t t' r : t_dlog t' = t_dlog t -> t_fired t' = t_fired t -> entry_ok t r -> entry_ok t' r.
Proof. unfold entry_ok. intros -> ->. auto. Qed.

(* removing the entry of a Deferred and firing it *)
Lemma TInv_remove_fire t r : TInv t -> In r (t_reqs t) -> r_cancelled r = false ->
  TInv (mkT (del (r_id r) (t_reqs t)) (t_dlog t) (r_h r :: t_fired t)).
Proof.
  intros T Hr Hc. destruct (TInv_entry t r T Hr) as (E1 & E2 & E3 & E4). specialize (E3 Hc).
  constructor; cbn [t_reqs t_dlog t_fired].
  - apply NoDup_map_filter. apply (ti_ids t T).
  - apply SSorted_map_filter. apply (ti_sorted t T).
  - rewrite Forall_forall. intros x Hx. apply in_del in Hx. destruct Hx as [Hx Hne].
    destruct (TInv_entry t x T Hx) as (X1 & X2 & X3 & X4). unfold entry_ok. cbn [t_dlog t_fired].
    repeat split; auto.
    + intros C [E|F]; [|exact (X3 C F)]. apply Hne. f_equal. symmetry. eapply TInv_h_inj; eauto.
    + intro C. right. auto.
  - intros h [<-|Hh]; [apply nth_error_Some; congruence | apply (ti_fired_lt t T); exact Hh].
  - constructor; [exact E3 | apply (ti_fired_nodup t T)].
  - intros h Hl Hf. destruct (ti_complete t T h Hl) as (x & Hx & Eh).
    { intro F. apply Hf. right. exact F. }
    exists x. split; [|exact Eh]. apply in_del. split; [exact Hx|].
    intro E. assert (x = r) by (eapply TInv_id_inj; eauto). subst x. apply Hf. left. exact Eh.
Qed.

(* marking the entry of a Deferred cancelled (tombstone) and firing it *)
Lemma TInv_tomb_fire t r : TInv t -> In r (t_reqs t) -> r_cancelled r = false -> r_sent r = true ->
  TInv (mkT (upd (r_id r) set_cancelled (t_reqs t)) (t_dlog t) (r_h r :: t_fired t)).
Proof.
  intros T Hr Hc Hs. destruct (TInv_entry t r T Hr) as (E1 & E2 & E3 & E4). specialize (E3 Hc).
  constructor; cbn [t_reqs t_dlog t_fired].
  - rewrite map_id_upd by reflexivity. apply (ti_ids t T).
  - rewrite map_h_upd by reflexivity. apply (ti_sorted t T).
  - rewrite Forall_forall. intros x' Hx'. apply in_upd in Hx'. destruct Hx' as (x & Hx & ->).
    destruct (TInv_entry t x T Hx) as (X1 & X2 & X3 & X4). unfold entry_ok. cbn [t_dlog t_fired].
    destruct (r_id x =? r_id r) eqn:E.
    + apply Z.eqb_eq in E. assert (x = r) by (eapply TInv_id_inj; eauto). subst x.
      cbn. repeat split; auto. discriminate.
    + apply Z.eqb_neq in E. repeat split; auto.
      * intros C [F|F]; [|exact (X3 C F)]. apply E. f_equal. symmetry. eapply TInv_h_inj; eauto.
      * intro C. right. auto.
  - intros h [<-|Hh]; [apply nth_error_Some; congruence | apply (ti_fired_lt t T); exact Hh].
  - constructor; [exact E3 | apply (ti_fired_nodup t T)].
  - intros h Hl Hf. destruct (ti_complete t T h Hl) as (x & Hx & Eh).
    { intro F. apply Hf. right. exact F. }
    exists (if r_id x =? r_id r then set_cancelled x else x). split.
    + apply in_upd. exists x. auto.
    + destruct (r_id x =? r_id r); auto.
Qed.

(* removing a tombstone *)
Lemma TInv_remove_tomb t r : TInv t -> In r (t_reqs t) -> r_cancelled r = true ->
  TInv (mkT (del (r_id r) (t_reqs t)) (t_dlog t) (t_fired t)).
Proof.
  intros T Hr Hc. destruct (TInv_entry t r T Hr) as (E1 & E2 & E3 & E4). specialize (E4 Hc).
  constructor; cbn [t_reqs t_dlog t_fired].
  - apply NoDup_map_filter. apply (ti_ids t T).
  - apply SSorted_map_filter. apply (ti_sorted t T).
  - rewrite Forall_forall. intros x Hx. apply in_del in Hx. destruct Hx as [Hx Hne].
    exact (TInv_entry t x T Hx).
  - apply (ti_fired_lt t T).
  - apply (ti_fired_nodup t T).
  - intros h Hl Hf. destruct (ti_complete t T h Hl Hf) as (x & Hx & Eh).
    exists x. split; [|exact Eh]. apply in_del. split; [exact Hx|].
    intro E. assert (x = r) by (eapply TInv_id_inj; eauto). subst x. apply Hf. rewrite <- Eh. exact E4.
Qed.

(* changing only the sent flags *)
Lemma TInv_set_sent t rid b : TInv t -> (b = false -> forall r, In r (t_reqs t) -> r_id r = rid -> r_cancelled r = false) ->
  TInv (mkT (upd rid (set_sent b) (t_reqs t)) (t_dlog t) (t_fired t)).
Proof.
  intros T Hb. constructor; cbn [t_reqs t_dlog t_fired].
  - rewrite map_id_upd by reflexivity. apply (ti_ids t T).
  - rewrite map_h_upd by reflexivity. apply (ti_sorted t T).
  - rewrite Forall_forall. intros x' Hx'. apply in_upd in Hx'. destruct Hx' as (x & Hx & ->).
    destruct (TInv_entry t x T Hx) as (X1 & X2 & X3 & X4).
    destruct (r_id x =? rid) eqn:E; [|repeat split; auto].
    apply Z.eqb_eq in E. unfold entry_ok. cbn. repeat split; auto.
    intro C. destruct b; [reflexivity|]. rewrite (Hb eq_refl x Hx E) in C. discriminate.
  - apply (ti_fired_lt t T).
  - apply (ti_fired_nodup t T).
  - intros h Hl Hf. destruct (ti_complete t T h Hl Hf) as (x & Hx & Eh).
    exists (if r_id x =? rid then set_sent b x else x). split.
    + apply in_upd. exists x. auto.
    + destruct (r_id x =? rid); auto.
Qed.

Lemma id_of_entry t r : entry_ok t r -> id_of (t_dlog t) (r_h r) (r_id r) = true.
Proof. intros (E1 & _). unfold id_of. rewrite E1. apply Z.eqb_refl. Qed.

Lemma op_ok_refl t : TInv t -> op_ok t t [].
Proof. intro T. split; [exact T | split; reflexivity]. Qed.

Ltac op3 := split; [ | split; [reflexivity | ] ].

(* ---- cancel ---- *)
Lemma cancel_ok t h t' outs : TInv t -> cancel t h = (t', outs) -> op_ok t t' outs.
Proof.
  intros T H. unfold cancel in H.
  destruct (nth_error (t_dlog t) h) as [rid|] eqn:En; [|injection H as <- <-; apply op_ok_refl; exact T].
  destruct (is_fired t h) eqn:Ef; [injection H as <- <-; apply op_ok_refl; exact T|].
  unfold is_fired in Ef. apply memb_nIn in Ef.
  destruct (TInv_unfired t h rid T En Ef) as (r & L & Hr & Eh & Ei & Ec). rewrite L in H.
  destruct (TInv_entry t r T Hr) as (E1 & E2 & E3 & E4).
  destruct (r_sent r) eqn:Es.
  - rewrite fire_unfired in H by (cbn; exact Ef). injection H as <- <-. cbn [t_with_reqs t_reqs t_dlog t_fired].
    op3.
    + subst h rid. apply TInv_tomb_fire; auto.
    + cbn [scan outcome_ok]. unfold memb. rewrite (proj2 (memb_nIn h _) Ef). reflexivity.
  - rewrite fire_unfired in H by (cbn; exact Ef). injection H as <- <-. cbn [t_with_reqs t_reqs t_dlog t_fired].
    op3.
    + subst h rid. apply TInv_remove_fire; auto.
    + cbn [scan outcome_ok]. unfold memb. rewrite (proj2 (memb_nIn h _) Ef). reflexivity.
Qed.

(* ---- handle_response ---- *)
Lemma handle_response_ok t f t' outs : TInv t -> handle_response t f = (t', outs) -> op_ok t t' outs.
Proof.
  intros T H. unfold handle_response in H.
  destruct (corr_id f) as [cid|] eqn:Ec; [|injection H as <- <-; apply op_ok_refl; exact T].
  destruct (lookup cid (t_reqs t)) as [r|] eqn:L; [|injection H as <- <-; apply op_ok_refl; exact T].
  apply lookup_some in L. destruct L as [Hr Ei]. destruct (TInv_entry t r T Hr) as (E1 & E2 & E3 & E4).
  destruct (r_cancelled r) eqn:C.
  - injection H as <- <-. subst cid. op3; [apply TInv_remove_tomb; auto | reflexivity].
  - specialize (E3 eq_refl). rewrite fire_unfired in H by (cbn; exact E3). injection H as <- <-.
    cbn [t_with_reqs t_reqs t_dlog t_fired]. subst cid. op3.
    + apply TInv_remove_fire; auto.
    + cbn [scan outcome_ok]. unfold memb. rewrite (proj2 (memb_nIn _ _) E3). rewrite Ec.
      unfold id_of. rewrite E1. rewrite Z.eqb_refl. reflexivity.
Qed.

Lemma op_ok_trans t t1 t2 o1 o2 : op_ok t t1 o1 -> op_ok t1 t2 o2 -> op_ok t t2 (o1 ++ o2).
Proof.
  intros (A1 & A2 & A3) (B1 & B2 & B3). split; [exact B1 | split; [congruence|]].
  rewrite scan_app, A3. rewrite <- A2. exact B3.
Qed.


Lemma deliver_ok : forall fs t t' outs, TInv t -> deliver t fs = (t', outs) -> op_ok t t' outs.
Proof.
  induction fs as [|f fs IH]; intros t t' outs T H; cbn [deliver] in H.
  - injection H as <- <-. apply op_ok_refl. exact T.
  - destruct (handle_response t f) as [t1 o1] eqn:E1. destruct (deliver t1 fs) as [t2 o2] eqn:E2.
    injection H as <- <-. pose proof (handle_response_ok _ _ _ _ T E1) as A.
    eapply op_ok_trans; [exact A|]. eapply IH; [apply A | exact E2].
Qed.

(* ---- _sendRequest on an entry of the table ---- *)
Lemma send_request_ok t r t' outs : TInv t -> In r (t_reqs t) -> r_cancelled r = false ->
  send_request t r = (t', outs) -> op_ok t t' outs.
Proof.
  intros T Hr Hc H. unfold send_request in H.
  destruct (TInv_entry t r T Hr) as (E1 & E2 & E3 & E4). specialize (E3 Hc).
  assert (T1 : TInv (t_with_reqs t (upd (r_id r) (set_sent true) (t_reqs t)))).
  { apply TInv_set_sent; auto. discriminate. }
  assert (W : forall f', scan (t_dlog t) (t_fired t) (OWrite (r_h r) (r_id r) :: f')
                         = scan (t_dlog t) (t_fired t) f').
  { intro f'. cbn [scan]. unfold memb. rewrite (proj2 (memb_nIn _ _) E3).
    unfold id_of. rewrite E1, Z.eqb_refl. reflexivity. }
  destruct (r_expect r).
  - injection H as <- <-. op3; [exact T1 | rewrite W; reflexivity].
  - cbn [t_with_reqs t_reqs] in H. rewrite fire_unfired in H by (cbn; exact E3).
    injection H as <- <-. cbn [t_with_reqs t_reqs t_dlog t_fired]. op3.
    + pose proof (TInv_remove_fire _ (set_sent true r) T1) as X. cbn [t_with_reqs t_reqs t_dlog t_fired set_sent r_id r_h r_cancelled] in X.
      apply X; auto. apply in_upd. exists r. rewrite Z.eqb_refl. auto.
    + cbn [app]. rewrite W. cbn [scan outcome_ok]. unfold memb. rewrite (proj2 (memb_nIn _ _) E3). reflexivity.
Qed.


(* ------------------------------------------------------------------ _sendQueued when nothing has been sent yet *)
Definition sq_outs (snap : list req) : list output :=
  flat_map (fun r => OWrite (r_h r) (r_id r) :: (if r_expect r then [] else [ODef (r_h r) SuccNone])) snap.
Definition sq_reqs (snap : list req) : list req := map (set_sent true) (filter r_expect snap).
Definition sq_fired (snap : list req) : list nat := map r_h (filter (fun r => negb (r_expect r)) snap).

Lemma nodup_ids_mid pre r rest : NoDup (map r_id (pre ++ r :: rest)) ->
  (forall x, In x pre -> r_id x <> r_id r) /\ (forall x, In x rest -> r_id x <> r_id r).
Proof.
  rewrite map_app. cbn [map]. intro ND. apply NoDup_remove_2 in ND.
  split; intros x Hx E; apply ND; apply in_app_iff; [left|right]; rewrite <- E; apply in_map; exact Hx.
Qed.

Lemma map_id_on {A} (f : A -> A) l : (forall x, In x l -> f x = x) -> map f l = l.
Proof. induction l as [|a l IH]; intro H; cbn; [reflexivity|]. rewrite H by (left; reflexivity). rewrite IH; auto. intros; apply H; right; auto. Qed.

Lemma upd_unique pre r rest f : NoDup (map r_id (pre ++ r :: rest)) ->
  upd (r_id r) f (pre ++ r :: rest) = pre ++ f r :: rest.
Proof.
  intro ND. destruct (nodup_ids_mid _ _ _ ND) as [A B]. unfold upd. rewrite map_app. cbn [map].
  rewrite Z.eqb_refl. f_equal; [|f_equal].
  - apply map_id_on. intros x Hx. apply A in Hx. apply Z.eqb_neq in Hx. rewrite Hx. reflexivity.
  - apply map_id_on. intros x Hx. apply B in Hx. apply Z.eqb_neq in Hx. rewrite Hx. reflexivity.
Qed.

Lemma filter_all {A} (p : A -> bool) l : (forall x, In x l -> p x = true) -> filter p l = l.
Proof. induction l as [|a l IH]; intro H; cbn; [reflexivity|]. rewrite H by (left; reflexivity). rewrite IH; auto. intros; apply H; right; auto. Qed.

Lemma del_unique pre r r' rest : NoDup (map r_id (pre ++ r :: rest)) -> r_id r' = r_id r ->
  del (r_id r) (pre ++ r' :: rest) = pre ++ rest.
Proof.
  intros ND E. destruct (nodup_ids_mid _ _ _ ND) as [A B]. unfold del. rewrite filter_app. cbn [filter].
  rewrite E, Z.eqb_refl. cbn [negb]. f_equal.
  - apply filter_all. intros x Hx. apply A in Hx. apply Z.eqb_neq in Hx. rewrite Hx. reflexivity.
  - apply filter_all. intros x Hx. apply B in Hx. apply Z.eqb_neq in Hx. rewrite Hx. reflexivity.
Qed.

Lemma send_each_all : forall snap pre t,
  t_reqs t = pre ++ snap ->
  NoDup (map r_id (pre ++ snap)) ->
  Forall (fun r => r_sent r = false) snap ->
  NoDup (map r_h snap) ->
  Forall (fun r => ~ In (r_h r) (t_fired t)) snap ->
  send_each t snap = (mkT (pre ++ sq_reqs snap) (t_dlog t) (rev (sq_fired snap) ++ t_fired t), sq_outs snap).
Proof.
  induction snap as [|r rest IH]; intros pre t Ht ND Hs NDh Hf.
  - cbn. rewrite app_nil_r in *. destruct t; cbn in *. subst. reflexivity.
  - cbn [send_each]. inversion Hs as [|? ? Hs1 Hs2]; subst. rewrite Hs1.
    inversion Hf as [|? ? Hf1 Hf2]; subst. cbn [map] in NDh. inversion NDh as [|? ? Nh1 Nh2]; subst.
    unfold send_request. rewrite Ht. rewrite upd_unique by exact ND. unfold t_with_reqs. cbn [t_reqs t_dlog t_fired].
    destruct (r_expect r) eqn:Ee.
    + specialize (IH (pre ++ [set_sent true r]) (mkT (pre ++ set_sent true r :: rest) (t_dlog t) (t_fired t))).
      cbn [t_reqs t_dlog t_fired] in IH. rewrite <- app_assoc in IH. cbn [app] in IH.
      rewrite IH; auto.
      * unfold sq_reqs, sq_fired, sq_outs. cbn [filter flat_map map]. rewrite Ee. cbn [negb map app].
        rewrite <- app_assoc. reflexivity.
      * clear - ND. rewrite map_app in *. cbn [map] in *. exact ND.
    + rewrite del_unique by (auto; reflexivity).
      rewrite fire_unfired by (cbn; exact Hf1). cbn [t_reqs t_dlog t_fired].
      specialize (IH pre (mkT (pre ++ rest) (t_dlog t) (r_h r :: t_fired t))).
      cbn [t_reqs t_dlog t_fired] in IH. rewrite IH; auto.
      * unfold sq_reqs, sq_fired, sq_outs. cbn [filter flat_map map]. rewrite Ee. cbn [negb map rev app].
        rewrite <- app_assoc. reflexivity.
      * clear - ND. rewrite map_app in *. cbn [map] in ND. apply NoDup_remove_1 in ND. exact ND.
      * rewrite Forall_forall in *. intros x Hx [E|F]; [|exact (Hf2 x Hx F)].
        apply Nh1. rewrite E. apply in_map. exact Hx.
Qed.

Lemma scan_sq d : forall snap f, NoDup (map r_h snap) ->
  Forall (fun r => ~ In (r_h r) f /\ id_of d (r_h r) (r_id r) = true) snap ->
  scan d f (sq_outs snap) = Some (rev (sq_fired snap) ++ f).
Proof.
  induction snap as [|r rest IH]; intros f ND Hf; [reflexivity|].
  inversion Hf as [|? ? [F1 F2] Hf2]; subst. cbn [map] in ND. inversion ND as [|? ? N1 N2]; subst.
  unfold sq_outs, sq_fired. cbn [flat_map filter app scan]. unfold memb. rewrite (proj2 (memb_nIn _ _) F1), F2.
  destruct (r_expect r); cbn [negb app scan outcome_ok map rev].
  - apply IH; auto.
  - unfold memb. rewrite (proj2 (memb_nIn _ _) F1). rewrite <- app_assoc. cbn [app].
    apply IH; auto. rewrite Forall_forall in *. intros x Hx. destruct (Hf2 x Hx) as [A B]. split; auto.
    intros [E|F]; [|exact (A F)]. apply N1. rewrite E. apply in_map. exact Hx.
Qed.

Lemma in_sq_fired h rs : In h (sq_fired rs) <-> exists r, In r rs /\ r_expect r = false /\ r_h r = h.
Proof.
  unfold sq_fired. rewrite in_map_iff. split.
  - intros (r & E & Hr). apply filter_In in Hr. destruct Hr as [Hr He]. apply negb_true_iff in He. eauto.
  - intros (r & Hr & He & E). exists r. split; auto. apply filter_In. split; auto. rewrite He. reflexivity.
Qed.

Lemma NoDup_app_intro {A} (a b : list A) : NoDup a -> NoDup b -> (forall x, In x a -> ~ In x b) -> NoDup (a ++ b).
Proof.
  induction 1 as [|x a Hx Ha IH]; intros Hb D; cbn; auto. constructor.
  - intro H. apply in_app_iff in H. destruct H as [H|H]; [auto | apply (D x); [left; reflexivity | exact H]].
  - apply IH; auto. intros y Hy. apply D. right. exact Hy.
Qed.

(* the table after _sendQueued on a fresh connection *)
Lemma TInv_sendq t : TInv t -> Forall (fun r => r_sent r = false) (t_reqs t) ->
  TInv (mkT (sq_reqs (t_reqs t)) (t_dlog t) (rev (sq_fired (t_reqs t)) ++ t_fired t)).
Proof.
  intros T Hs. rewrite Forall_forall in Hs.
  assert (Live : forall r, In r (t_reqs t) -> r_cancelled r = false).
  { intros r Hr. destruct (TInv_entry t r T Hr) as (_ & E2 & _). destruct (r_cancelled r); auto.
    rewrite (Hs r Hr) in E2. symmetry. auto. }
  constructor; cbn [t_reqs t_dlog t_fired].
  - unfold sq_reqs. rewrite map_map. cbn [set_sent r_id]. apply NoDup_map_filter. apply (ti_ids t T).
  - unfold sq_reqs. rewrite map_map. cbn [set_sent r_h]. apply SSorted_map_filter. apply (ti_sorted t T).
  - rewrite Forall_forall. intros x' Hx'. unfold sq_reqs in Hx'. apply in_map_iff in Hx'.
    destruct Hx' as (x & <- & Hx). apply filter_In in Hx. destruct Hx as [Hx He].
    destruct (TInv_entry t x T Hx) as (X1 & X2 & X3 & X4). unfold entry_ok. cbn. rewrite (Live x Hx).
    repeat split; auto; try discriminate.
    intros _ F. apply in_app_iff in F. destruct F as [F|F]; [|exact (X3 (Live x Hx) F)].
    apply in_rev in F. apply in_sq_fired in F. destruct F as (y & Hy & Ey & Eh).
    assert (y = x) by (eapply TInv_h_inj; eauto). subst y. congruence.
  - intros h Hh. apply in_app_iff in Hh. destruct Hh as [Hh|Hh]; [|apply (ti_fired_lt t T); exact Hh].
    apply in_rev in Hh. apply in_sq_fired in Hh. destruct Hh as (y & Hy & _ & <-).
    destruct (TInv_entry t y T Hy) as (X1 & _). apply nth_error_Some. congruence.
  - apply NoDup_app_intro.
    + apply NoDup_rev. unfold sq_fired. apply NoDup_map_filter. apply TInv_handles_nodup. exact T.
    + apply (ti_fired_nodup t T).
    + intros h Hh F. apply in_rev in Hh. apply in_sq_fired in Hh. destruct Hh as (y & Hy & _ & <-).
      destruct (TInv_entry t y T Hy) as (_ & _ & X3 & _). exact (X3 (Live y Hy) F).
  - intros h Hl Hf. destruct (ti_complete t T h Hl) as (x & Hx & Eh).
    { intro F. apply Hf. apply in_app_iff. right. exact F. }
    exists (set_sent true x). split; [|exact Eh]. unfold sq_reqs. apply in_map. apply filter_In. split; [exact Hx|].
    destruct (r_expect x) eqn:Ee; [reflexivity|]. exfalso. apply Hf. apply in_app_iff. left. apply -> in_rev.
    apply in_sq_fired. eauto.
Qed.

Lemma send_queued_ok t : TInv t -> Forall (fun r => r_sent r = false) (t_reqs t) ->
  send_queued t = (mkT (sq_reqs (t_reqs t)) (t_dlog t) (rev (sq_fired (t_reqs t)) ++ t_fired t), sq_outs (t_reqs t))
  /\ op_ok t (mkT (sq_reqs (t_reqs t)) (t_dlog t) (rev (sq_fired (t_reqs t)) ++ t_fired t)) (sq_outs (t_reqs t)).
Proof.
  intros T Hs.
  assert (Live : forall r, In r (t_reqs t) -> r_cancelled r = false).
  { intros r Hr. destruct (TInv_entry t r T Hr) as (_ & E2 & _). destruct (r_cancelled r); auto.
    rewrite Forall_forall in Hs. rewrite (Hs r Hr) in E2. symmetry. auto. }
  assert (U : Forall (fun r => ~ In (r_h r) (t_fired t) /\ id_of (t_dlog t) (r_h r) (r_id r) = true) (t_reqs t)).
  { rewrite Forall_forall. intros r Hr. pose proof (TInv_entry t r T Hr) as E. split; [|apply id_of_entry; exact E].
    destruct E as (_ & _ & E3 & _). apply E3. apply Live. exact Hr. }
  split.
  - unfold send_queued. pose proof (send_each_all (t_reqs t) [] t) as X. cbn [app] in X. apply X; auto.
    + apply (ti_ids t T).
    + apply TInv_handles_nodup. exact T.
    + rewrite Forall_forall in *. intros r Hr. apply (U r Hr).
  - op3; [apply TInv_sendq; auto|]. cbn [t_fired]. apply scan_sq; auto. apply TInv_handles_nodup. exact T.
Qed.

(* ------------------------------------------------------------------ close(): fail everything that is left *)
Definition live (r : req) : bool := negb (r_cancelled r).

Lemma fail_all_spec : forall rs t, NoDup (map r_h rs) ->
  Forall (fun r => r_cancelled r = false -> ~ In (r_h r) (t_fired t)) rs ->
  fail_all t rs = (mkT (t_reqs t) (t_dlog t) (rev (map r_h (filter live rs)) ++ t_fired t),
                   map (fun r => ODef (r_h r) FailClosed) (filter live rs)).
Proof.
  induction rs as [|r rs IH]; intros t ND Hf.
  - cbn. destruct t; reflexivity.
  - cbn [fail_all filter]. replace (live r) with (negb (r_cancelled r)) by reflexivity. cbn [map] in ND. inversion ND as [|? ? N1 N2]; subst.
    inversion Hf as [|? ? F1 F2]; subst. destruct (r_cancelled r) eqn:C; cbn [negb].
    + apply IH; auto.
    + rewrite fire_unfired by auto. rewrite IH; cbn [t_reqs t_dlog t_fired]; auto.
      * cbn [map rev]. rewrite <- app_assoc. reflexivity.
      * rewrite Forall_forall in *. intros x Hx Cx [E|F]; [|exact (F2 x Hx Cx F)].
        apply N1. rewrite E. apply in_map. exact Hx.
Qed.

Lemma scan_defs d oc : (forall f, oc <> Succ f) -> forall hs f, NoDup hs -> (forall h, In h hs -> ~ In h f) ->
  scan d f (map (fun h => ODef h oc) hs) = Some (rev hs ++ f).
Proof.
  intro Hoc. induction hs as [|h hs IH]; intros f ND D; [reflexivity|].
  inversion ND as [|? ? N1 N2]; subst. cbn [map scan]. unfold memb.
  rewrite (proj2 (memb_nIn _ _) (D h (or_introl eq_refl))).
  replace (outcome_ok d h oc) with true by (destruct oc; auto; exfalso; eapply Hoc; reflexivity).
  cbn [rev]. rewrite <- app_assoc. cbn [app]. apply IH; auto.
  intros x Hx [E|F]; [subst; auto | exact (D x (or_intror Hx) F)].
Qed.

Lemma close_table_ok t : TInv t ->
  let t' := mkT [] (t_dlog t) (rev (map r_h (filter live (rev (t_reqs t)))) ++ t_fired t) in
  fail_all (t_with_reqs t []) (rev (t_reqs t)) = (t', map (fun r => ODef (r_h r) FailClosed) (filter live (rev (t_reqs t))))
  /\ op_ok t t' (map (fun r => ODef (r_h r) FailClosed) (filter live (rev (t_reqs t))))
  /\ (forall h, (h < length (t_dlog t))%nat -> In h (t_fired t')).
Proof.
  intros T t'.
  assert (NDr : NoDup (map r_h (rev (t_reqs t)))).
  { rewrite map_rev. apply NoDup_rev. apply TInv_handles_nodup. exact T. }
  assert (Hf : Forall (fun r => r_cancelled r = false -> ~ In (r_h r) (t_fired t)) (rev (t_reqs t))).
  { rewrite Forall_forall. intros r Hr C. apply in_rev in Hr. destruct (TInv_entry t r T Hr) as (_ & _ & E3 & _). auto. }
  assert (All : forall h, (h < length (t_dlog t))%nat -> In h (t_fired t')).
  { intros h Hl. unfold t'. cbn [t_fired]. apply in_app_iff.
    destruct (in_dec Nat.eq_dec h (t_fired t)) as [F|F]; [right; exact F|left].
    destruct (ti_complete t T h Hl F) as (x & Hx & Eh). apply -> in_rev. apply in_map_iff. exists x. split; auto.
    apply filter_In. split; [apply -> in_rev; exact Hx|]. unfold live.
    destruct (TInv_entry t x T Hx) as (_ & _ & _ & E4). destruct (r_cancelled x); auto. exfalso. apply F. rewrite <- Eh. auto. }
  split; [|split; [|exact All]].
  - rewrite fail_all_spec; auto.
  - op3.
    + constructor; cbn [t_reqs t_dlog t_fired t'].
      * constructor.
      * constructor.
      * constructor.
      * intros h Hh. apply in_app_iff in Hh. destruct Hh as [Hh|Hh]; [|apply (ti_fired_lt t T); exact Hh].
        apply in_rev in Hh. apply in_map_iff in Hh. destruct Hh as (x & <- & Hx). apply filter_In in Hx.
        destruct Hx as [Hx _]. apply in_rev in Hx. destruct (TInv_entry t x T Hx) as (X1 & _).
        apply nth_error_Some. congruence.
      * apply NoDup_app_intro.
        -- apply NoDup_rev. apply NoDup_map_filter. exact NDr.
        -- apply (ti_fired_nodup t T).
        -- intros h Hh F. apply in_rev in Hh. apply in_map_iff in Hh. destruct Hh as (x & <- & Hx).
           apply filter_In in Hx. destruct Hx as [Hx Lx]. rewrite Forall_forall in Hf. apply (Hf x Hx); auto.
           unfold live in Lx. destruct (r_cancelled x); [discriminate | reflexivity].
      * intros h Hl F. exfalso. apply F. apply (All h Hl).
    + cbn [t_fired t']. rewrite <- map_map with (f := r_h) (g := fun h => ODef h FailClosed).
      apply scan_defs.
      * discriminate.
      * apply NoDup_map_filter. exact NDr.
      * intros h Hh F. apply in_map_iff in Hh. destruct Hh as (x & <- & Hx).
        apply filter_In in Hx. destruct Hx as [Hx Lx]. rewrite Forall_forall in Hf. apply (Hf x Hx); auto.
        unfold live in Lx. destruct (r_cancelled x); [discriminate | reflexivity].
Qed.

(* ------------------------------------------------------------------ _connectionLost: unsend the live entries, drop tombstones *)
Definition lost_reqs (rs : list req) : list req := map (set_sent false) (filter live rs).

Lemma TInv_lost t : TInv t -> TInv (t_with_reqs t (lost_reqs (t_reqs t))).
Proof.
  intro T. constructor; cbn [t_with_reqs t_reqs t_dlog t_fired]; unfold lost_reqs.
  - rewrite map_map. cbn [set_sent r_id]. apply NoDup_map_filter. apply (ti_ids t T).
  - rewrite map_map. cbn [set_sent r_h]. apply SSorted_map_filter. apply (ti_sorted t T).
  - rewrite Forall_forall. intros x' Hx'. apply in_map_iff in Hx'. destruct Hx' as (x & <- & Hx).
    apply filter_In in Hx. destruct Hx as [Hx Lx]. unfold live in Lx.
    destruct (TInv_entry t x T Hx) as (X1 & X2 & X3 & X4). unfold entry_ok. cbn.
    destruct (r_cancelled x); [discriminate|]. repeat split; auto; discriminate.
  - apply (ti_fired_lt t T).
  - apply (ti_fired_nodup t T).
  - intros h Hl F. destruct (ti_complete t T h Hl F) as (x & Hx & Eh).
    exists (set_sent false x). split; [|exact Eh]. apply in_map. apply filter_In. split; [exact Hx|].
    unfold live. destruct (TInv_entry t x T Hx) as (_ & _ & _ & E4). destruct (r_cancelled x); auto.
    exfalso. apply F. rewrite <- Eh. auto.
Qed.

(* ------------------------------------------------------------------ makeRequest: a new Deferred *)
Lemma entry_ok_dlog_app t x r : entry_ok t r -> entry_ok (mkT (t_reqs t) (t_dlog t ++ x) (t_fired t)) r.
Proof.
  intros (E1 & E2 & E3 & E4). unfold entry_ok. cbn [t_dlog t_fired]. repeat split; auto.
  rewrite nth_error_app1; [exact E1 | apply nth_error_Some; congruence].
Qed.

Lemma TInv_add t rid e : TInv t -> lookup rid (t_reqs t) = None ->
  TInv (mkT (t_reqs t ++ [mkReq rid (length (t_dlog t)) e false false]) (t_dlog t ++ [rid]) (t_fired t)).
Proof.
  intros T L. pose proof (lookup_none _ _ L) as Hn.
  assert (Hlt : forall r, In r (t_reqs t) -> (r_h r < length (t_dlog t))%nat).
  { intros r Hr. destruct (TInv_entry t r T Hr) as (X1 & _). apply nth_error_Some. congruence. }
  constructor; cbn [t_reqs t_dlog t_fired].
  - rewrite map_app. cbn [map r_id]. apply NoDup_app_intro; [apply (ti_ids t T) | repeat constructor; auto |].
    intros x Hx [<-|[]]. apply in_map_iff in Hx. destruct Hx as (r & E & Hr). exact (Hn r Hr E).
  - rewrite map_app. cbn [map r_h]. apply SSorted_app_last; [apply (ti_sorted t T)|].
    intros y Hy. apply in_map_iff in Hy. destruct Hy as (r & <- & Hr). auto.
  - apply Forall_app. split.
    + rewrite Forall_forall. intros r Hr. pose proof (TInv_entry t r T Hr) as E.
      apply (entry_ok_dlog_app t [rid]) in E. exact E.
    + constructor; [|constructor]. unfold entry_ok. cbn. rewrite nth_error_app2 by lia. rewrite Nat.sub_diag.
      repeat split; auto; try discriminate. intros _ F. apply (ti_fired_lt t T) in F. lia.
  - intros h Hh. rewrite app_length. cbn. apply (ti_fired_lt t T) in Hh. lia.
  - apply (ti_fired_nodup t T).
  - intros h Hl F. rewrite app_length in Hl. cbn in Hl.
    destruct (Nat.eq_dec h (length (t_dlog t))) as [->|Hne].
    + eexists. split; [apply in_app_iff; right; left; reflexivity | reflexivity].
    + destruct (ti_complete t T h ltac:(lia) F) as (x & Hx & Eh). exists x. split; auto. apply in_app_iff. auto.
Qed.

Lemma TInv_add_closed t rid : TInv t ->
  TInv (mkT (t_reqs t) (t_dlog t ++ [rid]) (length (t_dlog t) :: t_fired t)).
Proof.
  intros T.
  assert (Hlt : forall r, In r (t_reqs t) -> (r_h r < length (t_dlog t))%nat).
  { intros r Hr. destruct (TInv_entry t r T Hr) as (X1 & _). apply nth_error_Some. congruence. }
  constructor; cbn [t_reqs t_dlog t_fired].
  - apply (ti_ids t T).
  - apply (ti_sorted t T).
  - rewrite Forall_forall. intros r Hr. destruct (TInv_entry t r T Hr) as (X1 & X2 & X3 & X4).
    unfold entry_ok. cbn [t_dlog t_fired]. repeat split; auto.
    + rewrite nth_error_app1; auto.
    + intros C [E|F]; [specialize (Hlt r Hr); lia | exact (X3 C F)].
    + intro C. right. auto.
  - intros h [<-|Hh]; rewrite app_length; cbn; [lia|]. apply (ti_fired_lt t T) in Hh. lia.
  - constructor; [|apply (ti_fired_nodup t T)]. intro F. apply (ti_fired_lt t T) in F. lia.
  - intros h Hl F. rewrite app_length in Hl. cbn in Hl.
    assert (h <> length (t_dlog t)) by (intro E; apply F; left; auto).
    destruct (ti_complete t T h ltac:(lia)) as (x & Hx & Eh); eauto. intro G. apply F. right. exact G.
Qed.

Lemma TInv_init : TInv (mkT [] [] []).
Proof. constructor; cbn; try constructor; try contradiction. intros h Hl. lia. Qed.

(* ------------------------------------------------------------------ only makeRequest extends the Deferred log *)
Lemma fire_dlog t h o : t_dlog (fst (fire t h o)) = t_dlog t.
Proof. unfold fire. destruct (is_fired t h); reflexivity. Qed.

Lemma send_request_dlog t r : t_dlog (fst (send_request t r)) = t_dlog t.
Proof.
  unfold send_request. destruct (r_expect r); [reflexivity|].
  pose proof (fire_dlog (t_with_reqs (t_with_reqs t (upd (r_id r) (set_sent true) (t_reqs t)))
     (del (r_id r) (t_reqs (t_with_reqs t (upd (r_id r) (set_sent true) (t_reqs t)))))) (r_h r) SuccNone) as X.
  destruct (fire _ _ _) as [t2 o]. cbn [fst] in *. exact X.
Qed.

Lemma send_each_dlog : forall snap t, t_dlog (fst (send_each t snap)) = t_dlog t.
Proof.
  induction snap as [|r rest IH]; intro t; cbn [send_each]; [reflexivity|].
  destruct (r_sent r); [apply IH|].
  pose proof (send_request_dlog t r) as A. destruct (send_request t r) as [t1 o1].
  specialize (IH t1). destruct (send_each t1 rest) as [t2 o2]. cbn [fst] in *. congruence.
Qed.

Lemma cancel_dlog t h : t_dlog (fst (cancel t h)) = t_dlog t.
Proof.
  unfold cancel. destruct (nth_error (t_dlog t) h); [|reflexivity]. destruct (is_fired t h); [reflexivity|].
  destruct (lookup z (t_reqs t)); [|reflexivity]. rewrite fire_dlog. destruct (r_sent r); reflexivity.
Qed.

Lemma handle_response_dlog t f : t_dlog (fst (handle_response t f)) = t_dlog t.
Proof.
  unfold handle_response. destruct (corr_id f); [|reflexivity]. destruct (lookup z (t_reqs t)); [|reflexivity].
  destruct (r_cancelled r); [reflexivity|]. rewrite fire_dlog. reflexivity.
Qed.

Lemma deliver_dlog : forall fs t, t_dlog (fst (deliver t fs)) = t_dlog t.
Proof.
  induction fs as [|f fs IH]; intro t; cbn [deliver]; [reflexivity|].
  pose proof (handle_response_dlog t f) as A. destruct (handle_response t f) as [t1 o1].
  specialize (IH t1). destruct (deliver t1 fs) as [t2 o2]. cbn [fst] in *. congruence.
Qed.

Lemma fail_all_dlog : forall rs t, t_dlog (fst (fail_all t rs)) = t_dlog t.
Proof.
  induction rs as [|r rs IH]; intro t; cbn [fail_all]; [reflexivity|].
  destruct (r_cancelled r); [apply IH|].
  pose proof (fire_dlog t (r_h r) FailClosed) as A. destruct (fire t (r_h r) FailClosed) as [t1 o1].
  specialize (IH t1). destruct (fail_all t1 rs) as [t2 o2]. cbn [fst] in *. congruence.
Qed.
