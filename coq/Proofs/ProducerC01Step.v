(* Per-step summary of Model/Producer.v: what one event fires and why, what it leaves of the batch. *)
From AV Require Import Base.Util Model.Producer Proofs.ProducerBase Proofs.ProducerC01Spec Proofs.ProducerC01Lists
  Proofs.ProducerC01Fires Proofs.ProducerC01Batch.
From Coq Require Import Lia.

Arguments K_BROKER : simpl never.

(* a helper working on the batch B (the requests of the lookups / of the payloads) *)
Record bsum (B : list send) (s s1 : state) (o1 : list output) (done : bool) : Prop := {
  b_fires : fires s s1 o1;
  b_keeps : keeps_q s s1;
  b_done : done = true -> (forall x, In x B -> ~ In (s_id x) (outstanding s1)) /\ no_prod o1;
  b_more : done = false ->
     (forall x, In x B -> In (s_id x) (outstanding s1) -> In x (batch_sends (ph s1))) /\
     incl (batch_sends (ph s1)) B /\ phase_wf s1 /\ prod_clause s1 o1 /\ ph s1 <> Idle }.

Lemma prod_clause_pre : forall s pre o, no_prod pre -> prod_clause s o -> prod_clause s (pre ++ o).
Proof.
  unfold prod_clause; intros s pre o N P. destruct (ph s); auto with prod.
  intros acc. rewrite last_prod_app. apply P.
Qed.

Lemma bsum_pre : forall B s s0 s1 o0 o1 done,
  keeps_q s s0 -> fires s s0 o0 -> no_prod o0 -> bsum B s0 s1 o1 done -> bsum B s s1 (o0 ++ o1) done.
Proof.
  intros B s s0 s1 o0 o1 done K F N [F1 K1 D1 M1]. constructor.
  - eapply fires_trans; eauto.
  - eapply keeps_q_trans; eauto.
  - intros T. destruct (D1 T). split; auto with prod.
  - intros T. destruct (M1 T) as (A1 & A2 & A3 & A4 & A5). splits; auto. apply prod_clause_pre; auto.
Qed.

Lemma all_done_length : forall ls res, all_done ls = Some res -> length res = length ls.
Proof.
  unfold all_done; induction ls as [|l ls IH]; simpl; intros res H.
  - inv H; auto.
  - destruct l; try discriminate. destruct (fold_right _ _ ls) eqn:E; [|discriminate]. inv H. simpl. f_equal; auto.
Qed.

(* ------------------------------------------------------------------ send_requests and the lookups *)
Lemma send_requests_sum : forall s reqs res s1 o1 done,
  send_requests s reqs res = (s1, o1, done) -> stopping s = false -> broken s = false -> length res = length reqs ->
  bsum reqs s s1 o1 done /\ all_fail o1.
Proof.
  unfold send_requests; intros s reqs res s1 o1 done H ST BK L. rewrite ST in H.
  destruct (api s =? 0).
  - inv H. split; [|apply all_fail_no_outcome; reflexivity]. constructor.
    + apply fires_same; reflexivity.
    + constructor; reflexivity.
    + discriminate.
    + intros _. splits; simpl; auto using incl_refl; try discriminate. unfold prod_clause; simpl. repeat constructor.
  - destruct (group_requests s reqs res []) as [[s2 o2] pls] eqn:E.
    pose proof (group_requests_xo _ _ _ _ _ _ _ E) as [XO OO].
    assert (W0 : pls_wf []) by (split; [constructor|intros ? ? []]).
    destruct (group_requests_sum _ _ _ _ _ _ _ E L W0) as (F & AF & W & D1 & _ & D3).
    assert (BK2 : broken s2 = false) by (apply eq_xo_keeps in XO; destruct XO; congruence).
    destruct pls as [|p pls].
    + inv H. split; auto. constructor; auto with prod; try discriminate.
    + rewrite BK2 in H. inv H. split.
      * constructor.
        -- eapply fires_trans; [exact F|]. apply fires_same; reflexivity.
        -- eapply keeps_q_trans; [apply eq_xo_keeps; exact XO|constructor; reflexivity].
        -- discriminate.
        -- intros _. splits; simpl; try discriminate.
           ++ intros x I O. apply D3; auto.
           ++ intros y I. apply D1 in I as [[]|I]; auto.
           ++ unfold phase_wf; simpl. split; auto. intros pl x A NI. exfalso; apply NI. change (In (p_tp pl) (map p_tp (p :: pls))). apply in_map; auto.
           ++ unfold prod_clause; simpl. intros acc. rewrite last_prod_app. simpl.
              change (p_tp p :: map p_tp pls) with (map p_tp (p :: pls)). rewrite viewf_all. reflexivity.
      * apply all_fail_app; auto. apply all_fail_no_outcome; reflexivity.
Qed.

Lemma lookups_progress_sum : forall s reqs ls s1 o1 done,
  lookups_progress s reqs ls = (s1, o1, done) -> stopping s = false -> broken s = false -> length ls = length reqs ->
  bsum reqs s s1 o1 done /\ all_fail o1.
Proof.
  unfold lookups_progress; intros s reqs ls s1 o1 done H ST BK L. destruct (all_done ls) as [res|] eqn:E.
  - apply all_done_length in E. eapply send_requests_sum; eauto. congruence.
  - inv H. split; [|apply all_fail_nil]. constructor.
    + apply fires_same; reflexivity.
    + constructor; reflexivity.
    + discriminate.
    + intros _. splits; simpl; auto using incl_refl; try discriminate. unfold prod_clause; simpl. constructor.
Qed.

Lemma version_failed_sum : forall s reqs k s1 o1 done,
  version_failed s reqs k = (s1, o1, done) -> bsum reqs s s1 o1 done /\ all_fail o1.
Proof.
  unfold version_failed; intros s reqs k s1 o1 done H. destruct (deliver s reqs (OFail k 0)) as [s2 o2] eqn:E. inv H.
  pose proof (deliver_xo _ _ _ _ _ E) as [XO OO]. split.
  - constructor; auto with prod; try discriminate.
    + eapply deliver_fires; eauto.
    + intros _; split; auto with prod. intros x I. eapply deliver_clears; eauto.
  - intros sid oc I. eapply deliver_outs in I as [-> _]; eauto.
Qed.

(* lookups do not touch the Deferreds *)
Lemma xl_facts : forall s s' o, eq_xl s s' -> lk_outs o ->
  fires s s' o /\ keeps_q s s' /\ no_prod o /\ all_fail o /\ ph s' = ph s /\ outstanding s' = outstanding s.
Proof.
  intros s s' o X L. pose proof (lk_outs_oids _ L) as E. splits; auto with prod.
  - apply fires_same; auto. apply eq_xl_outstanding; auto.
  - apply all_fail_no_outcome; auto.
  - apply eq_xl_ph; auto.
  - apply eq_xl_outstanding; auto.
Qed.

(* ------------------------------------------------------------------ dispatch *)
Record dsum (s s' : state) (o : list output) : Prop := {
  d_fires : fires s s' o;
  d_fail : all_fail o;
  d_queue : queue s' = [];
  d_nsend : nsend s' = nsend s;
  d_stop : stopping s' = stopping s;
  d_cov : forall x, In x (queue s) -> In (s_id x) (outstanding s') -> In x (batch_sends (ph s'));
  d_incl : incl (batch_sends (ph s')) (queue s);
  d_wf : phase_wf s';
  d_prod : prod_clause s' o }.

Lemma can_dispatch_facts : forall s, can_dispatch s = true -> ph s = Idle /\ stopping s = false.
Proof.
  unfold can_dispatch; intros s H. destruct (queue s); [discriminate|]. destruct (ph s); try discriminate.
  apply negb_true_iff in H; auto.
Qed.

Lemma dispatch_sum : forall c s s' o, dispatch c s = (s', o) -> stopping s = false -> broken s = false -> dsum s s' o.
Proof.
  unfold dispatch; intros c s s' o H ST BK.
  destruct (map_lookups _ _ _ _) as [[s1 o1] ls] eqn:E1.
  apply map_lookups_xl in E1 as (X1 & L1 & N1);
    [|intros st x l st' o' l' Hf; inv Hf; eapply lookup_head_xl; eauto].
  rewrite map_length in N1.
  destruct (xl_facts _ _ _ X1 L1) as (F1 & K1 & NP1 & AF1 & P1 & O1). simpl in *.
  assert (ST1 : stopping s1 = false) by (destruct K1; simpl in *; congruence).
  assert (BK1 : broken s1 = false) by (destruct K1; simpl in *; congruence).
  destruct (lookups_progress s1 (queue s) ls) as [[s2 o2] done] eqn:E2.
  destruct (lookups_progress_sum _ _ _ _ _ _ E2 ST1 BK1 N1) as ([F2 K2 D2 M2] & AF2).
  assert (F12 : fires s s2 (o1 ++ o2)).
  { eapply fires_trans; [|exact F2]. eapply fires_eq_out; [|exact F1]. reflexivity. }
  assert (KQ : queue s2 = [] /\ nsend s2 = nsend s /\ stopping s2 = stopping s).
  { destruct K1, K2; simpl in *. splits; congruence. }
  destruct KQ as (Q & NS & STP).
  destruct done.
  - unfold finish0 in H. inv H. destruct (D2 eq_refl) as [CLR NP2]. constructor; simpl; auto.
    + change (ODispatch (map s_id (queue s)) :: o1 ++ o2 ++ [OBatchDone]) with ([ODispatch (map s_id (queue s))] ++ o1 ++ o2 ++ [OBatchDone]).
      eapply fires_trans; [apply fires_same; reflexivity|]. rewrite app_assoc.
      eapply fires_trans; [exact F12|apply fires_same; reflexivity].
    + change (ODispatch (map s_id (queue s)) :: o1 ++ o2 ++ [OBatchDone]) with ([ODispatch (map s_id (queue s))] ++ o1 ++ o2 ++ [OBatchDone]).
      repeat apply all_fail_app; auto; apply all_fail_no_outcome; reflexivity.
    + intros x [].
    + exact I.
    + unfold prod_clause; simpl. constructor; [reflexivity|]. repeat apply no_prod_app; auto. repeat constructor.
  - inv H. destruct (M2 eq_refl) as (A1 & A2 & A3 & A4 & A5). constructor; auto.
    + change (ODispatch (map s_id (queue s)) :: o1 ++ o2) with ([ODispatch (map s_id (queue s))] ++ o1 ++ o2).
      eapply fires_trans; [apply fires_same; reflexivity|exact F12].
    + change (ODispatch (map s_id (queue s)) :: o1 ++ o2) with ([ODispatch (map s_id (queue s))] ++ o1 ++ o2).
      repeat apply all_fail_app; auto; apply all_fail_no_outcome; reflexivity.
    + change (ODispatch (map s_id (queue s)) :: o1 ++ o2) with ([ODispatch (map s_id (queue s))] ++ o1 ++ o2).
      apply prod_clause_pre; [repeat constructor|]. apply prod_clause_pre; auto.
Qed.

(* ------------------------------------------------------------------ the epilogue on an idle producer *)
Record tsum (sI s2 : state) (o2 : list output) : Prop := {
  t_fires : fires sI s2 o2;
  t_fail : all_fail o2;
  t_incl : incl (live s2) (queue sI);
  t_keep : forall x, In x (queue sI) -> In (s_id x) (outstanding s2) -> In x (live s2);
  t_wf : phase_wf s2;
  t_prod : prod_clause s2 o2;
  t_nsend : nsend s2 = nsend sI;
  t_stop : stopping s2 = stopping sI }.

Lemma tsum_same : forall s, ph s = Idle -> tsum s s [].
Proof.
  intros s P. constructor; auto using fires_refl with prod.
  - unfold live; rewrite P; simpl; rewrite app_nil_r; apply incl_refl.
  - intros x I _. unfold live; apply in_or_app; auto.
  - unfold phase_wf; rewrite P; auto.
  - unfold prod_clause; rewrite P; constructor.
Qed.

Lemma tsum_dispatch : forall c s s2 o2, broken s = false -> can_dispatch s = true -> dispatch c s = (s2, o2) -> tsum s s2 o2.
Proof.
  intros c s s2 o2 BK C D. destruct (can_dispatch_facts _ C) as [P ST].
  destruct (dispatch_sum _ _ _ _ D ST BK). constructor; auto.
  - unfold live. rewrite d_queue0; simpl; auto.
  - intros x I O. unfold live. rewrite d_queue0; simpl; auto.
Qed.

Lemma try_tsum : forall c s s2 o2, broken s = false -> ph s = Idle -> try_send_batch c s = (s2, o2) -> tsum s s2 o2.
Proof.
  intros c s s2 o2 BK P H. apply try_send_batch_spec in H as [[A B]|(A & -> & ->)].
  - eapply tsum_dispatch; eauto.
  - apply tsum_same; auto.
Qed.
Lemma check_tsum : forall c s s2 o2, broken s = false -> ph s = Idle -> check_send_batch c s = (s2, o2) -> tsum s s2 o2.
Proof.
  intros c s s2 o2 BK P H. apply check_send_batch_spec in H as [(T & A & B)|(_ & -> & ->)].
  - eapply tsum_dispatch; eauto.
  - apply tsum_same; auto.
Qed.
(* with a batch in flight (or stopping) the epilogues do nothing *)
Lemma try_busy : forall c s, ph s <> Idle \/ stopping s = true -> try_send_batch c s = (s, []).
Proof.
  unfold try_send_batch, can_dispatch; intros c s H. destruct (queue s); auto.
  destruct (ph s); auto. destruct H as [H|H]; [congruence|rewrite H; auto].
Qed.
Lemma check_busy : forall c s, ph s <> Idle \/ stopping s = true -> check_send_batch c s = (s, []).
Proof. unfold check_send_batch; intros c s H. destruct (threshold c s); auto. apply try_busy; auto. Qed.

Lemma finish_tsum : forall c s s2 o2, broken s = false -> finish c s = (s2, o2) ->
  exists sI o', o2 = OBatchDone :: o' /\ ph sI = Idle /\ queue sI = queue s /\ outstanding sI = outstanding s /\
                nsend sI = nsend s /\ stopping sI = stopping s /\ tsum sI s2 o'.
Proof.
  unfold finish, finish0; intros c s s2 o2 BK H.
  destruct (check_send_batch c _) as [s3 o3] eqn:E. inv H.
  eexists; eexists; split; [reflexivity|]. splits; [..|eapply check_tsum; [| |exact E]]; try reflexivity. exact BK.
Qed.

(* ------------------------------------------------------------------ a batch helper followed by the epilogue *)
Record stepsum (s s' : state) (o : list output) : Prop := {
  ss_fires : fires s s' o;
  ss_incl : incl (live s') (live s);
  ss_keep : forall x, In x (live s) -> In (s_id x) (outstanding s') -> In x (live s');
  ss_wf : phase_wf s';
  ss_prod : match ph s' with
            | Sending pls cur => (ph s = Sending pls cur /\ no_prod o) \/ (forall acc, last_prod o acc = Some (viewf pls cur))
            | _ => True
            end;
  ss_nsend : nsend s' = nsend s;
  ss_stop : stopping s' = stopping s }.

Lemma prod_clause_right : forall s s' o, prod_clause s' o ->
  match ph s' with
  | Sending pls cur => (ph s = Sending pls cur /\ no_prod o) \/ (forall acc, last_prod o acc = Some (viewf pls cur))
  | _ => True
  end.
Proof. unfold prod_clause; intros s s' o P. destruct (ph s'); auto. Qed.

Lemma batch_step : forall c B s s2 o2 done s' o', broken s = false ->
  bsum B s s2 o2 done -> batch_sends (ph s) = B ->
  apply_epi c s2 (if done then Fin else NoEpi) = (s', o') ->
  stepsum s s' (o2 ++ o') /\ all_fail o'.
Proof.
  intros c B s s2 o2 done s' o' BK [F K D M] PB H. destruct K as [Q1 Q2 Q3 Q4 Q5 Q6 Q7]. destruct done; simpl in H.
  - destruct (D eq_refl) as [CLR NP].
    apply finish_tsum in H; [|congruence]. destruct H as (sI & ot & -> & PI & QI & OI & NI & SI & [TF TA TI TK TW TP TN TS]).
    assert (F2 : fires s2 s' (OBatchDone :: ot)).
    { change (OBatchDone :: ot) with ([OBatchDone] ++ ot). eapply fires_trans; [apply fires_same; [exact OI|reflexivity]|exact TF]. }
    split.
    + constructor.
      * eapply fires_trans; eauto.
      * intros x I. apply TI in I. unfold live. apply in_or_app; left. congruence.
      * intros x I O. unfold live in I. apply in_app_or in I as [I|I].
        -- apply TK; auto. congruence.
        -- exfalso. rewrite PB in I. eapply CLR; eauto. apply (fires_sub _ _ _ F2); auto.
      * auto.
      * apply prod_clause_right. apply prod_clause_pre; auto.
        change (OBatchDone :: ot) with ([OBatchDone] ++ ot). apply prod_clause_pre; auto. repeat constructor.
      * congruence.
      * congruence.
    + change (OBatchDone :: ot) with ([OBatchDone] ++ ot). apply all_fail_app; auto. apply all_fail_no_outcome; reflexivity.
  - inv H. rewrite app_nil_r. destruct (M eq_refl) as (A1 & A2 & A3 & A4 & A5). split; [|apply all_fail_nil]. constructor; auto.
    + intros x I. unfold live in *. apply in_app_or in I as [I|I]; apply in_or_app; [left; congruence|right; auto].
    + intros x I O. unfold live in *. apply in_app_or in I as [I|I]; apply in_or_app; [left; congruence|right; auto].
    + apply prod_clause_right; auto.
Qed.

(* ------------------------------------------------------------------ cancellation *)
Lemma cancel_send_sum : forall s sid s1 o1, cancel_send s sid = (s1, o1) ->
  fires s s1 o1 /\ all_fail o1 /\ no_prod o1 /\ ph s1 = ph s /\ stopping s1 = stopping s /\ nsend s1 = nsend s /\
  incl (queue s1) (queue s) /\ (forall x, In x (queue s) -> In (s_id x) (outstanding s1) -> In x (queue s1)).
Proof.
  intros s sid s1 o1 H. pose proof (cancel_send_spec _ _ _ _ H) as (OO & P & ST & LP & NS & _ & _ & _ & _ & _ & _ & _ & C).
  splits; auto with prod.
  - destruct C as [(-> & -> & _)|(M & O1 & [(Q & _ & _ & _ & ->)|(x & R & _ & _ & ->)])]; [apply fires_refl| |];
      (constructor; simpl; [intros y [<- |[]]; apply zmem_In; auto|intros _; repeat constructor; simpl; tauto|rewrite O1; apply zremove_minus]).
  - destruct C as [(-> & -> & _)|(M & O1 & [(Q & _ & _ & _ & ->)|(x & R & _ & _ & ->)])]; [apply all_fail_nil| |];
      intros i oc [I|[]]; inv I; eauto.
  - destruct C as [(-> & _)|(M & O1 & [(Q & _)|(x & R & _)])]; [apply incl_refl|rewrite Q; apply incl_refl|].
    apply remove_send_spec in R as (a & b & -> & -> & _). intros y I. apply in_app_or in I as [I|I]; apply in_or_app; simpl; auto.
  - destruct C as [(-> & _)|(M & O1 & [(Q & _)|(x & R & _)])]; [auto|rewrite Q; auto|].
    apply remove_send_spec in R as (a & b & E1 & -> & SI & _). rewrite E1. intros y I O.
    apply in_app_or in I as [I|[<- |I]]; apply in_or_app; auto.
    exfalso. rewrite O1, zremove_minus in O. apply In_minus in O. rewrite SI in O. simpl in O. tauto.
Qed.

Lemma cancel_all_sum : forall ids s s1 o1, cancel_all s ids = (s1, o1) ->
  fires s s1 o1 /\ all_fail o1 /\ no_prod o1 /\ ph s1 = ph s /\ stopping s1 = stopping s /\ nsend s1 = nsend s /\
  incl (queue s1) (queue s) /\ (forall i, In i ids -> ~ In i (outstanding s1)).
Proof.
  induction ids as [|i r IH]; simpl; intros s s1 o1 H.
  - inv H. splits; auto using fires_refl, incl_refl with prod.
  - destruct (cancel_send s i) as [s2 o2] eqn:E. destruct (cancel_all s2 r) as [s3 o3] eqn:E3. inv H.
    pose proof (cancel_send_spec _ _ _ _ E) as (_ & _ & _ & _ & _ & _ & _ & _ & _ & _ & _ & _ & C).
    apply cancel_send_sum in E as (A1 & A2 & A3 & A4 & A5 & A6 & A7 & A8).
    apply IH in E3 as (B1 & B2 & B3 & B4 & B5 & B6 & B7 & B8). splits; auto with prod; try congruence.
    + eapply fires_trans; eauto.
    + eapply incl_tran; eauto.
    + intros j [<- |J]; auto. intros O. apply (fires_sub _ _ _ B1) in O.
      destruct C as [(-> & _ & M)|(M & O1 & _)].
      * apply zmem_false in M; auto.
      * rewrite O1, zremove_minus in O. apply In_minus in O. simpl in O; tauto.
Qed.
