(* The round-robin loop of _round_robin_assignment: the cycle never spins forever, every listed
   (topic, partition) is handed to exactly one subscribed member, identical subscriptions give a
   balanced result. *)
From AV Require Import Base.Util Proofs.UtilFacts Model.Assign Proofs.AssignOrder Proofs.AssignDict.
From Coq Require Import Lia Sorting.Permutation Arith.PeanoNat.

Lemma tp_eq_dec (x y : str * Z) : {x = y} + {x <> y}.
Proof. decide equality; [apply Z.eq_dec | apply str_eq_dec]. Qed.

(* ---- sums over the member ids ---- *)
Lemma sum_same (ids : list str) (f g : str -> nat) :
  (forall m, In m ids -> g m = f m) -> list_sum (map g ids) = list_sum (map f ids).
Proof.
  induction ids as [|x r IH]; intro H; cbn [map list_sum]; [reflexivity|].
  change (g x + list_sum (map g r) = f x + list_sum (map f r))%nat.
  rewrite H by now left. rewrite IH; [reflexivity|]. intros m Hm. apply H. now right.
Qed.

Lemma sum_add_one (ids : list str) m (f g : str -> nat) c :
  NoDup ids -> In m ids -> (forall m', m' <> m -> g m' = f m') -> g m = (f m + c)%nat ->
  list_sum (map g ids) = (list_sum (map f ids) + c)%nat.
Proof.
  induction ids as [|x r IH]; intros N I Hne Heq; [destruct I|].
  change (g x + list_sum (map g r) = f x + list_sum (map f r) + c)%nat.
  inversion N as [|? ? Nx Nr]; subst. destruct I as [->|I].
  - rewrite Heq. rewrite (sum_same r f g); [lia|]. intros m' Hm'. apply Hne. intros ->. contradiction.
  - rewrite IH by assumption. rewrite Hne; [lia|]. intros ->. contradiction.
Qed.

Lemma assigned_count_add a ids m t p t' p' :
  NoDup ids -> In m ids ->
  assigned_count (asg_add a m t p) ids t' p' =
  (assigned_count a ids t' p' + (if tp_eq_dec (t, p) (t', p') then 1 else 0))%nat.
Proof.
  intros N I. unfold assigned_count. destruct (tp_eq_dec (t, p) (t', p')) as [E|E].
  - injection E as -> ->. apply sum_add_one with (m := m); try assumption.
    + intros m' Hne. rewrite parts_asg_add. replace (str_eqb m m') with false; [now rewrite app_nil_r|].
      symmetry. apply str_eqb_neq. congruence.
    + rewrite parts_asg_add, !str_eqb_refl. cbn [andb]. rewrite count_occ_app. cbn [count_occ].
      destruct (Z.eq_dec p' p'); [reflexivity | congruence].
  - rewrite Nat.add_0_r. apply sum_same. intros m' _. rewrite parts_asg_add, count_occ_app.
    destruct (str_eqb m m' && str_eqb t t') eqn:B; cbn [count_occ]; [|lia].
    apply andb_prop in B. destruct B as [_ B]. apply str_eqb_eq in B. subst t'.
    destruct (Z.eq_dec p p'); [subst; congruence | lia].
Qed.

Lemma assigned_count_nil ids t p : assigned_count [] ids t p = 0%nat.
Proof. unfold assigned_count. induction ids as [|x r IH]; [reflexivity|]. cbn [map list_sum]. exact IH. Qed.

Lemma assigned_count_perm a ids ids' t p : Permutation ids ids' -> assigned_count a ids t p = assigned_count a ids' t p.
Proof.
  intro P. unfold assigned_count. induction P; cbn [map]; try reflexivity.
  - change (list_sum (?a :: ?l)) with (a + list_sum l)%nat. now rewrite IHP.
  - change (list_sum (?a :: ?b :: ?l)) with (a + (b + list_sum l))%nat. lia.
  - congruence.
Qed.

(* ---- the member cycle ---- *)
Section Cycle.
  Variable md : mdict.
  Variable ms : list str.
  Hypothesis ms_nodup : NoDup ms.
  Hypothesis ms_keys : forall m, In m ms -> dict_get md m <> None.

  Lemma pick_sound fuel pos t m pos' :
    pick fuel md ms pos t = Ok (m, pos') ->
    In m ms /\ subscribed md m t = true /\ (pos' < length ms)%nat /\
    exists j, nth_error ms j = Some m /\ pos' = Nat.modulo (S j) (length ms).
  Proof.
    revert pos. induction fuel as [|f IH]; intro pos; cbn [pick]; [discriminate|].
    destruct (nth_error ms pos) as [m0|] eqn:En; [|discriminate].
    destruct (dict_get md m0) as [subs|] eqn:Ed; [|discriminate].
    destruct (str_mem t subs) eqn:Es.
    - intros [= <- <-]. assert (In m0 ms) by (eapply nth_error_In; eassumption).
      repeat split; try assumption.
      + unfold subscribed. now rewrite Ed.
      + apply Nat.mod_upper_bound. intro E0. apply length_zero_iff_nil in E0. rewrite E0 in H. destruct H.
      + exists pos. split; [assumption | reflexivity].
    - apply IH.
  Qed.

  (* no exception other than running out of fuel *)
  Lemma pick_err fuel pos t e : (pos < length ms)%nat -> pick fuel md ms pos t = Err e -> e = EFuel.
  Proof.
    revert pos. induction fuel as [|f IH]; intros pos Hp; cbn [pick]; [now intros [= <-]|].
    destruct (nth_error ms pos) as [m0|] eqn:En; [|apply nth_error_None in En; lia].
    destruct (dict_get md m0) as [subs|] eqn:Ed; [|exfalso; eapply ms_keys; [eapply nth_error_In|]; eassumption].
    destruct (str_mem t subs); [discriminate|]. apply IH. apply Nat.mod_upper_bound. lia.
  Qed.

  (* a subscriber within the next [fuel] positions is found *)
  Lemma pick_finds fuel pos t :
    (pos < length ms)%nat ->
    (exists k m, (k < fuel)%nat /\ nth_error ms (Nat.modulo (pos + k) (length ms)) = Some m /\ subscribed md m t = true) ->
    exists m pos', pick fuel md ms pos t = Ok (m, pos').
  Proof.
    revert pos. induction fuel as [|f IH]; intros pos Hp (k & m & Hk & Hn & Hs); [lia|].
    cbn [pick]. destruct (nth_error ms pos) as [m0|] eqn:En; [|apply nth_error_None in En; lia].
    destruct (dict_get md m0) as [subs|] eqn:Ed; [|exfalso; eapply ms_keys; [eapply nth_error_In|]; eassumption].
    destruct (str_mem t subs) eqn:Es; [eauto|].
    apply IH; [apply Nat.mod_upper_bound; lia|].
    destruct k as [|k].
    - rewrite Nat.add_0_r, Nat.mod_small in Hn by assumption. rewrite En in Hn. injection Hn as <-.
      unfold subscribed in Hs. rewrite Ed in Hs. congruence.
    - exists k, m. split; [lia|]. split; [|assumption].
      rewrite Nat.add_mod_idemp_l by lia. replace (S pos + k)%nat with (pos + S k)%nat by lia. assumption.
  Qed.

  (* THE termination argument of the inner while: a topic that some member subscribes is found within
     one turn of the cycle *)
  Lemma pick_complete pos t m :
    (pos < length ms)%nat -> In m ms -> subscribed md m t = true ->
    exists m' pos', pick (length ms) md ms pos t = Ok (m', pos').
  Proof.
    intros Hp Hi Hs. apply pick_finds; [assumption|].
    apply In_nth_error in Hi. destruct Hi as [j Hj].
    assert (Hjn : (j < length ms)%nat) by (apply nth_error_Some; congruence).
    destruct (Nat.le_gt_cases pos j) as [L|G].
    - exists (j - pos)%nat, m. split; [lia|]. split; [|assumption].
      replace (pos + (j - pos))%nat with j by lia. now rewrite Nat.mod_small.
    - exists (j + length ms - pos)%nat, m. split; [lia|]. split; [|assumption].
      replace (pos + (j + length ms - pos))%nat with (j + 1 * length ms)%nat by lia.
      rewrite Nat.mod_add by lia. now rewrite Nat.mod_small.
  Qed.

  (* when the member under the cursor subscribes the topic it is taken at once *)
  Lemma pick_now fuel pos t m :
    fuel <> O -> nth_error ms pos = Some m -> subscribed md m t = true ->
    pick fuel md ms pos t = Ok (m, Nat.modulo (S pos) (length ms)).
  Proof.
    intros Hf En Hs. destruct fuel as [|fuel]; [congruence|]. cbn [pick]. rewrite En. unfold subscribed in Hs.
    destruct (dict_get md m); [|discriminate]. now rewrite Hs.
  Qed.

  (* ---- the for loop ---- *)
  (* defined whenever each listed topic has a subscriber *)
  Lemma rr_loop_defined l : forall pos a,
    (pos < length ms)%nat ->
    (forall t p, In (t, p) l -> exists m, In m ms /\ subscribed md m t = true) ->
    exists a', rr_loop md ms pos l a = Ok a'.
  Proof.
    induction l as [|[t p] r IH]; intros pos a Hp Hsub; cbn [rr_loop]; [eauto|].
    destruct (Hsub t p) as (m & Hm & Hs); [now left|].
    destruct (pick_complete pos t m Hp Hm Hs) as (m' & pos' & E). rewrite E.
    apply IH; [|intros; eapply Hsub; right; eassumption].
    apply pick_sound in E. tauto.
  Qed.

  Lemma rr_loop_err l : forall pos a e,
    (pos < length ms)%nat -> rr_loop md ms pos l a = Err e -> e = EFuel.
  Proof.
    induction l as [|[t p] r IH]; intros pos a e Hp; cbn [rr_loop]; [discriminate|].
    destruct (pick (length ms) md ms pos t) as [[m pos']|e'] eqn:E.
    - apply IH. apply pick_sound in E. tauto.
    - intros [= <-]. eapply pick_err; eassumption.
  Qed.

  (* exactly one: each iteration adds its pair to the share of one member of [ids] *)
  Lemma rr_loop_count ids l : forall pos a a',
    NoDup ids -> (forall m, In m ms -> In m ids) ->
    rr_loop md ms pos l a = Ok a' ->
    forall t p, assigned_count a' ids t p = (assigned_count a ids t p + count_occ tp_eq_dec l (t, p))%nat.
  Proof.
    induction l as [|[t0 p0] r IH]; intros pos a a' N Hin; cbn [rr_loop].
    - intros [= <-] t p. cbn [count_occ]. lia.
    - destruct (pick (length ms) md ms pos t0) as [[m pos']|e] eqn:E; [|discriminate].
      intros H t p. rewrite (IH _ _ _ N Hin H). apply pick_sound in E. destruct E as (Hm & _).
      rewrite assigned_count_add by auto. cbn [count_occ].
      destruct (tp_eq_dec (t0, p0) (t, p)); lia.
  Qed.

  (* only subscribed members, only members *)
  Definition asg_sound (a : asg) : Prop :=
    (forall m, In m (map fst a) -> In m ms) /\
    (forall m t, In t (map fst (asg_get a m)) -> In m ms /\ subscribed md m t = true).

  Lemma rr_loop_sound l : forall pos a a',
    asg_sound a -> rr_loop md ms pos l a = Ok a' -> asg_sound a'.
  Proof.
    induction l as [|[t0 p0] r IH]; intros pos a a' S; cbn [rr_loop]; [now intros [= <-]|].
    destruct (pick (length ms) md ms pos t0) as [[m pos']|e] eqn:E; [|discriminate].
    apply IH. apply pick_sound in E. destruct E as (Hm & Hs & _). destruct S as [S1 S2]. split.
    - intros m' H. apply asg_add_keys in H. destruct H as [->|H]; auto.
    - intros m' t H. apply asg_add_topics in H. destruct H as [[<- ->]|H]; auto.
  Qed.

  Lemma rr_loop_distinct l : forall pos a a',
    asg_distinct a -> rr_loop md ms pos l a = Ok a' -> asg_distinct a'.
  Proof.
    induction l as [|[t0 p0] r IH]; intros pos a a' D; cbn [rr_loop]; [now intros [= <-]|].
    destruct (pick (length ms) md ms pos t0) as [[m pos']|e]; [|discriminate].
    apply IH. now apply asg_distinct_add.
  Qed.

  (* every partition a member holds was listed for that topic; shares are not longer than the listing *)
  Lemma rr_loop_parts l : forall pos a a',
    rr_loop md ms pos l a = Ok a' ->
    forall m t p, In p (parts_of (asg_get a' m) t) -> In p (parts_of (asg_get a m) t) \/ In (t, p) l.
  Proof.
    induction l as [|[t0 p0] r IH]; intros pos a a'; cbn [rr_loop]; [intros [= <-]; auto|].
    destruct (pick (length ms) md ms pos t0) as [[m0 pos']|e]; [|discriminate].
    intros H m t p Hp. destruct (IH _ _ _ H m t p Hp) as [Hq|Hq]; [|right; now right].
    rewrite parts_asg_add in Hq. apply in_app_or in Hq. destruct Hq as [Hq|Hq]; [now left|].
    destruct (str_eqb m0 m && str_eqb t0 t) eqn:B; [|destruct Hq].
    apply andb_prop in B. destruct B as [_ B]. apply str_eqb_eq in B. subst.
    destruct Hq as [<-|[]]. right. now left.
  Qed.

  Definition topic_len (l : list (str * Z)) (t : str) : nat :=
    length (filter (fun x => str_eqb (fst x) t) l).

  Lemma rr_loop_len l : forall pos a a',
    rr_loop md ms pos l a = Ok a' ->
    forall m t, (length (parts_of (asg_get a' m) t) <= length (parts_of (asg_get a m) t) + topic_len l t)%nat.
  Proof.
    induction l as [|[t0 p0] r IH]; intros pos a a'; cbn [rr_loop]; [intros [= <-]; intros; lia|].
    destruct (pick (length ms) md ms pos t0) as [[m0 pos']|e]; [|discriminate].
    intros H m t. specialize (IH _ _ _ H m t). rewrite parts_asg_add, app_length in IH.
    unfold topic_len in *. cbn [filter fst].
    destruct (str_eqb t0 t); cbn [length]; destruct (str_eqb m0 m); cbn [andb length] in IH; lia.
  Qed.

  (* ---- balance ---- *)
  Definition balanced_at (pos : nat) (a : asg) : Prop :=
    exists c, forall j m, nth_error ms j = Some m ->
      asg_size (asg_get a m) = (c + (if (j <? pos)%nat then 1 else 0))%nat.

  Lemma rr_loop_balanced l : forall pos a a',
    (pos < length ms)%nat ->
    (forall t p m, In (t, p) l -> In m ms -> subscribed md m t = true) ->
    balanced_at pos a -> rr_loop md ms pos l a = Ok a' -> exists pos', balanced_at pos' a'.
  Proof.
    induction l as [|[t0 p0] r IH]; intros pos a a' Hp Hall B; cbn [rr_loop]; [intros [= <-]; eauto|].
    destruct (nth_error ms pos) as [m0|] eqn:En; [|apply nth_error_None in En; lia].
    assert (Hs : subscribed md m0 t0 = true) by (eapply Hall; [now left | eapply nth_error_In; eassumption]).
    rewrite (pick_now (length ms) pos t0 m0 ltac:(lia) En Hs).
    remember (length ms) as n' eqn:Len. destruct n' as [|n]; [lia|]. symmetry in Len.
    intro H. eapply IH; [| |  | exact H].
    - apply Nat.mod_upper_bound. lia.
    - intros; eapply Hall; [right|]; eassumption.
    - destruct B as [c B]. destruct (Nat.eq_dec (S pos) (S n)) as [E|E].
      + exists (S c). rewrite E, Nat.mod_same by lia. intros j m Hj.
        rewrite asg_size_add, (B j m Hj).
        assert (j < S n)%nat by (rewrite <- Len; apply nth_error_Some; congruence).
        destruct (Nat.ltb_spec j pos); destruct (Nat.ltb_spec j 0); try lia.
        * replace (str_eqb m0 m) with false; [lia|]. symmetry. apply str_eqb_neq. intros ->.
          assert (pos = j) by (eapply (proj1 (NoDup_nth_error ms) ms_nodup); [apply nth_error_Some|]; congruence). lia.
        * assert (j = pos) by lia. subst j. assert (m = m0) by congruence. subst. rewrite str_eqb_refl. lia.
      + exists c. rewrite Nat.mod_small by lia. intros j m Hj. rewrite asg_size_add, (B j m Hj).
        destruct (Nat.ltb_spec j pos); destruct (Nat.ltb_spec j (S pos)); try lia.
        * replace (str_eqb m0 m) with false; [lia|]. symmetry. apply str_eqb_neq. intros ->.
          assert (pos = j) by (eapply (proj1 (NoDup_nth_error ms) ms_nodup); [apply nth_error_Some|]; congruence). lia.
        * assert (j = pos) by lia. subst j. assert (m = m0) by congruence. subst. rewrite str_eqb_refl. lia.
        * replace (str_eqb m0 m) with false; [lia|]. symmetry. apply str_eqb_neq. intros ->.
          assert (pos = j) by (eapply (proj1 (NoDup_nth_error ms) ms_nodup); [apply nth_error_Some|]; congruence). lia.
  Qed.

  Lemma balanced_at_diff pos a m1 m2 :
    balanced_at pos a -> In m1 ms -> In m2 ms -> (asg_size (asg_get a m1) <= asg_size (asg_get a m2) + 1)%nat.
  Proof.
    intros [c B] H1 H2. apply In_nth_error in H1, H2. destruct H1 as [j1 H1], H2 as [j2 H2].
    rewrite (B _ _ H1), (B _ _ H2). destruct (j1 <? pos)%nat, (j2 <? pos)%nat; lia.
  Qed.
End Cycle.

(* the cycle depends on the metadata dict only through its lookups *)
Lemma pick_ext md md' ms : (forall m, dict_get md m = dict_get md' m) ->
  forall fuel pos t, pick fuel md ms pos t = pick fuel md' ms pos t.
Proof.
  intros H fuel. induction fuel as [|f IH]; intros pos t; cbn [pick]; [reflexivity|].
  destruct (nth_error ms pos); [|reflexivity]. rewrite H. destruct (dict_get md' s); [|reflexivity].
  destruct (str_mem t l); [reflexivity | apply IH].
Qed.

Lemma rr_loop_ext md md' ms : (forall m, dict_get md m = dict_get md' m) ->
  forall l pos a, rr_loop md ms pos l a = rr_loop md' ms pos l a.
Proof.
  intros H l. induction l as [|[t p] r IH]; intros pos a; cbn [rr_loop]; [reflexivity|].
  rewrite (pick_ext md md' ms H). destruct (pick (length ms) md' ms pos t) as [[m pos']|e]; [apply IH | reflexivity].
Qed.
