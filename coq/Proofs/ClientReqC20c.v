(* The Deferred returned by close() does fire: while it is pending some broker client is still closing (Props/C20.v). *)
From AV Require Import Base.Util Proofs.UtilFacts Model.Framing Proofs.FramingFacts
  Proofs.BrokerClientTbl Proofs.BrokerClientInv Proofs.BrokerClientC06 Proofs.BrokerClientC10.
From AV Require Model.BrokerClient.
From AV Require Import Model.ClientReq Proofs.ClientReqBase Proofs.ClientReqStep Proofs.ClientReqC11 Proofs.ClientReqMono
  Proofs.ClientReqMono2 Proofs.ClientReqClosed Proofs.ClientReqStruct Proofs.ClientReqC20 Proofs.ClientReqDl Proofs.ClientReqC20b.
From Coq Require Import Lia.

(* ------------------------------------------------------------------ no starvation: while the close Deferred is pending, some broker
   client is still closing.  [E3]: self.close_dlist, when set, awaits only broker clients that are still closing, at least one. *)
Definition E3 (C : cstate) : Prop :=
  forall l, c_dl C = Some l -> l <> [] /\ forall i, In i l -> bc_pending C i = true.
Definition E1 (C : cstate) : Prop := c_wait C = true -> c_dl C <> None.

Lemma bc_pending_sts_eq C C' i : sts C' = sts C -> bc_pending C' i = bc_pending C i.
Proof.
  intro E. unfold bc_pending, bc_down, bc_st. unfold sts in E.
  assert (option_map b_st (nth_error (c_bcs C') i) = option_map b_st (nth_error (c_bcs C) i)) as X
    by (rewrite <- !nth_error_map, E; reflexivity).
  destruct (nth_error (c_bcs C') i), (nth_error (c_bcs C) i); cbn in X; try discriminate; [injection X as ->|]; reflexivity.
Qed.

Lemma dl_refresh_sts C : sts (fst (dl_refresh C)) = sts C.
Proof.
  unfold dl_refresh. destruct (c_dl C) as [l|]; [|reflexivity]. destruct (filter (bc_pending C) l); [|reflexivity].
  destruct (c_wait _); reflexivity.
Qed.

(* after a refresh, E3 holds whatever was there before; E1 is kept *)
Lemma dl_refresh_E3 C : E3 (fst (dl_refresh C)) /\ (E1 C -> E1 (fst (dl_refresh C))).
Proof.
  unfold dl_refresh. destruct (c_dl C) as [l|] eqn:El.
  - destruct (filter (bc_pending C) l) as [|x l'] eqn:Ef.
    + destruct (c_wait (with_dl C None)) eqn:W; cbn [fst]; (split; [intros l0 H; cbn in H; discriminate | intros _ H; cbn in *; congruence]).
    + cbn [fst]. split.
      * intros l0 H. cbn in H. injection H as <-. split; [discriminate|]. intros i Hi. rewrite <- Ef in Hi. apply filter_In in Hi.
        rewrite (bc_pending_sts_eq C (with_dl C (Some (x :: l'))) i eq_refl). exact (proj2 Hi).
      * intros E H. cbn. discriminate.
  - cbn [fst]. split; [intros l0 H; congruence | auto].
Qed.

Lemma BrokerClient_out_dec (o : BrokerClient.output) : o = BrokerClient.OCloseFired \/ o <> BrokerClient.OCloseFired.
Proof. destruct o; try (right; discriminate). left. reflexivity. Qed.

Lemma inert_keeps C i o : inert_mo o = true -> o <> BrokerClient.OCloseFired ->
  sts (fst (tr_out C i o)) = sts C /\ c_dl (fst (tr_out C i o)) = c_dl C /\ c_wait (fst (tr_out C i o)) = c_wait C.
Proof.
  intros In N. destruct o; try discriminate; cbn [tr_out fst]; try (repeat split; reflexivity).
  - destruct (nth_error (c_bcs C) i) as [b|]; [|repeat split; reflexivity]. destruct (b_timer b); cbn [fst]; [|repeat split; reflexivity].
    split; [apply sts_upd_keep; reflexivity | split; reflexivity].
  - congruence.
Qed.

Lemma E3_frame C C' : sts C' = sts C -> c_dl C' = c_dl C -> E3 C -> E3 C'.
Proof.
  intros A B E l H. rewrite B in H. destruct (E l H) as [N P]. split; [exact N|]. intros i Hi. rewrite (bc_pending_sts_eq C C' i A). auto.
Qed.

Lemma tr_out_sts C i o : inert_mo o = true -> sts (fst (tr_out C i o)) = sts C.
Proof.
  intro In. destruct o; try discriminate; cbn [tr_out fst]; try reflexivity.
  - destruct (nth_error (c_bcs C) i) as [b|]; [|reflexivity]. destruct (b_timer b); cbn [fst]; [apply sts_upd_keep|]; reflexivity.
  - apply dl_refresh_sts.
Qed.

(* translating inert outputs: E3 is kept if it held, and is (re-)established as soon as the close notification is among them *)
Lemma tr_list_E3 : forall os C i, forallb inert_mo os = true -> E1 C ->
  (E3 C \/ In BrokerClient.OCloseFired os) -> E3 (fst (tr_list C i os)) /\ E1 (fst (tr_list C i os)) /\ sts (fst (tr_list C i os)) = sts C.
Proof.
  induction os as [|o os IH]; intros C i In E Hyp; cbn [tr_list].
  - destruct Hyp as [H|[]]. auto.
  - cbn [forallb] in In. apply andb_prop in In. destruct In as [Io Ios].
    assert (E1 (fst (tr_out C i o)) /\ (E3 C \/ o = BrokerClient.OCloseFired -> E3 (fst (tr_out C i o)))) as [E1' E3'].
    { destruct (BrokerClient_out_dec o) as [->|N].
      - cbn [tr_out]. destruct (dl_refresh_E3 C) as [A B]. split; [exact (B E) | intros _; exact A].
      - destruct (inert_keeps C i o Io N) as (S1 & S2 & S3). split.
        + unfold E1. rewrite S2, S3. exact E.
        + intros [H|H]; [eapply E3_frame; eauto | contradiction]. }
    pose proof (tr_out_sts C i o Io) as St.
    destruct (tr_out C i o) as [C1 o1]. cbn [fst] in *.
    assert (E3 C1 \/ In BrokerClient.OCloseFired os) as Hyp1.
    { destruct Hyp as [H|[H|H]]; [left; apply E3'; left; exact H | left; apply E3'; right; exact H | right; exact H]. }
    destruct (IH C1 i Ios E1' Hyp1) as (A & B & D). destruct (tr_list C1 i os). cbn [fst] in *. split; [exact A|]. split; [exact B | congruence].
Qed.

(* M7: a closing broker client stops being "closing" only by delivering its down-notification *)
Lemma pending_after s e s' mo : BrokerClient.step s e = (s', mo) -> pend_s s -> pend_s s' \/ In BrokerClient.OCloseFired mo.
Proof.
  unfold pend_s. intros H P. destruct e; cbn [BrokerClient.step] in H.
  - unfold BrokerClient.make_request in H. destruct (BrokerClient.lookup rid _); [injection H as <- _; auto|].
    rewrite P in H. unfold BrokerClient.lift in H. injection H as <- _. cbn. auto.
  - unfold BrokerClient.lift in H. injection H as <- _. auto.
  - destruct (BrokerClient.s_connector s); try (injection H as <- _; auto).
    cbn in H. rewrite P in H. injection H as <- _. cbn. auto.
  - destruct (BrokerClient.s_connector s); try (injection H as <- _; auto).
    rewrite P in H. unfold BrokerClient.fire_down in H. cbn in H. rewrite P in H. injection H as _ <-. right. left. reflexivity.
  - destruct (BrokerClient.s_proto s); [|injection H as <- _; auto].
    cbn in H. rewrite P in H. unfold BrokerClient.fire_down in H. cbn in H. rewrite P in H. injection H as _ <-. right. left. reflexivity.
  - destruct (BrokerClient.s_proto s); [|injection H as <- _; auto].
    unfold BrokerClient.data_in in H. destruct (data_received _ _ _) as [fs e]. destruct (BrokerClient.deliver _ _) as [t1 o1].
    destruct e; injection H as <- _; cbn; auto.
  - destruct (BrokerClient.s_proto s); [|injection H as <- _; auto].
    unfold BrokerClient.data_in in H. destruct (data_received _ _ _) as [fs e]. destruct (BrokerClient.deliver _ _) as [t1 o1].
    destruct e; injection H as <- _; cbn; auto.
  - destruct (BrokerClient.s_connector s); injection H as <- _; cbn; auto.
  - rewrite P in H. injection H as <- _. auto.
  - destruct (BrokerClient.s_proto s); injection H as <- _; auto.
  - destruct same; injection H as <- _; cbn; auto.
Qed.

Lemma has_cf_dec (mo : list BrokerClient.output) : In BrokerClient.OCloseFired mo \/ ~ In BrokerClient.OCloseFired mo.
Proof.
  induction mo as [|o mo IH]; [right; intros []|]. destruct IH as [Y|Y]; [left; right; exact Y|].
  destruct (BrokerClient_out_dec o) as [->|N]; [left; left; reflexivity | right; intros [Z|Z]; [exact (N Z) | exact (Y Z)]].
Qed.

Lemma ev_bc_closed_E3 C i e C' o : ClosedInv C -> is_make e = false -> e <> BrokerClient.EClose -> E1 C -> E3 C ->
  ev_bc C i e = (C', o) -> E1 C' /\ E3 C'.
Proof.
  intros [Cc T D Dn Tp] M NE E1c E3c H. unfold ev_bc, bc_event, apply_bc in H.
  destruct (nth_error (c_bcs C) i) as [b|] eqn:Eb.
  2:{ cbn [proc] in H. injection H as <- _. auto. }
  destruct (BrokerClient.step (b_st b) e) as [s' mo] eqn:Es.
  destruct (TInvC_bc _ _ _ _ T Eb) as (I & _).
  destruct (closed_mo _ _ _ _ I (D i b Eb) M Es) as [_ Hin].
  destruct (proc_inert succ1 mo (upd_bc C i (set_st s')) i Hin) as [Ep _]. rewrite Ep in H.
  set (C1 := upd_bc C i (set_st s')) in *.
  assert (E1 C1) as E1' by exact E1c.
  assert (E3 C1 \/ In BrokerClient.OCloseFired mo) as Hyp.
  { destruct (has_cf_dec mo) as [Y|Y]; [right; exact Y | left].
    intros l Hl. change (c_dl C1) with (c_dl C) in Hl. destruct (E3c l Hl) as [N P]. split; [exact N|].
    intros j Hj. specialize (P j Hj). unfold bc_pending, bc_down, bc_st in *. unfold C1, upd_bc. cbn [c_bcs with_bcs].
    destruct (Nat.eq_dec i j) as [<-|Nj]; [|rewrite nth_upd_other by exact Nj; exact P].
    rewrite (nth_upd_same _ _ _ _ Eb). cbn [set_st b_st]. rewrite Eb in P.
    assert (pend_s (b_st b)) as Pb by (unfold pend_s; destruct (BrokerClient.s_down (b_st b)); try discriminate; reflexivity).
    destruct (pending_after _ _ _ _ Es Pb) as [X|X]; [unfold pend_s in X; rewrite X; reflexivity | contradiction]. }
  destruct (tr_list_E3 mo C1 i Hin E1' Hyp) as (A & B & _). rewrite H in A, B. cbn [fst] in *. auto.
Qed.

Ltac closed_e3 K E1c E3c H :=
  match type of H with ev_bc ?C ?i ?e = (?C', ?o) =>
    exact (ev_bc_closed_E3 C i e C' o K eq_refl ltac:(discriminate) E1c E3c H) end.

Lemma keep_e3 C C' : sts C' = sts C -> c_dl C' = c_dl C -> c_wait C' = c_wait C -> E1 C -> E3 C -> E1 C' /\ E3 C'.
Proof. intros A B W E1c E3c. split; [unfold E1; rewrite B, W; exact E1c | eapply E3_frame; eauto]. Qed.

Theorem step_closed_E3 C e C' o : ClosedInv C -> E1 C -> E3 C -> step C e = (C', o) -> E1 C' /\ E3 C'.
Proof.
  intros K E1c E3c H. pose proof K as [Cc T D Dn Tp]. destruct e; cbn [step] in H.
  - rewrite Cc in H. injection H as <- _. auto.
  - destruct (nth_error (c_direct C) d) as [[i h]|]; [closed_e3 K E1c E3c H|]. injection H as <- _. auto.
  - unfold next_id in H. cbn [fst snd] in H. set (C1 := with_corr C _) in *. set (op0 := mkOp kind all _ PDone) in *.
    change (c_clients (with_ops C1 (c_ops C1 ++ [op0]))) with (c_clients C) in H. rewrite Cc in H.
    unfold op_fail in H. change (c_ops (with_ops C1 (c_ops C1 ++ [op0]))) with (c_ops C ++ [op0]) in H.
    change (length (c_ops C1)) with (length (c_ops C)) in H. rewrite nth_error_snoc in H. injection H as <- _.
    apply (keep_e3 C); auto.
  - unfold update_brokers in H. cbn [c_clients with_brokers] in H. rewrite Cc in H.
    destruct (dict_update [] brokers); [destruct remove|]; injection H as <- _; apply (keep_e3 C); auto.
  - rewrite Cc in H. injection H as <- _. auto.
  - injection H as <- _. apply (keep_e3 C); auto.
  - closed_e3 K E1c E3c H.
  - closed_e3 K E1c E3c H.
  - closed_e3 K E1c E3c H.
  - closed_e3 K E1c E3c H.
  - destruct (nth_error (c_timers C) t) as [[i h|i|p a|p]|]; [| | | |injection H as <- _; auto].
    + unfold creq_at in H. destruct (nth_error (c_bcs C) i) as [b|] eqn:Eb; [|injection H as <- _; auto].
      destruct (nth_error (b_reqs b) h) as [[ow [t'|] to]|] eqn:Eq; try (injection H as <- _; auto).
      exfalso. destruct (TInvC_bc _ _ _ _ T Eb) as (I & L & A & _). destruct (A h _ t' Eq eq_refl) as [_ [X|[]]].
      apply X. apply closed_all_fired; [exact I | exact (D i b Eb) |]. rewrite <- L. apply nth_error_Some. congruence.
    + destruct (nth_error (c_bcs C) i) as [b|]; [|injection H as <- _; auto].
      destruct (match b_timer b with Some t' => Nat.eqb t t' | None => false end); [|injection H as <- _; auto].
      assert (ClosedInv (upd_bc C i (set_btimer None))) as K1.
      { constructor; [exact Cc | eapply TInvC_same_core; [exact T | apply upd_bc_core; intros; reflexivity] | | exact Dn | exact Tp].
        apply (same_core_down C); [apply upd_bc_core; intros; reflexivity | exact D]. }
      destruct (keep_e3 C (upd_bc C i (set_btimer None)) (sts_upd_keep C i (set_btimer None) (fun b0 => eq_refl)) eq_refl eq_refl E1c E3c) as [E1' E3'].
      match type of H with ev_bc ?C0 ?i0 ?e0 = _ => exact (ev_bc_closed_E3 C0 i0 e0 C' o K1 eq_refl ltac:(discriminate) E1' E3' H) end.
    + rewrite (phase_done C p Dn) in H. injection H as <- _. auto.
    + rewrite (phase_done C p Dn) in H. injection H as <- _. auto.
  - destruct (nth_error (c_boots C) a) as [[[p rid] [| |]]|]; try (injection H as <- _; auto).
    rewrite (phase_done C p Dn) in H. injection H as <- _. auto.
  - destruct (nth_error (c_boots C) a) as [[[p rid] [| |]]|]; try (injection H as <- _; auto).
    rewrite (phase_done C p Dn) in H. injection H as <- _. auto.
  - destruct (nth_error (c_boots C) a) as [[[p rid'] [|pend|]]|]; try (injection H as <- _; auto).
    destruct (pend && zlist_eqb (id4 rid) (id4 rid')); [|injection H as <- _; auto].
    rewrite (phase_done _ p (cl_done _ (closed_set_boot C a (KLive false) K))) in H. injection H as <- _. apply (keep_e3 C); auto.
  - destruct (nth_error (c_boots C) a) as [[[p rid'] [|pend|]]|]; try (injection H as <- _; auto).
    rewrite (phase_done _ p (cl_done _ (closed_set_boot C a KDead K))) in H. destruct pend; injection H as <- _; apply (keep_e3 C); auto.
  - (* EResend *) rewrite Cc in H. injection H as <- _. auto.
Qed.

(* close() establishes E1 and E3 *)
Definition dlframe (C C' : cstate) : Prop := sts C' = sts C /\ c_dl C' = c_dl C /\ c_wait C' = c_wait C.

Lemma boot_next_dlframe C p hosts : dlframe C (fst (boot_next C p hosts)).
Proof.
  unfold boot_next, op_fail, dlframe. destruct (closing C); [destruct (nth_error (c_ops C) p); cbn; auto|].
  destruct hosts; [destruct (nth_error (c_ops C) p); cbn; auto | cbn; auto].
Qed.

Lemma cancel_boots_dlframe : forall n C p, dlframe C (fst (cancel_boots C n p)).
Proof.
  induction n as [|n IH]; intros C p; cbn [cancel_boots]; [unfold dlframe; auto|].
  set (X := match nth_error (c_ops C) p with
            | Some (mkOp _ _ _ (PBootConn a rest)) => let (C', o') := boot_next (set_boot C a KDead) p rest in (C', OBootCancel a :: o')
            | Some (mkOp _ _ _ (PBootReq a t rest)) => let (C', o') := boot_next C p rest in (C', OCancelTimer t :: OBootLose a :: o')
            | Some (mkOp _ _ _ (PWait t)) => let (C', o') := op_fail C p RCancelled in (C', OCancelTimer t :: o')
            | _ => (C, []) end).
  assert (dlframe C (fst X)) as F1.
  { unfold X. destruct (nth_error (c_ops C) p) as [[k al rid ph]|]; [|unfold dlframe; auto]. destruct ph; try (unfold dlframe; auto; fail).
    - pose proof (boot_next_dlframe (set_boot C a KDead) p rest) as Y. destruct (boot_next (set_boot C a KDead) p rest). exact Y.
    - pose proof (boot_next_dlframe C p rest) as Y. destruct (boot_next C p rest). exact Y.
    - unfold op_fail, dlframe. destruct (nth_error (c_ops C) p); cbn; auto. }
  destruct X as [C1 o1]. cbn [fst] in F1. pose proof (IH C1 (S p)) as F2. destruct (cancel_boots C1 n (S p)). cbn [fst] in *.
  unfold dlframe in *. destruct F1 as (A1 & A2 & A3), F2 as (B1 & B2 & B3). repeat split; congruence.
Qed.

Definition Rw (C C' : cstate) : Prop := c_wait C' = true -> c_wait C = true.

Lemma wait_close_brokerclients C l : c_wait (fst (close_brokerclients C l)) = true -> c_wait C = true.
Proof.
  apply (g2_close_brokerclients Rw); unfold Rw; auto.
  - intros C0 C1 _ _ _ _ W H. congruence.
  - intros C0. apply dl_refresh_wait.
  - intros C0 i e H. unfold apply_bc in H. destruct (nth_error (c_bcs C0) i); [|exact H]. destruct (BrokerClient.step _ _). exact H.
Qed.

Lemma close_brokerclients_E3 C l : E3 (fst (close_brokerclients C l)).
Proof.
  unfold close_brokerclients. destruct (close_each C l) as [C1 o1]. set (C1' := with_dl C1 _).
  destruct (dl_refresh_E3 C1') as [A _]. destruct (dl_refresh C1'). exact A.
Qed.

Lemma close_E13 C cl C' o : c_clients C = Some cl -> c_wait C = false -> step C EClose = (C', o) -> E1 C' /\ E3 C'.
Proof.
  intros Ec Wf H. cbn [step] in H. rewrite Ec in H.
  pose proof (close_brokerclients_E3 (with_clients C None) (map snd cl)) as A.
  pose proof (wait_close_brokerclients (with_clients C None) (map snd cl)) as W.
  destruct (close_brokerclients (with_clients C None) (map snd cl)) as [C2 o2]. cbn [fst] in A, W.
  destruct (cancel_boots_dlframe (length (c_ops C2)) C2 0) as (F1 & F2 & F3).
  destruct (cancel_boots C2 (length (c_ops C2)) 0) as [C3 o3]. cbn [fst] in *.
  assert (E3 C3) as A3 by (eapply E3_frame; eauto).
  destruct (c_dl (with_topics C3 [])) eqn:Ed; injection H as <- _.
  - split; [intros _; cbn [c_dl with_wait]; rewrite Ed; discriminate | eapply E3_frame; [| |exact A3]; reflexivity].
  - split; [|eapply E3_frame; [| |exact A3]; reflexivity]. unfold E1. cbn [c_wait c_dl with_topics].
    intro W3. exfalso. rewrite F3 in W3. specialize (W W3). cbn in W. congruence.
Qed.

(* every reachable closed state satisfies E1 and E3 *)
Theorem reachable_closed_E3 : forall evs g, c_clients (fst (run (init g) evs)) = None ->
  E1 (fst (run (init g) evs)) /\ E3 (fst (run (init g) evs)).
Proof.
  intros evs g. induction evs as [|e evs IH] using rev_ind; [cbn; discriminate|].
  rewrite run_app_fst. set (C := fst (run (init g) evs)) in *.
  destruct (step C e) as [C' o] eqn:Es. cbn [fst]. intro Hc.
  destruct (c_clients C) as [cl|] eqn:Ec.
  - destruct (event_is_close e) as [->|NE].
    + apply (close_E13 C cl C' o Ec); [|exact Es].
      destruct (c_wait C) eqn:W; [|reflexivity]. pose proof (c20_wait_means_closed g evs W) as X. fold C in X. congruence.
    + exfalso. pose proof (stays_open C e NE) as X. rewrite Es in X. cbn [fst] in X. apply X; [rewrite Ec; discriminate | exact Hc].
  - destruct (IH eq_refl) as [E1c E3c]. destruct (reachable_closed evs g) as [K _]; [exact Ec|]. fold C in K.
    exact (step_closed_E3 _ _ _ _ K E1c E3c Es).
Qed.

(* NO STARVATION: while the Deferred returned by close() is pending, some broker client has not delivered its down-notification *)
Theorem c20_waiting_means_closing g evs : c_wait (fst (run (init g) evs)) = true ->
  exists i b, nth_error (c_bcs (fst (run (init g) evs))) i = Some b /\ BrokerClient.s_down (b_st b) = BrokerClient.DPending.
Proof.
  intro W. pose proof (c20_wait_means_closed g evs W) as Hc. destruct (reachable_closed_E3 evs g Hc) as [E1c E3c].
  destruct (c_dl (fst (run (init g) evs))) as [l|] eqn:El; [|exfalso; exact (E1c W El)].
  destruct (E3c l El) as [N P]. destruct l as [|i l]; [congruence|]. specialize (P i (or_introl eq_refl)).
  unfold bc_pending, bc_down, bc_st in P. destruct (nth_error (c_bcs (fst (run (init g) evs))) i) as [b|] eqn:Eb; [|discriminate].
  exists i, b. split; [exact Eb|]. destruct (BrokerClient.s_down (b_st b)); try discriminate. reflexivity.
Qed.

(* equivalently: once every broker client is down, the close Deferred is not pending any more *)
Corollary c20_all_gone_means_fired g evs :
  (forall i b, nth_error (c_bcs (fst (run (init g) evs))) i = Some b -> BrokerClient.s_down (b_st b) <> BrokerClient.DPending) ->
  c_wait (fst (run (init g) evs)) = false.
Proof.
  intro H. destruct (c_wait (fst (run (init g) evs))) eqn:W; [|reflexivity].
  destruct (c20_waiting_means_closing g evs W) as (i & b & Hb & P). exfalso. exact (H i b Hb P).
Qed.

(* fired <-> every broker client has delivered its down-notification *)
Lemma c20_close_fires_last g evs : c_clients (fst (run (init g) evs)) = None ->
  (c_wait (fst (run (init g) evs)) = false <->
   forall i b, nth_error (c_bcs (fst (run (init g) evs))) i = Some b -> BrokerClient.s_down (b_st b) = BrokerClient.DFired).
Proof.
  intro Hc. split.
  - intros W i b Hb. exact (proj1 (c20_fired_all_gone g evs Hc W i b Hb)).
  - intro H. apply c20_all_gone_means_fired. intros i b Hb P. rewrite (H i b Hb) in P. discriminate.
Qed.
