(* Generic proof that the function harness/py2assign.py generates from _round_robin_assignment equals the
   hand-written model Assign.round_robin.  Nothing here mentions the generated text; [gen_rr_tac] is run on
   Model/AssignGen.v (snapshot) and on this run's translation (coq/Run/out/gen/<id>/).
   Each loop of the source is matched by a lemma about the combinator it is rendered with, stated for an
   ARBITRARY loop body F together with a pointwise description of F that the tactic discharges by computation. *)
From AV Require Import Base.Util Model.Assign Model.AssignPy Proofs.AssignDict Proofs.AssignOrder Proofs.AssignRR.
From Coq Require Import Lia Permutation.

Lemma bind_Ok {A B} (a : A) (f : A -> result B) : bind (Ok a) f = f a.
Proof. reflexivity. Qed.
Lemma bind_assoc {A B C} (m : result A) (f : A -> result B) (g : B -> result C) :
  bind (bind m f) g = bind m (fun x => bind (f x) g).
Proof. destruct m; reflexivity. Qed.
Lemma bind_ret {A} (m : result A) : bind m (fun s => Ok s) = m.
Proof. destruct m; reflexivity. Qed.

(* ---- all_topics = set(); for metadata in values(): all_topics.update(metadata.subscriptions) ---- *)
Lemma str_mem_app x a b : str_mem x (a ++ b) = str_mem x a || str_mem x b.
Proof. induction a as [|y a IH]; cbn [app str_mem]; [reflexivity|]. rewrite IH. apply orb_assoc. Qed.
Lemma str_mem_dedup x a : str_mem x (dedup a) = str_mem x a.
Proof.
  destruct (str_mem x a) eqn:E.
  - apply (proj2 (str_mem_in x (dedup a))). apply (proj2 (dedup_in x a)). apply (proj1 (str_mem_in x a)). exact E.
  - apply str_mem_false. intro H. apply (proj1 (dedup_in x a)) in H. apply (proj2 (str_mem_in x a)) in H. congruence.
Qed.
Lemma dedup_dedup_app a b : dedup (dedup a ++ b) = dedup (a ++ b).
Proof.
  induction a as [|x a IH]; [reflexivity|]. cbn [dedup app].
  destruct (str_mem x a) eqn:E.
  - rewrite IH. rewrite str_mem_app, E. reflexivity.
  - cbn [app dedup]. rewrite !str_mem_app, str_mem_dedup, E, IH. reflexivity.
Qed.

Lemma for_set_update (F : list str -> list str -> result (list str)) :
  (forall s x, F s x = Ok (py_set_update s x)) ->
  forall (md : mdict) a, py_for (map snd md) (dedup a) F = Ok (dedup (a ++ flat_map snd md)).
Proof.
  intros HF. induction md as [|[k v] md IH]; intro a; cbn [map py_for flat_map snd].
  - rewrite app_nil_r. reflexivity.
  - rewrite HF. cbn [bind]. unfold py_set_update. rewrite dedup_dedup_app, IH, app_assoc. reflexivity.
Qed.

(* ---- for topic in all_topics: for partition in topic_partitions[topic]: l.append((topic, partition)) ---- *)
Lemma for_append_pairs (t : str) (G : list (str * Z) -> Z -> result (list (str * Z))) :
  (forall s p, G s p = Ok (s ++ [(t, p)])) ->
  forall ps acc, py_for ps acc G = Ok (acc ++ map (pair t) ps).
Proof.
  intro HG. induction ps as [|p ps IH]; intro acc; cbn [py_for map].
  - rewrite app_nil_r. reflexivity.
  - rewrite HG. cbn [bind]. rewrite IH, <- app_assoc. reflexivity.
Qed.

Lemma for_expand (tp : tpmap) (F : list (str * Z) -> str -> result (list (str * Z))) :
  (forall s t, F s t = match dict_get tp t with Some ps => Ok (s ++ map (pair t) ps) | None => Err EKey end) ->
  forall ts acc, py_for ts acc F = match expand tp ts with Some l => Ok (acc ++ l) | None => Err EKey end.
Proof.
  intro HF. induction ts as [|t ts IH]; intro acc; cbn [py_for expand].
  - rewrite app_nil_r. reflexivity.
  - rewrite HF. destruct (dict_get tp t) as [ps|]; [|reflexivity]. cbn [bind]. rewrite IH.
    destruct (expand tp ts) as [l|]; [|reflexivity]. rewrite app_assoc. reflexivity.
Qed.

(* ---- member_id = next(it); while topic not in member_metadata[member_id].subscriptions: member_id = next(it) ---- *)
Section Pick.
  Variable md : mdict.
  Variable ms : list str.
  Variable t : str.
  Hypothesis ms_nodup : NoDup ms.
  Hypothesis ms_keys : forall m, In m ms -> dict_get md m <> None.

  (* the loop as the translator renders it, state = (iterator, member_id) *)
  Definition wh_cond (s : (list str * nat) * str) : result bool :=
    bind (py_getitem md (snd s)) (fun subs => Ok (negb (str_mem t subs))).
  Definition wh_body (s : (list str * nat) * str) : result ((list str * nat) * str) :=
    bind (py_next (fst s)) (fun r => Ok (snd r, fst r)).
  Definition gen_pick (fuel pos : nat) : result ((list str * nat) * str) :=
    bind (py_next (ms, pos)) (fun r => py_while fuel (snd r, fst r) wh_cond wh_body).

  Lemma gen_pick_ok : forall n pos r, pick n md ms pos t = Ok r ->
    forall f, (n <= f)%nat -> gen_pick f pos = Ok ((ms, snd r), fst r).
  Proof.
    induction n as [|n IH]; intros pos r H f Hf; cbn [pick] in H; [discriminate|].
    unfold gen_pick, py_next. cbn [fst snd].
    destruct (nth_error ms pos) as [m0|] eqn:En; [|discriminate]. cbn [bind fst snd].
    destruct (dict_get md m0) as [subs|] eqn:Ed; [|discriminate].
    destruct f as [|f]; [lia|]. cbn [py_while]. unfold wh_cond at 1, py_getitem. cbn [snd]. rewrite Ed. cbn [bind].
    destruct (str_mem t subs) eqn:Es; cbn [negb].
    - injection H as <-. reflexivity.
    - unfold wh_body at 1. cbn [fst]. fold (gen_pick f (Nat.modulo (S pos) (length ms))) in *.
      specialize (IH _ _ H f ltac:(lia)). unfold gen_pick in IH.
      destruct (py_next (ms, Nat.modulo (S pos) (length ms))) as [[m1 it1]|e]; cbn [bind fst snd] in *; exact IH.
  Qed.

  Lemma gen_pick_spin : (forall m, In m ms -> subscribed md m t = false) ->
    forall f pos, (pos < length ms)%nat -> gen_pick f pos = Err EFuel.
  Proof.
    intro Hno. induction f as [|f IH]; intros pos Hp; unfold gen_pick, py_next; cbn [fst snd];
      (destruct (nth_error ms pos) as [m0|] eqn:En; [|apply nth_error_None in En; lia]); cbn [bind fst snd py_while].
    - reflexivity.
    - assert (Hin : In m0 ms) by (eapply nth_error_In; exact En).
      unfold wh_cond at 1, py_getitem. cbn [snd]. pose proof (Hno m0 Hin) as Hs. unfold subscribed in Hs.
      destruct (dict_get md m0) as [subs|] eqn:Ed; [|exfalso; exact (ms_keys m0 Hin Ed)].
      cbn [bind]. rewrite Hs. cbn [negb]. unfold wh_body at 1. cbn [fst].
      assert (Hp' : (Nat.modulo (S pos) (length ms) < length ms)%nat) by (apply Nat.mod_upper_bound; lia).
      specialize (IH _ Hp'). unfold gen_pick in IH.
      destruct (py_next (ms, Nat.modulo (S pos) (length ms))) as [[m1 it1]|e]; cbn [bind fst snd] in *; exact IH.
  Qed.

  Lemma gen_pick_pick f pos : (pos < length ms)%nat -> (length ms <= f)%nat ->
    gen_pick f pos = match pick (length ms) md ms pos t with Ok r => Ok ((ms, snd r), fst r) | Err e => Err e end.
  Proof.
    intros Hp Hf. destruct (pick (length ms) md ms pos t) as [r|e] eqn:E.
    - exact (gen_pick_ok _ _ _ E f Hf).
    - pose proof (pick_err md ms ms_keys _ _ _ _ Hp E) as ->.
      apply gen_pick_spin; [|exact Hp]. intros m Hm.
      destruct (subscribed md m t) eqn:Es; [|reflexivity]. exfalso.
      destruct (pick_complete md ms ms_keys pos t m Hp Hm Es) as (m' & pos' & E'). congruence.
  Qed.
End Pick.

(* ---- for topic, partition in all_topic_partitions: <pick>; assignment[member_id][topic].append(partition) ---- *)
Section Loop.
  Variable md : mdict.
  Variable ms : list str.
  Variable fuel : nat.
  Hypothesis ms_nodup : NoDup ms.
  Hypothesis ms_keys : forall m, In m ms -> dict_get md m <> None.
  Hypothesis fuel_ok : (length ms <= fuel)%nat.
  (* state = (assignment, iterator) *)
  Variable G : asg * (list str * nat) -> str * Z -> result (asg * (list str * nat)).
  Hypothesis HG : forall a pos t p, G (a, (ms, pos)) (t, p) =
    bind (gen_pick md ms t fuel pos) (fun r => Ok (asg_add a (snd r) t p, fst r)).

  Lemma for_rr_loop : forall l pos a, (pos < length ms)%nat ->
    bind (py_for l (a, (ms, pos)) G) (fun s => Ok (fst s)) = rr_loop md ms pos l a.
  Proof.
    induction l as [|[t p] l IH]; intros pos a Hp; cbn [py_for rr_loop]; [reflexivity|].
    rewrite HG, (gen_pick_pick md ms t ms_keys fuel pos Hp fuel_ok).
    destruct (pick (length ms) md ms pos t) as [[m pos']|e] eqn:E; cbn [bind fst snd]; [|reflexivity].
    apply IH. destruct (pick_sound md ms _ _ _ _ _ E) as (_ & _ & H & _). exact H.
  Qed.
End Loop.

(* ---- facts about sorted(member_metadata.keys()) ---- *)
Lemma sorted_keys_nodup (md : mdict) : NoDup (map fst md) -> NoDup (str_sort (map fst md)).
Proof. intro H. eapply Permutation_NoDup; [apply str_sort_perm | exact H]. Qed.
Lemma dict_get_key {V} (d : list (str * V)) k : In k (map fst d) -> dict_get d k <> None.
Proof.
  induction d as [|[k' v] d IH]; cbn [map fst In dict_get]; [tauto|]. intros [->|H].
  - rewrite (proj2 (str_eqb_eq k k) eq_refl). discriminate.
  - destruct (str_eqb k' k); [discriminate | exact (IH H)].
Qed.
Lemma sorted_keys_keys (md : mdict) m : In m (str_sort (map fst md)) -> dict_get md m <> None.
Proof. intro H. apply dict_get_key. apply str_sort_in. exact H. Qed.
Lemma all_topics_nonempty_md (md : mdict) : all_topics md <> [] -> (0 < length (str_sort (map fst md)))%nat.
Proof.
  intro H. rewrite <- (Permutation_length (str_sort_perm (map fst md))), map_length.
  destruct md; [exfalso; apply H; reflexivity | cbn; lia].
Qed.

(* ---- the tactic ---- *)
Ltac by_computation := intros; cbv beta iota zeta; reflexivity.

Ltac gen_rr_tac :=
  let fuel := fresh "fuel" in let md := fresh "md" in let tp := fresh "tp" in
  let Hnd := fresh "Hnd" in let Hfuel := fresh "Hfuel" in
  intros fuel md tp Hnd Hfuel;
  unfold round_robin; autounfold with gen_assign_defs; cbv beta zeta;
  (* 1. the set of subscribed topics *)
  change (@nil str) with (dedup (@nil str)) at 1;
  erewrite for_set_update by by_computation;
  change (dedup ([] ++ flat_map snd md)) with (all_topics md);
  rewrite bind_Ok;
  destruct (all_topics md) as [|t0 ts] eqn:Ets; [reflexivity|];
  cbn [py_is_empty negb py_assert]; rewrite bind_Ok;
  (* 2. the (topic, partition) pairs; KeyError -> _NeedTopicPartitions *)
  erewrite (for_expand tp) by
    (intros; cbv beta iota zeta; unfold py_getitem;
     match goal with |- context [dict_get tp ?k] => destruct (dict_get tp k) end; [|reflexivity];
     cbn [bind]; erewrite for_append_pairs by by_computation; reflexivity);
  rewrite ?bind_ret; cbn [app];
  destruct (expand tp (t0 :: ts)) as [l|]; cbn [py_try_key bind]; [|reflexivity];
  (* 3. the round-robin loop *)
  unfold py_cycle;
  apply (for_rr_loop md (str_sort (map fst md)) fuel (sorted_keys_keys md));
  [ rewrite <- (Permutation_length (str_sort_perm (map fst md))), map_length; exact Hfuel
  | intros; cbv beta iota zeta; unfold gen_pick, wh_cond, wh_body; rewrite bind_assoc; reflexivity
  | apply all_topics_nonempty_md; rewrite Ets; discriminate ].
