(* Generic proof that the text harness/py2assign.py generates from _ConsumerProtocol.generate_assignments /
   decode_assignment / join_group_protocols equals the hand-written model (Assign.generate_assignments_raw,
   Assign.decode_assignment, Assign.enc_metadata).  Nothing here mentions the generated text. *)
From AV Require Import Base.Util Model.Assign Model.AssignPy Proofs.AssignDict Proofs.AssignGenTac.
From Coq Require Import Lia.

(* destruct the scrutinee of every bind that is a codec call (not itself a bind / Ok / Err) *)
Ltac crush_binds :=
  cbv beta iota zeta;
  repeat (cbn [bind];
          match goal with
          | |- context [bind ?m _] =>
              lazymatch m with
              | bind _ _ => fail
              | Ok _ => fail
              | Err _ => fail
              | _ => destruct m
              end
          end);
  cbn [bind]; try reflexivity.

(* member_metadata = {}; for member in members: member_metadata[member.member_id] = decode(member.member_metadata) *)
Lemma for_decode_members (F : mdict -> str * list Z -> result mdict) :
  (forall s x, F s x = bind (py_decode_metadata (snd x)) (fun t => Ok (dict_set s (fst x) t))) ->
  forall raw acc, py_for raw acc F =
    bind (decode_members raw) (fun ms => Ok (fold_left (fun d m => dict_set d (fst m) (snd m)) ms acc)).
Proof.
  intro HF. induction raw as [|[m b] raw IH]; intro acc; cbn [py_for decode_members]; [reflexivity|].
  rewrite HF. unfold py_decode_metadata. cbn [fst snd]. destruct (dec_metadata b) as [x|e]; cbn [bind]; [|reflexivity].
  rewrite IH. destruct (decode_members raw) as [ms|e]; cbn [bind]; reflexivity.
Qed.

Lemma decode_members_ids : forall raw ms, decode_members raw = Ok ms ->
  map fst ms = map fst raw /\ length ms = length raw.
Proof.
  induction raw as [|[m b] raw IH]; intros ms H; cbn [decode_members] in H.
  - injection H as <-. split; reflexivity.
  - destruct (dec_metadata b) as [x|e]; cbn [bind] in H; [|discriminate].
    destruct (decode_members raw) as [l|e]; cbn [bind] in H; [|discriminate].
    injection H as <-. destruct (IH l eq_refl) as [H1 H2]. cbn [map fst length]. split; congruence.
Qed.

(* out = []; for member in members: out.append((member.member_id, encode(assignments.get(member.member_id, {})))) *)
Lemma for_encode_all (a : asg) (G : list (str * list Z) -> str * list Z -> result (list (str * list Z))) :
  (forall s x, G s x = bind (enc_assignment 0 (asg_get a (fst x)) (Some [])) (fun b => Ok (s ++ [(fst x, b)]))) ->
  forall l acc, py_for l acc G = bind (encode_all a (map fst l)) (fun r => Ok (acc ++ r)).
Proof.
  intro HG. induction l as [|[m b] l IH]; intro acc; cbn [py_for map fst encode_all bind].
  - rewrite app_nil_r. reflexivity.
  - rewrite HG. cbn [fst]. destruct (enc_assignment 0 (asg_get a m) (Some [])) as [e|e]; cbn [bind]; [|reflexivity].
    rewrite IH. destruct (encode_all a (map fst l)) as [r|e2]; cbn [bind]; [|reflexivity].
    rewrite <- app_assoc. reflexivity.
Qed.

(* [leader] : the theorem about the generated _round_robin_assignment (gen_leader_eq_model of THIS translation) *)
Ltac gen_ga_tac leader :=
  let fuel := fresh "fuel" in let raw := fresh "raw" in let tp := fresh "tp" in let Hf := fresh "Hf" in
  intros fuel raw tp Hf;
  unfold generate_assignments_raw, generate_assignments; autounfold with gen_assign_wrap_defs; cbv beta zeta;
  erewrite for_decode_members by (intros; unfold py_decode_metadata; crush_binds);
  let ms := fresh "ms" in let E := fresh "E" in
  destruct (decode_members raw) as [ms|?] eqn:E; cbn [bind]; [|reflexivity];
  destruct (decode_members_ids raw ms E) as [Hids Hlen];
  change (fold_left (fun d m => dict_set d (fst m) (snd m)) ms []) with (build_md ms);
  rewrite (leader fuel ms tp) by (rewrite Hlen; exact Hf);
  let a := fresh "a" in
  destruct (leader_assign ms tp) as [a|?]; cbn [bind]; [|reflexivity];
  erewrite (for_encode_all a) by (intros; crush_binds);
  rewrite <- Hids; cbn [app];
  destruct (encode_all a (map fst ms)); reflexivity.

Ltac gen_da_tac := intro; unfold decode_assignment; autounfold with gen_assign_wrap_defs; crush_binds.
Ltac gen_jp_tac := intro; autounfold with gen_assign_wrap_defs; crush_binds.
