(* C3 (commits against what was delivered and processed; the coordinator's store) over whole runs of the model, and
   the reading of its commit rule in terms of offsets. *)
From Coq Require Import Lia.
From AV Require Import Base.Util Model.Consumer Model.ConsumerLog Model.ConsumerLogFifo Model.ConsumerLogC03
  Proofs.ConsumerC02Extract Proofs.ConsumerC03PwbRun Proofs.ConsumerC03Commit.

Theorem c3_monitor_accepts fuel c maxatt buf evs :
  0 <= c_acn c -> run_fuel_ok fuel c maxatt buf evs = true ->
  exists g, mon_run_s c3_ev c3_out c30 (run_steps fuel (init c maxatt buf) evs) = Some g
            /\ c3_inv g
            /\ b_pw (m_b g) = pw_abs None (fst (run_events fuel (init c maxatt buf) evs))
            /\ (b_bad (m_b g) = true -> dead (fst (run_events fuel (init c maxatt buf) evs)) = true).
Proof.
  intros A F. destruct (pwb_monitor_accepts fuel c maxatt buf evs A F) as (b & H & D).
  destruct (c3_of_pwb _ c30 _ c30_inv H) as (g & Hg & Hb & I).
  exists g. split; [exact Hg|]. split; [exact I|]. rewrite Hb. cbn [b_pw b_bad]. auto.
Qed.
Print Assumptions c3_monitor_accepts.

(* the commit rule in terms of offsets: if the messages delivered in this epoch arrived in increasing offset order
   (as they do from one start position: C02), every delivered message at or below the committed offset has been
   processed successfully *)
Lemma in_last (l : list Z) d : l <> [] -> In (List.last l d) l.
Proof.
  induction l as [|x l IH]; [contradiction|]. intros _. destruct l as [|y l]; [left; reflexivity|].
  right. apply IH. discriminate.
Qed.
Lemma is_prefix_split a b : is_prefix a b = true -> exists r, b = a ++ r.
Proof.
  revert b. induction a as [|x a IH]; intros b H; [exists b; reflexivity|].
  destruct b as [|y b]; [discriminate H|]. cbn in H. apply andb_prop in H. destruct H as [E H].
  apply Z.eqb_eq in E. subst y. destruct (IH b H) as (r & ->). exists r. reflexivity.
Qed.
Theorem commit_le_processed g off l :
  commit_ok g off = true -> m_ok g <> [] -> off = Some l -> increasing (m_D g) ->
  forall x, In x (m_D g) -> x <= l -> In x (m_ok g).
Proof.
  unfold commit_ok. intros C NE -> INC x X LE. apply andb_prop in C. destruct C as [P E].
  destruct (m_ok g) as [|y r] eqn:EO; [contradiction|]. rewrite <- EO in *.
  cbn [oz_eqb] in E. apply Z.eqb_eq in E. subst l.
  destruct (is_prefix_split _ _ P) as (R & HD). rewrite HD in INC, X.
  apply in_app_or in X. destruct X as [X|X]; [exact X|].
  destruct (increasing_app _ _ INC) as (_ & _ & LT).
  specialize (LT _ _ (in_last (m_ok g) 0 NE) X). lia.
Qed.

(* the coordinator's store, every offset ever sent in a commit request and the one outstanding are ends of
   successfully processed blocks *)
Theorem c3_store fuel c maxatt buf evs :
  0 <= c_acn c -> run_fuel_ok fuel c maxatt buf evs = true ->
  exists g, mon_run_s c3_ev c3_out c30 (run_steps fuel (init c maxatt buf) evs) = Some g
            /\ processed_end g (m_store g) /\ Forall (processed_end g) (m_sent g)
            /\ match m_co g with Some off => processed_end g off | None => True end.
Proof.
  intros A F. destruct (c3_monitor_accepts fuel c maxatt buf evs A F) as (g & H & [_ _ _ _ Hco Hs Hst] & _).
  exists g. auto.
Qed.
