(* The monitor REQ of Model/ConsumerLog.v (at most one offset/fetch request outstanding, at most one refetch timer,
   at most one commit request in flight, last_committed_offset = last value acknowledged / reported) never rejects a
   run of the consumer model: what it tracks is at every moment the function [req_abs] of the model state.
   Proved by symbolic execution (Proofs/ConsumerC02Wp.v) of every method of Model/Consumer.v. *)
From Coq Require Import Lia.
From AV Require Import Base.Util Model.Consumer Model.ConsumerLog Proofs.ConsumerC02Wp.

Notation wq := (wp req_out).
(* invariant needed besides the abstraction: request kinds are never confused with the commit request's; a fetch
   reply is parked behind a block in progress only while its (fired) request Deferred is still held; the outcomes
   held back until an API call returns are start / shutdown outcomes *)
Definition req_neutral (o : output) : bool := match o with OStartD _ _ | OShutD _ _ _ => true | _ => false end.
Definition kind_ok (s : state) : bool :=
  match s_req s with Some (k, _) => negb (k =? R_COMMIT) | None => true end
  && implb (parked s) (match s_req s with Some (_, true) => true | _ => false end)
  && forallb req_neutral (s_pend s).
Definition QI {A} : res A -> greq -> state -> Prop := fun _ g s => g = req_abs s /\ kind_ok s = true.

Definition kpre (k : kont) (s : state) : bool :=       (* a fetch reply is handled after its request Deferred fired *)
  match k with KFetchResp _ _ => match s_req s with Some (_, true) => true | _ => false end | _ => true end.

Ltac rw_eqs := repeat match goal with H : ?x = _ |- context [?x] => progress (rewrite H) end.
(* split on ONE state field that a match in the goal (else in a hypothesis) scrutinises *)
Ltac case1 :=
  match goal with
  | |- context [match s_req ?s with _ => _ end] => destruct (s_req s) as [[? []]|] eqn:?
  | |- context [match s_rcall ?s with _ => _ end] => destruct (s_rcall s) eqn:?
  | |- context [match s_creq ?s with _ => _ end] => destruct (s_creq s) as [[[? ?] ?]|] eqn:?
  | |- context [match s_mblock ?s with _ => _ end] => destruct (s_mblock s) as [[[? ?]|]|] eqn:?
  | H : context [match s_req ?s with _ => _ end] |- _ => destruct (s_req s) as [[? []]|] eqn:?
  | H : context [match s_mblock ?s with _ => _ end] |- _ => destruct (s_mblock s) as [[[? ?]|]|] eqn:?
  | H : context [match s_rcall ?s with _ => _ end] |- _ => destruct (s_rcall s) eqn:?
  | H : context [match s_creq ?s with _ => _ end] |- _ => destruct (s_creq s) as [[[? ?] ?]|] eqn:?
  end.
Ltac rw_hyps :=
  repeat match goal with
  | p : (_ * _)%type |- _ => destruct p
  end;
  repeat match goal with
  | H : ?x = _ |- _ =>
    lazymatch x with
    | s_req _ => idtac | s_rcall _ => idtac | s_creq _ => idtac | s_ccall _ => idtac | s_startd _ => idtac
    | s_mblock _ => idtac | s_proc _ => idtac | s_looper _ => idtac | s_cds _ => idtac
    end; progress (rewrite H in * )
  end.
Ltac bool_hyps :=
  repeat match goal with
  | H : _ && _ = true |- _ => apply andb_prop in H; destruct H
  | H : negb _ = true |- _ => apply negb_true_iff in H
  | H : negb _ = false |- _ => apply negb_false_iff in H
  | H : _ || _ = false |- _ => apply orb_false_elim in H; destruct H
  end.
Ltac bcomp := rewrite ?forallb_app in *;
  cbn [negb andb orb implb Z.eqb Pos.eqb R_COMMIT R_FETCH R_OFFREQ R_OFFFETCH q_rk q_tm q_co q_lc forallb req_neutral] in *.
Ltac qfin := psimpl; bcomp; bool_hyps; rw_eqs; bcomp; first [ reflexivity | assumption | congruence ].
Ltac unf :=
  repeat match goal with
  | H : kind_ok _ = _ |- _ => unfold kind_ok, parked in H
  | H : kpre _ _ = _ |- _ => unfold kpre, req_pending in H
  | H : req_pending _ = _ |- _ => unfold req_pending in H
  | H : parked _ = _ |- _ => unfold parked in H
  | H : QI _ _ _ |- _ => unfold QI in H
  end;
  unfold kpre; unfold QI, req_abs, rcall_active, req_pending, kind_ok, parked.
Ltac qsearch n :=
  first [ solve [qfin]
        | lazymatch n with O => fail | S ?m => case1; qsearch m end ].
Ltac qsolve :=
  unfold QI; repeat split; unf; psimpl; rw_hyps; rw_eqs; cbn beta iota in *;
  try reflexivity; try assumption; try (f_equal; try reflexivity);
  qsearch 5%nat.

Ltac kind_fact :=
  try match goal with
  | K : kind_ok ?s = true, D : s_req ?s = Some (?z, _) |- _ =>
    lazymatch goal with
    | _ : (z =? R_COMMIT) = false |- _ => fail
    | _ => let K' := fresh "K" in let K'' := fresh "K" in let K3 := fresh "K" in
           pose proof K as K'; unfold kind_ok in K'; rewrite D in K'; apply andb_prop in K'; destruct K' as [K' K3];
           apply andb_prop in K'; destruct K' as [K' K'']; apply negb_true_iff in K'; clear K'' K3
    end
  end.
Ltac q_emit :=
  lazymatch goal with
  | |- wp _ (emit _) _ _ _ =>
    apply wp_emit; eexists; split;
    [ kind_fact; unfold req_abs, rcall_active; psimpl; cbn [req_out req_send q_rk q_tm q_co q_lc]; rw_eqs; cbn beta iota;
      cbn [req_out req_send q_rk q_tm q_co q_lc]; try reflexivity
    | cbn beta iota ]
  end.

Lemma q_eq {A} (m : M A) Q g s : g = req_abs s -> wq m Q (req_abs s) s -> wq m Q g s.
Proof. intros ->. auto. Qed.

Ltac destr_post H :=
  lazymatch type of H with
  | _ /\ _ => let H1 := fresh "P" in let H2 := fresh "P" in destruct H as [H1 H2]; destr_post H1; destr_post H2
  | ?g = req_abs _ => subst g
  | _ => idtac
  end.
Ltac q_docall lem :=
  eapply q_eq; [ solve [qsolve] |
    eapply wp_call; [ eapply lem; try solve [qsolve]
                    | let r := fresh "r" in let H := fresh "P" in
                      intros r ? ? H; unfold QI in H; destr_post H; destruct r; cbn beta iota ] ].
(* an [if] inside the state term (shutdown's retry limit) is split first *)
Ltac q_stif :=
  lazymatch goal with
  | |- wp _ _ _ _ ?st => match st with context [if ?b then _ else _] => let D := fresh "D" in destruct b eqn:D end
  end.
Ltac q_walk call := repeat (first [ q_stif | q_emit | wp_step call ]).
Ltac q_done := try solve [qsolve].

(* ---------- methods without re-entrancy ---------- *)
Lemma q_startd_errback fk s : kind_ok s = true ->
  wq (startd_errback fk) (fun _ g' s' => (g' = req_abs s' /\ kind_ok s' = true) /\ s_req s' = s_req s /\ s_creq s' = s_creq s) (req_abs s) s.
Proof. intro K. unfold startd_errback. q_walk idtac. all: q_done. Qed.
Ltac c1 := idtac; lazymatch goal with
  | |- wp _ (startd_errback _) _ _ _ => q_docall q_startd_errback end.

Lemma q_do_fetch s : kind_ok s = true -> wq do_fetch QI (req_abs s) s.
Proof. intro K. unfold do_fetch. q_walk c1. all: q_done. Qed.
Ltac c2 := idtac; first [ c1 | lazymatch goal with
  | |- wp _ do_fetch _ _ _ => q_docall q_do_fetch end ].

Lemma q_retry_fetch z s : kind_ok s = true ->
  wq (retry_fetch z) (fun _ g' s' => (g' = req_abs s' /\ kind_ok s' = true) /\ s_req s' = s_req s /\ s_creq s' = s_creq s) (req_abs s) s.
Proof. intro K. unfold retry_fetch. q_walk c2. all: q_done. Qed.
Ltac c3 := idtac; first [ c2 | lazymatch goal with
  | |- wp _ (retry_fetch _) _ _ _ => q_docall q_retry_fetch end ].

Lemma q_handle_offset_error fk s : kind_ok s = true -> req_pending s = false -> parked s = false ->
  wq (handle_offset_error fk) (fun _ g' s' => (g' = req_abs s' /\ kind_ok s' = true) /\ req_pending s' = false) (req_abs s) s.
Proof. intros K NP NK. unfold handle_offset_error. q_walk c3. all: q_done. Qed.
Lemma q_handle_fetch_error fk s : kind_ok s = true -> req_pending s = false -> parked s = false ->
  wq (handle_fetch_error fk) (fun _ g' s' => (g' = req_abs s' /\ kind_ok s' = true) /\ req_pending s' = false) (req_abs s) s.
Proof. intros K NP NK. unfold handle_fetch_error. q_walk c3. all: q_done. Qed.
Lemma q_handle_auto_commit_error fk s : kind_ok s = true -> wq (handle_auto_commit_error fk) QI (req_abs s) s.
Proof. intro K. unfold handle_auto_commit_error. q_walk c3. all: q_done. Qed.
Lemma q_handle_processor_error fk s : kind_ok s = true -> wq (handle_processor_error fk) QI (req_abs s) s.
Proof. intro K. unfold handle_processor_error. q_walk c3. all: q_done. Qed.
Lemma q_send_commit_request i a s : kind_ok s = true -> wq (send_commit_request i a) QI (req_abs s) s.
Proof. intro K. unfold send_commit_request. q_walk c3. all: q_done. Qed.
Ltac c4 := idtac; first [ c3 | lazymatch goal with
  | |- wp _ (handle_offset_error _) _ _ _ => q_docall q_handle_offset_error
  | |- wp _ (handle_fetch_error _) _ _ _ => q_docall q_handle_fetch_error
  | |- wp _ (handle_auto_commit_error _) _ _ _ => q_docall q_handle_auto_commit_error
  | |- wp _ (handle_processor_error _) _ _ _ => q_docall q_handle_processor_error
  | |- wp _ (send_commit_request _ _) _ _ _ => q_docall q_send_commit_request end ].

Lemma q_commit w s : kind_ok s = true -> wq (commit w) QI (req_abs s) s.
Proof. intro K. unfold commit. q_walk c4. all: q_done. Qed.
Ltac c5 := idtac; first [ c4 | lazymatch goal with
  | |- wp _ (commit _) _ _ _ => q_docall q_commit end ].
Lemma q_auto_commit bc s : kind_ok s = true -> wq (auto_commit bc) QI (req_abs s) s.
Proof. intro K. unfold auto_commit. q_walk c5. all: q_done. Qed.
Ltac c6 := idtac; first [ c5 | lazymatch goal with
  | |- wp _ (auto_commit _) _ _ _ => q_docall q_auto_commit end ].
Lemma q_proc_chain l fk s : kind_ok s = true -> wq (proc_chain l fk) QI (req_abs s) s.
Proof. intro K. unfold proc_chain. q_walk c6. all: q_done. Qed.
Lemma q_pop_plan s : kind_ok s = true -> wq pop_plan QI (req_abs s) s.
Proof. intro K. unfold pop_plan. q_walk c6. all: q_done. Qed.
Lemma q_emit_shutd ok v lc s : kind_ok s = true -> wq (emit_shutd (OShutD ok v lc)) QI (req_abs s) s.
Proof. intro K. unfold emit_shutd. q_walk c6. all: q_done. Qed.
Ltac c7 := idtac; first [ c6 | lazymatch goal with
  | |- wp _ (proc_chain _ _) _ _ _ => q_docall q_proc_chain
  | |- wp _ pop_plan _ _ _ => q_docall q_pop_plan
  | |- wp _ (emit_shutd (OShutD _ _ _)) _ _ _ => q_docall q_emit_shutd
  | |- wp _ (emit_shutd (match ?x with _ => _ end)) _ _ _ => destruct x end ].
Lemma q_interrupted s : kind_ok s = true -> wq interrupted QI (req_abs s) s.
Proof. intro K. unfold interrupted. q_walk c7. all: q_done. Qed.
Ltac c8 := idtac; first [ c7 | lazymatch goal with
  | |- wp _ interrupted _ _ _ => q_docall q_interrupted end ].

(* outcomes held back until an API call returns do not move the monitor *)
Lemma neutral_gouts g l : forallb req_neutral l = true -> gouts req_out g l = Some g.
Proof.
  induction l as [|x l IH]; cbn [forallb gouts]; [reflexivity|]. intro H. apply andb_prop in H. destruct H as [H1 H2].
  destruct x; try discriminate H1; cbn [req_out]; auto.
Qed.
Ltac q_flush :=
  lazymatch goal with
  | |- wp _ (fun s' : state => (Ok tt, s', ?l)) _ ?g _ =>
    apply wp_emits; exists g; split; [ apply neutral_gouts; solve [qsolve] | cbn beta iota ]
  end.

(* ---------- the re-entrant methods ---------- *)
Section Rec.
Variable rec : kont -> M unit.
Hypothesis Hrec : forall k s, kind_ok s = true -> kpre k s = true -> wq (rec k) QI (req_abs s) s.

Ltac c9 := idtac; first [ c8 | lazymatch goal with
  | |- wp _ (rec _) _ _ _ => q_docall Hrec end ].

Lemma q_api_stop s : kind_ok s = true -> wq (api_stop rec) QI (req_abs s) s.
Proof. intro K. unfold api_stop. q_walk c9. all: q_done. Qed.
Lemma q_api_commit s : kind_ok s = true -> wq api_commit QI (req_abs s) s.
Proof. intro K. unfold api_commit. q_walk c9. all: q_done. Qed.
Lemma q_api_shutdown s : kind_ok s = true -> wq (api_shutdown rec) QI (req_abs s) s.
Proof. intro K. unfold api_shutdown. repeat (first [ q_flush | q_stif | q_emit | wp_step c9 ]). all: q_done. Qed.
Lemma q_handle_commit_error fk i a s : kind_ok s = true -> wq (handle_commit_error rec fk i a) QI (req_abs s) s.
Proof. intro K. unfold handle_commit_error. q_walk c9. all: q_done. Qed.
Lemma q_fire_all ds r s : kind_ok s = true -> wq (fire_all rec ds r) QI (req_abs s) s.
Proof.
  revert s. induction ds as [|d ds IH]; intros s K; cbn [fire_all].
  - q_walk c9. all: q_done.
  - q_walk c9. all: try (apply IH; solve [qsolve]). all: q_done.
Qed.
Lemma q_finish_block s : kind_ok s = true -> wq (finish_block rec) QI (req_abs s) s.
Proof. intro K. unfold finish_block. q_walk c9. all: q_done. Qed.
Lemma q_stop_proc s : kind_ok s = true -> wq (stop_proc rec) QI (req_abs s) s.
Proof. intro K. unfold stop_proc. q_walk c9. all: q_done. Qed.
Lemma q_stop_rcall s : kind_ok s = true -> wq stop_rcall QI (req_abs s) s.
Proof. intro K. unfold stop_rcall. q_walk c9. all: q_done. Qed.
Ltac c10 := idtac; first [ c9 | lazymatch goal with
  | |- wp _ (api_stop _) _ _ _ => q_docall q_api_stop
  | |- wp _ api_commit _ _ _ => q_docall q_api_commit
  | |- wp _ (api_shutdown _) _ _ _ => q_docall q_api_shutdown
  | |- wp _ (handle_commit_error _ _ _ _) _ _ _ => q_docall q_handle_commit_error
  | |- wp _ (fire_all _ _ _) _ _ _ => q_docall q_fire_all
  | |- wp _ (finish_block _) _ _ _ => q_docall q_finish_block
  | |- wp _ (stop_proc _) _ _ _ => q_docall q_stop_proc
  | |- wp _ stop_rcall _ _ _ => q_docall q_stop_rcall end ].
Lemma q_stop_creq s : kind_ok s = true -> wq (stop_creq rec) QI (req_abs s) s.
Proof. intro K. unfold stop_creq. q_walk c10. all: q_done. Qed.
Lemma q_stop_ccall s : kind_ok s = true -> wq stop_ccall QI (req_abs s) s.
Proof. intro K. unfold stop_ccall. q_walk c10. all: q_done. Qed.
Lemma q_stop_looper s : kind_ok s = true -> wq stop_looper QI (req_abs s) s.
Proof. intro K. unfold stop_looper. q_walk c10. all: q_done. Qed.
Lemma q_stop_susp s : kind_ok s = true -> wq stop_susp QI (req_abs s) s.
Proof. intro K. unfold stop_susp. q_walk c10. all: q_done. Qed.
Lemma q_stop_startd s : kind_ok s = true -> wq stop_startd QI (req_abs s) s.
Proof. intro K. unfold stop_startd. q_walk c10. all: q_done. Qed.
Ltac c11 := idtac; first [ c10 | lazymatch goal with
  | |- wp _ (stop_creq _) _ _ _ => q_docall q_stop_creq
  | |- wp _ stop_ccall _ _ _ => q_docall q_stop_ccall
  | |- wp _ stop_looper _ _ _ => q_docall q_stop_looper
  | |- wp _ stop_susp _ _ _ => q_docall q_stop_susp
  | |- wp _ stop_startd _ _ _ => q_docall q_stop_startd end ].

Lemma q_body k s : kind_ok s = true -> kpre k s = true -> wq (body rec k) QI (req_abs s) s.
Proof.
  intros K KP. destruct k; cbn [body].
  - (* KStop: its first two blocks (request, parked reply) are walked through together *)
    unfold stop_req, stop_mblock. q_walk c11. all: q_done.
  - (* KStopCds *) q_walk c11. all: q_done.
  - (* KFireProc *) q_walk c11. all: q_done.
  - (* KProcLoop *) q_walk c11. all: q_done.
  - (* KFetchResp *) q_walk c11. all: q_done.
  - (* KCommitAndStop *) q_walk c11. all: q_done.
  - (* KShutFinish *) q_walk c11. all: q_done.
  - (* KFireCd *) q_walk c11. all: q_done.
  - (* KDeliver *) q_walk c11. all: q_done.
Qed.
End Rec.

Definition QPre : kont -> greq -> state -> Prop := fun k g s => g = req_abs s /\ kind_ok s = true /\ kpre k s = true.
Lemma q_run fuel : forall k s, kind_ok s = true -> kpre k s = true -> wq (run fuel k) QI (req_abs s) s.
Proof.
  assert (Hk : kspec greq req_out QPre (fun _ _ _ => QI) (run fuel)).
  { apply run_kspec. intros rec Hrec k g s (-> & K & KP). apply q_body; auto.
    intros k' s' K' KP'. apply Hrec. repeat split; auto. }
  intros k s K KP. apply Hk. repeat split; auto.
Qed.
