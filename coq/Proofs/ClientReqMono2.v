(* Second generic pass (see Proofs/ClientReqMono.v): for preorders that also look at self.close_dlist and at the pending
   close Deferred; covers every step except close(). *)
From AV Require Import Base.Util Proofs.UtilFacts Model.Framing Proofs.FramingFacts
  Proofs.BrokerClientTbl Proofs.BrokerClientInv Proofs.BrokerClientC06 Proofs.BrokerClientC10.
From AV Require Model.BrokerClient.
From AV Require Import Model.ClientReq Proofs.ClientReqBase Proofs.ClientReqStep Proofs.ClientReqC11 Proofs.ClientReqMono.
From Coq Require Import Lia.


Section Generic2.
Variable R : cstate -> cstate -> Prop.
Hypothesis R_refl : forall C, R C C.
Hypothesis R_trans : forall A B C, R A B -> R B C -> R A C.
Hypothesis R_frame3 : forall C C', same_core C C' -> c_cfg C' = c_cfg C -> c_clients C' = c_clients C ->
  c_dl C' = c_dl C -> c_wait C' = c_wait C -> R C C'.
Hypothesis R_dl_refresh : forall C, R C (fst (dl_refresh C)).
Hypothesis R_with_dl : forall C x, R C (with_dl C x).
Hypothesis R_apply : forall C i e, R C (fst (apply_bc C i e)).
Hypothesis R_reqs_app : forall C i q, q_to q = false -> R C (upd_bc C i (fun b => set_reqs (b_reqs b ++ [q]) b)).
Hypothesis R_creq : forall C i h f,
  (forall q, q_owner (f q) = q_owner q /\ q_timer (f q) = None /\ (q_to q = true -> q_to (f q) = true)) -> R C (upd_creq C i h f).
Hypothesis R_clients : forall C cl cl', c_clients C = Some cl -> R C (with_clients C (Some cl')).
Hypothesis R_newbc : forall C cl node a, c_clients C = Some cl -> assoc node cl = None ->
  R C (with_clients (with_bcs C (c_bcs C ++ [mkBc node (BrokerClient.with_addr BrokerClient.init a) [] None]))
                    (Some (cl ++ [(node, length (c_bcs C))]))).


Lemma R_phase C p ph : R C (set_phase C p ph).
Proof. apply R_frame3; [score | reflexivity | reflexivity | reflexivity | reflexivity]. Qed.
Lemma R_boot_new C x : R C (with_boots C (c_boots C ++ [x])).
Proof. apply R_frame3; [score | reflexivity | reflexivity | reflexivity | reflexivity]. Qed.

Lemma g2_tr_out C i o : R C (fst (tr_out C i o)).
Proof.
  destruct o; cbn [tr_out fst]; try apply R_refl.
  - unfold new_timer. cbn [fst snd]. apply R_frame3; try reflexivity.
    eapply same_core_trans; [|apply upd_bc_core; intros; reflexivity]. split; [reflexivity | eexists; reflexivity].
  - destruct (nth_error (c_bcs C) i) as [b|]; [|apply R_refl]. destruct (b_timer b); [|apply R_refl]. cbn [fst].
    apply R_frame3; try reflexivity. apply upd_bc_core. intros; reflexivity.
  - apply R_dl_refresh.
Qed.

Lemma g2_tr_list : forall os C i, R C (fst (tr_list C i os)).
Proof.
  induction os as [|o os IH]; intros C i; cbn [tr_list]; [apply R_refl|].
  pose proof (g2_tr_out C i o) as H1. destruct (tr_out C i o) as [C1 o1]. cbn [fst] in H1.
  pose proof (IH C1 i) as H2. destruct (tr_list C1 i os). cbn [fst] in *. eapply R_trans; eauto.
Qed.

Lemma g2_make_req C i rid expect mint ow : R C (fst (fst (make_req C i rid expect mint ow))).
Proof.
  unfold make_req. destruct (nth_error (c_bcs C) i) as [b|]; [|apply R_refl].
  pose proof (R_apply C i (BrokerClient.EMake rid expect)) as H1.
  destruct (apply_bc C i (BrokerClient.EMake rid expect)) as [C1 mo]. cbn [fst] in H1.
  destruct (raised_dup mo); [exact H1|].
  pose proof (g2_tr_list (filter (fun o => negb (is_def o)) mo) C1 i) as H2.
  destruct (tr_list C1 i (filter (fun o => negb (is_def o)) mo)) as [C2 o2]. cbn [fst] in H2.
  unfold new_timer.
  assert (R C2 (with_timers C2 (c_timers C2 ++ [TReq i (length (BrokerClient.t_dlog (BrokerClient.s_t (b_st b))))]))) as H3.
  { apply R_frame3; try reflexivity. split; [reflexivity | eexists; reflexivity]. }
  destruct (first_def mo); cbn [fst]; (eapply R_trans; [exact H1|]; eapply R_trans; [exact H2|]; eapply R_trans; [exact H3|]; apply R_reqs_app; reflexivity).
Qed.

Lemma g2_get_client C cl n C1 i : c_clients C = Some cl -> get_client C cl n = Some (C1, i) -> R C C1.
Proof.
  intros Hc H. unfold get_client in H. destruct (assoc n cl) eqn:A; [injection H as <- _; apply R_refl|].
  destruct (assoc n (c_brokers C)); [|discriminate]. injection H as <- _. apply R_newbc; assumption.
Qed.

Lemma g2_op_fail C p r : R C (fst (op_fail C p r)).
Proof. unfold op_fail. destruct (nth_error (c_ops C) p); [apply R_phase | apply R_refl]. Qed.

Lemma g2_boot_next C p hosts : R C (fst (boot_next C p hosts)).
Proof.
  unfold boot_next. destruct (closing C); [apply g2_op_fail|]. destruct hosts; [apply g2_op_fail|]. cbn [fst].
  eapply R_trans; [apply R_boot_new | apply R_phase].
Qed.

Lemma g2_op_known : forall nodes C p rid, R C (fst (op_known C p rid nodes)).
Proof.
  induction nodes as [|n rest IH]; intros C p rid; cbn [op_known]; [apply g2_boot_next|].
  destruct (c_clients C) as [cl|] eqn:Ec; [|apply g2_op_fail].
  destruct (get_client C cl n) as [[C1 i]|] eqn:G; [|apply g2_op_fail].
  pose proof (g2_get_client _ _ _ _ _ Ec G) as H1.
  pose proof (g2_make_req C1 i rid true (-1) (OfOp p)) as H2.
  destruct (make_req C1 i rid true (-1) (OfOp p)) as [[C2 r] o2]. cbn [fst] in H2.
  assert (R C C2) as H12 by (eapply R_trans; eauto).
  destruct r as [|h|h r]; cbn [fst].
  - pose proof (IH C2 p rid) as X. destruct (op_known C2 p rid rest). cbn [fst] in *. eapply R_trans; eauto.
  - eapply R_trans; [exact H12 | apply R_phase].
  - destruct r; try solve [pose proof (IH C2 p rid) as X; destruct (op_known C2 p rid rest); cbn [fst] in *; eapply R_trans; eauto].
    pose proof (g2_op_fail C2 p RCancelled) as X'. destruct (op_fail C2 p RCancelled). cbn [fst] in *. eapply R_trans; eauto.
Qed.

Section GLevel2.
Variable succ : cstate -> nat -> list Z -> cstate * list output.
Hypothesis R_succ : forall C p f, R C (fst (succ C p f)).

Lemma g2_on_def C i h oc : R C (fst (on_def succ C i h oc)).
Proof.
  unfold on_def. destruct (nth_error (c_bcs C) i) as [b|]; [|apply R_refl].
  destruct (nth_error (b_reqs b) h) as [q|]; [|apply R_refl].
  set (X := match q_timer q with
            | Some t => (upd_creq C i h (fun q0 => mkCreq (q_owner q0) None (q_to q0)), [OCancelTimer t])
            | None => (C, []) end).
  assert (R C (fst X)) as H1 by (unfold X; destruct (q_timer q); cbn [fst]; [apply R_creq; intro; repeat split; auto | apply R_refl]).
  destruct X as [C1 o1]. cbn [fst] in H1.
  destruct (q_owner q) as [d|p]; [exact H1|].
  destruct (nth_error (c_ops C1) p) as [[k al rid ph]|]; [|exact H1].
  destruct ph as [rest i' h'| | | |]; try exact H1.
  destruct (Nat.eqb i i' && Nat.eqb h h'); [|exact H1].
  destruct (if q_to q then RTimedOut else res_of oc);
    try solve [pose proof (g2_op_known rest C1 p rid) as Y; destruct (op_known C1 p rid rest); cbn [fst] in *; eapply R_trans; eauto].
  - pose proof (R_succ C1 p frame) as Y. destruct (succ C1 p frame). cbn [fst] in *. eapply R_trans; eauto.
  - pose proof (g2_op_fail C1 p RCancelled) as Y. destruct (op_fail C1 p RCancelled). cbn [fst] in *. eapply R_trans; eauto.
Qed.

Lemma g2_proc : forall os C i, R C (fst (proc succ C i os)).
Proof.
  induction os as [|o os IH]; intros C i; cbn [proc]; [apply R_refl|].
  assert (R C (fst (match o with BrokerClient.ODef h oc => on_def succ C i h oc | _ => tr_out C i o end))) as H1.
  { destruct o; try apply g2_tr_out. apply g2_on_def. }
  destruct (match o with BrokerClient.ODef h oc => on_def succ C i h oc | _ => tr_out C i o end) as [C1 o1]. cbn [fst] in H1.
  pose proof (IH C1 i) as H2. destruct (proc succ C1 i os). cbn [fst] in *. eapply R_trans; eauto.
Qed.

Lemma g2_bc_event C i e : R C (fst (bc_event succ C i e)).
Proof.
  unfold bc_event. pose proof (R_apply C i e) as H1. destruct (apply_bc C i e) as [C1 mo]. cbn [fst] in H1.
  pose proof (g2_proc mo C1 i) as H2. destruct (proc succ C1 i mo). cbn [fst] in *. eapply R_trans; eauto.
Qed.
End GLevel2.

(* level 0, and what is built on it *)
Lemma g2_close_each : forall l C, R C (fst (close_each C l)).
Proof.
  induction l as [|i l IH]; intros C; cbn [close_each]; [apply R_refl|].
  pose proof (g2_bc_event succ0 (fun C p f => R_refl C) C i BrokerClient.EClose) as H1.
  destruct (bc_event succ0 C i BrokerClient.EClose) as [C1 o1]. cbn [fst] in H1.
  pose proof (IH C1) as H2. destruct (close_each C1 l). cbn [fst] in *. eapply R_trans; eauto.
Qed.

Lemma g2_dl C x : R C (with_dl C x).
Proof. apply R_with_dl. Qed.

Lemma g2_dl_refresh C : R C (fst (dl_refresh C)).
Proof. apply R_dl_refresh. Qed.

Lemma g2_close_brokerclients C l : R C (fst (close_brokerclients C l)).
Proof.
  unfold close_brokerclients. pose proof (g2_close_each l C) as H1. destruct (close_each C l) as [C1 o1]. cbn [fst] in H1.
  set (C1' := with_dl C1 _). pose proof (g2_dl_refresh C1') as H2. destruct (dl_refresh C1') as [C2 o2]. cbn [fst] in *.
  eapply R_trans; [exact H1|]. eapply R_trans; [apply (g2_dl C1)|exact H2].
Qed.

Lemma g2_update_each : forall bs C cl, R C (update_each C cl bs).
Proof.
  induction bs as [|[n a] bs IH]; intros C cl; cbn [update_each]; [apply R_refl|].
  destruct (assoc n cl) as [i|]; [|apply IH]. eapply R_trans; [apply (R_apply C i (BrokerClient.EUpdate true a)) | apply IH].
Qed.

Lemma update_each_clients : forall bs C cl, c_clients (update_each C cl bs) = c_clients C.
Proof.
  induction bs as [|[n a] bs IH]; intros C cl; cbn [update_each]; [reflexivity|].
  destruct (assoc n cl) as [i|]; [|apply IH]. rewrite IH.
  pose proof (apply_bc_rest C i (BrokerClient.EUpdate true a)) as (_ & X & _). exact X.
Qed.

Lemma g2_update_brokers C brokers remove : R C (fst (update_brokers C brokers remove)).
Proof.
  unfold update_brokers. set (C1 := with_brokers C _).
  assert (R C C1) as H1 by (apply R_frame3; [unfold C1; score | reflexivity | reflexivity | reflexivity | reflexivity]).
  destruct (c_clients C1) as [cl|] eqn:Ec.
  - pose proof (g2_update_each (dict_update [] brokers) C1 cl) as H2.
    assert (c_clients (update_each C1 cl (dict_update [] brokers)) = Some cl) as Ec2 by (rewrite update_each_clients; exact Ec).
    destruct remove; [|cbn [fst]; eapply R_trans; eauto].
    destruct (flat_map _ _) as [|i0 idx]; [cbn [fst]; eapply R_trans; eauto|].
    eapply R_trans; [exact H1|]. eapply R_trans; [exact H2|].
    eapply R_trans; [|apply g2_close_brokerclients]. apply (R_clients _ cl). exact Ec2.
  - destruct (dict_update [] brokers); [destruct remove|]; exact H1.
Qed.

Lemma g2_merge C payload all : R C (fst (merge C payload all)).
Proof.
  unfold merge. destruct (parse_meta payload) as [[brokers topics]|]; [|apply R_refl].
  set (rm := all && _). pose proof (g2_update_brokers C brokers rm) as H1.
  destruct (update_brokers C brokers rm) as [C1 o1]. cbn [fst] in *.
  eapply R_trans; [exact H1|]. apply R_frame3; [score | reflexivity | reflexivity | reflexivity | reflexivity].
Qed.

Lemma g2_succ1 C p f : R C (fst (succ1 C p f)).
Proof.
  unfold succ1. destruct (nth_error (c_ops C) p) as [o|]; [|apply R_refl].
  destruct (o_kind o =? 1).
  - destruct (closing (set_phase C p PDone)); [apply R_phase|].
    pose proof (g2_merge (set_phase C p PDone) (drop 4 f) (o_all o)) as X. destruct (merge (set_phase C p PDone) (drop 4 f) (o_all o)).
    cbn [fst] in *. eapply R_trans; [apply R_phase | exact X].
  - destruct (is_ltp (o_kind o)); [|apply R_phase]. destruct (closing (set_phase C p PDone)); [apply R_phase|].
    pose proof (g2_merge (set_phase C p PDone) (drop 4 f) false) as X. destruct (merge (set_phase C p PDone) (drop 4 f) false) as [C2 o2].
    cbn [fst] in X. assert (R C C2) as X2 by (eapply R_trans; [apply R_phase | exact X]).
    destruct (missing (drop 4 f)); [|exact X2]. unfold new_timer. cbn [fst].
    eapply R_trans; [exact X2|]. apply R_frame3; [split; [reflexivity | eexists; reflexivity] | reflexivity | reflexivity | reflexivity | reflexivity].
Qed.

Lemma g2_ev_bc C i e : R C (fst (ev_bc C i e)).
Proof. apply (g2_bc_event succ1 g2_succ1). Qed.

Lemma g2_set_boot C a st : R C (set_boot C a st).
Proof. apply R_frame3; [score | reflexivity | reflexivity | reflexivity | reflexivity]. Qed.

Lemma g2_cancel_boots : forall n C p, R C (fst (cancel_boots C n p)).
Proof.
  induction n as [|n IH]; intros C p; cbn [cancel_boots]; [apply R_refl|].
  set (X := match nth_error (c_ops C) p with
            | Some (mkOp _ _ _ (PBootConn a rest)) => let (C', o') := boot_next (set_boot C a KDead) p rest in (C', OBootCancel a :: o')
            | Some (mkOp _ _ _ (PBootReq a t rest)) => let (C', o') := boot_next C p rest in (C', OCancelTimer t :: OBootLose a :: o')
            | Some (mkOp _ _ _ (PWait t)) => let (C', o') := op_fail C p RCancelled in (C', OCancelTimer t :: o')
            | _ => (C, []) end).
  assert (R C (fst X)) as H1.
  { unfold X. destruct (nth_error (c_ops C) p) as [[k al rid ph]|]; [|apply R_refl]. destruct ph; try apply R_refl.
    - pose proof (g2_boot_next (set_boot C a KDead) p rest) as Y. destruct (boot_next (set_boot C a KDead) p rest). cbn [fst] in *.
      eapply R_trans; [apply g2_set_boot | exact Y].
    - pose proof (g2_boot_next C p rest) as Y. destruct (boot_next C p rest). cbn [fst] in *. exact Y.
    - pose proof (g2_op_fail C p RCancelled) as Y. destruct (op_fail C p RCancelled). cbn [fst] in *. exact Y. }
  destruct X as [C1 o1]. cbn [fst] in H1. pose proof (IH C1 (S p)) as Y. destruct (cancel_boots C1 n (S p)). cbn [fst] in *.
  eapply R_trans; eauto.
Qed.

Theorem g2_step C e : e <> EClose -> R C (fst (step C e)).
Proof.
  intro NE. destruct e; cbn [step]; try congruence.
  - destruct (c_clients C) as [cl|] eqn:Ec; [|apply R_refl].
    destruct (get_client C cl node) as [[C1 i]|] eqn:G; [|apply R_refl].
    pose proof (g2_get_client _ _ _ _ _ Ec G) as H1. unfold next_id.
    set (C2 := with_corr C1 _). assert (R C1 C2) as H2 by (apply R_frame3; [unfold C2; score | reflexivity | reflexivity | reflexivity | reflexivity]).
    pose proof (g2_make_req C2 i ((c_corr C1 + 1) mod 2147483648) expect mint (Direct (length (c_direct C2)))) as H3.
    destruct (make_req C2 i _ expect mint _) as [[C3 r] o3]. cbn [fst] in H3.
    assert (R C C3) as H by (eapply R_trans; [exact H1|]; eapply R_trans; eauto).
    destruct r; cbn [fst]; [exact H | |]; (eapply R_trans; [exact H|]; apply R_frame3; [score | reflexivity | reflexivity | reflexivity | reflexivity]).
  - destruct (nth_error (c_direct C) d) as [[i h]|]; [apply g2_ev_bc | apply R_refl].
  - unfold next_id. cbn [fst snd]. set (C1 := with_corr C _). set (C2 := with_ops C1 _).
    assert (R C C2) as H by (apply R_frame3; [unfold C2, C1; score | reflexivity | reflexivity | reflexivity | reflexivity]).
    destruct (c_clients C2).
    + pose proof (g2_op_known (filter (fun n => match assoc n l with Some i => bc_connected C2 i | None => false end) (shuf (g_mode (c_cfg C2)) (map fst (c_brokers C2)))
                             ++ filter (fun n => negb (match assoc n l with Some i => bc_connected C2 i | None => false end)) (shuf (g_mode (c_cfg C2)) (map fst (c_brokers C2))))
                            C2 (length (c_ops C1)) ((c_corr C + 1) mod 2147483648)) as X.
      eapply R_trans; [exact H | exact X].
    + eapply R_trans; [exact H | apply g2_op_fail].
  - apply g2_update_brokers.
  - apply R_frame3; [score | reflexivity | reflexivity | reflexivity | reflexivity].
  - apply g2_ev_bc.
  - apply g2_ev_bc.
  - apply g2_ev_bc.
  - apply g2_ev_bc.
  - destruct (nth_error (c_timers C) t) as [[i h|i|p a|p]|]; [| | | |apply R_refl].
    + unfold creq_at. destruct (nth_error (c_bcs C) i) as [b|]; [|apply R_refl].
      destruct (nth_error (b_reqs b) h) as [[ow [t'|] to]|]; try apply R_refl.
      destruct (Nat.eqb t t'); [|apply R_refl].
      set (C1 := upd_creq C i h _). assert (R C C1) as H1 by (apply R_creq; intro; repeat split; auto).
      pose proof (g2_ev_bc C1 i (BrokerClient.ECancel h)) as H2. destruct (ev_bc C1 i (BrokerClient.ECancel h)) as [C2 o2]. cbn [fst] in H2.
      destruct (g_dot (c_cfg C2)); cbn [fst]; [|eapply R_trans; eauto].
      pose proof (g2_ev_bc C2 i BrokerClient.EDisconnect) as H3. destruct (ev_bc C2 i BrokerClient.EDisconnect). cbn [fst] in *.
      eapply R_trans; [exact H1|]. eapply R_trans; eauto.
    + destruct (nth_error (c_bcs C) i) as [b|]; [|apply R_refl].
      destruct (match b_timer b with Some t' => Nat.eqb t t' | None => false end); [|apply R_refl].
      eapply R_trans; [|apply g2_ev_bc]. apply R_frame3; [apply upd_bc_core; intros; reflexivity | reflexivity | reflexivity | reflexivity | reflexivity].
    + destruct (phase_of C p); try apply R_refl. destruct (Nat.eqb a a0 && Nat.eqb t t0); [|apply R_refl].
      pose proof (g2_boot_next C p rest) as Y. destruct (boot_next C p rest). exact Y.
    + destruct (phase_of C p); try apply R_refl. destruct (Nat.eqb t t0); [|apply R_refl]. unfold next_id. cbn [fst snd].
      set (C1 := with_corr C _). set (C2 := restart_op C1 p _).
      assert (R C C2) as H by (apply R_frame3; [unfold C2, C1; score | reflexivity | reflexivity | reflexivity | reflexivity]).
      destruct (c_clients C2).
      * eapply R_trans; [exact H | apply g2_op_known].
      * eapply R_trans; [exact H | apply g2_op_fail].
  - destruct (nth_error (c_boots C) a) as [[[p rid] [| |]]|]; try apply R_refl.
    destruct (phase_of C p); try apply R_refl. destruct (Nat.eqb a a0); [|apply R_refl].
    unfold new_timer. cbn [fst]. apply R_frame3; [split; [reflexivity | eexists; reflexivity] | reflexivity | reflexivity | reflexivity | reflexivity].
  - destruct (nth_error (c_boots C) a) as [[[p rid] [| |]]|]; try apply R_refl.
    destruct (phase_of C p); try apply R_refl. destruct (Nat.eqb a a0); [|apply R_refl].
    pose proof (g2_boot_next (set_boot C a KDead) p rest) as Y. destruct (boot_next (set_boot C a KDead) p rest). cbn [fst] in *.
    eapply R_trans; [apply g2_set_boot | exact Y].
  - destruct (nth_error (c_boots C) a) as [[[p rid'] [|pend|]]|]; try apply R_refl.
    destruct (pend && zlist_eqb (id4 rid) (id4 rid')); [|apply R_refl].
    destruct (phase_of (set_boot C a (KLive false)) p); try apply g2_set_boot. destruct (Nat.eqb a a0); [|apply g2_set_boot].
    pose proof (g2_succ1 (set_boot C a (KLive false)) p (id4 rid ++ payload)) as Y. destruct (succ1 _ p _). cbn [fst] in *.
    eapply R_trans; [apply g2_set_boot | exact Y].
  - destruct (nth_error (c_boots C) a) as [[[p rid'] [|pend|]]|]; try apply R_refl.
    destruct pend; [|apply g2_set_boot].
    destruct (phase_of (set_boot C a KDead) p); try apply g2_set_boot. destruct (Nat.eqb a a0); [|apply g2_set_boot].
    pose proof (g2_boot_next (set_boot C a KDead) p rest) as Y. destruct (boot_next (set_boot C a KDead) p rest). cbn [fst] in *.
    eapply R_trans; [apply g2_set_boot | exact Y].
  - (* EResend *)
    destruct (c_clients C) as [cl|] eqn:Ec; [|apply R_refl].
    destruct (nth_error (c_direct C) d) as [[i h0]|]; [|apply R_refl].
    match goal with |- R C (fst (match make_req C i ?rid expect mint ?ow with _ => _ end)) =>
      pose proof (g2_make_req C i rid expect mint ow) as H3; destruct (make_req C i rid expect mint ow) as [[C3 r] o3] end.
    cbn [fst] in H3.
    destruct r; cbn [fst]; [exact H3 | |]; (eapply R_trans; [exact H3|]; apply R_frame3; [score | reflexivity | reflexivity | reflexivity | reflexivity]).
Qed.

End Generic2.
