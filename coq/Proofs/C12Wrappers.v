(* C12, parts 1 and 2 for message sets that contain compressed wrappers (and anything else that decodes).

   Proofs/Truncation.v states truncation and corruption for sets of PLAIN messages.  Here the per-entry hypothesis is
   only "this entry's bytes decode, cleanly, to these (offset, message) pairs" - a plain message, a gzip/snappy wrapper
   around a whole inner set (through the decompression oracle), a wrapper around wrappers, an entry that yields
   nothing - and the statements are about the outer loop:
     * every cut point: exactly the yields of the entries wholly before the cut, then a silent stop - or
       ConsumerFetchSizeTooSmall when nothing at all was yielded before a cut that falls inside an entry.  A cut INSIDE a
       wrapper (its compressed payload included) is a cut inside an entry: nothing of that wrapper is delivered;
     * a damaged entry (stored CRC does not match - by C12_flip_detected any burst in the checksummed bytes of a wrapper,
       i.e. in its compressed payload, produces one) after entries that decode: their yields, then ChecksumError.
   [wrapper_decodes] shows that a gzip wrapper written around an encoded set of plain messages IS such an entry, for
   every oracle that inverts the compression of that payload. *)
From Coq Require Import Lia.
From AV Require Import Base.Util Model.Prim Model.Crc Model.MsgSet
     Proofs.PrimFacts Proofs.CrcBurst Proofs.DecodeTotal Proofs.Truncation.

(* ------------------------------------------------------------------ entries that decode *)
Record gentry := mkE { e_off : Z; e_bytes : list Z; e_ys : list omsg }.

Definition esize (e : gentry) : nat := (12 + length (e_bytes e))%nat.

(* bs = the concatenation of (offset, size, bytes) of the entries, each of which decodes cleanly to its e_ys *)
Inductive set_of (rec : list Z -> dres) (orc : oracle) : list gentry -> list Z -> Prop :=
| so_nil : set_of rec orc [] []
| so_cons e h r t :
    pack_list [(Fq, e_off e); (Fi, len (e_bytes e))] = Ok h ->
    dec_message rec orc (Some (e_bytes e)) (e_off e) = (e_ys e, None) ->
    set_of rec orc r t -> set_of rec orc (e :: r) (h ++ e_bytes e ++ t).

(* what iterating over the first [cut] bytes gives: the yields of the entries wholly inside, and how it ends *)
Fixpoint gcut (read : bool) (cut : nat) (es : list gentry) : dres :=
  match es with
  | [] => ([], None)
  | e :: r =>
      if Nat.leb (esize e) cut
      then let (ys, out) := gcut (read || nonempty (e_ys e)) (cut - esize e) r in (e_ys e ++ ys, out)
      else if Nat.eqb cut 0 then ([], None)
           else ([], if read then None else Some FetchTooSmall)
  end.

(* the entries wholly inside the first [cut] bytes *)
Fixpoint gwhole (cut : nat) (es : list gentry) : list gentry :=
  match es with
  | [] => []
  | e :: r => if Nat.leb (esize e) cut then e :: gwhole (cut - esize e) r else []
  end.
Definition yields (es : list gentry) : list omsg := flat_map e_ys es.

Lemma gcut_yields : forall es read cut, fst (gcut read cut es) = yields (gwhole cut es).
Proof.
  induction es as [|e r IH]; intros read cut; cbn [gcut gwhole yields flat_map]; [reflexivity|].
  destruct (Nat.leb (esize e) cut).
  - specialize (IH (read || nonempty (e_ys e)) (cut - esize e)%nat).
    destruct (gcut (read || nonempty (e_ys e)) (cut - esize e) r) as [ys out]. cbn [fst] in *.
    cbn [yields flat_map]. rewrite IH. reflexivity.
  - destruct (Nat.eqb cut 0); reflexivity.
Qed.

(* the only possible endings; FetchTooSmall only when nothing whatsoever was yielded *)
Lemma gcut_outcome : forall es read cut,
  snd (gcut read cut es) = None \/
  (snd (gcut read cut es) = Some FetchTooSmall /\ read = false /\ yields (gwhole cut es) = []).
Proof.
  induction es as [|e r IH]; intros read cut; cbn [gcut gwhole]; [left; reflexivity|].
  destruct (Nat.leb (esize e) cut).
  - specialize (IH (read || nonempty (e_ys e)) (cut - esize e)%nat).
    destruct (gcut (read || nonempty (e_ys e)) (cut - esize e) r) as [ys out]. cbn [snd] in *.
    destruct IH as [H|(H & Hr & Hy)]; [left; exact H|right].
    apply orb_false_elim in Hr. destruct Hr as [Hr He].
    split; [exact H|]. split; [exact Hr|]. cbn [yields flat_map]. fold (yields (gwhole (cut - esize e) r)). rewrite Hy.
    destruct (e_ys e); [reflexivity|discriminate].
  - destruct (Nat.eqb cut 0); [left; reflexivity|]. destruct read; [left; reflexivity|right; auto].
Qed.

Lemma set_of_length rec orc es bs : set_of rec orc es bs -> length bs = fold_right (fun e n => (esize e + n)%nat) O es.
Proof.
  induction 1 as [|e h r t Hh Hd Hs IH]; [reflexivity|].
  rewrite !app_length, IH. cbn [fold_right]. unfold esize.
  pose proof (pack_list2_length _ _ _ _ _ Hh) as Lh. cbn [fmt_size] in Lh. lia.
Qed.

Theorem gen_truncation_loop rec orc es : forall bs cut n read,
  set_of rec orc es bs -> (cut <= length bs)%nat -> (cut <= n)%nat ->
  dec_loop rec orc n (take cut bs) read = gcut read cut es.
Proof.
  induction es as [|e r IH]; intros bs cut n read Hs Hc Hn.
  - inversion Hs; subst. cbn in Hc. assert (cut = O) by lia. subst cut. rewrite dec_loop_unfold. reflexivity.
  - inversion Hs as [|e' h r' t Hh Hd Hs']; subst.
    pose proof (pack_list2_length _ _ _ _ _ Hh) as Lh. cbn [fmt_size] in Lh.
    cbn [gcut]. unfold esize. set (sz := (12 + length (e_bytes e))%nat).
    destruct (Nat.leb sz cut) eqn:L.
    + apply Nat.leb_le in L.
      assert (Ecut : take cut (h ++ e_bytes e ++ t) = h ++ e_bytes e ++ take (cut - sz) t).
      { rewrite !app_assoc. replace cut with (length (h ++ e_bytes e) + (cut - sz))%nat at 1
          by (rewrite app_length; subst sz; lia). apply take_app_plus. }
      rewrite Ecut, dec_loop_unfold.
      destruct (h ++ e_bytes e ++ take (cut - sz) t) as [|x0 t0] eqn:Nz.
      { apply (f_equal (@length Z)) in Nz. rewrite !app_length in Nz. cbn in Nz. lia. }
      rewrite <- Nz. destruct n as [|n]; [subst sz; lia|].
      rewrite (header_complete _ _ _ _ Hh), Hd. cbv beta iota zeta.
      rewrite !app_length in Hc.
      rewrite (IH t (cut - sz)%nat n (read || nonempty (e_ys e)) Hs') by (subst sz; lia).
      reflexivity.
    + apply Nat.leb_gt in L.
      destruct cut as [|cut]; [rewrite dec_loop_unfold; reflexivity|]. cbn [Nat.eqb].
      rewrite dec_loop_unfold.
      destruct (take (S cut) (h ++ e_bytes e ++ t)) as [|x0 t0] eqn:Nz.
      { apply (f_equal (@length Z)) in Nz. rewrite take_length in Nz. rewrite !app_length in Nz. cbn [length] in Nz. lia. }
      rewrite <- Nz. destruct n as [|n]; [lia|].
      rewrite (header_cut _ _ _ _ (S cut) Hh) by (subst sz; lia). cbn [on_error]. destruct read; reflexivity.
Qed.

(* every cut point of a set whose entries decode (plain messages, wrappers, ...) *)
Theorem gen_truncation d orc es bs cut :
  set_of (dec_set d orc) orc es bs -> (cut <= length bs)%nat ->
  dec_set (S d) orc (take cut bs) = gcut false cut es /\
  fst (gcut false cut es) = yields (gwhole cut es) /\
  (snd (gcut false cut es) = None \/
   (snd (gcut false cut es) = Some FetchTooSmall /\ yields (gwhole cut es) = [])).
Proof.
  intros Hs Hc. split; [|split].
  - cbn [dec_set]. apply gen_truncation_loop; auto. rewrite take_length. lia.
  - apply gcut_yields.
  - destruct (gcut_outcome es false cut) as [H|(H & _ & Hy)]; [left; exact H|right; auto].
Qed.

(* a damaged entry after entries that decode: their yields, then ChecksumError, nothing of the damaged entry or after *)
Theorem gen_corrupt_loop rec orc es : forall bs n read off' bad h' rest,
  set_of rec orc es bs ->
  pack_list [(Fq, off'); (Fi, len bad)] = Ok h' ->
  (6 <= length bad)%nat -> dec_be_unsigned (take 4 bad) <> crc32 (drop 4 bad) ->
  (length (bs ++ h' ++ bad ++ rest) <= n)%nat ->
  dec_loop rec orc n (bs ++ h' ++ bad ++ rest) read = (yields es, Some Checksum).
Proof.
  induction es as [|e r IH]; intros bs n read off' bad h' rest Hs Eh' Lb Hbad Hn.
  - inversion Hs; subst. cbn [app yields flat_map] in *.
    rewrite dec_loop_unfold.
    destruct (h' ++ bad ++ rest) as [|x0 t0] eqn:Nz.
    { apply (f_equal (@length Z)) in Nz. rewrite !app_length in Nz. cbn in Nz. lia. }
    rewrite <- Nz in *. destruct n as [|n]; [rewrite Nz in Hn; cbn in Hn; lia|].
    rewrite (header_complete _ _ _ _ Eh'), (dec_message_checksum rec orc bad off' Lb Hbad). reflexivity.
  - inversion Hs as [|e' h r' t Hh Hd Hs']; subst.
    rewrite <- !app_assoc in *. rewrite dec_loop_unfold.
    pose proof (pack_list2_length _ _ _ _ _ Hh) as Lh. cbn [fmt_size] in Lh.
    destruct (h ++ e_bytes e ++ t ++ h' ++ bad ++ rest) as [|x0 t0] eqn:Nz.
    { apply (f_equal (@length Z)) in Nz. rewrite !app_length in Nz. cbn in Nz. lia. }
    rewrite <- Nz in *. destruct n as [|n]; [rewrite Nz in Hn; cbn in Hn; lia|].
    rewrite (header_complete _ _ _ _ Hh), Hd. cbv beta iota zeta.
    rewrite (IH t n (read || nonempty (e_ys e)) off' bad h' rest Hs' Eh' Lb Hbad).
    + reflexivity.
    + rewrite !app_length in *. lia.
Qed.

Theorem gen_corrupt_in_set d orc es bs off' bad h' rest :
  set_of (dec_set d orc) orc es bs ->
  pack_list [(Fq, off'); (Fi, len bad)] = Ok h' ->
  (6 <= length bad)%nat -> dec_be_unsigned (take 4 bad) <> crc32 (drop 4 bad) ->
  dec_set (S d) orc (bs ++ h' ++ bad ++ rest) = (yields es, Some Checksum).
Proof. intros. cbn [dec_set]. eapply gen_corrupt_loop; eauto. Qed.

(* ------------------------------------------------------------------ an encoded message decodes to what its payload says *)
Theorem dec_message_payload rec orc now m bs off :
  encode_message now m = Ok bs -> obytes_ok (m_key m) = true -> obytes_ok (m_value m) = true ->
  dec_message rec orc (Some bs) off
  = dec_payload rec orc (m_magic m) (m_attr m) off (m_key m) (m_value m) (m_ts (wire_view now m)).
Proof.
  intros E Hk Hv. pose proof (encode_message_parts now m bs E) as p.
  pose proof (body_bytes _ _ _ p Hk Hv) as Hb.
  rewrite (encoded_eq _ _ _ p). unfold dec_message.
  pose proof (drop_app_exact (enc_be 4 (crc32 (body_of p))) (body_of p)) as D. rewrite enc_be_length in D. rewrite D.
  unfold read_u32. rewrite (unpack_pack FI _ _ (body_of p) (pack_crc _ Hb)). cbn [bind].
  unfold body_of at 1. unfold read_u8.
  rewrite (unpack_pack FB _ _ _ (mp_m _ _ _ p)). cbn [bind].
  rewrite (unpack_pack FB _ _ _ (mp_a _ _ _ p)). cbn [bind].
  rewrite Z.eqb_refl. cbn [negb].
  pose proof (mp_t _ _ _ p) as T. pose proof (mp_k _ _ _ p) as K. pose proof (mp_v _ _ _ p) as V.
  unfold wire_view. cbn [m_ts].
  destruct (mp_magic _ _ _ p) as [M|M]; rewrite M in *; cbn [Z.eqb] in *.
  - rewrite T. cbn [app].
    rewrite (read_write_int_string _ _ _ K). cbn [bind].
    rewrite <- (app_nil_r (mp_val now m bs p)). rewrite (read_write_int_string _ _ _ V). cbn [bind].
    reflexivity.
  - unfold read_i64. rewrite (unpack_pack Fq _ _ _ T). cbn [bind].
    rewrite (read_write_int_string _ _ _ K). cbn [bind].
    rewrite <- (app_nil_r (mp_val now m bs p)). rewrite (read_write_int_string _ _ _ V). cbn [bind].
    reflexivity.
Qed.

(* a gzip wrapper (either format) written around an encoded set of plain messages decodes to that set's messages:
   format 0 as stored, format 1 relocated so that the last one sits at the wrapper's offset - for every oracle that
   gives back the inner set for this payload *)
Theorem wrapper_decodes d orc now w bs off z clock k msgs o incr imagic inner :
  encode_message now w = Ok bs ->
  m_value w = Some z -> obytes_ok (m_key w) = true -> bytes_ok z = true ->
  Z.land (m_attr w) ATTRIBUTE_CODEC_MASK = CODEC_GZIP ->
  gz_dec orc z = Ok inner ->
  forallb plain msgs = true -> encode_message_set_from clock k msgs o incr imagic = Ok inner ->
  dec_message (dec_set (S d) orc) orc (Some bs) off
  = ((if (m_magic w =? 0) then expected clock k msgs o incr else absolute off (expected clock k msgs o incr)), None).
Proof.
  intros E Hz Hk Hzb Hc Hg Hp Hi.
  rewrite (dec_message_payload _ _ now w bs off E Hk) by (rewrite Hz; exact Hzb).
  unfold dec_payload. rewrite Hc, Hz. cbn [Z.eqb CODEC_GZIP CODEC_NONE Pos.eqb]. unfold gzip_decode. rewrite Hg.
  rewrite (complete_set d orc clock k msgs o incr imagic inner Hp Hi).
  destruct (m_magic w =? 0); reflexivity.
Qed.
