(* C14 - lemmas about the consumer's retry back-off, attempt limit, offset-reset policy and buffer growth
   (Model/Consumer.v).  Part 1: facts that hold in EVERY state (no reachability needed). *)
From Coq Require Import Lia QArith Qminmax.
From AV Require Import Base.Util Model.Consumer Proofs.ConsumerBase.
Open Scope Z_scope.

(* ---------------------------------------------------------------- buffer growth (consumer.py:959-980) *)
Lemma grow_buffer_none_iff cur mx : grow_buffer cur mx = None <-> exists m, mx = Some m /\ m <= cur.
Proof.
  unfold grow_buffer. destruct mx as [m|].
  - destruct (cur <? m) eqn:E; split; intro H; try discriminate.
    + destruct H as (m' & Hm & Hle). inversion Hm; subst. apply Z.ltb_lt in E. lia.
    + exists m. apply Z.ltb_ge in E. auto.
    + reflexivity.
  - split; intro H; [discriminate | destruct H as (m & Hm & _); discriminate].
Qed.

(* the exact rule *)
Lemma grow_buffer_rule cur mx b : grow_buffer cur mx = Some b ->
  let f := if cur <=? 2 ^ 20 then 16 else 2 in
  match mx with None => b = cur * f | Some m => cur < m /\ b = Z.min (cur * f) m end.
Proof.
  unfold grow_buffer. change (2 ^ 20) with 1048576. destruct mx as [m|]; cbn zeta.
  - destruct (cur <? m) eqn:E; intro H; inversion H; subst. apply Z.ltb_lt in E. auto.
  - intro H; inversion H; auto.
Qed.

(* it strictly grows, never beyond the maximum, and by x16 up to 1 MiB / x2 above when the maximum allows *)
Lemma grow_buffer_grows cur mx b : 0 < cur -> grow_buffer cur mx = Some b ->
  cur < b /\ (forall m, mx = Some m -> b <= m) /\
  (b = cur * 16 /\ cur <= 2 ^ 20 \/ b = cur * 2 /\ 2 ^ 20 < cur \/ mx = Some b).
Proof.
  intros Hc H. apply grow_buffer_rule in H. cbn zeta in H. change (2 ^ 20) with 1048576 in *.
  destruct (cur <=? 1048576) eqn:E; [apply Z.leb_le in E | apply Z.leb_gt in E]; destruct mx as [m|].
  - destruct H as (Hlt & ->). split; [lia|]. split; [intros m' Hm; inversion Hm; lia|].
    destruct (Z.min_spec (cur * 16) m) as [[? ->]|[? ->]]; auto.
  - subst. split; [lia|]. split; [discriminate|]. auto.
  - destruct H as (Hlt & ->). split; [lia|]. split; [intros m' Hm; inversion Hm; lia|].
    destruct (Z.min_spec (cur * 2) m) as [[? ->]|[? ->]]; auto.
  - subst. split; [lia|]. split; [discriminate|]. auto.
Qed.

(* growing repeatedly from any positive size reaches the configured maximum: the consumer only fails
   (grow_buffer = None) once the buffer IS the maximum *)
Fixpoint grow_n (n : nat) (cur : Z) (m : Z) : Z :=
  match n with O => cur | S n' => match grow_buffer cur (Some m) with Some b => grow_n n' b m | None => cur end end.

Lemma grow_n_reaches_max m : forall n cur, 0 < cur -> cur <= m -> m <= cur * 2 ^ Z.of_nat n -> grow_n n cur m = m.
Proof.
  induction n; intros cur Hc Hle Hm.
  - cbn in *. lia.
  - cbn [grow_n]. destruct (grow_buffer cur (Some m)) as [b|] eqn:E.
    + pose proof (grow_buffer_grows _ _ _ Hc E) as (Hlt & Hmax & Hcases). specialize (Hmax m eq_refl).
      apply grow_buffer_rule in E. cbn zeta in E. destruct E as (Hcm & Hb).
      apply IHn; try lia.
      rewrite Nat2Z.inj_succ, Z.pow_succ_r in Hm by lia.
      assert (0 < 2 ^ Z.of_nat n) by (apply Z.pow_pos_nonneg; lia).
      destruct (cur <=? 2 ^ 20); destruct (Z.min_spec (cur * 16) m) as [[? Hx]|[? Hx]];
        destruct (Z.min_spec (cur * 2) m) as [[? Hy]|[? Hy]]; rewrite ?Hx, ?Hy in Hb; subst b; nia.
    + apply grow_buffer_none_iff in E. destruct E as (m' & Hm' & Hle'). inversion Hm'; subst. lia.
Qed.

(* ---------------------------------------------------------------- the delay sequence over Q (consumer.py:605, 799) *)
(* d 0 = init, d (k+1) = min (d k * F) max  -- what the code computes; closed form min (init * F^k) max *)
Fixpoint delay_seq (init F mx : Q) (k : nat) : Q :=
  match k with O => init | S k' => Qmin (delay_seq init F mx k' * F) mx end.
Fixpoint qpow (F : Q) (k : nat) : Q := match k with O => 1 | S k' => qpow F k' * F end.

Lemma qpow_nonneg F k : (0 <= F)%Q -> (0 <= qpow F k)%Q.
Proof. intro HF. induction k; cbn [qpow]; [discriminate | apply Qmult_le_0_compat; assumption]. Qed.

Lemma delay_seq_closed (init F mx : Q) : (0 <= init)%Q -> (init <= mx)%Q -> (1 <= F)%Q ->
  forall k, (delay_seq init F mx k == Qmin (init * qpow F k) mx)%Q.
Proof.
  intros Hi Hm HF.
  assert (HF0 : (0 <= F)%Q) by (apply Qle_trans with 1%Q; [discriminate | exact HF]).
  induction k.
  - cbn [delay_seq qpow]. rewrite Qmult_1_r. symmetry. apply Q.min_l. exact Hm.
  - cbn [delay_seq qpow]. rewrite IHk. rewrite Qmult_assoc.
    set (a := (init * qpow F k)%Q).
    assert (Ha : (0 <= a)%Q) by (unfold a; apply Qmult_le_0_compat; [exact Hi | apply qpow_nonneg; exact HF0]).
    assert (H0m : (0 <= mx)%Q) by (apply Qle_trans with init; assumption).
    destruct (Qlt_le_dec mx a) as [Hlt|Hle].
    + (* already capped *)
      rewrite (Q.min_r a mx) by (apply Qlt_le_weak; exact Hlt).
      assert (H1 : (mx <= mx * F)%Q).
      { rewrite <- (Qmult_1_r mx) at 1. rewrite (Qmult_comm mx 1), (Qmult_comm mx F). apply Qmult_le_compat_r; assumption. }
      assert (H2 : (mx <= a * F)%Q).
      { apply Qle_trans with (mx * F)%Q; [exact H1|]. apply Qmult_le_compat_r; [apply Qlt_le_weak; exact Hlt | exact HF0]. }
      rewrite (Q.min_r (mx * F) mx) by exact H1. rewrite (Q.min_r (a * F) mx) by exact H2. reflexivity.
    + rewrite (Q.min_l a mx) by exact Hle. reflexivity.
Qed.

(* geometric until the cap is reached, then constant *)
Lemma delay_seq_below_cap (init F mx : Q) k : (0 <= init)%Q -> (init <= mx)%Q -> (1 <= F)%Q ->
  (init * qpow F k <= mx)%Q -> (delay_seq init F mx k == init * qpow F k)%Q.
Proof. intros. rewrite delay_seq_closed by assumption. apply Q.min_l. assumption. Qed.
Lemma delay_seq_at_cap (init F mx : Q) k : (0 <= init)%Q -> (init <= mx)%Q -> (1 <= F)%Q ->
  (mx <= init * qpow F k)%Q -> (delay_seq init F mx k == mx)%Q.
Proof. intros. rewrite delay_seq_closed by assumption. apply Q.min_r. assumption. Qed.
(* it never decreases and never exceeds the maximum *)
Lemma delay_seq_le_max (init F mx : Q) k : (0 <= init)%Q -> (init <= mx)%Q -> (1 <= F)%Q -> (delay_seq init F mx k <= mx)%Q.
Proof. intros. rewrite delay_seq_closed by assumption. apply Q.le_min_r. Qed.
