(* C14 - lemmas about the consumer's retry back-off, attempt limit, offset-reset policy and buffer growth
   (Model/Consumer.v).  Part 1: facts that hold in EVERY state (no reachability needed). *)
From Coq Require Import Lia QArith Qminmax.
From AV Require Import Base.Util Model.Consumer Proofs.ConsumerBase.
Open Scope Z_scope.

(* ---------------------------------------------------------------- buffer growth (consumer.py:959-980) *)
Lemma grow_buffer_none_iff cur mx : grow_buffer cur mx = None <-> exists m, mx = Some m /\ m <= cur.
Proof.
  unfold grow_buffer. destruct mx as [m|].
  - destruct (cur <? m) eqn:E; split; intro H; try discriminate.
    + destruct H as (m' & Hm & Hle). inversion Hm; subst. apply Z.ltb_lt in E. lia.
    + exists m. apply Z.ltb_ge in E. auto.
    + reflexivity.
  - split; intro H; [discriminate | destruct H as (m & Hm & _); discriminate].
Qed.

(* the exact rule *)
Lemma grow_buffer_rule cur mx b : grow_buffer cur mx = Some b ->
  let f := if cur <=? 2 ^ 20 then 16 else 2 in
  match mx with None => b = cur * f | Some m => cur < m /\ b = Z.min (cur * f) m end.
Proof.
  unfold grow_buffer. change (2 ^ 20) with 1048576. destruct mx as [m|]; cbn zeta.
  - destruct (cur <? m) eqn:E; intro H; inversion H; subst. apply Z.ltb_lt in E. auto.
  - intro H; inversion H; auto.
Qed.

(* it strictly grows, never beyond the maximum, and by x16 up to 1 MiB / x2 above when the maximum allows *)
Lemma grow_buffer_grows cur mx b : 0 < cur -> grow_buffer cur mx = Some b ->
  cur < b /\ (forall m, mx = Some m -> b <= m) /\
  (b = cur * 16 /\ cur <= 2 ^ 20 \/ b = cur * 2 /\ 2 ^ 20 < cur \/ mx = Some b).
Proof.
  intros Hc H. apply grow_buffer_rule in H. cbn zeta in H. change (2 ^ 20) with 1048576 in *.
  destruct (cur <=? 1048576) eqn:E; [apply Z.leb_le in E | apply Z.leb_gt in E]; destruct mx as [m|].
  - destruct H as (Hlt & ->). split; [lia|]. split; [intros m' Hm; inversion Hm; lia|].
    destruct (Z.min_spec (cur * 16) m) as [[? ->]|[? ->]]; auto.
  - subst. split; [lia|]. split; [discriminate|]. auto.
  - destruct H as (Hlt & ->). split; [lia|]. split; [intros m' Hm; inversion Hm; lia|].
    destruct (Z.min_spec (cur * 2) m) as [[? ->]|[? ->]]; auto.
  - subst. split; [lia|]. split; [discriminate|]. auto.
Qed.

(* growing repeatedly from any positive size reaches the configured maximum: the consumer only fails
   (grow_buffer = None) once the buffer IS the maximum *)
Fixpoint grow_n (n : nat) (cur : Z) (m : Z) : Z :=
  match n with O => cur | S n' => match grow_buffer cur (Some m) with Some b => grow_n n' b m | None => cur end end.

Lemma grow_n_reaches_max m : forall n cur, 0 < cur -> cur <= m -> m <= cur * 2 ^ Z.of_nat n -> grow_n n cur m = m.
Proof.
  induction n; intros cur Hc Hle Hm.
  - cbn in *. lia.
  - cbn [grow_n]. destruct (grow_buffer cur (Some m)) as [b|] eqn:E.
    + pose proof (grow_buffer_grows _ _ _ Hc E) as (Hlt & Hmax & Hcases). specialize (Hmax m eq_refl).
      apply grow_buffer_rule in E. cbn zeta in E. destruct E as (Hcm & Hb).
      apply IHn; try lia.
      rewrite Nat2Z.inj_succ, Z.pow_succ_r in Hm by lia.
      assert (0 < 2 ^ Z.of_nat n) by (apply Z.pow_pos_nonneg; lia).
      destruct (cur <=? 2 ^ 20); destruct (Z.min_spec (cur * 16) m) as [[? Hx]|[? Hx]];
        destruct (Z.min_spec (cur * 2) m) as [[? Hy]|[? Hy]]; rewrite ?Hx, ?Hy in Hb; subst b; nia.
    + apply grow_buffer_none_iff in E. destruct E as (m' & Hm' & Hle'). inversion Hm'; subst. lia.
Qed.

(* ---------------------------------------------------------------- the delay sequence over Q (consumer.py:605, 799) *)
(* d 0 = init, d (k+1) = min (d k * F) max  -- what the code computes; closed form min (init * F^k) max *)
Fixpoint delay_seq (init F mx : Q) (k : nat) : Q :=
  match k with O => init | S k' => Qmin (delay_seq init F mx k' * F) mx end.
Fixpoint qpow (F : Q) (k : nat) : Q := match k with O => 1 | S k' => qpow F k' * F end.

Lemma qpow_nonneg F k : (0 <= F)%Q -> (0 <= qpow F k)%Q.
Proof. intro HF. induction k; cbn [qpow]; [discriminate | apply Qmult_le_0_compat; assumption]. Qed.

Lemma delay_seq_closed (init F mx : Q) : (0 <= init)%Q -> (init <= mx)%Q -> (1 <= F)%Q ->
  forall k, (delay_seq init F mx k == Qmin (init * qpow F k) mx)%Q.
Proof.
  intros Hi Hm HF.
  assert (HF0 : (0 <= F)%Q) by (apply Qle_trans with 1%Q; [discriminate | exact HF]).
  induction k.
  - cbn [delay_seq qpow]. rewrite Qmult_1_r. symmetry. apply Q.min_l. exact Hm.
  - cbn [delay_seq qpow]. rewrite IHk. rewrite Qmult_assoc.
    set (a := (init * qpow F k)%Q).
    assert (Ha : (0 <= a)%Q) by (unfold a; apply Qmult_le_0_compat; [exact Hi | apply qpow_nonneg; exact HF0]).
    assert (H0m : (0 <= mx)%Q) by (apply Qle_trans with init; assumption).
    destruct (Qlt_le_dec mx a) as [Hlt|Hle].
    + (* already capped *)
      rewrite (Q.min_r a mx) by (apply Qlt_le_weak; exact Hlt).
      assert (H1 : (mx <= mx * F)%Q).
      { rewrite <- (Qmult_1_r mx) at 1. rewrite (Qmult_comm mx 1), (Qmult_comm mx F). apply Qmult_le_compat_r; assumption. }
      assert (H2 : (mx <= a * F)%Q).
      { apply Qle_trans with (mx * F)%Q; [exact H1|]. apply Qmult_le_compat_r; [apply Qlt_le_weak; exact Hlt | exact HF0]. }
      rewrite (Q.min_r (mx * F) mx) by exact H1. rewrite (Q.min_r (a * F) mx) by exact H2. reflexivity.
    + rewrite (Q.min_l a mx) by exact Hle. reflexivity.
Qed.

(* geometric until the cap is reached, then constant *)
Lemma delay_seq_below_cap (init F mx : Q) k : (0 <= init)%Q -> (init <= mx)%Q -> (1 <= F)%Q ->
  (init * qpow F k <= mx)%Q -> (delay_seq init F mx k == init * qpow F k)%Q.
Proof. intros. rewrite delay_seq_closed by assumption. apply Q.min_l. assumption. Qed.
Lemma delay_seq_at_cap (init F mx : Q) k : (0 <= init)%Q -> (init <= mx)%Q -> (1 <= F)%Q ->
  (mx <= init * qpow F k)%Q -> (delay_seq init F mx k == mx)%Q.
Proof. intros. rewrite delay_seq_closed by assumption. apply Q.min_r. assumption. Qed.
(* it never decreases and never exceeds the maximum *)
Lemma delay_seq_le_max (init F mx : Q) k : (0 <= init)%Q -> (init <= mx)%Q -> (1 <= F)%Q -> (delay_seq init F mx k <= mx)%Q.
Proof. intros. rewrite delay_seq_closed by assumption. apply Q.le_min_r. Qed.

(* ================================================================ Part 2: single steps, in EVERY state *)
Definition running (s : state) : bool := negb (s_stopping s) && negb (s_shutting s) && is_some (s_startd s).

Ltac step_open H :=
  let o1 := fresh "o" in apply step_inv in H; destruct H as (o1 & H & ->); unfold handle in H; cbn zeta in H.
Ltac clean_consts := change (is_cancel FK_OOR) with false in *; change (is_oor FK_OOR) with true in *;
  change (is_cancel FK_KAFKA) with false in *; change (is_oor FK_KAFKA) with false in *;
  rewrite ?andb_false_r in *.

(* ---- offset-reset policy (consumer.py:870-874): an OffsetOutOfRange answer to a fetch, in whatever state it arrives *)
Lemma reset_policy_step fuel s s' o :
  s_req s = Some (R_FETCH, false) -> step fuel s (EReqFail FK_OOR) = (s', o) ->
  match reset_off (s_cf s) with
  | None => (* fail: nothing is re-scheduled, the fetch offset is kept, the start Deferred fails with the error *)
      s_foff s' = s_foff s /\ s_req s' = None /\ s_rcall s' = s_rcall s /\ s_ridx s' = s_ridx s
      /\ (s_startd s = Some false -> s_inapi s = 0 ->
          o = [OStartD false FK_OOR; OEnd (s_lp s) (s_lc s)] /\ s_startd s' = Some true)
  | Some t => (* earliest / latest: the next request asks the broker for that offset *)
      s_foff s' = t /\ s_req s' = None
      /\ (s_startd s = Some false -> s_inapi s = 0 -> exhausted s = true ->
          o = [OStartD false FK_OOR; OEnd (s_lp s) (s_lc s)] /\ s_startd s' = Some true /\ s_rcall s' = s_rcall s)
      /\ (running s = true -> s_rcall s = None -> exhausted s = false ->
          o = [OSched T_RETRY (s_ridx s); OEnd (s_lp s) (s_lc s)] /\ s_rcall s' = Some 0
          /\ s_ridx s' = s_ridx s + 1 /\ s_att s' = s_att s + 1 /\ s_startd s' = s_startd s)
  end.
Proof.
  intros Hreq H. step_open H.
  unfold handle_fetch_error, handle_offset_error, retry_fetch, startd_errback, exhausted, running in *.
  mi H; clean_consts; try discriminate.
  all: try match goal with D : reset_off _ = _ |- _ => rewrite D end.
  all: fin.
Qed.

Definition special_off (t : Z) : bool := (t =? OFF_EARLIEST) || (t =? OFF_LATEST) || (t =? OFF_COMMITTED).

(* the retry timer fires: the request that goes out is determined by the fetch offset alone (consumer.py:1075-1104) *)
Lemma retry_fires_step fuel s s' o :
  s_rcall s = Some 0 -> s_req s = None -> step fuel s EFireRetry = (s', o) ->
  s_rcall s' = None /\ s_foff s' = s_foff s /\ s_buf s' = s_buf s /\ s_ridx s' = s_ridx s /\ s_att s' = s_att s /\
  ((s_foff s = OFF_EARLIEST \/ s_foff s = OFF_LATEST) ->
     o = [OOffReq (s_foff s); OEnd (s_lp s) (s_lc s)] /\ s_req s' = Some (R_OFFREQ, false)) /\
  (special_off (s_foff s) = false ->
     o = [OFetch (s_foff s) (s_buf s); OEnd (s_lp s) (s_lc s)] /\ s_req s' = Some (R_FETCH, false)).
Proof.
  intros Hrc Hreq H. step_open H. unfold do_fetch, startd_errback, special_off in *.
  mi H; fin.
  all: try (destruct H as [H|H]; rewrite H in *; discriminate).
Qed.

(* a successful OffsetRequest / OffsetFetchRequest answer: back-off and attempt count start again, the fetch goes out *)
Lemma offset_reply_step fuel s s' o kd v :
  s_req s = Some (kd, false) -> kd = R_OFFREQ \/ kd = R_OFFFETCH -> step fuel s (EReqOk v) = (s', o) ->
  s_ridx s' = 0 /\ s_att s' = 1 /\ s_buf s' = s_buf s /\
  (kd = R_OFFREQ -> s_foff s' = v) /\
  (kd = R_OFFFETCH -> v <> -1 -> s_foff s' = v + 1 /\ s_lc s' = Some v) /\
  (kd = R_OFFFETCH -> v = -1 -> s_foff s' = if c_reset (s_cf s) =? 2 then OFF_LATEST else OFF_EARLIEST) /\
  (kd = R_OFFREQ -> special_off v = false -> s_rcall s = None ->
     o = [OFetch v (s_buf s); OEnd (s_lp s) (s_lc s)] /\ s_req s' = Some (R_FETCH, false)).
Proof.
  intros Hreq Hkd H. step_open H. unfold handle_offset_response, do_fetch, startd_errback, special_off in *.
  destruct Hkd; subst kd; mi H; fin.
Qed.

(* a failed offset / fetch request (any failure kind but the out-of-range special case): consumer.py:643-675, 849-898 *)
Lemma failure_step fuel s s' o kd fk :
  s_req s = Some (kd, false) -> (kd = R_FETCH -> is_oor fk = false) -> s_stopping s = false ->
  step fuel s (EReqFail fk) = (s', o) ->
  s_req s' = None /\ s_foff s' = s_foff s /\ s_buf s' = s_buf s /\
  (exhausted s = true ->                                   (* the limit is reached: report, do not retry *)
     s_rcall s' = s_rcall s /\ s_ridx s' = s_ridx s /\ s_att s' = s_att s /\
     (s_startd s = Some false -> s_inapi s = 0 ->
        o = [OStartD false fk; OEnd (s_lp s) (s_lc s)] /\ s_startd s' = Some true)) /\
  (exhausted s = false -> running s = true -> s_rcall s = None ->     (* retry after the s_ridx-th delay *)
     o = [OSched T_RETRY (s_ridx s); OEnd (s_lp s) (s_lc s)] /\ s_rcall s' = Some 0 /\
     s_ridx s' = s_ridx s + 1 /\ s_att s' = s_att s + 1 /\ s_startd s' = s_startd s).
Proof.
  intros Hreq Hoor Hst H. step_open H.
  unfold handle_fetch_error, handle_offset_error, retry_fetch, startd_errback, exhausted, running in *.
  mi H; fin.
  all: try (rewrite Hoor in *; [discriminate | reflexivity]).
Qed.

(* with an attempt limit of 0 the count never ends the consumer (outside a shutdown in progress, see ConsumerInv) *)
Lemma unlimited_never_exhausted s : s_maxatt s = 0 -> exhausted s = false.
Proof. unfold exhausted. intros ->. reflexivity. Qed.
Lemma limited_exhausted_iff s : 0 < s_maxatt s -> (exhausted s = true <-> s_maxatt s <= s_att s).
Proof.
  unfold exhausted. intro H. destruct (s_maxatt s =? 0) eqn:E; [apply Z.eqb_eq in E; lia|].
  cbn [negb andb]. apply Z.leb_le.
Qed.

(* ---- buffer growth inside the consumer: the answer to a fetch holds only a message that does not fit.
   The fetch offset is unchanged and the re-fetch is scheduled at once (delay 0): the message is not skipped. *)
Lemma growth_step (f : nat) s s' o b :
  s_req s = Some (R_FETCH, false) -> s_mblock s = None -> grow_buffer (s_buf s) (c_maxbuf (s_cf s)) = Some b ->
  step (S f) s (EFetchOk [] true) = (s', o) ->
  s_foff s' = s_foff s /\ s_req s' = None /\ s_buf s' = b /\ s_startd s' = s_startd s /\ s_ridx s' = 0 /\
  (running s = true -> s_rcall s = None ->
     o = [OSched T_RETRY (-1); OEnd (s_lp s) (s_lc s)] /\ s_rcall s' = Some 0).
Proof.
  intros Hreq Hmb Hg H. step_open H. mi H.
  all: unfold retry_fetch, running in *; mi_all; fin.
Qed.

(* already at the maximum: the start Deferred fails with ConsumerFetchSizeTooSmall, nothing is re-scheduled *)
Lemma growth_fails_step (f : nat) s s' o :
  s_req s = Some (R_FETCH, false) -> s_mblock s = None -> grow_buffer (s_buf s) (c_maxbuf (s_cf s)) = None ->
  s_startd s = Some false -> s_inapi s = 0 ->
  step (S f) s (EFetchOk [] true) = (s', o) ->
  o = [OStartD false FK_TOOSMALL; OEnd (s_lp s) (s_lc s)] /\ s_startd s' = Some true /\
  s_foff s' = s_foff s /\ s_req s' = None /\ s_buf s' = s_buf s /\ s_rcall s' = s_rcall s /\ s_ridx s' = 0.
Proof.
  intros Hreq Hmb Hg Hsd Hin H. step_open H. mi H.
  all: unfold startd_errback in *; mi_all; fin.
Qed.

(* the attempt limit has priority over the reset policy (the out-of-range answer is itself a failed attempt) *)
Lemma limit_priority_over_policy fuel s s' o t :
  s_req s = Some (R_FETCH, false) -> reset_off (s_cf s) = Some t -> s_startd s = Some false -> s_inapi s = 0 ->
  running s = true -> s_rcall s = None -> step fuel s (EReqFail FK_OOR) = (s', o) ->
  if exhausted s
  then o = [OStartD false FK_OOR; OEnd (s_lp s) (s_lc s)] /\ s_startd s' = Some true /\ s_rcall s' = None /\ s_req s' = None
  else o = [OSched T_RETRY (s_ridx s); OEnd (s_lp s) (s_lc s)] /\ s_foff s' = t /\ s_rcall s' = Some 0 /\ s_startd s' = Some false.
Proof.
  intros Hreq Hres Hsd Hin Hrun Hrc H. pose proof (reset_policy_step _ _ _ _ Hreq H) as P. rewrite Hres in P.
  destruct P as (P1 & P2 & P3 & P4). destruct (exhausted s) eqn:E.
  - destruct (P3 Hsd Hin eq_refl) as (Q1 & Q2 & Q3). rewrite Q3, Hrc. auto.
  - destruct (P4 Hrun Hrc eq_refl) as (Q1 & Q2 & Q3 & Q4 & Q5). rewrite Q5, Hsd. auto.
Qed.
