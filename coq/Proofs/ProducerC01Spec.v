(* Vocabulary of the C01 statements over runs of Model/Producer.v.  Definitions only. *)
From AV Require Import Base.Util Model.Producer.

Definition trace := list (event * list output).
Definition outs_of (tr : trace) : list output := flat_map snd tr.

(* the send ids that received an outcome, in firing order *)
Definition oid (o : output) : list Z := match o with OOutcome sid _ => [sid] | _ => [] end.
Definition oids (l : list output) : list Z := flat_map oid l.
Definition fired (tr : trace) : list Z := oids (outs_of tr).

(* the SendRequests accepted by send_messages, as the model numbers them (producer.py:216-247): every call of
   send_messages takes the next id; calls with bad arguments fail at once and create no request *)
Definition takes_id (e : event) : bool := match e with ESend _ _ _ _ | EBadSend _ => true | _ => false end.
Definition nids (evs : list event) : Z := Z.of_nat (length (filter takes_id evs)).
Fixpoint accepted (n : Z) (evs : list event) : list send :=
  match evs with
  | [] => []
  | ESend t ch cnt b :: r =>
      (if (cnt <? 1) || (b <? 0) then []
       else [{| s_id := n; s_topic := t; s_choice := ch; s_cnt := cnt; s_bytes := b |}]) ++ accepted (n + 1) r
  | EBadSend _ :: r => accepted (n + 1) r
  | _ :: r => accepted n r
  end.

(* The honest environment of the C01 theorems: every result the client delivers accounts for every payload of the
   request (no EResultOmit: a broker that leaves a partition out of its response is outside the fault model), and
   building / handing over a request does not raise (no EBroken true: known finding F-C01-5). *)
Definition honest_ev (e : event) : bool :=
  match e with EResultOmit _ => false | EBroken b => negb b | _ => true end.
Definition honest (evs : list event) : Prop := Forall (fun e => honest_ev e = true) evs.

(* the payloads of the most recent send_produce_request *)
Definition last_prod (outs : list output) (acc : option (list (tp * list (Z * Z)))) :=
  fold_left (fun a o => match o with OSendProduce _ _ pls => Some pls | _ => a end) outs acc.
Definition last_produce (tr : trace) := last_prod (outs_of tr) None.

(* ms contains the messages of x as one contiguous run, in order *)
Definition contiguous (x : send) (ms : list (Z * Z)) : Prop := exists pre post, ms = pre ++ msgs_of x ++ post.

(* the value delivered by the client in this step (EResult v; stop(): what the cancelled request fired with) *)
Definition value_of (e : event) : option value :=
  match e with EResult v => Some v | EStop (Some v) => Some v | _ => None end.

(* v acknowledges the payload of topic-partition x without error: a response with error 0 and base offset off *)
Definition acked_with (v : value) (x : tp) (off : Z) : Prop :=
  match v with
  | VResp rs | VFailed rs _ => In (x, 0, off) rs
  | _ => False
  end.
(* acks = 0: the client reports the request (or at least this payload of it) as handed to a connection *)
Definition handed_over (v : value) (x : tp) : Prop :=
  match v with
  | VEmpty => True
  | VFailed rs fs => rs = [] /\ ~ In x (map fst fs)
  | _ => False
  end.

Definition is_success (o : outcome) : bool := match o with OFail _ _ => false | _ => true end.

(* boolean versions, used by failure_is_failure *)
Definition acked_b (c : cfg) (v : value) (x : tp) : bool :=
  match v with
  | VResp rs => negb (c_acks c =? 0) && existsb (fun r => tp_eqb (fst (fst r)) x && (snd (fst r) =? 0)) rs
  | VFailed rs fs =>
      if c_acks c =? 0 then negb (tpmem x (map fst fs))
      else existsb (fun r => tp_eqb (fst (fst r)) x && (snd (fst r) =? 0)) rs
  | VEmpty => c_acks c =? 0
  | _ => false
  end.
Definition acks_event (c : cfg) (e : event) (x : tp) : bool :=
  match value_of e with Some v => acked_b c v x | None => false end.

(* no batch in flight, nothing queued (retry timers exist only inside a batch: Looking / RetryWait) *)
Definition armed_timers (s : state) : list Z :=
  match ph s with
  | Looking _ ls => flat_map (fun l => match l with LTimer t => [t] | _ => [] end) ls
  | RetryWait _ _ t => [t]
  | _ => []
  end.
Definition quiescent (s : state) : Prop := ph s = Idle /\ queue s = [] /\ armed_timers s = [].

Definition tp_of (x : send) : tp := (s_topic x, s_choice x).
Definition viewf (pls : list payload) (cur : list tp) : list (tp * list (Z * Z)) :=
  map payload_view (filter (fun p => tpmem (p_tp p) cur) pls).
