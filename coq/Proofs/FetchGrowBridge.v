(* Model/FetchGrow.v's buffer rule is literally the one of the full consumer model (Model/Consumer.v, property C14). *)
From AV Require Import Base.Util Model.FetchGrow Model.Consumer.

Lemma grow_is_grow_buffer : forall buf maxbuf, FetchGrow.grow buf maxbuf = Consumer.grow_buffer buf maxbuf.
Proof. intros buf [m|]; reflexivity. Qed.
