(* C13 - stop / shutdown leave nothing running and report once: lemmas (Model/Consumer.v).
   Part 1: the start Deferred fires exactly once (a conservation law through every nested execution). *)
From Coq Require Import Lia.
From AV Require Import Base.Util Model.Consumer Proofs.ConsumerBase Proofs.ConsumerFrame.
Open Scope Z_scope.

(* 1 while the Deferred returned by start() is pending, else 0 *)
Definition u (s : state) : Z := if startd_unfired s then 1 else 0.
(* outcomes of the start Deferred held back until the API call in progress returns (s_pend) count as reported *)
Definition Phi (s : state) : Z := count_startd (s_pend s) + u s.
(* conservation: pending-ness + outcomes reported is constant; a fired Deferred never becomes pending again *)
Definition SO (s s' : state) (o : list output) : Prop := u s' <= u s /\ Phi s' + count_startd o = Phi s.

Lemma count_startd_app a b : count_startd (a ++ b) = count_startd a + count_startd b.
Proof. induction a as [|x a IH]; [reflexivity|]. destruct x; cbn [app count_startd]; lia. Qed.
Lemma SO_refl s : SO s s []. Proof. unfold SO. cbn. lia. Qed.
Lemma SO_trans a b c o1 o2 : SO a b o1 -> SO b c o2 -> SO a c (o1 ++ o2).
Proof. unfold SO. rewrite count_startd_app. lia. Qed.

Ltac so_done :=
  unfold SO, Phi, u, startd_unfired in *; psimpl;
  repeat match goal with D : s_startd ?s = _ |- _ => rewrite D in * end;
  repeat rewrite count_startd_app in *; cbn [count_startd app] in *; lia.

Ltac use L := repeat match goal with E : _ = (_, _, _) |- _ => apply L in E end.

Lemma startd_errback_so fk s r s' o : startd_errback fk s = (r, s', o) -> SO s s' o.
Proof. intro H. unfold startd_errback in H. mi H; fin; so_done. Qed.
Lemma handle_auto_commit_error_so fk s r s' o : handle_auto_commit_error fk s = (r, s', o) -> SO s s' o.
Proof. intro H. unfold handle_auto_commit_error in H. mi H; use startd_errback_so; so_done. Qed.
Lemma handle_processor_error_so fk s r s' o : handle_processor_error fk s = (r, s', o) -> SO s s' o.
Proof. intro H. unfold handle_processor_error in H. mi H; use startd_errback_so; so_done. Qed.
Lemma send_commit_request_so i a s r s' o : send_commit_request i a s = (r, s', o) -> SO s s' o.
Proof. intro H. unfold send_commit_request in H. mi H; so_done. Qed.
Lemma commit_so w s r s' o : commit w s = (r, s', o) -> SO s s' o.
Proof. intro H. unfold commit in H. mi H; use send_commit_request_so; so_done. Qed.
Lemma auto_commit_so bc s r s' o : auto_commit bc s = (r, s', o) -> SO s s' o.
Proof. intro H. unfold auto_commit in H. mi H; use commit_so; use handle_auto_commit_error_so; so_done. Qed.
Lemma proc_chain_so last fk s r s' o : proc_chain last fk s = (r, s', o) -> SO s s' o.
Proof. intro H. unfold proc_chain in H. mi H; use auto_commit_so; use handle_processor_error_so; so_done. Qed.
Lemma pop_plan_so s r s' o : pop_plan s = (r, s', o) -> SO s s' o.
Proof. intro H. unfold pop_plan in H. mi H; so_done. Qed.
Lemma emit_shutd_so x s r s' o : emit_shutd x s = (r, s', o) -> count_startd [x] = 0 -> SO s s' o.
Proof. intros H Hx. unfold emit_shutd in H. mi H; so_done. Qed.
Lemma interrupted_so s r s' o : interrupted s = (r, s', o) -> SO s s' o.
Proof.
  intro H. unfold interrupted in H. mi H.
  - apply emit_shutd_so in E1; [so_done | reflexivity].
  - so_done.
Qed.
Lemma retry_fetch_so z s r s' o : retry_fetch z s = (r, s', o) -> SO s s' o.
Proof. intro H. unfold retry_fetch in H. mi H; so_done. Qed.
Lemma handle_fetch_error_so fk s r s' o : handle_fetch_error fk s = (r, s', o) -> SO s s' o.
Proof. intro H. unfold handle_fetch_error in H. mi H; use startd_errback_so; use retry_fetch_so; so_done. Qed.
Lemma handle_offset_error_so fk s r s' o : handle_offset_error fk s = (r, s', o) -> SO s s' o.
Proof. intro H. unfold handle_offset_error in H. mi H; use startd_errback_so; use retry_fetch_so; so_done. Qed.
Lemma do_fetch_so s r s' o : do_fetch s = (r, s', o) -> SO s s' o.
Proof. intro H. unfold do_fetch in H. mi H; use startd_errback_so; so_done. Qed.
Lemma handle_offset_response_so kd v s r s' o : handle_offset_response kd v s = (r, s', o) -> SO s s' o.
Proof. intro H. unfold handle_offset_response in H. mi H; use do_fetch_so; so_done. Qed.
Lemma stop_req_so s r s' o : stop_req s = (r, s', o) -> SO s s' o.
Proof. intro H. unfold stop_req in H. mi H; use handle_fetch_error_so; use handle_offset_error_so; so_done. Qed.
Lemma stop_mblock_so s r s' o : stop_mblock s = (r, s', o) -> SO s s' o.
Proof. intro H. unfold stop_mblock in H. mi H; so_done. Qed.
Lemma stop_rcall_so s r s' o : stop_rcall s = (r, s', o) -> SO s s' o.
Proof. intro H. unfold stop_rcall in H. mi H; so_done. Qed.
Lemma stop_ccall_so s r s' o : stop_ccall s = (r, s', o) -> SO s s' o.
Proof. intro H. unfold stop_ccall in H. mi H; so_done. Qed.
Lemma stop_looper_so s r s' o : stop_looper s = (r, s', o) -> SO s s' o.
Proof. intro H. unfold stop_looper in H. mi H; so_done. Qed.
Lemma stop_susp_so s r s' o : stop_susp s = (r, s', o) -> SO s s' o.
Proof. intro H. unfold stop_susp in H. mi H; so_done. Qed.
Lemma stop_startd_so s r s' o : stop_startd s = (r, s', o) -> SO s s' o.
Proof. intro H. unfold stop_startd in H. mi H; so_done. Qed.
Lemma api_commit_so s r s' o : api_commit s = (r, s', o) -> SO s s' o.
Proof. intro H. unfold api_commit in H. mi H; use commit_so; so_done. Qed.

(* ---- outcomes are held back (s_pend) only inside start() / shutdown(): nested executions keep the marker and,
   outside those two API calls, the list *)
Definition IP (s s' : state) : Prop :=
  s_inapi s' = s_inapi s /\ (s_inapi s = 0 -> s_pend s' = s_pend s) /\
  (s_inapi s <> 1 -> count_startd (s_pend s') = count_startd (s_pend s)).
Lemma IP_refl s : IP s s. Proof. repeat split; auto. Qed.
Lemma IP_trans a b c : IP a b -> IP b c -> IP a c.
Proof.
  intros (e1 & p1 & q1) (e2 & p2 & q2). repeat split; [congruence| |].
  - intro H. rewrite p2 by congruence. auto.
  - intro H. rewrite q2 by congruence. auto.
Qed.
Ltac ip_explicit :=
  split; [|split]; psimpl; intros; bsimp; repeat rewrite count_startd_app; cbn [count_startd];
  try reflexivity; try congruence; try lia.
Ltac ip_chain :=
  lazymatch goal with
  | |- IP ?s ?s' =>
    first [ match goal with
            | H : IP ?a ?b |- _ =>
              lazymatch s' with context [b] => idtac end;
              apply (IP_trans s b s'); [ apply (IP_trans s a b); [ clear H; ip_chain | exact H ] | ip_explicit ]
            end
          | ip_explicit ]
  end.
Ltac leaf_ip m := let H := fresh "H" in intro H; unfold m in H; mi H.

Lemma startd_errback_ip fk s r s' o : startd_errback fk s = (r, s', o) -> IP s s'.
Proof. leaf_ip startd_errback; ip_chain. Qed.
Lemma handle_auto_commit_error_ip fk s r s' o : handle_auto_commit_error fk s = (r, s', o) -> IP s s'.
Proof. leaf_ip handle_auto_commit_error; use startd_errback_ip; ip_chain. Qed.
Lemma handle_processor_error_ip fk s r s' o : handle_processor_error fk s = (r, s', o) -> IP s s'.
Proof. leaf_ip handle_processor_error; use startd_errback_ip; ip_chain. Qed.
Lemma send_commit_request_ip i a s r s' o : send_commit_request i a s = (r, s', o) -> IP s s'.
Proof. leaf_ip send_commit_request; ip_chain. Qed.
Lemma commit_ip w s r s' o : commit w s = (r, s', o) -> IP s s'.
Proof. leaf_ip commit; use send_commit_request_ip; ip_chain. Qed.
Lemma auto_commit_ip bc s r s' o : auto_commit bc s = (r, s', o) -> IP s s'.
Proof. leaf_ip auto_commit; use commit_ip; use handle_auto_commit_error_ip; ip_chain. Qed.
Lemma proc_chain_ip last fk s r s' o : proc_chain last fk s = (r, s', o) -> IP s s'.
Proof. leaf_ip proc_chain; use auto_commit_ip; use handle_processor_error_ip; ip_chain. Qed.
Lemma pop_plan_ip s r s' o : pop_plan s = (r, s', o) -> IP s s'.
Proof. leaf_ip pop_plan; ip_chain. Qed.
Lemma emit_shutd_ip x s r s' o : emit_shutd x s = (r, s', o) -> count_startd [x] = 0 -> IP s s'.
Proof. intros H Hx. unfold emit_shutd in H. cbn [count_startd] in Hx. mi H; ip_chain. Qed.
Lemma interrupted_ip s r s' o : interrupted s = (r, s', o) -> IP s s'.
Proof.
  leaf_ip interrupted.
  - apply emit_shutd_ip in E1; [ip_chain | reflexivity].
  - ip_chain.
Qed.
Lemma retry_fetch_ip z s r s' o : retry_fetch z s = (r, s', o) -> IP s s'.
Proof. leaf_ip retry_fetch; ip_chain. Qed.
Lemma handle_fetch_error_ip fk s r s' o : handle_fetch_error fk s = (r, s', o) -> IP s s'.
Proof. leaf_ip handle_fetch_error; use startd_errback_ip; use retry_fetch_ip; ip_chain. Qed.
Lemma handle_offset_error_ip fk s r s' o : handle_offset_error fk s = (r, s', o) -> IP s s'.
Proof. leaf_ip handle_offset_error; use startd_errback_ip; use retry_fetch_ip; ip_chain. Qed.
Lemma do_fetch_ip s r s' o : do_fetch s = (r, s', o) -> IP s s'.
Proof. leaf_ip do_fetch; use startd_errback_ip; ip_chain. Qed.
Lemma handle_offset_response_ip kd v s r s' o : handle_offset_response kd v s = (r, s', o) -> IP s s'.
Proof. leaf_ip handle_offset_response; use do_fetch_ip; ip_chain. Qed.
Lemma stop_req_ip s r s' o : stop_req s = (r, s', o) -> IP s s'.
Proof. leaf_ip stop_req; use handle_fetch_error_ip; use handle_offset_error_ip; ip_chain. Qed.
Lemma stop_mblock_ip s r s' o : stop_mblock s = (r, s', o) -> IP s s'.
Proof. leaf_ip stop_mblock; ip_chain. Qed.
Lemma stop_rcall_ip s r s' o : stop_rcall s = (r, s', o) -> IP s s'.
Proof. leaf_ip stop_rcall; ip_chain. Qed.
Lemma stop_ccall_ip s r s' o : stop_ccall s = (r, s', o) -> IP s s'.
Proof. leaf_ip stop_ccall; ip_chain. Qed.
Lemma stop_looper_ip s r s' o : stop_looper s = (r, s', o) -> IP s s'.
Proof. leaf_ip stop_looper; ip_chain. Qed.
Lemma stop_susp_ip s r s' o : stop_susp s = (r, s', o) -> IP s s'.
Proof. leaf_ip stop_susp; ip_chain. Qed.
Lemma stop_startd_ip s r s' o : stop_startd s = (r, s', o) -> IP s s'.
Proof. leaf_ip stop_startd; ip_chain. Qed.
Lemma api_commit_ip s r s' o : api_commit s = (r, s', o) -> IP s s'.
Proof. leaf_ip api_commit; use commit_ip; ip_chain. Qed.

Section RecIP.
Variable f : nat.
Hypothesis IH : forall k s r s' o, run f k s = (r, s', o) -> IP s s'.
Ltac specs :=
  use IH; use startd_errback_ip; use handle_auto_commit_error_ip; use handle_processor_error_ip; use send_commit_request_ip;
  use commit_ip; use auto_commit_ip; use proc_chain_ip; use pop_plan_ip; use interrupted_ip; use retry_fetch_ip;
  use stop_req_ip; use stop_mblock_ip; use stop_rcall_ip; use stop_ccall_ip; use stop_looper_ip; use stop_susp_ip;
  use stop_startd_ip; use api_commit_ip;
  repeat match goal with
  | E : emit_shutd _ _ = _ |- _ => apply emit_shutd_ip in E; [| try reflexivity; match goal with |- context [match ?x with _ => _ end] => destruct x end; reflexivity]
  end.
Lemma api_stop_ip s r s' o : api_stop (run f) s = (r, s', o) -> IP s s'.
Proof. intro H. unfold api_stop in H. mi H; specs; ip_chain. Qed.
Lemma api_shutdown_ip s r s' o : api_shutdown (run f) s = (r, s', o) -> IP s s'.
Proof.
  intro H. unfold api_shutdown in H. mi H; split_state_if; specs; try (solve [ip_chain]).
  all: split; [|split]; psimpl; auto.
Qed.
Lemma handle_commit_error_ip fk i a s r s' o : handle_commit_error (run f) fk i a s = (r, s', o) -> IP s s'.
Proof. intro H. unfold handle_commit_error in H. mi H; specs; ip_chain. Qed.
Lemma fire_all_ip cr : forall ds s r s' o, fire_all (run f) ds cr s = (r, s', o) -> IP s s'.
Proof.
  induction ds as [|d ds IHds]; intros s r s' o H; cbn [fire_all] in H.
  - mi H. ip_chain.
  - mi H; specs; use IHds; ip_chain.
Qed.
Lemma finish_block_ip s r s' o : finish_block (run f) s = (r, s', o) -> IP s s'.
Proof. intro H. unfold finish_block in H. mi H; specs; ip_chain. Qed.
Lemma stop_proc_ip s r s' o : stop_proc (run f) s = (r, s', o) -> IP s s'.
Proof. intro H. unfold stop_proc in H. mi H; specs; ip_chain. Qed.
Lemma stop_creq_ip s r s' o : stop_creq (run f) s = (r, s', o) -> IP s s'.
Proof. intro H. unfold stop_creq in H. mi H; use handle_commit_error_ip; ip_chain. Qed.
Ltac specs2 := specs; use api_stop_ip; use api_shutdown_ip; use handle_commit_error_ip; use fire_all_ip; use finish_block_ip; use stop_proc_ip; use stop_creq_ip.
Lemma body_ip k s r s' o : body (run f) k s = (r, s', o) -> IP s s'.
Proof. intro H. destruct k; cbn [body] in H; mi H; specs2; ip_chain. Qed.
End RecIP.

Theorem run_ip fuel k s r s' o : run fuel k s = (r, s', o) -> IP s s'.
Proof.
  intro H. refine (run_ind (fun _ _ => True) (fun _ s _ s' _ => IP s s') _ _ fuel k s r s' o I H); clear.
  - intros k s _. apply IP_refl.
  - intros f IH k s r s' o _ H. eapply body_ip; eauto.
Qed.

Section RecSO.
Variable f : nat.
Hypothesis IH : forall k s r s' o, run f k s = (r, s', o) -> SO s s' o.

Ltac specs :=
  use IH; use startd_errback_so; use handle_auto_commit_error_so; use handle_processor_error_so; use send_commit_request_so;
  use commit_so; use auto_commit_so; use proc_chain_so; use pop_plan_so; use interrupted_so; use retry_fetch_so;
  use stop_req_so; use stop_mblock_so; use stop_rcall_so; use stop_ccall_so; use stop_looper_so; use stop_susp_so;
  use stop_startd_so; use api_commit_so;
  repeat match goal with
  | E : emit_shutd _ _ = _ |- _ => apply emit_shutd_so in E; [| try reflexivity; match goal with |- context [match ?x with _ => _ end] => destruct x end; reflexivity]
  end.

Lemma api_stop_so s r s' o : api_stop (run f) s = (r, s', o) -> SO s s' o.
Proof. intro H. unfold api_stop in H. mi H; specs; so_done. Qed.
Lemma api_shutdown_so s r s' o : api_shutdown (run f) s = (r, s', o) -> SO s s' o.
Proof.
  intro H. unfold api_shutdown in H. mi H; split_state_if.
  all: repeat match goal with E : run f _ _ = _ |- _ =>
         let Q := fresh "Q" in pose proof (run_ip _ _ _ _ _ _ E) as (_ & _ & Q); psimpl;
         specialize (Q ltac:(discriminate)); apply IH in E end.
  all: so_done.
Qed.
Lemma handle_commit_error_so fk i a s r s' o : handle_commit_error (run f) fk i a s = (r, s', o) -> SO s s' o.
Proof. intro H. unfold handle_commit_error in H. mi H; specs; so_done. Qed.
Lemma fire_all_so cr : forall ds s r s' o, fire_all (run f) ds cr s = (r, s', o) -> SO s s' o.
Proof.
  induction ds as [|d ds IHds]; intros s r s' o H; cbn [fire_all] in H.
  - mi H. so_done.
  - mi H; specs; use IHds; so_done.
Qed.
Lemma finish_block_so s r s' o : finish_block (run f) s = (r, s', o) -> SO s s' o.
Proof. intro H. unfold finish_block in H. mi H; specs; so_done. Qed.
Lemma stop_proc_so s r s' o : stop_proc (run f) s = (r, s', o) -> SO s s' o.
Proof. intro H. unfold stop_proc in H. mi H; specs; so_done. Qed.
Lemma stop_creq_so s r s' o : stop_creq (run f) s = (r, s', o) -> SO s s' o.
Proof. intro H. unfold stop_creq in H. mi H; use handle_commit_error_so; so_done. Qed.

Ltac specs2 := specs; use api_stop_so; use api_shutdown_so; use handle_commit_error_so; use fire_all_so; use finish_block_so; use stop_proc_so; use stop_creq_so.

Lemma body_so k s r s' o : body (run f) k s = (r, s', o) -> SO s s' o.
Proof.
  intro H. destruct k; cbn [body] in H; mi H; specs2; so_done.
Qed.
End RecSO.

Theorem run_so fuel k s r s' o : run fuel k s = (r, s', o) -> SO s s' o.
Proof.
  intro H. refine (run_ind (fun _ _ => True) (fun _ s _ s' o => SO s s' o) _ _ fuel k s r s' o I H); clear.
  - intros k s _. unfold SO. cbn. lia.
  - intros f IH k s r s' o _ H. eapply body_so; eauto.
Qed.


(* ---- both facts together, for executions that begin outside start() / shutdown() *)
Definition SO0 (s s' : state) (o : list output) : Prop :=
  s_inapi s = 0 -> u s' <= u s /\ u s' + count_startd o = u s /\ s_inapi s' = 0 /\ s_pend s' = s_pend s.
Lemma so0_of s s' o : SO s s' o -> IP s s' -> SO0 s s' o.
Proof.
  unfold SO, Phi, IP, SO0. intros (H1 & H2) (H3 & H4 & _) Hi. specialize (H4 Hi). rewrite H4 in H2. repeat split; try lia; congruence.
Qed.
Theorem run_so0 fuel k s r s' o : run fuel k s = (r, s', o) -> SO0 s s' o.
Proof. intro H. apply so0_of; [eapply run_so | eapply run_ip]; eauto. Qed.
