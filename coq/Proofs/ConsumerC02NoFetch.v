(* No fetch request is sent from inside a nested execution: the only senders of OFetch are start(), the offset
   replies and the refetch timer, i.e. _do_fetch, which no continuation of the model calls (they only arm the timer).
   An output-aware walk with the monitor that rejects OFetch; the state part only says that the outputs held back
   for the application (s_pend) contain no OFetch either. *)
From Coq Require Import Lia.
From AV Require Import Base.Util Model.Consumer Model.ConsumerLog Model.ConsumerLogFifo Model.ConsumerLogSeg Proofs.ConsumerC02Wp Proofs.ConsumerC02Fifo.

Definition nf_out (u : unit) (o : output) : option unit := if is_fetch_out o then None else Some tt.
Definition NP (s : state) : Prop := existsb is_fetch_out (s_pend s) = false.
Notation wn m s := (wp nf_out m (fun _ _ s' => NP s') tt s).

Lemma gouts_nf l : existsb is_fetch_out l = false -> gouts nf_out tt l = Some tt.
Proof.
  induction l as [|x l IH]; cbn [existsb gouts]; [reflexivity|]. intro H. apply orb_false_elim in H. destruct H as [H1 H2].
  unfold nf_out at 1. rewrite H1. auto.
Qed.
Lemma gouts_nf_inv l : gouts nf_out tt l = Some tt -> existsb is_fetch_out l = false.
Proof.
  induction l as [|x l IH]; cbn [existsb gouts]; [reflexivity|]. unfold nf_out at 1. destruct (is_fetch_out x); [discriminate|].
  intro H. rewrite IH; auto.
Qed.

Ltac nf_cur st :=
  lazymatch goal with
  | A : NP st |- _ => idtac
  | A : NP _ |- _ => let A' := fresh "A" in
      assert (A' : NP st) by (unfold NP in *; psimpl; rewrite ?existsb_app; cbn [existsb is_fetch_out]; rewrite ?A; reflexivity); clear A
  end.
Ltac nf_emit := lazymatch goal with |- wp _ (emit _) _ _ _ => apply wp_emit; exists tt; split; [ reflexivity | cbn beta iota ] end.
Ltac nf_flush := lazymatch goal with |- wp _ (fun s' : state => (Ok tt, s', s_pend ?s1)) _ _ _ =>
  apply wp_emits; exists tt; split; [ apply gouts_nf; match goal with A : NP s1 |- _ => exact A end | cbn beta iota ] end.
Ltac nf_call lem :=
  lazymatch goal with |- wp _ _ _ _ ?st => nf_cur st;
    eapply wp_call; [ apply lem; assumption
                    | let r := fresh "r" in intros r [] ? ?; match goal with A : NP st |- _ => clear A end; destruct r; cbn beta iota ] end.
Ltac nf_done := try solve [ match goal with A : NP _ |- NP _ =>
  unfold NP in *; psimpl; rewrite ?existsb_app; cbn [existsb is_fetch_out]; rewrite ?A; reflexivity end ].
Ltac nf_walk call := repeat (first [ nf_flush | f_stif | nf_emit | wp_step call ]).

Lemma nf_startd_errback fk s : NP s -> wn (startd_errback fk) s.
Proof. intro A. unfold startd_errback. nf_walk idtac. all: nf_done. Qed.
Ltac m1 := idtac; lazymatch goal with |- wp _ (startd_errback _) _ _ _ => nf_call nf_startd_errback end.
Lemma nf_retry_fetch z s : NP s -> wn (retry_fetch z) s.
Proof. intro A. unfold retry_fetch. nf_walk m1. all: nf_done. Qed.
Ltac m2 := idtac; first [ m1 | lazymatch goal with |- wp _ (retry_fetch _) _ _ _ => nf_call nf_retry_fetch end ].
Lemma nf_handle_offset_error fk s : NP s -> wn (handle_offset_error fk) s.
Proof. intro A. unfold handle_offset_error. nf_walk m2. all: nf_done. Qed.
Lemma nf_handle_fetch_error fk s : NP s -> wn (handle_fetch_error fk) s.
Proof. intro A. unfold handle_fetch_error. nf_walk m2. all: nf_done. Qed.
Lemma nf_handle_auto_commit_error fk s : NP s -> wn (handle_auto_commit_error fk) s.
Proof. intro A. unfold handle_auto_commit_error. nf_walk m2. all: nf_done. Qed.
Lemma nf_handle_processor_error fk s : NP s -> wn (handle_processor_error fk) s.
Proof. intro A. unfold handle_processor_error. nf_walk m2. all: nf_done. Qed.
Lemma nf_send_commit_request i a s : NP s -> wn (send_commit_request i a) s.
Proof. intro A. unfold send_commit_request. nf_walk m2. all: nf_done. Qed.
Ltac m3 := idtac; first [ m2 | lazymatch goal with
  | |- wp _ (handle_offset_error _) _ _ _ => nf_call nf_handle_offset_error
  | |- wp _ (handle_fetch_error _) _ _ _ => nf_call nf_handle_fetch_error
  | |- wp _ (handle_auto_commit_error _) _ _ _ => nf_call nf_handle_auto_commit_error
  | |- wp _ (handle_processor_error _) _ _ _ => nf_call nf_handle_processor_error
  | |- wp _ (send_commit_request _ _) _ _ _ => nf_call nf_send_commit_request end ].
Lemma nf_commit w s : NP s -> wn (commit w) s.
Proof. intro A. unfold commit. nf_walk m3. all: nf_done. Qed.
Ltac m4 := idtac; first [ m3 | lazymatch goal with |- wp _ (commit _) _ _ _ => nf_call nf_commit end ].
Lemma nf_auto_commit bc s : NP s -> wn (auto_commit bc) s.
Proof. intro A. unfold auto_commit. nf_walk m4. all: nf_done. Qed.
Ltac m5 := idtac; first [ m4 | lazymatch goal with |- wp _ (auto_commit _) _ _ _ => nf_call nf_auto_commit end ].
Lemma nf_proc_chain l fk s : NP s -> wn (proc_chain l fk) s.
Proof. intro A. unfold proc_chain. nf_walk m5. all: nf_done. Qed.
Lemma nf_emit_shutd ok v lc s : NP s -> wn (emit_shutd (OShutD ok v lc)) s.
Proof. intro A. unfold emit_shutd. nf_walk m5. all: nf_done. Qed.
Ltac m6 := idtac; first [ m5 | lazymatch goal with
  | |- wp _ (proc_chain _ _) _ _ _ => nf_call nf_proc_chain
  | |- wp _ (emit_shutd (OShutD _ _ _)) _ _ _ => nf_call nf_emit_shutd
  | |- wp _ (emit_shutd (match ?x with _ => _ end)) _ _ _ => destruct x end ].
Lemma nf_interrupted s : NP s -> wn interrupted s.
Proof. intro A. unfold interrupted. nf_walk m6. all: nf_done. Qed.
Lemma nf_pop_plan s : NP s -> wn pop_plan s.
Proof. intro A. unfold pop_plan. nf_walk m6. all: nf_done. Qed.
Lemma nf_stop_rcall s : NP s -> wn stop_rcall s.
Proof. intro A. unfold stop_rcall. nf_walk m6. all: nf_done. Qed.
Lemma nf_stop_ccall s : NP s -> wn stop_ccall s.
Proof. intro A. unfold stop_ccall. nf_walk m6. all: nf_done. Qed.
Lemma nf_stop_looper s : NP s -> wn stop_looper s.
Proof. intro A. unfold stop_looper. nf_walk m6. all: nf_done. Qed.
Lemma nf_stop_susp s : NP s -> wn stop_susp s.
Proof. intro A. unfold stop_susp. nf_walk m6. all: nf_done. Qed.
Lemma nf_stop_req s : NP s -> wn stop_req s.
Proof. intro A. unfold stop_req. nf_walk m6. all: nf_done. Qed.
Lemma nf_stop_mblock s : NP s -> wn stop_mblock s.
Proof. intro A. unfold stop_mblock. nf_walk m6. all: nf_done. Qed.
Lemma nf_stop_startd s : NP s -> wn stop_startd s.
Proof. intro A. unfold stop_startd. nf_walk m6. all: nf_done. Qed.
Lemma nf_api_commit s : NP s -> wn api_commit s.
Proof. intro A. unfold api_commit. nf_walk m6. all: nf_done. Qed.
Ltac m7 := idtac; first [ m6 | lazymatch goal with
  | |- wp _ interrupted _ _ _ => nf_call nf_interrupted
  | |- wp _ pop_plan _ _ _ => nf_call nf_pop_plan
  | |- wp _ stop_rcall _ _ _ => nf_call nf_stop_rcall
  | |- wp _ stop_ccall _ _ _ => nf_call nf_stop_ccall
  | |- wp _ stop_looper _ _ _ => nf_call nf_stop_looper
  | |- wp _ stop_susp _ _ _ => nf_call nf_stop_susp
  | |- wp _ stop_req _ _ _ => nf_call nf_stop_req
  | |- wp _ stop_mblock _ _ _ => nf_call nf_stop_mblock
  | |- wp _ stop_startd _ _ _ => nf_call nf_stop_startd
  | |- wp _ api_commit _ _ _ => nf_call nf_api_commit end ].

Section Rec.
Variable rec : kont -> M unit.
Hypothesis Hrec : forall k s, NP s -> wn (rec k) s.
Ltac m8 := idtac; first [ m7 | lazymatch goal with |- wp _ (rec _) _ _ _ => nf_call Hrec end ].

Lemma nf_handle_commit_error fk i a s : NP s -> wn (handle_commit_error rec fk i a) s.
Proof. intro A. unfold handle_commit_error. nf_walk m8. all: nf_done. Qed.
Lemma nf_fire_all ds cr s : NP s -> wn (fire_all rec ds cr) s.
Proof.
  revert s. induction ds as [|x ds IH]; intros s A; cbn [fire_all].
  - nf_walk m8. all: nf_done.
  - nf_walk m8. all: try (apply IH; assumption). all: nf_done.
Qed.
Lemma nf_finish_block s : NP s -> wn (finish_block rec) s.
Proof. intro A. unfold finish_block. nf_walk m8. all: nf_done. Qed.
Ltac m9 := idtac; first [ m8 | lazymatch goal with
  | |- wp _ (handle_commit_error _ _ _ _) _ _ _ => nf_call nf_handle_commit_error
  | |- wp _ (fire_all _ _ _) _ _ _ => nf_call nf_fire_all
  | |- wp _ (finish_block _) _ _ _ => nf_call nf_finish_block end ].
Lemma nf_stop_creq s : NP s -> wn (stop_creq rec) s.
Proof. intro A. unfold stop_creq. nf_walk m9. all: nf_done. Qed.
Lemma nf_stop_proc s : NP s -> wn (stop_proc rec) s.
Proof. intro A. unfold stop_proc. nf_walk m9. all: nf_done. Qed.
Lemma nf_api_stop s : NP s -> wn (api_stop rec) s.
Proof. intro A. unfold api_stop. nf_walk m9. all: nf_done. Qed.
Lemma nf_api_shutdown s : NP s -> wn (api_shutdown rec) s.
Proof.
  intro A. unfold api_shutdown. apply wp_bind, wp_get. cbn beta iota.
  destruct (negb (is_some (s_startd s)) || s_shutd s) eqn:SH0.
  - nf_walk m9. all: nf_done.
  - apply wp_bind, wp_upd. cbn beta iota.
    match goal with |- wp _ _ _ _ ?x => set (s2 := x) end.
    assert (A2 : NP s2) by (subst s2; destruct (s_maxatt s =? 0); unfold NP in *; psimpl; reflexivity).
    clearbody s2.
    apply wp_bind, wp_try.
    eapply wp_call with (Q0 := fun _ _ s3 => NP s3).
    { destruct (s_proc s) as [[[l rs] c]|].
      - apply wp_upd. unfold NP in *; psimpl; exact A2.
      - apply Hrec. exact A2. }
    intros r3 [] s3 A3. cbn beta iota. apply wp_bind, wp_get. cbn beta iota. apply wp_bind, wp_upd. cbn beta iota.
    match goal with |- wp _ _ _ _ ?x => set (s4 := x) end.
    assert (A4 : NP s4) by (subst s4; unfold NP in *; psimpl; exact A).
    clearbody s4.
    destruct r3.
    + apply wp_bind. apply wp_emits. exists tt. split; [ apply gouts_nf; exact A3 |]. cbn beta iota. nf_emit. exact A4.
    + nf_emit. exact A4.
Qed.
Ltac m10 := idtac; first [ m9 | lazymatch goal with
  | |- wp _ (stop_creq _) _ _ _ => nf_call nf_stop_creq
  | |- wp _ (stop_proc _) _ _ _ => nf_call nf_stop_proc
  | |- wp _ (api_stop _) _ _ _ => nf_call nf_api_stop
  | |- wp _ (api_shutdown _) _ _ _ => nf_call nf_api_shutdown end ].

Lemma nf_body k s : NP s -> wn (body rec k) s.
Proof.
  intro A. destruct k; cbn [body].
  - nf_walk m10. all: nf_done.
  - nf_walk m10. all: nf_done.
  - nf_walk m10. all: nf_done.
  - nf_walk m10. all: nf_done.
  - nf_walk m10. all: nf_done.
  - nf_walk m10. all: nf_done.
  - nf_walk m10. all: nf_done.
  - nf_walk m10. all: nf_done.
  - nf_walk m10. all: nf_done.
Qed.
End Rec.

Lemma nf_run fuel : forall k s, NP s -> wn (run fuel k) s.
Proof.
  induction fuel as [|f IH]; intros k s A; cbn [run].
  - intros r s' o E F. unfold bind, emit, raise in E. inversion E; subst. discriminate.
  - apply nf_body; assumption.
Qed.

(* ---- events: every handler except the three that call _do_fetch ---- *)
Lemma nf_handle fuel e s : NP s -> fetching_ev e s = false -> wn (handle fuel e) s.
Proof.
  intros A Q. pose proof (nf_run fuel) as Hrec. unfold handle. cbn zeta. apply wp_bind, wp_get. cbn beta iota.
  destruct e; cbn [fetching_ev] in Q.
  - unfold is_none in Q. destruct (s_startd s); [| discriminate Q]. nf_emit. exact A.
  - apply (nf_api_stop _ Hrec). exact A.
  - apply (nf_api_shutdown _ Hrec). exact A.
  - apply nf_api_commit. exact A.
  - unfold offset_accepted in Q. destruct (s_req s) as [[kd []]|]; try (nf_emit; exact A). rewrite Q. nf_emit. exact A.
  - nf_walk ltac:(idtac; first [ m7 | lazymatch goal with |- wp _ (run _ _) _ _ _ => nf_call Hrec end ]). all: nf_done.
  - nf_walk m7. all: nf_done.
  - apply wp_upd. exact A.
  - nf_walk ltac:(idtac; first [ m7 | lazymatch goal with |- wp _ (run _ _) _ _ _ => nf_call Hrec end ]). all: nf_done.
  - nf_walk ltac:(idtac; first [ m7 | lazymatch goal with |- wp _ (run _ _) _ _ _ => nf_call Hrec end ]). all: nf_done.
  - destruct (s_creq s) as [[[? ?] ?]|]; [| nf_emit; exact A ].
    apply wp_bind, wp_upd. cbn beta iota. apply wp_swallow.
    eapply wp_conseq; [ apply (nf_handle_commit_error _ Hrec); unfold NP in *; psimpl; exact A | auto ].
  - unfold rcall_active in Q. destruct (s_rcall s) as [st|]; [| nf_emit; exact A ]. rewrite Q. nf_emit. exact A.
  - nf_walk m7. all: nf_done.
  - nf_walk m7. all: nf_done.
Qed.

(* in terms of the outputs of a step *)
Lemma step_no_fetch fuel s e s' o : s_pend s = [] -> fetching_ev e s = false -> step fuel s e = (s', o) -> fuel_ok o = true ->
  existsb is_fetch_out o = false.
Proof.
  intros P Q E F. unfold step in E.
  destruct ((handle fuel e;;; s'0 <- get;; emit (OEnd (s_lp s'0) (s_lc s'0))) s) as [[r s1] o1] eqn:E1.
  inversion E; subst s1 o1; clear E.
  assert (A : NP s) by (unfold NP; rewrite P; reflexivity).
  assert (W : wp nf_out (handle fuel e;;; s'0 <- get;; emit (OEnd (s_lp s'0) (s_lc s'0))) (fun _ _ _ => True) tt s).
  { apply wp_bind. eapply wp_call; [ apply nf_handle; assumption |].
    intros r0 [] s0 _. destruct r0; cbn beta iota; [| exact I].
    apply wp_bind, wp_get. cbn beta iota. nf_emit. exact I. }
  destruct (W _ _ _ E1 F) as ([] & Hg & _). apply gouts_nf_inv. exact Hg.
Qed.
