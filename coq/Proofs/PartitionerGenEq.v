(* The text generated from HashedPartitioner.partition/_hash and RoundRobinPartitioner.__init__/_set_partitions/partition
   (Model/PartitionerGen.v: committed snapshot of harness/py2part.py for /repo) equals the hand-written model. *)
From AV Require Import Base.Util Model.Murmur Model.Partitioner Model.PartitionerPy Model.PartitionerGen Proofs.PartitionerFacts Proofs.PartitionerGenTac.

Theorem gen_hashed_eq : forall key parts, gen_hashed_partition key parts = spec_hashed key parts.
Proof. gen_hashed_tac. Qed.

(* constructor: the object state is the hand model's rr_set, the start being what randint returned (0 if randomStart is off) *)
Theorem gen_rr_init_eq : forall flag r parts, parts <> [] ->
  gen_rr_init flag r tt parts = match rr_set parts (eff flag r) with Some s => POk (st_of s) | None => PErr PStop end.
Proof. gen_rr_init_tac. Qed.

(* one call of partition(): the hand model's step rr_partition on the corresponding state *)
Theorem gen_rr_partition_eq : forall flag r s key parts, parts <> [] ->
  gen_rr_partition flag r (st_of s) key parts =
  match rr_partition s parts (eff flag r) with Some (p, s') => POk (p, st_of s') | None => PErr PStop end.
Proof. gen_rr_partition_tac. Qed.
