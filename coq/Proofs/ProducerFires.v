(* Every accepted send eventually fires (composite progress): C19's batching rules (a queued send joins a batch at the
   first tick with no batch in flight, or when a threshold is met) chained with the bounded progress of the batch in
   flight (Proofs/ProducerProgress.v), as one potential argument over honest runs. *)
From AV Require Import Base.Util Model.Producer Proofs.ProducerBase Proofs.ProducerInv Proofs.ProducerC19 Proofs.ProducerC09
  Proofs.ProducerProgress.
From Coq Require Import Lia.

Ltac nonstop H s1 o1 ep o2 C A E :=
  match type of H with step _ _ ?e = _ =>
    let NE := fresh "NE" in assert (NE : forall cv, e <> EStop cv) by (intros ? X; discriminate X);
    destruct (step_nonstop _ _ _ _ _ NE H) as (s1 & o1 & ep & o2 & C & A & E) end.

(* a batch in flight after a step is either the old one, not ended, or was dispatched in this step - and a dispatch
   takes the whole queue *)
Lemma flight_after : forall c s e s' out, Inv s -> step c s e = (s', out) -> ph s' <> Idle ->
  queue s' = [] \/ (ph s <> Idle /\ ~ In OBatchDone out).
Proof.
  intros c s e s' out I H NI'. pose proof I as [W L]. pose proof W as [IB PW ID ST].
  destruct (batch_event e) eqn:BE.
  - destruct (step_nonstop c s e s' out) as (s1 & o1 & ep & o2 & C & A & ->); auto. { intros ? ->; discriminate. }
    apply core_batch in C as [(-> & -> & ->)|(NI & done & BS & ->)]; auto;
      try apply (i_onodup _ _ IB); try apply (i_bnodup _ _ IB).
    + simpl in A. inv A. right. split; [exact NI'|intros []].
    + pose proof (bs_ng _ _ _ _ _ BS) as G1.
      destruct done; simpl in A.
      * unfold finish, finish0 in A. destruct (check_send_batch c _) as [s4 o4] eqn:E. inv A.
        apply check_send_batch_spec in E as [(_ & _ & D)|(_ & -> & ->)].
        -- apply dispatch_spec in D as (Q & _). auto.
        -- exfalso. apply NI'. reflexivity.
      * inv A. right. split; [exact NI|]. rewrite app_nil_r. intro X. eapply no_ghost_not_done; eauto.
  - assert (NB : forall s1 o1 ep o2, core c s e = (s1, o1, ep) -> apply_epi c s1 ep = (s', o2) -> out = o1 ++ o2 ->
                 ph s1 = ph s -> no_ghost o1 -> ep <> Fin -> queue s' = [] \/ (ph s <> Idle /\ ~ In OBatchDone out)).
    { intros s1 o1 ep o2 C A -> P G NF.
      assert (T : forall st o, try_send_batch c st = (s', o) -> queue s' = [] \/ (s' = st /\ o = [])).
      { intros st o X. apply try_send_batch_spec in X as [[_ D]|(_ & -> & ->)]; auto. apply dispatch_spec in D as (Q & _). auto. }
      assert (Ck : forall st o, check_send_batch c st = (s', o) -> queue s' = [] \/ (s' = st /\ o = [])).
      { intros st o X. apply check_send_batch_spec in X as [(_ & _ & D)|(_ & -> & ->)]; auto. apply dispatch_spec in D as (Q & _). auto. }
      assert (R : queue s' = [] \/ (s' = s1 /\ o2 = [])).
      { destruct ep; simpl in A; [inv A; auto | contradiction | apply Ck in A; exact A | apply T in A; exact A]. }
      destruct R as [Q|[-> ->]]; auto. right. rewrite <- P. split; [exact NI'|]. rewrite app_nil_r. intro X. eapply no_ghost_not_done; eauto. }
    destruct e; try discriminate.
    + nonstop H s1 o1 ep o2 C A E.
      pose proof C as C0. cbn [core] in C.
      destruct ((cnt <? 1) || (bytes <? 0)); [|destruct (stopping s)]; inv C; eapply NB; eauto; try reflexivity; try discriminate; repeat constructor.
    + nonstop H s1 o1 ep o2 C A E.
      pose proof C as C0. cbn [core] in C. inv C. eapply NB; eauto; try reflexivity; try discriminate; repeat constructor.
    + nonstop H s1 o1 ep o2 C A E.
      pose proof C as C0. cbn [core] in C. destruct (cancel_send s sid) as [s2 o3] eqn:Ec. inv C.
      pose proof Ec as Ec0. apply cancel_send_spec in Ec as (OO & K & _).
      eapply NB; eauto; try discriminate. auto with prod.
    + nonstop H s1 o1 ep o2 C A E.
      pose proof C as C0. cbn [core] in C. inv C. eapply NB; eauto; try reflexivity; try constructor. destruct (looper s1); discriminate.
    + nonstop H s1 o1 ep o2 C A E.
      pose proof C as C0. cbn [core] in C. inv C. eapply NB; eauto; try reflexivity; try discriminate; constructor.
    + nonstop H s1 o1 ep o2 C A E.
      pose proof C as C0. cbn [core] in C. inv C. eapply NB; eauto; try reflexivity; try discriminate; constructor.
    + nonstop H s1 o1 ep o2 C A E.
      pose proof C as C0. cbn [core] in C. inv C. eapply NB; eauto; try reflexivity; try discriminate; constructor.
    + apply stop_step_spec in H; auto. destruct H as [_ _ (_ & _ & P) _ _]. exfalso. apply NI'. exact P.
Qed.

(* ------------------------------------------------------------------ the potential of one send *)
Definition idleb (s : state) : bool := match ph s with Idle => true | _ => false end.
Definition nonemptyb {A} (l : list A) : bool := match l with [] => false | _ => true end.
(* what the environment owes: the events the batch in flight waits for, and - with nothing in flight and sends
   waiting - the tick of the time limit *)
Definition owed2 (c : cfg) (s : state) (e : event) : bool :=
  owed c s e || match e with ETick => looper s && idleb s && nonemptyb (queue s) | _ => false end.

Definition pot (c : cfg) (B : Z) (i : Z) (s : state) : Z :=
  if in_dec Z.eq_dec i (ids (queue s)) then (if idleb s then 1 + B else mu c s + 1 + B)
  else if in_dec Z.eq_dec i (ids (batch_sends (ph s))) then mu c s else 0.

Lemma idleb_true s : idleb s = true -> ph s = Idle.
Proof. unfold idleb. destruct (ph s); try discriminate; auto. Qed.
Lemma idleb_false s : idleb s = false -> ph s <> Idle.
Proof. unfold idleb. destruct (ph s); try discriminate; intros _ X; discriminate X. Qed.

Lemma pot_step : forall c B i s e s' out,
  Inv s -> PInv c s -> PInv c s' -> broken s = false -> hon_ev e = true -> step c s e = (s', out) ->
  (ph s' <> Idle -> mu c s' <= B) -> 0 <= B ->
  In i (ids (queue s)) \/ In i (ids (batch_sends (ph s))) ->
  In i (ids (queue s')) \/ In i (ids (batch_sends (ph s'))) ->
  pot c B i s' + (if owed2 c s e then 1 else 0) <= pot c B i s.
Proof.
  intros c B i s e s' out I P P' BK HE H HB B0 LV LV'. pose proof I as [W L]. pose proof W as [IB PW ID ST].
  assert (MP : forall st, PInv c st -> ph st <> Idle -> 1 <= mu c st) by (intros st Pst N; apply mu_pos; [exact N | apply pinv_retry_lt; exact Pst]).
  assert (POT' : pot c B i s' <= (if in_dec Z.eq_dec i (ids (queue s')) then (if idleb s' then 1 + B else mu c s' + 1 + B) else mu c s')).
  { unfold pot. destruct (in_dec Z.eq_dec i (ids (queue s'))); [lia|]. destruct (in_dec Z.eq_dec i (ids (batch_sends (ph s')))); [lia|].
    destruct LV'; contradiction. }
  unfold pot at 2. destruct (in_dec Z.eq_dec i (ids (queue s))) as [Q|NQ].
  - (* queued *)
    destruct (idleb s) eqn:IDs.
    + (* nothing in flight *)
      apply idleb_true in IDs.
      assert (OW : owed c s e = false) by (unfold owed; rewrite IDs; reflexivity).
      unfold owed2. rewrite OW. cbn [orb].
      destruct (in_dec Z.eq_dec i (ids (queue s'))) as [Q'|NQ'].
      * (* still queued: nothing was dispatched *)
        assert (ID' : idleb s' = true).
        { destruct (idleb s') eqn:X; auto. apply idleb_false in X.
          destruct (flight_after _ _ _ _ _ I H X) as [E|[N _]]; [rewrite E in Q'; destruct Q' | congruence]. }
        assert (TK : match e with ETick => looper s && idleb s && nonemptyb (queue s) | _ => false end = false).
        { destruct e; auto. destruct (looper s) eqn:LP; auto. cbn [andb].
          destruct (tick_flushes _ _ _ _ I LP IDs H) as [E _]. rewrite E in Q'. destruct Q'. }
        rewrite TK. unfold pot. destruct (in_dec Z.eq_dec i (ids (queue s'))); [|contradiction]. rewrite ID'. lia.
      * (* it is in the batch just dispatched *)
        assert (N' : ph s' <> Idle).
        { intro X. destruct LV' as [X1|X1]; [contradiction|]. rewrite X in X1. destruct X1. }
        specialize (HB N'). destruct (match e with ETick => _ | _ => false end); lia.
    + (* a batch is in flight *)
      apply idleb_false in IDs.
      assert (OW2 : owed2 c s e = owed c s e).
      { unfold owed2. destruct e; rewrite ?orb_false_r; auto. unfold idleb. destruct (ph s); try congruence; rewrite ?andb_false_r; cbn; rewrite orb_false_r; reflexivity. }
      rewrite OW2.
      destruct (progress_step _ _ _ _ _ I P BK IDs HE H) as [D|[N' M]].
      * (* the batch ends *)
        pose proof (MP s P IDs).
        destruct (in_dec Z.eq_dec i (ids (queue s'))) as [Q'|NQ'].
        -- assert (ID' : idleb s' = true).
           { destruct (idleb s') eqn:X; auto. apply idleb_false in X.
             destruct (flight_after _ _ _ _ _ I H X) as [E|[_ N]]; [rewrite E in Q'; destruct Q' | contradiction]. }
           rewrite ID' in POT'. destruct (owed c s e); lia.
        -- assert (N' : ph s' <> Idle).
           { intro X. destruct LV' as [X1|X1]; [contradiction|]. rewrite X in X1. destruct X1. }
           specialize (HB N'). destruct (owed c s e); lia.
      * destruct (in_dec Z.eq_dec i (ids (queue s'))) as [Q'|NQ'].
        -- assert (ID' : idleb s' = false) by (unfold idleb; destruct (ph s'); congruence).
           rewrite ID' in POT'. lia.
        -- lia.
  - (* in the batch in flight *)
    destruct LV as [LV|LV]; [contradiction|].
    destruct (in_dec Z.eq_dec i (ids (batch_sends (ph s)))) as [_|X]; [|contradiction].
    assert (NI : ph s <> Idle) by (intro X; rewrite X in LV; destruct LV).
    assert (OW2 : owed2 c s e = owed c s e).
    { unfold owed2. destruct e; rewrite ?orb_false_r; auto. unfold idleb. destruct (ph s); try congruence; rewrite ?andb_false_r; cbn; rewrite orb_false_r; reflexivity. }
    rewrite OW2.
    assert (LT : i < nsend s).
    { pose proof (i_bbound _ _ IB) as Bd. rewrite Forall_forall in Bd. destruct (Bd i LV) as [_ X]. exact X. }
    assert (NEW : ~ In i (new_sids s e)) by (destruct e; simpl; try tauto; intros [X|[]]; lia).
    assert (NQ' : ~ In i (ids (queue s'))).
    { intro X. apply (queue_step _ _ _ _ _ I H) in X. apply in_app_or in X. destruct X as [X|X]; auto. }
    destruct (progress_step _ _ _ _ _ I P BK NI HE H) as [D|[N' M]].
    + (* the batch ends: every send of it is gone *)
      exfalso. assert (X : In i (pool s')) by (unfold pool; apply in_or_app; destruct LV' as [X|X]; auto).
      apply (done_pool _ _ _ _ _ I NI H D) in X. apply in_app_or in X. destruct X as [X|X]; auto.
    + destruct (in_dec Z.eq_dec i (ids (queue s'))); [contradiction|]. lia.
Qed.

(* ------------------------------------------------------------------ along honest runs from the initial state *)
From AV Require Proofs.ProducerC01Spec Proofs.ProducerC01Lists Proofs.ProducerC01Batch Proofs.ProducerC01Thm.

Lemma nodup_bounded_length (l : list Z) n : 0 <= n -> NoDup l -> Forall (fun i => 0 <= i < n) l -> Z.of_nat (length l) <= n.
Proof.
  intros Hn ND F.
  assert (N2 : NoDup (map Z.to_nat l)).
  { clear Hn. induction l as [|a r IHl]; simpl; [constructor|]. inversion ND; subst. inversion F; subst.
    constructor; [|apply IHl; auto]. intro X. apply in_map_iff in X as (b & E & Hb).
    rewrite Forall_forall in H4. pose proof (H4 b Hb). assert (b = a) by lia. subst. contradiction. }
  assert (IN : incl (map Z.to_nat l) (seq 0 (Z.to_nat n))).
  { intros k Hk. apply in_map_iff in Hk as (z & <- & Hz). rewrite Forall_forall in F. pose proof (F z Hz). apply in_seq. lia. }
  pose proof (NoDup_incl_length N2 IN) as LE. rewrite map_length, seq_length in LE. lia.
Qed.

Lemma mu_bound_mono c n n' : n <= n' -> mu_bound c n <= mu_bound c n'.
Proof. unfold mu_bound. intro H. nia. Qed.
Lemma mu_bound_nonneg c n : 0 <= n -> 0 <= mu_bound c n.
Proof. unfold mu_bound. intro H. nia. Qed.

Lemma mu_le_nsend c s : Inv s -> PInv c s -> mu c s <= mu_bound c (nsend s).
Proof.
  intros I P. eapply Z.le_trans; [apply mu_bounded; auto|]. apply mu_bound_mono.
  destruct I as [[IB _ _ _] _]. rewrite <- (map_length s_id). apply nodup_bounded_length.
  - apply (i_nsend _ _ IB).
  - apply (i_bnodup _ _ IB).
  - exact (i_bbound _ _ IB).
Qed.

Fixpoint count_owed2 (c : cfg) (s : state) (evs : list event) : Z :=
  match evs with
  | [] => 0
  | e :: r => (if owed2 c s e then 1 else 0) + count_owed2 c (fst (step c s e)) r
  end.

Section Fires.
Variables (c : cfg) (has_t : bool) (api0 : Z) (cache0 : list (Z * (Z * bool))).
Let s0 := init_state has_t api0 cache0.

(* an accepted send that has not fired is queued or in the batch in flight *)
Lemma live_of evs s tr x : ProducerC01Spec.honest evs -> run c s0 evs = (s, tr) ->
  In x (ProducerC01Spec.accepted 0 evs) -> ~ In (s_id x) (ProducerC01Spec.fired tr) ->
  In (s_id x) (ids (queue s)) \/ In (s_id x) (ids (batch_sends (ph s))).
Proof.
  intros HN H X NF. pose proof (ProducerC01Thm.run_inv _ _ _ _ _ _ _ HN H) as R.
  destruct (ProducerC01Thm.i_all _ _ _ _ R x X) as [O|O]; [|contradiction].
  apply (ProducerC01Thm.i_live _ _ _ _ R) in O as (y & Y & E). rewrite <- E.
  unfold ProducerC01Batch.live in Y. apply in_app_or in Y. destruct Y as [Y|Y]; [left|right]; apply in_map; exact Y.
Qed.

Lemma fires_run : forall evs2 evs1 s1 tr1 s2 tr2 x N,
  ProducerC01Spec.honest (evs1 ++ evs2) -> run c s0 evs1 = (s1, tr1) -> run c s1 evs2 = (s2, tr2) ->
  In x (ProducerC01Spec.accepted 0 evs1) -> ProducerC01Spec.nids (evs1 ++ evs2) <= N ->
  ~ In (s_id x) (ProducerC01Spec.fired (tr1 ++ tr2)) ->
  pot c (mu_bound c N) (s_id x) s2 + count_owed2 c s1 evs2 <= pot c (mu_bound c N) (s_id x) s1.
Proof.
  induction evs2 as [|e r IH]; intros evs1 s1 tr1 s2 tr2 x N HN H1 H2 X NN NF.
  - simpl in H2. inv H2. simpl. lia.
  - simpl in H2. destruct (step c s1 e) as [sa o] eqn:E. destruct (run c sa r) as [sb tb] eqn:E2.
    injection H2 as E3 E4; subst s2 tr2.
    cbn [count_owed2]. rewrite E. cbn [fst].
    assert (HN1 : ProducerC01Spec.honest (evs1 ++ [e])).
    { apply Forall_app in HN as [A B]. apply Forall_app. split; auto. inversion B; subst. constructor; auto. }
    assert (H1' : run c s0 (evs1 ++ [e]) = (sa, tr1 ++ [(e, o)])).
    { rewrite ProducerC01Thm.run_snoc. fold s0. rewrite H1, E. reflexivity. }
    assert (EQ : (evs1 ++ [e]) ++ r = evs1 ++ e :: r) by (rewrite <- app_assoc; reflexivity).
    assert (EQt : (tr1 ++ [(e, o)]) ++ tb = tr1 ++ (e, o) :: tb) by (rewrite <- app_assoc; reflexivity).
    assert (HNa : ProducerC01Spec.honest evs1) by (apply Forall_app in HN; tauto).
    assert (HE : hon_ev e = true) by (apply Forall_app in HN as [_ B]; inversion B; subst; assumption).
    assert (R1 : reachable c s1) by (exists has_t, api0, cache0, evs1; fold s0; rewrite H1; reflexivity).
    assert (Ra : reachable c sa) by (exists has_t, api0, cache0, (evs1 ++ [e]); fold s0; rewrite H1'; reflexivity).
    pose proof (reachable_inv _ _ R1) as I1. pose proof (pinv_reachable _ _ R1) as P1.
    pose proof (reachable_inv _ _ Ra) as Ia. pose proof (pinv_reachable _ _ Ra) as Pa.
    pose proof (ProducerC01Thm.run_inv _ _ _ _ _ _ _ HNa H1) as C1.
    pose proof (ProducerC01Thm.run_inv _ _ _ _ _ _ _ HN1 H1') as Ca.
    assert (NF1 : ~ In (s_id x) (ProducerC01Spec.fired tr1)).
    { intro F. apply NF. unfold ProducerC01Spec.fired, ProducerC01Spec.outs_of in *. rewrite flat_map_app, ProducerC01Lists.oids_app. apply in_or_app; auto. }
    assert (NFa : ~ In (s_id x) (ProducerC01Spec.fired (tr1 ++ [(e, o)]))).
    { intro F. apply NF. rewrite <- EQt. unfold ProducerC01Spec.fired, ProducerC01Spec.outs_of in *.
      rewrite flat_map_app, ProducerC01Lists.oids_app. apply in_or_app; auto. }
    assert (Xa : In x (ProducerC01Spec.accepted 0 (evs1 ++ [e]))) by (rewrite ProducerC01Lists.accepted_app; apply in_or_app; auto).
    assert (ST : pot c (mu_bound c N) (s_id x) sa + (if owed2 c s1 e then 1 else 0) <= pot c (mu_bound c N) (s_id x) s1).
    { eapply pot_step; eauto.
      - exact (ProducerC01Thm.i_ok _ _ _ _ C1).
      - intros _. eapply Z.le_trans; [apply mu_le_nsend; auto|]. apply mu_bound_mono.
        rewrite (ProducerC01Thm.i_nsend _ _ _ _ Ca). rewrite <- EQ in NN. rewrite ProducerC01Lists.nids_app in NN.
        pose proof (ProducerC01Lists.nids_nonneg r). lia.
      - apply mu_bound_nonneg. pose proof (ProducerC01Lists.nids_nonneg (evs1 ++ e :: r)). lia.
      - apply (live_of _ _ _ x HNa H1 X NF1).
      - apply (live_of _ _ _ x HN1 H1' Xa NFa). }
    specialize (IH (evs1 ++ [e]) sa (tr1 ++ [(e, o)]) sb tb x N).
    rewrite EQ, EQt in IH. specialize (IH HN H1' E2 Xa NN NF). lia.
Qed.

(* Every accepted send eventually fires.  For every honest run, every send x accepted in it and every continuation:
   x has fired, or the environment has so far delivered fewer than 2 * mu_bound c N + 2 of the events it owed (N = the
   number of sends of the whole run; count_owed2 counts the events that were owed in the state they arrived in:
   what the batch in flight waits for and, with nothing in flight and sends waiting, the tick of the time limit). *)
Theorem send_eventually_fires : forall evs1 evs2 s1 tr1 s2 tr2 x,
  ProducerC01Spec.honest (evs1 ++ evs2) -> run c s0 evs1 = (s1, tr1) -> run c s1 evs2 = (s2, tr2) ->
  In x (ProducerC01Spec.accepted 0 evs1) ->
  In (s_id x) (ProducerC01Spec.fired (tr1 ++ tr2)) \/
  count_owed2 c s1 evs2 < 2 * mu_bound c (ProducerC01Spec.nids (evs1 ++ evs2)) + 2.
Proof.
  intros evs1 evs2 s1 tr1 s2 tr2 x HN H1 H2 X.
  destruct (in_dec Z.eq_dec (s_id x) (ProducerC01Spec.fired (tr1 ++ tr2))) as [F|NF]; [left; exact F|right].
  set (N := ProducerC01Spec.nids (evs1 ++ evs2)). set (B := mu_bound c N).
  pose proof (fires_run evs2 evs1 s1 tr1 s2 tr2 x N HN H1 H2 X (Z.le_refl _) NF) as M. fold B in M.
  assert (H : run c s0 (evs1 ++ evs2) = (s2, tr1 ++ tr2)) by (rewrite run_app; fold s0; rewrite H1, H2; reflexivity).
  assert (R1 : reachable c s1) by (exists has_t, api0, cache0, evs1; fold s0; rewrite H1; reflexivity).
  assert (R2 : reachable c s2) by (exists has_t, api0, cache0, (evs1 ++ evs2); fold s0; rewrite H; reflexivity).
  pose proof (reachable_inv _ _ R1) as I1. pose proof (pinv_reachable _ _ R1) as P1.
  pose proof (reachable_inv _ _ R2) as I2. pose proof (pinv_reachable _ _ R2) as P2.
  assert (B0 : 0 <= B) by (apply mu_bound_nonneg; apply ProducerC01Lists.nids_nonneg).
  assert (X2 : In x (ProducerC01Spec.accepted 0 (evs1 ++ evs2))) by (rewrite ProducerC01Lists.accepted_app; apply in_or_app; auto).
  (* at the end x is still held: its potential is at least 1 *)
  assert (LO : 1 <= pot c B (s_id x) s2).
  { destruct (live_of _ _ _ x HN H X2 NF) as [Q|Bt]; unfold pot.
    - destruct (in_dec Z.eq_dec (s_id x) (ids (queue s2))); [|contradiction].
      destruct (idleb s2) eqn:ID; [lia|]. apply idleb_false in ID.
      pose proof (mu_pos c s2 ID (pinv_retry_lt c s2 P2)). lia.
    - assert (NI : ph s2 <> Idle) by (intro E; rewrite E in Bt; destruct Bt).
      pose proof (mu_pos c s2 NI (pinv_retry_lt c s2 P2)).
      destruct (in_dec Z.eq_dec (s_id x) (ids (queue s2))); [destruct (idleb s2); lia|].
      destruct (in_dec Z.eq_dec (s_id x) (ids (batch_sends (ph s2)))); [lia | contradiction]. }
  (* at the start it is at most 2 B + 1 *)
  assert (HI : pot c B (s_id x) s1 <= 2 * B + 1).
  { assert (MB : mu c s1 <= B).
    { eapply Z.le_trans; [apply mu_le_nsend; auto|]. apply mu_bound_mono.
      assert (HNa : ProducerC01Spec.honest evs1) by (apply Forall_app in HN; tauto).
      rewrite (ProducerC01Thm.i_nsend _ _ _ _ (ProducerC01Thm.run_inv _ _ _ _ _ _ _ HNa H1)).
      unfold N. rewrite ProducerC01Lists.nids_app. pose proof (ProducerC01Lists.nids_nonneg evs2). lia. }
    unfold pot. destruct (in_dec Z.eq_dec (s_id x) (ids (queue s1))); [destruct (idleb s1); lia|].
    destruct (in_dec Z.eq_dec (s_id x) (ids (batch_sends (ph s1)))); lia. }
  lia.
Qed.

(* ... and while a send is held something is owed, provided a time limit is configured: a batch in flight always waits
   for an event the environment can deliver (no_deadlock), and with nothing in flight the tick of the time limit is
   owed.  WITHOUT a time limit a send queued below the thresholds waits for further sends: nothing is owed then. *)
Theorem held_send_is_owed : forall evs s tr x, ProducerC01Spec.honest evs -> run c s0 evs = (s, tr) ->
  In x (ProducerC01Spec.accepted 0 evs) -> ~ In (s_id x) (ProducerC01Spec.fired tr) -> has_t = true -> stopping s = false ->
  exists e, owed2 c s e = true /\ ProducerC01Spec.honest_ev e = true.
Proof.
  intros evs s tr x HN H X NF HT ST.
  assert (R : reachable c s) by (exists has_t, api0, cache0, evs; fold s0; rewrite H; reflexivity).
  pose proof (reachable_inv _ _ R) as I.
  destruct (phase_eq_idle (ph s)) as [PI|PI].
  - exists ETick. split; [|reflexivity].
    destruct (live_of _ _ _ x HN H X NF) as [Q|Bt]; [| rewrite PI in Bt; destruct Bt ].
    pose proof (looper_until_stop _ _ _ _ _ _ _ H ST) as LP. unfold owed2, idleb. rewrite PI, LP, HT.
    destruct (queue s); [destruct Q|]. rewrite orb_true_r. reflexivity.
  - destruct (owed_exists c s I (reachable_lk _ _ R) PI) as (e & O & HE). exists e. unfold owed2. rewrite O. auto.
Qed.
End Fires.
