(* C11's last sentence at client level: with disconnect_on_timeout the timeout of a request on a connected broker client
   asks for the connection to be dropped; after the loss notification and the next connection-up of that broker client
   exactly its other unresolved requests are written again, in issue order (lifting M7's re-send, Props/C10.v). *)
From AV Require Import Base.Util Proofs.UtilFacts Model.Framing Proofs.FramingFacts
  Proofs.BrokerClientTbl Proofs.BrokerClientInv Proofs.BrokerClientC06 Proofs.BrokerClientC10.
From AV Require Model.BrokerClient.
From AV Require Import Model.ClientReq Proofs.ClientReqBase Proofs.ClientReqStep Proofs.ClientReqC11 Proofs.ClientReqC11d.
From Coq Require Import Lia.

Definition cwrites (os : list output) : list (nat * Z) :=
  flat_map (fun o => match o with OWrite i rid => [(i, rid)] | _ => [] end) os.

(* the requests of a table that are still waiting for a reply, except handle h *)
Definition others (h : nat) (r : BrokerClient.req) : bool := live r && negb (Nat.eqb (BrokerClient.r_h r) h).

Lemma filter_live_upd rid : forall rs,
  filter live (BrokerClient.upd rid BrokerClient.set_cancelled rs) = filter (fun r => live r && negb (BrokerClient.r_id r =? rid)) rs.
Proof.
  unfold BrokerClient.upd. induction rs as [|x rs IH]; cbn [map filter]; [reflexivity|].
  destruct (BrokerClient.r_id x =? rid) eqn:E; cbn [negb]; rewrite ?andb_false_r, ?andb_true_r.
  - unfold live at 1. cbn. exact IH.
  - destruct (live x); rewrite IH; reflexivity.
Qed.

Section ProcWrites.
Variable succ : cstate -> nat -> list Z -> cstate * list output.
Lemma proc_writes : forall (rs : list BrokerClient.req) C i,
  proc succ C i (map (fun r => BrokerClient.OWrite (BrokerClient.r_h r) (BrokerClient.r_id r)) rs)
  = (C, map (fun r => OWrite i (BrokerClient.r_id r)) rs).
Proof. induction rs as [|r rs IH]; intros C i; cbn [map proc tr_out]; [reflexivity|]. rewrite IH. reflexivity. Qed.
End ProcWrites.

Lemma sq_outs_expect rs : Forall (fun r => BrokerClient.r_expect r = true) rs ->
  sq_outs rs = map (fun r => BrokerClient.OWrite (BrokerClient.r_h r) (BrokerClient.r_id r)) rs.
Proof.
  unfold sq_outs. induction 1 as [|r rs E _ IH]; cbn [flat_map map]; [reflexivity|]. rewrite E, IH. reflexivity.
Qed.

Lemma cwrites_map i (rs : list BrokerClient.req) :
  cwrites (map (fun r => OWrite i (BrokerClient.r_id r)) rs) = map (fun r => (i, BrokerClient.r_id r)) rs.
Proof. induction rs as [|r rs IH]; cbn; [reflexivity | rewrite <- IH; reflexivity]. Qed.

(* ------------------------------------------------------------------ M7: cancel a written request, lose the connection, connect *)
Lemma m7_drop_resend s h s1 : CInv s -> BrokerClient.s_proto s = true -> BrokerClient.s_down s = BrokerClient.DNone ->
  (h < length (sdlog s))%nat -> ~ sfired s h ->
  BrokerClient.step s (BrokerClient.ECancel h) = (s1, [BrokerClient.ODef h BrokerClient.FailCancelled]) ->
  exists s2 o2 s3 rs, BrokerClient.step s1 BrokerClient.ELost = (s2, o2) /\ (o2 = [] \/ exists a, o2 = [BrokerClient.OConnect a])
    /\ BrokerClient.step s2 BrokerClient.EConnOk = (s3, map (fun r => BrokerClient.OWrite (BrokerClient.r_h r) (BrokerClient.r_id r)) rs)
    /\ map BrokerClient.r_id rs = map BrokerClient.r_id (filter (others h) (reqs s)).
Proof.
  intros I P Dn L Nf H. pose proof (ci_t s I) as T. unfold sdlog in L.
  destruct (nth_error (BrokerClient.t_dlog (BrokerClient.s_t s)) h) as [rid|] eqn:En; [|apply nth_error_None in En; lia].
  destruct (TInv_unfired _ h rid T En Nf) as (r & Lk & Hr & Eh & Ei & Ec).
  pose proof (ci_sent s I P) as Sent. rewrite Forall_forall in Sent.
  destruct (fired_after_step _ _ _ _ I H) as (I1 & _ & _).
  (* the state after the cancel *)
  assert (reqs s1 = BrokerClient.upd rid BrokerClient.set_cancelled (reqs s) /\ BrokerClient.s_proto s1 = true
          /\ BrokerClient.s_down s1 = BrokerClient.DNone /\ BrokerClient.s_connector s1 = BrokerClient.s_connector s) as (E1 & P1 & D1 & K1).
  { cbn [BrokerClient.step] in H. unfold BrokerClient.lift, BrokerClient.cancel in H. rewrite En in H.
    unfold BrokerClient.is_fired in H. rewrite (proj2 (memb_nIn h _) Nf) in H. rewrite Lk in H.
    rewrite (proj1 (Sent r Hr)) in H. unfold BrokerClient.fire, BrokerClient.is_fired in H. cbn [BrokerClient.t_fired BrokerClient.t_with_reqs] in H.
    rewrite (proj2 (memb_nIn h _) Nf) in H. cbn [fst snd] in H. injection H as <-. unfold reqs. cbn. auto. }
  assert (filter live (reqs s1) = filter (others h) (reqs s)) as Fl.
  { rewrite E1, filter_live_upd. apply filter_ext_in. intros x Hx. unfold others. f_equal. f_equal.
    destruct (BrokerClient.r_id x =? rid) eqn:A; destruct (Nat.eqb (BrokerClient.r_h x) h) eqn:B; try reflexivity; exfalso.
    - apply Z.eqb_eq in A. apply Nat.eqb_neq in B. apply B. rewrite <- Eh. f_equal. apply (TInv_id_inj _ x r T Hx Hr). congruence.
    - apply Z.eqb_neq in A. apply Nat.eqb_eq in B. apply A. rewrite <- Ei. f_equal. apply (TInv_h_inj _ x r T Hx Hr). congruence. }
  assert (Forall (fun r0 => BrokerClient.r_expect r0 = true) (map (BrokerClient.set_sent false) (filter live (reqs s1)))) as Ex.
  { apply Forall_forall. intros y Hy. apply in_map_iff in Hy. destruct Hy as (x & <- & Hx). cbn. apply filter_In in Hx. destruct Hx as [Hx _].
    rewrite E1 in Hx. apply in_upd in Hx. destruct Hx as (x0 & Hx0 & ->). destruct (BrokerClient.r_id x0 =? rid); cbn; exact (proj2 (Sent x0 Hx0)). }
  set (rs := map (BrokerClient.set_sent false) (filter live (reqs s1))) in *.
  assert (map BrokerClient.r_id rs = map BrokerClient.r_id (filter (others h) (reqs s))) as Eids.
  { unfold rs. rewrite map_map, Fl. reflexivity. }
  destruct (BrokerClient.step s1 BrokerClient.ELost) as [s2 o2] eqn:E2.
  destruct (fired_after_step _ _ _ _ I1 E2) as (I2 & _ & _).
  cbn [BrokerClient.step] in E2. rewrite P1 in E2.
  cbn [BrokerClient.s_down BrokerClient.with_t BrokerClient.with_rxbuf BrokerClient.with_proto] in E2. rewrite D1 in E2.
  change (filter (fun r0 => negb (BrokerClient.r_cancelled r0)) (BrokerClient.t_reqs (BrokerClient.s_t s1))) with (filter live (reqs s1)) in E2.
  fold rs in E2. destruct rs as [|r0 rs0] eqn:Ers.
  - injection E2 as <- <-. eexists. exists []. eexists. exists []. split; [reflexivity|]. split; [left; reflexivity|]. split; [|exact Eids].
    cbn [BrokerClient.step BrokerClient.s_connector BrokerClient.with_t BrokerClient.with_rxbuf BrokerClient.with_proto].
    rewrite K1, (ci_conn s I P). reflexivity.
  - unfold BrokerClient.connect, BrokerClient.try_connect in E2. injection E2 as E2s <-. subst s2.
    match type of I2 with CInv ?x => set (s2 := x) in * end.
    assert (BrokerClient.s_connector s2 = BrokerClient.CAttempt) as K2 by reflexivity.
    destruct (resend s2 I2 K2) as (s3 & E3 & _).
    assert (reqs s2 = r0 :: rs0) as R2 by reflexivity. rewrite R2 in E3. rewrite (sq_outs_expect _ Ex) in E3.
    exists s2, [BrokerClient.OConnect (BrokerClient.s_addr s2)], s3, (r0 :: rs0).
    split; [reflexivity|]. split; [right; eexists; reflexivity|]. split; [exact E3 | exact Eids].
Qed.

(* ------------------------------------------------------------------ the composed statement *)
Lemma drop_and_resend C i b h d t to :
  TInvC [] C -> g_dot (c_cfg C) = true -> nth_error (c_bcs C) i = Some b ->
  nth_error (b_reqs b) h = Some (mkCreq (Direct d) (Some t) to) ->
  BrokerClient.s_proto (b_st b) = true -> BrokerClient.s_down (b_st b) = BrokerClient.DNone ->
  exists C1 C2 o2 C3 o3,
    step C (ETimer t) = (C1, [OReq d RTimedOut; OLose i]) /\ step C1 (ELost i) = (C2, o2) /\ step C2 (EConnOk i) = (C3, o3)
    /\ cwrites o2 = []
    /\ cwrites o3 = map (fun r => (i, BrokerClient.r_id r)) (filter (others h) (BrokerClient.t_reqs (BrokerClient.s_t (b_st b)))).
Proof.
  intros T Dot Eb Eq P Dn.
  destruct (bound_direct C i b h d t to T Eb Eq) as (C1 & St & b' & Eb' & _ & _ & Ca). rewrite Dot, P in St. cbn [andb] in St.
  destruct (TInvC_bc _ _ _ _ T Eb) as (I & L & A & _).
  assert ((h < length (sdlog (b_st b)))%nat) as Lh by (rewrite <- L; apply nth_error_Some; congruence).
  assert (~ sfired (b_st b) h) as Nf by (destruct (A h _ t Eq eq_refl) as [_ [Z|[]]]; exact Z).
  destruct (m7_drop_resend (b_st b) h (b_st b') I P Dn Lh Nf Ca) as (s2 & o2m & s3 & rs & E2 & Ho2 & E3 & Eids).
  set (C2 := upd_bc C1 i (set_st s2)).
  assert (exists o2, step C1 (ELost i) = (C2, o2) /\ cwrites o2 = []) as (o2 & St2 & W2).
  { cbn [step]. unfold ev_bc, bc_event, apply_bc. rewrite Eb', E2. destruct Ho2 as [->|[a ->]]; cbn [proc tr_out app]; eexists; split; reflexivity. }
  assert (nth_error (c_bcs C2) i = Some (set_st s2 b')) as Eb2 by (unfold C2; cbn [upd_bc with_bcs c_bcs]; apply nth_upd_same; exact Eb').
  exists C1, C2, o2, (upd_bc C2 i (set_st s3)), (map (fun r => OWrite i (BrokerClient.r_id r)) rs).
  split; [exact St|]. split; [exact St2|]. split.
  - cbn [step]. unfold ev_bc, bc_event, apply_bc. rewrite Eb2. cbn [set_st b_st]. rewrite E3. apply proc_writes.
  - split; [exact W2|]. rewrite cwrites_map. unfold reqs in Eids.
    rewrite <- (map_map BrokerClient.r_id (fun z => (i, z))), Eids, map_map. reflexivity.
Qed.

Theorem c11_drop_and_resend g evs i b h d t to :
  g_dot (c_cfg (fst (run (init g) evs))) = true -> nth_error (c_bcs (fst (run (init g) evs))) i = Some b ->
  nth_error (b_reqs b) h = Some (mkCreq (Direct d) (Some t) to) ->
  BrokerClient.s_proto (b_st b) = true -> BrokerClient.s_down (b_st b) = BrokerClient.DNone ->
  exists C1 C2 o2 C3 o3,
    step (fst (run (init g) evs)) (ETimer t) = (C1, [OReq d RTimedOut; OLose i]) /\ step C1 (ELost i) = (C2, o2)
    /\ step C2 (EConnOk i) = (C3, o3) /\ cwrites o2 = []
    /\ cwrites o3 = map (fun r => (i, BrokerClient.r_id r)) (filter (others h) (BrokerClient.t_reqs (BrokerClient.s_t (b_st b)))).
Proof. apply drop_and_resend. apply reachable_wf. Qed.

(* ------------------------------------------------------------------ frame of the timeout step (C11_bound): nothing else moves *)
Lemma bound_frame C i b h d t to :
  TInvC [] C -> nth_error (c_bcs C) i = Some b -> nth_error (b_reqs b) h = Some (mkCreq (Direct d) (Some t) to) ->
  exists C' o, step C (ETimer t) = (C', o)
    /\ c_cfg C' = c_cfg C /\ c_clients C' = c_clients C /\ c_brokers C' = c_brokers C /\ c_topics C' = c_topics C
    /\ c_corr C' = c_corr C /\ c_dl C' = c_dl C /\ c_wait C' = c_wait C /\ c_ops C' = c_ops C /\ c_direct C' = c_direct C
    /\ c_timers C' = c_timers C /\ c_boots C' = c_boots C
    /\ (forall j, j <> i -> nth_error (c_bcs C') j = nth_error (c_bcs C) j)
    /\ exists b', nth_error (c_bcs C') i = Some b' /\ b_node b' = b_node b /\ b_timer b' = b_timer b
                  /\ b_reqs b' = nth_upd (b_reqs b) h (fun q => mkCreq (q_owner q) None true)
                  /\ BrokerClient.step (b_st b) (BrokerClient.ECancel h) = (b_st b', [BrokerClient.ODef h BrokerClient.FailCancelled]).
Proof.
  intros T Eb Eq. cbn [step]. rewrite (timer_names _ _ _ _ _ _ T Eb Eq eq_refl).
  unfold creq_at. rewrite Eb, Eq. rewrite Nat.eqb_refl.
  destruct (timeout_wf C i h b (Direct d) t to T Eb Eq) as [Mo T2].
  set (C1 := upd_creq C i h (fun q => mkCreq (q_owner q) None true)) in *.
  unfold ev_bc at 1. unfold bc_event.
  assert (nth_error (c_bcs C1) i = Some (set_reqs (nth_upd (b_reqs b) h (fun q => mkCreq (q_owner q) None true)) b)) as Eb1.
  { unfold C1, upd_creq, upd_bc. cbn [c_bcs with_bcs]. rewrite (nth_upd_same _ _ _ _ Eb). reflexivity. }
  unfold apply_bc in *. rewrite Eb1 in *. cbn [set_reqs b_st] in *.
  destruct (BrokerClient.step (b_st b) (BrokerClient.ECancel h)) as [s' mo] eqn:Es. cbn [fst snd] in Mo, T2. subst mo.
  set (b2 := set_st s' (set_reqs (nth_upd (b_reqs b) h (fun q => mkCreq (q_owner q) None true)) b)).
  set (C2 := upd_bc C1 i (set_st s')) in *.
  assert (nth_error (c_bcs C2) i = Some b2) as Eb2.
  { unfold C2, upd_bc. cbn [c_bcs with_bcs]. rewrite (nth_upd_same _ _ _ _ Eb1). reflexivity. }
  assert (nth_error (b_reqs b2) h = Some (mkCreq (Direct d) None true)) as Eq2.
  { unfold b2. cbn [set_st set_reqs b_reqs]. rewrite (nth_upd_same _ _ _ _ Eq). reflexivity. }
  assert (forall j, j <> i -> nth_error (c_bcs C2) j = nth_error (c_bcs C) j) as Oth.
  { intros j Nj. unfold C2, C1, upd_creq, upd_bc. cbn [c_bcs with_bcs]. rewrite !nth_upd_other by congruence. reflexivity. }
  cbn [proc]. unfold on_def. rewrite Eb2, Eq2. cbn [q_timer q_to q_owner app].
  assert (c_cfg C2 = c_cfg C) as Ec by reflexivity. rewrite Ec.
  destruct (cancel_state _ _ _ _ Es) as (Ep & _ & _).
  assert (exists b', nth_error (c_bcs C2) i = Some b' /\ b_node b' = b_node b /\ b_timer b' = b_timer b
                     /\ b_reqs b' = nth_upd (b_reqs b) h (fun q => mkCreq (q_owner q) None true)
                     /\ (s', [BrokerClient.ODef h BrokerClient.FailCancelled]) = (b_st b', [BrokerClient.ODef h BrokerClient.FailCancelled])) as Fin
    by (exists b2; repeat split; exact Eb2).
  destruct (g_dot (c_cfg C)) eqn:Ed; cbn [andb].
  - unfold ev_bc, bc_event, apply_bc. rewrite Eb2. unfold b2 at 1. cbn [set_st b_st BrokerClient.step].
    rewrite Ep. destruct (BrokerClient.s_proto (b_st b)); cbn [proc tr_out app].
    + eexists. eexists. split; [reflexivity|]. do 11 (split; [reflexivity|]). split.
      * intros j Nj. cbn [upd_bc with_bcs c_bcs]. rewrite nth_upd_other by congruence. exact (Oth j Nj).
      * exists b2. split; [cbn [upd_bc with_bcs c_bcs]; rewrite (nth_upd_same _ _ _ _ Eb2); reflexivity | repeat split].
    + eexists. eexists. split; [reflexivity|]. do 11 (split; [reflexivity|]). split.
      * intros j Nj. cbn [upd_bc with_bcs c_bcs]. rewrite nth_upd_other by congruence. exact (Oth j Nj).
      * exists b2. split; [cbn [upd_bc with_bcs c_bcs]; rewrite (nth_upd_same _ _ _ _ Eb2); reflexivity | repeat split].
  - eexists. eexists. split; [reflexivity|]. do 11 (split; [reflexivity|]). split; [exact Oth | exact Fin].
Qed.

Theorem c11_bound_frame g evs i b h d t to :
  nth_error (c_bcs (fst (run (init g) evs))) i = Some b -> nth_error (b_reqs b) h = Some (mkCreq (Direct d) (Some t) to) ->
  exists C' o, step (fst (run (init g) evs)) (ETimer t) = (C', o)
    /\ c_cfg C' = c_cfg (fst (run (init g) evs)) /\ c_clients C' = c_clients (fst (run (init g) evs))
    /\ c_brokers C' = c_brokers (fst (run (init g) evs)) /\ c_topics C' = c_topics (fst (run (init g) evs))
    /\ c_corr C' = c_corr (fst (run (init g) evs)) /\ c_dl C' = c_dl (fst (run (init g) evs)) /\ c_wait C' = c_wait (fst (run (init g) evs))
    /\ c_ops C' = c_ops (fst (run (init g) evs)) /\ c_direct C' = c_direct (fst (run (init g) evs))
    /\ c_timers C' = c_timers (fst (run (init g) evs)) /\ c_boots C' = c_boots (fst (run (init g) evs))
    /\ (forall j, j <> i -> nth_error (c_bcs C') j = nth_error (c_bcs (fst (run (init g) evs))) j)
    /\ exists b', nth_error (c_bcs C') i = Some b' /\ b_node b' = b_node b /\ b_timer b' = b_timer b
                  /\ b_reqs b' = nth_upd (b_reqs b) h (fun q => mkCreq (q_owner q) None true)
                  /\ BrokerClient.step (b_st b) (BrokerClient.ECancel h) = (b_st b', [BrokerClient.ODef h BrokerClient.FailCancelled]).
Proof. apply bound_frame. apply reachable_wf. Qed.

(* ------------------------------------------------------------------ the timer of a request made for ANY owner (also an operation) *)
Lemma timer_at_make_req pend C i rid expect mint ow C' h out :
  TInvC pend C -> make_req C i rid expect mint ow = (C', MPending h, out) ->
  filter is_k2 out = [OSched (length (c_timers C') - 1) 2 (delay_of C mint)]
  /\ creq_at C' i h = Some (mkCreq ow (Some (length (c_timers C') - 1)%nat) false).
Proof.
  intros T H. unfold make_req in H. destruct (nth_error (c_bcs C) i) as [b|] eqn:Eb; [|discriminate].
  destruct (TInvC_bc _ _ _ _ T Eb) as (_ & L & _).
  unfold apply_bc in H. rewrite Eb in H.
  destruct (BrokerClient.step (b_st b) (BrokerClient.EMake rid expect)) as [s' mo] eqn:Es.
  destruct (raised_dup mo); [discriminate|].
  set (C1 := upd_bc C i (set_st s')) in *.
  pose proof (tr_list_no_k2 (filter (fun o0 => negb (is_def o0)) mo) C1 i) as K.
  pose proof (tr_list_core (filter (fun o0 => negb (is_def o0)) mo) C1 i) as SC.
  destruct (tr_list C1 i (filter (fun o0 => negb (is_def o0)) mo)) as [C2 o2]. cbn [snd fst] in K, SC.
  unfold new_timer in H. destruct (first_def mo); [discriminate|]. injection H as <- <- <-.
  cbn [c_timers with_timers upd_bc with_bcs]. rewrite filter_app, K. cbn [filter is_k2 app]. rewrite app_length. cbn [length].
  replace (length (c_timers C2) + 1 - 1)%nat with (length (c_timers C2)) by lia. split; [reflexivity|].
  unfold creq_at, upd_bc. cbn [c_bcs with_bcs with_timers].
  assert (nth_error (cores C2) i = Some (b_node b, s', b_reqs b)) as Hc.
  { destruct SC as [SC1 _]. rewrite SC1. unfold C1. rewrite cores_set_st, (nth_upd_same _ _ _ _ (cores_nth _ _ _ Eb)). reflexivity. }
  destruct (cores_nth_inv _ _ _ _ _ Hc) as (b2 & Hb2 & _ & _ & Eq2).
  rewrite (nth_upd_same _ _ _ _ Hb2). cbn [set_reqs b_reqs]. rewrite Eq2. unfold sdlog in L. rewrite <- L. apply nth_error_snoc.
Qed.

Theorem c11_timer_at_make_req g evs i rid expect mint ow C' h out :
  make_req (fst (run (init g) evs)) i rid expect mint ow = (C', MPending h, out) ->
  filter is_k2 out = [OSched (length (c_timers C') - 1) 2 (delay_of (fst (run (init g) evs)) mint)]
  /\ creq_at C' i h = Some (mkCreq ow (Some (length (c_timers C') - 1)%nat) false).
Proof. apply (timer_at_make_req []). apply reachable_wf. Qed.
