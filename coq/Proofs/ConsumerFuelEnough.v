(* Some fuel suffices, part 2: the commit side in any state (completion of shutdown(), a commit waiter firing, delivery of a
   commit result) and the application's stop() as an event.  The fuel of the interpreter is the nesting depth of re-entrant
   calls; here it is bounded by a linear function of the number of commit waiters (which grows by at most one per commit()).
   The message loop is in ConsumerFuelEnoughLoop.v, whole runs in ConsumerFuelEnoughRun.v. *)
From Coq Require Import Lia.
From AV Require Import Base.Util Model.Consumer Proofs.ConsumerBase Proofs.ConsumerFrame Proofs.ConsumerStop Proofs.ConsumerShut
  Proofs.ConsumerShutFlags Proofs.ConsumerNotStarted Proofs.ConsumerFuelEnoughStop.
Open Scope Z_scope.

Definition cn (s : state) : nat := length (s_cds s).
(* growth of the number of commit waiters *)
Definition LG (n : nat) (s s' : state) : Prop := (cn s' <= cn s + n)%nat.
Ltac len1 := repeat match goal with |- context [length [?x]] => change (length [x]) with 1%nat end.
Ltac lg_done := unfold LG in *; unfold cn in *; psimpl;
  repeat match goal with D : s_cds ?x = _ :: _ |- _ => rewrite D in * | D : s_cds ?x = [] |- _ => rewrite D in * end; rewrite ?app_length in *; cbn [length] in *; lia.
Ltac useg L := repeat match goal with E : _ = (_, _, _) |- _ => apply L in E end.

Lemma startd_errback_lg fk s r s' o : startd_errback fk s = (r, s', o) -> LG 0 s s'.
Proof. intro H. unfold startd_errback in H. mi H; lg_done. Qed.
Lemma handle_auto_commit_error_lg fk s r s' o : handle_auto_commit_error fk s = (r, s', o) -> LG 0 s s'.
Proof. intro H. unfold handle_auto_commit_error in H. mi H; useg startd_errback_lg; lg_done. Qed.
Lemma handle_processor_error_lg fk s r s' o : handle_processor_error fk s = (r, s', o) -> LG 0 s s'.
Proof. intro H. unfold handle_processor_error in H. mi H; useg startd_errback_lg; lg_done. Qed.
Lemma send_commit_request_lg i a s r s' o : send_commit_request i a s = (r, s', o) -> LG 0 s s'.
Proof. intro H. unfold send_commit_request in H. mi H; lg_done. Qed.
Lemma commit_lg w s r s' o : commit w s = (r, s', o) -> LG 1 s s'.
Proof. intro H. unfold commit in H. mi H; useg send_commit_request_lg; lg_done. Qed.
Lemma auto_commit_lg bc s r s' o : auto_commit bc s = (r, s', o) -> LG 1 s s'.
Proof. intro H. unfold auto_commit in H. mi H; useg commit_lg; useg handle_auto_commit_error_lg; lg_done. Qed.
Lemma proc_chain_lg last fk s r s' o : proc_chain last fk s = (r, s', o) -> LG 1 s s'.
Proof. intro H. unfold proc_chain in H. mi H; useg auto_commit_lg; useg handle_processor_error_lg; lg_done. Qed.
Lemma pop_plan_lg s r s' o : pop_plan s = (r, s', o) -> LG 0 s s'.
Proof. intro H. unfold pop_plan in H. mi H; lg_done. Qed.
Lemma emit_shutd_lg x s r s' o : emit_shutd x s = (r, s', o) -> LG 0 s s'.
Proof. intro H. unfold emit_shutd in H. mi H; lg_done. Qed.
Lemma interrupted_lg s r s' o : interrupted s = (r, s', o) -> LG 0 s s'.
Proof. intro H. unfold interrupted in H. mi H; useg emit_shutd_lg; lg_done. Qed.
Lemma api_commit_lg s r s' o : api_commit s = (r, s', o) -> LG 1 s s'.
Proof. intro H. unfold api_commit in H. mi H; useg commit_lg; lg_done. Qed.
Lemma retry_fetch_lg z s r s' o : retry_fetch z s = (r, s', o) -> LG 0 s s'.
Proof. intro H. unfold retry_fetch in H. mi H; lg_done. Qed.
Lemma handle_fetch_error_lg fk s r s' o : handle_fetch_error fk s = (r, s', o) -> LG 0 s s'.
Proof. intro H. unfold handle_fetch_error in H. mi H; useg startd_errback_lg; useg retry_fetch_lg; lg_done. Qed.
Lemma handle_offset_error_lg fk s r s' o : handle_offset_error fk s = (r, s', o) -> LG 0 s s'.
Proof. intro H. unfold handle_offset_error in H. mi H; useg startd_errback_lg; useg retry_fetch_lg; lg_done. Qed.

(* ---------------- everything a leaf method does that matters here ---------------- *)
Definition pm (s : state) : nat := match s_mblock s with Some (Some (offs, _)) => S (length offs) | _ => 0%nat end.
Definition LF (n : nat) (s s' : state) (o : list output) : Prop :=
  NF s s' o /\ LG n s s' /\ s_mblock s' = s_mblock s /\ s_cf s' = s_cf s.
Ltac mk_lf Lnf Llg Lkp Lsh :=
  let H := fresh "H" in intro H; split; [exact (Lnf _ _ _ _ H) | split; [exact (Llg _ _ _ _ H) | split;
    [ pose proof (Lkp _ _ _ _ H) as X; (try destruct X as (X & _)); destruct X as (_ & _ & X & _); exact X
    | exact (proj1 (Lsh _ _ _ _ H)) ]]].

Lemma proc_chain_lf last fk s r s' o : proc_chain last fk s = (r, s', o) -> LF 1 s s' o.
Proof.
  intro H. split; [exact (proc_chain_nf _ _ _ _ _ _ H) | split; [exact (proc_chain_lg _ _ _ _ _ _ H) | split]].
  - destruct (proc_chain_kp _ _ _ _ _ _ H) as ((_ & _ & X & _) & _). exact X.
  - exact (proj1 (proc_chain_sh _ _ _ _ _ _ H)).
Qed.
Lemma pop_plan_lf s r s' o : pop_plan s = (r, s', o) -> LF 0 s s' o.
Proof.
  intro H. split; [exact (pop_plan_nf _ _ _ _ H) | split; [exact (pop_plan_lg _ _ _ _ H) | split]].
  - destruct (pop_plan_kp _ _ _ _ H) as (_ & _ & X & _). exact X.
  - exact (proj1 (pop_plan_sh _ _ _ _ H)).
Qed.
Lemma api_commit_lf s r s' o : api_commit s = (r, s', o) -> LF 1 s s' o.
Proof.
  intro H. split; [exact (api_commit_nf _ _ _ _ H) | split; [exact (api_commit_lg _ _ _ _ H) | split]].
  - destruct (api_commit_kp _ _ _ _ H) as (_ & _ & X & _). exact X.
  - exact (proj1 (api_commit_sh _ _ _ _ H)).
Qed.
Lemma interrupted_lf s r s' o : interrupted s = (r, s', o) -> LF 0 s s' o.
Proof.
  intro H. split; [exact (interrupted_nf _ _ _ _ H) | split; [exact (interrupted_lg _ _ _ _ H) | split]].
  - destruct (interrupted_kp _ _ _ _ H) as (_ & _ & X & _). exact X.
  - exact (proj1 (interrupted_sh _ _ _ _ H)).
Qed.
Lemma commit_lf w s r s' o : commit w s = (r, s', o) -> LF 1 s s' o.
Proof.
  intro H. split; [exact (commit_nf _ _ _ _ _ H) | split; [exact (commit_lg _ _ _ _ _ H) | split]].
  - destruct (commit_kp _ _ _ _ _ H) as (_ & _ & X & _). exact X.
  - exact (proj1 (commit_sh _ _ _ _ _ H)).
Qed.
Lemma handle_auto_commit_error_lf fk s r s' o : handle_auto_commit_error fk s = (r, s', o) -> LF 0 s s' o.
Proof.
  intro H. split; [exact (handle_auto_commit_error_nf _ _ _ _ _ H) | split; [exact (handle_auto_commit_error_lg _ _ _ _ _ H) | split]].
  - destruct (handle_auto_commit_error_kp _ _ _ _ _ H) as (_ & _ & X & _). exact X.
  - exact (proj1 (handle_auto_commit_error_sh _ _ _ _ _ H)).
Qed.
Lemma auto_commit_lf bc s r s' o : auto_commit bc s = (r, s', o) -> LF 1 s s' o.
Proof.
  intro H. split; [exact (auto_commit_nf _ _ _ _ _ H) | split; [exact (auto_commit_lg _ _ _ _ _ H) | split]].
  - destruct (auto_commit_kp _ _ _ _ _ H) as (_ & _ & X & _). exact X.
  - exact (proj1 (auto_commit_sh _ _ _ _ _ H)).
Qed.
Lemma startd_errback_lf fk s r s' o : startd_errback fk s = (r, s', o) -> LF 0 s s' o.
Proof.
  intro H. split; [exact (startd_errback_nf _ _ _ _ _ H) | split; [exact (startd_errback_lg _ _ _ _ _ H) | split]].
  - destruct (startd_errback_kp _ _ _ _ _ H) as (_ & _ & X & _). exact X.
  - exact (proj1 (startd_errback_sh _ _ _ _ _ H)).
Qed.
Lemma retry_fetch_lf z s r s' o : retry_fetch z s = (r, s', o) -> LF 0 s s' o.
Proof.
  intro H. split; [exact (retry_fetch_nf _ _ _ _ _ H) | split; [exact (retry_fetch_lg _ _ _ _ _ H) | split]].
  - destruct (retry_fetch_kp _ _ _ _ _ H) as (_ & _ & X & _). exact X.
  - exact (proj1 (retry_fetch_sh _ _ _ _ _ H)).
Qed.
Lemma emit_shutd_lf x s r s' o : emit_shutd x s = (r, s', o) -> is_fuel x = false -> LF 0 s s' o.
Proof.
  intros H Hx. split; [exact (emit_shutd_nf _ _ _ _ _ H Hx) | split; [exact (emit_shutd_lg _ _ _ _ _ H) | split]].
  - destruct (emit_shutd_kp _ _ _ _ _ H) as (_ & _ & X & _). exact X.
  - unfold emit_shutd in H. mi H; reflexivity.
Qed.

(* ---------------- the commit side: completion of shutdown, delivery of a commit result ---------------- *)
Definition lfb (fk : option Z) (s : state) : bool :=
  match fk with None => true | Some _ => false end && c_group (s_cf s) && is_some (s_lp s) && negb (oz_eqb (s_lp s) (s_lc s)).
Definition MB (s s' : state) : Prop := s_mblock s' = s_mblock s \/ s_mblock s' = None.
Definition BC (k : kont) (s : state) : nat :=
  match k with
  | KShutFinish fk => if lfb fk s then cn s + 10 else cn s + 7
  | KCommitAndStop => cn s + 9
  | KFireCd _ _ => cn s + 11
  | KDeliver _ => 2 * cn s + 12
  | _ => 0
  end.
Definition isC (k : kont) : Prop := match k with KShutFinish _ | KCommitAndStop | KFireCd _ _ | KDeliver _ => True | _ => False end.
Definition GC (k : kont) (s s' : state) : Prop :=
  match k with
  | KShutFinish fk => (cn s' <= cn s + (if lfb fk s then 1 else 0))%nat /\ MB s s'
  | KCommitAndStop => (cn s' <= cn s + 1)%nat /\ MB s s'
  | KFireCd _ _ => (cn s' <= cn s + 1)%nat
  | _ => True
  end.
Definition PostC (k : kont) (s s' : state) (o : list output) : Prop :=
  PF s -> fuel_ok o = true /\ PF s' /\ s_cf s' = s_cf s /\ GC k s s'.

(* commit() answers "nothing to commit" only when there is nothing to commit: the state is untouched *)
Lemma commit_now_succ w s v s' o : commit w s = (Ok (CNow (CSucc v)), s', o) ->
  s' = s /\ negb (is_some (s_lp s)) || oz_eqb (s_lp s) (s_lc s) = true.
Proof. intro H. unfold commit, send_commit_request in H. mi H; try discriminate; split; auto. Qed.

Lemma stop_any fuel s r s' o : run fuel KStop s = (r, s', o) -> (cn s + 6 <= fuel)%nat -> PF s ->
  fuel_ok o = true /\ PF s' /\ s_cf s' = s_cf s /\ (cn s' <= cn s)%nat /\ MB s s'.
Proof.
  intros H Hb Hp. destruct (stop_enough _ _ _ _ _ H Hb Hp) as (Fo & P1).
  destruct (stop_growth _ _ _ _ _ H Fo) as (G1 & G2).
  pose proof (run_frame _ _ _ _ _ _ H Fo) as (_ & F). cbn beta iota in F.
  repeat split; auto. exact (fr_cf _ _ F).
Qed.

Ltac pf_here a := let P := fresh "P" in assert (P : PF a) by (unfold PF in *; psimpl; assumption).
Ltac lf_take E a X :=
  pf_here a;
  match goal with P : PF a |- _ =>
    let N1 := fresh "N" in let G := fresh "G" in let M := fresh "M" in let C := fresh "C" in
    destruct X as (N1 & G & M & C); let Fo := fresh "Fo" in let P1 := fresh "P" in destruct (N1 P) as (Fo & P1); clear N1 end.
Ltac leafs := repeat match goal with
  | E : proc_chain _ _ ?a = _ |- _ => let X := fresh "X" in pose proof (proc_chain_lf _ _ _ _ _ _ E) as X; lf_take E a X; clear E
  | E : pop_plan ?a = _ |- _ => let X := fresh "X" in pose proof (pop_plan_lf _ _ _ _ E) as X; lf_take E a X; clear E
  | E : api_commit ?a = _ |- _ => let X := fresh "X" in pose proof (api_commit_lf _ _ _ _ E) as X; lf_take E a X; clear E
  | E : interrupted ?a = _ |- _ => let X := fresh "X" in pose proof (interrupted_lf _ _ _ _ E) as X; lf_take E a X; clear E
  | E : commit _ ?a = _ |- _ => let X := fresh "X" in pose proof (commit_lf _ _ _ _ _ E) as X; lf_take E a X; clear E
  | E : handle_auto_commit_error _ ?a = _ |- _ => let X := fresh "X" in pose proof (handle_auto_commit_error_lf _ _ _ _ _ E) as X; lf_take E a X; clear E
  | E : auto_commit _ ?a = _ |- _ => let X := fresh "X" in pose proof (auto_commit_lf _ _ _ _ _ E) as X; lf_take E a X; clear E
  | E : startd_errback _ ?a = _ |- _ => let X := fresh "X" in pose proof (startd_errback_lf _ _ _ _ _ E) as X; lf_take E a X; clear E
  | E : retry_fetch _ ?a = _ |- _ => let X := fresh "X" in pose proof (retry_fetch_lf _ _ _ _ _ E) as X; lf_take E a X; clear E
  | E : emit_shutd _ ?a = _ |- _ => let X := fresh "X" in pose proof (emit_shutd_lf _ _ _ _ _ E ltac:(first [reflexivity | match goal with |- is_fuel (match ?x with _ => _ end) = false => destruct x; reflexivity end])) as X; lf_take E a X; clear E
  end.
Ltac arith := unfold LG in *; unfold cn, pm in *; psimpl; rewrite ?app_length in *; cbn [length] in *;
  repeat match goal with |- context [if ?b then _ else _] => destruct b end; lia.
Ltac stop_take := match goal with
  | E : run ?f KStop ?a = _ |- _ =>
    pf_here a;
    let Bd := fresh "Bd" in assert (Bd : (cn a + 6 <= f)%nat) by arith;
    match goal with P : PF a |- _ =>
      let X := fresh "X" in pose proof (stop_any _ _ _ _ _ E Bd P) as X;
      let Fo := fresh "Fo" in let P1 := fresh "P" in let C := fresh "C" in let G := fresh "G" in let M := fresh "M" in
      destruct X as (Fo & P1 & C & G & M); clear E end
  end.
Ltac mb_solve := unfold MB in *; psimpl; intuition congruence.
Ltac fin_c := split; [ solve [fo] | split; [ unfold PF in *; psimpl; solve [fo] | split; [ psimpl; congruence | ] ] ].

Lemma lfb_some k s : lfb (Some k) s = false. Proof. reflexivity. Qed.

Section RecC.
Variable f : nat.
Hypothesis IH : forall k s r s' o, run f k s = (r, s', o) -> isC k -> (BC k s <= f)%nat -> PostC k s s' o.

Ltac lfb_contra L := exfalso; unfold lfb in L; psimpl;
  repeat match type of L with
         | context [c_group ?x] => let Q := fresh "Q" in destruct (c_group x) eqn:Q; try rewrite Q in *
         | context [is_some ?x] => let Q := fresh "Q" in destruct (is_some x) eqn:Q; try rewrite Q in *
         | context [oz_eqb ?x ?y] => let Q := fresh "Q" in destruct (oz_eqb x y) eqn:Q; try rewrite Q in *
         end; cbn [andb negb orb] in *; discriminate.
Ltac ih_core E k a :=
    pf_here a;
    let Bd := fresh "Bd" in assert (Bd : (BC k a <= f)%nat) by (cbn [BC]; rewrite ?lfb_some; try match goal with L : lfb _ a = _ |- _ => rewrite L end; arith);
    match goal with P : PF a |- _ =>
      let X := fresh "X" in pose proof (IH _ _ _ _ _ E Logic.I Bd P) as X; cbn [GC] in X;
      rewrite ?lfb_some in X; try match goal with L : lfb _ a = _ |- _ => rewrite L in X end;
      let Fo := fresh "Fo" in let P1 := fresh "P" in let C := fresh "C" in let G := fresh "G" in
      destruct X as (Fo & P1 & C & G); clear E end.
Ltac ih_take := match goal with
  | E : run f (KShutFinish None) ?a = _ |- _ =>
    let L := fresh "L" in destruct (lfb None a) eqn:L; [ try (solve [lfb_contra L]) | ]; ih_core E (KShutFinish None) a
  | E : run f ?k ?a = _ |- _ => ih_core E k a
  end.

Lemma c_KShutFinish fk s r s' o : body (run f) (KShutFinish fk) s = (r, s', o) -> (BC (KShutFinish fk) s <= S f)%nat ->
  PostC (KShutFinish fk) s s' o.
Proof.
  intros H Hb Hp. cbn [body] in H. cbn [BC] in Hb. cbn [GC]. unfold lfb in *. mi H.
  all: rewrite ?D, ?D0, ?D1 in *.
  all: leafs; try ih_take; try stop_take; leafs.
  all: fin_c.
  all: split; [arith | mb_solve].
Qed.

Lemma c_KCommitAndStop s r s' o : body (run f) KCommitAndStop s = (r, s', o) -> (cn s + 9 <= S f)%nat -> PostC KCommitAndStop s s' o.
Proof.
  intros H Hb Hp. cbn [body] in H. cbn [GC]. mi H.
  all: repeat match goal with E : commit _ _ = (Ok (CNow (CSucc _)), _, _) |- _ =>
         let Q := fresh "Q" in pose proof (commit_now_succ _ _ _ _ _ E) as (-> & Q) end.
  all: leafs; try ih_take; leafs.
  all: fin_c.
  all: split; [arith | mb_solve].
Qed.
Lemma c_KFireCd d cr s r s' o : body (run f) (KFireCd d cr) s = (r, s', o) -> (cn s + 11 <= S f)%nat -> PostC (KFireCd d cr) s s' o.
Proof.
  intros H Hb Hp. cbn [body] in H. cbn [GC]. mi H.
  all: leafs; try ih_take; leafs.
  all: fin_c.
  all: arith.
Qed.

Lemma c_fire_all cr : forall ds s r s' o, fire_all (run f) ds cr s = (r, s', o) ->
  (cn s + length ds + 11 <= f)%nat -> PF s -> fuel_ok o = true /\ PF s' /\ s_cf s' = s_cf s.
Proof.
  induction ds as [|d ds IHds]; intros s r s' o H Hb Hp; cbn [fire_all] in H.
  - mi H. repeat split; auto.
  - cbn [length] in Hb. mi H.
    all: ih_take.
    all: match goal with E : fire_all _ _ _ _ = _ |- _ => apply IHds in E; [destruct E as (Fo2 & P2 & C2) | arith | assumption] end.
    all: repeat split; [solve [fo] | assumption | congruence].
Qed.
Lemma c_KDeliver cr s r s' o : body (run f) (KDeliver cr) s = (r, s', o) -> (2 * cn s + 12 <= S f)%nat -> PostC (KDeliver cr) s s' o.
Proof.
  intros H Hb Hp. cbn [body] in H. cbn [GC]. mi H.
  match goal with E : fire_all _ _ _ _ = _ |- _ => apply c_fire_all in E;
    [destruct E as (Fo & P1 & C1) | unfold cn in *; psimpl; rewrite rev_length; cbn [length]; lia | unfold PF in *; psimpl; assumption] end.
  repeat split; [solve [fo] | assumption | psimpl; congruence].
Qed.
End RecC.

Theorem commit_side_enough : forall fuel k s r s' o,
  run fuel k s = (r, s', o) -> isC k -> (BC k s <= fuel)%nat -> PostC k s s' o.
Proof.
  induction fuel as [|f IH]; intros k s r s' o H K Hb.
  - exfalso. destruct k; cbn [isC] in K; try contradiction; cbn [BC] in Hb; try lia. destruct (lfb fk s); lia.
  - cbn [run] in H. destruct k; cbn [isC] in K; try contradiction; cbn [BC] in Hb.
    + exact (c_KCommitAndStop f IH _ _ _ _ H Hb).
    + exact (c_KShutFinish f IH _ _ _ _ _ H Hb).
    + exact (c_KFireCd f IH _ _ _ _ _ _ H Hb).
    + exact (c_KDeliver f IH _ _ _ _ _ H Hb).
Qed.


(* ---------------- the application's stop(): one event ---------------- *)
Theorem stop_step_enough fuel s s' o : s_pend s = [] -> (length (s_cds s) + 6 <= fuel)%nat ->
  step fuel s EStop = (s', o) -> fuel_ok o = true.
Proof.
  intros Hp Hb H. apply step_inv in H. destruct H as (o1 & H & ->).
  assert (P : PF s) by (unfold PF; rewrite Hp; reflexivity).
  unfold handle in H. cbn zeta in H. unfold api_stop in H. mi H.
  all: match goal with E : run _ KStop _ = _ |- _ => destruct (stop_enough _ _ _ _ _ E Hb P) as (Fo & _) end.
  all: solve [fo].
Qed.
Corollary stop_step_some_fuel s : s_pend s = [] ->
  exists fuel0, forall fuel, (fuel0 <= fuel)%nat -> fuel_ok (snd (step fuel s EStop)) = true.
Proof.
  intro Hp. exists (length (s_cds s) + 6)%nat. intros fuel Hb. destruct (step fuel s EStop) as [s' o] eqn:E.
  exact (stop_step_enough _ _ _ _ Hp Hb E).
Qed.
