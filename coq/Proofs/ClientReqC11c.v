(* C11: a request's timer from issue to resolution (never re-armed; reply first / timeout first, exactly). *)
From AV Require Import Base.Util Proofs.UtilFacts Model.Framing Proofs.FramingFacts
  Proofs.BrokerClientTbl Proofs.BrokerClientInv Proofs.BrokerClientC06 Proofs.BrokerClientC10.
From AV Require Model.BrokerClient.
From AV Require Import Model.ClientReq Proofs.ClientReqBase Proofs.ClientReqStep Proofs.ClientReqC11 Proofs.ClientReqMono
  Proofs.ClientReqStruct Proofs.ClientReqC11b.
From Coq Require Import Lia.

(* ------------------------------------------------------------------ a request's DelayedCall is never re-armed *)
Definition Rtimer (C C' : cstate) : Prop :=
  forall i h q, creq_at C i h = Some q ->
    exists q', creq_at C' i h = Some q' /\ q_owner q' = q_owner q /\ (q_timer q' = q_timer q \/ q_timer q' = None)
               /\ (q_to q = true -> q_to q' = true).

Lemma creq_at_cores C C' i h : cores C' = cores C -> creq_at C' i h = creq_at C i h.
Proof.
  intro E. unfold creq_at.
  assert (option_map b_reqs (nth_error (c_bcs C') i) = option_map b_reqs (nth_error (c_bcs C) i)) as X.
  { assert (nth_error (cores C') i = nth_error (cores C) i) as Y by (rewrite E; reflexivity). unfold cores in Y. rewrite !nth_error_map in Y.
    destruct (nth_error (c_bcs C') i), (nth_error (c_bcs C) i); cbn in *; try discriminate; [|reflexivity]. unfold bcore in Y. congruence. }
  destruct (nth_error (c_bcs C') i), (nth_error (c_bcs C) i); cbn in X; try discriminate; [injection X as ->|]; reflexivity.
Qed.

Lemma Rtimer_id C C' : (forall i h, creq_at C' i h = creq_at C i h) -> Rtimer C C'.
Proof. intros E i h q H. exists q. rewrite E. auto. Qed.

Lemma Rtimer_run evs C : Rtimer C (fst (run C evs)).
Proof.
  apply (g_run Rtimer).
  - intros C0. apply Rtimer_id. reflexivity.
  - intros A B C0 H1 H2 i h q Hq. destruct (H1 i h q Hq) as (q1 & Hq1 & O1 & T1 & X1). destruct (H2 i h q1 Hq1) as (q2 & Hq2 & O2 & T2 & X2).
    exists q2. split; [exact Hq2|]. split; [congruence|]. split; [destruct T2 as [T2|T2]; [rewrite T2; exact T1 | right; exact T2] | auto].
  - intros C0 C1 [E _] _ _. apply Rtimer_id. intros i h. apply creq_at_cores. exact E.
  - intros C0 i e. apply Rtimer_id. intros j h. unfold apply_bc. destruct (nth_error (c_bcs C0) i) as [b|] eqn:Eb; [|reflexivity].
    destruct (BrokerClient.step (b_st b) e). cbn [fst]. unfold creq_at, upd_bc. cbn [c_bcs with_bcs].
    destruct (Nat.eq_dec i j) as [<-|N]; [rewrite (nth_upd_same _ _ _ _ Eb), Eb; reflexivity | rewrite nth_upd_other by exact N; reflexivity].
  - intros C0 i q0 _ j h q Hq. unfold creq_at, upd_bc in *. cbn [c_bcs with_bcs].
    destruct (Nat.eq_dec i j) as [<-|N]; [|rewrite nth_upd_other by exact N; exists q; auto].
    destruct (nth_error (c_bcs C0) i) as [b|] eqn:Eb; [|discriminate]. rewrite (nth_upd_same _ _ _ _ Eb). cbn [set_reqs b_reqs].
    exists q. split; [apply nth_error_app_l; exact Hq | auto].
  - intros C0 i h f F j h' q Hq. unfold creq_at, upd_creq, upd_bc in *. cbn [c_bcs with_bcs].
    destruct (Nat.eq_dec i j) as [<-|N]; [|rewrite nth_upd_other by exact N; exists q; auto].
    destruct (nth_error (c_bcs C0) i) as [b|] eqn:Eb; [|discriminate]. rewrite (nth_upd_same _ _ _ _ Eb). cbn [set_reqs b_reqs].
    destruct (Nat.eq_dec h h') as [<-|Nh]; [|rewrite nth_upd_other by exact Nh; exists q; auto].
    rewrite (nth_upd_same _ _ _ _ Hq). destruct (F q) as (F1 & F2 & F3). exists (f q). auto.
  - intros C0 cl x _. apply Rtimer_id. reflexivity.
  - intros C0 cl node a _ _ i h q Hq. exists q. split; [|auto]. unfold creq_at in *. cbn [c_bcs with_clients with_bcs].
    destruct (nth_error (c_bcs C0) i) as [b|] eqn:Eb; [|discriminate]. rewrite (nth_error_app_l _ _ _ _ Eb). exact Hq.
Qed.

(* "timed out" is recorded only together with the disarming of the timer *)
Definition Ito (C : cstate) : Prop := forall i h q, creq_at C i h = Some q -> q_to q = true -> q_timer q = None.

Lemma Ito_run evs C : Ito C -> Ito (fst (run C evs)).
Proof.
  apply (g_run (fun A B => Ito A -> Ito B)).
  - auto.
  - auto.
  - intros C0 C1 [E _] _ _ I i h q. rewrite (creq_at_cores C0 C1 i h E). apply I.
  - intros C0 i e I j h q. unfold apply_bc. destruct (nth_error (c_bcs C0) i) as [b|] eqn:Eb; [|apply I].
    destruct (BrokerClient.step (b_st b) e). cbn [fst]. unfold creq_at, upd_bc. cbn [c_bcs with_bcs].
    destruct (Nat.eq_dec i j) as [<-|N]; [rewrite (nth_upd_same _ _ _ _ Eb); cbn [set_st b_reqs]; pose proof (I i h q) as X; unfold creq_at in X; rewrite Eb in X; exact X
                                         | rewrite nth_upd_other by exact N; apply (I j h q)].
  - intros C0 i q0 F0 I j h q. unfold creq_at, upd_bc. cbn [c_bcs with_bcs].
    destruct (Nat.eq_dec i j) as [<-|N]; [|rewrite nth_upd_other by exact N; apply (I j h q)].
    destruct (nth_error (c_bcs C0) i) as [b|] eqn:Eb; [|rewrite (nth_upd_none _ _ _ Eb), Eb; discriminate].
    rewrite (nth_upd_same _ _ _ _ Eb). cbn [set_reqs b_reqs]. intros Hq Ht. apply nth_error_snoc_inv in Hq.
    destruct Hq as [Hq|[_ ->]]; [|congruence]. pose proof (I i h q) as X. unfold creq_at in X. rewrite Eb in X. auto.
  - intros C0 i h f F I j h' q. unfold creq_at, upd_creq, upd_bc. cbn [c_bcs with_bcs].
    destruct (Nat.eq_dec i j) as [<-|N]; [|rewrite nth_upd_other by exact N; apply (I j h' q)].
    destruct (nth_error (c_bcs C0) i) as [b|] eqn:Eb; [|rewrite (nth_upd_none _ _ _ Eb), Eb; discriminate].
    rewrite (nth_upd_same _ _ _ _ Eb). cbn [set_reqs b_reqs]. intros Hq Ht. apply nth_upd_inv in Hq.
    destruct Hq as [[<- (q0 & Hq0 & ->)]|[Nh Hq]]; [exact (proj1 (proj2 (F q0)))|].
    pose proof (I i h' q) as X. unfold creq_at in X. rewrite Eb in X. auto.
  - intros C0 cl x _ I. exact I.
  - intros C0 cl node a _ _ I i h q. unfold creq_at. cbn [c_bcs with_clients with_bcs]. intros Hq.
    destruct (nth_error (c_bcs C0 ++ _) i) as [b|] eqn:Eb; [|discriminate]. apply nth_error_snoc_inv in Eb.
    destruct Eb as [Eb|[_ ->]]; [|destruct h; discriminate]. pose proof (I i h q) as X. unfold creq_at in X. rewrite Eb in X. auto.
Qed.

Lemma Ito_reachable g evs : Ito (fst (run (init g) evs)).
Proof. apply Ito_run. intros i h q H. destruct i; discriminate. Qed.

(* ------------------------------------------------------------------ statements *)
Lemma c11_timer_never_rearmed g evs evs2 i h q : creq_at (fst (run (init g) evs)) i h = Some q ->
  exists q', creq_at (fst (run (fst (run (init g) evs)) evs2)) i h = Some q' /\ q_owner q' = q_owner q
             /\ (q_timer q' = q_timer q \/ q_timer q' = None).
Proof. intro H. destruct (Rtimer_run evs2 _ i h q H) as (q' & A & B & D & _). exists q'. auto. Qed.

(* the closure created by an accepted request: owned by it, armed with the DelayedCall scheduled in that very step *)
Lemma issue_creates C node expect mint C' o : TInvC [] C -> step C (ESend node expect mint) = (C', o) ->
  (forall k, ~ In (ORaised k) o) ->
  exists i h q, nth_error (c_direct C') (length (c_direct C)) = Some (i, h) /\ creq_at C' i h = Some q
                /\ q_owner q = Direct (length (c_direct C)) /\ q_to q = false
                /\ (q_timer q = Some (length (c_timers C') - 1)%nat \/ q_timer q = None).
Proof.
  intros T H NR. cbn [step] in H.
  destruct (c_clients C) as [cl|]; [|injection H as _ <-; exfalso; apply (NR 4); left; reflexivity].
  destruct (get_client C cl node) as [[C1 i]|] eqn:G; [|injection H as _ <-; exfalso; apply (NR 6); left; reflexivity].
  pose proof (get_client_wf _ _ _ _ _ _ T G) as T1. destruct (get_client_cfg _ _ _ _ _ G) as [_ Edir0].
  unfold next_id in H. set (C2 := with_corr C1 _) in *. set (rid := (c_corr C1 + 1) mod 2147483648) in *.
  assert (TInvC [] C2) as T2 by (eapply TInvC_same_core; [exact T1 | unfold C2; score]).
  unfold make_req in H. destruct (nth_error (c_bcs C2) i) as [b|] eqn:Eb.
  2:{ injection H as _ <-. exfalso. apply (NR 1). cbn. right. left. reflexivity. }
  destruct (TInvC_bc _ _ _ _ T2 Eb) as (_ & L & _).
  pose proof (apply_bc_rest C2 i (BrokerClient.EMake rid expect)) as R3.
  unfold apply_bc in H, R3. rewrite Eb in H, R3.
  destruct (BrokerClient.step (b_st b) (BrokerClient.EMake rid expect)) as [s' mo]. cbn [fst] in R3.
  set (C3 := upd_bc C2 i (set_st s')) in *.
  destruct (raised_dup mo). { injection H as _ <-. exfalso. apply (NR 1). left. reflexivity. }
  pose proof (tr_list_core (filter (fun o0 => negb (is_def o0)) mo) C3 i) as SC.
  pose proof (tr_list_rest (filter (fun o0 => negb (is_def o0)) mo) C3 i) as R4.
  destruct (tr_list C3 i (filter (fun o0 => negb (is_def o0)) mo)) as [C4 o4]. cbn [fst] in SC, R4.
  assert (c_direct C4 = c_direct C) as Edir.
  { destruct R3 as (_&_&_&_&_&_&X&_). destruct R4 as (_&_&_&_&_&_&Y&_). rewrite Y, X. unfold C2. cbn. exact Edir0. }
  assert (nth_error (cores C4) i = Some (b_node b, s', b_reqs b)) as Ec.
  { destruct SC as [SC _]. rewrite SC. unfold C3. rewrite cores_set_st, (nth_upd_same _ _ _ _ (cores_nth _ _ _ Eb)). reflexivity. }
  destruct (cores_nth_inv _ _ _ _ _ Ec) as (b4 & Eb4 & _ & _ & Eq4).
  unfold new_timer in H. set (h := length (BrokerClient.t_dlog (BrokerClient.s_t (b_st b)))) in *.
  assert (h = length (b_reqs b4)) as Eh by (rewrite Eq4, L; reflexivity).
  assert (forall q Cx, Cx = upd_bc (with_timers C4 (c_timers C4 ++ [TReq i h])) i (fun b0 => set_reqs (b_reqs b0 ++ [q]) b0) ->
            creq_at (with_direct Cx (c_direct Cx ++ [(i, h)])) i h = Some q) as Gq.
  { intros q Cx ->. unfold creq_at, upd_bc. cbn [c_bcs with_direct with_bcs with_timers]. rewrite (nth_upd_same _ _ _ _ Eb4).
    cbn [set_reqs b_reqs]. rewrite Eh. apply nth_error_snoc. }
  destruct (first_def mo); injection H as <- <-.
  - exists i, h, (mkCreq (Direct (length (c_direct C2))) None false).
    split; [cbn [c_direct with_direct upd_bc with_bcs with_timers]; rewrite Edir; apply nth_error_snoc|].
    split; [exact (Gq _ _ eq_refl)|]. split; [unfold C2; cbn; rewrite Edir0; reflexivity|]. split; [reflexivity | right; reflexivity].
  - exists i, h, (mkCreq (Direct (length (c_direct C2))) (Some (length (c_timers C4))) false).
    split; [cbn [c_direct with_direct upd_bc with_bcs with_timers]; rewrite Edir; apply nth_error_snoc|].
    split; [exact (Gq _ _ eq_refl)|]. split; [unfold C2; cbn; rewrite Edir0; reflexivity|]. split; [reflexivity|]. left.
    cbn [c_timers with_direct upd_bc with_bcs with_timers q_timer]. rewrite app_length. cbn. f_equal. lia.
Qed.

(* reply first, exactly: the response of an unanswered request releases its timer and completes it, nothing else *)
Lemma reply_first C i b h d t to rid payload cid r :
  TInvC [] C -> Ito C -> nth_error (c_bcs C) i = Some b -> nth_error (b_reqs b) h = Some (mkCreq (Direct d) (Some t) to) ->
  BrokerClient.s_proto (b_st b) = true -> BrokerClient.s_rxbuf (b_st b) = [] ->
  Z.of_nat (length (id4 rid ++ payload)) <= MAX_LENGTH -> corr_id (id4 rid ++ payload) = Some cid ->
  In r (BrokerClient.t_reqs (BrokerClient.s_t (b_st b))) -> BrokerClient.r_id r = cid -> BrokerClient.r_h r = h ->
  BrokerClient.r_cancelled r = false ->
  exists C', step C (EReply i rid payload) = (C', [OCancelTimer t; OReq d (RSucc (id4 rid ++ payload))])
    /\ exists b', nth_error (c_bcs C') i = Some b' /\ In h (BrokerClient.t_fired (BrokerClient.s_t (b_st b')))
                  /\ nth_error (b_reqs b') h = Some (mkCreq (Direct d) None to).
Proof.
  intros T I Eb Eq P B L Ec Hr Ei Eh Hc. destruct (TInvC_bc _ _ _ _ T Eb) as (CI & _).
  assert (frame_ok ok4 (id4 rid ++ payload)) as F by (split; [unfold ok4; rewrite Ec; reflexivity | exact L]).
  destruct (own_frame (b_st b) (id4 rid ++ payload) cid r CI P B F Ec Hr Ei Hc) as (s' & Es & Ef & _).
  assert (to = false) as ->.
  { destruct to; [|reflexivity]. pose proof (I i h (mkCreq (Direct d) (Some t) true)) as X. unfold creq_at in X. rewrite Eb in X.
    specialize (X Eq eq_refl). discriminate. }
  cbn [step]. unfold ev_bc, bc_event, apply_bc. rewrite Eb, Es. rewrite Eh. cbn [proc]. unfold on_def.
  set (C1 := upd_bc C i (set_st s')).
  assert (nth_error (c_bcs C1) i = Some (set_st s' b)) as Eb1 by (unfold C1, upd_bc; cbn [c_bcs with_bcs]; rewrite (nth_upd_same _ _ _ _ Eb); reflexivity).
  rewrite Eb1. cbn [set_st b_reqs]. rewrite Eq. cbn [q_timer q_to q_owner res_of app].
  eexists. split; [reflexivity|]. eexists. split.
  - unfold upd_creq, upd_bc. cbn [c_bcs with_bcs]. rewrite (nth_upd_same _ _ _ _ Eb1). reflexivity.
  - cbn [set_reqs set_st b_st b_reqs]. split; [rewrite Ef, Eh; left; reflexivity|]. rewrite (nth_upd_same _ _ _ _ Eq). reflexivity.
Qed.

Lemma run_app' : forall a b C, fst (run C (a ++ b)) = fst (run (fst (run C a)) b).
Proof.
  induction a as [|e a IH]; intros b C; cbn [app run]; [reflexivity|].
  destruct (step C e) as [C1 o1]. specialize (IH b C1). destruct (run C1 (a ++ b)) as [C3 o3]. destruct (run C1 a) as [C2 o2].
  cbn [fst] in *. exact IH.
Qed.

(* THE CLAUSE, composed: from issue to resolution.  An accepted request arms DelayedCall t with max(timeout, min_timeout); at any
   later moment its closure still belongs to it and either (a) t - that very call, never another - is still armed, the request
   is unresolved, and t's firing fails it with RequestTimedOutError in that step, or (b) the timer is gone and the request is
   resolved. *)
Lemma c11_issue_to_resolution g evs node expect mint C1 o1 evs2 :
  step (fst (run (init g) evs)) (ESend node expect mint) = (C1, o1) -> (forall k, ~ In (ORaised k) o1) ->
  filter is_k2 o1 = [OSched (length (c_timers C1) - 1) 2 (delay_of (fst (run (init g) evs)) mint)]
  /\ exists i h, nth_error (c_direct C1) (length (c_direct (fst (run (init g) evs)))) = Some (i, h)
     /\ exists b q, nth_error (c_bcs (fst (run C1 evs2))) i = Some b /\ nth_error (b_reqs b) h = Some q
        /\ q_owner q = Direct (length (c_direct (fst (run (init g) evs))))
        /\ ((q_timer q = Some (length (c_timers C1) - 1)%nat
             /\ ~ In h (BrokerClient.t_fired (BrokerClient.s_t (b_st b)))
             /\ exists C', step (fst (run C1 evs2)) (ETimer (length (c_timers C1) - 1))
                           = (C', OReq (length (c_direct (fst (run (init g) evs)))) RTimedOut
                                   :: (if g_dot (c_cfg (fst (run C1 evs2))) && BrokerClient.s_proto (b_st b) then [OLose i] else [])))
            \/ (q_timer q = None /\ In h (BrokerClient.t_fired (BrokerClient.s_t (b_st b))))).
Proof.
  intros H NR. set (C0 := fst (run (init g) evs)) in *.
  pose proof (reachable_wf g evs) as T0. fold C0 in T0.
  split; [exact (proj1 (timer_at_issue C0 node expect mint C1 o1 H NR))|].
  destruct (issue_creates C0 node expect mint C1 o1 T0 H NR) as (i & h & q0 & Hd & Hq0 & Ho0 & _ & Ht0).
  exists i, h. split; [exact Hd|].
  destruct (Rtimer_run evs2 C1 i h q0 Hq0) as (q & Hq & Ho & Ht & _).
  assert (fst (run C1 evs2) = fst (run (init g) (evs ++ ESend node expect mint :: evs2))) as ER.
  { rewrite run_app'. fold C0. cbn [run]. rewrite H. destruct (run C1 evs2). reflexivity. }
  pose proof (reachable_wf g (evs ++ ESend node expect mint :: evs2)) as T. rewrite <- ER in T.
  unfold creq_at in Hq. destruct (nth_error (c_bcs (fst (run C1 evs2))) i) as [b|] eqn:Eb; [|discriminate].
  exists b, q. split; [reflexivity|]. split; [exact Hq|]. split; [congruence|].
  destruct (q_timer q) as [t|] eqn:Et.
  - left. assert (t = (length (c_timers C1) - 1)%nat) as ->.
    { destruct Ht as [Ht|Ht]; [|discriminate]. destruct Ht0 as [Ht0|Ht0]; congruence. }
    split; [reflexivity|]. split; [apply (armed_iff _ _ _ _ _ T Eb Hq); congruence|].
    destruct q as [ow tm to]. cbn in Et, Ho. subst tm. rewrite Ho0 in Ho. subst ow.
    destruct (bound_direct _ _ _ _ _ _ _ T Eb Hq) as (C' & Hs & _). exists C'. exact Hs.
  - right. split; [reflexivity|]. destruct (in_dec Nat.eq_dec h (BrokerClient.t_fired (BrokerClient.s_t (b_st b)))) as [F|F]; [exact F|].
    exfalso. apply (proj2 (armed_iff _ _ _ _ _ T Eb Hq) F). exact Et.
Qed.

Lemma c11_reply_first g evs i b h d t to rid payload cid r :
  nth_error (c_bcs (fst (run (init g) evs))) i = Some b -> nth_error (b_reqs b) h = Some (mkCreq (Direct d) (Some t) to) ->
  BrokerClient.s_proto (b_st b) = true -> BrokerClient.s_rxbuf (b_st b) = [] ->
  Z.of_nat (length (id4 rid ++ payload)) <= MAX_LENGTH -> corr_id (id4 rid ++ payload) = Some cid ->
  In r (BrokerClient.t_reqs (BrokerClient.s_t (b_st b))) -> BrokerClient.r_id r = cid -> BrokerClient.r_h r = h ->
  BrokerClient.r_cancelled r = false ->
  exists C', step (fst (run (init g) evs)) (EReply i rid payload) = (C', [OCancelTimer t; OReq d (RSucc (id4 rid ++ payload))])
    /\ exists b', nth_error (c_bcs C') i = Some b' /\ In h (BrokerClient.t_fired (BrokerClient.s_t (b_st b')))
                  /\ nth_error (b_reqs b') h = Some (mkCreq (Direct d) None to).
Proof. apply reply_first; [apply reachable_wf | apply Ito_reachable]. Qed.
