(* The monitor FIFO of Model/ConsumerLog.v through the continuations of the consumer model: inside any nested execution
   the blocks handed to the processor are taken, in order and without loss, from the front of
        <messages the current continuation still holds> ++ queued s ++ pext s
   as long as the consumer is alive; once it is dead (stopping / stopped / start Deferred fired) nothing is handed on.
   State facts (invariants 13 and 6, persistence of deadness) are imported from the PW simulation
   (Proofs/ConsumerC02Pw.v) for the same executions. *)
From Coq Require Import Lia.
From AV Require Import Base.Util Model.Consumer Model.ConsumerLog Model.ConsumerLogFifo Proofs.ConsumerC02Wp Proofs.ConsumerC02Pw.

Notation wf := (wp fifo_out).

(* ---------- 1. methods without re-entrancy: no processor invocation, the fetch offset is not touched ---------- *)
Definition NC (g : list Z) (s : state) {A} : res A -> list Z -> state -> Prop :=
  fun _ g' s' => g' = g /\ s_foff s' = s_foff s /\ s_shutting s' = s_shutting s /\ s_mblock s' = s_mblock s
                 /\ s_stopping s' = s_stopping s /\ is_some (s_startd s') = is_some (s_startd s).

Ltac f_emit :=
  lazymatch goal with
  | |- wp _ (emit _) _ _ _ => apply wp_emit; eexists; split; [ reflexivity | cbn beta iota ]
  end.
Ltac nc_call lem :=
  eapply wp_call; [ eapply lem; try reflexivity
                  | let r := fresh "r" in let H := fresh "P" in let H2 := fresh "P" in
                    intros r ? ? [H [H2 [? [? [? ?]]]]]; subst; destruct r; cbn beta iota ].
Ltac nc_done := try solve [ unfold NC in *; split; [ reflexivity | repeat split; psimpl; first [ congruence
  | repeat match goal with H : s_startd _ = _ |- _ => rewrite H in * end; cbn [is_some] in *; congruence ] ] ].
Ltac f_stif :=
  lazymatch goal with
  | |- wp _ _ _ _ ?st => match st with context [if ?b then _ else _] => let D := fresh "D" in destruct b eqn:D end
  end.
Ltac nc_walk call := repeat (first [ f_stif | f_emit | wp_step call ]).

Lemma n_startd_errback fk g s : wf (startd_errback fk) (NC g s) g s.
Proof. unfold startd_errback. nc_walk idtac. all: nc_done. Qed.
Ltac n1 := idtac; lazymatch goal with
  | |- wp _ (startd_errback _) _ _ _ => nc_call n_startd_errback end.
Lemma n_do_fetch g s : wf do_fetch (NC g s) g s.
Proof. unfold do_fetch. nc_walk n1. all: nc_done. Qed.
Lemma n_retry_fetch z g s : wf (retry_fetch z) (NC g s) g s.
Proof. unfold retry_fetch. nc_walk n1. all: nc_done. Qed.
Ltac n3 := idtac; first [ n1 | lazymatch goal with
  | |- wp _ do_fetch _ _ _ => nc_call n_do_fetch
  | |- wp _ (retry_fetch _) _ _ _ => nc_call n_retry_fetch end ].
Lemma n_handle_offset_error fk g s : wf (handle_offset_error fk) (NC g s) g s.
Proof. unfold handle_offset_error. nc_walk n3. all: nc_done. Qed.
Lemma n_handle_fetch_error fk g s : is_oor fk = false -> wf (handle_fetch_error fk) (NC g s) g s.
Proof. intro NO. unfold handle_fetch_error. rewrite NO. nc_walk n3. all: nc_done. Qed.
Lemma n_handle_auto_commit_error fk g s : wf (handle_auto_commit_error fk) (NC g s) g s.
Proof. unfold handle_auto_commit_error. nc_walk n3. all: nc_done. Qed.
Lemma n_handle_processor_error fk g s : wf (handle_processor_error fk) (NC g s) g s.
Proof. unfold handle_processor_error. nc_walk n3. all: nc_done. Qed.
Lemma n_send_commit_request i a g s : wf (send_commit_request i a) (NC g s) g s.
Proof. unfold send_commit_request. nc_walk n3. all: nc_done. Qed.
Ltac n4 := idtac; first [ n3 | lazymatch goal with
  | |- wp _ (handle_offset_error _) _ _ _ => nc_call n_handle_offset_error
  | |- wp _ (handle_fetch_error FK_CANCELLED) _ _ _ => nc_call n_handle_fetch_error
  | |- wp _ (handle_auto_commit_error _) _ _ _ => nc_call n_handle_auto_commit_error
  | |- wp _ (handle_processor_error _) _ _ _ => nc_call n_handle_processor_error
  | |- wp _ (send_commit_request _ _) _ _ _ => nc_call n_send_commit_request end ].
Lemma n_commit x g s : wf (commit x) (NC g s) g s.
Proof. unfold commit. nc_walk n4. all: nc_done. Qed.
Ltac n5 := idtac; first [ n4 | lazymatch goal with
  | |- wp _ (commit _) _ _ _ => nc_call n_commit end ].
Lemma n_auto_commit bc g s : wf (auto_commit bc) (NC g s) g s.
Proof. unfold auto_commit. nc_walk n5. all: nc_done. Qed.
Ltac n6 := idtac; first [ n5 | lazymatch goal with
  | |- wp _ (auto_commit _) _ _ _ => nc_call n_auto_commit end ].
Lemma n_proc_chain l fk g s : wf (proc_chain l fk) (NC g s) g s.
Proof. unfold proc_chain. nc_walk n6. all: nc_done. Qed.
Lemma n_emit_shutd ok v lc g s : wf (emit_shutd (OShutD ok v lc)) (NC g s) g s.
Proof. unfold emit_shutd. nc_walk n6. all: nc_done. Qed.
Ltac n7 := idtac; first [ n6 | lazymatch goal with
  | |- wp _ (proc_chain _ _) _ _ _ => nc_call n_proc_chain
  | |- wp _ (emit_shutd (OShutD _ _ _)) _ _ _ => nc_call n_emit_shutd
  | |- wp _ (emit_shutd (match ?x with _ => _ end)) _ _ _ => destruct x end ].
Lemma n_interrupted g s : wf interrupted (fun _ g' s' => g' = g /\ s_foff s' = s_foff s) g s.
Proof. unfold interrupted. nc_walk n7. all: try solve [ split; [ reflexivity | psimpl; congruence ] ]. Qed.
Lemma n_stop_rcall g s : wf stop_rcall (NC g s) g s.
Proof. unfold stop_rcall. nc_walk n7. all: nc_done. Qed.
Lemma n_stop_ccall g s : wf stop_ccall (NC g s) g s.
Proof. unfold stop_ccall. nc_walk n7. all: nc_done. Qed.
Lemma n_stop_looper g s : wf stop_looper (NC g s) g s.
Proof. unfold stop_looper. nc_walk n7. all: nc_done. Qed.
Lemma n_stop_susp g s : wf stop_susp (NC g s) g s.
Proof. unfold stop_susp. nc_walk n7. all: nc_done. Qed.
Lemma n_stop_req g s : wf stop_req (NC g s) g s.
Proof. unfold stop_req. nc_walk n7. all: nc_done. Qed.

(* ---------- 2. the same methods with the state facts of the PW simulation ---------- *)
Notation JJ := (PInv (false, false) None).
(* for what reaches the processor a consumer that is shutting down counts as dead too: the rest of its block is dropped *)
Definition dead2 (s : state) : bool := dead s || s_shutting s.
Definition mono (s s' : state) : Prop := dead2 s = true -> dead2 s' = true.
Lemma mono_of s s' : (dead s = true -> dead s' = true) -> s_shutting s' = s_shutting s -> mono s s'.
Proof. unfold mono, dead2. intros M E. rewrite E. destruct (dead s); [rewrite (M eq_refl); reflexivity|]. cbn. intros ->. apply orb_true_r. Qed.
Lemma dead2_of s : dead s = true -> dead2 s = true.
Proof. unfold dead2. intros ->. reflexivity. Qed.
Lemma alive_of s : dead2 s = false -> dead s = false.
Proof. unfold dead2. destruct (dead s); [discriminate | reflexivity]. Qed.
Definition EL (g : list Z) (s : state) {A} : res A -> list Z -> state -> Prop :=
  fun _ g' s' => g' = g /\ s_foff s' = s_foff s /\ JJ s' /\ Fp s s' /\ mono s s' /\ (dead s = true -> dead s' = true).

Lemma JJ_mode s : JJ s -> PInv (dead s, false) None s.
Proof. intro K. psolve. Qed.
Lemma mode_JJ (a b : bool) s : PInv (a, b) None s -> JJ s.
Proof. intro K. psolve. Qed.
Lemma mode_monod s (b : bool) s' : PInv (dead s, b) None s' -> dead s = true -> dead s' = true.
Proof. intros K D. rewrite D in K. apply (PInv_dead _ _ _ _ K eq_refl). Qed.
Lemma mode_mono s (b : bool) s' : PInv (dead s, b) None s' -> s_shutting s' = s_shutting s -> mono s s'.
Proof. intros K E. apply mono_of; auto. eapply mode_monod; eauto. Qed.

(* a method with the PW specification PF and no processor invocation *)
Lemma e_of_pf {A} (f : M A) g s :
  (forall d, PInv d None s -> ww f (PF d None s) (pw_abs None s) s) -> (wf f (NC g s) g s) ->
  JJ s -> wf f (EL g s) g s.
Proof.
  intros Hpw Hnc K. eapply wp_conseq.
  - eapply (wp_strengthen _ _ _ (fun r s' => PInv (dead s, false) None s' /\ Fp s s')); [| exact Hnc].
    intros r s' o E F. destruct (Hpw _ (JJ_mode _ K) r s' o E F) as (gp & _ & ((_ & HP) & FP & _)). split; auto.
  - intros r g' s' [[-> [HF [HS _]]] [HP FP]]. unfold EL. split; [reflexivity|]. split; [exact HF|].
    split; [eapply mode_JJ; eauto|]. split; [exact FP | split; [eapply mode_mono; eauto | eapply mode_monod; eauto]].
Qed.

Lemma e_startd_errback fk g s : JJ s -> wf (startd_errback fk) (EL g s) g s.
Proof.
  intro K. eapply wp_conseq.
  - eapply (wp_strengthen _ _ _ (fun r s' => PInv (dead s, false) None s' /\ Fp s s')); [| apply n_startd_errback].
    intros r s' o E F. destruct (p_startd_errback fk _ None s (JJ_mode _ K) r s' o E F) as (gp & _ & ((_ & HP) & FP & _)). split; auto.
  - intros r g' s' [[-> [HF [HS _]]] [HP FP]]. unfold EL. split; [reflexivity|]. split; [exact HF|].
    split; [eapply mode_JJ; eauto|]. split; [exact FP | split; [eapply mode_mono; eauto | eapply mode_monod; eauto]].
Qed.
Lemma e_retry_fetch z g s : JJ s -> wf (retry_fetch z) (EL g s) g s.
Proof. apply e_of_pf; [intros; apply p_retry_fetch; auto | apply n_retry_fetch]. Qed.
Lemma e_handle_auto_commit_error fk g s : JJ s -> wf (handle_auto_commit_error fk) (EL g s) g s.
Proof. apply e_of_pf; [intros; apply p_handle_auto_commit_error; auto | apply n_handle_auto_commit_error]. Qed.
Lemma e_commit x g s : JJ s -> wf (commit x) (EL g s) g s.
Proof. apply e_of_pf; [intros; apply p_commit; auto | apply n_commit]. Qed.
Lemma e_auto_commit bc g s : JJ s -> wf (auto_commit bc) (EL g s) g s.
Proof. apply e_of_pf; [intros; apply p_auto_commit; auto | apply n_auto_commit]. Qed.
Lemma e_emit_shutd ok v lc g s : JJ s -> wf (emit_shutd (OShutD ok v lc)) (EL g s) g s.
Proof. apply e_of_pf; [intros; apply p_emit_shutd; auto | apply n_emit_shutd]. Qed.
(* shutdown's "interrupted by stop" continuation clears the shutting-down flag: it runs only in a dead state *)
Lemma e_interrupted g s : JJ s -> dead s = true -> wf interrupted (EL g s) g s.
Proof.
  intros K D. eapply wp_conseq.
  - eapply (wp_strengthen _ _ _ (fun r s' => PInv (dead s, false) None s' /\ Fp s s')); [| apply n_interrupted].
    intros r s' o E F. destruct (p_interrupted _ None s (JJ_mode _ K) r s' o E F) as (gp & _ & ((_ & HP) & FP & _)). split; auto.
  - intros r g' s' [[-> HF] [HP FP]]. unfold EL. split; [reflexivity|]. split; [exact HF|].
    split; [eapply mode_JJ; eauto|]. split; [exact FP |].
    assert (D' : dead s' = true) by (rewrite D in HP; apply (PInv_dead _ _ _ _ HP eq_refl)).
    split; [intros _; apply dead2_of; exact D' | intros _; exact D'].
Qed.
Lemma e_stop_rcall g s : JJ s -> wf stop_rcall (EL g s) g s.
Proof. apply e_of_pf; [intros; apply p_stop_rcall; auto | apply n_stop_rcall]. Qed.
Lemma e_stop_ccall g s : JJ s -> wf stop_ccall (EL g s) g s.
Proof. apply e_of_pf; [intros; apply p_stop_ccall; auto | apply n_stop_ccall]. Qed.
Lemma e_stop_looper g s : JJ s -> wf stop_looper (EL g s) g s.
Proof. apply e_of_pf; [intros; apply p_stop_looper; auto | apply n_stop_looper]. Qed.
Lemma e_stop_susp g s : JJ s -> wf stop_susp (EL g s) g s.
Proof. apply e_of_pf; [intros; apply p_stop_susp; auto | apply n_stop_susp]. Qed.

(* ---------- 3. the re-entrant methods ---------- *)
(* coupling: alive => the monitor's list is what the continuation still holds (q), then the rest of the block in
   progress, then the messages of the parked reply *)
Definition C (q g : list Z) (s : state) : Prop := dead2 s = false -> g = q ++ queued s ++ pext s.
Definition kq (k : kont) : list Z := match k with KProcLoop msgs => msgs | _ => [] end.
Definition PreE (k : kont) (g : list Z) (s : state) : Prop :=
  JJ s /\
  match k with
  | KStop => True                 (* stop() needs no coupling: it hands nothing on and leaves the consumer dead *)
  | KProcLoop msgs => loop_ok s /\ C msgs g s
  | KFetchResp offs _ => parked s = false /\ (dead2 s = false -> g = queued s ++ fst (extract (s_foff s) offs))
  | _ => C [] g s
  end.
(* relation between the state/monitor at the start of a method and at a later point of it *)
Definition Relq (q : list Z) (s0 : state) (g0 : list Z) (s : state) (g : list Z) : Prop :=
  JJ s /\ mono s0 s /\ (dead2 s0 = true -> g = g0) /\ C q g s.
Notation Rel := (Relq []).
Definition PostE (k : kont) (g : list Z) (s : state) : res unit -> list Z -> state -> Prop :=
  fun _ g' s' => Rel s g s' g' /\ (k = KStop -> g' = g /\ dead s' = true).

Lemma C_dead q g s : dead2 s = true -> C q g s.
Proof. intros D H. rewrite D in H. discriminate H. Qed.
Lemma C_frame q g s s' : Fp s s' -> s_foff s' = s_foff s -> mono s s' -> C q g s -> C q g s'.
Proof.
  intros (F1 & F2 & _) F3 M Hc D. unfold queued, pext. rewrite F1, F2, F3. apply Hc.
  destruct (dead2 s) eqn:E; [rewrite (M E) in D; discriminate D | reflexivity].
Qed.
Lemma Rel_refl s g : JJ s -> C [] g s -> Rel s g s g.
Proof. intros K Hc. repeat split; auto. intro; auto. Qed.
Lemma Rel_leaf {A} q s0 g0 s g (r : res A) g' s' : Relq q s0 g0 s g -> EL g s r g' s' -> Relq q s0 g0 s' g'.
Proof.
  intros (K & M & G & Hc) (-> & F3 & K' & FP & M' & _). repeat split; auto.
  - intro D. apply M', M, D.
  - eapply C_frame; eauto.
Qed.
Lemma Rel_trans q s0 g0 s g g' s' : mono s0 s -> (dead2 s0 = true -> g = g0) -> Relq q s g s' g' -> Relq q s0 g0 s' g'.
Proof.
  intros M G (K' & M' & G' & Hc'). repeat split; auto.
  - intro D. apply M', M, D.
  - intro D. rewrite (G' (M D)). auto.
Qed.
Lemma Rel_rec q0 s0 g0 s g g' s' : Relq q0 s0 g0 s g -> Rel s g s' g' -> Rel s0 g0 s' g'.
Proof. intros (K & M & G & Hc). apply Rel_trans; auto. Qed.

(* [Rel] across an explicit update of fields the coupling does not read *)
Ltac relupd :=
  match goal with
  | R : Relq ?q ?s0 ?g0 _ _ |- Relq ?q ?s0 ?g0 _ _ =>
    let K := fresh "K" in let M := fresh "M" in let G := fresh "G" in let Hc := fresh "Hc" in
    destruct R as (K & M & G & Hc); split; [| split; [| split]];
    [ solve [ unfold PInv, inv13b, inv6b, dead, startd_unfired in *; psimpl; first [ assumption | congruence ] | psolve ]
    | solve [ unfold mono, dead2, dead, startd_unfired in *; psimpl; assumption ]
    | assumption
    | solve [ unfold C, dead2, dead, startd_unfired, queued, pext in *; psimpl; assumption ] ]
  end.
Ltac cur_rel st :=
  lazymatch goal with
  | R : Relq ?q ?s0 ?g0 st ?g |- _ => idtac
  | R : Relq ?q ?s0 ?g0 _ ?g |- _ => let R' := fresh "R" in assert (R' : Relq q s0 g0 st g) by relupd; clear R
  end.
Ltac r_leaf lem :=
  lazymatch goal with
  | |- wp _ _ _ ?g ?st =>
    cur_rel st;
    match goal with
    | R : Relq ?q ?s0 ?g0 st g |- _ =>
      eapply wp_call; [ eapply lem; exact (proj1 R)
                      | let r := fresh "r" in let H := fresh "H" in
                        intros r ? ? H; apply (Rel_leaf _ _ _ _ _ _ _ _ R) in H; clear R; destruct r; cbn beta iota ]
    end
  end.
Ltac dead_from_branch :=
  unfold dead, startd_unfired; psimpl;
  match goal with D : s_stopping ?s || negb (is_some (s_startd ?s)) = true |- _ =>
    apply orb_true_iff in D; destruct D as [D | D]; [ rewrite D; reflexivity | destruct (s_startd s); [ discriminate D | apply orb_true_r ] ] end.
Ltac r_leaf_int :=
  lazymatch goal with
  | |- wp _ _ _ ?g ?st =>
    cur_rel st;
    match goal with
    | R : Relq ?q ?s0 ?g0 st g |- _ =>
      eapply wp_call; [ eapply e_interrupted; [ exact (proj1 R) | solve [dead_from_branch] ]
                      | let r := fresh "r" in let H := fresh "H" in
                        intros r ? ? H; apply (Rel_leaf _ _ _ _ _ _ _ _ R) in H; clear R; destruct r; cbn beta iota ]
    end
  end.

Ltac r_walk call := repeat (first [ f_stif | f_emit | wp_step call ]).
Ltac r_done := try solve [ unfold PostE; split; [ relupd | intro; discriminate ] | relupd ].
Section Rec.
Variable rec : kont -> M unit.
Hypothesis HrecW : forall k d w g s, PreD k d w g s -> ww (rec k) (PostD k d w s) g s.
Hypothesis HrecE : forall k g s, PreE k g s -> wf (rec k) (PostE k g s) g s.

(* a nested continuation other than KFetchResp / KProcLoop, from a point of the current method *)
Lemma E_rec k s0 g0 s g (Q : res unit -> list Z -> state -> Prop) :
  match k with KProcLoop _ | KFetchResp _ _ => False | _ => True end ->
  Rel s0 g0 s g -> (forall r g' s', Rel s0 g0 s' g' -> Q r g' s') -> wf (rec k) Q g s.
Proof.
  intros Hk R HQ. eapply wp_conseq; [ apply HrecE |].
  - destruct R as (K & _ & _ & Hc). split; [exact K|]. destruct k; try contradiction; first [ exact Hc | exact I ].
  - intros r g' s' [H _]. apply HQ. eapply Rel_rec; eauto.
Qed.

Ltac r_rec :=
  lazymatch goal with
  | |- wp _ (rec ?k) _ ?g ?st =>
    cur_rel st;
    match goal with
    | R : Rel ?s0 ?g0 st g |- _ =>
      eapply (E_rec k s0 g0 st g); [ exact I | exact R
                                   | let r := fresh "r" in let H := fresh "R" in intros r ? ? H; clear R; destruct r; cbn beta iota ]
    end
  end.
Ltac r_calls := idtac; lazymatch goal with
  | |- wp _ (startd_errback _) _ _ _ => r_leaf e_startd_errback
  | |- wp _ (retry_fetch _) _ _ _ => r_leaf e_retry_fetch
  | |- wp _ (handle_auto_commit_error _) _ _ _ => r_leaf e_handle_auto_commit_error
  | |- wp _ (commit _) _ _ _ => r_leaf e_commit
  | |- wp _ (auto_commit _) _ _ _ => r_leaf e_auto_commit
  | |- wp _ (emit_shutd (OShutD _ _ _)) _ _ _ => r_leaf e_emit_shutd
  | |- wp _ (emit_shutd (match ?x with _ => _ end)) _ _ _ => destruct x
  | |- wp _ interrupted _ _ _ => r_leaf_int
  | |- wp _ stop_rcall _ _ _ => r_leaf e_stop_rcall
  | |- wp _ stop_ccall _ _ _ => r_leaf e_stop_ccall
  | |- wp _ stop_looper _ _ _ => r_leaf e_stop_looper
  | |- wp _ stop_susp _ _ _ => r_leaf e_stop_susp
  | |- wp _ (rec (KProcLoop _)) _ _ _ => fail
  | |- wp _ (rec (KFetchResp _ _)) _ _ _ => fail
  | |- wp _ (rec _) _ _ _ => r_rec
  end.

Lemma f_handle_commit_error fk i a s0 g0 s g : Rel s0 g0 s g ->
  wf (handle_commit_error rec fk i a) (fun _ g' s' => Rel s0 g0 s' g') g s.
Proof. intro R. unfold handle_commit_error. r_walk r_calls. all: r_done. Qed.
Lemma f_fire_all ds cr s0 g0 s g : Rel s0 g0 s g ->
  wf (fire_all rec ds cr) (fun _ g' s' => Rel s0 g0 s' g') g s.
Proof.
  revert s g. induction ds as [|x ds IH]; intros s g R; cbn [fire_all].
  - r_walk r_calls. all: r_done.
  - r_walk r_calls. all: try (apply IH; assumption). all: r_done.
Qed.
Ltac r_calls2 := idtac; first [ r_calls | lazymatch goal with
  | |- wp _ (handle_commit_error _ _ _ _) _ ?g ?st =>
    cur_rel st; match goal with R : Rel ?s0 ?g0 st g |- _ =>
      eapply wp_call; [ apply (f_handle_commit_error _ _ _ s0 g0 st g R)
                      | let r := fresh "r" in let H := fresh "R" in intros r ? ? H; clear R; destruct r; cbn beta iota ] end
  | |- wp _ (fire_all _ _ _) _ ?g ?st =>
    cur_rel st; match goal with R : Rel ?s0 ?g0 st g |- _ =>
      eapply wp_call; [ apply (f_fire_all _ _ s0 g0 st g R)
                      | let r := fresh "r" in let H := fresh "R" in intros r ? ? H; clear R; destruct r; cbn beta iota ] end
  end ].
Lemma f_stop_creq s0 g0 s g : Rel s0 g0 s g -> wf (stop_creq rec) (fun _ g' s' => Rel s0 g0 s' g') g s.
Proof. intro R. unfold stop_creq. r_walk r_calls2. all: r_done. Qed.

Lemma f_body_KStopCds g s : PreE KStopCds g s -> wf (body rec KStopCds) (PostE KStopCds g s) g s.
Proof. intros [K Hc]. pose proof (Rel_refl s g K Hc) as R. cbn [body]. r_walk r_calls2. all: r_done. Qed.
Lemma f_body_KCommitAndStop g s : PreE KCommitAndStop g s -> wf (body rec KCommitAndStop) (PostE KCommitAndStop g s) g s.
Proof. intros [K Hc]. pose proof (Rel_refl s g K Hc) as R. cbn [body]. r_walk r_calls2. all: r_done. Qed.
(* stop() from a point of the current method: nothing handed on, the consumer is dead afterwards *)
Lemma E_stop s0 g0 s g (Q : res unit -> list Z -> state -> Prop) :
  Relq [] s0 g0 s g -> (forall r g' s', Rel s0 g0 s' g' -> dead s' = true -> Q r g' s') -> wf (rec KStop) Q g s.
Proof.
  intros R HQ. eapply wp_conseq; [ apply (HrecE KStop); split; [exact (proj1 R) | exact I] |].
  intros r g' s' [H HS]. destruct (HS eq_refl) as [-> D]. apply HQ; [| exact D]. eapply Rel_rec; eauto.
Qed.
Lemma Rel_unshut s0 g0 s g : Rel s0 g0 s g -> dead s = true -> Rel s0 g0 (set_shutting false s) g.
Proof.
  intros (K & M & G & Hc) D. split; [clear - K; psolve | split; [| split]].
  - intros D0. unfold dead2, dead, startd_unfired in *. psimpl. rewrite D. reflexivity.
  - exact G.
  - apply C_dead. unfold dead2, dead, startd_unfired in *. psimpl. rewrite D. reflexivity.
Qed.
Lemma f_body_KShutFinish fk g s : PreE (KShutFinish fk) g s -> wf (body rec (KShutFinish fk)) (PostE (KShutFinish fk) g s) g s.
Proof.
  intros [K Hc]. pose proof (Rel_refl s g K Hc) as R. cbn [body]. unfold PostE.
  apply wp_bind, wp_get. cbn beta iota.
  destruct (s_stopping s || negb (is_some (s_startd s))) eqn:D.
  - r_walk r_calls2. all: r_done.
  - match goal with |- wp _ (if ?b then _ else _) _ _ _ => destruct b end.
    { (* more was processed while shutdown's commit was under way: commit again *) r_walk r_calls2. all: r_done. }
    apply wp_bind, wp_upd. cbn beta iota. apply wp_bind.
    assert (R1 : Rel s g (set_shutd false s) g) by relupd. clear R.
    apply (E_stop s g _ g _ R1). intros r1 g1 s1 R2 D1. destruct r1; cbn beta iota; [| split; [exact R2 | intro E; discriminate E]].
    apply wp_bind, wp_upd. cbn beta iota.
    pose proof (Rel_unshut _ _ _ _ R2 D1) as R. clear R1 R2.
    r_walk r_calls2. all: r_done.
Qed.
Lemma f_body_KFireCd x cr g s : PreE (KFireCd x cr) g s -> wf (body rec (KFireCd x cr)) (PostE (KFireCd x cr) g s) g s.
Proof. intros [K Hc]. pose proof (Rel_refl s g K Hc) as R. cbn [body]. r_walk r_calls2. all: r_done. Qed.
Lemma f_body_KDeliver cr g s : PreE (KDeliver cr) g s -> wf (body rec (KDeliver cr)) (PostE (KDeliver cr) g s) g s.
Proof. intros [K Hc]. pose proof (Rel_refl s g K Hc) as R. cbn [body]. r_walk r_calls2. all: r_done. Qed.


(* the end of a block: the parked reply, if any, is extracted next *)
Lemma f_finish_block s0 g0 s g : Rel s0 g0 s g -> dead s || negb (is_some (s_proc s)) = true ->
  wf (finish_block rec) (fun _ g' s' => Rel s0 g0 s' g') g s.
Proof.
  intros R N. unfold finish_block. apply wp_bind, wp_get. cbn beta iota.
  destruct (s_mblock s) as [pk|] eqn:MB; [| apply wp_ret; exact R].
  apply wp_bind, wp_upd. cbn beta iota.
  assert (K1 : JJ (set_mblock None s)) by (destruct R as (K & _); clear - K N; psolve).
  destruct R as (K & M & G & Hc).
  assert (DD : dead2 (set_mblock None s) = dead2 s) by reflexivity.
  assert (M1 : mono s0 (set_mblock None s)) by (intro D; rewrite DD; auto).
  destruct pk as [[offs ts]|].
  - apply wp_swallow. eapply wp_conseq; [ apply (HrecE (KFetchResp offs ts)) |].
    + split; [exact K1|]. split; [unfold parked; psimpl; reflexivity|]. intro D. rewrite DD in D.
      rewrite (Hc D). unfold queued, pext. psimpl. rewrite MB. reflexivity.
    + intros r g' s' [H _]. eapply Rel_trans; [exact M1 | exact G | exact H].
  - apply wp_ret. split; [exact K1 | split; [exact M1 | split; [exact G|]]].
    intro D. rewrite DD in D. rewrite (Hc D). unfold queued, pext. psimpl. rewrite MB. reflexivity.
Qed.

(* a Failure that the processor's errback chain cannot deliver to the start Deferred: the start Deferred had fired *)
Lemma x_startd_errback fk g s :
  wf (startd_errback fk) (fun r _ s' => (exists k, r = Exc k) -> startd_unfired s' = false) g s.
Proof.
  unfold startd_errback. nc_walk idtac.
  all: try solve [ intros [k E]; discriminate E ].
  all: intros _; unfold startd_unfired; psimpl; rewrite D; reflexivity.
Qed.
Lemma x_handle_processor_error fk g s :
  wf (handle_processor_error fk) (fun r _ s' => (exists k, r = Exc k) -> startd_unfired s' = false) g s.
Proof.
  unfold handle_processor_error. apply wp_bind, wp_get. cbn beta iota.
  destruct (s_stopping s && is_cancel fk); [ apply wp_ret; intros [k E]; discriminate E |].
  destruct (s_startd s); [ apply x_startd_errback | apply wp_ret; intros [k E]; discriminate E ].
Qed.
Lemma x_proc_chain l fk g s :
  wf (proc_chain l fk) (fun r _ s' => forall k, r = Ok (Some k) -> startd_unfired s' = false) g s.
Proof.
  unfold proc_chain. apply wp_bind, wp_upd. cbn beta iota. apply wp_bind.
  assert (FIN : forall r1 g1 s1,
            wf (match r1 with
                | None => ret None
                | Some k => r <- try (handle_processor_error k);; ret match r with Ok _ => None | Exc k' => Some k' end
                end) (fun r _ s' => forall k, r = Ok (Some k) -> startd_unfired s' = false) g1 s1).
  { intros [k1|] g1 s1.
    - apply wp_bind, wp_try. eapply wp_conseq; [ apply x_handle_processor_error |].
      intros r g' s' H. cbn beta iota. apply wp_ret. intros k E. destruct r; [discriminate E|]. apply H. eauto.
    - apply wp_ret. intros k E. discriminate E. }
  destruct fk as [k0|].
  - apply wp_ret. cbn beta iota. apply (FIN (Some k0)).
  - apply wp_bind, wp_try. eapply wp_conseq; [ apply (wp_bind _ _ _ _ _ _) |].
    2:{ intros r g' s' H. exact H. }
    apply wp_upd. cbn beta iota. eapply wp_conseq; [ apply n_auto_commit |].
    intros r g' s' _. apply wp_ret. cbn beta iota. destruct r as [a|k1]; [apply (FIN None) | apply (FIN (Some k1))].
Qed.
Lemma ok_proc_chain l fk g s : wf (proc_chain l fk) (fun r _ _ => exists a, r = Ok a) g s.
Proof. unfold proc_chain. nc_walk n6. all: eauto. Qed.

Lemma wp_and {G A} (gout : G -> output -> option G) (m : M A) (Q1 Q2 : res A -> G -> state -> Prop) g s :
  wp gout m Q1 g s -> wp gout m Q2 g s -> wp gout m (fun r g' s' => Q1 r g' s' /\ Q2 r g' s') g s.
Proof.
  intros H1 H2 r s' o E F. destruct (H1 _ _ _ E F) as (g1 & G1 & q1). destruct (H2 _ _ _ E F) as (g2 & G2 & q2).
  rewrite G1 in G2. inversion G2; subst. eauto.
Qed.

Lemma e_proc_chain l fk g s : PInvF (dead s, false) s ->
  wf (proc_chain l fk)
     (fun r g' s' => g' = g /\ s_foff s' = s_foff s /\ JJ s' /\ s_proc s' = None /\ s_mblock s' = s_mblock s /\ mono s s'
                     /\ (dead s = true -> dead s' = true)
                     /\ (forall k, r = Ok (Some k) -> dead s' = true) /\ (exists a, r = Ok a)) g s.
Proof.
  intro K. eapply wp_conseq.
  - eapply (wp_strengthen _ _ _ (fun r s' => PInv (dead s, dead s) None s' /\ s_proc s' = None /\ s_mblock s' = s_mblock s)).
    + intros r s' o E F. destruct (p_proc_chain l fk _ s K r s' o E F) as (gp & _ & ((_ & HP) & N & MB & _)). auto.
    + apply wp_and; [ apply wp_and; [ apply n_proc_chain | apply x_proc_chain ] | apply ok_proc_chain ].
  - intros r g' s' [[[[-> [HF [HS _]]] HX] HO] (HP & N & MB)]. cbn [fst] in HP.
    split; [reflexivity|]. split; [exact HF|]. split; [eapply mode_JJ; eauto|]. split; [exact N|]. split; [exact MB|].
    assert (MD : dead s = true -> dead s' = true) by (intro D; rewrite D in HP; apply (PInv_dead _ _ _ _ HP eq_refl)).
    split; [| split; [exact MD | split; [| exact HO]]].
    + apply mono_of; [exact MD | exact HS].
    + intros k E. unfold dead. rewrite (HX k E). cbn. apply orb_true_r.
Qed.

Lemma JJ_PInvF s : JJ s -> PInvF (dead s, false) s.
Proof. intro K. apply (PInvF_of _ None). apply JJ_mode. exact K. Qed.
Lemma alive_back s s' : mono s s' -> dead2 s' = false -> dead2 s = false.
Proof. intros M D. destruct (dead2 s) eqn:E; [rewrite (M E) in D; discriminate D | reflexivity]. Qed.

Lemma f_body_KFireProc fk g s : PreE (KFireProc fk) g s ->
  wf (body rec (KFireProc fk)) (PostE (KFireProc fk) g s) g s.
Proof.
  intros [K Hc]. cbn [body]. unfold PostE. apply wp_bind, wp_get. cbn beta iota.
  destruct (s_proc s) as [[[last rest] cont]|] eqn:SP.
  2:{ apply wp_ret. split; [apply Rel_refl; auto | intro E; discriminate E]. }
  apply wp_bind. eapply wp_call; [ apply (e_proc_chain last fk g s (JJ_PInvF _ K)) |].
  intros r g1 s1 (-> & F3 & K1 & N1 & MB1 & M1 & MD1 & DX & [a ->]). cbn beta iota.
  (* the rest of the block is now held by this continuation *)
  assert (C1 : C rest g s1).
  { intro D. pose proof (alive_back _ _ M1 D) as D0. rewrite (Hc D0). unfold queued, pext. rewrite N1, SP, MB1, F3. reflexivity. }
  assert (L1 : loop_ok s1).
  { unfold loop_ok. destruct (dead s1) eqn:D; [reflexivity|]. rewrite N1, MB1. cbn.
    destruct (dead s) eqn:D0; [pose proof (MD1 eq_refl) as D9; discriminate D9|].
    apply (PInv_13 _ _ _ K D0). rewrite SP. reflexivity. }
  apply wp_bind.
  assert (Hloop : forall Q : res unit -> list Z -> state -> Prop,
            (forall g2 s2, Rel s g s2 g2 -> Q (Ok tt) g2 s2) ->
            wf (match a with None => swallow (rec (KProcLoop rest)) | Some _ => ret tt end) Q g s1).
  { intros Q HQ. destruct a as [k|].
    - apply wp_ret. apply HQ. split; [exact K1 | split; [exact M1 | split; [auto|]]]. apply C_dead, dead2_of. apply (DX k eq_refl).
    - apply wp_swallow. eapply wp_conseq; [ apply (HrecE (KProcLoop rest)); repeat split; auto |].
      intros r0 g2 s2 [H2 _]. apply HQ. eapply Rel_trans; [exact M1 | auto | exact H2]. }
  apply Hloop. intros g2 s2 R2. cbn beta iota.
  destruct cont.
  - apply wp_swallow. eapply (E_rec KCommitAndStop s g s2 g2); [exact I | exact R2 |].
    intros r0 g3 s3 R3. split; [exact R3 | intro E; discriminate E].
  - apply wp_ret. split; [exact R2 | intro E; discriminate E].
Qed.

Lemma f_body_KFetchResp offs ts g s : PreE (KFetchResp offs ts) g s ->
  wf (body rec (KFetchResp offs ts)) (PostE (KFetchResp offs ts) g s) g s.
Proof.
  intros (K & NP & Hc). cbn [body]. unfold PostE.
  apply wp_bind, wp_upd. cbn beta iota. apply wp_bind, wp_get. cbn beta iota. psimpl.
  destruct (s_mblock s) as [pk|] eqn:MB.
  - (* a block is in progress: the reply is parked *)
    apply wp_upd. split; [| intro E; discriminate E].
    assert (pk = None) as -> by (destruct pk as [pk|]; [unfold parked in NP; rewrite MB in NP; discriminate NP | reflexivity]).
    split; [| split; [| split]].
    + clear - K MB. psolve.
    + intro D. exact D.
    + auto.
    + intro D. change (dead2 s = false) in D. rewrite (Hc D). unfold queued, pext. psimpl. reflexivity.
  - (* the messages at or above the fetch offset are extracted; the fetch offset moves past them *)
    apply wp_bind, wp_upd. cbn beta iota. destruct (extract (s_foff s) offs) as [msgs foff'] eqn:EX. cbn [fst] in Hc.
    apply wp_bind, wp_upd. cbn beta iota.
    assert (SPn : dead s = false -> s_proc s = None).
    { intro D. pose proof (PInv_13 _ _ _ K D) as H13. rewrite MB in H13. destruct (s_proc s); [specialize (H13 eq_refl); discriminate H13 | reflexivity]. }
    set (s1 := set_foff foff' (set_req None (set_att 1 (set_ridx 0 s)))).
    assert (K1 : JJ s1) by (clear - K; subst s1; psolve).
    assert (DD : dead s1 = dead s) by reflexivity.
    assert (DD2 : dead2 s1 = dead2 s) by reflexivity.
    assert (SP1 : s_proc s1 = s_proc s) by reflexivity.
    assert (MB1 : s_mblock s1 = None) by (subst s1; psimpl; exact MB).
    assert (N1 : dead s1 || negb (is_some (s_proc s1)) = true).
    { rewrite DD, SP1. destruct (dead s) eqn:D; [reflexivity|]. rewrite (SPn eq_refl). reflexivity. }
    assert (R1 : Relq msgs s g s1 g).
    { split; [exact K1 | split; [| split]].
      - intro D. rewrite DD2. exact D.
      - auto.
      - intro D. rewrite DD2 in D. rewrite (Hc D). unfold queued, pext. rewrite SP1, MB1, (SPn (alive_of _ D)). cbn. rewrite app_nil_r. reflexivity. }
    clearbody s1. clear K Hc NP MB EX.
    (* a block of extracted messages goes to KProcLoop from a state with no block in progress *)
    assert (LOOP : forall m0 ml s2 (Q : res unit -> list Z -> state -> Prop),
              Relq (m0 :: ml) s g s2 g -> s_mblock s2 = None -> dead s2 || negb (is_some (s_proc s2)) = true ->
              (forall g3 s3, Rel s g s3 g3 -> Q (Ok tt) g3 s3) ->
              wf (upd (set_mblock (Some None));;; swallow (rec (KProcLoop (m0 :: ml)))) Q g s2).
    { intros m0 ml s2 Q (K2 & M2 & G2 & C2) MB2 N2 HQ. apply wp_bind, wp_upd. cbn beta iota. apply wp_swallow.
      eapply wp_conseq; [ apply (HrecE (KProcLoop (m0 :: ml))) |].
      - split; [clear - K2 MB2; psolve|]. split.
        + unfold loop_ok. change (dead (set_mblock (Some None) s2)) with (dead s2). psimpl.
          destruct (dead s2); [reflexivity|]. cbn in *. rewrite N2. reflexivity.
        + intro D. change (dead2 s2 = false) in D. rewrite (C2 D). unfold queued, pext. psimpl. rewrite MB2. reflexivity.
      - intros r3 g3 s3 [H3 _]. apply HQ. eapply Rel_trans; [| exact G2 | exact H3].
        intro D. exact (M2 D). }
    apply wp_bind.
    eapply wp_conseq with (Q := fun rx g2 s2 => (exists x, rx = Ok x) /\ g2 = g /\ Relq msgs s g s2 g /\ s_mblock s2 = None
                                             /\ dead s2 || negb (is_some (s_proc s2)) = true).
    { destruct ts.
      - destruct (grow_buffer (s_buf s) (c_maxbuf (s_cf s))).
        + apply wp_bind, wp_upd. cbn beta iota. apply wp_ret. split; [eauto|]. split; [reflexivity|]. split; [relupd|]. split; [psimpl; exact MB1|].
          exact N1.
        + apply wp_bind, wp_try. eapply wp_call; [ apply (e_startd_errback FK_TOOSMALL g s1 K1) |].
          intros r2 g2 s2 HEL. pose proof (Rel_leaf _ _ _ _ _ _ _ _ R1 HEL) as R2.
          destruct HEL as (-> & _ & K2 & (F1 & F2 & _) & M2 & MD2). cbn beta iota. apply wp_ret.
          split; [destruct r2; eauto|]. split; [reflexivity|]. split; [exact R2|]. split; [rewrite F2; exact MB1|].
          rewrite F1. destruct (dead s1) eqn:D1; [rewrite (MD2 eq_refl); reflexivity | cbn in N1; rewrite N1; apply orb_true_r].
      - apply wp_ret. split; [eauto | auto]. }
    intros rx g2 s2 ([x ->] & -> & R2 & MB2 & N2). cbn beta iota.
    assert (TAIL : forall g3 s3, Rel s g s3 g3 ->
              wf (match x with Ok true => ret tt | Ok false => retry_fetch true | Exc k => raise k end)
                 (fun (_ : res unit) (g' : list Z) (s' : state) =>
                    Rel s g s' g' /\ (KFetchResp offs ts = KStop -> g' = g /\ dead s' = true)) g3 s3).
    { intros g3 s3 R3. destruct x as [[]|kx].
      - apply wp_ret. split; [exact R3 | intro E; discriminate E].
      - eapply wp_call; [ apply (e_retry_fetch true g3 s3 (proj1 R3)) |].
        intros r4 g4 s4 HEL. split; [ exact (Rel_leaf _ _ _ _ _ _ _ _ R3 HEL) | intro E; discriminate E].
      - apply wp_raise. split; [exact R3 | intro E; discriminate E]. }
    destruct msgs as [|m0 ml].
    + apply wp_bind, wp_ret. cbn beta iota. apply TAIL. exact R2.
    + apply wp_bind. apply (LOOP m0 ml s2 _ R2 MB2 N2). intros g3 s3 R3. cbn beta iota. apply TAIL. exact R3.
Qed.

Lemma is_prefix_take n (l p : list Z) : is_prefix (take n l) (l ++ p) = true.
Proof.
  revert l. induction n as [|n IH]; intro l; [reflexivity|]. destruct l as [|x l]; [reflexivity|].
  cbn. rewrite Z.eqb_refl. apply IH.
Qed.
Lemma drop_take_app n (l p : list Z) : drop (length (take n l)) (l ++ p) = drop n l ++ p.
Proof.
  revert l. induction n as [|n IH]; intro l; [reflexivity|]. destruct l as [|x l]; [destruct p; reflexivity|].
  cbn. apply IH.
Qed.
Lemma dead_of_branch s : s_stopping s || negb (is_some (s_startd s)) = true -> dead s = true.
Proof.
  intro ST. unfold dead, startd_unfired. apply orb_true_iff in ST. destruct ST as [-> | H]; [reflexivity|].
  destruct (s_startd s); [discriminate H|]. apply orb_true_r.
Qed.

(* after the processor call returned (result code r): record the pending Deferred or run its callbacks, go on *)
Lemma f_tail last rest r g1 s1 :
  JJ s1 -> dead s1 || is_some (s_mblock s1) = true -> dead s1 || negb (is_some (s_proc s1)) = true -> C rest g1 s1 ->
  wf (tail_of rec last rest r) (fun _ g' s' => Rel s1 g1 s' g') g1 s1.
Proof.
  intros K MB PN Hc. unfold tail_of. destruct (r =? 2) eqn:R2.
  - apply wp_bind, wp_upd. cbn beta iota. apply wp_bind, wp_get. cbn beta iota. psimpl.
    set (s2 := set_proc (Some (last, rest, false)) s1).
    assert (DD : dead s2 = dead s1) by reflexivity.
    assert (DD2 : dead2 s2 = dead2 s1) by reflexivity.
    destruct (s_stopping s1 || negb (is_some (s_startd s1))) eqn:ST.
    + pose proof (dead_of_branch _ ST) as D1.
      apply wp_bind, wp_emit. eexists. split; [reflexivity|]. cbn beta iota.
      assert (KF : PInvF (dead s2, false) s2) by (subst s2; clear - K; psolve).
      apply wp_bind. eapply wp_call; [ apply (e_proc_chain last (Some FK_CANCELLED) g1 s2 KF) |].
      intros r3 g3 s3 (-> & F3 & K3 & N3 & MB3 & M3 & MD3 & _). 
      assert (D3 : dead2 s3 = true) by (apply dead2_of, MD3; rewrite DD; exact D1).
      assert (R3 : Rel s1 g1 s3 g1).
      { split; [exact K3 | split; [| split]]; [ intros _; exact D3 | auto | apply C_dead; exact D3 ]. }
      destruct r3; cbn beta iota; [| exact R3].
      eapply wp_conseq; [ apply (f_finish_block s1 g1 s3 g1 R3) |].
      * rewrite N3. apply orb_true_r.
      * intros ? ? ? H; exact H.
    + apply wp_ret. apply orb_false_elim in ST. destruct ST as [ST1 ST2]. apply negb_false_iff in ST2.
      split; [| split; [| split]].
      * subst s2. clear - K MB ST1 ST2. psolve.
      * intro D. exact D.
      * auto.
      * intro D. rewrite DD2 in D. rewrite (Hc D). subst s2. unfold queued, pext. psimpl.
        rewrite (alive_of _ D) in PN. cbn in PN. destruct (s_proc s1); [discriminate PN | reflexivity].
  - assert (KF : PInvF (dead s1, false) s1) by (apply JJ_PInvF; exact K).
    apply wp_bind. eapply wp_call; [ apply (e_proc_chain last _ g1 s1 KF) |].
    intros r3 g3 s3 (-> & F3 & K3 & N3 & MB3 & M3 & MD3 & DX & [a ->]). cbn beta iota.
    apply wp_bind, wp_get. cbn beta iota.
    assert (C3 : C rest g1 s3).
    { intro D. pose proof (alive_back _ _ M3 D) as D1. rewrite (Hc D1). unfold queued, pext. rewrite N3, MB3, F3.
      rewrite (alive_of _ D1) in PN. cbn in PN. destruct (s_proc s1); [discriminate PN | reflexivity]. }
    destruct (s_stopping s3 || negb (is_some (s_startd s3))) eqn:ST.
    + pose proof (dead_of_branch _ ST) as D3.
      eapply wp_conseq; [ apply (f_finish_block s1 g1 s3 g1) |].
      * split; [exact K3 | split; [| split]]; auto. apply C_dead, dead2_of. exact D3.
      * rewrite N3. apply orb_true_r.
      * intros ? ? ? H; exact H.
    + destruct a as [k|].
      * apply wp_raise. split; [exact K3 | split; [| split]]; auto. apply C_dead, dead2_of. apply (DX k eq_refl).
      * eapply wp_conseq; [ apply (HrecE (KProcLoop rest)) |].
        -- split; [exact K3|]. split; [| exact C3].
           unfold loop_ok. destruct (dead s3) eqn:D3; [reflexivity|]. rewrite N3, MB3. cbn.
           destruct (dead s1) eqn:D1; [pose proof (MD3 eq_refl) as D9; discriminate D9 | exact MB].
        -- intros r4 g4 s4 [H4 _]. eapply Rel_trans; [exact M3 | auto | exact H4].
Qed.

Lemma f_body_KProcLoop msgs g s : PreE (KProcLoop msgs) g s ->
  wf (body rec (KProcLoop msgs)) (PostE (KProcLoop msgs) g s) g s.
Proof.
  intros (K & L & Hc). cbn [body]. unfold PostE.
  pose proof (loop_ok_fin _ L) as LF.
  assert (POST : forall (r : res unit) g' s', Rel s g s' g' ->
            Rel s g s' g' /\ (KProcLoop msgs = KStop -> g' = g /\ dead s' = true)).
  { intros r g' s' H. split; [exact H | intro E; discriminate E]. }
  assert (FINB : C [] g s -> wf (finish_block rec)
            (fun _ g' s' => Rel s g s' g' /\ (KProcLoop msgs = KStop -> g' = g /\ dead s' = true)) g s).
  { intros H0. eapply wp_conseq; [ apply (f_finish_block s g s g (Rel_refl s g K H0) LF) |]. intros r g' s' H. apply (POST r). exact H. }
  apply wp_bind, wp_get; cbn beta iota.
  destruct msgs as [|m0 ms]; [ apply FINB; exact Hc |].
  destruct (s_shutting s) eqn:SH.
  { apply FINB. apply C_dead. unfold dead2. rewrite SH. apply orb_true_r. }
  destruct (s_stopping s) eqn:ST.
  { apply FINB. apply C_dead, dead2_of. unfold dead. rewrite ST. reflexivity. }
  destruct (s_startd s) as [[]|] eqn:SD.
  { apply FINB. apply C_dead, dead2_of. unfold dead, startd_unfired. rewrite SD. apply orb_true_r. }
  2:{ apply FINB. apply C_dead, dead2_of. unfold dead, startd_unfired. rewrite SD. apply orb_true_r. }
  (* the consumer is alive: the block goes to the processor *)
  assert (DS : dead s = false) by (unfold dead, startd_unfired; rewrite ST, SD; reflexivity).
  assert (DS2 : dead2 s = false) by (unfold dead2; rewrite DS, SH; reflexivity).
  destruct (loop_ok_alive _ L DS) as [SP MB].
  destruct (blk_nonempty _ m0 ms (PInv_acn _ _ _ K)) as [tl Hblk].
  set (n := if c_acn (s_cf s) =? 0 then length (m0 :: ms) else Z.to_nat (c_acn (s_cf s))) in *.
  rewrite Hblk. set (rest := drop n (m0 :: ms)). set (last := List.last (m0 :: tl) m0).
  pose proof (Hc DS2) as Eg. unfold queued in Eg. rewrite SP in Eg. change ([] ++ pext s) with (pext s) in Eg.
  set (g1 := rest ++ pext s).
  assert (EM : fifo_out g (OCallProc (m0 :: tl)) = Some g1).
  { unfold fifo_out. rewrite Eg. pose proof (is_prefix_take n (m0 :: ms) (pext s)) as P1.
    pose proof (drop_take_app n (m0 :: ms) (pext s)) as P2. rewrite Hblk in P1, P2. rewrite P1, P2. reflexivity. }
  apply wp_bind, wp_emit. exists g1. split; [exact EM|]. cbn beta iota.
  (* from here on the result is a Rel from the current point with monitor state g1 *)
  assert (CLOSE : forall st (Q := fun (_ : res unit) (g' : list Z) (s' : state) =>
                           Rel s g s' g' /\ (KProcLoop (m0 :: ms) = KStop -> g' = g /\ dead s' = true)),
             mono s st -> forall r g' s', Rel st g1 s' g' -> Q r g' s').
  { intros st Q M r g' s' (K' & M' & G' & C'). split; [| intro E; discriminate E].
    split; [exact K' | split; [| split; [| exact C']]].
    - intro D. apply M', M, D.
    - intro D. rewrite DS2 in D. discriminate D. }
  assert (TAILQ : forall r st, JJ st -> dead st || is_some (s_mblock st) = true -> dead st || negb (is_some (s_proc st)) = true ->
             C rest g1 st -> mono s st ->
             wf (tail_of rec last rest r)
                (fun (_ : res unit) (g' : list Z) (s' : state) =>
                   Rel s g s' g' /\ (KProcLoop (m0 :: ms) = KStop -> g' = g /\ dead s' = true)) g1 st).
  { intros r st K1 MB1 PN1 C1 M1. eapply wp_conseq; [ apply (f_tail last rest r g1 st K1 MB1 PN1 C1) |].
    intros r0 g' s' H. apply (CLOSE st M1 r0). exact H. }
  assert (C0 : forall st, s_proc st = None -> s_mblock st = s_mblock s -> s_foff st = s_foff s -> C rest g1 st).
  { intros st E1 E2 E3 _. subst g1. unfold queued, pext. rewrite E1, E2, E3. reflexivity. }
  (* the oracle for this invocation *)
  assert (POP : forall (Q : res (Z * Z) -> list Z -> state -> Prop),
            (forall p st, JJ st -> s_proc st = None -> s_mblock st = s_mblock s -> s_foff st = s_foff s -> dead st = dead s ->
                          dead2 st = dead2 s -> s_startd st = s_startd s -> Q (Ok p) g1 st) -> wf pop_plan Q g1 s).
  { intros Q HQ. unfold pop_plan. apply wp_bind, wp_get. cbn beta iota. destruct (s_plan s) as [|p pl] eqn:PL.
    - apply wp_ret. apply HQ; auto.
    - apply wp_bind, wp_upd. cbn beta iota. apply wp_ret. apply HQ; auto; try (clear - K; psolve). }
  apply wp_bind, POP. intros [i r] st K0 SP0 MB0 F0 D0 D20 SD0. cbn beta iota. cbn [fst snd].
  assert (M0 : mono s st) by (intro D; rewrite D20; exact D).
  assert (MBd : dead st || is_some (s_mblock st) = true) by (rewrite MB0, MB; apply orb_true_r).
  assert (PNd : dead st || negb (is_some (s_proc st)) = true) by (rewrite SP0; apply orb_true_r).
  change (if r =? 2
      then
       upd (set_proc (Some (last, rest, false)));;;
       s0 <- get;;
       (if s_stopping s0 || negb (is_some (s_startd s0))
        then emit OCancelProc;;; proc_chain last (Some FK_CANCELLED);;; finish_block rec
        else ret tt)
      else
       r0 <- proc_chain last (if r =? 0 then None else Some FK_PROC);;
       s0 <- get;;
       (if s_stopping s0 || negb (is_some (s_startd s0))
        then finish_block rec
        else match r0 with
             | Some k => raise k
             | None => rec (KProcLoop rest)
             end)) with (tail_of rec last rest r).
  destruct (i =? 1) eqn:I1; [| destruct (i =? 2) eqn:I2; [| destruct (i =? 3) eqn:I3]].
  - (* the processor calls consumer.stop() *)
    apply wp_bind. unfold api_stop. apply wp_bind, wp_try.
    eapply wp_conseq; [ apply (HrecE KStop); split; [exact K0 | exact I] |].
    intros r1 g2 s2 [(K2 & M2 & _ & _) HS]. destruct (HS eq_refl) as [-> D2]. cbn beta iota.
    apply wp_bind, wp_get. cbn beta iota.
    assert (T2 : wf (tail_of rec last rest r)
                (fun (_ : res unit) (g' : list Z) (s' : state) =>
                   Rel s g s' g' /\ (KProcLoop (m0 :: ms) = KStop -> g' = g /\ dead s' = true)) g1 s2).
    { apply TAILQ; auto.
      - rewrite D2. reflexivity.
      - rewrite D2. reflexivity.
      - apply C_dead, dead2_of. exact D2.
      - intro D. apply M2, M0, D. }
    destruct r1; apply wp_emit; eexists; (split; [reflexivity|]); cbn beta iota; exact T2.
  - (* the processor calls consumer.commit() *)
    apply wp_bind. unfold api_commit. apply wp_bind, wp_get. cbn beta iota. apply wp_bind, wp_upd. cbn beta iota.
    apply wp_bind, wp_try.
    assert (K1 : JJ (set_ncommit (s_ncommit st + 1) st)) by (clear - K0; psolve).
    eapply wp_call; [ apply (e_commit (WUser (s_ncommit st + 1)) g1 _ K1) |].
    intros r1 g2 s2 (-> & F2 & K2 & (P1 & P2 & _) & M2 & MD2). cbn beta iota. psimpl.
    assert (T2 : wf (tail_of rec last rest r)
                (fun (_ : res unit) (g' : list Z) (s' : state) =>
                   Rel s g s' g' /\ (KProcLoop (m0 :: ms) = KStop -> g' = g /\ dead s' = true)) g1 s2).
    { apply TAILQ; auto.
      - rewrite P2, MB0, MB. apply orb_true_r.
      - rewrite P1, SP0. apply orb_true_r.
      - apply C0; congruence.
      - intro D. apply M2. unfold dead2, dead, startd_unfired in *. psimpl. apply M0. exact D. }
    destruct r1 as [[cr|]|k]; cbn beta iota.
    + apply wp_bind, wp_emit. eexists. split; [reflexivity|]. cbn beta iota.
      apply wp_emit. eexists. split; [reflexivity|]. cbn beta iota. exact T2.
    + apply wp_emit. eexists. split; [reflexivity|]. cbn beta iota. exact T2.
    + apply wp_emit. eexists. split; [reflexivity|]. cbn beta iota. exact T2.
  - (* the processor calls consumer.shutdown(): from its flag on the consumer counts as dead here *)
    apply wp_bind. unfold api_shutdown. apply wp_bind, wp_get. cbn beta iota.
    destruct (negb (is_some (s_startd st)) || s_shutd st) eqn:SH0.
    + apply wp_bind, wp_emit. eexists. split; [reflexivity|]. cbn beta iota.
      apply wp_emit. eexists. split; [reflexivity|]. cbn beta iota. apply TAILQ; auto.
    + apply wp_bind, wp_upd. cbn beta iota. rewrite SP0. apply wp_bind, wp_try.
      match goal with |- wp _ _ _ _ ?x => set (s2 := x) end.
      assert (SH2 : s_shutting s2 = true) by (subst s2; psimpl; destruct (s_maxatt st =? 0); reflexivity).
      assert (K2 : JJ s2) by (subst s2; clear - K0; psimpl; destruct (s_maxatt st =? 0); psolve).
      assert (K2w : PInv (false, false) (Some (last, r)) s2).
      { subst s2. clear - K0 SP0 MB0 MB. psimpl. destruct (s_maxatt st =? 0); psolve. }
      assert (D22 : dead2 s2 = true) by (unfold dead2; rewrite SH2; apply orb_true_r).
      assert (M2 : mono s s2) by (intros _; exact D22).
      clearbody s2.
      eapply wp_call.
      { eapply (wp_strengthen _ _ _ (fun _ s3 => PInv (false, false) (Some (last, r)) s3)).
        - intros r3 s3 o3 E3 F3.
          destruct (HrecW KCommitAndStop (false, false) (Some (last, r)) (pw_abs (Some (last, r)) s2) s2
                      (conj eq_refl K2w) r3 s3 o3 E3 F3) as (gp & _ & _ & [H | (E & _)]); [exact H | discriminate E].
        - apply (HrecE KCommitAndStop g1 s2). split; [exact K2 | apply C_dead; exact D22]. }
      intros r3 g3 s3 [[(K3 & M3 & G3 & _) _] K3w]. rewrite (G3 D22). cbn beta iota.
      apply wp_bind, wp_get. cbn beta iota. apply wp_bind, wp_upd. cbn beta iota.
      set (s4 := set_pend (s_pend st) (set_inapi (s_inapi st) s3)).
      assert (NPs : forallb pw_neutral (s_pend st) = true)
        by (clear - K0; unfold PInv in K0; repeat (apply andb_prop in K0; destruct K0 as [K0 ?]); assumption).
      assert (NP3 : forallb pw_neutral (s_pend s3) = true)
        by (clear - K3; unfold PInv in K3; repeat (apply andb_prop in K3; destruct K3 as [K3 ?]); assumption).
      assert (K4w : PInv (false, false) (Some (last, r)) s4) by (subst s4; clear - NPs K3w; psolve).
      assert (D24 : dead2 s4 = true) by (apply (M3 D22)).
      assert (T4 : wf (tail_of rec last rest r)
                (fun (_ : res unit) (g' : list Z) (s' : state) =>
                   Rel s g s' g' /\ (KProcLoop (m0 :: ms) = KStop -> g' = g /\ dead s' = true)) g1 s4).
      { apply TAILQ.
        - clear - K4w. psolve.
        - clear - K4w. unfold PInv in K4w. cbn [is_some implb] in K4w. bool_hyps. assumption.
        - clear - K4w. unfold PInv in K4w. cbn [is_some implb] in K4w. bool_hyps.
          match goal with H : is_some (s_proc s4) = false |- _ => rewrite H end. apply orb_true_r.
        - apply C_dead. exact D24.
        - intros _. exact D24. }
      clearbody s4.
      assert (NC_pend : forall l gg, forallb pw_neutral l = true -> gouts fifo_out gg l = Some gg).
      { induction l as [|x l IH]; intros gg H; cbn [forallb gouts] in *; [reflexivity|]. apply andb_prop in H. destruct H as [H1 H2].
        destruct x; try discriminate H1; cbn [fifo_out]; auto. }
      destruct r3.
      * apply wp_bind. apply wp_emits. exists g1. split; [apply NC_pend; exact NP3|]. cbn beta iota.
        apply wp_emit. eexists. split; [reflexivity|]. cbn beta iota. exact T4.
      * apply wp_emit. eexists. split; [reflexivity|]. cbn beta iota. exact T4.
  - (* it returns / raises / returns a Deferred without calling back *)
    apply wp_bind, wp_ret. cbn beta iota. apply TAILQ; auto.
Qed.

Lemma e_stop_req g s : JJ s -> wf stop_req (EL g s) g s.
Proof.
  intro K. eapply wp_conseq.
  - eapply (wp_strengthen _ _ _ (fun r s' => PInv (dead s, false) None s' /\ Fp s s')); [| apply n_stop_req].
    intros r s' o E F. destruct (p_stop_req _ None s (JJ_mode _ K) r s' o E F) as (gp & _ & (((_ & HP) & FP & _) & _)). split; auto.
  - intros r g' s' [[-> [HF [HS _]]] [HP FP]]. unfold EL. split; [reflexivity|]. split; [exact HF|].
    split; [eapply mode_JJ; eauto|]. split; [exact FP | split; [eapply mode_mono; eauto | eapply mode_monod; eauto]].
Qed.

Ltac r_calls3 := idtac; first [ r_calls2 | lazymatch goal with
  | |- wp _ (stop_creq _) _ ?g ?st =>
    cur_rel st; match goal with R : Rel ?s0 ?g0 st g |- _ =>
      eapply wp_call; [ apply (f_stop_creq s0 g0 st g R)
                      | let r := fresh "r" in let H := fresh "R" in intros r ? ? H; clear R; destruct r; cbn beta iota ] end
  end ].
Lemma f_body_KStop g s : PreE KStop g s -> wf (body rec KStop) (PostE KStop g s) g s.
Proof.
  intros [K _]. unfold PostE.
  (* the state facts come from the PW simulation of the whole of stop() *)
  assert (PWF : forall r s' o, body rec KStop s = (r, s', o) -> fuel_ok o = true -> JJ s' /\ dead s' = true).
  { intros r s' o E F. destruct (p_body_KStop rec HrecW _ None s (JJ_mode _ K) r s' o E F) as (gp & _ & _ & H).
    destruct H as [H | (_ & SD & H)].
    - split; [eapply mode_JJ; eauto | apply (PInv_dead _ _ _ _ H eq_refl)].
    - split; [eapply mode_JJ; eauto|]. assert (D : dead s = true) by (unfold dead, startd_unfired; rewrite SD; apply orb_true_r).
      rewrite D in H. apply (PInv_dead _ _ _ _ H eq_refl). }
  eapply wp_conseq with (Q := fun _ g' s' => g' = g /\ (JJ s' /\ dead s' = true)).
  2:{ intros r g' s' [-> [K' D']]. split; [| intros _; split; auto].
      split; [exact K' | split; [| split]]; [ intros _; apply dead2_of; exact D' | auto | apply C_dead, dead2_of; exact D' ]. }
  eapply (wp_strengthen _ _ _ (fun _ s' => JJ s' /\ dead s' = true)); [exact PWF|].
  (* nothing is handed to the processor inside stop() *)
  cbn [body]. apply wp_bind, wp_get. cbn beta iota. destruct (s_startd s) as [b|] eqn:SD; [| apply wp_raise; reflexivity].
  apply wp_bind, wp_upd. cbn beta iota.
  set (s1 := set_stopping true s).
  assert (K1 : JJ s1) by (subst s1; clear - K; psolve).
  assert (D1 : dead s1 = true) by reflexivity.
  assert (R : Rel s1 g s1 g) by (apply Rel_refl; [exact K1 | apply C_dead, dead2_of; exact D1]).
  assert (FINAL : forall (r : res unit) sN gN, Rel s1 g sN gN -> gN = g).
  { intros r sN gN (_ & _ & G & _). apply G. apply dead2_of. exact D1. }
  clearbody s1.
  apply wp_bind. eapply wp_call; [ apply (e_stop_req g s1 K1) |].
  intros r2 g2 s2 HEL. pose proof (Rel_leaf _ _ _ _ _ _ _ _ R HEL) as R2.
  destruct HEL as (-> & _ & K2 & (_ & _ & _ & ST2) & _ & MD2). clear R.
  assert (D2 : dead s2 = true) by (apply MD2; exact D1).
  destruct r2; cbn beta iota; [| apply (FINAL (Exc k) _ _ R2)].
  (* the parked reply is dropped *)
  apply wp_bind. unfold stop_mblock. apply wp_bind, wp_get. cbn beta iota.
  assert (R3 : forall mb, Rel s1 g (set_mblock mb s2) g).
  { intro mb. destruct R2 as (K2' & M2 & G2 & _). split; [clear - K2 D2; psolve | split; [| split]].
    - intro D. exact (M2 D).
    - exact G2.
    - apply C_dead, dead2_of. exact D2. }
  assert (REST : forall s3, Rel s1 g s3 g ->
            wf (stop_proc rec;;; stop_rcall;;; rec KStopCds;;; stop_creq rec;;; stop_ccall;;; stop_looper;;; stop_susp;;;
                upd (set_stopping false);;; stop_startd) (fun _ g' _ => g' = g) g s3).
  { intros s3 R. unfold stop_proc, stop_startd. r_walk r_calls3.
    all: match goal with R : Relq [] _ _ _ ?gN |- ?gN = _ => apply (FINAL (Ok tt) _ _ R) end. }
  destruct (s_mblock s2); [ apply wp_upd | apply wp_ret ]; cbn beta iota; apply REST.
  - apply R3.
  - exact R2.
Qed.

Lemma f_body k g s : PreE k g s -> wf (body rec k) (PostE k g s) g s.
Proof.
  intro Pre. destruct k.
  - apply f_body_KStop; auto.
  - apply f_body_KStopCds; auto.
  - apply f_body_KFireProc; auto.
  - apply f_body_KProcLoop; auto.
  - apply f_body_KFetchResp; auto.
  - apply f_body_KCommitAndStop; auto.
  - apply f_body_KShutFinish; auto.
  - apply f_body_KFireCd; auto.
  - apply f_body_KDeliver; auto.
Qed.
End Rec.

Lemma f_run fuel : forall k g s, PreE k g s -> wf (run fuel k) (PostE k g s) g s.
Proof.
  induction fuel as [|f IH]; intros k g s Pre.
  - intros r s' o E F. cbn in E. unfold bind, emit, raise in E. inversion E; subst. discriminate F.
  - cbn [run]. apply f_body; auto. apply p_run.
Qed.
