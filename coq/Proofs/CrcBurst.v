(* C12, part 1: CRC-32 detects every burst of at most 32 bits.

   Register level (ported from the scratch probe onto Model.Crc, same names):
     upd0 is linear over xor, "process the bits w" = "xor val w into the register, then |w| zero-steps",
     upd0 is injective on 32-bit registers because bit 31 of POLY is set, hence a non-zero register stays
     non-zero under zero-steps; an error pattern 0^a w 0^c with |w| <= 32, w <> 0 drives the zero register to a
     non-zero register; by linearity the registers of d and d xor e differ.
   Bridge: the byte-wise [crc_update] that runs is [crc_bits] on [bits_of data] for bytes < 256.
   Byte level: stated on [Crc.crc32 : list Z -> Z]. *)
From Coq Require Import NArith Lia.
From AV Require Import Base.Util Model.Crc.

Local Open Scope N_scope.

(* ------------------------------------------------------------------ register level (probe port) *)

Lemma odd_lxor a b : N.odd (N.lxor a b) = xorb (N.odd a) (N.odd b).
Proof. rewrite <- !N.bit0_odd. apply N.lxor_spec. Qed.

Lemma upd0_lxor a b : upd0 (N.lxor a b) = N.lxor (upd0 a) (upd0 b).
Proof.
  unfold upd0. rewrite N.shiftr_lxor, odd_lxor.
  apply N.bits_inj; intros n.
  destruct (N.odd a), (N.odd b); cbn [xorb];
  rewrite ?N.lxor_spec, ?N.bits_0;
  destruct (N.testbit (N.shiftr a 1) n), (N.testbit (N.shiftr b 1) n), (N.testbit POLY n); reflexivity.
Qed.

Lemma upd0_0 : upd0 0 = 0. Proof. reflexivity. Qed.

(* shifting in: upd0 (x xor (y<<1)) = upd0 x xor y *)
Lemma upd0_shl x y : upd0 (N.lxor x (N.shiftl y 1)) = N.lxor (upd0 x) y.
Proof.
  rewrite upd0_lxor. f_equal. unfold upd0.
  rewrite N.shiftr_shiftl_l by lia. cbn [N.sub]. rewrite N.shiftl_0_r.
  assert (N.odd (N.shiftl y 1) = false) as ->.
  { rewrite <- N.bit0_odd. apply N.shiftl_spec_low. lia. }
  apply N.lxor_0_r.
Qed.

Lemma upd0_bit31 r : is32 r -> N.testbit (upd0 r) 31 = N.odd r.
Proof.
  intros H. unfold upd0. rewrite N.lxor_spec, N.shiftr_spec by lia.
  assert (N.testbit r (31+1) = false) as ->.
  { destruct (N.eq_dec r 0) as [->|Hz]; [apply N.bits_0|].
    apply N.bits_above_log2. unfold is32 in H. apply N.log2_lt_pow2 in H; lia. }
  destruct (N.odd r); [reflexivity|]. rewrite N.bits_0. reflexivity.
Qed.

Lemma upd0_inj a b : is32 a -> is32 b -> upd0 a = upd0 b -> a = b.
Proof.
  intros Ha Hb H.
  assert (Hodd : N.odd a = N.odd b).
  { rewrite <- (upd0_bit31 a Ha), <- (upd0_bit31 b Hb), H. reflexivity. }
  unfold upd0 in H. rewrite Hodd in H.
  apply (f_equal (fun x => N.lxor x (if N.odd b then POLY else 0))) in H.
  rewrite !N.lxor_assoc, !N.lxor_nilpotent, !N.lxor_0_r in H.
  apply N.bits_inj. intros n.
  destruct (N.eq_dec n 0) as [->|Hn].
  - rewrite !N.bit0_odd. exact Hodd.
  - replace n with (N.succ (N.pred n)) by lia.
    rewrite <- !N.add_1_r. rewrite <- !N.shiftr_spec by lia. rewrite H. reflexivity.
Qed.

Lemma upd0_is32 r : is32 r -> is32 (upd0 r).
Proof.
  intros H. unfold upd0, is32 in *.
  assert (N.shiftr r 1 < 2^32). { rewrite N.shiftr_div_pow2. apply N.div_lt_upper_bound; lia. }
  destruct (N.odd r).
  - destruct (N.eq_dec (N.lxor (N.shiftr r 1) POLY) 0) as [->|Hz]; [lia|].
    apply N.log2_lt_pow2; [lia|].
    eapply N.le_lt_trans; [apply N.log2_lxor|].
    apply N.max_lub_lt.
    + destruct (N.eq_dec (N.shiftr r 1) 0) as [->|Hz2]; [cbn; lia|]. apply N.log2_lt_pow2; lia.
    + vm_compute. reflexivity.
  - rewrite N.lxor_0_r. exact H0.
Qed.

Lemma upd0_nonzero r : is32 r -> r <> 0 -> upd0 r <> 0.
Proof. intros H Hz E. apply Hz. apply upd0_inj; auto. unfold is32; lia. Qed.

Lemma iter_upd0_nonzero k r : is32 r -> r <> 0 -> is32 (Nat.iter k upd0 r) /\ Nat.iter k upd0 r <> 0.
Proof.
  induction k as [|k IH]; intros H Hz; cbn [Nat.iter]; [auto|].
  destruct (IH H Hz) as [H1 H2]. split; [apply upd0_is32|apply upd0_nonzero]; auto.
Qed.

Lemma iter_upd0_is32 k r : is32 r -> is32 (Nat.iter k upd0 r).
Proof. induction k as [|k IH]; intros H; cbn [Nat.iter]; [auto|]. apply upd0_is32; auto. Qed.

Lemma iter_succ_r {A} (f : A -> A) k x : Nat.iter (S k) f x = Nat.iter k f (f x).
Proof.
  induction k as [|k IH]; [reflexivity|].
  change (f (Nat.iter (S k) f x) = f (Nat.iter k f (f x))). now rewrite IH.
Qed.

Lemma crc_bits_word bits r :
  crc_bits r bits = Nat.iter (length bits) upd0 (N.lxor r (val bits)).
Proof.
  revert r. induction bits as [|b t IH]; intros r; cbn [crc_bits fold_left length val].
  - cbn. now rewrite N.lxor_0_r.
  - fold (crc_bits (updb r b) t). rewrite IH. unfold updb.
    rewrite <- upd0_shl. rewrite <- iter_succ_r. rewrite N.lxor_assoc. reflexivity.
Qed.

Lemma b2n_xorb x y : b2n (xorb x y) = N.lxor (b2n x) (b2n y).
Proof. destruct x, y; reflexivity. Qed.

Lemma crc_bits_lxor a : forall b r s, length a = length b ->
  crc_bits (N.lxor r s) (xorl a b) = N.lxor (crc_bits r a) (crc_bits s b).
Proof.
  induction a as [|x a IH]; intros [|y b] r s Hl; try discriminate; [reflexivity|].
  cbn [xorl crc_bits fold_left]. fold (crc_bits (updb (N.lxor r s) (xorb x y)) (xorl a b)).
  fold (crc_bits (updb r x) a). fold (crc_bits (updb s y) b).
  rewrite <- IH by (cbn in Hl; lia). f_equal.
  unfold updb. rewrite <- upd0_lxor. f_equal. rewrite b2n_xorb.
  apply N.bits_inj; intros n. rewrite !N.lxor_spec.
  destruct (N.testbit r n), (N.testbit s n), (N.testbit (b2n x) n), (N.testbit (b2n y) n); reflexivity.
Qed.

Lemma crc_bits_zeros k : crc_bits 0 (repeat false k) = 0.
Proof. induction k as [|k IH]; cbn; [reflexivity|]. exact IH. Qed.

Lemma crc_bits_app r a b : crc_bits r (a ++ b) = crc_bits (crc_bits r a) b.
Proof. apply fold_left_app. Qed.

Lemma lxor_b2n_shl b v : N.lxor (b2n b) (N.shiftl v 1) = b2n b + 2 * v.
Proof.
  rewrite N.shiftl_mul_pow2, N.pow_1_r, N.mul_comm.
  symmetry. apply N.add_nocarry_lxor.
  apply N.bits_inj; intros n. rewrite N.land_spec, N.bits_0.
  destruct (N.eq_dec n 0) as [->|Hn].
  - rewrite N.testbit_even_0. apply andb_false_r.
  - destruct b; cbn [b2n]; [|now rewrite N.bits_0].
    replace n with (N.succ (N.pred n)) by lia.
    change 1 with (2*0+1) at 1. rewrite N.testbit_odd_succ by lia. now rewrite N.bits_0.
Qed.

Lemma val_lt w : val w < 2 ^ N.of_nat (length w).
Proof.
  induction w as [|b t IH]; [cbn; lia|].
  cbn [val length]. rewrite lxor_b2n_shl, Nat2N.inj_succ, N.pow_succ_r'.
  destruct b; cbn [b2n]; lia.
Qed.

Lemma val_zero w : val w = 0 -> w = repeat false (length w).
Proof.
  induction w as [|b t IH]; [reflexivity|].
  cbn [val length repeat]. rewrite lxor_b2n_shl. intros H.
  destruct b; cbn [b2n] in H; [lia|]. f_equal. apply IH. lia.
Qed.

Lemma val_zeros c : val (repeat false c) = 0.
Proof. induction c as [|c IH]; cbn [repeat val]; [reflexivity|]. rewrite IH. reflexivity. Qed.

(* An error pattern 0^a ++ w ++ 0^c with |w| <= 32 and w not all-zero drives the zero register
   to a non-zero register (the probe had |w| = 32; strings shorter than 32 bits need <=). *)
Theorem burst_nonzero a c w :
  (length w <= 32)%nat -> w <> repeat false (length w) ->
  crc_bits 0 (repeat false a ++ w ++ repeat false c) <> 0.
Proof.
  intros Hl Hw.
  rewrite !crc_bits_app, crc_bits_zeros.
  rewrite (crc_bits_word w 0), N.lxor_0_l.
  assert (H32 : is32 (val w)).
  { unfold is32. pose proof (val_lt w) as H. eapply N.lt_le_trans; [exact H|].
    apply N.pow_le_mono_r; lia. }
  assert (Hnz : val w <> 0). { intros E. apply Hw. now apply val_zero. }
  destruct (iter_upd0_nonzero (length w) (val w) H32 Hnz) as [H1 H2].
  rewrite (crc_bits_word (repeat false c)), val_zeros, N.lxor_0_r, repeat_length.
  apply (iter_upd0_nonzero c _ H1 H2).
Qed.

(* the shape of a burst: all set bits inside a window of at most 32 consecutive positions, at least one set *)
Definition burst_pattern (e : list bool) : Prop :=
  exists a w c, e = repeat false a ++ w ++ repeat false c /\ (length w <= 32)%nat /\ w <> repeat false (length w).

Corollary burst_detected r d e :
  length d = length e -> burst_pattern e -> crc_bits r (xorl d e) <> crc_bits r d.
Proof.
  intros Hd (a & w & c & -> & Hl & Hw) E.
  pose proof (crc_bits_lxor d (repeat false a ++ w ++ repeat false c) r 0 Hd) as L.
  rewrite N.lxor_0_r in L. rewrite L in E.
  apply (burst_nonzero a c w Hl Hw).
  apply (f_equal (N.lxor (crc_bits r d))) in E.
  rewrite <- N.lxor_assoc, N.lxor_nilpotent, N.lxor_0_l in E. exact E.
Qed.

(* ------------------------------------------------------------------ bridge: byte-wise = bit-serial *)

Definition all_bytes : list N := map N.of_nat (seq 0 256).

Lemma val_byte_bits b : b < 256 -> val (byte_bits b) = b.
Proof.
  intros H.
  assert (A : forallb (fun x => N.eqb (val (byte_bits x)) x) all_bytes = true) by (vm_compute; reflexivity).
  rewrite forallb_forall in A. apply N.eqb_eq. apply A.
  unfold all_bytes. apply in_map_iff. exists (N.to_nat b). split; [apply N2Nat.id|].
  apply in_seq. lia.
Qed.

Lemma crc_bits_byte r b : b < 256 -> crc_bits r (byte_bits b) = upd_byte r b.
Proof. intros H. rewrite crc_bits_word, (val_byte_bits b H). reflexivity. Qed.

Definition nbytes_ok (data : list N) : Prop := Forall (fun b => b < 256) data.

Theorem crc_update_bits data : forall r, nbytes_ok data -> crc_update r data = crc_bits r (bits_of data).
Proof.
  induction data as [|b t IH]; intros r H; [reflexivity|].
  inversion H as [|? ? Hb Ht]; subst.
  unfold bits_of. cbn [flat_map]. rewrite crc_bits_app, (crc_bits_byte r b Hb).
  unfold crc_update. cbn [fold_left]. apply IH. exact Ht.
Qed.

(* ------------------------------------------------------------------ byte level, on list Z *)

(* the bits of a byte string in the order the CRC consumes them (byte by byte, least significant bit first) *)
Definition zbits (d : list Z) : list bool := bits_of (map Z.to_N d).

(* bytewise xor (truncates to the shorter, like [xorl]) *)
Fixpoint zxor (a b : list Z) : list Z :=
  match a, b with x :: a', y :: b' => Z.lxor x y :: zxor a' b' | _, _ => [] end.

Lemma is_byte_N b : is_byte b = true -> (Z.to_N b < 256)%N.
Proof. unfold is_byte. intros H. apply andb_prop in H. destruct H as [H1 H2]. apply Z.leb_le in H1. apply Z.ltb_lt in H2. lia. Qed.

Lemma bytes_ok_N d : bytes_ok d = true -> nbytes_ok (map Z.to_N d).
Proof.
  unfold bytes_ok, nbytes_ok. intros H. rewrite forallb_forall in H.
  apply Forall_forall. intros x Hx. apply in_map_iff in Hx. destruct Hx as (z & <- & Hz).
  apply is_byte_N. auto.
Qed.

Lemma crc32_bits d : bytes_ok d = true ->
  crc32 d = Z.of_N (N.lxor (crc_bits INIT (zbits d)) 0xFFFFFFFF).
Proof. intros H. unfold crc32, crc32N, zbits. rewrite crc_update_bits by now apply bytes_ok_N. reflexivity. Qed.

Lemma zbits_length d : length (zbits d) = (8 * length d)%nat.
Proof. unfold zbits, bits_of. induction d as [|x d IH]; [reflexivity|]. cbn [map flat_map]. rewrite app_length, IH. cbn [byte_bits length]. lia. Qed.

Lemma zbits_app a b : zbits (a ++ b) = zbits a ++ zbits b.
Proof. unfold zbits, bits_of. rewrite map_app, flat_map_app. reflexivity. Qed.

Lemma byte_bits_lxor a b : byte_bits (N.lxor a b) = xorl (byte_bits a) (byte_bits b).
Proof. unfold byte_bits. cbn [xorl]. rewrite !N.lxor_spec. reflexivity. Qed.

Lemma xorl_app a1 : forall b1 a2 b2, length a1 = length b1 -> xorl (a1 ++ a2) (b1 ++ b2) = xorl a1 b1 ++ xorl a2 b2.
Proof.
  induction a1 as [|x a1 IH]; intros [|y b1] a2 b2 H; try discriminate; [reflexivity|].
  cbn [app xorl]. f_equal. apply IH. cbn in H. lia.
Qed.

Lemma of_N_lxor a b : Z.of_N (N.lxor a b) = Z.lxor (Z.of_N a) (Z.of_N b).
Proof. destruct a, b; reflexivity. Qed.

Lemma to_N_lxor x y : (0 <= x)%Z -> (0 <= y)%Z -> Z.to_N (Z.lxor x y) = N.lxor (Z.to_N x) (Z.to_N y).
Proof.
  intros Hx Hy. rewrite <- (Z2N.id x Hx), <- (Z2N.id y Hy) at 1. rewrite <- of_N_lxor. apply N2Z.id.
Qed.

Lemma is_byte_nonneg b : is_byte b = true -> (0 <= b)%Z.
Proof. unfold is_byte. intros H. apply andb_prop in H. destruct H as [H1 _]. now apply Z.leb_le in H1. Qed.

Lemma zbits_zxor d : forall e, bytes_ok d = true -> bytes_ok e = true ->
  zbits (zxor d e) = xorl (zbits d) (zbits e).
Proof.
  induction d as [|x d IH]; intros [|y e] Hd He; try reflexivity.
  cbn [bytes_ok forallb] in Hd, He. apply andb_prop in Hd, He. destruct Hd as [Hx Hd], He as [Hy He].
  cbn [zxor]. change (zbits (?a :: ?l)) with (byte_bits (Z.to_N a) ++ zbits l).
  rewrite xorl_app by reflexivity. rewrite (IH e Hd He).
  rewrite to_N_lxor by now apply is_byte_nonneg. rewrite byte_bits_lxor. reflexivity.
Qed.

Lemma crc32_neq d d' : bytes_ok d = true -> bytes_ok d' = true ->
  crc_bits INIT (zbits d') <> crc_bits INIT (zbits d) -> crc32 d' <> crc32 d.
Proof.
  intros Hd Hd' H E. rewrite (crc32_bits d Hd), (crc32_bits d' Hd') in E.
  apply N2Z.inj in E. apply H.
  apply (f_equal (fun x => N.lxor x 0xFFFFFFFF)) in E.
  rewrite !N.lxor_assoc, !N.lxor_nilpotent, !N.lxor_0_r in E. exact E.
Qed.

Lemma zxor_bytes_ok d : forall e, bytes_ok d = true -> bytes_ok e = true -> bytes_ok (zxor d e) = true.
Proof.
  induction d as [|x d IH]; intros [|y e] Hd He; try reflexivity.
  cbn [bytes_ok forallb] in Hd, He. apply andb_prop in Hd, He. destruct Hd as [Hx Hd], He as [Hy He].
  cbn [zxor bytes_ok forallb]. apply andb_true_intro. split; [|apply (IH e Hd He)].
  unfold is_byte in *. apply andb_prop in Hx, Hy. destruct Hx as [Hx1 Hx2], Hy as [Hy1 Hy2].
  apply Z.leb_le in Hx1, Hy1. apply Z.ltb_lt in Hx2, Hy2.
  apply andb_true_intro. split; [apply Z.leb_le; now apply Z.lxor_nonneg|apply Z.ltb_lt].
  destruct (Z.eq_dec (Z.lxor x y) 0) as [->|Hz]; [lia|].
  assert (0 <= Z.lxor x y)%Z by now apply Z.lxor_nonneg.
  apply (Z.log2_lt_pow2 _ 8); [lia|].
  eapply Z.le_lt_trans; [apply Z.log2_lxor; lia|].
  apply Z.max_lub_lt.
  - destruct (Z.eq_dec x 0) as [->|]; [cbn; lia|]. apply Z.log2_lt_pow2; lia.
  - destruct (Z.eq_dec y 0) as [->|]; [cbn; lia|]. apply Z.log2_lt_pow2; lia.
Qed.

(* MAIN: every burst of at most 32 bits changes the CRC *)
Theorem crc_burst d e :
  bytes_ok d = true -> bytes_ok e = true -> length d = length e -> burst_pattern (zbits e) ->
  crc32 (zxor d e) <> crc32 d.
Proof.
  intros Hd He Hl Hb.
  apply crc32_neq; [assumption|now apply zxor_bytes_ok|].
  rewrite zbits_zxor by assumption.
  apply burst_detected; [|assumption].
  rewrite !zbits_length. lia.
Qed.

(* ------------------------------------------------------------------ a decidable form of "burst" *)

Fixpoint skip_zeros (l : list bool) : list bool :=
  match l with false :: t => skip_zeros t | _ => l end.

(* true iff some bit is set and every set bit lies within 32 positions of the first one *)
Definition burst32b (e : list bool) : bool :=
  match skip_zeros e with [] => false | l => forallb negb (drop 32 l) end.

Lemma skip_zeros_split l : exists a, l = repeat false a ++ skip_zeros l.
Proof.
  induction l as [|[|] t IH]; [exists O; reflexivity|exists O; reflexivity|].
  destruct IH as [a IH]. exists (S a). cbn [skip_zeros repeat app]. now rewrite <- IH.
Qed.

Lemma skip_zeros_head l : match skip_zeros l with [] => True | b :: _ => b = true end.
Proof. induction l as [|[|] t IH]; cbn [skip_zeros]; auto. Qed.

Lemma take_drop_id {A} n (l : list A) : take n l ++ drop n l = l.
Proof. revert l. induction n as [|n IH]; intros [|x l]; cbn; auto. now rewrite IH. Qed.

Lemma take_length_le {A} n (l : list A) : (length (take n l) <= n)%nat.
Proof. revert l. induction n as [|n IH]; intros [|x l]; cbn; try lia. specialize (IH l). lia. Qed.

Lemma all_false_repeat l : forallb negb l = true -> l = repeat false (length l).
Proof.
  induction l as [|b t IH]; [reflexivity|]. cbn [forallb length repeat]. intros H.
  apply andb_prop in H. destruct H as [Hb Ht]. destruct b; [discriminate|]. f_equal. now apply IH.
Qed.

Lemma burst32b_pattern e : burst32b e = true -> burst_pattern e.
Proof.
  unfold burst32b. intros H.
  destruct (skip_zeros_split e) as [a Ha].
  pose proof (skip_zeros_head e) as Hh.
  destruct (skip_zeros e) as [|b l] eqn:S; [discriminate|]. subst b.
  exists a, (take 32 (true :: l)), (length (drop 32 (true :: l))).
  split; [|split].
  - rewrite <- (all_false_repeat _ H). rewrite take_drop_id. exact Ha.
  - apply take_length_le.
  - cbn [take]. intros E. cbn [length repeat] in E. discriminate.
Qed.

Corollary crc_burst_b d e :
  bytes_ok d = true -> bytes_ok e = true -> length d = length e -> burst32b (zbits e) = true ->
  crc32 (zxor d e) <> crc32 d.
Proof. intros. apply crc_burst; auto. now apply burst32b_pattern. Qed.

(* ------------------------------------------------------------------ the two popular special cases *)

Lemma zxor_self_r a : forall b, length a = length b -> zxor a (zxor a b) = b.
Proof.
  induction a as [|x a IH]; intros [|y b] H; try discriminate; [reflexivity|].
  cbn [zxor]. rewrite <- Z.lxor_assoc, Z.lxor_nilpotent, Z.lxor_0_l. f_equal. apply IH. cbn in H. lia.
Qed.

Lemma zxor_length a : forall b, length a = length b -> length (zxor a b) = length a.
Proof. induction a as [|x a IH]; intros [|y b] H; try discriminate; [reflexivity|]. cbn [zxor length]. f_equal. apply IH. cbn in H; lia. Qed.

Lemma zxor_zeros a : zxor a (repeat 0%Z (length a)) = a.
Proof. induction a as [|x a IH]; [reflexivity|]. cbn [length repeat zxor]. now rewrite Z.lxor_0_r, IH. Qed.

Lemma zxor_app a1 : forall b1 a2 b2, length a1 = length b1 -> zxor (a1 ++ a2) (b1 ++ b2) = zxor a1 b1 ++ zxor a2 b2.
Proof.
  induction a1 as [|x a1 IH]; intros [|y b1] a2 b2 H; try discriminate; [reflexivity|].
  cbn [app zxor]. f_equal. apply IH. cbn in H. lia.
Qed.

Lemma zbits_zeros n : zbits (repeat 0%Z n) = repeat false (8 * n).
Proof.
  induction n as [|n IH]; [reflexivity|].
  cbn [repeat]. change (zbits (?a :: ?l)) with (byte_bits (Z.to_N a) ++ zbits l). rewrite IH.
  replace (8 * S n)%nat with (8 + 8 * n)%nat by lia. reflexivity.
Qed.

Lemma bytes_ok_repeat0 n : bytes_ok (repeat 0%Z n) = true.
Proof. induction n as [|n IH]; [reflexivity|]. cbn [repeat bytes_ok forallb]. exact IH. Qed.

Lemma bytes_ok_app a b : bytes_ok (a ++ b) = bytes_ok a && bytes_ok b.
Proof. unfold bytes_ok. apply forallb_app. Qed.

Lemma app_eq_len {A} (a : list A) : forall c b d, length a = length c -> a ++ b = c ++ d -> a = c /\ b = d.
Proof.
  induction a as [|x a IH]; intros [|y c] b d Hl H; try discriminate; [auto|].
  cbn [app] in H. injection H as -> H. cbn in Hl. destruct (IH c b d) as [-> ->]; auto.
Qed.

(* zbits is injective on byte strings of the same length *)
Lemma byte_bits_inj a b : a < 256 -> b < 256 -> byte_bits a = byte_bits b -> a = b.
Proof. intros Ha Hb H. rewrite <- (val_byte_bits a Ha), <- (val_byte_bits b Hb), H. reflexivity. Qed.

Lemma zxor_zero_eq a : forall b, bytes_ok a = true -> bytes_ok b = true -> length a = length b ->
  zbits (zxor a b) = repeat false (8 * length a) -> a = b.
Proof.
  induction a as [|x a IH]; intros [|y b] Ha Hb Hl H; try discriminate; [reflexivity|].
  cbn [bytes_ok forallb] in Ha, Hb. apply andb_prop in Ha, Hb. destruct Ha as [Hx Ha], Hb as [Hy Hb].
  cbn [zxor length] in H. change (zbits (?a :: ?l)) with (byte_bits (Z.to_N a) ++ zbits l) in H.
  replace (8 * S (length a))%nat with (8 + 8 * length a)%nat in H by lia.
  rewrite repeat_app in H.
  assert (H1 : byte_bits (Z.to_N (Z.lxor x y)) = repeat false 8 /\ zbits (zxor a b) = repeat false (8 * length a)).
  { apply app_eq_len; [reflexivity|exact H]. }
  destruct H1 as [H1 H2].
  f_equal; [|apply IH; auto; cbn in Hl; lia].
  rewrite to_N_lxor in H1 by now apply is_byte_nonneg.
  assert (E : N.lxor (Z.to_N x) (Z.to_N y) = 0%N).
  { pose proof (is_byte_N x Hx). pose proof (is_byte_N y Hy).
    apply byte_bits_inj; [|lia|exact H1].
    destruct (N.eq_dec (N.lxor (Z.to_N x) (Z.to_N y)) 0) as [->|Hz]; [lia|].
    apply (N.log2_lt_pow2 _ 8); [lia|].
    eapply N.le_lt_trans; [apply N.log2_lxor|]. apply N.max_lub_lt.
    - destruct (N.eq_dec (Z.to_N x) 0) as [->|]; [cbn; lia|]. apply N.log2_lt_pow2; lia.
    - destruct (N.eq_dec (Z.to_N y) 0) as [->|]; [cbn; lia|]. apply N.log2_lt_pow2; lia. }
  apply N.lxor_eq in E. apply is_byte_nonneg in Hx, Hy. apply Z2N.inj; auto.
Qed.

(* every alteration confined to at most 4 consecutive bytes is detected *)
Theorem crc_4bytes pre mid mid' post :
  bytes_ok (pre ++ mid ++ post) = true -> bytes_ok mid' = true ->
  length mid' = length mid -> (length mid <= 4)%nat -> mid' <> mid ->
  crc32 (pre ++ mid' ++ post) <> crc32 (pre ++ mid ++ post).
Proof.
  intros Hd Hm' Hl H4 Hne.
  rewrite !bytes_ok_app in Hd. apply andb_prop in Hd. destruct Hd as [Hpre Hd].
  apply andb_prop in Hd. destruct Hd as [Hmid Hpost].
  set (e := repeat 0%Z (length pre) ++ zxor mid mid' ++ repeat 0%Z (length post)).
  assert (E : pre ++ mid' ++ post = zxor (pre ++ mid ++ post) e).
  { unfold e. rewrite zxor_app by now rewrite repeat_length.
    rewrite zxor_app by (rewrite zxor_length; auto).
    rewrite !zxor_zeros, zxor_self_r by auto. reflexivity. }
  rewrite E. apply crc_burst.
  - rewrite !bytes_ok_app, Hpre, Hmid, Hpost. reflexivity.
  - unfold e. rewrite !bytes_ok_app, !bytes_ok_repeat0, zxor_bytes_ok by auto. reflexivity.
  - unfold e. rewrite !app_length, !repeat_length, zxor_length by auto. reflexivity.
  - unfold e. rewrite !zbits_app, !zbits_zeros.
    exists (8 * length pre)%nat, (zbits (zxor mid mid')), (8 * length post)%nat.
    split; [reflexivity|]. rewrite zbits_length, zxor_length by auto.
    split; [lia|]. intros Z. apply Hne. symmetry. apply (zxor_zero_eq mid mid'); auto.
Qed.

(* flipping one bit: position i counts bits in CRC order (bit i mod 8 of byte i / 8) *)
Fixpoint flip_bit (d : list Z) (i : nat) : list Z :=
  match d with
  | [] => []
  | x :: t => if Nat.ltb i 8 then Z.lxor x (2 ^ Z.of_nat i) :: t else x :: flip_bit t (i - 8)
  end.

Lemma flip_bit_split d : forall i, (i < 8 * length d)%nat ->
  exists pre x post, d = pre ++ [x] ++ post /\ flip_bit d i = pre ++ [Z.lxor x (2 ^ Z.of_nat (i - 8 * length pre))] ++ post
                     /\ (i - 8 * length pre < 8)%nat.
Proof.
  induction d as [|x t IH]; intros i Hi; [cbn in Hi; lia|].
  cbn [flip_bit]. destruct (Nat.ltb i 8) eqn:L.
  - apply Nat.ltb_lt in L. exists [], x, t. cbn [length app]. rewrite Nat.sub_0_r. auto.
  - apply Nat.ltb_ge in L. destruct (IH (i - 8)%nat) as (pre & y & post & E1 & E2 & E3); [cbn [length] in Hi; lia|].
    exists (x :: pre), y, post. cbn [length app]. rewrite E2. subst t.
    replace (i - 8 * S (length pre))%nat with (i - 8 - 8 * length pre)%nat by lia. auto.
Qed.

Theorem crc_bitflip d i : bytes_ok d = true -> (i < 8 * length d)%nat -> crc32 (flip_bit d i) <> crc32 d.
Proof.
  intros Hd Hi. destruct (flip_bit_split d i Hi) as (pre & x & post & E1 & E2 & E3).
  rewrite E2, E1. rewrite E1 in Hd.
  assert (Hx : is_byte x = true).
  { rewrite !bytes_ok_app in Hd. apply andb_prop in Hd. destruct Hd as [_ Hd]. apply andb_prop in Hd.
    destruct Hd as [Hd _]. cbn in Hd. now rewrite andb_true_r in Hd. }
  set (j := (i - 8 * length pre)%nat) in *.
  assert (Hb : is_byte (Z.lxor x (2 ^ Z.of_nat j)) = true /\ Z.lxor x (2 ^ Z.of_nat j) <> x).
  { assert (forallb (fun x => forallb (fun j => is_byte (Z.lxor x (2 ^ Z.of_nat j)) && negb (Z.lxor x (2 ^ Z.of_nat j) =? x)%Z)
                                     (seq 0 8)) (map Z.of_nat (seq 0 256)) = true) as A by (vm_compute; reflexivity).
    rewrite forallb_forall in A. specialize (A x).
    assert (In x (map Z.of_nat (seq 0 256))) as I.
    { unfold is_byte in Hx. apply andb_prop in Hx. destruct Hx as [H1 H2]. apply Z.leb_le in H1. apply Z.ltb_lt in H2.
      apply in_map_iff. exists (Z.to_nat x). split; [lia|]. apply in_seq. lia. }
    specialize (A I). rewrite forallb_forall in A. specialize (A j).
    assert (In j (seq 0 8)) as I2 by (apply in_seq; lia).
    specialize (A I2). apply andb_prop in A. destruct A as [A1 A2]. split; [exact A1|].
    apply negb_true_iff in A2. now apply Z.eqb_neq in A2. }
  destruct Hb as [Hb1 Hb2].
  apply crc_4bytes; [exact Hd| |reflexivity| |].
  - cbn. now rewrite Hb1.
  - cbn [length]; lia.
  - intros E. injection E. exact Hb2.
Qed.

(* ------------------------------------------------------------------ range of the checksum *)
Lemma lxor_is32 a b : is32 a -> is32 b -> is32 (N.lxor a b).
Proof.
  unfold is32. intros Ha Hb.
  destruct (N.eq_dec (N.lxor a b) 0) as [->|Hz]; [lia|].
  apply N.log2_lt_pow2; [lia|].
  eapply N.le_lt_trans; [apply N.log2_lxor|]. apply N.max_lub_lt.
  - destruct (N.eq_dec a 0) as [->|]; [cbn; lia|]. apply N.log2_lt_pow2; lia.
  - destruct (N.eq_dec b 0) as [->|]; [cbn; lia|]. apply N.log2_lt_pow2; lia.
Qed.

Lemma crc_bits_is32 bits : forall r, is32 r -> is32 (crc_bits r bits).
Proof.
  induction bits as [|b t IH]; intros r H; [exact H|].
  cbn [crc_bits fold_left]. apply IH. unfold updb. apply upd0_is32. apply lxor_is32; [exact H|].
  destruct b; unfold is32; cbn; lia.
Qed.

Theorem crc32_range d : bytes_ok d = true -> (0 <= crc32 d < 4294967296)%Z.
Proof.
  intros H. rewrite (crc32_bits d H).
  assert (I : is32 (N.lxor (crc_bits INIT (zbits d)) 0xFFFFFFFF)).
  { apply lxor_is32; [apply crc_bits_is32|]; unfold is32; vm_compute; reflexivity. }
  unfold is32 in I. assert (E : 2 ^ 32 = 4294967296) by (vm_compute; reflexivity). rewrite E in I. lia.
Qed.

(* ------------------------------------------------------------------ the OTHER bit numbering
   [burst_pattern] / [burst32b] above speak about positions in the order the CRC consumes the bits: byte by byte, and
   inside a byte the LEAST significant bit first ([zbits]).  In the numbering usually drawn for a byte stream - most
   significant bit of each byte first ([zbits_msb]) - "a window of at most 32 consecutive positions" is a different
   set of patterns, and for that reading the statement is FALSE: the pattern 0a 1e e9 d5 e0 (set bits within 31
   consecutive MSB-first positions; 39 positions apart in CRC order) is a multiple of the generator polynomial and
   leaves every checksum unchanged.  What holds in ANY numbering: single-bit flips ([crc_bitflip]) and every
   alteration confined to 4 consecutive bytes ([crc_4bytes]; this contains every MSB-first burst of at most 25 bits). *)
Definition zbits_msb (d : list Z) : list bool := flat_map (fun b => rev (byte_bits (Z.to_N b))) d.

Definition msb_d : list Z := [104; 101; 108; 108; 111; 32; 119; 111]%Z.         (* "hello wo" *)
Definition msb_e : list Z := [0; 0x0a; 0x1e; 0xe9; 0xd5; 0xe0; 0; 0]%Z.

Theorem burst_msb_order_refuted :
  exists d e, bytes_ok d = true /\ bytes_ok e = true /\ length d = length e /\
              burst32b (zbits_msb e) = true /\ burst32b (zbits e) = false /\
              zxor d e <> d /\ crc32 (zxor d e) = crc32 d.
Proof. exists msb_d, msb_e. vm_compute. repeat split; try reflexivity. discriminate. Qed.
