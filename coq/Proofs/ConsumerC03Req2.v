(* The monitor REQ2 of Model/ConsumerLogC03.v (REQ plus: the commit-retry DelayedCall is never armed while a commit
   request is outstanding or while it is already armed; no commit request is sent while it is armed) never rejects a
   run of the consumer model: what it tracks is at every moment the function [req2_abs] of the model state.
   Proved like REQ (Proofs/ConsumerC02Req.v) by symbolic execution of every method of Model/Consumer.v, with the
   commit-side invariant [c_ok]. *)
From Coq Require Import Lia.
From AV Require Import Base.Util Model.Consumer Model.ConsumerLog Model.ConsumerLogC03 Proofs.ConsumerC02Wp Proofs.ConsumerC02Req.

Notation wr := (wp req2_out).

(* the commit-side invariant: a commit request outstanding excludes an armed retry timer; and, except inside stop()
   (which empties _commit_ds BEFORE it cancels the request and the timer), an empty _commit_ds means no request is
   outstanding and no retry is armed *)
Definition c_ok (s : state) : bool :=
  implb (is_some (s_creq s)) (negb (ccall_active s))
  && (s_stopping s || implb (is_nil (s_cds s)) (is_none (s_creq s) && negb (ccall_active s))).

(* what a nested execution may not do while _stopping is set: clear the flag, send a commit request *)
Definition TT (s s' : state) : Prop :=
  s_stopping s = true -> s_stopping s' = true /\ (s_creq s = None -> s_creq s' = None).
(* methods that touch nothing of the commit side *)
Definition FR (s s' : state) : Prop :=
  s_stopping s' = s_stopping s /\ s_creq s' = s_creq s /\ s_ccall s' = s_ccall s /\ s_cds s' = s_cds s.

Definition QI2 {A} (s : state) : res A -> greq2 -> state -> Prop :=
  fun _ g' s' => g' = req2_abs s' /\ kind_ok s' = true /\ c_ok s' = true /\ TT s s'.
Definition QF {A} (s : state) : res A -> greq2 -> state -> Prop :=
  fun _ g' s' => g' = req2_abs s' /\ kind_ok s' = true /\ FR s s'.

(* stop() is entered with _stopping clear; its loop over _commit_ds runs with the flag set; a commit result is
   delivered when neither a request nor a retry is pending *)
Definition kpre2 (k : kont) (s : state) : bool :=
  kpre k s &&
  match k with
  | KStop => negb (s_stopping s)
  | KStopCds => s_stopping s
  | KDeliver _ => is_none (s_creq s) && negb (ccall_active s)
  | _ => true
  end.

(* split on ONE state field that a match in the goal (else in a hypothesis) scrutinises *)
Ltac r_case1 :=
  match goal with
  | |- context [match s_req ?s with _ => _ end] => destruct (s_req s) as [[? []]|] eqn:?
  | |- context [match s_rcall ?s with _ => _ end] => destruct (s_rcall s) eqn:?
  | |- context [match s_creq ?s with _ => _ end] => destruct (s_creq s) as [[[? ?] ?]|] eqn:?
  | |- context [match s_ccall ?s with _ => _ end] => destruct (s_ccall s) as [[[? ?] ?]|] eqn:?
  | |- context [match s_cds ?s with _ => _ end] => destruct (s_cds s) eqn:?
  | |- context [match s_mblock ?s with _ => _ end] => destruct (s_mblock s) as [[[? ?]|]|] eqn:?
  | |- context [s_stopping ?s] => is_var s; destruct (s_stopping s) eqn:?
  | |- context [?z =? 0] => is_var z; destruct (z =? 0) eqn:?
  | H : context [match s_req ?s with _ => _ end] |- _ => destruct (s_req s) as [[? []]|] eqn:?
  | H : context [match s_mblock ?s with _ => _ end] |- _ => destruct (s_mblock s) as [[[? ?]|]|] eqn:?
  | H : context [match s_rcall ?s with _ => _ end] |- _ => destruct (s_rcall s) eqn:?
  | H : context [match s_creq ?s with _ => _ end] |- _ => destruct (s_creq s) as [[[? ?] ?]|] eqn:?
  | H : context [match s_ccall ?s with _ => _ end] |- _ => destruct (s_ccall s) as [[[? ?] ?]|] eqn:?
  | H : context [match s_cds ?s with _ => _ end] |- _ => destruct (s_cds s) eqn:?
  | H : context [s_stopping ?s] |- _ =>
    is_var s; lazymatch type of H with s_stopping s = _ => fail | _ => destruct (s_stopping s) eqn:? end
  | H : context [?z =? 0] |- _ =>
    is_var z; lazymatch type of H with (z =? 0) = _ => fail | _ => destruct (z =? 0) eqn:? end
  end.
Ltac r_rw_hyps :=
  repeat match goal with
  | p : (_ * _)%type |- _ => destruct p
  end;
  repeat match goal with
  | H : ?x = _ |- _ =>
    lazymatch x with
    | s_req _ => idtac | s_rcall _ => idtac | s_creq _ => idtac | s_ccall _ => idtac | s_startd _ => idtac
    | s_mblock _ => idtac | s_proc _ => idtac | s_looper _ => idtac | s_cds _ => idtac | s_stopping _ => idtac
    | _ =? 0 => idtac
    end; progress (rewrite H in * )
  end.
Ltac r_bcomp := rewrite ?forallb_app in *;
  cbn [negb andb orb implb Z.eqb Pos.eqb R_COMMIT R_FETCH R_OFFREQ R_OFFFETCH q2 q_ct q_rk q_tm q_co q_lc forallb req_neutral] in *.
(* the pending [TT] facts of the calls made so far, in path order *)
Ltac tt_fwd :=
  repeat match goal with
  | H : true = true -> _ |- _ => specialize (H eq_refl)
  | H : false = true -> _ |- _ => clear H
  | H : s_stopping ?a = true -> _, St : s_stopping ?a = true |- _ => specialize (H St)
  | H : s_stopping _ = true /\ _ |- _ => destruct H
  | H : true = true /\ _ |- _ => destruct H as [_ H]
  | H : None = None -> _ |- _ => specialize (H eq_refl)
  | H : Some _ = None -> _ |- _ => clear H
  | H : ?x = None -> _, E : ?x = None |- _ => specialize (H E)
  end.
Ltac r_fin := psimpl; r_bcomp; bool_hyps; rw_eqs; r_bcomp; first [ reflexivity | assumption | congruence ].
Ltac r_unf :=
  repeat match goal with
  | H : kind_ok _ = _ |- _ => unfold kind_ok, parked in H
  | H : c_ok _ = _ |- _ => unfold c_ok in H
  | H : ccall_active _ = _ |- _ => unfold ccall_active in H
  | H : context [ccall_active _] |- _ => unfold ccall_active in H
  | H : kpre2 _ _ = _ |- _ => unfold kpre2 in H
  | H : kpre _ _ = _ |- _ => unfold kpre, req_pending in H
  | H : req_pending _ = _ |- _ => unfold req_pending in H
  | H : parked _ = _ |- _ => unfold parked in H
  | H : QI2 _ _ _ _ |- _ => unfold QI2 in H
  | H : QF _ _ _ _ |- _ => unfold QF in H
  end;
  unfold kpre2, kpre; unfold QI2, QF, req2_abs, req_abs, rcall_active, req_pending, kind_ok, c_ok, ccall_active, parked;
  unfold is_some, is_none, is_nil in *.
Ltac r_search n :=
  first [ solve [r_fin]
        | lazymatch n with O => fail | S ?m => r_case1; r_rw_hyps; tt_fwd; r_rw_hyps; r_search m end ].
Ltac r_tt :=
  lazymatch goal with
  | |- TT _ _ =>
    unfold TT; psimpl; let St := fresh "St" in intro St;
    first [ congruence |
    r_rw_hyps; tt_fwd; r_rw_hyps; tt_fwd;
    split; [ first [ reflexivity | assumption | congruence ]
           | let Hc := fresh "Hc" in intro Hc; r_rw_hyps; tt_fwd; r_rw_hyps; tt_fwd;
             first [ reflexivity | assumption | congruence ] ] ]
  end.
Ltac r_solve1 :=
  lazymatch goal with
  | |- TT _ _ => r_tt
  | |- FR _ _ => unfold FR; psimpl; r_rw_hyps; repeat split; first [ reflexivity | assumption | congruence ]
  | |- kind_ok _ = true =>
    first [ assumption |
    repeat match goal with H : c_ok _ = _ |- _ => clear H | H : _ -> _ |- _ => clear H end;
    r_unf; psimpl; r_rw_hyps; rw_eqs; cbn beta iota in *; try reflexivity; try assumption; r_search 6%nat ]
  | |- c_ok _ = true =>
    first [ assumption |
    repeat match goal with H : kind_ok _ = _ |- _ => clear H | H : kpre _ _ = _ |- _ => clear H end;
    r_unf; psimpl; r_rw_hyps; tt_fwd; r_rw_hyps; rw_eqs; cbn beta iota in *; try reflexivity; try assumption; r_search 8%nat ]
  | |- _ =>
    first [ reflexivity | assumption |
    intros; r_unf; psimpl; r_rw_hyps; tt_fwd; r_rw_hyps; rw_eqs; cbn beta iota in *;
    try reflexivity; try assumption; try (f_equal; try reflexivity; try (f_equal; try reflexivity));
    r_search 8%nat ]
  end.
Ltac r_split := lazymatch goal with |- _ /\ _ => split; r_split | _ => idtac end.
Ltac r_solve := unfold QI2, QF; r_split; r_solve1.

Ltac r_emit :=
  lazymatch goal with
  | |- wp _ (emit _) _ _ _ =>
    apply wp_emit; eexists; split;
    [ kind_fact; unfold req2_abs, req_abs, rcall_active, req2_out; psimpl;
      cbn [req_out req_send q2 q_ct q_rk q_tm q_co q_lc]; rw_eqs; cbn beta iota;
      unfold ccall_active; psimpl; rw_eqs; cbn beta iota;
      cbn [req_out req_send q2 q_ct q_rk q_tm q_co q_lc]; try reflexivity
    | cbn beta iota ]
  end.

Lemma r_eq {A} (m : M A) Q g s : g = req2_abs s -> wr m Q (req2_abs s) s -> wr m Q g s.
Proof. intros ->. auto. Qed.

Ltac r_destr_post H :=
  lazymatch type of H with
  | _ /\ _ => let H1 := fresh "P" in let H2 := fresh "P" in destruct H as [H1 H2]; r_destr_post H1; r_destr_post H2
  | ?g = req2_abs _ => subst g
  | TT _ _ => unfold TT in H; psimpl; tt_fwd
  | FR _ _ => unfold FR in H; psimpl; r_destr_post H
  | _ => idtac
  end.
Ltac r_docall lem :=
  eapply r_eq; [ solve [r_solve] |
    eapply wp_call; [ eapply lem; try solve [r_solve]
                    | let r := fresh "r" in let H := fresh "P" in
                      intros r ? ? H; unfold QI2, QF in H; r_destr_post H; r_rw_hyps; tt_fwd; destruct r; cbn beta iota ] ].
Ltac r_walk call := repeat (first [ q_stif | r_emit | wp_step call ]).

(* ---------- methods without re-entrancy ---------- *)
Lemma r_startd_errback fk s : kind_ok s = true ->
  wr (startd_errback fk) (fun r g' s' => QF s r g' s' /\ s_req s' = s_req s) (req2_abs s) s.
Proof. intro K. unfold startd_errback. r_walk idtac. all: try solve [r_solve]. Qed.
Ltac d1 := idtac; lazymatch goal with
  | |- wp _ (startd_errback _) _ _ _ => r_docall r_startd_errback end.

Lemma r_do_fetch s : kind_ok s = true -> wr do_fetch (QF s) (req2_abs s) s.
Proof. intro K. unfold do_fetch. r_walk d1. all: try solve [r_solve]. Qed.
Ltac d2 := idtac; first [ d1 | lazymatch goal with
  | |- wp _ do_fetch _ _ _ => r_docall r_do_fetch end ].

Lemma r_retry_fetch z s : kind_ok s = true ->
  wr (retry_fetch z) (fun r g' s' => QF s r g' s' /\ s_req s' = s_req s) (req2_abs s) s.
Proof. intro K. unfold retry_fetch. r_walk d2. all: try solve [r_solve]. Qed.
Ltac d3 := idtac; first [ d2 | lazymatch goal with
  | |- wp _ (retry_fetch _) _ _ _ => r_docall r_retry_fetch end ].

Lemma r_handle_offset_error fk s : kind_ok s = true -> req_pending s = false -> parked s = false ->
  wr (handle_offset_error fk) (fun r g' s' => QF s r g' s' /\ req_pending s' = false) (req2_abs s) s.
Proof. intros K NP NK. unfold handle_offset_error. r_walk d3. all: try solve [r_solve]. Qed.
Lemma r_handle_fetch_error fk s : kind_ok s = true -> req_pending s = false -> parked s = false ->
  wr (handle_fetch_error fk) (fun r g' s' => QF s r g' s' /\ req_pending s' = false) (req2_abs s) s.
Proof. intros K NP NK. unfold handle_fetch_error. r_walk d3. all: try solve [r_solve]. Qed.
Lemma r_handle_auto_commit_error fk s : kind_ok s = true -> wr (handle_auto_commit_error fk) (QF s) (req2_abs s) s.
Proof. intro K. unfold handle_auto_commit_error. r_walk d3. all: try solve [r_solve]. Qed.
Lemma r_handle_processor_error fk s : kind_ok s = true -> wr (handle_processor_error fk) (QF s) (req2_abs s) s.
Proof. intro K. unfold handle_processor_error. r_walk d3. all: try solve [r_solve]. Qed.
(* a commit request is sent only while no retry is armed, and (outside stop()) on behalf of a waiting Deferred *)
Lemma r_send_commit_request i a s : kind_ok s = true -> c_ok s = true ->
  ccall_active s = false -> s_stopping s = false -> is_nil (s_cds s) = false ->
  wr (send_commit_request i a) (QI2 s) (req2_abs s) s.
Proof. intros K C Hc St Hn. unfold send_commit_request. r_walk d3. all: try solve [r_solve]. Qed.
Ltac d4 := idtac; first [ d3 | lazymatch goal with
  | |- wp _ (handle_offset_error _) _ _ _ => r_docall r_handle_offset_error
  | |- wp _ (handle_fetch_error _) _ _ _ => r_docall r_handle_fetch_error
  | |- wp _ (handle_auto_commit_error _) _ _ _ => r_docall r_handle_auto_commit_error
  | |- wp _ (handle_processor_error _) _ _ _ => r_docall r_handle_processor_error
  | |- wp _ (send_commit_request _ _) _ _ _ => r_docall r_send_commit_request end ].

(* commit() is not reached while _stopping is set *)
Lemma r_commit w s : kind_ok s = true -> c_ok s = true -> s_stopping s = false -> wr (commit w) (QI2 s) (req2_abs s) s.
Proof. intros K C St. unfold commit. r_walk d4. all: try solve [r_solve]. Qed.
Ltac d5 := idtac; first [ d4 | lazymatch goal with
  | |- wp _ (commit _) _ _ _ => r_docall r_commit end ].
Lemma r_auto_commit bc s : kind_ok s = true -> c_ok s = true -> wr (auto_commit bc) (QI2 s) (req2_abs s) s.
Proof. intros K C. unfold auto_commit. r_walk d5. all: try solve [r_solve]. Qed.
Ltac d6 := idtac; first [ d5 | lazymatch goal with
  | |- wp _ (auto_commit _) _ _ _ => r_docall r_auto_commit end ].
Lemma r_proc_chain l fk s : kind_ok s = true -> c_ok s = true -> wr (proc_chain l fk) (QI2 s) (req2_abs s) s.
Proof. intros K C. unfold proc_chain. r_walk d6. all: try solve [r_solve]. Qed.
Lemma r_pop_plan s : kind_ok s = true -> wr pop_plan (QF s) (req2_abs s) s.
Proof. intro K. unfold pop_plan. r_walk d6. all: try solve [r_solve]. Qed.
Lemma r_emit_shutd ok v lc s : kind_ok s = true -> wr (emit_shutd (OShutD ok v lc)) (QF s) (req2_abs s) s.
Proof. intro K. unfold emit_shutd. r_walk d6. all: try solve [r_solve]. Qed.
Ltac d7 := idtac; first [ d6 | lazymatch goal with
  | |- wp _ (proc_chain _ _) _ _ _ => r_docall r_proc_chain
  | |- wp _ pop_plan _ _ _ => r_docall r_pop_plan
  | |- wp _ (emit_shutd (OShutD _ _ _)) _ _ _ => r_docall r_emit_shutd
  | |- wp _ (emit_shutd (match ?x with _ => _ end)) _ _ _ => destruct x end ].
Lemma r_interrupted s : kind_ok s = true -> wr interrupted (QF s) (req2_abs s) s.
Proof. intro K. unfold interrupted. r_walk d7. all: try solve [r_solve]. Qed.
Ltac d8 := idtac; first [ d7 | lazymatch goal with
  | |- wp _ interrupted _ _ _ => r_docall r_interrupted end ].

(* outcomes held back until an API call returns do not move the monitor *)
Lemma neutral_gouts2 g l : forallb req_neutral l = true -> gouts req2_out g l = Some g.
Proof.
  induction l as [|x l IH]; cbn [forallb gouts]; [reflexivity|]. intro H. apply andb_prop in H. destruct H as [H1 H2].
  destruct g as [g ct]. destruct x; try discriminate H1; cbn [req2_out req_out q2 q_ct]; auto.
Qed.
Ltac r_flush :=
  lazymatch goal with
  | |- wp _ (fun s' : state => (Ok tt, s', ?l)) _ ?g _ =>
    apply wp_emits; exists g; split; [ apply neutral_gouts2; solve [r_solve] | cbn beta iota ]
  end.

(* ---------- the re-entrant methods ---------- *)
Section Rec.
Variable rec : kont -> M unit.
Hypothesis Hrec : forall k s, kind_ok s = true -> c_ok s = true -> kpre2 k s = true -> wr (rec k) (QI2 s) (req2_abs s) s.

Ltac d9 := idtac; first [ d8 | lazymatch goal with
  | |- wp _ (rec _) _ _ _ => r_docall Hrec end ].

Lemma r_api_stop s : kind_ok s = true -> c_ok s = true -> s_stopping s = false -> wr (api_stop rec) (QI2 s) (req2_abs s) s.
Proof. intros K C St. unfold api_stop. r_walk d9. all: try solve [r_solve]. Qed.
Lemma r_api_commit s : kind_ok s = true -> c_ok s = true -> s_stopping s = false -> wr api_commit (QI2 s) (req2_abs s) s.
Proof. intros K C St. unfold api_commit. r_walk d9. all: try solve [r_solve]. Qed.
Lemma r_api_shutdown s : kind_ok s = true -> c_ok s = true -> wr (api_shutdown rec) (QI2 s) (req2_abs s) s.
Proof. intros K C. unfold api_shutdown. repeat (first [ r_flush | q_stif | r_emit | wp_step d9 ]). all: try solve [r_solve]. Qed.
(* the commit request that failed has been forgotten; the retry is armed on behalf of a waiting Deferred *)
Lemma r_handle_commit_error fk i a s : kind_ok s = true -> c_ok s = true ->
  s_creq s = None -> ccall_active s = false -> s_stopping s || negb (is_nil (s_cds s)) = true ->
  wr (handle_commit_error rec fk i a) (QI2 s) (req2_abs s) s.
Proof. intros K C Hq Hc Hn. unfold handle_commit_error. r_walk d9. all: try solve [r_solve]. Qed.
Lemma r_fire_all ds r s : kind_ok s = true -> c_ok s = true -> wr (fire_all rec ds r) (QI2 s) (req2_abs s) s.
Proof.
  revert s. induction ds as [|d ds IH]; intros s K C; cbn [fire_all].
  - r_walk d9. all: try solve [r_solve].
  - r_walk d9. all: try (eapply wp_call; [ apply IH; solve [r_solve] | ]).
    all: try (let H := fresh "P" in intros ? ? ? H; unfold QI2 in H; r_destr_post H).
    all: try solve [r_solve].
Qed.
Lemma r_finish_block s : kind_ok s = true -> c_ok s = true -> wr (finish_block rec) (QI2 s) (req2_abs s) s.
Proof. intros K C. unfold finish_block. r_walk d9. all: try solve [r_solve]. Qed.
Lemma r_stop_proc s : kind_ok s = true -> c_ok s = true -> wr (stop_proc rec) (QI2 s) (req2_abs s) s.
Proof. intros K C. unfold stop_proc. r_walk d9. all: try solve [r_solve]. Qed.
Lemma r_stop_rcall s : kind_ok s = true -> wr stop_rcall (QF s) (req2_abs s) s.
Proof. intro K. unfold stop_rcall. r_walk d9. all: try solve [r_solve]. Qed.
Ltac d10 := idtac; first [ d9 | lazymatch goal with
  | |- wp _ (api_stop _) _ _ _ => r_docall r_api_stop
  | |- wp _ api_commit _ _ _ => r_docall r_api_commit
  | |- wp _ (api_shutdown _) _ _ _ => r_docall r_api_shutdown
  | |- wp _ (handle_commit_error _ _ _ _) _ _ _ => r_docall r_handle_commit_error
  | |- wp _ (fire_all _ _ _) _ _ _ => r_docall r_fire_all
  | |- wp _ (finish_block _) _ _ _ => r_docall r_finish_block
  | |- wp _ (stop_proc _) _ _ _ => r_docall r_stop_proc
  | |- wp _ stop_rcall _ _ _ => r_docall r_stop_rcall end ].
(* inside stop(): the request is cancelled, nothing nested sends another one *)
Lemma r_stop_creq s : kind_ok s = true -> c_ok s = true -> s_stopping s = true ->
  wr (stop_creq rec) (fun r g' s' => QI2 s r g' s' /\ s_creq s' = None) (req2_abs s) s.
Proof. intros K C St. unfold stop_creq. r_walk d10. all: try solve [r_solve]. Qed.
Lemma r_stop_ccall s : kind_ok s = true -> c_ok s = true ->
  wr stop_ccall (fun r g' s' => QI2 s r g' s' /\ s_ccall s' = None /\ s_stopping s' = s_stopping s /\ s_creq s' = s_creq s)
     (req2_abs s) s.
Proof. intros K C. unfold stop_ccall. r_walk d10. all: try solve [r_solve]. Qed.
Lemma r_stop_looper s : kind_ok s = true -> wr stop_looper (QF s) (req2_abs s) s.
Proof. intro K. unfold stop_looper. r_walk d10. all: try solve [r_solve]. Qed.
Lemma r_stop_susp s : kind_ok s = true -> wr stop_susp (QF s) (req2_abs s) s.
Proof. intro K. unfold stop_susp. r_walk d10. all: try solve [r_solve]. Qed.
Lemma r_stop_startd s : kind_ok s = true -> wr stop_startd (QF s) (req2_abs s) s.
Proof. intro K. unfold stop_startd. r_walk d10. all: try solve [r_solve]. Qed.
Ltac d11 := idtac; first [ d10 | lazymatch goal with
  | |- wp _ (stop_creq _) _ _ _ => r_docall r_stop_creq
  | |- wp _ stop_ccall _ _ _ => r_docall r_stop_ccall
  | |- wp _ stop_looper _ _ _ => r_docall r_stop_looper
  | |- wp _ stop_susp _ _ _ => r_docall r_stop_susp
  | |- wp _ stop_startd _ _ _ => r_docall r_stop_startd end ].

(* stop()'s first two blocks (request, parked reply) are walked through together *)
Lemma bind_assoc {A B C} (m : M A) (f : A -> M B) (k : B -> M C) s :
  bind m (fun a => bind (f a) k) s = bind (bind m f) k s.
Proof.
  unfold bind. destruct (m s) as [[[a|x] s1] o1]; [|reflexivity].
  destruct (f a s1) as [[[b|y] s2] o2]; [|reflexivity].
  destruct (k b s2) as [[rc s3] o3]. rewrite app_assoc. reflexivity.
Qed.
Lemma wp_assoc {A B C} (m : M A) (f : A -> M B) (k : B -> M C) Q g s :
  wr (bind (bind m f) k) Q g s -> wr (bind m (fun a => bind (f a) k)) Q g s.
Proof. intros H r s' o E. rewrite bind_assoc in E. exact (H r s' o E). Qed.

Lemma r_stop_req_mblock s : kind_ok s = true -> wr (stop_req ;;; stop_mblock) (QF s) (req2_abs s) s.
Proof. intro K. unfold stop_req, stop_mblock. r_walk d11. all: try solve [r_solve]. Qed.
Ltac d12 := idtac; lazymatch goal with
  | |- wp _ (bind stop_req _) _ _ _ => apply wp_assoc; apply wp_bind; r_docall r_stop_req_mblock end.

Lemma r_body_KStop s : kind_ok s = true -> c_ok s = true -> kpre2 KStop s = true -> wr (body rec KStop) (QI2 s) (req2_abs s) s.
Proof.
  intros K C KP. assert (St : s_stopping s = false) by (unfold kpre2 in KP; bool_hyps; assumption). clear KP.
  cbn [body]. repeat (first [ d12 | r_emit | wp_step d11 ]). all: try solve [r_solve].
Qed.
Lemma r_body_KStopCds s : kind_ok s = true -> c_ok s = true -> kpre2 KStopCds s = true ->
  wr (body rec KStopCds) (QI2 s) (req2_abs s) s.
Proof.
  intros K C KP. assert (St : s_stopping s = true) by (unfold kpre2 in KP; bool_hyps; assumption). clear KP.
  cbn [body]. r_walk d11. all: try solve [r_solve].
Qed.
Lemma r_body_KFireProc fk s : kind_ok s = true -> c_ok s = true -> wr (body rec (KFireProc fk)) (QI2 s) (req2_abs s) s.
Proof. intros K C. cbn [body]. r_walk d11. all: try solve [r_solve]. Qed.
Lemma r_body_KProcLoop msgs s : kind_ok s = true -> c_ok s = true -> wr (body rec (KProcLoop msgs)) (QI2 s) (req2_abs s) s.
Proof. intros K C. cbn [body]. r_walk d11. all: try solve [r_solve]. Qed.
Lemma r_body_KFetchResp offs ts s : kind_ok s = true -> c_ok s = true -> kpre (KFetchResp offs ts) s = true ->
  wr (body rec (KFetchResp offs ts)) (QI2 s) (req2_abs s) s.
Proof. intros K C KP. cbn [body]. r_walk d11. all: try solve [r_solve]. Qed.
Lemma r_body_KCommitAndStop s : kind_ok s = true -> c_ok s = true -> wr (body rec KCommitAndStop) (QI2 s) (req2_abs s) s.
Proof. intros K C. cbn [body]. r_walk d11. all: try solve [r_solve]. Qed.
Lemma r_body_KShutFinish fk s : kind_ok s = true -> c_ok s = true -> wr (body rec (KShutFinish fk)) (QI2 s) (req2_abs s) s.
Proof. intros K C. cbn [body]. r_walk d11. all: try solve [r_solve]. Qed.
Lemma r_body_KFireCd d r s : kind_ok s = true -> c_ok s = true -> wr (body rec (KFireCd d r)) (QI2 s) (req2_abs s) s.
Proof. intros K C. cbn [body]. r_walk d11. all: try solve [r_solve]. Qed.
Lemma r_body_KDeliver r s : kind_ok s = true -> c_ok s = true -> kpre2 (KDeliver r) s = true ->
  wr (body rec (KDeliver r)) (QI2 s) (req2_abs s) s.
Proof. intros K C KP. cbn [body]. r_walk d11. all: try solve [r_solve]. Qed.

Lemma r_body k s : kind_ok s = true -> c_ok s = true -> kpre2 k s = true -> wr (body rec k) (QI2 s) (req2_abs s) s.
Proof.
  intros K C KP. destruct k.
  - apply r_body_KStop; assumption.
  - apply r_body_KStopCds; assumption.
  - apply r_body_KFireProc; assumption.
  - apply r_body_KProcLoop; assumption.
  - apply r_body_KFetchResp; try assumption. unfold kpre2 in KP. apply andb_prop in KP. apply KP.
  - apply r_body_KCommitAndStop; assumption.
  - apply r_body_KShutFinish; assumption.
  - apply r_body_KFireCd; assumption.
  - apply r_body_KDeliver; assumption.
Qed.
End Rec.

Definition QPre2 : kont -> greq2 -> state -> Prop :=
  fun k g s => g = req2_abs s /\ kind_ok s = true /\ c_ok s = true /\ kpre2 k s = true.
Lemma r_run fuel : forall k s, kind_ok s = true -> c_ok s = true -> kpre2 k s = true -> wr (run fuel k) (QI2 s) (req2_abs s) s.
Proof.
  assert (Hk : kspec greq2 req2_out QPre2 (fun _ _ s => QI2 s) (run fuel)).
  { apply run_kspec. intros rec Hrec k g s (-> & K & C & KP). apply r_body; auto.
    intros k' s' K' C' KP'. apply Hrec. repeat split; auto. }
  intros k s K C KP. apply Hk. repeat split; auto.
Qed.
