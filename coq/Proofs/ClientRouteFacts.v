(* C07: grouping by leader node, per-broker requests, collection and re-ordering of the results
   (Model/ClientRoute.v, client.py:1231-1362). *)
From AV Require Import Base.Util Model.ClientMeta Model.ClientRoute Proofs.ClientMetaDict Proofs.ClientMetaFacts.
From Coq Require Import Lia Permutation.

(* ---- grouping ---------------------------------------------------------------------------------- *)
(* the payloads resolved to node n, in payload order *)
Definition sel (n : Z) (l : list (payload * Z)) : list payload :=
  map fst (filter (fun pn => snd pn =? n) l).

Lemma sel_app : forall n l l', sel n (l ++ l') = sel n l ++ sel n l'.
Proof. intros. unfold sel. rewrite filter_app, map_app. reflexivity. Qed.

Lemma dappend_get : forall n p d m,
  zget m (dappend n p d) =
  if m =? n then Some (match zget n d with Some l => l ++ [p] | None => [p] end) else zget m d.
Proof.
  intros n p d m. induction d as [|e r IH]; simpl.
  - destruct (m =? n); reflexivity.
  - destruct (n =? fst e) eqn:En; simpl.
    + apply Z.eqb_eq in En. destruct (m =? n) eqn:Em.
      * apply Z.eqb_eq in Em. subst m. rewrite <- En at 1. rewrite Z.eqb_refl. reflexivity.
      * destruct (m =? fst e) eqn:Ee; [|reflexivity]. apply Z.eqb_eq in Ee. rewrite <- En in Ee. subst m.
        rewrite Z.eqb_refl in Em. discriminate.
    + rewrite IH. destruct (m =? fst e) eqn:Ee; [|reflexivity].
      destruct (m =? n) eqn:Em; [|reflexivity]. apply Z.eqb_eq in Ee, Em. subst. rewrite Z.eqb_refl in En. discriminate.
Qed.

Lemma dappend_keys : forall n p d,
  map fst (dappend n p d) = if dmem Z.eqb n d then map fst d else map fst d ++ [n].
Proof.
  intros n p d. unfold dmem. induction d as [|e r IH]; simpl; [reflexivity|].
  destruct (n =? fst e) eqn:En; simpl; [reflexivity|]. rewrite IH. destruct (zget n r); reflexivity.
Qed.

Lemma dappend_nodup : forall n p d, NoDup (map fst d) -> NoDup (map fst (dappend n p d)).
Proof.
  intros n p d H. rewrite dappend_keys. destruct (dmem Z.eqb n d) eqn:E; [exact H|].
  apply NoDup_snoc; [exact H|]. intro Hin. apply (dmem_in Z.eqb Z.eqb_eq) in Hin. congruence.
Qed.

Lemma dappend_concat : forall n p d,
  Permutation (concat (map snd (dappend n p d))) (concat (map snd d) ++ [p]).
Proof.
  intros n p d. induction d as [|e r IH]; simpl; [apply Permutation_refl|].
  destruct (n =? fst e); simpl.
  - rewrite <- !app_assoc. apply Permutation_app_head. apply Permutation_app_comm.
  - rewrite <- app_assoc. apply Permutation_app_head. exact IH.
Qed.

Lemma group_by_node_snoc : forall l x,
  group_by_node (l ++ [x]) = dappend (snd x) (fst x) (group_by_node l).
Proof. intros. unfold group_by_node. rewrite fold_left_app. reflexivity. Qed.

Lemma sel_single : forall m x, sel m [x] = if snd x =? m then [fst x] else [].
Proof. intros m x. unfold sel. simpl. destruct (snd x =? m); reflexivity. Qed.

Lemma group_by_node_spec : forall l,
  NoDup (map fst (group_by_node l)) /\
  forall n, zget n (group_by_node l) = if is_nil (sel n l) then None else Some (sel n l).
Proof.
  induction l as [|x l IH] using rev_ind.
  - split; [constructor|]. intro n. reflexivity.
  - destruct IH as [Hnd Hget]. rewrite group_by_node_snoc. split; [apply dappend_nodup; exact Hnd|].
    intro m. rewrite dappend_get, sel_app, sel_single.
    destruct (m =? snd x) eqn:Em.
    + apply Z.eqb_eq in Em. subst m. rewrite Z.eqb_refl. rewrite Hget.
      destruct (sel (snd x) l) as [|a b]; simpl; reflexivity.
    + rewrite Z.eqb_sym in Em. rewrite Em. rewrite app_nil_r. apply Hget.
Qed.

Lemma group_by_node_in : forall l n ps,
  In (n, ps) (group_by_node l) <-> (ps = sel n l /\ ps <> []).
Proof.
  intros l n ps. destruct (group_by_node_spec l) as [Hnd Hget]. split.
  - intro Hin. apply (dget_in_nodup Z.eqb Z.eqb_eq) in Hin; [|exact Hnd]. rewrite Hget in Hin.
    destruct (sel n l) as [|a b] eqn:E; simpl in Hin; [discriminate|]. inversion Hin. split; [reflexivity|discriminate].
  - intros [-> Hne]. apply (dget_some_in Z.eqb Z.eqb_eq). rewrite Hget.
    destruct (sel n l); [contradiction|reflexivity].
Qed.

Lemma group_by_node_perm : forall l, Permutation (concat (map snd (group_by_node l))) (map fst l).
Proof.
  induction l as [|x l IH] using rev_ind; [apply Permutation_refl|].
  rewrite group_by_node_snoc, map_app. simpl.
  eapply Permutation_trans; [apply dappend_concat|]. apply Permutation_app_tail. exact IH.
Qed.

Lemma sel_resolved : forall n rs,
  sel n (resolved_pairs rs) = map rs_payload (filter (fun x => rs_node x =? n) rs).
Proof.
  intros n rs. unfold sel, resolved_pairs. induction rs as [|x r IH]; simpl; [reflexivity|].
  destruct (rs_node x =? n); simpl; rewrite IH; reflexivity.
Qed.

(* ---- resolution -------------------------------------------------------------------------------- *)
(* the node a payload was resolved to is the leader (coordinator) the cache named AT THAT MOMENT *)
Definition routed (group : option Z) (x : rstep) : Prop :=
  match group with
  | None => exists a, leader_of (rs_state x) (p_key (rs_payload x)) = Some (Some (rs_node x, a))
  | Some g => exists a, zget g (s_g2c (rs_state x)) = Some (rs_node x, a)
  end.

Lemma resolve_leader_ok : forall st p loads st1 loads1 evs n,
  resolve_leader st p loads = (st1, loads1, evs, inl n) ->
  exists a, leader_of st1 (p_key p) = Some (Some (n, a)).
Proof.
  intros st p loads st1 loads1 evs n H. unfold resolve_leader in H.
  assert (Hfin : forall s1 (l1 : list load) (e1 : list loadev) (err : option ekind),
            match err with
            | Some e => (s1, l1, e1, inr e)
            | None => match leader_of s1 (p_key p) with
                      | None => (s1, l1, e1, inr EPartitionUnavailable)
                      | Some None => (s1, l1, e1, inr ELeaderUnavailable)
                      | Some (Some bm) => (s1, l1, e1, inl (fst bm))
                      end
            end = (st1, loads1, evs, @inl Z ekind n) -> exists a, leader_of st1 (p_key p) = Some (Some (n, a))).
  { intros s1 l1 e1 err H1. destruct err; [discriminate|].
    destruct (leader_of s1 (p_key p)) as [[bm|]|] eqn:El; try discriminate.
    inversion H1; subst. destruct bm as [b a]. exists a. exact El. }
  destruct (leader_of st (p_key p)) as [[bm|]|] eqn:El.
  - exact (Hfin st loads [] None H).
  - destruct loads as [|[u r|u c] loads0]; try exact (Hfin st _ [] (Some EScript) H).
    destruct (load_metadata st false u r) as [[[s1 log1] gone1] res1].
    destruct res1; first [exact (Hfin s1 _ _ None H) | exact (Hfin s1 _ _ (Some _) H)].
  - destruct loads as [|[u r|u c] loads0]; try exact (Hfin st _ [] (Some EScript) H).
    destruct (load_metadata st false u r) as [[[s1 log1] gone1] res1].
    destruct res1; first [exact (Hfin s1 _ _ None H) | exact (Hfin s1 _ _ (Some _) H)].
Qed.

Lemma resolve_coord_ok : forall st g loads st1 loads1 evs n,
  resolve_coord st g loads = (st1, loads1, evs, inl n) -> exists a, zget g (s_g2c st1) = Some (n, a).
Proof.
  intros st g loads st1 loads1 evs n H. unfold resolve_coord in H.
  destruct (zget g (s_g2c st)) as [bm|] eqn:Eg.
  - inversion H; subst. destruct bm as [b a]. exists a. exact Eg.
  - destruct loads as [|[u r|u c] loads0]; try discriminate.
    destruct (load_coordinator st g u c) as [[s1 log1] ok].
    destruct ok; [|discriminate]. destruct (zget g (s_g2c s1)) as [bm|] eqn:E1; [|discriminate].
    inversion H; subst. destruct bm as [b a]. exists a. exact E1.
Qed.

Lemma resolve_loop_spec : forall ps st group loads acc evs st' evs' resolved,
  resolve_loop st group ps loads acc evs = (st', evs', inl resolved) ->
  exists new, resolved = acc ++ new /\ map rs_payload new = ps /\ Forall (routed group) new.
Proof.
  induction ps as [|p rest IH]; intros st group loads acc evs st' evs' resolved H; simpl in H.
  - inversion H; subst. exists []. rewrite app_nil_r. repeat split. constructor.
  - destruct (resolve_one st group p loads) as [[[st1 loads1] ev] [n|e]] eqn:Er; [|discriminate].
    apply IH in H. destruct H as [new [Hres [Hmap Hall]]].
    exists ({| rs_payload := p; rs_node := n; rs_state := st1 |} :: new).
    split; [rewrite Hres, <- app_assoc; reflexivity|]. split; [simpl; rewrite Hmap; reflexivity|].
    constructor; [|exact Hall]. unfold routed. simpl. destruct group as [g|]; simpl in Er.
    + eapply resolve_coord_ok. exact Er.
    + eapply resolve_leader_ok. exact Er.
Qed.

(* ---- the per-broker requests ------------------------------------------------------------------- *)
Definition req_view (q : reqev) : Z * list payload := (rq_node q, rq_payloads q).

Lemma send_requests_sent : forall groups st outs sent st' sent',
  send_requests st groups outs sent = (st', sent', None) ->
  map req_view sent' = map req_view sent ++ groups /\ (length groups <= length outs)%nat.
Proof.
  induction groups as [|[n ps] rest IH]; intros st outs sent st' sent' H; simpl in H.
  - inversion H; subst. rewrite app_nil_r. split; [reflexivity|simpl; lia].
  - destruct (s_closed st); [discriminate|]. destruct outs as [|o outs']; [discriminate|].
    destruct (request_on st n) as [[st1 a]|]; [|discriminate].
    apply IH in H. destruct H as [Hm Hl]. split; [|simpl; lia].
    rewrite Hm, map_app. simpl. rewrite <- app_assoc. reflexivity.
Qed.

(* ---- collecting and re-ordering ---------------------------------------------------------------- *)
Definition ok_part (reqs : list (list payload)) (outs : list outcome) : list payload :=
  flat_map (fun ro => match snd ro with OOk _ => fst ro | OFail => [] end) (combine reqs outs).
Definition failed_part (reqs : list (list payload)) (outs : list outcome) : list payload :=
  flat_map (fun ro => match snd ro with OOk _ => [] | OFail => fst ro end) (combine reqs outs).
Definition answers (reqs : list (list payload)) (outs : list outcome) : list resp :=
  flat_map (fun ro => match snd ro with OOk rs => rs | OFail => [] end) (combine reqs outs).
(* every broker that answers, answers for exactly the partitions it was asked about (in any order) *)
Definition honest (reqs : list (list payload)) (outs : list outcome) : Prop :=
  Forall (fun ro => match snd ro with
                    | OOk rs => Permutation (map r_key rs) (map p_key (fst ro))
                    | OFail => True
                    end) (combine reqs outs).

Definition accf (rs : list resp) (acc : list (tpk * resp)) : list (tpk * resp) :=
  fold_left (fun a r => dset tp_eqb (r_key r) r a) rs acc.

Lemma collect_spec : forall reqs outs acc failed,
  collect true reqs outs acc failed = (accf (answers reqs outs) acc, failed ++ failed_part reqs outs).
Proof.
  induction reqs as [|ps reqs IH]; intros outs acc failed; simpl.
  - unfold failed_part, answers. simpl. rewrite app_nil_r. reflexivity.
  - destruct outs as [|o outs']; simpl.
    + unfold failed_part, answers. simpl. rewrite app_nil_r. reflexivity.
    + destruct o as [|rs]; rewrite IH; unfold failed_part, answers, accf; simpl.
      * rewrite <- app_assoc. reflexivity.
      * rewrite fold_left_app. reflexivity.
Qed.

Lemma collect_noexpect : forall reqs outs acc failed,
  collect false reqs outs acc failed = (acc, failed ++ failed_part reqs outs).
Proof.
  induction reqs as [|ps reqs IH]; intros outs acc failed; simpl.
  - unfold failed_part. simpl. rewrite app_nil_r. reflexivity.
  - destruct outs as [|o outs']; simpl.
    + unfold failed_part. simpl. rewrite app_nil_r. reflexivity.
    + destruct o as [|rs]; rewrite IH; unfold failed_part; simpl; [rewrite <- app_assoc|]; reflexivity.
Qed.

Lemma accf_inv : forall rs acc (Q : resp -> Prop),
  (forall k r, tget k acc = Some r -> Q r /\ r_key r = k) -> (forall r, In r rs -> Q r) ->
  forall k r, tget k (accf rs acc) = Some r -> Q r /\ r_key r = k.
Proof.
  induction rs as [|x rs IH]; intros acc Q Hacc Hrs k r H; simpl in H; [apply Hacc; exact H|].
  eapply IH; [| |exact H].
  - intros k0 r0 H0. destruct (tp_eqb k0 (r_key x)) eqn:E.
    + apply tp_eqb_eq in E. subst k0. rewrite tget_set_same in H0. inversion H0; subst r0.
      split; [apply Hrs; left; reflexivity|reflexivity].
    + rewrite tget_set_other in H0; [apply Hacc; exact H0|].
      intro Heq. subst k0. rewrite (proj2 (tp_eqb_eq _ _) eq_refl) in E. discriminate.
  - intros r0 H0. apply Hrs. right. exact H0.
Qed.

Lemma dmem_dset_tp : forall {V} k k' (v : V) d,
  dmem tp_eqb k (dset tp_eqb k' v d) = tp_eqb k k' || dmem tp_eqb k d.
Proof.
  intros V k k' v d. unfold dmem. destruct (tp_eqb k k') eqn:E.
  - apply tp_eqb_eq in E. subst. rewrite tget_set_same. reflexivity.
  - rewrite tget_set_other; [reflexivity|]. intro H. subst. rewrite (proj2 (tp_eqb_eq _ _) eq_refl) in E. discriminate.
Qed.

Lemma accf_mem : forall rs acc k,
  dmem tp_eqb k (accf rs acc) = dmem tp_eqb k acc || existsb (fun r => tp_eqb k (r_key r)) rs.
Proof.
  induction rs as [|x rs IH]; intros acc k; simpl; [rewrite orb_false_r; reflexivity|].
  unfold accf in *. simpl. rewrite IH, dmem_dset_tp.
  destruct (tp_eqb k (r_key x)); destruct (dmem tp_eqb k acc); reflexivity.
Qed.

Lemma reorder_keys : forall keys acc,
  (forall k r, tget k acc = Some r -> r_key r = k) ->
  map r_key (reorder keys acc) = filter (fun k => dmem tp_eqb k acc) keys.
Proof.
  intros keys acc Hk. unfold reorder, dmem. induction keys as [|k keys IH]; simpl; [reflexivity|].
  destruct (tget k acc) as [r|] eqn:E; simpl; [|exact IH]. rewrite (Hk _ _ E), IH. reflexivity.
Qed.

Lemma reorder_in : forall keys acc r, In r (reorder keys acc) -> exists k, In k keys /\ tget k acc = Some r.
Proof.
  intros keys acc r H. unfold reorder in H. apply in_flat_map in H. destruct H as [k [Hk Hin]].
  exists k. split; [exact Hk|]. destruct (tget k acc) as [r0|]; [|destruct Hin]. destruct Hin as [<-|[]]. reflexivity.
Qed.

Lemma existsb_keys : forall k (rs : list resp),
  existsb (fun r => tp_eqb k (r_key r)) rs = existsb (tp_eqb k) (map r_key rs).
Proof. intros k rs. induction rs as [|x rs IH]; simpl; [reflexivity|]. rewrite IH. reflexivity. Qed.

Lemma existsb_tp_in : forall k l, existsb (tp_eqb k) l = true <-> In k l.
Proof.
  intros k l. rewrite existsb_exists. split.
  - intros [x [Hin He]]. apply tp_eqb_eq in He. subst. exact Hin.
  - intro H. exists k. split; [exact H|]. apply tp_eqb_eq. reflexivity.
Qed.

Lemma existsb_tp_perm : forall k l l', Permutation l l' -> existsb (tp_eqb k) l = existsb (tp_eqb k) l'.
Proof.
  intros k l l' H. destruct (existsb (tp_eqb k) l) eqn:E.
  - symmetry. apply existsb_tp_in. eapply Permutation_in; [exact H|]. apply existsb_tp_in. exact E.
  - destruct (existsb (tp_eqb k) l') eqn:E'; [|reflexivity].
    apply existsb_tp_in in E'. apply Permutation_sym in H. apply (Permutation_in _ H) in E'.
    apply existsb_tp_in in E'. congruence.
Qed.

Lemma honest_answers : forall reqs outs, honest reqs outs ->
  Permutation (map r_key (answers reqs outs)) (map p_key (ok_part reqs outs)).
Proof.
  induction reqs as [|ps reqs IH]; intros outs H; [apply Permutation_refl|].
  destruct outs as [|o outs']; [apply Permutation_refl|].
  unfold honest in H. simpl in H. inversion H as [|x l Hx Hl]; subst. unfold answers, ok_part. simpl.
  rewrite !map_app. apply Permutation_app; [|apply IH; exact Hl].
  destruct o as [|rs]; simpl in *; [apply Permutation_refl|exact Hx].
Qed.

Lemma parts_perm : forall reqs outs, (length reqs <= length outs)%nat ->
  Permutation (concat reqs) (ok_part reqs outs ++ failed_part reqs outs).
Proof.
  induction reqs as [|ps reqs IH]; intros outs Hl; [apply Permutation_refl|].
  destruct outs as [|o outs']; [simpl in Hl; lia|]. simpl in Hl.
  unfold ok_part, failed_part. simpl. fold (ok_part reqs outs') (failed_part reqs outs').
  assert (IH' := IH outs' ltac:(lia)). destruct o as [|rs]; simpl.
  - eapply Permutation_trans; [apply Permutation_app_head; exact IH'|]. apply Permutation_app_swap_app.
  - rewrite <- app_assoc. apply Permutation_app_head. exact IH'.
Qed.

Lemma filter_permutation : forall {A} (f : A -> bool) l l', Permutation l l' -> Permutation (filter f l) (filter f l').
Proof.
  intros A f l l' H. induction H; simpl.
  - constructor.
  - destruct (f x); [constructor|]; assumption.
  - destruct (f x); destruct (f y); try apply Permutation_refl. apply perm_swap.
  - eapply Permutation_trans; eassumption.
Qed.

Lemma filter_all : forall {A} (f : A -> bool) l, (forall x, In x l -> f x = true) -> filter f l = l.
Proof.
  intros A f l H. induction l as [|x l IH]; simpl; [reflexivity|].
  rewrite (H x (or_introl eq_refl)). f_equal. apply IH. intros y Hy. apply H. right. exact Hy.
Qed.

Lemma filter_none : forall {A} (f : A -> bool) l, (forall x, In x l -> f x = false) -> filter f l = [].
Proof.
  intros A f l H. induction l as [|x l IH]; simpl; [reflexivity|].
  rewrite (H x (or_introl eq_refl)). apply IH. intros y Hy. apply H. right. exact Hy.
Qed.

Lemma filter_perm_nodup : forall (keys a b : list tpk), NoDup keys -> Permutation keys (a ++ b) ->
  Permutation (filter (fun k => existsb (tp_eqb k) a) keys) a.
Proof.
  intros keys a b Hnd Hp. pose proof (Permutation_NoDup Hp Hnd) as Hab.
  eapply Permutation_trans; [apply filter_permutation; exact Hp|]. rewrite filter_app.
  rewrite (filter_all _ a), (filter_none _ b); [rewrite app_nil_r; apply Permutation_refl| |].
  - intros x Hx. destruct (existsb (tp_eqb x) a) eqn:E; [|reflexivity]. apply existsb_tp_in in E.
    exfalso. clear - Hab Hx E. induction a as [|y a IH]; [destruct E|]. simpl in Hab. inversion Hab; subst.
    destruct E as [->|E]; [apply H1; rewrite in_app_iff; right; exact Hx|apply IH; assumption].
  - intros x Hx. apply existsb_tp_in. exact Hx.
Qed.

(* ---- the structure of a call that reached the fan-out ------------------------------------------- *)
Definition fanout (s : sres) : option (list resp * list payload) :=
  match s with SOk rs => Some (rs, []) | SFailed rs f => Some (rs, f) | SErr _ => None end.

Lemma aware_unfold : forall st group expect ps loads outs rs failed,
  fanout (a_res (aware st group expect ps loads outs)) = Some (rs, failed) ->
  ps <> [] /\
  exists st1 evs resolved st2 acc,
    resolve_loop st group ps loads [] [] = (st1, evs, inl resolved) /\
    send_requests st1 (group_by_node (resolved_pairs resolved)) outs []
      = (st2, a_reqs (aware st group expect ps loads outs), None) /\
    a_resolved (aware st group expect ps loads outs) = resolved /\
    collect expect (map snd (group_by_node (resolved_pairs resolved))) (map to_outcome outs) [] [] = (acc, failed) /\
    rs = reorder (map p_key ps) acc /\
    (failed = [] <-> exists rs', a_res (aware st group expect ps loads outs) = SOk rs').
Proof.
  intros st group expect ps loads outs rs failed H. unfold aware in *.
  destruct ps as [|p0 ps0]; [discriminate|]. split; [discriminate|].
  destruct (resolve_loop st group (p0 :: ps0) loads [] []) as [[st1 evs] [resolved|e]] eqn:Er; [|discriminate].
  destruct (send_requests st1 (group_by_node (resolved_pairs resolved)) outs []) as [[st2 sent] [e|]] eqn:Es; [discriminate|].
  destruct (collect expect (map snd (group_by_node (resolved_pairs resolved))) (map to_outcome outs) [] []) as [acc f] eqn:Ec.
  exists st1, evs, resolved, st2, acc.
  destruct f as [|f0 fr]; simpl in *; inversion H; subst.
  - split; [reflexivity|]. split; [exact Es|]. split; [reflexivity|]. split; [exact Ec|]. split; [reflexivity|].
    split; [intros _; eexists; reflexivity|intros _; reflexivity].
  - split; [reflexivity|]. split; [exact Es|]. split; [reflexivity|]. split; [exact Ec|]. split; [reflexivity|].
    split; [intro Hd; discriminate|intros [rs' Hd]; discriminate].
Qed.

(* routing: one request per leader node, carrying exactly that node's payloads, each payload in exactly
   one request *)
Lemma aware_routing : forall st group expect ps loads outs rs failed,
  let r := aware st group expect ps loads outs in
  fanout (a_res r) = Some (rs, failed) ->
  map rs_payload (a_resolved r) = ps /\
  Forall (routed group) (a_resolved r) /\
  NoDup (map rq_node (a_reqs r)) /\
  (forall q, In q (a_reqs r) ->
     rq_payloads q <> [] /\
     rq_payloads q = map rs_payload (filter (fun x => rs_node x =? rq_node q) (a_resolved r))) /\
  (forall x, In x (a_resolved r) -> exists q, In q (a_reqs r) /\ rq_node q = rs_node x) /\
  Permutation (concat (map rq_payloads (a_reqs r))) ps.
Proof.
  intros st group expect ps loads outs rs failed r H. subst r.
  destruct (aware_unfold _ _ _ _ _ _ _ _ H) as [Hne [st1 [evs [resolved [st2 [acc [Hr [Hs [Hres _]]]]]]]]].
  rewrite Hres. set (sent := a_reqs (aware st group expect ps loads outs)) in *. clearbody sent.
  apply resolve_loop_spec in Hr. destruct Hr as [new [Hnew [Hmap Hall]]]. simpl in Hnew. subst new.
  apply send_requests_sent in Hs. destruct Hs as [Hv _]. simpl in Hv.
  set (groups := group_by_node (resolved_pairs resolved)) in *.
  destruct (group_by_node_spec (resolved_pairs resolved)) as [Hnd _]. fold groups in Hnd.
  assert (Hnodes : map rq_node sent = map fst groups).
  { rewrite <- Hv, map_map. reflexivity. }
  assert (Hpl : map rq_payloads sent = map snd groups).
  { rewrite <- Hv, map_map. reflexivity. }
  split; [exact Hmap|]. split; [exact Hall|]. split; [rewrite Hnodes; exact Hnd|]. split; [|split].
  - intros q Hq. assert (Hin : In (req_view q) groups) by (rewrite <- Hv; apply in_map; exact Hq).
    unfold req_view in Hin. apply group_by_node_in in Hin. destruct Hin as [Hsel Hnn].
    split; [exact Hnn|]. rewrite Hsel. apply sel_resolved.
  - intros x Hx.
    assert (Hsel : sel (rs_node x) (resolved_pairs resolved) <> []).
    { rewrite sel_resolved. intro Hnil.
      assert (Hin : In (rs_payload x) (map rs_payload (filter (fun y => rs_node y =? rs_node x) resolved))).
      { apply in_map. apply filter_In. split; [exact Hx|apply Z.eqb_refl]. }
      rewrite Hnil in Hin. destruct Hin. }
    assert (Hin : In (rs_node x, sel (rs_node x) (resolved_pairs resolved)) groups).
    { apply group_by_node_in. split; [reflexivity|exact Hsel]. }
    rewrite <- Hv in Hin. apply in_map_iff in Hin. destruct Hin as [q [Hq Hqin]].
    exists q. split; [exact Hqin|]. unfold req_view in Hq. inversion Hq. reflexivity.
  - rewrite Hpl. eapply Permutation_trans; [apply group_by_node_perm|].
    unfold resolved_pairs. rewrite map_map. simpl. rewrite <- Hmap. apply Permutation_refl.
Qed.

(* results: payload order, accounting *)
Lemma aware_results : forall st group expect ps loads outs rs failed,
  let r := aware st group expect ps loads outs in
  let reqs := map rq_payloads (a_reqs r) in
  let os := map to_outcome outs in
  fanout (a_res r) = Some (rs, failed) ->
  failed = failed_part reqs os /\
  (failed = [] <-> exists rs', a_res r = SOk rs') /\
  (expect = false -> rs = []) /\
  (expect = true ->
     (forall x, In x rs -> In x (answers reqs os)) /\
     map r_key rs = filter (fun k => existsb (tp_eqb k) (map r_key (answers reqs os))) (map p_key ps) /\
     (honest reqs os -> NoDup (map p_key ps) ->
        map r_key rs = filter (fun k => existsb (tp_eqb k) (map p_key (ok_part reqs os))) (map p_key ps) /\
        Permutation (map r_key rs ++ map p_key failed) (map p_key ps) /\
        (failed = [] -> map r_key rs = map p_key ps))).
Proof.
  intros st group expect ps loads outs rs failed r reqs os H. subst r reqs os.
  destruct (aware_routing _ _ _ _ _ _ _ _ H) as [_ [_ [_ [_ [_ Hperm]]]]].
  destruct (aware_unfold _ _ _ _ _ _ _ _ H) as [Hne [st1 [evs [resolved [st2 [acc [Hr [Hs [Hres [Hc [Hrs Hok]]]]]]]]]]].
  set (sent := a_reqs (aware st group expect ps loads outs)) in *. clearbody sent.
  apply send_requests_sent in Hs. destruct Hs as [Hv Hlen]. simpl in Hv.
  assert (Hpl : map rq_payloads sent = map snd (group_by_node (resolved_pairs resolved))).
  { rewrite <- Hv, map_map. reflexivity. }
  rewrite <- Hpl in Hc. set (reqs := map rq_payloads sent) in *. set (os := map to_outcome outs) in *.
  assert (Hlen' : (length reqs <= length os)%nat).
  { unfold reqs, os. rewrite !map_length. rewrite <- (map_length req_view sent), Hv. exact Hlen. }
  destruct expect.
  - rewrite collect_spec in Hc. inversion Hc; subst acc failed; clear Hc. simpl.
    split; [reflexivity|]. split; [exact Hok|]. split; [discriminate|]. intros _.
    assert (Hinv : forall k r, tget k (accf (answers reqs os) []) = Some r -> In r (answers reqs os) /\ r_key r = k).
    { apply accf_inv; [intros k r Hk; discriminate|auto]. }
    assert (Hkeys : map r_key rs = filter (fun k => existsb (tp_eqb k) (map r_key (answers reqs os))) (map p_key ps)).
    { rewrite Hrs, reorder_keys; [|intros k r Hk; apply (Hinv k r Hk)].
      apply filter_ext. intro k. rewrite accf_mem. simpl. apply existsb_keys. }
    split; [|split; [exact Hkeys|]].
    + intros x Hx. rewrite Hrs in Hx. apply reorder_in in Hx. destruct Hx as [k [_ Hk]]. apply (Hinv k x Hk).
    + intros Hh Hnd. pose proof (honest_answers _ _ Hh) as Hans.
      assert (Hkeys2 : map r_key rs = filter (fun k => existsb (tp_eqb k) (map p_key (ok_part reqs os))) (map p_key ps)).
      { rewrite Hkeys. apply filter_ext. intro k. apply existsb_tp_perm. exact Hans. }
      assert (Hpp : Permutation (map p_key ps) (map p_key (ok_part reqs os) ++ map p_key (failed_part reqs os))).
      { rewrite <- map_app. apply Permutation_map. eapply Permutation_trans; [apply Permutation_sym; exact Hperm|].
        apply parts_perm. exact Hlen'. }
      split; [exact Hkeys2|]. split.
      * rewrite Hkeys2. eapply Permutation_trans; [|apply Permutation_sym; exact Hpp].
        apply Permutation_app_tail. eapply filter_perm_nodup; [exact Hnd|exact Hpp].
      * intro Hf. rewrite Hkeys2. rewrite Hf in Hpp. simpl in Hpp. rewrite app_nil_r in Hpp.
        apply filter_all. intros k Hk. apply existsb_tp_in. eapply Permutation_in; [exact Hpp|exact Hk].
  - rewrite collect_noexpect in Hc. inversion Hc; subst acc failed; clear Hc. simpl.
    split; [reflexivity|]. split; [exact Hok|]. split; [|discriminate]. intros _.
    rewrite Hrs. unfold reorder. clear. induction (map p_key ps) as [|k l IH]; simpl; [reflexivity|exact IH].
Qed.

(* the two faces of aware_results *)
Lemma aware_order : forall st group ps loads outs rs,
  let r := aware st group true ps loads outs in
  let reqs := map rq_payloads (a_reqs r) in
  let os := map to_outcome outs in
  a_res r = SOk rs ->
  failed_part reqs os = [] /\
  (forall x, In x rs -> In x (answers reqs os)) /\
  map r_key rs = filter (fun k => existsb (tp_eqb k) (map r_key (answers reqs os))) (map p_key ps) /\
  (honest reqs os -> NoDup (map p_key ps) -> map r_key rs = map p_key ps).
Proof.
  intros st group ps loads outs rs r reqs os H.
  assert (Hf : fanout (a_res r) = Some (rs, [])) by (rewrite H; reflexivity).
  destruct (aware_results _ _ _ _ _ _ _ _ Hf) as [Hfail [_ [_ Hexp]]].
  destruct (Hexp eq_refl) as [Hin [Hkeys Hh]].
  split; [symmetry; exact Hfail|]. split; [exact Hin|]. split; [exact Hkeys|].
  intros Hon Hnd. destruct (Hh Hon Hnd) as [_ [_ Hall]]. apply Hall. reflexivity.
Qed.

Lemma aware_accounting : forall st group expect ps loads outs rs failed,
  let r := aware st group expect ps loads outs in
  let reqs := map rq_payloads (a_reqs r) in
  let os := map to_outcome outs in
  a_res r = SFailed rs failed ->
  failed <> [] /\ failed = failed_part reqs os /\
  (expect = false -> rs = []) /\
  (expect = true ->
     (forall x, In x rs -> In x (answers reqs os)) /\
     (honest reqs os -> NoDup (map p_key ps) ->
        map r_key rs = filter (fun k => existsb (tp_eqb k) (map p_key (ok_part reqs os))) (map p_key ps) /\
        Permutation (map r_key rs ++ map p_key failed) (map p_key ps))).
Proof.
  intros st group expect ps loads outs rs failed r reqs os H.
  assert (Hf : fanout (a_res r) = Some (rs, failed)) by (rewrite H; reflexivity).
  destruct (aware_results _ _ _ _ _ _ _ _ Hf) as [Hfail [Hok [Hne Hexp]]].
  split; [|split; [exact Hfail|split; [exact Hne|]]].
  - intro Hnil. apply Hok in Hnil. destruct Hnil as [rs' Hd]. fold r in Hd. rewrite H in Hd. discriminate.
  - intro He. destruct (Hexp He) as [Hin [_ Hh]]. split; [exact Hin|].
    intros Hon Hnd. destruct (Hh Hon Hnd) as [Ha [Hb _]]. split; assumption.
Qed.

(* _send_request_to_coordinator: the single request goes to the coordinator the cache names *)
Lemma send_coord_routing : forall st g p loads o r st' res q,
  send_coord st g p loads o = (r, st', res) -> In q (a_reqs r) ->
  a_reqs r = [q] /\ rq_payloads q = [p] /\
  exists x, a_resolved r = [x] /\ rs_payload x = p /\ rs_node x = rq_node q /\ routed (Some g) x.
Proof.
  intros st g p loads o r st' res q H Hq. unfold send_coord in H.
  destruct (resolve_coord st g loads) as [[[st1 loads1] evs] [n|e]] eqn:Er;
    [|inversion H; subst; destruct Hq].
  pose proof (resolve_coord_ok _ _ _ _ _ _ _ Er) as Hrt.
  destruct (s_closed st1); [inversion H; subst; destruct Hq|].
  destruct (request_on st1 n) as [[st2 a]|]; [|inversion H; subst; destruct Hq].
  assert (Hrt' : routed (Some g) {| rs_payload := p; rs_node := n; rs_state := st1 |}) by exact Hrt.
  destruct o as [|[|r0 rs]].
  - inversion H; subst. simpl in Hq. destruct Hq as [<-|[]]. simpl.
    split; [reflexivity|]. split; [reflexivity|]. eexists. split; [reflexivity|]. simpl. repeat split. exact Hrt.
  - inversion H; subst. simpl in Hq. destruct Hq as [<-|[]]. simpl.
    split; [reflexivity|]. split; [reflexivity|]. eexists. split; [reflexivity|]. simpl. repeat split. exact Hrt.
  - destruct (handle_responses st2 (Some g) true [r0] []) as [st3 hr].
    destruct hr; inversion H; subst; simpl in Hq; destruct Hq as [<-|[]]; simpl;
      (split; [reflexivity|]; split; [reflexivity|]; eexists; split; [reflexivity|]; simpl; repeat split; exact Hrt).
Qed.
