(* Proof infrastructure for Model/Consumer.v: inversion of monadic executions, fuel bookkeeping, generic
   "preserved relation" lemmas (frames) for every method and for the fuel-indexed interpreter [run]. *)
From Coq Require Import Lia.
From AV Require Import Base.Util Model.Consumer.

(* Kernel conversion hint: when Qed re-checks a [change]/[cbn] on a hypothesis  <program> s = (r, s', o)  the two
   sides may have different head constants (a boolean test on one side, [bind] on the other); unfolding the program
   side first symbolically executes the whole method (seconds to minutes per step).  Program constants unfold LAST,
   callers before callees (the new type is always a reduct of the old one). *)
Strategy 1000 [bind ret raise try swallow emit get upd].
Strategy 900 [startd_errback do_fetch retry_fetch handle_offset_response
  handle_offset_error handle_fetch_error handle_auto_commit_error handle_processor_error send_commit_request commit
  auto_commit proc_chain pop_plan emit_shutd interrupted api_stop api_commit api_shutdown handle_commit_error fire_all finish_block
  stop_req stop_mblock stop_proc stop_rcall stop_creq stop_ccall stop_looper stop_susp stop_startd flush_pend].
Strategy 800 [body].  Strategy 700 [run].  Strategy 600 [handle].  Strategy 500 [step].

(* ---------- inversion of executions ---------- *)
Lemma bind_inv {A B} (m : M A) (f : A -> M B) s r s' o :
  bind m f s = (r, s', o) ->
  (exists a s1 o1 o2, m s = (Ok a, s1, o1) /\ f a s1 = (r, s', o2) /\ o = o1 ++ o2)
  \/ (exists k, m s = (Exc k, s', o) /\ r = Exc k).
Proof.
  unfold bind. destruct (m s) as [[ra s1] o1]. destruct ra as [a|k].
  - destruct (f a s1) as [[rb s2] o2] eqn:E. intro H. inversion H; subst. left. eauto 10.
  - intro H. inversion H; subst. right. eauto.
Qed.

Lemma try_inv {A} (m : M A) s r s' o :
  try m s = (r, s', o) -> exists r0, m s = (r0, s', o) /\ r = Ok r0.
Proof. unfold try. destruct (m s) as [[r0 s1] o1]. intro H; inversion H; subst. eauto. Qed.

Lemma swallow_inv (m : M unit) s r s' o :
  swallow m s = (r, s', o) -> exists r0, m s = (r0, s', o) /\ r = Ok tt.
Proof. unfold swallow. destruct (m s) as [[r0 s1] o1]. intro H; inversion H; subst. eauto. Qed.

Lemma get_inv s r s' o : get s = (r, s', o) -> r = Ok s /\ s' = s /\ o = [].
Proof. unfold get. intro H; inversion H; auto. Qed.
Lemma upd_inv f s r s' o : upd f s = (r, s', o) -> r = Ok tt /\ s' = f s /\ o = [].
Proof. unfold upd. intro H; inversion H; auto. Qed.
Lemma emit_inv x s r s' o : emit x s = (r, s', o) -> r = Ok tt /\ s' = s /\ o = [x].
Proof. unfold emit. intro H; inversion H; auto. Qed.
Lemma ret_inv {A} (a : A) s r s' o : ret a s = (r, s', o) -> r = Ok a /\ s' = s /\ o = [].
Proof. unfold ret. intro H; inversion H; auto. Qed.
Lemma raise_inv {A} k s (r : res A) s' o : raise k s = (r, s', o) -> r = Exc k /\ s' = s /\ o = [].
Proof. unfold raise. intro H; inversion H; auto. Qed.

Lemma fuel_ok_app o1 o2 : fuel_ok (o1 ++ o2) = true <-> fuel_ok o1 = true /\ fuel_ok o2 = true.
Proof.
  unfold fuel_ok. rewrite existsb_app. destruct (existsb is_fuel o1), (existsb is_fuel o2); cbn; intuition congruence.
Qed.
Lemma fuel_ok_nil : fuel_ok [] = true. Proof. reflexivity. Qed.

(* one inversion step on a hypothesis  H : <monadic term> s = (r, s', o) *)
Ltac minv1 H :=
  match type of H with
  | bind _ _ _ = _ =>
    let a := fresh "a" in let s1 := fresh "s" in let o1 := fresh "o" in let o2 := fresh "o" in
    let H1 := fresh "E" in let H2 := fresh "E" in let k := fresh "k" in
    apply bind_inv in H; destruct H as [(a & s1 & o1 & o2 & H1 & H2 & ->) | (k & H1 & ->)]
  | try _ _ = _ => let r0 := fresh "r" in let H1 := fresh "E" in apply try_inv in H; destruct H as (r0 & H1 & ->)
  | swallow _ _ = _ => let r0 := fresh "r" in let H1 := fresh "E" in apply swallow_inv in H; destruct H as (r0 & H1 & ->)
  | get _ = _ => apply get_inv in H; destruct H as (-> & -> & ->)
  | upd _ _ = _ => apply upd_inv in H; destruct H as (-> & -> & ->)
  | emit _ _ = _ => apply emit_inv in H; destruct H as (-> & -> & ->)
  | ret _ _ = _ => apply ret_inv in H; destruct H as (-> & -> & ->)
  | raise _ _ = _ => apply raise_inv in H; destruct H as (-> & -> & ->)
  end.

(* ---------- relations preserved by every execution (frames) ---------- *)
(* R s s' : a reflexive, transitive relation between the state before and after *)
Record frame (R : state -> state -> Prop) : Prop := {
  fr_refl : forall s, R s s;
  fr_trans : forall a b c, R a b -> R b c -> R a c
}.
Definition pres {A} (R : state -> state -> Prop) (m : M A) : Prop :=
  forall s r s' o, m s = (r, s', o) -> R s s'.

Section Pres.
Variable R : state -> state -> Prop.
Hypothesis FR : frame R.
Lemma pres_bind {A B} (m : M A) (f : A -> M B) : pres R m -> (forall a, pres R (f a)) -> pres R (bind m f).
Proof.
  intros Hm Hf s r s' o H. apply bind_inv in H. destruct H as [(a & s1 & o1 & o2 & H1 & H2 & _) | (k & H1 & _)].
  - eapply fr_trans; eauto. eapply Hf; eauto.
  - eauto.
Qed.
Lemma pres_try {A} (m : M A) : pres R m -> pres R (try m).
Proof. intros Hm s r s' o H. apply try_inv in H. destruct H as (r0 & H & _). eauto. Qed.
Lemma pres_swallow (m : M unit) : pres R m -> pres R (swallow m).
Proof. intros Hm s r s' o H. apply swallow_inv in H. destruct H as (r0 & H & _). eauto. Qed.
Lemma pres_get : pres R get. Proof. intros s r s' o H. minv1 H. apply fr_refl; auto. Qed.
Lemma pres_emit x : pres R (emit x). Proof. intros s r s' o H. minv1 H. apply fr_refl; auto. Qed.
Lemma pres_ret {A} (a : A) : pres R (ret a). Proof. intros s r s' o H. minv1 H. apply fr_refl; auto. Qed.
Lemma pres_raise {A} k : pres R (@raise A k). Proof. intros s r s' o H. minv1 H. apply fr_refl; auto. Qed.
Lemma pres_upd f : (forall s, R s (f s)) -> pres R (upd f).
Proof. intros Hf s r s' o H. minv1 H. auto. Qed.
(* state-dependent continuation: s <- get ;; k s *)
Lemma pres_get_bind {A} (f : state -> M A) : (forall s0, pres R (f s0)) -> pres R (bind get f).
Proof. intro Hf. apply pres_bind; auto using pres_get. Qed.
End Pres.

(* walks the syntax of a method; leaves the [upd] side conditions and the calls it does not know *)
Ltac pres_walk FR :=
  repeat first
    [ apply (pres_bind _ FR); [| intro]
    | apply (pres_try _ FR)
    | apply (pres_swallow _ FR)
    | apply (pres_get _ FR)
    | apply (pres_emit _ FR)
    | apply (pres_ret _ FR)
    | apply (pres_raise _ FR)
    | match goal with
      | |- pres _ (match ?x with _ => _ end) => destruct x
      | |- pres _ (if ?b then _ else _) => destruct b
      | |- pres _ (let (_, _) := ?x in _) => destruct x
      end
    | apply (pres_upd _); intro ].

(* ---------- full inversion of an execution hypothesis ---------- *)
(* projections of setter terms:  s_req (set_rcall v s)  ~>  s_req s *)
Ltac psimpl := cbn [s_cf s_maxatt s_buf s_ridx s_att s_foff s_lp s_lc s_stopping s_shutting s_shutd s_susp s_startd s_req s_rcall s_ccall s_creq s_cds s_looper s_mblock s_proc s_plan s_ncommit s_inapi s_pend set_maxatt set_buf set_ridx set_att set_foff set_lp set_lc set_stopping set_shutting set_shutd set_susp set_startd set_req set_rcall set_ccall set_creq set_cds set_looper set_mblock set_proc set_plan set_ncommit set_inapi set_pend fst snd] in *.

Ltac minv1' H :=
  match type of H with
  | bind _ _ _ = _ =>
    let a := fresh "a" in let s1 := fresh "s" in let o1 := fresh "o" in let o2 := fresh "o" in
    let H1 := fresh "E" in let H2 := fresh "E" in let k := fresh "k" in let Ho := fresh "Ho" in let Hr := fresh "Hr" in
    apply bind_inv in H; destruct H as [(a & s1 & o1 & o2 & H1 & H2 & Ho) | (k & H1 & Hr)]
  | try _ _ = _ => let r0 := fresh "r" in let H1 := fresh "E" in let Hr := fresh "Hr" in
                   apply try_inv in H; destruct H as (r0 & H1 & Hr)
  | swallow _ _ = _ => let r0 := fresh "r" in let H1 := fresh "E" in let Hr := fresh "Hr" in
                       apply swallow_inv in H; destruct H as (r0 & H1 & Hr)
  | get _ = _ => apply get_inv in H; destruct H as (? & ? & ?)
  | upd _ _ = _ => apply upd_inv in H; destruct H as (? & ? & ?)
  | emit _ _ = _ => apply emit_inv in H; destruct H as (? & ? & ?)
  | ret _ _ = _ => apply ret_inv in H; destruct H as (? & ? & ?)
  | raise _ _ = _ => apply raise_inv in H; destruct H as (? & ? & ?)
  end.

Ltac dmatch x := let E := fresh "D" in destruct x eqn:E; try rewrite E in *.

Ltac minv :=
  repeat (match goal with
          | H : bind _ _ _ = (_, _, _) |- _ => minv1' H
          | H : try _ _ = (_, _, _) |- _ => minv1' H
          | H : swallow _ _ = (_, _, _) |- _ => minv1' H
          | H : get _ = (_, _, _) |- _ => minv1' H
          | H : upd _ _ = (_, _, _) |- _ => minv1' H
          | H : emit _ _ = (_, _, _) |- _ => minv1' H
          | H : ret _ _ = (_, _, _) |- _ => minv1' H
          | H : raise _ _ = (_, _, _) |- _ => minv1' H
          | H : (match ?x with _ => _ end) _ = (_, _, _) |- _ => dmatch x
          | H : (if ?b then _ else _) _ = (_, _, _) |- _ => dmatch b
          | H : (let (_, _) := ?x in _) _ = (_, _, _) |- _ => dmatch x
          | H : (_, _, _) = (_, _, _) |- _ => inversion H; clear H
          | H : Ok _ = Ok _ |- _ => inversion H; clear H
          | H : Exc _ = Exc _ |- _ => inversion H; clear H
          | H : Ok _ = Exc _ |- _ => discriminate H
          | H : Exc _ = Ok _ |- _ => discriminate H
          end; subst; cbn beta in *; psimpl).

Ltac bsimp := repeat match goal with
  | H : _ && _ = true |- _ => apply andb_prop in H; destruct H
  | H : _ || _ = false |- _ => apply orb_false_elim in H; destruct H
  | H : negb _ = true |- _ => apply negb_true_iff in H
  | H : negb _ = false |- _ => apply negb_false_iff in H
  | H : (_ =? _) = true |- _ => apply Z.eqb_eq in H
  | H : (_ =? _) = false |- _ => apply Z.eqb_neq in H
  | H : (_ <=? _) = true |- _ => apply Z.leb_le in H
  | H : (_ <=? _) = false |- _ => apply Z.leb_gt in H
  | H : (_ <? _) = true |- _ => apply Z.ltb_lt in H
  | H : (_ <? _) = false |- _ => apply Z.ltb_ge in H
  end.

(* ---------- one step = one handler, which never raises, followed by the end-of-step marker ---------- *)
Lemma handle_ok fuel e s r s' o : handle fuel e s = (r, s', o) -> r = Ok tt.
Proof.
  intro H. unfold handle in H. cbn zeta in H. destruct e; unfold api_stop, api_commit, api_shutdown, flush_pend in H.
  all: minv; try reflexivity.
  all: try (destruct a; reflexivity).
Qed.
Lemma step_inv fuel s e s' o : step fuel s e = (s', o) ->
  exists o1, handle fuel e s = (Ok tt, s', o1) /\ o = o1 ++ [OEnd (s_lp s') (s_lc s')].
Proof.
  unfold step. destruct (bind _ _ s) as [[r s1] o1] eqn:E. intro H. inversion H; subst. clear H.
  minv.
  - destruct a. eauto.
  - apply handle_ok in E0. discriminate.
Qed.

(* ---------- depth-first inversion of ONE execution hypothesis (much faster than [minv]) ---------- *)
Ltac psimpl_in H := cbn [s_cf s_maxatt s_buf s_ridx s_att s_foff s_lp s_lc s_stopping s_shutting s_shutd s_susp s_startd s_req s_rcall s_ccall s_creq s_cds s_looper s_mblock s_proc s_plan s_ncommit s_inapi s_pend set_maxatt set_buf set_ridx set_att set_foff set_lp set_lc set_stopping set_shutting set_shutd set_susp set_startd set_req set_rcall set_ccall set_creq set_cds set_looper set_mblock set_proc set_plan set_ncommit set_inapi set_pend fst snd] in H.

(* the scrutinee x of the match at the head of H: compute it if it is closed, reuse a known equation, or split *)
Ltac mi_case H x :=
  first [ match goal with
          | E : ?l = _ |- _ =>
            lazymatch l with _ _ => idtac end;
            lazymatch x with context [l] => idtac end;
            rewrite E in H
          end
        | let v := eval cbn in x in
          lazymatch v with
          | true => change x with true in H | false => change x with false in H
          end
        | let D := fresh "D" in destruct x eqn:D ].

Ltac mi_res H :=
  let Hr := fresh "Hr" in destruct H as (Hr & ? & ?); first [discriminate Hr | inversion Hr; clear Hr; subst].

Ltac mi H :=
  cbn beta iota in H; psimpl_in H;
  lazymatch type of H with
  | bind _ _ _ = _ =>
    let a := fresh "a" in let s1 := fresh "s" in let o1 := fresh "o" in let o2 := fresh "o" in
    let H1 := fresh "E" in let H2 := fresh "E" in let k := fresh "k" in let Ho := fresh "Ho" in let Hr := fresh "Hr" in
    apply bind_inv in H; destruct H as [(a & s1 & o1 & o2 & H1 & H2 & Ho) | (k & H1 & Hr)];
    [ subst; mi H1; mi H2 | subst; mi H1 ]
  | try _ _ = _ => let r0 := fresh "r" in let H1 := fresh "E" in let Hr := fresh "Hr" in
                   apply try_inv in H; destruct H as (r0 & H1 & Hr);
                   first [discriminate Hr | inversion Hr; clear Hr; subst; mi H1]
  | swallow _ _ = _ => let r0 := fresh "r" in let H1 := fresh "E" in let Hr := fresh "Hr" in
                       apply swallow_inv in H; destruct H as (r0 & H1 & Hr);
                       first [discriminate Hr | inversion Hr; clear Hr; subst; mi H1]
  | get _ = _ => apply get_inv in H; mi_res H
  | upd _ _ = _ => apply upd_inv in H; mi_res H
  | emit _ _ = _ => apply emit_inv in H; mi_res H
  | ret _ _ = _ => apply ret_inv in H; mi_res H
  | raise _ _ = _ => apply raise_inv in H; mi_res H
  | run (S _) _ _ = _ => cbn [run] in H; unfold body in H; cbn [extract] in H; mi H
  | (match ?x with _ => _ end) _ = _ => mi_case H x; mi H
  | (if ?x then _ else _) _ = _ => mi_case H x; mi H
  | (let (_, _) := ?x in _) _ = _ => mi_case H x; mi H
  | (_, _, _) = (_, _, _) => first [discriminate H | inversion H; clear H; subst]
  | _ => idtac
  end.

(* finishing: split the goal, simplify projections, decide by congruence / linear arithmetic *)
(* propagate boolean facts  x = true / x = false  into the other hypotheses and compute *)
Ltac bprop :=
  repeat match goal with
         | H : ?x = true |- _ => lazymatch x with true => fail | false => fail | _ => rewrite H in *; clear H end
         | H : ?x = false |- _ => lazymatch x with true => fail | false => fail | _ => rewrite H in *; clear H end
         end;
  cbn [orb andb negb implb] in *.
Ltac fin :=
  psimpl; cbn [app] in *;
  repeat (first [ progress intros | match goal with |- _ /\ _ => split end ]);
  try reflexivity; try congruence; bsimp; try congruence; try lia;
  bprop; try discriminate; try congruence; try lia.

(* invert every execution hypothesis that can still be inverted (after unfolding more methods) *)
Ltac res_inv := repeat match goal with
  | H : Exc _ = Exc _ |- _ => inversion H; clear H; subst
  | H : Ok _ = Ok _ |- _ => inversion H; clear H; subst
  | H : Ok _ = Exc _ |- _ => discriminate H
  | H : Exc _ = Ok _ |- _ => discriminate H
  end.
Ltac mi_all := repeat (res_inv; match goal with E : _ = (_, _, _) |- _ => progress (mi E) end); res_inv.

(* ---------- induction over the fuel-indexed interpreter ---------- *)
(* [Post] must accept the out-of-fuel outcome; the step case reasons about [body (run f)] with the induction
   hypothesis for every call [run f k'] it makes *)
Lemma run_ind (Pre : kont -> state -> Prop) (Post : kont -> state -> res unit -> state -> list output -> Prop) :
  (forall k s, Pre k s -> Post k s (Exc X_FUEL) s [OFuel]) ->
  (forall f, (forall k s r s' o, Pre k s -> run f k s = (r, s', o) -> Post k s r s' o) ->
     forall k s r s' o, Pre k s -> body (run f) k s = (r, s', o) -> Post k s r s' o) ->
  forall fuel k s r s' o, Pre k s -> run fuel k s = (r, s', o) -> Post k s r s' o.
Proof.
  intros H0 HS. induction fuel as [|f IH]; intros k s r s' o HP H.
  - cbn [run] in H. unfold bind, emit, raise in H. inversion H; subst. apply H0. exact HP.
  - cbn [run] in H. eapply HS; eauto.
Qed.

Lemma retry_idxs_app a b : retry_idxs (a ++ b) = retry_idxs a ++ retry_idxs b.
Proof.
  induction a as [|x a IH]; [reflexivity|]. destruct x; cbn [app retry_idxs]; try exact IH.
  destruct ((kind =? T_RETRY) && (0 <=? idx)); [cbn [app]; rewrite IH; reflexivity | exact IH].
Qed.

(* states built with  if <limit is 0> then <suspend unlimited retries> else ...  (shutdown): split on the test *)
Ltac split_state_if := repeat match goal with
  | |- context [if ?c then set_susp true _ else _] => let E := fresh "E" in destruct c eqn:E
  | H : context [if ?c then set_susp true _ else _] |- _ => let E := fresh "E" in destruct c eqn:E
  end.
