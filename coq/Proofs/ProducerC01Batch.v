(* Summaries of the batch-level helpers of Model/Producer.v (check_retry, handle_result, send_requests, the lookups,
   dispatch, the epilogue, cancellation): what fires, with which justification, what is left of the batch. *)
From AV Require Import Base.Util Model.Producer Proofs.ProducerBase Proofs.ProducerC01Spec Proofs.ProducerC01Lists
  Proofs.ProducerC01Fires.
From Coq Require Import Lia.

Arguments K_BROKER : simpl never.

Definition batch_sends (p : phase) : list send :=
  match p with
  | Idle => []
  | Looking reqs _ | VerWait reqs _ => reqs
  | Sending pls _ | RetryWait pls _ _ => all_sends pls
  end.
Definition live (s : state) : list send := queue s ++ batch_sends (ph s).

Definition phase_wf (s : state) : Prop :=
  match ph s with
  | Idle => True
  | Looking reqs ls => length ls = length reqs
  | VerWait reqs res => length res = length reqs
  | Sending pls cur | RetryWait pls cur _ => pls_wf pls /\ clear s pls cur
  end.

(* the produce request on the wire is the one the Sending phase waits for *)
Definition prod_clause (s1 : state) (o1 : list output) : Prop :=
  match ph s1 with
  | Sending pls cur => forall acc, last_prod o1 acc = Some (viewf pls cur)
  | _ => no_prod o1
  end.

(* ------------------------------------------------------------------ boolean list predicates of result_ok *)
Lemma subset_tp_incl : forall a b, subset_tp a b = true <-> incl a b.
Proof.
  unfold subset_tp; intros a b. rewrite forallb_forall. split; intros H x I.
  - apply tpmem_In; auto.
  - apply tpmem_In; auto.
Qed.
Lemma nodup_tp_NoDup : forall l, nodup_tp l = true -> NoDup l.
Proof.
  induction l as [|x l IH]; simpl; intros H; [constructor|].
  apply andb_true_iff in H as [A B]. apply negb_true_iff, tpmem_false in A. constructor; auto.
Qed.

Lemma viewf_all : forall pls, viewf pls (map p_tp pls) = map payload_view pls.
Proof.
  unfold viewf; intros pls. f_equal.
  assert (G : forall l, (forall p, In p l -> In p pls) -> filter (fun p => tpmem (p_tp p) (map p_tp pls)) l = l).
  { induction l as [|p l IH]; simpl; intros H; auto.
    assert (E : tpmem (p_tp p) (map p_tp pls) = true) by (apply tpmem_In, in_map, H; simpl; auto).
    rewrite E. f_equal. apply IH. intros; apply H; simpl; auto. }
  apply G; auto.
Qed.

(* ------------------------------------------------------------------ check_retry *)
Lemma check_retry_sum : forall c s pls fl s1 o1 done, check_retry c s pls fl = (s1, o1, done) ->
  fires s s1 o1 /\ all_fail o1 /\ no_prod o1 /\
  (done = true -> forall e y, In e fl -> In y (sends_of pls (fst (fst e))) -> ~ In (s_id y) (outstanding s1)) /\
  (done = false -> exists tid, ph s1 = RetryWait pls (map (fun e => fst (fst e)) fl) tid /\ outstanding s1 = outstanding s).
Proof.
  unfold check_retry; intros c s pls fl s1 o1 done H.
  destruct ((c_max c <=? attempts s) || stopping s).
  - destruct (deliver_failed s pls fl) as [s2 o2] eqn:E. pose proof (deliver_failed_xo _ _ _ _ _ E) as [_ OO].
    apply deliver_failed_sum in E as (A & B & C). inv H. splits; auto with prod. discriminate.
  - inv H. splits.
    + apply fires_same; [destruct (reset_topics fl); reflexivity|destruct (reset_topics fl); reflexivity].
    + apply all_fail_no_outcome. destruct (reset_topics fl); reflexivity.
    + destruct (reset_topics fl); repeat constructor.
    + discriminate.
    + intros _. eexists; split; [reflexivity|]. destruct (reset_topics fl); reflexivity.
Qed.

(* ------------------------------------------------------------------ handle_result *)
(* why an outcome delivered by _handle_send_response is what it is *)
Definition just (c : cfg) (pls : list payload) (cur : list tp) (v : value) (sid : Z) (oc : outcome) : Prop :=
  match oc with
  | OFail _ _ => True
  | OResp t p err off =>
      c_acks c <> 0 /\ err = 0 /\ acked_with v (t, p) off /\
      exists pl x, In pl pls /\ p_tp pl = (t, p) /\ In (t, p) cur /\ In x (p_sends pl) /\ s_id x = sid
  | ONone =>
      c_acks c = 0 /\
      exists pl x, In pl pls /\ handed_over v (p_tp pl) /\ In (p_tp pl) cur /\ In x (p_sends pl) /\ s_id x = sid
  end.

Lemma in_tps : forall (rs : list (tp * Z * Z)) x, In x (map (fun e => fst (fst e)) rs) -> exists err off, In (x, err, off) rs.
Proof.
  intros rs x H. apply in_map_iff in H as ([[y err] off] & A & B). simpl in A; subst. eauto.
Qed.
Lemma in_tps_fl : forall (fl : list (tp * Z * bool)) x, In x (map (fun e => fst (fst e)) fl) -> exists e, In e fl /\ fst (fst e) = x.
Proof. intros fl x H. apply in_map_iff in H as (e & A & B). eauto. Qed.

Lemma clear_not_cur : forall s pls cur pl x, clear s pls cur -> In pl pls -> In x (p_sends pl) ->
  In (s_id x) (outstanding s) -> In (p_tp pl) cur.
Proof.
  intros s pls cur pl x C A B O. destruct (tpmem (p_tp pl) cur) eqn:E; [apply tpmem_In; auto|].
  apply tpmem_false in E. exfalso. eapply C; eauto.
Qed.

(* the common tail of the VResp / VFailed branches: responses, then _check_retry_payloads *)
Lemma resps_then_retry : forall c s pls cur rs (extra : list (tp * Z * bool)) s1 o1 f1 s2 o2 done,
  pls_wf pls -> clear s pls cur ->
  process_resps s pls rs = (s1, o1, f1) -> check_retry c s1 pls (extra ++ f1) = (s2, o2, done) ->
  (forall x, In x cur -> In x (map (fun e => fst (fst e)) rs) \/ In x (map (fun e => fst (fst e)) extra) \/
                         (forall pl y, In pl pls -> p_tp pl = x -> In y (p_sends pl) -> ~ In (s_id y) (outstanding s))) ->
  fires s s2 (o1 ++ o2) /\
  (done = true -> forall x, In x (all_sends pls) -> ~ In (s_id x) (outstanding s2)) /\
  (done = false -> exists cur' tid, ph s2 = RetryWait pls cur' tid /\ clear s2 pls cur').
Proof.
  intros c s pls cur rs extra s1 o1 f1 s2 o2 done [ND WT] CL P R COV.
  destruct (process_resps_sum _ _ _ _ _ _ P) as (F1 & J1 & C1 & D1 & E1).
  destruct (check_retry_sum _ _ _ _ _ _ _ R) as (F2 & AF2 & NP2 & C2 & W2).
  assert (F : fires s s2 (o1 ++ o2)) by (eapply fires_trans; eauto).
  assert (KEY : forall pl y, In pl pls -> In y (p_sends pl) -> In (s_id y) (outstanding s2) ->
                In (p_tp pl) (map (fun e => fst (fst e)) (extra ++ f1)) /\ done = false).
  { intros pl y A B O.
    assert (O1 : In (s_id y) (outstanding s1)) by (apply (fires_sub _ _ _ F2); auto).
    assert (O0 : In (s_id y) (outstanding s)) by (apply (fires_sub _ _ _ F1); auto).
    pose proof (clear_not_cur _ _ _ _ _ CL A B O0) as IC.
    assert (IN : In (p_tp pl) (map (fun e => fst (fst e)) (extra ++ f1))).
    { rewrite map_app, in_app_iff. destruct (COV _ IC) as [H|[H|H]]; auto.
      - apply in_tps in H as (err & off & H). destruct (Z.eq_dec err 0) as [->|N].
        + exfalso. eapply C1; eauto. rewrite sends_of_in; auto.
        + right. eapply D1; eauto.
      - exfalso. eapply H; eauto. }
    split; auto. destruct done; auto. exfalso.
    apply in_tps_fl in IN as (e & I1 & I2). eapply C2; eauto. rewrite I2, sends_of_in; auto. }
  splits; auto.
  - intros -> x I O. apply In_all_sends in I as (pl & A & B). destruct (KEY _ _ A B O); discriminate.
  - intros ->. destruct (W2 eq_refl) as (tid & PH & OUT). eexists; eexists; split; [exact PH|].
    intros pl y A NI B O. destruct (KEY _ _ A B O); auto.
Qed.

Lemma handle_result_sum : forall c s pls cur v s1 o1 done,
  handle_result c s pls cur v = (s1, o1, done) -> result_ok c cur v = true -> pls_wf pls -> clear s pls cur ->
  fires s s1 o1 /\ no_prod o1 /\
  (forall sid oc, In (OOutcome sid oc) o1 -> just c pls cur v sid oc) /\
  (done = true -> forall x, In x (all_sends pls) -> ~ In (s_id x) (outstanding s1)) /\
  (done = false -> exists cur' tid, ph s1 = RetryWait pls cur' tid /\ clear s1 pls cur').
Proof.
  unfold handle_result; intros c s pls cur v s1 o1 done H OK W CL. destruct v as [|rs|rs fs|k|k].
  - (* VEmpty *)
    destruct (deliver s (all_sends pls) _) as [s2 o2] eqn:E. inv H.
    pose proof (deliver_fires _ _ _ _ _ E) as F. pose proof (deliver_xo _ _ _ _ _ E) as [_ OO].
    splits; auto with prod; try discriminate.
    + intros sid oc I. assert (S : In sid (outstanding s)) by (apply (f_sub _ _ _ F), In_oids; eauto).
      eapply deliver_outs in I as [-> (x & X1 & X2)]; eauto.
      destruct (c_acks c =? 0) eqn:A; simpl; auto. apply Z.eqb_eq in A. split; auto.
      apply In_all_sends in X1 as (pl & P1 & P2). exists pl, x. splits; auto.
      eapply (clear_not_cur _ _ _ _ _ CL); eauto. rewrite X2; auto.
    + intros _ x I. eapply deliver_clears; eauto.
  - (* VResp *)
    simpl in OK. apply andb_true_iff in OK as [OK S2]. apply andb_true_iff in OK as [OK S1].
    apply andb_true_iff in OK as [AK ND]. apply negb_true_iff, Z.eqb_neq in AK.
    apply subset_tp_incl in S1. apply subset_tp_incl in S2.
    destruct (process_resps s pls rs) as [[s2 o2] f2] eqn:E.
    assert (JJ : forall sid oc, In (OOutcome sid oc) o2 -> just c pls cur (VResp rs) sid oc).
    { intros sid oc I. destruct (process_resps_sum _ _ _ _ _ _ E) as (_ & J1 & _).
      apply J1 in I as ([t p] & off & y & I1 & I2 & I3 & ->). simpl. splits; auto.
      apply sends_of_some in I2 as (pl & P1 & P2 & P3). exists pl, y. splits; auto.
      apply S1. apply in_map_iff. exists ((t, p), 0, off); auto. }
    destruct f2 as [|e f2].
    + inv H. pose proof (process_resps_xo _ _ _ _ _ _ E) as [_ OO].
      destruct (process_resps_sum _ _ _ _ _ _ E) as (F1 & _ & C1 & D1 & _).
      splits; auto with prod; try discriminate.
      intros _ x I O. apply In_all_sends in I as (pl & A & B).
      assert (O0 : In (s_id x) (outstanding s)) by (apply (fires_sub _ _ _ F1); auto).
      pose proof (clear_not_cur _ _ _ _ _ CL A B O0) as IC. apply S2, in_tps in IC as (err & off & IC).
      destruct (Z.eq_dec err 0) as [->|N].
      * eapply C1; eauto. destruct W. rewrite sends_of_in; auto.
      * apply (D1 _ _ _ IC) in N. destruct N.
    + destruct (check_retry c s2 pls (e :: f2)) as [[s3 o3] d3] eqn:E3. inv H.
      pose proof (process_resps_xo _ _ _ _ _ _ E) as [_ OO].
      destruct (check_retry_sum _ _ _ _ _ _ _ E3) as (F2 & AF2 & NP2 & _).
      destruct (resps_then_retry c s pls cur rs [] s2 o2 (e :: f2) s1 o3 done W CL E E3) as (F & D & R).
      { intros x I; left; auto. }
      splits; auto with prod.
      intros sid oc I. apply in_app_or in I as [I|I]; auto.
      apply AF2 in I as (k & f & ->); simpl; auto.
  - (* VFailed *)
    simpl in OK. apply andb_true_iff in OK as [OK AC]. apply andb_true_iff in OK as [OK S1].
    apply andb_true_iff in OK as [NE ND]. apply subset_tp_incl in S1.
    destruct (if c_acks c =? 0 then _ else _) as [s0 o0] eqn:E0.
    destruct (process_resps s0 pls rs) as [[s2 o2] f2] eqn:E.
    destruct (check_retry c s2 pls _) as [[s3 o3] d3] eqn:E3. inv H.
    pose proof (process_resps_xo _ _ _ _ _ _ E) as [_ OO].
    destruct (check_retry_sum _ _ _ _ _ _ _ E3) as (F2 & AF2 & NP2 & _).
    assert (TPS : map (fun e : tp * Z * bool => fst (fst e)) (map (fun e : tp * Z => (fst e, snd e, false)) fs) = map fst fs).
    { rewrite map_map. apply map_ext. intros [a b]; auto. }
    destruct (c_acks c =? 0) eqn:A.
    + (* acks = 0 *)
      apply Z.eqb_eq in A. destruct rs; [|discriminate].
      pose proof (deliver_fires _ _ _ _ _ E0) as F0. pose proof (deliver_xo _ _ _ _ _ E0) as [_ OO0].
      assert (CL0 : clear s0 pls cur) by (eapply clear_mono; [eapply fires_sub; eauto|auto]).
      destruct (resps_then_retry c s0 pls cur [] _ s2 o2 f2 s1 o3 done W CL0 E E3) as (F & D & R).
      { intros x I. rewrite TPS. destruct (tpmem x (map fst fs)) eqn:M; [apply tpmem_In in M; auto|].
        right; right. intros pl y P1 P2 P3. eapply deliver_clears; eauto.
        apply In_all_sends. exists pl; split; auto. apply filter_In; split; auto. rewrite P2, M; auto. }
      splits; auto with prod.
      * eapply fires_trans; eauto.
      * intros sid oc I. apply in_app_or in I as [I|I].
        -- assert (S : In sid (outstanding s)) by (apply (f_sub _ _ _ F0), In_oids; eauto).
           eapply deliver_outs in I as [-> (x & X1 & X2)]; eauto. simpl. split; auto.
           apply In_all_sends in X1 as (pl & P1 & P2). apply filter_In in P1 as [P1 P3].
           apply negb_true_iff, tpmem_false in P3. exists pl, x. splits; auto.
           eapply (clear_not_cur _ _ _ _ _ CL); eauto. rewrite X2; auto.
        -- simpl in E. inv E. simpl in I. apply AF2 in I as (k & f & ->); simpl; auto.
    + (* acks <> 0 *)
      apply Z.eqb_neq in A. inv E0. apply subset_tp_incl in AC.
      destruct (resps_then_retry c s0 pls cur rs _ s2 o2 f2 s1 o3 done W CL E E3) as (F & D & R).
      { intros x I. rewrite TPS. apply AC in I. apply in_app_or in I as [I|I]; auto. }
      splits; auto with prod.
      intros sid oc I. simpl in I. apply in_app_or in I as [I|I].
      * destruct (process_resps_sum _ _ _ _ _ _ E) as (_ & J1 & _).
        apply J1 in I as ([t p] & off & y & I1 & I2 & I3 & ->). simpl. splits; auto.
        apply sends_of_some in I2 as (pl & P1 & P2 & P3). exists pl, y. splits; auto.
        apply S1. apply in_or_app; left. apply in_map_iff. exists ((t, p), 0, off); auto.
      * apply AF2 in I as (k & f & ->); simpl; auto.
  - (* VKafka *)
    destruct (check_retry_sum _ _ _ _ _ _ _ H) as (F2 & AF2 & NP2 & C2 & W2).
    assert (TPS : map (fun e : tp * Z * bool => fst (fst e)) (map (fun x : tp => (x, k, false)) cur) = cur).
    { rewrite map_map. simpl. apply map_id. }
    splits; auto.
    + intros sid oc I. apply AF2 in I as (k' & f & ->); simpl; auto.
    + intros T x I O. apply In_all_sends in I as (pl & A & B).
      assert (O0 : In (s_id x) (outstanding s)) by (apply (fires_sub _ _ _ F2); auto).
      pose proof (clear_not_cur _ _ _ _ _ CL A B O0) as IC.
      eapply (C2 T (p_tp pl, k, false)); eauto.
      * apply in_map_iff; eauto.
      * simpl. destruct W. rewrite sends_of_in; auto.
    + intros T. destruct (W2 T) as (tid & PH & OUT). rewrite TPS in PH. eexists; eexists; split; [exact PH|].
      eapply clear_mono; [|exact CL]. rewrite OUT; apply incl_refl.
  - (* VOther *)
    destruct (deliver s (all_sends pls) _) as [s2 o2] eqn:E. inv H.
    pose proof (deliver_fires _ _ _ _ _ E) as F. pose proof (deliver_xo _ _ _ _ _ E) as [_ OO].
    splits; auto with prod; try discriminate.
    + intros sid oc I. eapply deliver_outs in I as [-> _]; eauto. simpl; auto.
    + intros _ x I. eapply deliver_clears; eauto.
Qed.
