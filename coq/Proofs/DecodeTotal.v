(* C12, part 3: hostile length / count fields cannot buy work.

   * primitive readers (Model.Prim): a length below -1 is Err Protocol, a length beyond the remaining input is
     Err Underflow, every successful read consumes exactly  size-of-length-field + payload  bytes (so the cursor
     strictly advances), the only errors are Underflow and Protocol.
   * counted loops (`for _ in range(count): x, cur = read(data, cur)`): whatever `count` claims, the number of reader
     calls is at most  length input / c + 1  when each successful call consumes at least c >= 1 bytes, and the loop
     only succeeds when  c * count <= length input.
   * the message-set decoder (Model.MsgSet.dec_set): the loop fuel [length data] is never the limit (fuel
     independence), and an INSTRUMENTED copy of the decoder ([dec_set_c], same result, proved) that also returns
     the number of entries whose 12-byte header was read - over all nesting levels - and the list of byte strings the
     decompression oracle handed back satisfies
         12 * entries <= length input + total length of the oracle outputs,     messages yielded <= entries. *)
From Coq Require Import Lia.
From AV Require Import Base.Util Model.Prim Model.Crc Model.MsgSet.

(* ------------------------------------------------------------------ lists *)
Lemma take_length {A} n (l : list A) : length (take n l) = Nat.min n (length l).
Proof. revert l. induction n as [|n IH]; intros [|x l]; cbn [take length Nat.min]; auto. Qed.

Lemma drop_length {A} n (l : list A) : length (drop n l) = (length l - n)%nat.
Proof. revert l. induction n as [|n IH]; intros [|x l]; cbn [drop length Nat.sub]; auto. Qed.

Definition olen (o : option (list Z)) : nat := match o with None => O | Some b => length b end.

(* ------------------------------------------------------------------ primitive readers *)
Lemma fmt_size_pos f : (1 <= fmt_size f)%nat.
Proof. destruct f; cbn; lia. Qed.

Lemma unpack_consumes f data v rest :
  unpack f data = Ok (v, rest) -> length data = (fmt_size f + length rest)%nat.
Proof.
  unfold unpack. destruct (Nat.ltb (length data) (fmt_size f)) eqn:L; [discriminate|].
  apply Nat.ltb_ge in L. intros E. injection E as _ <-. rewrite drop_length. lia.
Qed.

Lemma unpack_underflow f data : (length data < fmt_size f)%nat <-> unpack f data = Err Underflow.
Proof.
  unfold unpack. destruct (Nat.ltb (length data) (fmt_size f)) eqn:L.
  - apply Nat.ltb_lt in L. tauto.
  - apply Nat.ltb_ge in L. split; [lia|discriminate].
Qed.

Lemma unpack_errors f data e : unpack f data = Err e -> e = Underflow.
Proof. unfold unpack. destruct (Nat.ltb (length data) (fmt_size f)); [now intros [= <-]|discriminate]. Qed.

(* a length field below -1 is a protocol error (fix e0719d1) *)
Lemma read_string_negative f data n r :
  unpack f data = Ok (n, r) -> n < -1 -> read_string f data = Err Protocol.
Proof.
  intros U H. unfold read_string. rewrite U. cbn [bind].
  destruct (n =? -1) eqn:E1; [apply Z.eqb_eq in E1; lia|].
  destruct (n <? -1) eqn:E2; [reflexivity|apply Z.ltb_ge in E2; lia].
Qed.

(* a length larger than what is left is an underflow; nothing is allocated or copied for it *)
Lemma read_string_overlong f data n r :
  unpack f data = Ok (n, r) -> len r < n -> read_string f data = Err Underflow.
Proof.
  intros U H. unfold read_string. rewrite U. cbn [bind]. pose proof (len_nonneg := Zle_0_nat (length r)).
  fold (len r) in len_nonneg.
  destruct (n =? -1) eqn:E1; [apply Z.eqb_eq in E1; lia|].
  destruct (n <? -1) eqn:E2; [apply Z.ltb_lt in E2; lia|].
  destruct (len r <? n) eqn:E3; [reflexivity|apply Z.ltb_ge in E3; lia].
Qed.

(* success: exactly header + payload consumed, the payload is what the length field says *)
Lemma read_string_consumes f data v rest :
  read_string f data = Ok (v, rest) -> length data = (fmt_size f + olen v + length rest)%nat.
Proof.
  unfold read_string. destruct (unpack f data) as [[n r]|e] eqn:U; cbn [bind]; [|discriminate].
  apply unpack_consumes in U.
  destruct (n =? -1); [intros [= <- <-]; cbn [olen]; lia|].
  destruct (n <? -1); [discriminate|].
  destruct (len r <? n) eqn:E3; [discriminate|]. apply Z.ltb_ge in E3. unfold len in E3.
  intros [= <- <-]. cbn [olen]. rewrite take_length, drop_length. lia.
Qed.

Lemma read_string_consumes_pos f data v rest :
  read_string f data = Ok (v, rest) -> length data = (fmt_size f + olen v + length rest)%nat /\ (1 <= fmt_size f)%nat.
Proof. intros H. split; [exact (read_string_consumes f data v rest H)|exact (fmt_size_pos f)]. Qed.

Corollary read_string_advances f data v rest :
  read_string f data = Ok (v, rest) -> (length rest < length data)%nat.
Proof. intros H. apply read_string_consumes in H. pose proof (fmt_size_pos f). lia. Qed.

Lemma read_string_errors f data e : read_string f data = Err e -> e = Underflow \/ e = Protocol.
Proof.
  unfold read_string. destruct (unpack f data) as [[n r]|e'] eqn:U; cbn [bind].
  - destruct (n =? -1); [discriminate|]. destruct (n <? -1); [intros [= <-]; auto|].
    destruct (len r <? n); [intros [= <-]; auto|discriminate].
  - intros [= <-]. left. now apply unpack_errors in U.
Qed.

Lemma read_short_decoded_consumes valid data b rest :
  read_short_decoded valid data = Ok (b, rest) -> length data = (2 + length b + length rest)%nat.
Proof.
  unfold read_short_decoded, read_short_bytes.
  destruct (read_string Fh data) as [[ob r]|e] eqn:R; cbn [bind]; [|discriminate].
  apply read_string_consumes in R. destruct ob as [b'|]; [|discriminate].
  destruct (valid b'); [|discriminate]. intros [= <- <-]. exact R.
Qed.

(* ------------------------------------------------------------------ counted loops *)
(* `out = []; for _ in range(n): x, cur = p(data, cur); out.append(x)` on the remaining suffix.
   Second component: how many times p was called. *)
Fixpoint read_n {A} (p : list Z -> res (A * list Z)) (n : nat) (data : list Z) : res (list A * list Z) * nat :=
  match n with
  | O => (Ok ([], data), O)
  | S k => match p data with
           | Err e => (Err e, 1%nat)
           | Ok (a, r) => let (res, calls) := read_n p k r in
                          (match res with Ok (xs, r') => Ok (a :: xs, r') | Err e => Err e end, S calls)
           end
  end.

(* range(count) for a count read from the wire: negative counts run zero times *)
Definition read_count {A} (p : list Z -> res (A * list Z)) (count : Z) := read_n p (Z.to_nat count).

Section Counted.
  Context {A : Type} (p : list Z -> res (A * list Z)) (c : nat).
  Hypothesis c_pos : (1 <= c)%nat.
  Hypothesis p_consumes : forall d a r, p d = Ok (a, r) -> (length r + c <= length d)%nat.

  Lemma read_n_calls n : forall data, (c * (snd (read_n p n data) - 1) <= length data)%nat.
  Proof.
    induction n as [|k IH]; intros data; cbn [read_n snd]; [lia|].
    destruct (p data) as [[a r]|e] eqn:P; cbn [snd]; [|lia].
    specialize (IH r). apply p_consumes in P.
    destruct (read_n p k r) as [res calls]. cbn [snd] in *. nia.
  Qed.

  (* whatever the count says, at most length/c + 1 reader calls are made *)
  Theorem read_n_linear n data : (snd (read_n p n data) <= length data / c + 1)%nat.
  Proof.
    pose proof (read_n_calls n data) as H.
    assert (snd (read_n p n data) - 1 <= length data / c)%nat; [|lia].
    apply Nat.div_le_lower_bound; lia.
  Qed.

  (* and the loop can only succeed if the input really holds n items *)
  Theorem read_n_ok n : forall data xs r,
    fst (read_n p n data) = Ok (xs, r) -> length xs = n /\ (length r + c * n <= length data)%nat.
  Proof.
    induction n as [|k IH]; intros data xs r; cbn [read_n fst].
    - intros [= <- <-]. cbn [length]. lia.
    - destruct (p data) as [[a r0]|e] eqn:P; cbn [fst]; [|discriminate].
      specialize (IH r0). apply p_consumes in P.
      destruct (read_n p k r0) as [[[xs0 r1]|e] calls]; cbn [fst] in *; [|discriminate].
      intros [= <- <-]. destruct (IH xs0 r1 eq_refl) as [H1 H2]. cbn [length]. split; [lia|nia].
  Qed.

  Corollary read_count_huge count data :
    Z.of_nat (length data) < Z.of_nat c * count -> exists e, fst (read_count p count data) = Err e.
  Proof.
    intros H. unfold read_count. destruct (fst (read_n p (Z.to_nat count) data)) as [[xs r]|e] eqn:E; [|eauto].
    apply read_n_ok in E. destruct E as [_ E]. nia.
  Qed.
End Counted.

(* ------------------------------------------------------------------ message-set loop: fuel is irrelevant *)
Definition header (data : list Z) : res (Z * option (list Z) * list Z) :=
  do (offset, r1) <- read_i64 data; do (msg, r2) <- read_int_string r1; Ok (offset, msg, r2).

Lemma header_consumes data offset msg r2 :
  header data = Ok (offset, msg, r2) -> length data = (12 + olen msg + length r2)%nat.
Proof.
  unfold header, read_i64, read_int_string.
  destruct (unpack Fq data) as [[o r1]|e] eqn:U; cbn [bind]; [|discriminate].
  destruct (read_string Fi r1) as [[m r]|e] eqn:R; cbn [bind]; [|discriminate].
  intros [= <- <- <-]. apply unpack_consumes in U. apply read_string_consumes in R. cbn [fmt_size] in *. lia.
Qed.

Lemma header_errors data e : header data = Err e -> e = Underflow \/ e = Protocol.
Proof.
  unfold header, read_i64, read_int_string.
  destruct (unpack Fq data) as [[o r1]|e'] eqn:U; cbn [bind].
  - destruct (read_string Fi r1) as [[m r]|e''] eqn:R; cbn [bind]; [discriminate|].
    intros [= <-]. now apply read_string_errors in R.
  - intros [= <-]. left. now apply unpack_errors in U.
Qed.

Lemma dec_loop_unfold rec orc n data read :
  dec_loop rec orc n data read =
  match data with
  | [] => ([], None)
  | _ :: _ =>
      match n with
      | O => fail Fuel
      | S n' =>
          match header data with
          | Err e => ([], on_error read e)
          | Ok (offset, msg, r2) =>
              let (ys, out) := dec_message rec orc msg offset in
              let read' := read || nonempty ys in
              match out with
              | None => let (ys2, out2) := dec_loop rec orc n' r2 read' in (ys ++ ys2, out2)
              | Some e => (ys, on_error read' e)
              end
          end
      end
  end.
Proof. destruct n; destruct data; reflexivity. Qed.

Theorem dec_loop_fuel rec orc n : forall n' data read,
  (length data <= n)%nat -> (length data <= n')%nat ->
  dec_loop rec orc n data read = dec_loop rec orc n' data read.
Proof.
  induction n as [|n IH]; intros n' data read H H'.
  - destruct data; [|cbn in H; lia]. destruct n'; reflexivity.
  - rewrite (dec_loop_unfold rec orc (S n)), (dec_loop_unfold rec orc n').
    destruct data as [|x t]; [reflexivity|].
    destruct n' as [|n']; [cbn in H'; lia|].
    destruct (header (x :: t)) as [[[offset msg] r2]|e] eqn:Hd; [|reflexivity].
    apply header_consumes in Hd.
    destruct (dec_message rec orc msg offset) as [ys out]. cbv zeta. destruct out; [reflexivity|].
    rewrite (IH n' r2) by lia. reflexivity.
Qed.

(* the loop never reports Fuel on its own account: Fuel can only come out of [rec] (nesting depth) or the oracle *)
Theorem dec_loop_no_fuel rec orc n : forall data read ys,
  (length data <= n)%nat -> dec_loop rec orc n data read = (ys, Some Fuel) ->
  exists msg offset ys', dec_message rec orc msg offset = (ys', Some Fuel).
Proof.
  induction n as [|n IH]; intros data read ys H.
  - destruct data; [discriminate|cbn in H; lia].
  - rewrite dec_loop_unfold. destruct data as [|x t]; [discriminate|].
    destruct (header (x :: t)) as [[[offset msg] r2]|e] eqn:Hd.
    + apply header_consumes in Hd.
      destruct (dec_message rec orc msg offset) as [ys1 out] eqn:DM. cbv zeta. destruct out as [e|].
      * intros [= <- E]. destruct e; cbn in E; try discriminate; [destruct (read || nonempty ys1); discriminate|].
        eauto.
      * destruct (dec_loop rec orc n r2 (read || nonempty ys1)) as [ys2 out2] eqn:DL.
        intros [= <- ->]. apply (IH r2 (read || nonempty ys1) ys2); [cbn [length] in *; lia|exact DL].
    + intros [= <- E]. apply header_errors in Hd. destruct Hd as [-> | ->]; cbn in E; [destruct read|]; discriminate.
Qed.

(* ------------------------------------------------------------------ instrumented decoder *)
(* cost = (entries whose header was read, byte strings received from the decompression oracle) *)
Definition cost : Type := (nat * list (list Z))%type.
Definition cres : Type := (dres * cost)%type.
Definition cost0 : cost := (O, []).
Definition obytes (c : cost) : nat := fold_right (fun o n => (length o + n)%nat) O (snd c).

Definition dec_payload_c (rec : list Z -> cres) (orc : oracle) (magic att : Z) (offset : Z)
           (key value : option (list Z)) (ts : option Z) : cres :=
  let codec := Z.land att ATTRIBUTE_CODEC_MASK in
  let wrap := if (magic =? 0) then wrap_v0 else wrap_v1 offset in
  let nested (z : list Z) : cres := let (r, c) := rec z in (wrap r, (fst c, z :: snd c)) in
  if (codec =? CODEC_NONE) then (([(offset, mkMessage magic att key value ts)], None), cost0)
  else if (codec =? CODEC_GZIP) then
    match gzip_decode orc value with Ok gz => nested gz | Err e => (fail e, cost0) end
  else if (codec =? CODEC_SNAPPY) then
    match snappy_decode orc value with Ok sn => nested sn | Err e => (fail e, cost0) end
  else (fail Protocol, cost0).

Definition dec_message_c (rec : list Z -> cres) (orc : oracle) (data : option (list Z)) (offset : Z) : cres :=
  match data with
  | None => (fail TypeErr, cost0)
  | Some d =>
      match (do (crc, r1) <- read_u32 d; do (magic, r2) <- read_u8 r1; do (att, r3) <- read_u8 r2;
             Ok (crc, magic, att, r3)) with
      | Err e => (fail e, cost0)
      | Ok (crc, magic, att, r3) =>
          if negb (crc =? crc32 (drop 4 d)) then (fail Checksum, cost0)
          else if (magic =? 0) then
            match (do (key, r4) <- read_int_string r3; do (value, _) <- read_int_string r4; Ok (key, value)) with
            | Err e => (fail e, cost0)
            | Ok (key, value) => dec_payload_c rec orc magic att offset key value None
            end
          else if (magic =? 1) then
            match (do (ts, r4) <- read_i64 r3; do (key, r5) <- read_int_string r4;
                   do (value, _) <- read_int_string r5; Ok (ts, key, value)) with
            | Err e => (fail e, cost0)
            | Ok (ts, key, value) => dec_payload_c rec orc magic att offset key value (Some ts)
            end
          else (fail Checksum, cost0)
      end
  end.

Definition cost_add (a b : cost) : cost := ((fst a + fst b)%nat, snd a ++ snd b).

Fixpoint dec_loop_c (rec : list Z -> cres) (orc : oracle) (n : nat) (data : list Z) (read : bool) : cres :=
  match data with
  | [] => (([], None), cost0)
  | _ :: _ =>
      match n with
      | O => (fail Fuel, cost0)
      | S n' =>
          match header data with
          | Err e => (([], on_error read e), cost0)
          | Ok (offset, msg, r2) =>
              let '((ys, out), c1) := dec_message_c rec orc msg offset in
              let read' := read || nonempty ys in
              match out with
              | None => let '((ys2, out2), c2) := dec_loop_c rec orc n' r2 read' in
                        ((ys ++ ys2, out2), cost_add (1%nat, []) (cost_add c1 c2))
              | Some e => ((ys, on_error read' e), cost_add (1%nat, []) c1)
              end
          end
      end
  end.

Fixpoint dec_set_c (depth : nat) (orc : oracle) (data : list Z) : cres :=
  match depth with
  | O => (fail Fuel, cost0)
  | S d => dec_loop_c (dec_set_c d orc) orc (length data) data false
  end.

(* ---- the instrumented decoder IS the decoder ---- *)
Lemma dec_payload_c_fst rec recc orc magic att offset key value ts :
  (forall x, fst (recc x) = rec x) ->
  fst (dec_payload_c recc orc magic att offset key value ts) = dec_payload rec orc magic att offset key value ts.
Proof.
  intros R. unfold dec_payload_c, dec_payload.
  destruct (Z.land att ATTRIBUTE_CODEC_MASK =? CODEC_NONE); [reflexivity|].
  destruct (Z.land att ATTRIBUTE_CODEC_MASK =? CODEC_GZIP).
  { destruct (gzip_decode orc value) as [z|e]; [|reflexivity]. rewrite <- R. destruct (recc z); reflexivity. }
  destruct (Z.land att ATTRIBUTE_CODEC_MASK =? CODEC_SNAPPY).
  { destruct (snappy_decode orc value) as [z|e]; [|reflexivity]. rewrite <- R. destruct (recc z); reflexivity. }
  reflexivity.
Qed.

Lemma dec_message_c_fst rec recc orc data offset :
  (forall x, fst (recc x) = rec x) ->
  fst (dec_message_c recc orc data offset) = dec_message rec orc data offset.
Proof.
  intros R. unfold dec_message_c, dec_message. destruct data as [d|]; [|reflexivity].
  destruct (do (crc, r1) <- read_u32 d; do (magic, r2) <- read_u8 r1; do (att, r3) <- read_u8 r2; Ok (crc, magic, att, r3))
    as [[[[crc magic] att] r3]|e]; [|reflexivity].
  destruct (negb (crc =? crc32 (drop 4 d))); [reflexivity|].
  destruct (magic =? 0).
  { destruct (do (key, r4) <- read_int_string r3; do (value, _) <- read_int_string r4; Ok (key, value)) as [[key value]|e];
      [|reflexivity]. now apply dec_payload_c_fst. }
  destruct (magic =? 1); [|reflexivity].
  destruct (do (ts, r4) <- read_i64 r3; do (key, r5) <- read_int_string r4; do (value, _) <- read_int_string r5; Ok (ts, key, value))
    as [[[ts key] value]|e]; [|reflexivity].
  now apply dec_payload_c_fst.
Qed.

Lemma dec_loop_c_fst rec recc orc n : (forall x, fst (recc x) = rec x) ->
  forall data read, fst (dec_loop_c recc orc n data read) = dec_loop rec orc n data read.
Proof.
  intros R. induction n as [|n IH]; intros data read; rewrite dec_loop_unfold.
  - destruct data; reflexivity.
  - destruct data as [|x t]; [reflexivity|]. cbn [dec_loop_c].
    destruct (header (x :: t)) as [[[offset msg] r2]|e]; [|reflexivity].
    rewrite <- (dec_message_c_fst rec recc orc msg offset R).
    destruct (dec_message_c recc orc msg offset) as [[ys out] c1]. cbn [fst].
    destruct out; [reflexivity|].
    rewrite <- IH. destruct (dec_loop_c recc orc n r2 (read || nonempty ys)) as [[ys2 out2] c2]. reflexivity.
Qed.

Theorem dec_set_c_fst depth orc : forall data, fst (dec_set_c depth orc data) = dec_set depth orc data.
Proof.
  induction depth as [|d IH]; intros data; [reflexivity|].
  cbn [dec_set_c dec_set]. apply dec_loop_c_fst. exact IH.
Qed.

(* ---- the recorded byte strings are answers of the oracle ---- *)
Definition oracle_answer (orc : oracle) (o : list Z) : Prop :=
  exists x, gz_dec orc x = Ok o \/ sn_dec orc x = Ok o.

Definition outs_ok (orc : oracle) (r : cres) : Prop := Forall (oracle_answer orc) (snd (snd r)).

Lemma dec_payload_c_outs recc orc magic att offset key value ts :
  (forall x, outs_ok orc (recc x)) -> outs_ok orc (dec_payload_c recc orc magic att offset key value ts).
Proof.
  intros R. unfold dec_payload_c, outs_ok.
  destruct (Z.land att ATTRIBUTE_CODEC_MASK =? CODEC_NONE); [constructor|].
  destruct (Z.land att ATTRIBUTE_CODEC_MASK =? CODEC_GZIP).
  { destruct (gzip_decode orc value) as [z|e] eqn:G; [|constructor].
    specialize (R z). unfold outs_ok in R. destruct (recc z) as [r c]. cbn [snd] in *. constructor; [|exact R].
    unfold gzip_decode in G. eexists; left; exact G. }
  destruct (Z.land att ATTRIBUTE_CODEC_MASK =? CODEC_SNAPPY); [|constructor].
  destruct (snappy_decode orc value) as [z|e] eqn:G; [|constructor].
  specialize (R z). unfold outs_ok in R. destruct (recc z) as [r c]. cbn [snd] in *. constructor; [|exact R].
  unfold snappy_decode in G. destruct (sn_avail orc); [|discriminate]. destruct value; [|discriminate].
  eexists; right; exact G.
Qed.

Lemma dec_message_c_outs recc orc data offset :
  (forall x, outs_ok orc (recc x)) -> outs_ok orc (dec_message_c recc orc data offset).
Proof.
  intros R. unfold dec_message_c. destruct data as [d|]; [|constructor].
  destruct (do (crc, r1) <- read_u32 d; do (magic, r2) <- read_u8 r1; do (att, r3) <- read_u8 r2; Ok (crc, magic, att, r3))
    as [[[[crc magic] att] r3]|e]; [|constructor].
  destruct (negb (crc =? crc32 (drop 4 d))); [constructor|].
  destruct (magic =? 0).
  { destruct (do (key, r4) <- read_int_string r3; do (value, _) <- read_int_string r4; Ok (key, value)) as [[key value]|e];
      [|constructor]. now apply dec_payload_c_outs. }
  destruct (magic =? 1); [|constructor].
  destruct (do (ts, r4) <- read_i64 r3; do (key, r5) <- read_int_string r4; do (value, _) <- read_int_string r5; Ok (ts, key, value))
    as [[[ts key] value]|e]; [|constructor].
  now apply dec_payload_c_outs.
Qed.

Lemma dec_loop_c_outs recc orc n : (forall x, outs_ok orc (recc x)) ->
  forall data read, outs_ok orc (dec_loop_c recc orc n data read).
Proof.
  intros R. induction n as [|n IH]; intros data read.
  - destruct data; constructor.
  - destruct data as [|x t]; [constructor|]. cbn [dec_loop_c].
    destruct (header (x :: t)) as [[[offset msg] r2]|e]; [|constructor].
    pose proof (dec_message_c_outs recc orc msg offset R) as M.
    destruct (dec_message_c recc orc msg offset) as [[ys out] c1].
    destruct out.
    + unfold outs_ok in *. cbn [snd cost_add app] in *. exact M.
    + specialize (IH r2 (read || nonempty ys)).
      destruct (dec_loop_c recc orc n r2 (read || nonempty ys)) as [[ys2 out2] c2].
      unfold outs_ok in *. cbn [snd cost_add app] in *. apply Forall_app. auto.
Qed.

Theorem dec_set_c_outs depth orc : forall data, outs_ok orc (dec_set_c depth orc data).
Proof.
  induction depth as [|d IH]; intros data; [constructor|].
  cbn [dec_set_c]. apply dec_loop_c_outs. exact IH.
Qed.

(* ---- the bound ---- *)
(* for a whole (nested) set decode of input x: every entry is paid for by 12 bytes of x or of an oracle output *)
Definition set_bound (x : list Z) (r : cres) : Prop :=
  (12 * fst (snd r) <= length x + obytes (snd r))%nat /\ (length (fst (fst r)) <= fst (snd r))%nat.
(* for one message: nested entries are paid for by oracle outputs alone; at most one message of its own *)
Definition msg_bound (r : cres) : Prop :=
  (12 * fst (snd r) <= obytes (snd r))%nat /\ (length (fst (fst r)) <= 1 + fst (snd r))%nat.

Lemma obytes_cons n z l : obytes (n, z :: l) = (length z + obytes (n, l))%nat.
Proof. reflexivity. Qed.

Lemma obytes_add a b : obytes (cost_add a b) = (obytes a + obytes b)%nat.
Proof.
  unfold obytes, cost_add. cbn [snd]. induction (snd a) as [|o l IH]; cbn [app fold_right]; [reflexivity|]. lia.
Qed.

Lemma absolute_length off ms : (length (absolute off ms) <= length ms)%nat.
Proof. unfold absolute. destruct (last_offset ms); [rewrite map_length; apply Nat.le_refl|cbn; apply Nat.le_0_l]. Qed.

Lemma dec_payload_c_bound recc orc magic att offset key value ts :
  (forall x, set_bound x (recc x)) -> msg_bound (dec_payload_c recc orc magic att offset key value ts).
Proof.
  intros R. unfold dec_payload_c.
  assert (N : forall z, msg_bound (let (r, c) := recc z in
                                   ((if magic =? 0 then wrap_v0 else wrap_v1 offset) r, (fst c, z :: snd c)))).
  { intros z. specialize (R z). unfold set_bound in R. destruct (recc z) as [[ms out] [n outs]].
    unfold msg_bound. cbn [fst snd] in *. rewrite obytes_cons. split; [lia|].
    destruct (magic =? 0); [unfold wrap_v0; cbn [fst]; lia|].
    unfold wrap_v1. destruct out; cbn [fst length]; [lia|]. pose proof (absolute_length offset ms). lia. }
  assert (Z0 : forall e, msg_bound (fail e, cost0)) by (intros; split; cbn; lia).
  destruct (Z.land att ATTRIBUTE_CODEC_MASK =? CODEC_NONE); [split; cbn; lia|].
  destruct (Z.land att ATTRIBUTE_CODEC_MASK =? CODEC_GZIP).
  { destruct (gzip_decode orc value); auto. }
  destruct (Z.land att ATTRIBUTE_CODEC_MASK =? CODEC_SNAPPY); auto.
  destruct (snappy_decode orc value); auto.
Qed.

Lemma dec_message_c_bound recc orc data offset :
  (forall x, set_bound x (recc x)) -> msg_bound (dec_message_c recc orc data offset).
Proof.
  intros R. assert (Z0 : forall e, msg_bound (fail e, cost0)) by (intros; split; cbn; lia).
  unfold dec_message_c. destruct data as [d|]; auto.
  destruct (do (crc, r1) <- read_u32 d; do (magic, r2) <- read_u8 r1; do (att, r3) <- read_u8 r2; Ok (crc, magic, att, r3))
    as [[[[crc magic] att] r3]|e]; auto.
  destruct (negb (crc =? crc32 (drop 4 d))); auto.
  destruct (magic =? 0).
  { destruct (do (key, r4) <- read_int_string r3; do (value, _) <- read_int_string r4; Ok (key, value)) as [[key value]|e];
      auto. now apply dec_payload_c_bound. }
  destruct (magic =? 1); auto.
  destruct (do (ts, r4) <- read_i64 r3; do (key, r5) <- read_int_string r4; do (value, _) <- read_int_string r5; Ok (ts, key, value))
    as [[[ts key] value]|e]; auto.
  now apply dec_payload_c_bound.
Qed.

Lemma dec_loop_c_bound recc orc n : (forall x, set_bound x (recc x)) ->
  forall data read, set_bound data (dec_loop_c recc orc n data read).
Proof.
  intros R. induction n as [|n IH]; intros data read.
  - destruct data; split; cbn; lia.
  - destruct data as [|x t]; [split; cbn; lia|]. cbn [dec_loop_c].
    destruct (header (x :: t)) as [[[offset msg] r2]|e] eqn:Hd; [|split; cbn; lia].
    apply header_consumes in Hd.
    pose proof (dec_message_c_bound recc orc msg offset R) as M.
    destruct (dec_message_c recc orc msg offset) as [[ys out] c1]. unfold msg_bound in M. cbn [fst snd] in M.
    destruct out.
    + unfold set_bound. cbn [fst snd]. rewrite obytes_add. change (obytes (1%nat, [])) with O.
      cbn [cost_add fst snd Nat.add]. lia.
    + specialize (IH r2 (read || nonempty ys)).
      destruct (dec_loop_c recc orc n r2 (read || nonempty ys)) as [[ys2 out2] c2].
      unfold set_bound in *. cbn [fst snd] in *. rewrite !obytes_add. change (obytes (1%nat, [])) with O.
      rewrite app_length. cbn [cost_add fst snd Nat.add]. lia.
Qed.

Theorem dec_set_c_bound depth orc : forall data, set_bound data (dec_set_c depth orc data).
Proof.
  induction depth as [|d IH]; intros data; [split; cbn; lia|].
  cbn [dec_set_c]. apply dec_loop_c_bound. exact IH.
Qed.

(* the statement for Props/C12.v *)
Definition entries_read (depth : nat) (orc : oracle) (data : list Z) : nat := fst (snd (dec_set_c depth orc data)).
Definition oracle_outputs (depth : nat) (orc : oracle) (data : list Z) : list (list Z) := snd (snd (dec_set_c depth orc data)).
Definition total_length (l : list (list Z)) : nat := fold_right (fun o n => (length o + n)%nat) O l.

Theorem total_linear depth orc data :
  fst (dec_set_c depth orc data) = dec_set depth orc data /\
  Forall (oracle_answer orc) (oracle_outputs depth orc data) /\
  (12 * entries_read depth orc data <= length data + total_length (oracle_outputs depth orc data))%nat /\
  (length (fst (dec_set depth orc data)) <= entries_read depth orc data)%nat.
Proof.
  split; [apply dec_set_c_fst|]. split; [apply dec_set_c_outs|].
  pose proof (dec_set_c_bound depth orc data) as [B1 B2]. rewrite dec_set_c_fst in B2.
  split; [exact B1|exact B2].
Qed.

(* without compression nothing comes from the oracle: messages <= length/12 *)
Corollary total_linear_div depth orc data :
  (length (fst (dec_set depth orc data)) <= (length data + total_length (oracle_outputs depth orc data)) / 12)%nat.
Proof.
  destruct (total_linear depth orc data) as (_ & _ & B1 & B2).
  apply Nat.div_le_lower_bound; lia.
Qed.
