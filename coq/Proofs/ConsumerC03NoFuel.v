(* The run-level theorems of C03 without the fuel hypothesis: by b-consumer-a's fuel_enough (through fuel_suffices of
   Proofs/ConsumerC02NoFuel.v) every run from an accepted configuration (auto_commit_every_n >= 0) has a fuel from
   which on the interpreter of the re-entrant methods never gives up. *)
From Coq Require Import Lia.
From AV Require Import Base.Util Model.Consumer Model.ConsumerLog Model.ConsumerLogFifo Model.ConsumerLogSeg Model.ConsumerLogC03
  Proofs.ConsumerC02NoFuel Proofs.ConsumerC03PwbRun Proofs.ConsumerC03Commit Proofs.ConsumerC03CommitRun
  Proofs.ConsumerC03Req2Run Proofs.ConsumerC03Resume.

Section NoFuel.
Variables (c : cfg) (maxatt buf : Z) (evs : list event).
Hypothesis A : 0 <= c_acn c.

Ltac with_fuel := destruct (fuel_suffices c maxatt buf evs A) as (f0 & H); exists f0; intros fuel Hge; specialize (H fuel Hge).

Theorem pwb_any_fuel : exists f0, forall fuel, (f0 <= fuel)%nat ->
  exists b, mon_run_s pwb_ev pwb_out pwb0 (run_steps fuel (init c maxatt buf) evs)
            = Some (mkPB (pw_abs None (fst (run_events fuel (init c maxatt buf) evs))) b)
            /\ (b = true -> dead (fst (run_events fuel (init c maxatt buf) evs)) = true).
Proof. with_fuel. apply pwb_monitor_accepts; assumption. Qed.
Theorem c3_any_fuel : exists f0, forall fuel, (f0 <= fuel)%nat ->
  exists g, mon_run_s c3_ev c3_out c30 (run_steps fuel (init c maxatt buf) evs) = Some g
            /\ c3_inv g
            /\ b_pw (m_b g) = pw_abs None (fst (run_events fuel (init c maxatt buf) evs))
            /\ (b_bad (m_b g) = true -> dead (fst (run_events fuel (init c maxatt buf) evs)) = true).
Proof. with_fuel. apply c3_monitor_accepts; assumption. Qed.
Theorem c3_store_any_fuel : exists f0, forall fuel, (f0 <= fuel)%nat ->
  exists g, mon_run_s c3_ev c3_out c30 (run_steps fuel (init c maxatt buf) evs) = Some g
            /\ processed_end g (m_store g) /\ Forall (processed_end g) (m_sent g)
            /\ match m_co g with Some off => processed_end g off | None => True end.
Proof. with_fuel. apply c3_store; assumption. Qed.
Theorem req2_any_fuel : exists f0, forall fuel, (f0 <= fuel)%nat ->
  mon_run req2_ev req2_out q20 (model_obs fuel c maxatt buf evs) = Some (req2_abs (fst (run_events fuel (init c maxatt buf) evs))).
Proof. with_fuel. apply req2_monitor_accepts; assumption. Qed.
End NoFuel.

Theorem resume_any_fuel c maxatt buf v rest L :
  c_group c = true -> 0 <= c_acn c -> 0 <= v -> increasing L ->
  exists f0, forall fuel, (f0 <= fuel)%nat ->
  honest_run L 0 (run_steps fuel (init c maxatt buf) (EStart OFF_COMMITTED :: EReqOk v :: rest)) ->
  no_resolve (run_steps fuel (resumed c maxatt buf v) rest) = true ->
  exists gh, mon_run_s log_ev log_out log0 (run_steps fuel (init c maxatt buf) (EStart OFF_COMMITTED :: EReqOk v :: rest)) = Some gh
             /\ l_D gh ++ l_g gh = l_E gh
             /\ (forall n, l_nx gh = Some n -> v + 1 <= n /\ l_E gh = seg (v + 1) n L)
             /\ (l_nx gh = None -> l_D gh = [] /\ l_g gh = []).
Proof.
  intros G A V HL. destruct (fuel_suffices c maxatt buf (EStart OFF_COMMITTED :: EReqOk v :: rest) A) as (f0 & H).
  exists f0. intros fuel Hge Hon NR. apply resume_run; auto.
Qed.

(* the four run-level statements at once (one fuel for all of them) *)
Theorem c03_any_fuel c maxatt buf evs : 0 <= c_acn c -> exists f0, forall fuel, (f0 <= fuel)%nat ->
  (exists b, mon_run_s pwb_ev pwb_out pwb0 (run_steps fuel (init c maxatt buf) evs)
             = Some (mkPB (pw_abs None (fst (run_events fuel (init c maxatt buf) evs))) b)
             /\ (b = true -> dead (fst (run_events fuel (init c maxatt buf) evs)) = true)) /\
  (exists g, mon_run_s c3_ev c3_out c30 (run_steps fuel (init c maxatt buf) evs) = Some g
             /\ c3_inv g
             /\ b_pw (m_b g) = pw_abs None (fst (run_events fuel (init c maxatt buf) evs))
             /\ processed_end g (m_store g) /\ Forall (processed_end g) (m_sent g)
             /\ match m_co g with Some off => processed_end g off | None => True end) /\
  mon_run req2_ev req2_out q20 (model_obs fuel c maxatt buf evs) = Some (req2_abs (fst (run_events fuel (init c maxatt buf) evs))).
Proof.
  intro A. destruct (fuel_suffices c maxatt buf evs A) as (f0 & H). exists f0. intros fuel Hge. specialize (H fuel Hge).
  split; [apply pwb_monitor_accepts; assumption|]. split; [|apply req2_monitor_accepts; assumption].
  destruct (c3_monitor_accepts fuel c maxatt buf evs A H) as (g & Hg & I & Hb & _).
  exists g. split; [exact Hg|]. split; [exact I|]. split; [exact Hb|].
  destruct I as [_ _ _ _ Hco Hs Hst]. auto.
Qed.
