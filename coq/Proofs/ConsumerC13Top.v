(* C13: theorems about single steps (events) in every state between two events. *)
From Coq Require Import Lia.
From AV Require Import Base.Util Model.Consumer Proofs.ConsumerBase Proofs.ConsumerFrame Proofs.ConsumerC13.
Open Scope Z_scope.

Definition acc (s : state) (e : event) : Z := if start_accepted s e then 1 else 0.

(* derive SO0 for every call made on a path *)
Ltac so0 Ls Li :=
  repeat match goal with
  | E : _ = (_, _, _) |- _ =>
    let E' := fresh "E" in pose proof E as E'; apply Ls in E; apply Li in E';
    let Z := fresh "Z" in pose proof (so0_of _ _ _ E E') as Z; clear E E'
  end.
Ltac so0_all :=
  repeat match goal with E : run _ _ _ = (_, _, _) |- _ => apply run_so0 in E end;
  so0 startd_errback_so startd_errback_ip; so0 handle_auto_commit_error_so handle_auto_commit_error_ip;
  so0 commit_so commit_ip; so0 auto_commit_so auto_commit_ip; so0 do_fetch_so do_fetch_ip;
  so0 send_commit_request_so send_commit_request_ip;
  so0 handle_offset_response_so handle_offset_response_ip; so0 handle_fetch_error_so handle_fetch_error_ip;
  so0 handle_offset_error_so handle_offset_error_ip.
(* discharge the premises in path order *)
Ltac so0_fwd :=
  repeat match goal with
  | H : SO0 ?a ?b ?o |- _ =>
    let P := fresh "P" in assert (P : s_inapi a = 0) by (psimpl; congruence);
    specialize (H P); destruct H as (? & ? & ? & ?); clear P
  end.

Ltac fin_so :=
  repeat match goal with |- _ /\ _ => split end;
  unfold u, startd_unfired in *; psimpl; repeat rewrite count_startd_app in *; cbn [count_startd app] in *;
  repeat match goal with D : s_startd ?x = _ |- _ => rewrite D in * end;
  repeat match goal with D : s_pend ?x = _ |- _ => rewrite D in * end;
  cbn [is_none is_some negb count_startd] in *;
  try lia; try congruence;
  repeat match goal with |- context [if ?b then _ else _] => let E := fresh "E" in destruct b eqn:E; rewrite ?E in * end;
  try lia; try congruence.
(* inside shutdown(): the raw conservation law and the pend count *)
Ltac so_raw :=
  repeat match goal with
  | E : run _ _ _ = (_, _, _) |- _ =>
    let E' := fresh "E" in pose proof E as E'; apply run_so in E; apply run_ip in E';
    destruct E as (? & ?); destruct E' as (? & _ & E');
    let P := fresh "P" in (assert (P : forall x, x = 3 -> x <> 1) by (intros; lia));
    specialize (E' (P _ ltac:(psimpl; reflexivity))); clear P
  end; unfold Phi in *.

Lemma handle_start_once fuel e s s' o :
  handle fuel e s = (Ok tt, s', o) -> s_inapi s = 0 -> s_pend s = [] ->
  u s' <= u s + acc s e /\ count_startd o + u s' = u s + acc s e /\ s_inapi s' = 0 /\ s_pend s' = [].
Proof.
  intros H Hi Hp. unfold handle in H. cbn zeta in H. destruct e; unfold acc, start_accepted.
  - (* start *) unfold do_fetch, startd_errback, flush_pend in H. mi H; fin_so.
  - unfold api_stop in H. mi H; so0_all; so0_fwd; fin_so.
  - (* shutdown *) unfold api_shutdown in H. mi H; split_state_if; so_raw; fin_so.
  - unfold api_commit in H. mi H; so0_all; so0_fwd; fin_so.
  - mi H; so0_all; so0_fwd; fin_so.
  - mi H; so0_all; so0_fwd; fin_so.
  - mi H; so0_all; so0_fwd; fin_so.
  - mi H; so0_all; so0_fwd; fin_so.
  - mi H; so0_all; so0_fwd; fin_so.
  - mi H; so0_all; so0_fwd; fin_so.
  - unfold handle_commit_error in H. mi H; so0_all; so0_fwd; fin_so.
  - mi H; so0_all; so0_fwd; fin_so.
  - mi H; so0_all; so0_fwd; fin_so.
  - mi H; so0_all; so0_fwd; fin_so.
Qed.

Lemma count_startd_nonneg o : 0 <= count_startd o.
Proof. induction o as [|x o IH]; [cbn; lia|]. destruct x; cbn [count_startd]; lia. Qed.

(* C13_start_once: in every state between two events (no API call in progress) and for every event: at most one
   outcome of the start Deferred is reported, only if it was pending (or the event is the start that creates it), and
   it is pending afterwards iff it was (or was created) and nothing was reported *)
Theorem start_once_every_step fuel s e s' o :
  s_inapi s = 0 -> s_pend s = [] -> step fuel s e = (s', o) ->
  start_once_step (s, e, o, s') = true /\ s_inapi s' = 0 /\ s_pend s' = [].
Proof.
  intros Hi Hp H. apply step_inv in H. destruct H as (o1 & H & ->).
  destruct (handle_start_once _ _ _ _ _ H Hi Hp) as (H1 & H2 & H3 & H4).
  split; [|auto]. unfold start_once_step. rewrite count_startd_app. cbn [count_startd]. rewrite Z.add_0_r.
  pose proof (count_startd_nonneg o1) as Hn.
  unfold acc, u in *.
  assert (Hacc : start_accepted s e = true -> startd_unfired s = false).
  { unfold start_accepted, startd_unfired, is_none, is_some. destruct e; try discriminate. destruct (s_startd s); [discriminate|reflexivity]. }
  destruct (startd_unfired s) eqn:Eu, (start_accepted s e) eqn:Ea, (startd_unfired s') eqn:Eu'; cbn [orb andb implb Bool.eqb];
    try (specialize (Hacc eq_refl); discriminate).
  all: assert (Hc : count_startd o1 = 0 \/ count_startd o1 = 1) by lia; destruct Hc as [Hc|Hc]; rewrite Hc in *; cbn; try reflexivity; try lia.
Qed.

(* ---------------- a quiescent consumer stays quiescent until the application starts it (or commits by hand) -------- *)
Theorem quiescent_closed fuel s e s' o :
  quiescent s = true -> (forall off, e <> EStart off) -> e <> ECommit -> step fuel s e = (s', o) ->
  quiescent s' = true /\ existsb is_activity o = false /\ s_lp s' = s_lp s /\ s_lc s' = s_lc s.
Proof.
  intros Hq Hs Hc H. unfold quiescent, is_none, is_some, rcall_active, looper_armed, is_nil in Hq. bsimp.
  destruct (s_startd s) eqn:Esd; [discriminate|]. destruct (s_req s) eqn:Ereq; [discriminate|].
  destruct (s_proc s) eqn:Eproc; [discriminate|]. destruct (s_mblock s) eqn:Emb; [discriminate|].
  destruct (s_cds s) eqn:Ecds; [|discriminate]. destruct (s_creq s) eqn:Ecreq; [discriminate|].
  destruct (s_ccall s) eqn:Ecc; [discriminate|].
  apply step_inv in H. destruct H as (o1 & H & ->).
  unfold handle in H. cbn zeta in H. destruct e; try (exfalso; eapply Hs; reflexivity); try (exfalso; apply Hc; reflexivity).
  all: unfold api_stop, api_shutdown in H; try (destruct fuel; cbn [run] in H; [|unfold body in H]).
  all: mi H.
  all: unfold quiescent, is_none, is_some, rcall_active, looper_armed, is_nil; psimpl;
       rewrite ?Esd, ?Ereq, ?Eproc, ?Emb, ?Ecds, ?Ecreq, ?Ecc; cbn [negb andb].
  all: repeat split; try reflexivity; bprop; try reflexivity; try congruence.
  all: try (destruct (s_rcall s) as [z|]; [destruct (z =? 0); try discriminate|]; reflexivity).
  all: try (destruct (s_looper s) as [[|]|]; try discriminate; reflexivity).
  all: rewrite D, H6; reflexivity.
Qed.

(* ---------------- a stopped consumer can be started again ---------------- *)
Definition first_request (s : state) (off : Z) : output * Z :=
  if (off =? OFF_EARLIEST) || (off =? OFF_LATEST) then (OOffReq off, R_OFFREQ)
  else if off =? OFF_COMMITTED then (OOffFetch, R_OFFFETCH) else (OFetch off (s_buf s), R_FETCH).

Theorem restartable fuel s off s' o :
  quiescent s = true -> s_inapi s = 0 -> s_pend s = [] -> step fuel s (EStart off) = (s', o) ->
  In (fst (first_request s off)) o /\ In (ORet 0) o /\ s_req s' = Some (snd (first_request s off), false) /\ s_foff s' = off /\
  s_rcall s' = None /\ s_stopping s' = false /\
  (s_startd s' = Some false \/ off = OFF_COMMITTED /\ c_group (s_cf s) = false /\ s_startd s' = Some true) /\
  (c_group (s_cf s) && c_acs (s_cf s) = true -> s_looper s' = Some true /\ In (OSched T_LOOPER (-1)) o).
Proof.
  intros Hq Hi Hp H. unfold quiescent, is_none, is_some, rcall_active, looper_armed, is_nil in Hq. bsimp.
  destruct (s_startd s) eqn:Esd; [discriminate|]. destruct (s_req s) eqn:Ereq; [discriminate|].
  apply step_inv in H. destruct H as (o1 & H & ->).
  unfold handle in H. cbn zeta in H. unfold do_fetch, startd_errback, flush_pend, first_request in *.
  mi H; psimpl; rewrite ?Hp; cbn [fst snd app].
  all: repeat split; auto; try (intro Hg; try discriminate Hg); try (cbn; auto 10; fail).
  all: try discriminate.
  all: try (right; bsimp; repeat split; auto; fail).
Qed.

Theorem start_once_run fuel : forall evs s, s_inapi s = 0 -> s_pend s = [] ->
  forallb start_once_step (run_steps fuel s evs) = true.
Proof.
  induction evs as [|e evs IH]; intros s Hi Hp; cbn [run_steps forallb]; [reflexivity|].
  destruct (step fuel s e) as [s1 o] eqn:E. cbn [forallb].
  destruct (start_once_every_step _ _ _ _ _ Hi Hp E) as (H1 & H2 & H3). rewrite H1. cbn [andb]. apply IH; assumption.
Qed.

(* stop() / shutdown() on a consumer that is not running: RestopError, nothing changes *)
Theorem stop_not_running fuel s s' o : s_startd s = None -> step (S fuel) s EStop = (s', o) ->
  s' = s /\ o = [ORaised X_RESTOP; OEnd (s_lp s) (s_lc s)].
Proof.
  intros Hs H. apply step_inv in H. destruct H as (o1 & H & ->).
  unfold handle in H. cbn zeta in H. unfold api_stop in H. mi H; auto.
Qed.

(* ---------------- graceful shutdown waits for the processing in progress ---------------- *)
(* shutdown() while a processor result is awaited: nothing is cancelled, sent or reported; the processor result stays
   awaited and carries shutdown's continuation; the flags are set.  In EVERY state with a processor result pending. *)
Theorem shutdown_waits fuel s s' o l rs c :
  s_proc s = Some (l, rs, c) -> is_some (s_startd s) = true -> s_shutd s = false -> s_inapi s = 0 -> s_pend s = [] ->
  step fuel s EShutdown = (s', o) ->
  o = [ORet 0; OEnd (s_lp s) (s_lc s)] /\ s_proc s' = Some (l, rs, true) /\ s_shutting s' = true /\ s_shutd s' = true /\
  s_req s' = s_req s /\ s_cds s' = s_cds s /\ s_creq s' = s_creq s /\ s_startd s' = s_startd s /\ s_mblock s' = s_mblock s.
Proof.
  intros Hp Hs Hd Hi Hpe H. apply step_inv in H. destruct H as (o1 & H & ->).
  unfold handle in H. cbn zeta in H. unfold api_shutdown in H. mi H; split_state_if; psimpl; rewrite ?Hpe; cbn [app].
  all: try (rewrite Hs, Hd in *; discriminate).
  all: inversion Hp; subst; repeat split; auto.
Qed.

(* ... and when that result arrives the continuation runs: the event handler for the processor result executes
   _commit_and_stop after the chain of the processor Deferred (by definition of KFireProc); what it does is covered by
   C13_shutdown_commits and C13_stopping_inert *)

(* ---------------- a restarted consumer delivers again ---------------- *)
(* start(off) on a stopped consumer whose shutdown bookkeeping is clear sends the fetch; the reply to it, when it carries
   a message at or after off, is handed to the processor. *)
Lemma start_state fuel s off s1 o1 :
  quiescent s = true -> s_shutting s = false -> 0 <= off -> step fuel s (EStart off) = (s1, o1) ->
  s_req s1 = Some (R_FETCH, false) /\ s_mblock s1 = None /\ s_shutting s1 = false /\ s_stopping s1 = false /\
  s_startd s1 = Some false /\ s_foff s1 = off /\ In (OFetch off (s_buf s)) o1.
Proof.
  intros Hq Hsh Hoff H. unfold quiescent, is_none, is_some, rcall_active, looper_armed, is_nil in Hq. bsimp.
  destruct (s_startd s) eqn:Esd; [discriminate|]. destruct (s_req s) eqn:Ereq; [discriminate|].
  destruct (s_mblock s) eqn:Emb; [discriminate|].
  apply step_inv in H. destruct H as (o' & H & ->).
  unfold handle in H. cbn zeta in H. unfold do_fetch, startd_errback, flush_pend in *.
  assert (E1 : (off =? OFF_EARLIEST) = false) by (unfold OFF_EARLIEST; lia).
  assert (E2 : (off =? OFF_LATEST) = false) by (unfold OFF_LATEST; lia).
  assert (E3 : (off =? OFF_COMMITTED) = false) by (unfold OFF_COMMITTED; lia).
  mi H; psimpl; rewrite ?E1, ?E2, ?E3 in *; cbn [orb] in *; try discriminate.
  all: repeat split; auto; try (apply in_or_app; left); cbn; auto 10.
Qed.

Lemma procloop_delivers f m ms s r s' o :
  run f (KProcLoop (m :: ms)) s = (r, s', o) -> fuel_ok o = true ->
  s_shutting s = false -> s_stopping s = false -> s_startd s = Some false -> exists blk, In (OCallProc blk) o.
Proof.
  intros H Hf Hsh Hst Hsd. destruct f as [|f]; cbn [run] in H.
  - mi H. cbn in Hf. discriminate.
  - cbn [body] in H. mi H; try congruence.
    all: try (eexists; cbn [app]; left; reflexivity).
Qed.

Lemma in_mid {A} (x : A) a b c : In x b -> In x (a ++ b ++ c).
Proof. intro H. apply in_or_app. right. apply in_or_app. left. exact H. Qed.

Lemma fetchresp_delivers f offs m ms fo s r s' o :
  run f (KFetchResp offs false) s = (r, s', o) -> fuel_ok o = true -> s_mblock s = None ->
  s_shutting s = false -> s_stopping s = false -> s_startd s = Some false -> extract (s_foff s) offs = (m :: ms, fo) ->
  exists blk, In (OCallProc blk) o.
Proof.
  intros H Hf Hmb Hsh Hst Hsd Hex. destruct f as [|f]; cbn [run] in H.
  - mi H. cbn in Hf. discriminate.
  - cbn [body] in H. mi H; psimpl; try congruence.
    all: cbn [app] in *; fuel_split.
    all: match goal with E : run _ (KProcLoop _) ?x = _, Hf : fuel_ok _ = true |- _ =>
           destruct (procloop_delivers _ _ _ _ _ _ _ E Hf) as (blk & Hin); [psimpl; assumption ..|] end.
    all: exists blk; repeat (apply in_or_app; first [left; exact Hin | right]); try exact Hin.
Qed.

Theorem delivers_reply fuel s1 offs s2 o2 m ms fo :
  s_req s1 = Some (R_FETCH, false) -> s_mblock s1 = None -> s_shutting s1 = false -> s_stopping s1 = false ->
  s_startd s1 = Some false -> extract (s_foff s1) offs = (m :: ms, fo) ->
  step fuel s1 (EFetchOk offs false) = (s2, o2) -> fuel_ok o2 = true ->
  exists blk, In (OCallProc blk) o2.
Proof.
  intros Hreq Hmb Hsh Hst Hsd Hex H Hf.
  apply step_inv in H. destruct H as (o' & H & ->). apply fuel_ok_app_inv in Hf. destruct Hf as (Hf & _).
  unfold handle in H. cbn zeta in H. mi H; try discriminate; fuel_split.
  all: match goal with E : run _ (KFetchResp _ _) ?x = _, Hf : fuel_ok _ = true |- _ =>
         destruct (fetchresp_delivers _ _ m ms fo _ _ _ _ E Hf) as (blk & Hin); [psimpl; eassumption ..|] end.
  all: exists blk; apply in_or_app; left; repeat (apply in_or_app; first [left; exact Hin | right]); try exact Hin.
Qed.

(* a consumer that was stopped and whose shutdown bookkeeping is clear delivers again after start() *)
Theorem delivers_again fuel s off s1 o1 offs s2 o2 m ms fo :
  quiescent s = true -> s_shutting s = false -> 0 <= off ->
  step fuel s (EStart off) = (s1, o1) -> extract off offs = (m :: ms, fo) ->
  step fuel s1 (EFetchOk offs false) = (s2, o2) -> fuel_ok o2 = true ->
  In (OFetch off (s_buf s)) o1 /\ exists blk, In (OCallProc blk) o2.
Proof.
  intros Hq Hsh Hoff H1 Hex H2 Hf.
  destruct (start_state _ _ _ _ _ Hq Hsh Hoff H1) as (a & b & c & d & e & g & h).
  split; [exact h|]. rewrite <- g in Hex. exact (delivers_reply _ _ _ _ _ _ _ _ a b c d e Hex H2 Hf).
Qed.
