(* Progress in its safety form (never idle): between two events, a consumer whose start Deferred has not fired and
   which is not shutting down always has an offset / fetch request outstanding (possibly answered and parked behind
   the processor) or a refetch timer armed.  State-only walk (trivial monitor) with the relation
     MR s0 s :  startd still unfired in s  ->  it was unfired in s0, and  L s0 -> L s
   where L = a request is recorded \/ a refetch timer is recorded \/ stopping \/ shutting down. *)
From Coq Require Import Lia.
From AV Require Import Base.Util Model.Consumer Model.ConsumerLog Model.ConsumerLogFifo Model.ConsumerLogSeg Proofs.ConsumerC02Wp
  Proofs.ConsumerC02Fifo Proofs.ConsumerC02Next.
From AV Require Proofs.ConsumerInv Proofs.ConsumerRun.

Definition Lb (s : state) : bool := is_some (s_req s) || is_some (s_rcall s) || s_stopping s || s_shutting s.
Definition MR (s0 s : state) : Prop :=
  (startd_unfired s = true -> startd_unfired s0 = true) /\ (startd_unfired s = true -> Lb s0 = true -> Lb s = true).
(* the request / timer has just been (re)established *)
Definition Fresh (s0 s : state) : Prop :=
  (startd_unfired s = true -> startd_unfired s0 = true) /\ (startd_unfired s = true -> Lb s = true).
Lemma M_refl s : MR s s. Proof. split; auto. Qed.
Lemma M_trans a b c : MR a b -> MR b c -> MR a c.
Proof. intros [A1 A2] [B1 B2]. split; auto. Qed.
Lemma Fresh_M s0 s : Fresh s0 s -> MR s0 s.
Proof. intros [A1 A2]. split; auto. Qed.
Lemma M_Fresh a b c : MR a b -> Fresh b c -> Fresh a c.
Proof. intros [A1 A2] [B1 B2]. split; auto. Qed.

Ltac gen_atom t := let v := fresh "v" in set (v := t) in *; clearbody v.
Ltac m_brute :=
  unfold MR, Fresh, Lb, startd_unfired in *; psimpl;
  repeat match goal with
  | H : _ /\ _ |- _ => destruct H
  end;
  repeat match goal with
  | |- context [s_startd ?x] => is_var x; gen_atom (s_startd x)
  | H : context [s_startd ?x] |- _ => is_var x; gen_atom (s_startd x)
  | |- context [s_req ?x] => is_var x; gen_atom (s_req x)
  | H : context [s_req ?x] |- _ => is_var x; gen_atom (s_req x)
  | |- context [s_rcall ?x] => is_var x; gen_atom (s_rcall x)
  | H : context [s_rcall ?x] |- _ => is_var x; gen_atom (s_rcall x)
  | |- context [s_stopping ?x] => is_var x; gen_atom (s_stopping x)
  | H : context [s_stopping ?x] |- _ => is_var x; gen_atom (s_stopping x)
  | |- context [s_shutting ?x] => is_var x; gen_atom (s_shutting x)
  | H : context [s_shutting ?x] |- _ => is_var x; gen_atom (s_shutting x)
  end;
  cbn [is_some orb negb] in *;
  repeat (first
    [ solve [ intuition (try congruence; try discriminate) ]
    | match goal with
      | v : option bool |- _ => destruct v as [[]|]
      | v : bool |- _ => destruct v
      | v : option _ |- _ => destruct v
      end; cbn [is_some orb negb] in * ]).
(* leaves: each is specified by MR from its own entry state *)
Lemma mi_startd_errback fk s : wu (startd_errback fk) (fun _ _ s' => MR s s' /\ startd_unfired s' = false) tt s.
Proof.
  unfold startd_errback. repeat (first [ nx_emit | wp_step idtac ]).
  all: split; [ m_brute | unfold startd_unfired; psimpl; try reflexivity ].
  all: match goal with D : s_startd _ = _ |- _ => rewrite D; reflexivity end.
Qed.
Ltac m_from A := first [ unfold MR, Lb, startd_unfired in *; psimpl; exact A | clear - A; m_brute ].
Ltac m_cur st :=
  lazymatch goal with
  | A : MR ?s0 st |- _ => idtac
  | A : MR ?s0 _ |- _ => let A' := fresh "A" in
      assert (A' : MR s0 st) by (first [ unfold MR, Lb, startd_unfired in *; psimpl; exact A | clear - A; m_brute ]); clear A
  end.
Ltac m_after := let r := fresh "r" in let H := fresh "H" in
  intros r [] ? H;
  match goal with A : MR ?s0 ?st |- _ => apply (M_trans _ _ _ A) in H; clear A end; destruct r; cbn beta iota.
Ltac m_call lem :=
  lazymatch goal with |- wp _ _ _ _ ?st => m_cur st;
    eapply wp_call; [ apply lem | m_after ] end.
Ltac m_done := try solve [ match goal with A : MR ?s0 _ |- MR ?s0 _ =>
  first [ unfold MR, Lb, startd_unfired in *; psimpl; exact A | clear - A; m_brute ] end ].
Ltac m_walk call := repeat (first [ nx_flush | f_stif | nx_emit | wp_step call ]).
Notation wm m s0 s := (wu m (fun _ _ s' => MR s0 s') tt s).
Ltac l1 := idtac; lazymatch goal with |- wp _ (startd_errback _) _ _ ?st => m_cur st;
  eapply wp_call; [ eapply wp_conseq; [ apply mi_startd_errback | intros ? ? ? [HM _]; exact HM ] | m_after ] end.
Lemma mi_retry_fetch z s : wu (retry_fetch z) (fun _ _ s' => Fresh s s') tt s.
Proof.
  unfold retry_fetch. repeat (first [ nx_emit | wp_step idtac ]).
  all: m_brute.
Qed.
Ltac f_call lem :=      (* a callee that re-establishes the request / timer *)
  lazymatch goal with |- wp _ _ _ _ ?st => m_cur st;
    eapply wp_call; [ apply lem
                    | let r := fresh "r" in let H := fresh "H" in intros r [] ? H;
                      match goal with A : MR ?s0 st |- _ => apply (M_Fresh _ _ _ A) in H; apply Fresh_M in H; clear A end;
                      destruct r; cbn beta iota ] end.
Ltac l2 := idtac; first [ l1 | lazymatch goal with |- wp _ (retry_fetch _) _ _ _ => f_call mi_retry_fetch end ].

(* _handle_offset_error / _handle_fetch_error clear the request and re-arm (or fail the start Deferred, or stopping) *)
Lemma tail_error (fk : Z) s1 :
  wu (s <- get ;; if s_stopping s && is_cancel fk then ret tt else if exhausted s then startd_errback fk else retry_fetch false)
     (fun _ _ s' => Fresh s1 s') tt s1.
Proof.
  apply wp_bind, wp_get. cbn beta iota.
  destruct (s_stopping s1 && is_cancel fk) eqn:SC.
  - apply wp_ret. apply andb_prop in SC. destruct SC as [SC _]. clear - SC. m_brute.
  - destruct (exhausted s1).
    + eapply wp_conseq; [ apply mi_startd_errback |]. intros r [] s' [H D]. clear - H D. m_brute.
    + apply mi_retry_fetch.
Qed.
Lemma mi_handle_offset_error fk s : wu (handle_offset_error fk) (fun _ _ s' => Fresh s s') tt s.
Proof.
  unfold handle_offset_error. apply wp_bind, wp_upd. cbn beta iota.
  eapply wp_conseq; [ apply (tail_error fk (set_req None s)) |]. intros r [] s' H. clear - H. m_brute.
Qed.
Lemma mi_handle_fetch_error fk s : wu (handle_fetch_error fk) (fun _ _ s' => Fresh s s') tt s.
Proof.
  unfold handle_fetch_error. apply wp_bind, wp_upd. cbn beta iota. apply wp_bind, wp_get. cbn beta iota. psimpl.
  destruct (is_oor fk); [ destruct (reset_off (s_cf s)) as [o|] |].
  - apply wp_bind. apply wp_bind, wp_upd. cbn beta iota. apply wp_ret. cbn beta iota.
    eapply wp_conseq; [ apply (tail_error fk (set_foff o (set_req None s))) |]. intros r [] s' H. clear - H. m_brute.
  - apply wp_bind. apply wp_bind. eapply wp_call; [ apply mi_startd_errback |]. intros r [] s1 [H D].
    destruct r; cbn beta iota.
    + apply wp_ret. cbn beta iota. apply wp_ret. clear - H D. m_brute.
    + clear - H D. m_brute.
  - apply wp_bind, wp_ret. cbn beta iota.
    eapply wp_conseq; [ apply (tail_error fk (set_req None s)) |]. intros r [] s' H. clear - H. m_brute.
Qed.
Lemma mi_handle_auto_commit_error fk s : wm (handle_auto_commit_error fk) s s.
Proof. pose proof (M_refl s) as A. unfold handle_auto_commit_error. m_walk l2. all: m_done. Qed.
Lemma mi_handle_processor_error fk s : wm (handle_processor_error fk) s s.
Proof. pose proof (M_refl s) as A. unfold handle_processor_error. m_walk l2. all: m_done. Qed.
Lemma mi_send_commit_request i a s : wm (send_commit_request i a) s s.
Proof. pose proof (M_refl s) as A. unfold send_commit_request. m_walk l2. all: m_done. Qed.
Ltac l3 := idtac; first [ l2 | lazymatch goal with
  | |- wp _ (handle_auto_commit_error _) _ _ _ => m_call mi_handle_auto_commit_error
  | |- wp _ (handle_processor_error _) _ _ _ => m_call mi_handle_processor_error
  | |- wp _ (send_commit_request _ _) _ _ _ => m_call mi_send_commit_request end ].
Lemma mi_commit w s : wm (commit w) s s.
Proof. pose proof (M_refl s) as A. unfold commit. m_walk l3. all: m_done. Qed.
Ltac l4 := idtac; first [ l3 | lazymatch goal with |- wp _ (commit _) _ _ _ => m_call mi_commit end ].
Lemma mi_auto_commit bc s : wm (auto_commit bc) s s.
Proof. pose proof (M_refl s) as A. unfold auto_commit. m_walk l4. all: m_done. Qed.
Ltac l5 := idtac; first [ l4 | lazymatch goal with |- wp _ (auto_commit _) _ _ _ => m_call mi_auto_commit end ].
Lemma mi_proc_chain l fk s : wm (proc_chain l fk) s s.
Proof. pose proof (M_refl s) as A. unfold proc_chain. m_walk l5. all: m_done. Qed.
Lemma mi_emit_shutd ok v lc s : wm (emit_shutd (OShutD ok v lc)) s s.
Proof. pose proof (M_refl s) as A. unfold emit_shutd. m_walk l5. all: m_done. Qed.
Ltac l6 := idtac; first [ l5 | lazymatch goal with
  | |- wp _ (proc_chain _ _) _ _ _ => m_call mi_proc_chain
  | |- wp _ (emit_shutd (OShutD _ _ _)) _ _ _ => m_call mi_emit_shutd
  | |- wp _ (emit_shutd (match ?x with _ => _ end)) _ _ _ => destruct x end ].
Lemma mi_pop_plan s : wm pop_plan s s.
Proof. pose proof (M_refl s) as A. unfold pop_plan. m_walk l6. all: m_done. Qed.
Lemma mi_stop_rcall s : wm stop_rcall s s.
Proof. pose proof (M_refl s) as A. unfold stop_rcall. m_walk l6. all: m_done. Qed.
Lemma mi_stop_ccall s : wm stop_ccall s s.
Proof. pose proof (M_refl s) as A. unfold stop_ccall. m_walk l6. all: m_done. Qed.
Lemma mi_stop_looper s : wm stop_looper s s.
Proof. pose proof (M_refl s) as A. unfold stop_looper. m_walk l6. all: m_done. Qed.
Lemma mi_stop_susp s : wm stop_susp s s.
Proof. pose proof (M_refl s) as A. unfold stop_susp. m_walk l6. all: m_done. Qed.
Lemma mi_stop_mblock s : wm stop_mblock s s.
Proof. pose proof (M_refl s) as A. unfold stop_mblock. m_walk l6. all: m_done. Qed.
Lemma mi_api_commit s : wm api_commit s s.
Proof. pose proof (M_refl s) as A. unfold api_commit. m_walk l6. all: m_done. Qed.
(* interrupted() clears the shutting-down flag: only ever called when stopping or stopped *)
Lemma mi_interrupted s : (s_stopping s || negb (is_some (s_startd s))) = true -> wm interrupted s s.
Proof.
  intro D. unfold interrupted. apply wp_bind, wp_get. cbn beta iota. apply wp_bind, wp_upd. cbn beta iota.
  assert (A : MR s (set_shutting false (set_shutd false s))).
  { clear - D. apply orb_prop in D. destruct D as [D|D]; [ m_brute |].
    unfold MR, Lb, startd_unfired. psimpl. destruct (s_startd s); [discriminate D|]. split; intro C; discriminate C. }
  m_walk l6. all: m_done.
Qed.
(* stop()'s cancellation of the request: the request is dropped, but the consumer is stopping *)
Lemma mi_stop_req s : s_stopping s = true -> wu stop_req (fun _ _ s' => MR s s' /\ s_stopping s' = true) tt s.
Proof.
  intro ST. unfold stop_req. apply wp_bind, wp_get. cbn beta iota.
  destruct (s_req s) as [[kd fired]|] eqn:RQ; [| apply wp_ret; split; [apply M_refl | exact ST] ].
  apply wp_bind.
  eapply wp_call with (Q0 := fun _ _ s1 => MR s s1 /\ s_stopping s1 = true).
  { destruct fired; [ apply wp_ret; split; [apply M_refl | exact ST] |].
    apply wp_bind, wu_emit. cbn beta iota. apply wp_bind, wp_upd. cbn beta iota. apply wp_swallow.
    destruct (kd =? R_FETCH).
    - unfold handle_fetch_error. apply wp_bind, wp_upd. cbn beta iota. apply wp_bind, wp_get. cbn beta iota. psimpl.
      change (is_oor FK_CANCELLED) with false. cbn iota. apply wp_bind, wp_ret. cbn beta iota.
      apply wp_bind, wp_get. cbn beta iota. psimpl. rewrite ST. change (true && is_cancel FK_CANCELLED) with true. cbn iota.
      apply wp_ret. split; [ clear - ST; m_brute | psimpl; exact ST ].
    - unfold handle_offset_error. apply wp_bind, wp_upd. cbn beta iota. apply wp_bind, wp_get. cbn beta iota. psimpl.
      rewrite ST. change (true && is_cancel FK_CANCELLED) with true. cbn iota.
      apply wp_ret. split; [ clear - ST; m_brute | psimpl; exact ST ]. }
  intros r [] s1 [H S1]. destruct r; cbn beta iota.
  - apply wp_upd. split; [ clear - H S1; m_brute | psimpl; exact S1 ].
  - split; assumption.
Qed.

Definition KPost (k : kont) (s : state) (r : res unit) (s' : state) : Prop :=
  MR s s' /\ (k = KStop -> r = Ok tt -> s_startd s' = None).

Section Rec.
Variable rec : kont -> M unit.
Hypothesis Hrec : forall k s, wu (rec k) (fun r _ s' => KPost k s r s') tt s.

Ltac m_rec := lazymatch goal with |- wp _ (rec ?k) _ _ ?st => m_cur st;
  eapply wp_call; [ eapply wp_conseq; [ apply (Hrec k st) | intros ? ? ? [HM _]; exact HM ] | m_after ] end.
Ltac l7 := idtac; first [ l6 | lazymatch goal with
  | |- wp _ pop_plan _ _ _ => m_call mi_pop_plan
  | |- wp _ stop_rcall _ _ _ => m_call mi_stop_rcall
  | |- wp _ stop_ccall _ _ _ => m_call mi_stop_ccall
  | |- wp _ stop_looper _ _ _ => m_call mi_stop_looper
  | |- wp _ stop_susp _ _ _ => m_call mi_stop_susp
  | |- wp _ stop_mblock _ _ _ => m_call mi_stop_mblock
  | |- wp _ api_commit _ _ _ => m_call mi_api_commit
  | |- wp _ interrupted _ _ ?st => m_cur st; eapply wp_call; [ apply mi_interrupted; assumption | m_after ]
  | |- wp _ (rec _) _ _ _ => m_rec end ].

Lemma mi_handle_commit_error fk i a s0 s : MR s0 s -> wm (handle_commit_error rec fk i a) s0 s.
Proof. intro A. unfold handle_commit_error. m_walk l7. all: m_done. Qed.
Lemma mi_fire_all ds cr s0 s : MR s0 s -> wm (fire_all rec ds cr) s0 s.
Proof.
  revert s. induction ds as [|x ds IH]; intros s A; cbn [fire_all].
  - m_walk l7. all: m_done.
  - m_walk l7. all: try (apply IH; assumption). all: m_done.
Qed.
Lemma mi_finish_block s0 s : MR s0 s -> wm (finish_block rec) s0 s.
Proof. intro A. unfold finish_block. m_walk l7. all: m_done. Qed.
Ltac m_lem lem :=
  lazymatch goal with |- wp _ _ _ _ ?st => m_cur st;
    match goal with A : MR ?s0 st |- _ =>
      eapply wp_call; [ apply (lem s0 st A) | let r := fresh "r" in intros r [] ? ?; clear A; destruct r; cbn beta iota ] end end.
Ltac l8 := idtac; first [ l7 | lazymatch goal with
  | |- wp _ (handle_commit_error _ ?fk ?i ?a) _ _ _ => m_lem (mi_handle_commit_error fk i a)
  | |- wp _ (fire_all _ ?ds ?cr) _ _ _ => m_lem (mi_fire_all ds cr)
  | |- wp _ (finish_block _) _ _ _ => m_lem mi_finish_block end ].
Lemma mi_stop_creq s0 s : MR s0 s -> wm (stop_creq rec) s0 s.
Proof. intro A. unfold stop_creq. m_walk l8. all: m_done. Qed.
Lemma mi_stop_proc s0 s : MR s0 s -> wm (stop_proc rec) s0 s.
Proof. intro A. unfold stop_proc. m_walk l8. all: m_done. Qed.
Lemma mi_api_stop s0 s : MR s0 s -> wm (api_stop rec) s0 s.
Proof. intro A. unfold api_stop. m_walk l8. all: m_done. Qed.
Lemma mi_api_shutdown s0 s : MR s0 s -> wm (api_shutdown rec) s0 s.
Proof.
  intro A. unfold api_shutdown. apply wp_bind, wp_get. cbn beta iota.
  destruct (negb (is_some (s_startd s)) || s_shutd s) eqn:SH0.
  - apply wp_bind, wu_emit. cbn beta iota. apply wu_emit. exact A.
  - apply wp_bind, wp_upd. cbn beta iota.
    match goal with |- wp _ _ _ _ ?x => set (s2 := x) end.
    assert (A2 : MR s0 s2) by (subst s2; destruct (s_maxatt s =? 0); m_from A).
    clearbody s2. clear A.
    apply wp_bind, wp_try.
    eapply wp_call with (Q0 := fun _ _ s3 => MR s0 s3).
    { destruct (s_proc s) as [[[l rs] c]|].
      - apply wp_upd. m_from A2.
      - eapply wp_conseq; [ apply (Hrec KCommitAndStop s2) |]. intros ? ? s3 [H _]. eapply M_trans; eauto. }
    intros r3 [] s3 A3. cbn beta iota. apply wp_bind, wp_get. cbn beta iota. apply wp_bind, wp_upd. cbn beta iota.
    match goal with |- wp _ _ _ _ ?x => set (s4 := x) end.
    assert (A4 : MR s0 s4) by (subst s4; m_from A3).
    clearbody s4. clear A3.
    destruct r3.
    + apply wp_bind. nx_flush. apply wu_emit. exact A4.
    + apply wu_emit. exact A4.
Qed.
Ltac l9 := idtac; first [ l8 | lazymatch goal with
  | |- wp _ (stop_creq _) _ _ _ => m_lem mi_stop_creq
  | |- wp _ (stop_proc _) _ _ _ => m_lem mi_stop_proc
  | |- wp _ (api_stop _) _ _ _ => m_lem mi_api_stop
  | |- wp _ (api_shutdown _) _ _ _ => m_lem mi_api_shutdown end ].

(* stop(): MR holds of its result, and when it returns normally the start Deferred is gone *)
Lemma kstop_none s : wu (body rec KStop) (fun r _ s' => r = Ok tt -> s_startd s' = None) tt s.
Proof.
  cbn [body]. unfold stop_startd.
  repeat (first [ nx_emit | wp_step ltac:(idtac; lazymatch goal with
    | |- wp _ (match _ with _ => _ end) _ _ _ => fail
    | |- wp _ (if _ then _ else _) _ _ _ => fail
    | |- wp _ ?m _ _ _ => eapply wp_call; [ apply wu_of with (F := fun _ _ => True); auto | intros [[]|?] [] ? _; cbn beta iota ]
    end) ]).
  all: try (intro C; discriminate C). all: intros _; psimpl; reflexivity.
Qed.
Lemma mi_body_KStop s : wm (body rec KStop) s s.
Proof.
  cbn [body]. apply wp_bind, wp_get. cbn beta iota. destruct (s_startd s) eqn:SD; [| apply wp_raise; apply M_refl].
  apply wp_bind, wp_upd. cbn beta iota.
  assert (A : MR s (set_stopping true s)) by (clear; m_brute).
  apply wp_bind.
  eapply wp_call; [ apply mi_stop_req; reflexivity |].
  intros r [] s1 [H S1]. apply (M_trans _ _ _ A) in H. clear A. rename H into A. destruct r; cbn beta iota; [| exact A].
  unfold stop_startd. m_walk l9. all: m_done.
Qed.
Lemma mi_body_KShutFinish fk s : wm (body rec (KShutFinish fk)) s s.
Proof.
  cbn [body]. pose proof (M_refl s) as A. apply wp_bind, wp_get. cbn beta iota.
  destruct (s_stopping s || negb (is_some (s_startd s))) eqn:D; [ m_walk l9; m_done |].
  match goal with |- wp _ (if ?b then _ else _) _ _ _ => destruct b end; [ m_walk l9; m_done |].
  apply wp_bind, wp_upd. cbn beta iota.
  assert (A1 : MR s (set_shutd false s)) by (clear; m_brute). clear A.
  apply wp_bind.
  eapply wp_call; [ apply (Hrec KStop) |].
  intros r [] s2 [H HK]. apply (M_trans _ _ _ A1) in H. clear A1. destruct r as [[]|k]; cbn beta iota; [| exact H].
  specialize (HK eq_refl eq_refl).
  apply wp_bind, wp_upd. cbn beta iota.
  assert (A : MR s (set_shutting false s2)).
  { unfold MR, startd_unfired. psimpl. rewrite HK. split; intro C; discriminate C. }
  clear H. m_walk l9. all: m_done.
Qed.

Definition UA (s0 s : state) : Prop := startd_unfired s = true -> startd_unfired s0 = true.
Lemma MR_UA a b : MR a b -> UA a b. Proof. intros [H _]. exact H. Qed.
Lemma UA_trans a b c : UA a b -> UA b c -> UA a c. Proof. unfold UA. auto. Qed.
Lemma MR_dead s0 s : startd_unfired s = false -> MR s0 s.
Proof. intro D. split; intro C; rewrite D in C; discriminate C. Qed.
Lemma UA_Fresh a b c : UA a b -> Fresh b c -> MR a c.
Proof. intros H [F1 F2]. split; [ intro C; apply H, F1, C | intros C _; apply F2, C ]. Qed.

(* _handle_fetch_response: the request is forgotten, the messages are handed on, and at the end the refetch is armed
   (or the start Deferred has failed, or the consumer is stopping / shutting down) *)
Lemma mi_body_KFetchResp offs ts s : wm (body rec (KFetchResp offs ts)) s s.
Proof.
  cbn [body]. apply wp_bind, wp_upd. cbn beta iota. apply wp_bind, wp_get. cbn beta iota. psimpl.
  destruct (s_mblock s) eqn:MB.
  - apply wp_upd. clear. m_brute.
  - apply wp_bind, wp_upd. cbn beta iota. destruct (extract (s_foff s) offs) as [msgs foff'].
    apply wp_bind, wp_upd. cbn beta iota.
    match goal with |- wp _ _ _ _ ?x => set (s1 := x) end.
    assert (B1 : UA s s1) by (unfold UA, startd_unfired; subst s1; psimpl; auto).
    assert (C1 : s_cf s1 = s_cf s /\ s_buf s1 = s_buf s) by (subst s1; psimpl; auto).
    clearbody s1. apply wp_bind.
    eapply wp_call with (Q0 := fun r _ s2 => exists x, r = Ok x /\ UA s s2 /\ (x <> Ok false -> startd_unfired s2 = false)).
    { destruct ts; [ destruct (grow_buffer (s_buf s) (c_maxbuf (s_cf s))) |].
      - apply wp_bind, wp_upd. cbn beta iota. apply wp_ret. eexists. split; [reflexivity|]. split; [| intro C; congruence ].
        unfold UA, startd_unfired in *. psimpl. exact B1.
      - apply wp_bind, wp_try. eapply wp_call; [ apply mi_startd_errback |]. intros r [] s2 [H D]. cbn beta iota.
        apply wp_ret. eexists. split; [reflexivity|]. split; [| intros _; exact D ].
        eapply UA_trans; [ exact B1 | apply MR_UA; exact H ].
      - apply wp_ret. eexists. split; [reflexivity|]. split; [ exact B1 | intro C; congruence ]. }
    intros r [] s2 (x & -> & B2 & D2). cbn beta iota. apply wp_bind.
    eapply wp_call with (Q0 := fun r _ s3 => r = Ok tt /\ UA s s3 /\ (x <> Ok false -> startd_unfired s3 = false)).
    { destruct msgs as [|m ms].
      - apply wp_ret. split; [reflexivity|]. split; assumption.
      - apply wp_bind, wp_upd. cbn beta iota. apply wp_swallow.
        eapply wp_conseq; [ apply (Hrec (KProcLoop (m :: ms))) |]. intros r [] s3 [H _]. apply MR_UA in H.
        assert (H' : UA s2 s3) by (unfold UA, startd_unfired in *; psimpl; exact H).
        split; [reflexivity|]. split; [ eapply UA_trans; eauto |]. intro C. specialize (D2 C).
        destruct (startd_unfired s3) eqn:U3; [| reflexivity]. rewrite (H' U3) in D2. discriminate D2. }
    intros r [] s3 (-> & B3 & D3). cbn beta iota.
    destruct x as [[]|k].
    + apply wp_ret. apply MR_dead. apply D3. intro C; discriminate C.
    + eapply wp_conseq; [ apply mi_retry_fetch |]. intros r [] s4 H. eapply UA_Fresh; eauto.
    + apply wp_raise. apply MR_dead. apply D3. intro C; discriminate C.
Qed.

Lemma mi_body_KStopCds s : wm (body rec KStopCds) s s.
Proof. cbn [body]. pose proof (M_refl s) as A. m_walk l9. all: m_done. Qed.
Lemma mi_body_KFireProc fk s : wm (body rec (KFireProc fk)) s s.
Proof. cbn [body]. pose proof (M_refl s) as A. m_walk l9. all: m_done. Qed.
Lemma mi_body_KProcLoop msgs s : wm (body rec (KProcLoop msgs)) s s.
Proof. cbn [body]. pose proof (M_refl s) as A. m_walk l9. all: m_done. Qed.
Lemma mi_body_KCommitAndStop s : wm (body rec KCommitAndStop) s s.
Proof. cbn [body]. pose proof (M_refl s) as A. m_walk l9. all: m_done. Qed.
Lemma mi_body_KFireCd d r s : wm (body rec (KFireCd d r)) s s.
Proof. cbn [body]. pose proof (M_refl s) as A. m_walk l9. all: m_done. Qed.
Lemma mi_body_KDeliver r s : wm (body rec (KDeliver r)) s s.
Proof. cbn [body]. pose proof (M_refl s) as A. m_walk l9. all: m_done. Qed.

Lemma mi_body k s : wu (body rec k) (fun r _ s' => KPost k s r s') tt s.
Proof.
  assert (T : forall k', k' <> KStop -> wm (body rec k') s s -> wu (body rec k') (fun r _ s' => KPost k' s r s') tt s).
  { intros k' N H. eapply wp_conseq; [ exact H |]. intros r [] s' HM. split; [ exact HM | intro C; contradiction ]. }
  destruct k.
  - eapply wp_conseq; [ apply wp_and; [ apply mi_body_KStop | apply kstop_none ] |].
    intros r [] s' [H1 H2]. split; [ exact H1 | intros _; exact H2 ].
  - apply T; [ discriminate | apply mi_body_KStopCds ].
  - apply T; [ discriminate | apply mi_body_KFireProc ].
  - apply T; [ discriminate | apply mi_body_KProcLoop ].
  - apply T; [ discriminate | apply mi_body_KFetchResp ].
  - apply T; [ discriminate | apply mi_body_KCommitAndStop ].
  - apply T; [ discriminate | apply mi_body_KShutFinish ].
  - apply T; [ discriminate | apply mi_body_KFireCd ].
  - apply T; [ discriminate | apply mi_body_KDeliver ].
Qed.
End Rec.

Lemma mi_run fuel : forall k s, wu (run fuel k) (fun r _ s' => KPost k s r s') tt s.
Proof.
  induction fuel as [|f IH]; intros k s; cbn [run].
  - apply wu_of. intros r s' o E F. unfold bind, emit, raise in E. inversion E; subst. discriminate.
  - apply mi_body; assumption.
Qed.

(* ---------------- events ---------------- *)
Definition NI (s : state) : Prop := startd_unfired s = true -> Lb s = true.
Lemma NI_MR s s' : NI s -> MR s s' -> NI s'.
Proof. intros N [A1 A2] U. apply A2; [exact U|]. apply N, A1, U. Qed.
Lemma NI_Fresh s s' : Fresh s s' -> NI s'.
Proof. intros [_ A2]. exact A2. Qed.

Lemma mi_do_fetch s : wu do_fetch (fun _ _ s' => NI s') tt s.
Proof.
  unfold do_fetch. apply wp_bind, wp_get. cbn beta iota.
  destruct (s_req s) eqn:RQ; [ apply wp_ret; intros _; unfold Lb; rewrite RQ; reflexivity |].
  repeat (first [ nx_emit | wp_step ltac:(idtac; lazymatch goal with
    | |- wp _ (startd_errback _) _ _ _ => eapply wp_call; [ apply mi_startd_errback | intros [[]|?] [] ? [HM HD]; cbn beta iota ]
    end) ]).
  all: try solve [ intros _; unfold Lb; psimpl; reflexivity ].
  all: intro C; rewrite HD in C; discriminate C.
Qed.

Ltac ni_cur st :=
  lazymatch goal with
  | B : NI st |- _ => idtac
  | B : NI _ |- _ => let B' := fresh "B" in
      assert (B' : NI st) by (unfold NI, Lb, startd_unfired in *; psimpl; exact B); clear B
  end.
Ltac ni_done := try solve [ match goal with B : NI _ |- NI _ => unfold NI, Lb, startd_unfired in *; psimpl; exact B end ].

Lemma mi_handle fuel e s : NI s -> wu (handle fuel e) (fun _ _ s' => NI s') tt s.
Proof.
  intro B. pose proof (mi_run fuel) as Hrec.
  assert (RK : forall k s1, NI s1 -> wu (run fuel k) (fun _ _ s' => NI s') tt s1).
  { intros k s1 N. eapply wp_conseq; [ apply Hrec |]. intros r [] s' [H _]. eapply NI_MR; eauto. }
  unfold handle. cbn zeta. apply wp_bind, wp_get. cbn beta iota.
  destruct e.
  - (* start() *) destruct (s_startd s) eqn:SD; [ apply wu_emit; exact B |].
    apply wp_bind, wp_upd. cbn beta iota. apply wp_bind, wp_try. clear B.
    eapply wp_call with (Q0 := fun _ _ s2 => NI s2).
    { apply wp_bind. eapply wp_call; [ apply mi_do_fetch |]. intros r [] s1 B. destruct r; cbn beta iota; [| exact B].
      destruct (c_group (s_cf s) && c_acs (s_cf s)).
      - apply wp_bind, wp_upd. cbn beta iota. apply wu_emit. ni_done.
      - apply wp_ret. exact B. }
    intros r [] s2 B. unfold flush_pend. destruct r; cbn beta iota.
    + apply wp_bind. apply wp_bind, wp_get. cbn beta iota. apply wp_bind, wp_upd. cbn beta iota.
      nx_flush. apply wu_emit. ni_done.
    + apply wp_bind. apply wp_bind, wp_get. cbn beta iota. apply wp_bind, wp_upd. cbn beta iota.
      apply wp_ret. cbn beta iota. apply wu_emit. ni_done.
  - eapply wp_conseq; [ apply (mi_api_stop (run fuel) Hrec s s (M_refl s)) |]. intros r [] s' H. eapply NI_MR; eauto.
  - eapply wp_conseq; [ apply (mi_api_shutdown (run fuel) Hrec s s (M_refl s)) |]. intros r [] s' H. eapply NI_MR; eauto.
  - eapply wp_conseq; [ apply mi_api_commit |]. intros r [] s' H. eapply NI_MR; eauto.
  - (* offset reply *) destruct (s_req s) as [[kd []]|] eqn:RQ; try (apply wu_emit; exact B).
    destruct ((kd =? R_OFFREQ) || (kd =? R_OFFFETCH)); [| apply wu_emit; exact B ].
    apply wp_bind, wp_upd. cbn beta iota. apply wp_swallow. unfold handle_offset_response.
    apply wp_bind, wp_upd. cbn beta iota. apply wp_bind, wp_get. cbn beta iota. apply wp_bind.
    repeat match goal with |- wp _ (if ?b then _ else _) _ _ _ => destruct b end.
    all: apply wp_upd; cbn beta iota; apply mi_do_fetch.
  - (* fetch reply *) destruct (s_req s) as [[kd []]|] eqn:RQ; try (apply wu_emit; exact B).
    destruct (kd =? R_FETCH); [| apply wu_emit; exact B ].
    apply wp_bind, wp_upd. cbn beta iota. apply wp_bind, wp_try.
    eapply wp_call; [ apply (Hrec (KFetchResp offs ts)) |].
    intros r [] s2 [H _]. cbn beta iota.
    assert (B2 : NI s2).
    { destruct H as [_ A2]. intro U. apply A2; [exact U|]. unfold Lb. psimpl. reflexivity. }
    destruct r as [[]|k]; [ apply wp_ret; exact B2 |].
    apply wp_swallow. eapply wp_conseq; [ apply mi_handle_fetch_error |]. intros r [] s3 H3. eapply NI_Fresh; eauto.
  - (* failed request *) destruct (s_req s) as [[kd []]|] eqn:RQ; try (apply wu_emit; exact B).
    apply wp_bind, wp_upd. cbn beta iota. apply wp_swallow.
    destruct (kd =? R_FETCH).
    + eapply wp_conseq; [ apply mi_handle_fetch_error |]. intros r [] s3 H3. eapply NI_Fresh; eauto.
    + eapply wp_conseq; [ apply mi_handle_offset_error |]. intros r [] s3 H3. eapply NI_Fresh; eauto.
  - apply wp_upd. ni_done.
  - destruct (s_proc s); [| apply wu_emit; exact B ]. apply wp_swallow. apply RK. exact B.
  - destruct (s_creq s) as [[[? ?] ?]|]; [| apply wu_emit; exact B ].
    apply wp_bind, wp_upd. cbn beta iota. apply wp_swallow. apply RK. ni_done.
  - destruct (s_creq s) as [[[? ?] ?]|]; [| apply wu_emit; exact B ].
    apply wp_bind, wp_upd. cbn beta iota. apply wp_swallow.
    eapply wp_conseq; [ apply (mi_handle_commit_error (run fuel) Hrec _ _ _ _ _ (M_refl _)) |].
    intros r [] s' H. eapply NI_MR; [| exact H]. ni_done.
  - (* refetch timer *) destruct (s_rcall s) as [st|] eqn:RC; [| apply wu_emit; exact B ].
    destruct (st =? 0); [| apply wu_emit; exact B ].
    apply wp_bind, wp_upd. cbn beta iota. apply wp_bind, wp_try.
    eapply wp_call; [ apply mi_do_fetch |]. intros r [] s1 B1. destruct r as [[]|k]; cbn beta iota.
    + apply wp_ret. exact B1.
    + apply wu_emit. exact B1.
  - destruct (s_ccall s) as [[[st ?] ?]|]; [| apply wu_emit; exact B ].
    destruct (st =? 0); [| apply wu_emit; exact B ].
    apply wp_bind, wp_upd. cbn beta iota. apply wp_bind, wp_try.
    eapply wp_call; [ apply mi_send_commit_request |]. intros r [] s1 H. cbn beta iota.
    assert (B1 : NI s1) by (eapply NI_MR; [| exact H]; ni_done).
    destruct r as [[]|k]; [ apply wp_ret; exact B1 | apply wu_emit; exact B1 ].
  - destruct (s_looper s) as [[]|]; try (apply wu_emit; exact B).
    apply wp_bind, wp_upd. cbn beta iota. apply wp_bind, wp_swallow.
    eapply wp_call; [ apply mi_auto_commit |]. intros r [] s1 H. cbn beta iota.
    assert (B1 : NI s1) by (eapply NI_MR; [| exact H]; ni_done).
    apply wp_bind, wp_get. cbn beta iota. destruct (s_looper s1).
    + apply wp_bind, wp_upd. cbn beta iota. apply wu_emit. clear - B1. unfold NI, Lb, startd_unfired in *. psimpl. exact B1.
    + apply wp_ret. exact B1.
Qed.

Lemma ni_step fuel s e s' o : NI s -> step fuel s e = (s', o) -> fuel_ok o = true -> NI s'.
Proof.
  intros B E F. unfold step in E.
  destruct ((handle fuel e;;; s'0 <- get;; emit (OEnd (s_lp s'0) (s_lc s'0))) s) as [[r s1] o1] eqn:E1.
  inversion E; subst s1 o1; clear E.
  assert (W : wu (handle fuel e;;; s'0 <- get;; emit (OEnd (s_lp s'0) (s_lc s'0))) (fun _ _ s2 => NI s2) tt s).
  { apply wp_bind. eapply wp_call; [ apply mi_handle; exact B |].
    intros r0 [] s0 H0. destruct r0; cbn beta iota; [| exact H0].
    apply wp_bind, wp_get. cbn beta iota. apply wu_emit. exact H0. }
  destruct (W _ _ _ E1 F) as (_ & _ & H). exact H.
Qed.

(* never idle: between two events of any run, a consumer whose start Deferred has not fired and which is not shutting
   down has an offset / fetch request outstanding (possibly answered and parked behind the processor: then its
   Deferred is still recorded) or a refetch timer armed *)
Theorem never_idle fuel c maxatt buf evs :
  run_fuel_ok fuel c maxatt buf evs = true ->
  let s := fst (run_events fuel (init c maxatt buf) evs) in
  startd_unfired s = true -> s_shutting s = false -> (is_some (s_req s) || rcall_active s) = true.
Proof.
  intro F. unfold run_fuel_ok in F.
  assert (GEN : forall evs s, ConsumerRun.Reach maxatt s -> NI s ->
            forallb (fun t => match t with (_, _, o, _) => fuel_ok o end) (run_steps fuel s evs) = true ->
            ConsumerRun.Reach maxatt (fst (run_events fuel s evs)) /\ NI (fst (run_events fuel s evs))).
  { clear. induction evs as [|e evs IH]; intros s R B F; cbn [run_steps run_events fst].
    - auto.
    - cbn [run_steps] in F. destruct (step fuel s e) as [s1 o1] eqn:E. cbn [forallb] in F.
      apply andb_prop in F. destruct F as [F1 F2].
      pose proof (ConsumerRun.reach_step maxatt fuel s e s1 o1 R E F1) as R1.
      pose proof (ni_step fuel s e s1 o1 B E F1) as B1.
      destruct (IH s1 R1 B1 F2) as [R2 B2]. destruct (run_events fuel s1 evs) as [s2 o2]. auto. }
  destruct (GEN evs _ (ConsumerRun.reach_init maxatt c buf) (fun C => ltac:(discriminate C)) F) as [((HJ & ST) & _) B].
  cbn zeta. intros U SH. specialize (B U). unfold Lb in B. rewrite ST, SH, !orb_false_r in B.
  destruct (is_some (s_req _)); [reflexivity|]. cbn [orb] in *.
  unfold rcall_active. destruct (s_rcall _) as [st|] eqn:RC; [| discriminate B].
  destruct (st =? 0) eqn:Z0; [reflexivity|].
  assert (STALE : rcall_stale (fst (run_events fuel (init c maxatt buf) evs)) = true) by (unfold rcall_stale; rewrite RC, Z0; reflexivity).
  destruct (ConsumerInv.j3 _ _ HJ STALE) as [C|C].
  - unfold startd_unfired in U. rewrite C in U. discriminate U.
  - rewrite ST in C. discriminate C.
Qed.
