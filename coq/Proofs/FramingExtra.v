(* Corollaries of Proofs/FramingFacts.v in the form quoted by Props/C06.v. *)
From AV Require Import Base.Util Model.Framing Proofs.FramingFacts.

Theorem chunking_invariance0 ok chunks fs r : parse ok (concat chunks) = (fs, RxMore r) ->
  concat (map fst (fst (rx_run ok [] chunks))) = fs /\ snd (rx_run ok [] chunks) = r
  /\ Forall (fun x => exists rest, snd x = RxMore rest) (fst (rx_run ok [] chunks)).
Proof. intro H. apply (chunk_invariance ok chunks [] fs r); [reflexivity | exact H]. Qed.

Theorem receiver_total ok buf chunk fs : data_received ok buf chunk <> (fs, RxFuel).
Proof. rewrite data_received_parse. apply parse_no_fuel. Qed.

(* "after the limit was hit nothing at all is handed to the handler" is false of the faithful model (and of Twisted) *)
Theorem length_limit_strict_refuted : exists frames len tail chunks,
  Forall (fun f => ok4 f = true /\ Z.of_nat (length f) <= MAX_LENGTH) frames
  /\ MAX_LENGTH < len < 4294967296
  /\ concat chunks = concat (map encode_frame frames) ++ enc32 len ++ tail
  /\ exists first later, fst (rx_run ok4 [] chunks) = first :: later
       /\ snd first = RxLimit len /\ exists r, In r later /\ fst r <> [].
Proof.
  exists [[0; 0; 0; 2]], 2147483648, [9], [[0; 0; 0; 4; 0; 0; 0; 2; 128; 0; 0; 0]; [9]].
  split; [repeat constructor; vm_compute; discriminate|].
  split; [vm_compute; split; reflexivity|]. split; [reflexivity|].
  eexists. eexists. split; [vm_compute; reflexivity|]. split; [reflexivity|].
  eexists. split; [left; reflexivity|]. discriminate.
Qed.

(* every reachable receive buffer of a receiver that never aborted is irreducible: in particular the empty one *)
Lemma irreducible_nil4 : irreducible ok4 [].
Proof. apply irreducible_nil. Qed.
