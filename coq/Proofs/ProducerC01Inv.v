(* The step summary of every event of Model/Producer.v, and the invariant of its runs. *)
From AV Require Import Base.Util Model.Producer Proofs.ProducerBase Proofs.ProducerC01Spec Proofs.ProducerC01Lists
  Proofs.ProducerC01Fires Proofs.ProducerC01Batch Proofs.ProducerC01Step.
From Coq Require Import Lia.

Arguments K_BROKER : simpl never.

Definition newid (s : state) (e : event) : list Z := if takes_id e then [nsend s] else [].
Definition newrec (s : state) (e : event) : list send :=
  match e with
  | ESend t ch cnt b =>
      if (cnt <? 1) || (b <? 0) || stopping s then []      (* bad arguments, or refused: the producer is stopping *)
      else [{| s_id := nsend s; s_topic := t; s_choice := ch; s_cnt := cnt; s_bytes := b |}]
  | _ => []
  end.
Definition plus (s : state) (e : event) : state := set_outstanding s (outstanding s ++ newid s e).

Definition prod_step (s s' : state) (o : list output) : Prop :=
  match ph s' with
  | Sending pls cur => (ph s = Sending pls cur /\ no_prod o) \/ (forall acc, last_prod o acc = Some (viewf pls cur))
  | _ => True
  end.

Definition justified (c : cfg) (s : state) (e : event) (o : list output) : Prop :=
  forall sid oc, In (OOutcome sid oc) o -> is_success oc = true ->
  exists pls cur v, ph s = Sending pls cur /\ value_of e = Some v /\ just c pls cur v sid oc.

Record ssum (c : cfg) (s : state) (e : event) (s' : state) (o : list output) : Prop := {
  u_fires : fires (plus s e) s' o;
  u_incl : forall x, In x (live s') -> In x (live s) \/ In x (newrec s e);
  u_keep : forall x, In x (live s) \/ In x (newrec s e) -> In (s_id x) (outstanding s') -> In x (live s');
  u_wf : phase_wf s';
  u_prod : prod_step s s' o;
  u_nsend : nsend s' = nsend s + (if takes_id e then 1 else 0);
  u_stop : stopping s' = true -> ph s' = Idle;
  u_new : forall sid, In sid (newid s e) -> In sid (outstanding s') -> exists x, In x (newrec s e) /\ s_id x = sid;
  u_just : justified c s e o }.

Lemma all_fail_justified : forall c s e o, all_fail o -> justified c s e o.
Proof. intros c s e o A sid oc I S. apply A in I as (k & f & ->). discriminate. Qed.

(* what the invariant supplies to a step *)
Record pre (s : state) : Prop := {
  p_wf : phase_wf s;
  p_stop : stopping s = true -> ph s = Idle;
  p_out : forall sid, In sid (outstanding s) -> sid < nsend s;
  p_live : forall x, In x (live s) -> s_id x < nsend s;
  p_ok : broken s = false }.        (* building / handing over requests works: outside it, finding F-C01-5 *)

(* ------------------------------------------------------------------ events that take no id: from a stepsum *)
Lemma ssum_of_stepsum : forall c s e s' o, takes_id e = false ->
  stepsum s s' o -> (stopping s' = true -> ph s' = Idle) -> justified c s e o -> ssum c s e s' o.
Proof.
  intros c s e s' o T [F I K W P N S] ST J.
  assert (NR : newrec s e = []) by (destruct e; simpl in *; auto; discriminate).
  constructor; auto.
  - eapply fires_eq_out; [|exact F]. unfold plus, newid; rewrite T; simpl. symmetry; apply app_nil_r.
  - intros x H. rewrite NR in H. apply K. destruct H as [H|[]]; auto.
  - rewrite T; lia.
  - unfold newid; rewrite T. intros ? [].
Qed.

Lemma stepsum_same : forall s s', outstanding s' = outstanding s -> ph s' = ph s -> queue s' = queue s ->
  nsend s' = nsend s -> stopping s' = stopping s -> phase_wf s -> stepsum s s' [].
Proof.
  intros s s' O P Q N S W. constructor; auto.
  - apply fires_same; auto.
  - unfold live; rewrite P, Q; apply incl_refl.
  - unfold live; rewrite P, Q; auto.
  - unfold phase_wf in *. rewrite P. destruct (ph s); auto; (destruct W; split; auto;
    eapply clear_mono; [|eauto]; rewrite O; apply incl_refl).
  - rewrite P. destruct (ph s); auto. left; split; auto. constructor.
Qed.

Lemma stepsum_refl : forall s, phase_wf s -> stepsum s s [].
Proof. intros; apply stepsum_same; auto. Qed.

(* a batch helper, then the epilogue; the batch was in flight, so the producer is not stopping *)
Lemma batch_ssum : forall c B s e s2 o2 done s' o',
  takes_id e = false -> pre s -> ph s <> Idle -> bsum B s s2 o2 done -> batch_sends (ph s) = B ->
  apply_epi c s2 (if done then Fin else NoEpi) = (s', o') -> justified c s e o2 ->
  ssum c s e s' (o2 ++ o').
Proof.
  intros c B s e s2 o2 done s' o' T PR NI BS PB H J.
  destruct (batch_step _ _ _ _ _ _ _ _ (p_ok _ PR) BS PB H) as [SS AF].
  apply ssum_of_stepsum; auto.
  - intros ST. rewrite (ss_stop _ _ _ SS) in ST. apply (p_stop _ PR) in ST. contradiction.
  - intros sid oc I S. apply in_app_or in I as [I|I]; [eapply J; eauto|].
    apply AF in I as (k & f & ->); discriminate.
Qed.

(* ------------------------------------------------------------------ stop() *)
Lemma cancel_lookups_done : forall c reqs ls s s1 o1 ls1,
  stopping s = true -> length ls = length reqs ->
  map_lookups (fun st x l =>
          match l with
          | LDone _ => None
          | LLoad _ => Some (lookup_loaded c st x)
          | LTimer tid => Some (st, [OCancelTimer tid], LDone (LFail K_TIDCANCEL))
          end) s reqs ls = (s1, o1, ls1) ->
  exists res, all_done ls1 = Some res /\ length res = length reqs.
Proof.
  induction reqs as [|x r IH]; simpl; intros ls s s1 o1 ls1 ST L H.
  - destruct ls; [|discriminate]. inv H. exists []; auto.
  - destruct ls as [|l ls]; [discriminate|]. simpl in L. assert (L' : length ls = length r) by lia.
    destruct l as [res0|lid|tid].
    + destruct (map_lookups _ s r ls) as [[s2 o2] ls2] eqn:E. inv H.
      destruct (IH _ _ _ _ _ ST L' E) as (res & A & B). exists (res0 :: res). unfold all_done in *; simpl. rewrite A; simpl; auto.
    + destruct (lookup_loaded c s x) as [[s0 o0] l0] eqn:E0.
      destruct (map_lookups _ s0 r ls) as [[s2 o2] ls2] eqn:E. inv H.
      assert (ST0 : stopping s0 = true).
      { apply lookup_loaded_xl in E0 as [X _]. apply eq_xl_keeps in X. destruct X; congruence. }
      destruct (IH _ _ _ _ _ ST0 L' E) as (res & A & B).
      unfold lookup_loaded in E0. rewrite ST in E0. inv E0.
      exists (LFail K_TIDCANCEL :: res). unfold all_done in *; simpl. rewrite A; simpl; auto.
    + destruct (map_lookups _ s r ls) as [[s2 o2] ls2] eqn:E. inv H.
      destruct (IH _ _ _ _ _ ST L' E) as (res & A & B).
      exists (LFail K_TIDCANCEL :: res). unfold all_done in *; simpl. rewrite A; simpl; auto.
Qed.

Lemma check_retry_stopping : forall c s pls fl s1 o1 done,
  stopping s = true -> check_retry c s pls fl = (s1, o1, done) -> done = true.
Proof.
  unfold check_retry; intros c s pls fl s1 o1 done ST H. rewrite ST, orb_true_r in H.
  destruct (deliver_failed s pls fl); inv H; auto.
Qed.

Lemma handle_result_stopping : forall c s pls cur v s1 o1 done,
  stopping s = true -> handle_result c s pls cur v = (s1, o1, done) -> done = true.
Proof.
  unfold handle_result; intros c s pls cur v s1 o1 done ST H. destruct v as [|rs|rs fs|k|k].
  - destruct (deliver s (all_sends pls) _); inv H; auto.
  - destruct (process_resps s pls rs) as [[s2 o2] f2] eqn:E. apply process_resps_xo in E as [X _].
    apply eq_xo_keeps in X. destruct f2; [inv H; auto|].
    destruct (check_retry c s2 pls _) as [[s3 o3] d3] eqn:E3. inv H.
    eapply check_retry_stopping; [|eauto]. destruct X; congruence.
  - destruct (if c_acks c =? 0 then _ else _) as [s0 o0] eqn:E0.
    assert (K0 : keeps_q s s0).
    { destruct (c_acks c =? 0); [apply deliver_xo in E0 as [X _]; apply eq_xo_keeps; auto|inv E0; apply keeps_q_refl]. }
    destruct (process_resps s0 pls rs) as [[s2 o2] f2] eqn:E. apply process_resps_xo in E as [X _].
    apply eq_xo_keeps in X.
    destruct (check_retry c s2 pls _) as [[s3 o3] d3] eqn:E3. inv H.
    eapply check_retry_stopping; [|eauto]. destruct X, K0; congruence.
  - eapply check_retry_stopping; eauto.
  - destruct (deliver s (all_sends pls) _); inv H; auto.
Qed.

Lemma cancel_batch_sum : forall c s cv s1 o1 done,
  cancel_batch c s cv = (s1, o1, done) -> stopping s = true -> phase_wf s ->
  fires s s1 o1 /\ keeps_q s s1 /\
  (done = false -> ph s = Idle /\ s1 = s /\ o1 = []) /\
  (forall sid oc, In (OOutcome sid oc) o1 -> is_success oc = true ->
     exists pls cur v, ph s = Sending pls cur /\ cv = Some v /\ just c pls cur v sid oc).
Proof.
  unfold cancel_batch; intros c s cv s1 o1 done H ST W. unfold phase_wf in W.
  pose proof (cancel_batch_ok c s cv s1 o1 done) as OK. unfold cancel_batch in OK.
  destruct (ph s) as [|reqs ls|reqs res|pls cur|pls cur tid] eqn:P.
  - inv H. splits; auto using fires_refl, keeps_q_refl. intros ? ? [].
  - specialize (OK H). destruct OK as [K _ _].
    destruct (map_lookups _ s reqs ls) as [[s2 o2] ls2] eqn:E.
    destruct (cancel_lookups_done _ _ _ _ _ _ _ ST W E) as (res & AD & LR).
    apply map_lookups_xl in E as (X & LK & _).
    2:{ intros st x l st' o' l' Hf. destruct l; [discriminate| |].
        - inv Hf. eapply lookup_loaded_xl; eauto.
        - inv Hf. xl_done. }
    destruct (xl_facts _ _ _ X LK) as (F2 & K2 & NP2 & AF2 & P2 & O2).
    assert (ST2 : stopping s2 = true) by (destruct K2; congruence).
    unfold lookups_progress in H. rewrite AD in H. unfold send_requests in H. rewrite ST2 in H. inv H.
    rewrite app_nil_r. splits; auto; try discriminate.
    intros sid oc I S. apply AF2 in I as (k & f & ->); discriminate.
  - specialize (OK H). destruct OK as [K _ _].
    destruct (version_failed_sum _ _ _ _ _ _ H) as ([F _ _ _] & AF).
    unfold version_failed in H. destruct (deliver s reqs _); inv H. splits; auto; try discriminate.
    intros sid oc I S. apply AF in I as (k & f & ->); discriminate.
  - specialize (OK H). destruct OK as [K _ _]. destruct W as [W CL].
    set (v' := match cv with Some v => if result_ok c cur v then v else VOther K_TIDCANCEL | None => VOther K_TIDCANCEL end) in *.
    assert (RO : result_ok c cur v' = true).
    { unfold v'. destruct cv as [v|]; auto. destruct (result_ok c cur v) eqn:R; auto. }
    destruct (handle_result_sum _ _ _ _ _ _ _ _ H RO W CL) as (F & NP & J & D & M). splits; auto.
    + intros ->. apply handle_result_stopping in H; auto. discriminate.
    + intros sid oc I S. exists pls, cur. apply J in I.
      unfold v' in I. destruct cv as [v|].
      * destruct (result_ok c cur v); [exists v; auto|].
        destruct oc; simpl in *; try discriminate; exfalso; [tauto|destruct I as (_ & pl & x & _ & HF & _); exact HF].
      * destruct oc; simpl in *; try discriminate; exfalso; [tauto|destruct I as (_ & pl & x & _ & HF & _); exact HF].
  - destruct (deliver s (all_sends pls) _) as [s2 o2] eqn:E. inv H.
    pose proof (deliver_fires _ _ _ _ _ E) as F. pose proof (deliver_xo _ _ _ _ _ E) as [XO OO]. splits; try discriminate.
    + change (OCancelTimer tid :: o2) with ([OCancelTimer tid] ++ o2). eapply fires_trans; [apply fires_same; reflexivity|exact F].
    + apply eq_xo_keeps; auto.
    + intros sid oc [I|I] S; [inversion I|]. eapply deliver_outs in I as [EQ _]; eauto. subst oc. discriminate.
Qed.
