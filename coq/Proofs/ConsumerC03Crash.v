(* Two lives: a first life of the consumer (any run), process death at any point, a second life started with
   OFFSET_COMMITTED and answered with what the coordinator had stored.  C03_store_is_processed + C03_resume. *)
From Coq Require Import Lia.
From AV Require Import Base.Util Model.Consumer Model.ConsumerLog Model.ConsumerLogFifo Model.ConsumerLogSeg Model.ConsumerLogC03
  Proofs.ConsumerC03Commit Proofs.ConsumerC03CommitRun Proofs.ConsumerC03Resume.

Theorem crash_resume fuel1 c1 maxatt1 buf1 evs1 fuel2 c2 maxatt2 buf2 rest L :
  (* first life: any configuration, any event list, cut anywhere (every prefix of an event list is an event list) *)
  0 <= c_acn c1 -> run_fuel_ok fuel1 c1 maxatt1 buf1 evs1 = true ->
  exists g1, mon_run_s c3_ev c3_out c30 (run_steps fuel1 (init c1 maxatt1 buf1) evs1) = Some g1 /\ c3_inv g1 /\
  forall v, m_store g1 = Some v ->
    (* the stored offset is the last offset of a block the first life processed successfully ... *)
    In v (m_ends g1) /\
    (* ... and a second life that is told v delivers the log from the first entry above v, in order, without gaps *)
    (c_group c2 = true -> 0 <= c_acn c2 -> 0 <= v -> increasing L ->
     run_fuel_ok fuel2 c2 maxatt2 buf2 (EStart OFF_COMMITTED :: EReqOk v :: rest) = true ->
     honest_run L 0 (run_steps fuel2 (init c2 maxatt2 buf2) (EStart OFF_COMMITTED :: EReqOk v :: rest)) ->
     no_resolve (run_steps fuel2 (resumed c2 maxatt2 buf2 v) rest) = true ->
     exists gh, mon_run_s log_ev log_out log0 (run_steps fuel2 (init c2 maxatt2 buf2) (EStart OFF_COMMITTED :: EReqOk v :: rest)) = Some gh
                /\ l_D gh ++ l_g gh = l_E gh
                /\ (forall n, l_nx gh = Some n -> v + 1 <= n /\ l_E gh = seg (v + 1) n L)
                /\ (l_nx gh = None -> l_D gh = [] /\ l_g gh = [])
                /\ (forall x, In x (l_D gh) -> v < x)).
Proof.
  intros A1 F1. destruct (c3_monitor_accepts fuel1 c1 maxatt1 buf1 evs1 A1 F1) as (g1 & H1 & I1 & _).
  exists g1. split; [exact H1|]. split; [exact I1|]. intros v SV.
  split. { pose proof (i_store _ I1) as P. rewrite SV in P. exact P. }
  intros G A2 V HL F2 Hon NR.
  destruct (resume_run fuel2 c2 maxatt2 buf2 v rest L G A2 V HL F2 Hon NR) as (gh & Hg & E & S & N).
  exists gh. split; [exact Hg|]. split; [exact E|]. split; [exact S|]. split; [exact N|].
  intros x X. destruct (l_nx gh) as [n|] eqn:NX.
  - destruct (S n eq_refl) as [_ SE]. assert (In x (l_E gh)) by (rewrite <- E; apply in_or_app; auto).
    rewrite SE in H. unfold seg in H. apply filter_In in H. destruct H as [_ H]. apply andb_prop in H. destruct H as [H _].
    apply Z.leb_le in H. lia.
  - destruct (N eq_refl) as [D _]. rewrite D in X. destruct X.
Qed.
Print Assumptions crash_resume.
