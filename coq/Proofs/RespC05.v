(* C05, part 4: the statements of Props/C05.v in their final form (decode (spec_encode r) = view r, no trailing
   bytes), the facts about dictionaries with unique keys, the refutations for the two layouts afkak does not
   support (Produce v1, Fetch v1) and the concrete values used by the non-vacuity Examples. *)
From Coq Require Import Lia.
From AV Require Import Base.Util Model.Prim Model.Crc Model.MsgSet Model.KafkaSpecResp Model.Responses Model.RespView
     Proofs.PrimFacts Proofs.UtilFacts Proofs.Truncation Proofs.RespPrim Proofs.RespRoundTrip Proofs.RespMsgSet
     Proofs.RespAfkakSet.

Lemma c05_correlation corr rest : i32 corr = true -> get_response_correlation_id (INT32 corr ++ rest) = Ok corr.
Proof. apply correlation_rt. Qed.

Lemma c05_heartbeat r : wf_errcode r = true -> decode_heartbeat_response (enc_heartbeat r) = Ok (se_error r).
Proof. intros H. rewrite <- (app_nil_r (enc_heartbeat r)). now apply errcode_rt. Qed.
Lemma c05_leave r : wf_errcode r = true -> decode_leave_group_response (enc_leave r) = Ok (se_error r).
Proof. intros H. rewrite <- (app_nil_r (enc_leave r)). now apply errcode_rt. Qed.
Lemma c05_sync r :
  wf_sync r = true -> decode_sync_group_response (enc_sync r) = Ok (ss_error r, Some (ss_assignment r)).
Proof. intros H. rewrite <- (app_nil_r (enc_sync r)). now apply sync_rt. Qed.
Lemma c05_coordinator r :
  wf_coordinator r = true -> decode_consumermetadata_response (enc_coordinator r) = Ok (view_coordinator r).
Proof. intros H. rewrite <- (app_nil_r (enc_coordinator r)). now apply coordinator_rt. Qed.
Lemma c05_produce_v0 r :
  wf_produce r = true -> decode_produce_response 0 (enc_produce 0 r) = Some (view_produce r, Ok []).
Proof. intros H. rewrite <- (app_nil_r (enc_produce 0 r)). now apply produce_v0_rt. Qed.
Lemma c05_produce_v2 ver r :
  2 <= ver -> wf_produce r = true -> decode_produce_response ver (enc_produce 2 r) = Some (view_produce r, Ok []).
Proof. intros Hv H. rewrite <- (app_nil_r (enc_produce 2 r)). now apply produce_v2_rt. Qed.
Lemma c05_fetch_v0 depth orc r :
  wf_fetch r = true -> decode_fetch_response 0 depth orc (enc_fetch 0 r) = (view_fetch depth orc r, Ok []).
Proof. intros H. rewrite <- (app_nil_r (enc_fetch 0 r)). now apply fetch_v0_rt. Qed.
Lemma c05_fetch_v2 ver depth orc r :
  2 <= ver -> wf_fetch r = true ->
  decode_fetch_response ver depth orc (enc_fetch 2 r) = (view_fetch depth orc r, Ok []).
Proof. intros Hv H. rewrite <- (app_nil_r (enc_fetch 2 r)). now apply fetch_v2_rt. Qed.
Lemma c05_offsets r : wf_offsets r = true -> decode_offset_response (enc_offsets r) = (view_offsets r, Ok []).
Proof. intros H. rewrite <- (app_nil_r (enc_offsets r)). now apply offsets_rt. Qed.
Lemma c05_commit r : wf_commit r = true -> decode_offset_commit_response (enc_commit r) = (view_commit r, Ok []).
Proof. intros H. rewrite <- (app_nil_r (enc_commit r)). now apply commit_rt. Qed.
Lemma c05_ofetch r : wf_ofetch r = true -> decode_offset_fetch_response (enc_ofetch r) = (view_ofetch r, Ok []).
Proof. intros H. rewrite <- (app_nil_r (enc_ofetch r)). now apply ofetch_rt. Qed.
Lemma c05_metadata r : wf_metadata r = true -> decode_metadata_response (enc_metadata r) = Ok (view_metadata r).
Proof. intros H. rewrite <- (app_nil_r (enc_metadata r)). now apply metadata_rt. Qed.
Lemma c05_join r : wf_join r = true -> decode_join_group_response (enc_join r) = Ok (view_join r).
Proof. intros H. rewrite <- (app_nil_r (enc_join r)). now apply join_rt. Qed.
Lemma c05_subscription r :
  wf_subscription r = true -> decode_join_group_protocol_metadata (enc_subscription r) = Ok (view_subscription r).
Proof. intros H. rewrite <- (app_nil_r (enc_subscription r)). now apply subscription_rt. Qed.
Lemma c05_assignment r :
  wf_assignment r = true -> decode_sync_group_member_assignment (enc_assignment r) = Ok (view_assignment r).
Proof. intros H. rewrite <- (app_nil_r (enc_assignment r)). now apply assignment_rt. Qed.

(* trailing bytes after a response are ignored (all decoders but ApiVersions, which cuts the whole rest of the buffer
   into 6-byte records): one representative statement per decoder shape *)
Lemma c05_trailing_metadata r rest :
  wf_metadata r = true -> decode_metadata_response (enc_metadata r ++ rest) = Ok (view_metadata r).
Proof. apply metadata_rt. Qed.
Lemma c05_trailing_offsets r rest :
  wf_offsets r = true -> decode_offset_response (enc_offsets r ++ rest) = (view_offsets r, Ok rest).
Proof. apply offsets_rt. Qed.

(* ------------------------------------------------------------------ message sets, closed statements *)
Lemma c05_msgset gz orc :
  (forall x, gz_dec orc (gz x) = Ok x) ->
  forall d ts, (kdepth_forest ts < d)%nat -> forallb (wf_ktree gz) ts = true ->
  dec_set_all d orc (enc_kforest gz ts) = Ok (view_log (log_of_forest ts)).
Proof.
  intros Hgz d ts Hd Hwf. unfold dec_set_all. pose proof (msgset_rt gz orc Hgz d ts Hd Hwf) as H.
  unfold decodes in H. now rewrite H.
Qed.

Lemma c05_msgset_lazy gz orc :
  (forall x, gz_dec orc (gz x) = Ok x) ->
  forall d ts, (kdepth_forest ts < d)%nat -> forallb (wf_ktree gz) ts = true ->
  dec_set d orc (enc_kforest gz ts) = (view_log (log_of_forest ts), None).
Proof. intros Hgz d ts Hd Hwf. exact (msgset_rt gz orc Hgz d ts Hd Hwf). Qed.

Lemma c05_msgset_snappy sn orc :
  sn_avail orc = true -> (forall x, sn_dec orc (sn x) = Ok x) ->
  forall d ts, (kdepth_forest ts < d)%nat -> forallb (wf_ktree_c CODEC_SNAPPY sn) ts = true ->
  dec_set_all d orc (enc_kforest sn ts) = Ok (view_log (log_of_forest ts)).
Proof.
  intros Ha Hsn d ts Hd Hwf. unfold dec_set_all. pose proof (msgset_rt_snappy sn orc Ha Hsn d ts Hd Hwf) as H.
  unfold decodes in H. now rewrite H.
Qed.

(* ------------------------------------------------------------------ dictionaries with unique keys lose nothing *)
Section Dict.
  Context {K V : Type}.
  Variable eqb : K -> K -> bool.
  Hypothesis eqb_spec : forall a b, eqb a b = true <-> a = b.

  Lemma dict_set_fresh (d : list (K * V)) k v : ~ In k (map fst d) -> dict_set eqb d k v = d ++ [(k, v)].
  Proof.
    induction d as [|[k' v'] d IH]; intros Hn; [reflexivity|].
    cbn [dict_set]. destruct (eqb k' k) eqn:E.
    - apply eqb_spec in E. subst. exfalso. apply Hn. now left.
    - cbn [app]. f_equal. apply IH. intros Hi. apply Hn. now right.
  Qed.

  Lemma dict_fold_nodup (kvs : list (K * V)) : forall acc,
    NoDup (map fst acc ++ map fst kvs) ->
    fold_left (fun d kv => dict_set eqb d (fst kv) (snd kv)) kvs acc = acc ++ kvs.
  Proof.
    induction kvs as [|[k v] kvs IH]; intros acc Hn; [now rewrite app_nil_r|].
    cbn [fold_left fst snd]. rewrite dict_set_fresh.
    - rewrite IH.
      + now rewrite <- app_assoc.
      + rewrite map_app. cbn [map fst]. rewrite <- app_assoc. exact Hn.
    - cbn [map fst] in Hn. apply NoDup_remove_2 in Hn. intros Hi. apply Hn. apply in_or_app. now left.
  Qed.

  Lemma dict_of_nodup (kvs : list (K * V)) : NoDup (map fst kvs) -> dict_of eqb kvs = kvs.
  Proof. intros H. unfold dict_of. now rewrite dict_fold_nodup. Qed.
End Dict.

Lemma zeqb_spec a b : Z.eqb a b = true <-> a = b.
Proof. apply Z.eqb_eq. Qed.

(* distinct node ids, topic names and (per topic) partition ids: every broker, topic and partition of the response
   is in the result, in order, nothing merged - no [dict_of] in the statement *)
Lemma view_meta_topic_unique t :
  NoDup (map smp_index (smt_parts t)) -> view_meta_topic t = plain_meta_topic t.
Proof.
  intros H. unfold view_meta_topic, plain_meta_topic. f_equal.
  apply (dict_of_nodup Z.eqb zeqb_spec). now rewrite map_map.
Qed.

Lemma c05_metadata_unique r :
  wf_metadata r = true ->
  NoDup (map sb_node (sm_brokers r)) -> NoDup (map smt_name (sm_topics r)) ->
  (forall t, In t (sm_topics r) -> NoDup (map smp_index (smt_parts t))) ->
  decode_metadata_response (enc_metadata r) = Ok (plain_metadata r).
Proof.
  intros H Hb Ht Hp. rewrite c05_metadata by assumption. unfold view_metadata, plain_metadata.
  rewrite (dict_of_nodup Z.eqb zeqb_spec) by now rewrite map_map.
  rewrite (dict_of_nodup zlist_eqb zlist_eqb_eq) by now rewrite map_map.
  do 2 f_equal. apply map_ext_in. intros t I. now rewrite view_meta_topic_unique by now apply Hp.
Qed.

Lemma c05_assignment_unique r :
  wf_assignment r = true -> NoDup (map sas_topic (asg_topics r)) ->
  decode_sync_group_member_assignment (enc_assignment r) = Ok (plain_assignment r).
Proof.
  intros H Hn. rewrite c05_assignment by assumption. unfold view_assignment, plain_assignment. do 2 f_equal.
  apply (dict_of_nodup zlist_eqb zlist_eqb_eq). now rewrite map_map.
Qed.

(* ------------------------------------------------------------------ Message.timestamp_type (see Model.RespView) *)
(* encode then decode with the field at its default 0: the identity, field included *)
Lemma c05_tstype_roundtrip d orc now pm bs off :
  wf_pymessage pm = true -> plain (pm_msg pm) = true ->
  py_encode_message now pm = Ok bs ->
  py_decoded_set (dec_message (dec_set d orc) orc (Some bs) off) = [(off, mk_pymessage (wire_view now (pm_msg pm)) (pm_tstype pm))].
Proof.
  intros Ht Hp He. unfold wf_pymessage in Ht. apply Z.eqb_eq in Ht. unfold py_encode_message in He.
  rewrite (dec_message_intact _ orc now (pm_msg pm) bs off He Hp). rewrite Ht. reflexivity.
Qed.

(* with any other value the message that comes back differs from the one that was encoded *)
Definition tstype_witness : pymessage := mk_pymessage (mkMessage 1 0 (Some [107]) (Some [118]) (Some 5)) 1.
Lemma c05_tstype_refuted :
  wf_pymessage tstype_witness = false /\ plain (pm_msg tstype_witness) = true /\
  exists bs, py_encode_message 0 tstype_witness = Ok bs /\
             py_decoded_set (dec_message (dec_set 1 marker_oracle) marker_oracle (Some bs) 7)
             = [(7, mk_pymessage (pm_msg tstype_witness) 0)] /\
             mk_pymessage (pm_msg tstype_witness) 0 <> tstype_witness.
Proof.
  split; [reflexivity|]. split; [vm_compute; reflexivity|]. eexists. split; [vm_compute; reflexivity|].
  split; [vm_compute; reflexivity|]. intros E. discriminate E.
Qed.

(* against the protocol: attributes bit 3 of a format-1 message IS its timestamp type; the decoder reports 0.
   What is kept: the bit itself stays readable in Message.attributes *)
Lemma c05_tstype_attr_kept rec orc m off :
  wf_kmsg m = true ->
  exists dm, dec_message rec orc (Some (enc_kmsg m)) off = ([(off, dm)], None) /\
             (if (m_magic dm =? 1) then (m_attr dm / 8) mod 2 else 0) = k_tstype m.
Proof.
  intros H. unfold wf_kmsg in H. apply andb_prop in H. destruct H as [Hc Hcodec].
  rewrite dec_message_spec by assumption. unfold dec_payload.
  apply Z.eqb_eq in Hcodec. apply land7_land3 in Hcodec. cbn [Z.land] in Hcodec.
  unfold ATTRIBUTE_CODEC_MASK. rewrite Hcodec. change (0 =? CODEC_NONE) with true. cbv iota.
  eexists. split; [reflexivity|]. reflexivity.
Qed.

Definition tstype_log_append : kmsg := mk_kmsg 1 8 5 (Some [107]) (Some [118]).
Lemma c05_tstype_spec_refuted :
  wf_kmsg tstype_log_append = true /\ k_tstype tstype_log_append = 1 /\
  map (fun op => pm_tstype (snd op))
      (py_decoded_set (dec_message (dec_set 1 marker_oracle) marker_oracle (Some (enc_kmsg tstype_log_append)) 7)) = [0].
Proof. repeat split; vm_compute; reflexivity. Qed.

(* ------------------------------------------------------------------ layouts afkak does not support *)
(* Produce v1 (throttle time, no log_append_time): decode_produce_response(api_version=1) applies the v2 layout *)
Definition produce_v1_witness : s_produce :=
  mk_s_produce 7 [mk_s_produce_topic [116] [mk_s_produce_part 3 0 42 0]] 0.
Lemma c05_produce_v1_refuted :
  wf_produce produce_v1_witness = true /\
  decode_produce_response 1 (enc_produce 1 produce_v1_witness) = Some ([], Err Underflow).
Proof. split; vm_compute; reflexivity. Qed.

(* Fetch v1: no branch of decode_fetch_response assigns num_topics *)
Lemma c05_fetch_v1_refuted depth orc r : decode_fetch_response 1 depth orc (enc_fetch 1 r) = ([], Err NameErr).
Proof. reflexivity. Qed.
