(* C05, part 4: the statements of Props/C05.v in their final form (decode (spec_encode r) = view r, no trailing
   bytes), the facts about dictionaries with unique keys, the refutations for the two layouts afkak does not
   support (Produce v1, Fetch v1) and the concrete values used by the non-vacuity Examples. *)
From Coq Require Import Lia.
From AV Require Import Base.Util Model.Prim Model.Crc Model.MsgSet Model.KafkaSpecResp Model.Responses Model.RespView
     Proofs.PrimFacts Proofs.UtilFacts Proofs.Truncation Proofs.RespPrim Proofs.RespRoundTrip Proofs.RespMsgSet
     Proofs.RespAfkakSet.

Lemma c05_correlation corr rest : i32 corr = true -> get_response_correlation_id (INT32 corr ++ rest) = Ok corr.
Proof. apply correlation_rt. Qed.

Lemma c05_heartbeat r : wf_errcode r = true -> decode_heartbeat_response (enc_heartbeat r) = Ok (se_error r).
Proof. intros H. rewrite <- (app_nil_r (enc_heartbeat r)). now apply errcode_rt. Qed.
Lemma c05_leave r : wf_errcode r = true -> decode_leave_group_response (enc_leave r) = Ok (se_error r).
Proof. intros H. rewrite <- (app_nil_r (enc_leave r)). now apply errcode_rt. Qed.
Lemma c05_sync r :
  wf_sync r = true -> decode_sync_group_response (enc_sync r) = Ok (ss_error r, Some (ss_assignment r)).
Proof. intros H. rewrite <- (app_nil_r (enc_sync r)). now apply sync_rt. Qed.
Lemma c05_coordinator r :
  wf_coordinator r = true -> decode_consumermetadata_response (enc_coordinator r) = Ok (view_coordinator r).
Proof. intros H. rewrite <- (app_nil_r (enc_coordinator r)). now apply coordinator_rt. Qed.
Lemma c05_produce_v0 r :
  wf_produce r = true -> decode_produce_response 0 (enc_produce 0 r) = Some (view_produce r, Ok []).
Proof. intros H. rewrite <- (app_nil_r (enc_produce 0 r)). now apply produce_v0_rt. Qed.
Lemma c05_produce_v2 ver r :
  2 <= ver -> wf_produce r = true -> decode_produce_response ver (enc_produce 2 r) = Some (view_produce r, Ok []).
Proof. intros Hv H. rewrite <- (app_nil_r (enc_produce 2 r)). now apply produce_v2_rt. Qed.
Lemma c05_fetch_v0 depth orc r :
  wf_fetch r = true -> decode_fetch_response 0 depth orc (enc_fetch 0 r) = (view_fetch depth orc r, Ok []).
Proof. intros H. rewrite <- (app_nil_r (enc_fetch 0 r)). now apply fetch_v0_rt. Qed.
Lemma c05_fetch_v2 ver depth orc r :
  2 <= ver -> wf_fetch r = true ->
  decode_fetch_response ver depth orc (enc_fetch 2 r) = (view_fetch depth orc r, Ok []).
Proof. intros Hv H. rewrite <- (app_nil_r (enc_fetch 2 r)). now apply fetch_v2_rt. Qed.
Lemma c05_offsets r : wf_offsets r = true -> decode_offset_response (enc_offsets r) = (view_offsets r, Ok []).
Proof. intros H. rewrite <- (app_nil_r (enc_offsets r)). now apply offsets_rt. Qed.
Lemma c05_commit r : wf_commit r = true -> decode_offset_commit_response (enc_commit r) = (view_commit r, Ok []).
Proof. intros H. rewrite <- (app_nil_r (enc_commit r)). now apply commit_rt. Qed.
Lemma c05_ofetch r : wf_ofetch r = true -> decode_offset_fetch_response (enc_ofetch r) = (view_ofetch r, Ok []).
Proof. intros H. rewrite <- (app_nil_r (enc_ofetch r)). now apply ofetch_rt. Qed.
Lemma c05_metadata r : wf_metadata r = true -> decode_metadata_response (enc_metadata r) = Ok (view_metadata r).
Proof. intros H. rewrite <- (app_nil_r (enc_metadata r)). now apply metadata_rt. Qed.
Lemma c05_join r : wf_join r = true -> decode_join_group_response (enc_join r) = Ok (view_join r).
Proof. intros H. rewrite <- (app_nil_r (enc_join r)). now apply join_rt. Qed.
Lemma c05_subscription r :
  wf_subscription r = true -> decode_join_group_protocol_metadata (enc_subscription r) = Ok (view_subscription r).
Proof. intros H. rewrite <- (app_nil_r (enc_subscription r)). now apply subscription_rt. Qed.
Lemma c05_assignment r :
  wf_assignment r = true -> decode_sync_group_member_assignment (enc_assignment r) = Ok (view_assignment r).
Proof. intros H. rewrite <- (app_nil_r (enc_assignment r)). now apply assignment_rt. Qed.

(* trailing bytes after a response are ignored (all decoders but ApiVersions, which cuts the whole rest of the buffer
   into 6-byte records): one representative statement per decoder shape *)
Lemma c05_trailing_metadata r rest :
  wf_metadata r = true -> decode_metadata_response (enc_metadata r ++ rest) = Ok (view_metadata r).
Proof. apply metadata_rt. Qed.
Lemma c05_trailing_offsets r rest :
  wf_offsets r = true -> decode_offset_response (enc_offsets r ++ rest) = (view_offsets r, Ok rest).
Proof. apply offsets_rt. Qed.

(* ------------------------------------------------------------------ message sets, closed statements *)
Lemma c05_msgset gz orc :
  (forall x, gz_dec orc (gz x) = Ok x) ->
  forall d ts, (kdepth_forest ts < d)%nat -> forallb (wf_ktree gz) ts = true ->
  dec_set_all d orc (enc_kforest gz ts) = Ok (view_log (log_of_forest ts)).
Proof.
  intros Hgz d ts Hd Hwf. unfold dec_set_all. pose proof (msgset_rt gz orc Hgz d ts Hd Hwf) as H.
  unfold decodes in H. now rewrite H.
Qed.

Lemma c05_msgset_lazy gz orc :
  (forall x, gz_dec orc (gz x) = Ok x) ->
  forall d ts, (kdepth_forest ts < d)%nat -> forallb (wf_ktree gz) ts = true ->
  dec_set d orc (enc_kforest gz ts) = (view_log (log_of_forest ts), None).
Proof. intros Hgz d ts Hd Hwf. exact (msgset_rt gz orc Hgz d ts Hd Hwf). Qed.

Lemma c05_msgset_snappy sn orc :
  sn_avail orc = true -> (forall x, sn_dec orc (sn x) = Ok x) ->
  forall d ts, (kdepth_forest ts < d)%nat -> forallb (wf_ktree_c CODEC_SNAPPY sn) ts = true ->
  dec_set_all d orc (enc_kforest sn ts) = Ok (view_log (log_of_forest ts)).
Proof.
  intros Ha Hsn d ts Hd Hwf. unfold dec_set_all. pose proof (msgset_rt_snappy sn orc Ha Hsn d ts Hd Hwf) as H.
  unfold decodes in H. now rewrite H.
Qed.

(* ------------------------------------------------------------------ afkak's own encoder, then its decoder *)
Lemma c05_afkak_gzip_offsets clock k msgs off :
  absolute off (expected clock k msgs 0 0) = map (fun om => (off, snd om)) (expected clock k msgs 0 0).
Proof.
  apply absolute_zero. apply Forall_forall. intros [o m] I.
  assert (Io : In o (map fst (expected clock k msgs 0 0))) by (apply in_map_iff; exists (o, m); auto).
  rewrite expected_zero_offsets in Io. apply in_map_iff in Io. destruct Io as (_ & <- & _). reflexivity.
Qed.

(* ------------------------------------------------------------------ dictionaries with unique keys lose nothing *)
Section Dict.
  Context {K V : Type}.
  Variable eqb : K -> K -> bool.
  Hypothesis eqb_spec : forall a b, eqb a b = true <-> a = b.

  Lemma dict_set_fresh (d : list (K * V)) k v : ~ In k (map fst d) -> dict_set eqb d k v = d ++ [(k, v)].
  Proof.
    induction d as [|[k' v'] d IH]; intros Hn; [reflexivity|].
    cbn [dict_set]. destruct (eqb k' k) eqn:E.
    - apply eqb_spec in E. subst. exfalso. apply Hn. now left.
    - cbn [app]. f_equal. apply IH. intros Hi. apply Hn. now right.
  Qed.

  Lemma dict_fold_nodup (kvs : list (K * V)) : forall acc,
    NoDup (map fst acc ++ map fst kvs) ->
    fold_left (fun d kv => dict_set eqb d (fst kv) (snd kv)) kvs acc = acc ++ kvs.
  Proof.
    induction kvs as [|[k v] kvs IH]; intros acc Hn; [now rewrite app_nil_r|].
    cbn [fold_left fst snd]. rewrite dict_set_fresh.
    - rewrite IH.
      + now rewrite <- app_assoc.
      + rewrite map_app. cbn [map fst]. rewrite <- app_assoc. exact Hn.
    - cbn [map fst] in Hn. apply NoDup_remove_2 in Hn. intros Hi. apply Hn. apply in_or_app. now left.
  Qed.

  Lemma dict_of_nodup (kvs : list (K * V)) : NoDup (map fst kvs) -> dict_of eqb kvs = kvs.
  Proof. intros H. unfold dict_of. now rewrite dict_fold_nodup. Qed.
End Dict.

Lemma zeqb_spec a b : Z.eqb a b = true <-> a = b.
Proof. apply Z.eqb_eq. Qed.

(* distinct node ids / topic names: every broker and every topic of the response is in the result, in order *)
Lemma c05_metadata_unique r :
  wf_metadata r = true ->
  NoDup (map sb_node (sm_brokers r)) -> NoDup (map smt_name (sm_topics r)) ->
  decode_metadata_response (enc_metadata r)
  = Ok (map (fun b => (sb_node b, view_broker b)) (sm_brokers r),
        map (fun t => (smt_name t, view_meta_topic t)) (sm_topics r)).
Proof.
  intros H Hb Ht. rewrite c05_metadata by assumption. unfold view_metadata.
  rewrite (dict_of_nodup Z.eqb zeqb_spec) by now rewrite map_map.
  rewrite (dict_of_nodup zlist_eqb zlist_eqb_eq) by now rewrite map_map.
  reflexivity.
Qed.

(* ------------------------------------------------------------------ layouts afkak does not support *)
(* Produce v1 (throttle time, no log_append_time): decode_produce_response(api_version=1) applies the v2 layout *)
Definition produce_v1_witness : s_produce :=
  mk_s_produce 7 [mk_s_produce_topic [116] [mk_s_produce_part 3 0 42 0]] 0.
Lemma c05_produce_v1_refuted :
  wf_produce produce_v1_witness = true /\
  decode_produce_response 1 (enc_produce 1 produce_v1_witness) = Some ([], Err Underflow).
Proof. split; vm_compute; reflexivity. Qed.

(* Fetch v1: no branch of decode_fetch_response assigns num_topics *)
Lemma c05_fetch_v1_refuted depth orc r : decode_fetch_response 1 depth orc (enc_fetch 1 r) = ([], Err NameErr).
Proof. reflexivity. Qed.
