(* C13_shutdown_commits: whenever the Deferred returned by shutdown() succeeds and a group is configured, the last
   committed offset equals the last processed one (or nothing was ever processed).  Since consumer.py 7687afc the
   completion of shutdown re-commits until the two agree, so the clause holds at the point of emission; what is proved
   here is that it holds of EVERY outcome reported in EVERY execution (nested or not), including the outcomes held back
   until shutdown() returns. *)
From Coq Require Import Lia.
From AV Require Import Base.Util Model.Consumer Proofs.ConsumerBase Proofs.ConsumerFrame Proofs.ConsumerStop.
Open Scope Z_scope.

Definition good (g : bool) (l : list output) : Prop := forallb (shutd_ok g) l = true.
Definition goodp (s : state) : Prop := good (c_group (s_cf s)) (s_pend s).
Definition SHR (s s' : state) (o : list output) : Prop :=
  s_cf s' = s_cf s /\ (goodp s -> good (c_group (s_cf s)) o /\ goodp s').

Lemma good_app g a b : good g (a ++ b) <-> good g a /\ good g b.
Proof. unfold good. rewrite forallb_app. split; [intro H; apply andb_prop in H; exact H | intros (-> & ->); reflexivity]. Qed.
Lemma good_nil g : good g []. Proof. reflexivity. Qed.
Lemma SHR_refl s : SHR s s []. Proof. split; auto. intro H. split; [reflexivity | exact H]. Qed.
(* one path: the SHR facts of the calls made, in path order, then the goal *)
Ltac shr_fwd := repeat match goal with
  | H : SHR ?a ?b ?o |- _ =>
    let c := fresh "c" in let h := fresh "h" in destruct H as (c & h); psimpl;
    let P := fresh "P" in assert (P : goodp a)
      by (unfold goodp in *; psimpl; repeat match goal with e : s_cf _ = s_cf _ |- _ => rewrite e end; assumption);
    let g1 := fresh "g" in let g2 := fresh "gp" in destruct (h P) as (g1 & g2); clear h P;
    unfold goodp in g2; psimpl;
    repeat match goal with e : s_cf _ = s_cf _ |- _ => progress (rewrite e in * ) end
  end.
Ltac good_solve :=
  repeat (apply good_app; split);
  first [ assumption | reflexivity
        | unfold good; cbn [forallb shutd_ok andb implb]; reflexivity ].
Ltac shr_done :=
  split; [ repeat match goal with H : SHR _ _ _ |- _ => destruct H as (? & _) end; psimpl; congruence
         | let Hg := fresh "Hg" in intro Hg; unfold goodp in Hg; shr_fwd; split;
           [ good_solve | unfold goodp; psimpl; rewrite ?app_nil_r;
             repeat match goal with c : s_cf _ = s_cf _ |- _ => rewrite c end; first [assumption | good_solve] ] ].
Ltac use L := repeat match goal with E : _ = (_, _, _) |- _ => apply L in E end.

Lemma startd_errback_sh fk s r s' o : startd_errback fk s = (r, s', o) -> SHR s s' o.
Proof. intro H. unfold startd_errback in H. mi H; shr_done. Qed.
Lemma emit_shutd_sh x s r s' o : emit_shutd x s = (r, s', o) -> shutd_ok (c_group (s_cf s)) x = true -> SHR s s' o.
Proof.
  intros H Hx. unfold emit_shutd in H. mi H.
  - split; [reflexivity|]. intro Hg. unfold goodp in *. psimpl. split; [reflexivity|]. apply good_app. split; [exact Hg|].
    unfold good. cbn [forallb]. rewrite Hx. reflexivity.
  - split; [reflexivity|]. intro Hg. split; [|exact Hg]. unfold good. cbn [forallb app]. rewrite Hx. reflexivity.
Qed.
Lemma handle_auto_commit_error_sh fk s r s' o : handle_auto_commit_error fk s = (r, s', o) -> SHR s s' o.
Proof. intro H. unfold handle_auto_commit_error in H. mi H; use startd_errback_sh; shr_done. Qed.
Lemma handle_processor_error_sh fk s r s' o : handle_processor_error fk s = (r, s', o) -> SHR s s' o.
Proof. intro H. unfold handle_processor_error in H. mi H; use startd_errback_sh; shr_done. Qed.
Lemma send_commit_request_sh i a s r s' o : send_commit_request i a s = (r, s', o) -> SHR s s' o.
Proof. intro H. unfold send_commit_request in H. mi H; shr_done. Qed.
Lemma commit_sh w s r s' o : commit w s = (r, s', o) -> SHR s s' o.
Proof. intro H. unfold commit in H. mi H; use send_commit_request_sh; shr_done. Qed.
Lemma auto_commit_sh bc s r s' o : auto_commit bc s = (r, s', o) -> SHR s s' o.
Proof. intro H. unfold auto_commit in H. mi H; use commit_sh; use handle_auto_commit_error_sh; shr_done. Qed.
Lemma proc_chain_sh last fk s r s' o : proc_chain last fk s = (r, s', o) -> SHR s s' o.
Proof. intro H. unfold proc_chain in H. mi H; use auto_commit_sh; use handle_processor_error_sh; shr_done. Qed.
Lemma pop_plan_sh s r s' o : pop_plan s = (r, s', o) -> SHR s s' o.
Proof. intro H. unfold pop_plan in H. mi H; shr_done. Qed.
Lemma interrupted_sh s r s' o : interrupted s = (r, s', o) -> SHR s s' o.
Proof.
  intro H. unfold interrupted in H. mi H.
  - apply emit_shutd_sh in E1; [|reflexivity]. shr_done.
  - shr_done.
Qed.
Lemma retry_fetch_sh z s r s' o : retry_fetch z s = (r, s', o) -> SHR s s' o.
Proof. intro H. unfold retry_fetch in H. mi H; shr_done. Qed.
Lemma handle_fetch_error_sh fk s r s' o : handle_fetch_error fk s = (r, s', o) -> SHR s s' o.
Proof. intro H. unfold handle_fetch_error in H. mi H; use startd_errback_sh; use retry_fetch_sh; shr_done. Qed.
Lemma handle_offset_error_sh fk s r s' o : handle_offset_error fk s = (r, s', o) -> SHR s s' o.
Proof. intro H. unfold handle_offset_error in H. mi H; use startd_errback_sh; use retry_fetch_sh; shr_done. Qed.
Lemma do_fetch_sh s r s' o : do_fetch s = (r, s', o) -> SHR s s' o.
Proof. intro H. unfold do_fetch in H. mi H; use startd_errback_sh; shr_done. Qed.
Lemma handle_offset_response_sh kd v s r s' o : handle_offset_response kd v s = (r, s', o) -> SHR s s' o.
Proof. intro H. unfold handle_offset_response in H. mi H; use do_fetch_sh; shr_done. Qed.
Lemma stop_req_sh s r s' o : stop_req s = (r, s', o) -> SHR s s' o.
Proof. intro H. unfold stop_req in H. mi H; use handle_fetch_error_sh; use handle_offset_error_sh; shr_done. Qed.
Lemma stop_mblock_sh s r s' o : stop_mblock s = (r, s', o) -> SHR s s' o.
Proof. intro H. unfold stop_mblock in H. mi H; shr_done. Qed.
Lemma stop_rcall_sh s r s' o : stop_rcall s = (r, s', o) -> SHR s s' o.
Proof. intro H. unfold stop_rcall in H. mi H; shr_done. Qed.
Lemma stop_ccall_sh s r s' o : stop_ccall s = (r, s', o) -> SHR s s' o.
Proof. intro H. unfold stop_ccall in H. mi H; shr_done. Qed.
Lemma stop_looper_sh s r s' o : stop_looper s = (r, s', o) -> SHR s s' o.
Proof. intro H. unfold stop_looper in H. mi H; shr_done. Qed.
Lemma stop_susp_sh s r s' o : stop_susp s = (r, s', o) -> SHR s s' o.
Proof. intro H. unfold stop_susp in H. mi H; shr_done. Qed.
Lemma stop_startd_sh s r s' o : stop_startd s = (r, s', o) -> SHR s s' o.
Proof. intro H. unfold stop_startd in H. mi H; shr_done. Qed.
Lemma api_commit_sh s r s' o : api_commit s = (r, s', o) -> SHR s s' o.
Proof. intro H. unfold api_commit in H. mi H; use commit_sh; shr_done. Qed.

Section RecSH.
Variable f : nat.
Hypothesis IH : forall k s r s' o, run f k s = (r, s', o) -> fuel_ok o = true -> SHR s s' o.

Ltac use_ih := repeat match goal with
  | E : run f ?k ?s1 = (?r, ?s2, ?o1), Hf : fuel_ok ?o1 = true |- _ => apply IH in E; [|exact Hf]
  end.
Ltac specs :=
  use startd_errback_sh; use handle_auto_commit_error_sh; use handle_processor_error_sh; use send_commit_request_sh;
  use commit_sh; use auto_commit_sh; use proc_chain_sh; use pop_plan_sh; use interrupted_sh; use retry_fetch_sh;
  use stop_req_sh; use stop_mblock_sh; use stop_rcall_sh; use stop_ccall_sh; use stop_looper_sh; use stop_susp_sh;
  use stop_startd_sh; use api_commit_sh.

Lemma api_stop_sh s r s' o : api_stop (run f) s = (r, s', o) -> fuel_ok o = true -> SHR s s' o.
Proof. intros H Hf. unfold api_stop in H. mi H; fuel_split; use_ih; shr_done. Qed.
Lemma handle_commit_error_sh fk i a s r s' o : handle_commit_error (run f) fk i a s = (r, s', o) -> fuel_ok o = true -> SHR s s' o.
Proof. intros H Hf. unfold handle_commit_error in H. mi H; fuel_split; use_ih; shr_done. Qed.
Lemma fire_all_sh cr : forall ds s r s' o, fire_all (run f) ds cr s = (r, s', o) -> fuel_ok o = true -> SHR s s' o.
Proof.
  induction ds as [|d ds IHds]; intros s r s' o H Hf; cbn [fire_all] in H.
  - mi H. shr_done.
  - mi H; fuel_split; use_ih.
    all: match goal with E : fire_all _ _ _ _ = _ |- _ => apply IHds in E; [|assumption] end.
    all: shr_done.
Qed.
Lemma finish_block_sh s r s' o : finish_block (run f) s = (r, s', o) -> fuel_ok o = true -> SHR s s' o.
Proof. intros H Hf. unfold finish_block in H. mi H; fuel_split; use_ih; shr_done. Qed.
Lemma stop_proc_sh s r s' o : stop_proc (run f) s = (r, s', o) -> fuel_ok o = true -> SHR s s' o.
Proof. intros H Hf. unfold stop_proc in H. mi H; fuel_split; use_ih; shr_done. Qed.
Lemma stop_creq_sh s r s' o : stop_creq (run f) s = (r, s', o) -> fuel_ok o = true -> SHR s s' o.
Proof.
  intros H Hf. unfold stop_creq in H. mi H; fuel_split.
  all: repeat match goal with E : handle_commit_error _ _ _ _ _ = _, Hf : fuel_ok _ = true |- _ => apply handle_commit_error_sh in E; [|exact Hf] end.
  all: shr_done.
Qed.
(* shutdown(): the outcomes held back are good because they were produced from an empty list *)
Lemma api_shutdown_sh s r s' o : api_shutdown (run f) s = (r, s', o) -> fuel_ok o = true -> SHR s s' o.
Proof.
  intros H Hf. unfold api_shutdown in H. mi H; split_state_if; fuel_split; use_ih; try (solve [shr_done]).
  all: match goal with E : SHR _ _ _ |- _ => destruct E as (c & h) end; psimpl.
  all: split; [congruence|]; intro Hg; unfold goodp in *; psimpl.
  all: destruct (h ltac:(reflexivity)) as (g1 & g2); rewrite ?c in *.
  all: split; [ repeat (apply good_app; split); first [assumption | reflexivity] | assumption ].
Qed.

Ltac specs2 := specs; repeat match goal with
  | E : api_stop _ _ = _, Hf : fuel_ok _ = true |- _ => apply api_stop_sh in E; [|exact Hf]
  | E : api_shutdown _ _ = _, Hf : fuel_ok _ = true |- _ => apply api_shutdown_sh in E; [|exact Hf]
  | E : handle_commit_error _ _ _ _ _ = _, Hf : fuel_ok _ = true |- _ => apply handle_commit_error_sh in E; [|exact Hf]
  | E : fire_all _ _ _ _ = _, Hf : fuel_ok _ = true |- _ => apply fire_all_sh in E; [|exact Hf]
  | E : finish_block _ _ = _, Hf : fuel_ok _ = true |- _ => apply finish_block_sh in E; [|exact Hf]
  | E : stop_proc _ _ = _, Hf : fuel_ok _ = true |- _ => apply stop_proc_sh in E; [|exact Hf]
  | E : stop_creq _ _ = _, Hf : fuel_ok _ = true |- _ => apply stop_creq_sh in E; [|exact Hf]
  end.
Ltac go H := cbn [body] in H; mi H; fuel_split; use_ih; specs2.

(* the only place where a successful shutdown is reported *)
Lemma body_KShutFinish_sh fk s r s' o : body (run f) (KShutFinish fk) s = (r, s', o) -> fuel_ok o = true -> SHR s s' o.
Proof.
  intros H Hf. cbn [body] in H. mi H; fuel_split.
  (* stop() inside: it keeps last_processed / last_committed when it returns *)
  all: repeat match goal with
       | E : run f KStop ?x = (Ok ?a, ?y, ?o1), Hf : fuel_ok ?o1 = true |- _ =>
         let Q := fresh "Q" in
         assert (Q : s_lp y = s_lp x /\ s_lc y = s_lc x)
           by (destruct a; destruct (run_stop _ _ _ _ _ _ E Hf ltac:(psimpl; bsimp; assumption)) as (_ & Q' & _); exact (Q' eq_refl));
         apply IH in E; [|exact Hf]
       end.
  all: use_ih; specs2.
  all: try (solve [shr_done]).
  assert (Hx : shutd_ok (c_group (s_cf (set_shutting false s0)))
                 match fk with Some k => OShutD false k (s_lc s0) | None => OShutD true (encv (s_lp s0)) (s_lc s0) end = true).
  { destruct E as (c & _). psimpl. destruct Q as (Q1 & Q2). psimpl. rewrite c, Q1, Q2. destruct fk; [reflexivity|].
    cbn [shutd_ok]. cbn [andb] in D0. destruct (c_group (s_cf s)); [|reflexivity]. cbn [implb andb] in *.
    destruct (s_lp s) as [x|]; [|reflexivity]. cbn [is_some andb encv] in *. apply negb_false_iff in D0.
    destruct (s_lc s) as [y|]; cbn [oz_eqb] in *; [|discriminate D0]. apply Z.eqb_eq in D0. subst y. rewrite Z.eqb_refl. apply orb_true_r. }
  apply emit_shutd_sh in E1; [|exact Hx]. shr_done.
Qed.

Lemma body_sh k s r s' o : body (run f) k s = (r, s', o) -> fuel_ok o = true -> SHR s s' o.
Proof.
  intros H Hf. destruct k; try (eapply body_KShutFinish_sh; eassumption); go H; shr_done.
Qed.
End RecSH.

Theorem run_sh fuel k s r s' o : run fuel k s = (r, s', o) -> fuel_ok o = true -> SHR s s' o.
Proof.
  intro H. refine (run_ind (fun _ _ => True) (fun _ s _ s' o => fuel_ok o = true -> SHR s s' o) _ _ fuel k s r s' o I H); clear.
  - intros k s _ Hf. discriminate Hf.
  - intros f IH k s r s' o _ H Hf. eapply body_sh; eauto.
Qed.

(* ---------------- every event, from every state whose held-back list is good (in particular empty) ---------------- *)
Lemma handle_sh fuel e s s' o : handle fuel e s = (Ok tt, s', o) -> fuel_ok o = true -> SHR s s' o.
Proof.
  intros H Hf. unfold handle in H. cbn zeta in H. destruct e.
  all: unfold flush_pend, handle_commit_error in H; mi H; fuel_split.
  all: repeat match goal with
       | E : run _ _ _ = _, Hf : fuel_ok _ = true |- _ => apply run_sh in E; [|exact Hf]
       | E : api_stop _ _ = _, Hf : fuel_ok _ = true |- _ => apply (api_stop_sh fuel (run_sh fuel)) in E; [|exact Hf]
       | E : api_shutdown _ _ = _, Hf : fuel_ok _ = true |- _ => apply (api_shutdown_sh fuel (run_sh fuel)) in E; [|exact Hf]
       | E : api_commit _ = _ |- _ => apply api_commit_sh in E
       end.
  all: use do_fetch_sh; use handle_offset_response_sh; use handle_fetch_error_sh; use handle_offset_error_sh;
       use send_commit_request_sh; use auto_commit_sh.
  all: shr_done.
Qed.

(* C13_shutdown_commits for one event *)
Theorem shutdown_commits_step fuel s e s' o :
  s_pend s = [] -> step fuel s e = (s', o) -> fuel_ok o = true ->
  forallb (shutd_ok (c_group (s_cf s))) o = true /\ s_cf s' = s_cf s.
Proof.
  intros Hp H Hf. apply step_inv in H. destruct H as (o1 & H & ->). apply fuel_ok_app_inv in Hf. destruct Hf as (Hf & _).
  destruct (handle_sh _ _ _ _ _ H Hf) as (c & h). split; [|exact c].
  destruct (h ltac:(unfold goodp, good; rewrite Hp; reflexivity)) as (g & _).
  unfold good in g. rewrite forallb_app, g. reflexivity.
Qed.
