(* C13_shutdown_commits: whenever the Deferred returned by shutdown() succeeds and a group is configured, the last
   committed offset equals the last processed one (or nothing was ever processed).  Since consumer.py 7687afc the
   completion of shutdown re-commits until the two agree, so the clause holds at the point of emission; what is proved
   here is that it holds of EVERY outcome reported in EVERY execution (nested or not), including the outcomes held back
   until shutdown() returns. *)
From Coq Require Import Lia.
From AV Require Import Base.Util Model.Consumer Proofs.ConsumerBase Proofs.ConsumerFrame Proofs.ConsumerStop.
Open Scope Z_scope.

Definition good (g : bool) (l : list output) : Prop := forallb (shutd_ok g) l = true.
Definition goodp (s : state) : Prop := good (c_group (s_cf s)) (s_pend s).
Definition SHR (s s' : state) (o : list output) : Prop :=
  s_cf s' = s_cf s /\ (goodp s -> good (c_group (s_cf s)) o /\ goodp s').

Lemma good_app g a b : good g (a ++ b) <-> good g a /\ good g b.
Proof. unfold good. rewrite forallb_app. split; [intro H; apply andb_prop in H; exact H | intros (-> & ->); reflexivity]. Qed.
Lemma good_nil g : good g []. Proof. reflexivity. Qed.
Lemma SHR_refl s : SHR s s []. Proof. split; auto. intro H. split; [reflexivity | exact H]. Qed.
(* one path: the SHR facts of the calls made, in path order, then the goal *)
Ltac shr_fwd := repeat match goal with
  | H : SHR ?a ?b ?o |- _ =>
    let c := fresh "c" in let h := fresh "h" in destruct H as (c & h); psimpl;
    let P := fresh "P" in assert (P : goodp a) by (unfold goodp in *; psimpl; assumption);
    let g1 := fresh "g" in let g2 := fresh "gp" in destruct (h P) as (g1 & g2); clear h P;
    unfold goodp in g2; psimpl; rewrite ?c in *
  end.
Ltac good_solve :=
  repeat (apply good_app; split);
  first [ assumption | reflexivity
        | unfold good; cbn [forallb shutd_ok andb implb]; reflexivity ].
Ltac shr_done :=
  split; [ shr_fwd; psimpl; congruence
         | let Hg := fresh "Hg" in intro Hg; unfold goodp in Hg; shr_fwd; split;
           [ good_solve | unfold goodp; psimpl; rewrite ?app_nil_r; first [assumption | good_solve] ] ].
Ltac use L := repeat match goal with E : _ = (_, _, _) |- _ => apply L in E end.

Lemma startd_errback_sh fk s r s' o : startd_errback fk s = (r, s', o) -> SHR s s' o.
Proof. intro H. unfold startd_errback in H. mi H; shr_done. Qed.
Lemma emit_shutd_sh x s r s' o : emit_shutd x s = (r, s', o) -> shutd_ok (c_group (s_cf s)) x = true -> SHR s s' o.
Proof.
  intros H Hx. unfold emit_shutd in H. mi H.
  - split; [reflexivity|]. intro Hg. unfold goodp in *. psimpl. split; [reflexivity|]. apply good_app. split; [exact Hg|].
    unfold good. cbn [forallb]. rewrite Hx. reflexivity.
  - split; [reflexivity|]. intro Hg. split; [|exact Hg]. unfold good. cbn [forallb app]. rewrite Hx. reflexivity.
Qed.
Lemma handle_auto_commit_error_sh fk s r s' o : handle_auto_commit_error fk s = (r, s', o) -> SHR s s' o.
Proof. intro H. unfold handle_auto_commit_error in H. mi H; use startd_errback_sh; shr_done. Qed.
Lemma handle_processor_error_sh fk s r s' o : handle_processor_error fk s = (r, s', o) -> SHR s s' o.
Proof. intro H. unfold handle_processor_error in H. mi H; use startd_errback_sh; shr_done. Qed.
Lemma send_commit_request_sh i a s r s' o : send_commit_request i a s = (r, s', o) -> SHR s s' o.
Proof. intro H. unfold send_commit_request in H. mi H; shr_done. Qed.
Lemma commit_sh w s r s' o : commit w s = (r, s', o) -> SHR s s' o.
Proof. intro H. unfold commit in H. mi H; use send_commit_request_sh; shr_done. Qed.
Lemma auto_commit_sh bc s r s' o : auto_commit bc s = (r, s', o) -> SHR s s' o.
Proof. intro H. unfold auto_commit in H. mi H; use commit_sh; use handle_auto_commit_error_sh; shr_done. Qed.
Lemma proc_chain_sh last fk s r s' o : proc_chain last fk s = (r, s', o) -> SHR s s' o.
Proof. intro H. unfold proc_chain in H. mi H; use auto_commit_sh; use handle_processor_error_sh; shr_done. Qed.
Lemma pop_plan_sh s r s' o : pop_plan s = (r, s', o) -> SHR s s' o.
Proof. intro H. unfold pop_plan in H. mi H; shr_done. Qed.
Lemma interrupted_sh s r s' o : interrupted s = (r, s', o) -> SHR s s' o.
Proof.
  intro H. unfold interrupted in H. mi H.
  - apply emit_shutd_sh in E1; [|reflexivity]. shr_done.
  - shr_done.
Qed.
Lemma retry_fetch_sh z s r s' o : retry_fetch z s = (r, s', o) -> SHR s s' o.
Proof. intro H. unfold retry_fetch in H. mi H; shr_done. Qed.
Lemma handle_fetch_error_sh fk s r s' o : handle_fetch_error fk s = (r, s', o) -> SHR s s' o.
Proof. intro H. unfold handle_fetch_error in H. mi H; use startd_errback_sh; use retry_fetch_sh; shr_done. Qed.
Lemma handle_offset_error_sh fk s r s' o : handle_offset_error fk s = (r, s', o) -> SHR s s' o.
Proof. intro H. unfold handle_offset_error in H. mi H; use startd_errback_sh; use retry_fetch_sh; shr_done. Qed.
Lemma do_fetch_sh s r s' o : do_fetch s = (r, s', o) -> SHR s s' o.
Proof. intro H. unfold do_fetch in H. mi H; use startd_errback_sh; shr_done. Qed.
Lemma handle_offset_response_sh kd v s r s' o : handle_offset_response kd v s = (r, s', o) -> SHR s s' o.
Proof. intro H. unfold handle_offset_response in H. mi H; use do_fetch_sh; shr_done. Qed.
Lemma stop_req_sh s r s' o : stop_req s = (r, s', o) -> SHR s s' o.
Proof. intro H. unfold stop_req in H. mi H; use handle_fetch_error_sh; use handle_offset_error_sh; shr_done. Qed.
Lemma stop_mblock_sh s r s' o : stop_mblock s = (r, s', o) -> SHR s s' o.
Proof. intro H. unfold stop_mblock in H. mi H; shr_done. Qed.
Lemma stop_rcall_sh s r s' o : stop_rcall s = (r, s', o) -> SHR s s' o.
Proof. intro H. unfold stop_rcall in H. mi H; shr_done. Qed.
Lemma stop_ccall_sh s r s' o : stop_ccall s = (r, s', o) -> SHR s s' o.
Proof. intro H. unfold stop_ccall in H. mi H; shr_done. Qed.
Lemma stop_looper_sh s r s' o : stop_looper s = (r, s', o) -> SHR s s' o.
Proof. intro H. unfold stop_looper in H. mi H; shr_done. Qed.
Lemma stop_susp_sh s r s' o : stop_susp s = (r, s', o) -> SHR s s' o.
Proof. intro H. unfold stop_susp in H. mi H; shr_done. Qed.
Lemma stop_startd_sh s r s' o : stop_startd s = (r, s', o) -> SHR s s' o.
Proof. intro H. unfold stop_startd in H. mi H; shr_done. Qed.
Lemma api_commit_sh s r s' o : api_commit s = (r, s', o) -> SHR s s' o.
Proof. intro H. unfold api_commit in H. mi H; use commit_sh; shr_done. Qed.
