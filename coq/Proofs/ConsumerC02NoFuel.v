(* The run-level theorems of C02 without the fuel hypothesis: by b-consumer-a's fuel_enough (Proofs/ConsumerFuelEnoughRun.v)
   every run from an accepted configuration has a fuel from which on the interpreter never runs out. *)
From Coq Require Import Lia.
From AV Require Import Base.Util Model.Consumer Model.ConsumerLog Model.ConsumerLogFifo Model.ConsumerLogSeg
  Proofs.ConsumerC02ReqRun Proofs.ConsumerC02PwRun Proofs.ConsumerC02Fifo Proofs.ConsumerC02FifoRun Proofs.ConsumerC02Log
  Proofs.ConsumerC02Idle.
From AV Require Proofs.ConsumerFuelEnoughLoop Proofs.ConsumerFuelEnoughRun.

Lemma fuel_suffices c maxatt buf evs : 0 <= c_acn c ->
  exists fuel0, forall fuel, (fuel0 <= fuel)%nat -> run_fuel_ok fuel c maxatt buf evs = true.
Proof.
  intro A. destruct (ConsumerFuelEnoughRun.fuel_enough maxatt c buf evs) as (f0 & H).
  { unfold ConsumerFuelEnoughLoop.cfg_ok. apply Z.leb_le. exact A. }
  exists f0. intros fuel Hge. unfold run_fuel_ok. rewrite <- (H fuel Hge).
  induction (run_steps fuel (init c maxatt buf) evs) as [|[[[? ?] ?] ?] l IH]; cbn [forallb]; [reflexivity|]. rewrite IH. reflexivity.
Qed.

Section NoFuel.
Variables (c : cfg) (maxatt buf : Z) (evs : list event).
Hypothesis A : 0 <= c_acn c.

Ltac with_fuel := destruct (fuel_suffices c maxatt buf evs A) as (f0 & H); exists f0; intros fuel Hge; specialize (H fuel Hge).

Theorem req_any_fuel : exists f0, forall fuel, (f0 <= fuel)%nat ->
  mon_run req_ev req_out q0 (model_obs fuel c maxatt buf evs) = Some (req_abs (fst (run_events fuel (init c maxatt buf) evs))).
Proof. with_fuel. apply req_monitor_accepts; assumption. Qed.
Theorem pw_any_fuel : exists f0, forall fuel, (f0 <= fuel)%nat ->
  mon_run pw_ev pw_out pw0 (model_obs fuel c maxatt buf evs) = Some (pw_abs None (fst (run_events fuel (init c maxatt buf) evs))).
Proof. with_fuel. apply pw_monitor_accepts; assumption. Qed.
Theorem fifo_any_fuel : exists f0, forall fuel, (f0 <= fuel)%nat ->
  exists g, mon_run_s fifo_ev fifo_out [] (run_steps fuel (init c maxatt buf) evs) = Some g
            /\ let s := fst (run_events fuel (init c maxatt buf) evs) in dead2 s = false -> g = queued s ++ pext s.
Proof. with_fuel. apply fifo_monitor_accepts; assumption. Qed.
Theorem log_any_fuel : exists f0, forall fuel, (f0 <= fuel)%nat ->
  exists gh, mon_run_s log_ev log_out log0 (run_steps fuel (init c maxatt buf) evs) = Some gh
             /\ l_D gh ++ l_g gh = l_old gh ++ l_E gh.
Proof. with_fuel. apply log_monitor_accepts; assumption. Qed.
Theorem log_segment_any_fuel L : increasing L -> exists f0, forall fuel, (f0 <= fuel)%nat ->
  honest_run L 0 (run_steps fuel (init c maxatt buf) evs) ->
  exists gh, mon_run_s log_ev log_out log0 (run_steps fuel (init c maxatt buf) evs) = Some gh /\ log_ok L gh.
Proof. intro HL. with_fuel. intro Hon. apply log_segment; assumption. Qed.
Theorem never_idle_any_fuel : exists f0, forall fuel, (f0 <= fuel)%nat ->
  let s := fst (run_events fuel (init c maxatt buf) evs) in
  startd_unfired s = true -> s_shutting s = false -> (is_some (s_req s) || rcall_active s) = true.
Proof. with_fuel. apply never_idle; assumption. Qed.
End NoFuel.
