(* C07: the error exits of _send_broker_aware_request (nothing is sent when a payload cannot be resolved) and
   the address every per-broker request is dialled at. *)
From AV Require Import Base.Util Model.ClientMeta Model.ClientRoute Proofs.ClientMetaDict Proofs.ClientMetaFacts
  Proofs.ClientRouteWF Proofs.ClientRouteFacts.
From Coq Require Import Lia Permutation.

Lemma send_requests_prefix : forall groups st outs sent st' sent' e,
  send_requests st groups outs sent = (st', sent', e) ->
  exists k, map req_view sent' = map req_view sent ++ firstn k groups /\
            (forall x, e = Some x -> x = EClientError \/ x = EScript \/ x = EKeyErrorBroker).
Proof.
  induction groups as [|[n ps] rest IH]; intros st outs sent st' sent' e H; simpl in H.
  - inversion H; subst. exists 0%nat. rewrite app_nil_r. split; [reflexivity|intros x Hx; discriminate].
  - destruct (s_closed st); [inversion H; subst; exists 0%nat; rewrite app_nil_r; split; [reflexivity|intros x Hx; inversion Hx; auto]|].
    destruct outs as [|o outs']; [inversion H; subst; exists 0%nat; rewrite app_nil_r; split; [reflexivity|intros x Hx; inversion Hx; auto]|].
    destruct (request_on st n) as [[st1 a]|];
      [|inversion H; subst; exists 0%nat; rewrite app_nil_r; split; [reflexivity|intros x Hx; inversion Hx; auto]].
    apply IH in H. destruct H as [k [Hk He]]. exists (S k). split; [|exact He].
    rewrite Hk, map_app. simpl. rewrite <- app_assoc. reflexivity.
Qed.

(* a call that ends in an error either sent NOTHING (the error came from the resolution of some payload, or the
   payload list was empty), or was interrupted in the fan-out by close() / a script that ran out - never by a
   missing broker address from reachable states, see ClientRouteNoKeyError - after a prefix of the requests *)
Lemma aware_error_exits : forall st group expect ps loads outs e,
  let r := aware st group expect ps loads outs in
  a_res r = SErr e ->
  (a_reqs r = [] /\ a_resolved r = []) \/
  ((e = EClientError \/ e = EScript \/ e = EKeyErrorBroker) /\
   exists k, map req_view (a_reqs r) = firstn k (group_by_node (resolved_pairs (a_resolved r)))).
Proof.
  intros st group expect ps loads outs e r H. subst r. unfold aware in *.
  destruct ps as [|p0 ps0]; [left; split; reflexivity|].
  destruct (resolve_loop st group (p0 :: ps0) loads [] []) as [[st1 evs] [resolved|e0]]; [|left; split; reflexivity].
  destruct (send_requests st1 (group_by_node (resolved_pairs resolved)) outs []) as [[st2 sent] [e1|]] eqn:Es.
  - right. simpl in *. inversion H; subst e1. apply send_requests_prefix in Es. destruct Es as [k [Hk He]].
    split; [apply He; reflexivity|]. exists k. exact Hk.
  - destruct (collect expect _ _ [] []) as [acc failed]. destruct failed; discriminate.
Qed.

Lemma aware_unresolvable_sends_nothing : forall st group expect ps loads outs e,
  let r := aware st group expect ps loads outs in
  a_res r = SErr e -> e <> EClientError -> e <> EScript -> e <> EKeyErrorBroker -> a_reqs r = [].
Proof.
  intros st group expect ps loads outs e r H H1 H2 H3.
  destruct (aware_error_exits _ _ _ _ _ _ _ H) as [[Hr _]|[[E|[E|E]] _]]; [exact Hr| | |]; contradiction.
Qed.

(* acks=0 success carries no responses *)
Lemma aware_noexpect_ok : forall st group ps loads outs rs,
  a_res (aware st group false ps loads outs) = SOk rs -> rs = [].
Proof.
  intros st group ps loads outs rs H.
  assert (Hf : fanout (a_res (aware st group false ps loads outs)) = Some (rs, [])) by (rewrite H; reflexivity).
  destruct (aware_results _ _ _ _ _ _ _ _ Hf) as [_ [_ [Hn _]]]. apply Hn. reflexivity.
Qed.

(* ---- where each request is dialled ------------------------------------------------------------- *)
Lemma send_requests_addr : forall groups st outs sent st' sent' e,
  NoDup (map fst groups) -> send_requests st groups outs sent = (st', sent', e) ->
  exists new, sent' = sent ++ new /\
    forall q, In q new ->
      In (rq_node q) (map fst groups) /\
      match zget (rq_node q) (s_clients st) with
      | Some c => rq_addr q = match c_conn c with Some x => x | None => c_target c end
      | None => zget (rq_node q) (s_brokers st) = Some (rq_addr q)
      end.
Proof.
  induction groups as [|[n ps] rest IH]; intros st outs sent st' sent' e Hnd H; simpl in H.
  - inversion H; subst. exists []. rewrite app_nil_r. split; [reflexivity|intros q []].
  - destruct (s_closed st); [inversion H; subst; exists []; rewrite app_nil_r; split; [reflexivity|intros q []]|].
    destruct outs as [|o outs']; [inversion H; subst; exists []; rewrite app_nil_r; split; [reflexivity|intros q []]|].
    destruct (request_on st n) as [[st1 a]|] eqn:Er;
      [|inversion H; subst; exists []; rewrite app_nil_r; split; [reflexivity|intros q []]].
    simpl in Hnd. inversion Hnd as [|x l Hnotin Hnd']; subst.
    apply IH in H; [|exact Hnd']. destruct H as [new [Hs Hq]].
    exists ({| rq_node := n; rq_addr := a; rq_payloads := ps |} :: new).
    split; [rewrite Hs, <- app_assoc; reflexivity|].
    apply request_on_facts in Er.
    destruct Er as [Eb [_ [_ [_ [_ [_ [_ [Hother [c [_ [_ Hm]]]]]]]]]]].
    intros q [<-|Hin]; simpl.
    + split; [left; reflexivity|]. destruct (zget n (s_clients st)) as [c0|].
      * destruct Hm as [_ Ha]. exact Ha.
      * destruct Hm as [Ha _]. exact Ha.
    + destruct (Hq q Hin) as [Hn Hmatch]. split; [right; exact Hn|].
      assert (Hne : rq_node q <> n) by (intro E; rewrite E in Hn; contradiction).
      rewrite (Hother _ Hne) in Hmatch. rewrite Eb in Hmatch. exact Hmatch.
Qed.

(* every request of a call goes, for its node, over the node's live connection if the client had one when the
   resolution of the payloads ended, and otherwise to the address the cache has for the node at that moment *)
Lemma aware_addr : forall st group expect ps loads outs st1 evs resolved,
  WF st -> resolve_loop st group ps loads [] [] = (st1, evs, inl resolved) ->
  forall q, In q (a_reqs (aware st group expect ps loads outs)) ->
    match zget (rq_node q) (s_clients st1) with
    | Some c => match c_conn c with
                | Some x => rq_addr q = x
                | None => zget (rq_node q) (s_brokers st1) = Some (rq_addr q)
                end
    | None => zget (rq_node q) (s_brokers st1) = Some (rq_addr q)
    end.
Proof.
  intros st group expect ps loads outs st1 evs resolved Hwf Hr q Hq. unfold aware in Hq.
  destruct ps as [|p0 ps0]; [destruct Hq|]. rewrite Hr in Hq.
  pose proof (resolve_loop_WF _ _ _ _ _ _ _ _ _ Hwf Hr) as [_ [_ [_ Hcl]]].
  destruct (group_by_node_spec (resolved_pairs resolved)) as [Hnd _].
  destruct (send_requests st1 (group_by_node (resolved_pairs resolved)) outs []) as [[st2 sent] e] eqn:Es.
  destruct (send_requests_addr _ _ _ _ _ _ _ Hnd Es) as [new [Hs Hall]]. simpl in Hs. subst new.
  assert (Hin : In q sent).
  { destruct e as [e|]; [exact Hq|]. destruct (collect expect _ _ [] []) as [acc failed]. destruct failed; exact Hq. }
  destruct (Hall q Hin) as [_ Hm].
  destruct (zget (rq_node q) (s_clients st1)) as [c|] eqn:Ec; [|exact Hm].
  destruct (c_conn c); [exact Hm|]. rewrite Hm. apply Hcl. exact Ec.
Qed.
