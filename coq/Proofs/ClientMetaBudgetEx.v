(* Non-vacuity of C08_recovery_within_budget: a concrete retry loop on two stale topics with fail_on_error=True in
   which every premise holds and the bound (2 failed attempts) is attained.  Kept in Proofs/ (compiled once). *)
From AV Require Import Base.Util Model.ClientMeta Model.ClientRoute Proofs.ClientMetaDict Proofs.ClientMetaFacts
  Proofs.ClientRouteWF Proofs.ClientRouteFacts Proofs.ClientMetaC08 Proofs.ClientMetaRecovery Proofs.ClientMetaBudget.

Definition bx_truth (k : tpk) : Z := if fst k =? 0 then 2 else 1.
(* cached: t0/0 -> node 1 (stale, truth 2), t0/1 -> node 2, t1/0 -> node 2 (stale, truth 1) *)
Definition bx_r1 : rawresp :=
  {| rr_brokers := [(1, (101, 9092)); (2, (102, 9092))];
     rr_topics := [{| rt_err := 0; rt_id := 0; rt_parts := [(0, 1, 2); (0, 0, 1)] |};
                   {| rt_err := 0; rt_id := 1; rt_parts := [(0, 0, 2)] |}] |}.
Definition bx_s0 := Eval vm_compute in fst (fst (merge (init_state [(7, 9092)]) (norm_resp bx_r1) true)).
Definition bx_t0 : rawresp := {| rr_brokers := [(1, (101, 9092)); (2, (202, 9093))];
                                 rr_topics := [{| rt_err := 0; rt_id := 0; rt_parts := [(0, 0, 2); (0, 1, 2)] |}] |}.
Definition bx_t1 : rawresp := {| rr_brokers := [(1, (101, 9092)); (2, (202, 9093))];
                                 rr_topics := [{| rt_err := 0; rt_id := 1; rt_parts := [(0, 0, 1)] |}] |}.
Definition bx_ps := [{| p_topic := 1; p_part := 0; p_tag := 1 |}; {| p_topic := 0; p_part := 0; p_tag := 2 |}].
Definition bx_u := {| u_shuf := [1; 2]; u_kouts := [KResp]; u_bshuf := []; u_bouts := [] |}.
Definition bx_mk (st : state) (loads : list load) : attempt :=
  {| at_loads := loads;
     at_outs := map (fun q => ROk (map (honest_answer bx_truth (rq_node q)) (rq_payloads q)))
                    (a_reqs (aware st None true bx_ps loads [RFail; RFail; RFail])) |}.
Definition bx_a1 := Eval vm_compute in bx_mk bx_s0 [].
Definition bx_s1 := Eval vm_compute in snd (fst (run_attempt true bx_ps bx_s0 bx_a1)).
Definition bx_a2 := Eval vm_compute in bx_mk bx_s1 [LoadMeta bx_u bx_t1].
Definition bx_s2 := Eval vm_compute in snd (fst (run_attempt true bx_ps bx_s1 bx_a2)).
Definition bx_a3 := Eval vm_compute in bx_mk bx_s2 [LoadMeta bx_u bx_t0].

Lemma bx_truthful : forall r, r = bx_t0 \/ r = bx_t1 -> load_truthful bx_truth (LoadMeta bx_u r).
Proof.
  intros r [->| ->]; (split; [vm_compute; reflexivity|]);
    intros t err parts p l Ht Hp Hl; vm_compute in Ht; destruct Ht as [Ht|[]]; inversion Ht; subst; clear Ht;
    simpl in Hp; repeat (destruct Hp as [Hp|Hp]; [inversion Hp; subst; reflexivity|]); destruct Hp.
Qed.

Lemma bx_good1 : good bx_truth bx_ps bx_s0 bx_a1.
Proof. split; [constructor|]. split; [vm_compute; discriminate|vm_compute; reflexivity]. Qed.
Lemma bx_good2 : good bx_truth bx_ps bx_s1 bx_a2.
Proof.
  split; [constructor; [apply bx_truthful; right; reflexivity|constructor]|].
  split; [vm_compute; discriminate|vm_compute; reflexivity].
Qed.
Lemma bx_good3 : good bx_truth bx_ps bx_s2 bx_a3.
Proof.
  split; [constructor; [apply bx_truthful; left; reflexivity|constructor]|].
  split; [vm_compute; discriminate|vm_compute; reflexivity].
Qed.

Lemma bx_budget_attained :
  wf bx_s0 = true /\
  stale_count bx_truth bx_ps bx_s0 = 2%nat /\
  first_success true bx_ps bx_s0 [bx_a1; bx_a2; bx_a3] = Some 2%nat /\
  all_good bx_truth true bx_ps bx_s0 [bx_a1; bx_a2; bx_a3].
Proof.
  split; [vm_compute; reflexivity|]. split; [vm_compute; reflexivity|]. split; [vm_compute; reflexivity|].
  change (good bx_truth bx_ps bx_s0 bx_a1 /\
          all_good bx_truth true bx_ps (snd (fst (run_attempt true bx_ps bx_s0 bx_a1))) [bx_a2; bx_a3]).
  split; [exact bx_good1|].
  replace (snd (fst (run_attempt true bx_ps bx_s0 bx_a1))) with bx_s1 by (vm_compute; reflexivity).
  change (good bx_truth bx_ps bx_s1 bx_a2 /\
          all_good bx_truth true bx_ps (snd (fst (run_attempt true bx_ps bx_s1 bx_a2))) [bx_a3]).
  split; [exact bx_good2|].
  replace (snd (fst (run_attempt true bx_ps bx_s1 bx_a2))) with bx_s2 by (vm_compute; reflexivity).
  change (good bx_truth bx_ps bx_s2 bx_a3 /\ True). split; [exact bx_good3|exact I].
Qed.
