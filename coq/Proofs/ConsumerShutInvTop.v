(* C13, shutdown bookkeeping, part 4: every event, every run; the consequences. *)
From Coq Require Import Lia.
From AV Require Import Base.Util Model.Consumer Proofs.ConsumerBase Proofs.ConsumerFrame Proofs.ConsumerStop Proofs.ConsumerShutFlags
  Proofs.ConsumerInv Proofs.ConsumerRun Proofs.ConsumerC13Top Proofs.ConsumerShutInvRC Proofs.ConsumerShutInv Proofs.ConsumerShutInvFam.
Open Scope Z_scope.

Lemma do_fetch_ks s r s' o : do_fetch s = (r, s', o) -> KS s s'.
Proof. intro H. unfold do_fetch in H. mi H; use startd_errback_ks; ks_chain. Qed.
Lemma handle_fetch_error_ks fk s r s' o : handle_fetch_error fk s = (r, s', o) -> KS s s'.
Proof. intro H. unfold handle_fetch_error in H. mi H; use startd_errback_ks; use retry_fetch_ks; ks_chain. Qed.
Lemma handle_offset_error_ks fk s r s' o : handle_offset_error fk s = (r, s', o) -> KS s s'.
Proof. intro H. unfold handle_offset_error in H. mi H; use startd_errback_ks; use retry_fetch_ks; ks_chain. Qed.
Lemma handle_offset_response_ks kd v s r s' o : handle_offset_response kd v s = (r, s', o) -> KS s s'.
Proof. intro H. unfold handle_offset_response in H. mi H; use do_fetch_ks; ks_chain. Qed.

Definition Top (s : state) : Prop := I13 s /\ Fe s /\ Hc s.

Ltac top_ih := repeat match goal with
  | E : run ?f KStop ?a = (?r, ?b, ?o1), Hf : fuel_ok ?o1 = true |- _ =>
    let P := fresh "P" in pose proof (stop_sb' _ _ _ _ _ E Hf) as P; clear E
  | E : run ?f ?k ?a = (?r, ?b, ?o1), Hf : fuel_ok ?o1 = true |- _ =>
    let P := fresh "P" in assert (P : PREM (PreS k a) -> PostS k a b) by (exact (run_s _ _ _ _ _ _ E Hf)); clear E
  | E : api_stop (run ?f) ?a = _, Hf : fuel_ok _ = true |- _ =>
    let X := fresh "X" in first [ pose proof (api_stop_s' f _ _ _ _ E Hf) as X | pose proof (api_stop_s' f (run_s f) _ _ _ _ E Hf) as X ]; clear E
  | E : api_shutdown (run ?f) ?a = _, Hf : fuel_ok _ = true |- _ =>
    let X := fresh "X" in pose proof (api_shutdown_s' f (run_s f) _ _ _ _ E Hf) as X; clear E
  end.
Ltac leafs_top := leafs_s; use do_fetch_ks; use handle_fetch_error_ks; use handle_offset_error_ks; use handle_offset_response_ks.

Lemma handle_s n0 fuel e s s' o : handle fuel e s = (Ok tt, s', o) -> fuel_ok o = true -> Reach n0 s -> Top s -> Top s'.
Proof.
  intros H Hf ((HJ & Hst) & _) HT. pose proof (j3 _ _ HJ) as HR. fold (Rr s) in HR. unfold Top in *.
  unfold handle in H. cbn zeta in H. destruct e.
  all: unfold flush_pend, handle_commit_error in H; mi H; split_state_if; fuel_split; top_ih; leafs_top.
  all: sfwd; ssolve.
Qed.

Lemma Top_init c n0 buf : Top (init c n0 buf).
Proof. unfold Top, I13, Fe, Hc. cbn. repeat split; auto; try (intro Hx; discriminate Hx). Qed.

Lemma top_step n0 fuel s e s' o : Reach n0 s -> Top s -> step fuel s e = (s', o) -> fuel_ok o = true -> Top s'.
Proof.
  intros HR HT H Hf. apply step_inv in H. destruct H as (o1 & H & ->). apply fuel_ok_app_inv in Hf. destruct Hf as (Hf & _).
  exact (handle_s _ _ _ _ _ _ H Hf HR HT).
Qed.

(* every state between two events of every run has consistent shutdown bookkeeping *)
Definition sb_ok (s : state) : bool := Bool.eqb (s_shutting s) (s_shutd s) && implb (s_shutd s) (has_cont s).
Lemma sb_ok_of s : Top s -> sb_ok s = true.
Proof.
  intros (_ & HF & HC). unfold sb_ok, Fe, Hc in *. rewrite HF, Bool.eqb_reflx. cbn [andb].
  destruct (s_shutd s); [|reflexivity]. cbn [implb]. rewrite has_cont_pc. apply orb_true_iff. exact (HC eq_refl).
Qed.
Theorem top_run n0 fuel : forall evs s, Reach n0 s -> Top s -> all_fuel_ok (run_steps fuel s evs) = true ->
  Forall (fun t => Top (t_pre t) /\ Top (t_post t)) (run_steps fuel s evs).
Proof.
  induction evs as [|e evs IH]; intros s HR HT Hf; cbn [run_steps] in *; [constructor|].
  destruct (step fuel s e) as [s1 o] eqn:E. cbn [all_fuel_ok forallb t_out] in Hf. apply andb_prop in Hf. destruct Hf as (Hf1 & Hf2).
  pose proof (reach_step _ _ _ _ _ _ HR E Hf1) as HR1. pose proof (top_step _ _ _ _ _ _ HR HT E Hf1) as HT1.
  constructor; [cbn; auto | apply IH; assumption].
Qed.

(* ---------------- consequences ---------------- *)
(* a consumer with nothing left running is not shutting down *)
Theorem quiescent_not_shutting s : Top s -> quiescent s = true -> s_shutting s = false /\ s_shutd s = false.
Proof.
  intros (_ & HF & HC) Hq. unfold quiescent, is_none, is_nil in Hq. bsimp.
  destruct (s_proc s) eqn:Ep; [discriminate|]. destruct (s_cds s) eqn:Ec; [|discriminate].
  unfold Fe, Hc, shutw in *. rewrite Ep, Ec in HC. cbn in HC.
  destruct (s_shutd s); [destruct (HC eq_refl); discriminate | split; [exact HF | reflexivity]].
Qed.

(* a stop() that returns clears the shutdown bookkeeping: in EVERY reachable state, wherever it is called with _stopping clear *)
Theorem stop_clears_reachable fuel s s' o : Top s -> s_stopping s = false ->
  run fuel KStop s = (Ok tt, s', o) -> fuel_ok o = true -> s_shutting s' = false /\ s_shutd s' = false.
Proof.
  intros (_ & HF & HC) Hst H Hf. apply (stop_clears _ _ _ _ H Hf Hst).
  - intro Hd. rewrite has_cont_pc. apply orb_true_iff. exact (HC Hd).
  - intro Hg. unfold Fe in HF. congruence.
Qed.

(* over whole runs *)
Theorem bookkeeping_run n0 fuel evs c buf : all_fuel_ok (run_steps fuel (init c n0 buf) evs) = true ->
  forallb (fun t => sb_ok (t_post t)) (run_steps fuel (init c n0 buf) evs) = true.
Proof.
  intro Hf. pose proof (top_run n0 fuel evs _ (reach_init n0 c buf) (Top_init c n0 buf) Hf) as HA.
  apply forallb_forall. intros t Hin. rewrite Forall_forall in HA. apply sb_ok_of. exact (proj2 (HA t Hin)).
Qed.

(* after EVERY application stop() of a running consumer, in every run: the bookkeeping is clear, and the stopped consumer,
   started again, delivers (no hypothesis on _shuttingdown any more) *)
Definition restarts_and_delivers (fuel : nat) (s : state) : Prop :=
  forall off s1 o1 offs s2 o2 m ms fo, 0 <= off ->
    step fuel s (EStart off) = (s1, o1) -> extract off offs = (m :: ms, fo) ->
    step fuel s1 (EFetchOk offs false) = (s2, o2) -> fuel_ok o2 = true ->
    In (OFetch off (s_buf s)) o1 /\ exists blk, In (OCallProc blk) o2.
Theorem quiescent_restart_delivers fuel s : Top s -> quiescent s = true -> restarts_and_delivers fuel s.
Proof.
  intros HT Hq off s1 o1 offs s2 o2 m ms fo Hoff H1 Hex H2 Hf.
  exact (delivers_again _ _ _ _ _ _ _ _ _ _ _ Hq (proj1 (quiescent_not_shutting _ HT Hq)) Hoff H1 Hex H2 Hf).
Qed.
Theorem stop_then_restart_run n0 fuel evs c buf : all_fuel_ok (run_steps fuel (init c n0 buf) evs) = true ->
  Forall (fun t => t_ev t = EStop -> s_startd (t_pre t) <> None ->
            s_shutting (t_post t) = false /\ s_shutd (t_post t) = false /\ restarts_and_delivers fuel (t_post t))
         (run_steps fuel (init c n0 buf) evs).
Proof.
  intro Hf. pose proof (top_run n0 fuel evs _ (reach_init n0 c buf) (Top_init c n0 buf) Hf) as HA.
  pose proof (stop_run n0 fuel evs _ (reach_init n0 c buf) Hf) as HS.
  rewrite Forall_forall in *. intros t Hin He Hs. destruct (HS t Hin He Hs) as (_ & Hq & _).
  destruct (HA t Hin) as (_ & HT). destruct (quiescent_not_shutting _ HT Hq) as (X1 & X2).
  split; [exact X1 | split; [exact X2 | exact (quiescent_restart_delivers fuel _ HT Hq)]].
Qed.

(* in every state between two events of every run, ANY stop() entered with _stopping clear that returns - the application's,
   one made by the processor, the one ending a shutdown - clears the shutdown bookkeeping *)
Theorem stop_clears_run n0 fuel evs c buf : all_fuel_ok (run_steps fuel (init c n0 buf) evs) = true ->
  Forall (fun t => forall f s' o, run f KStop (t_post t) = (Ok tt, s', o) -> fuel_ok o = true ->
                     s_shutting s' = false /\ s_shutd s' = false)
         (run_steps fuel (init c n0 buf) evs).
Proof.
  intro Hf. pose proof (top_run n0 fuel evs _ (reach_init n0 c buf) (Top_init c n0 buf) Hf) as HA.
  pose proof (reach_run n0 fuel evs _ (reach_init n0 c buf) Hf) as HR.
  rewrite Forall_forall in *. intros t Hin f s' o H Hfo. destruct (HA t Hin) as (_ & HT). destruct (HR t Hin) as (_ & ((_ & Hst) & _)).
  exact (stop_clears_reachable _ _ _ _ HT Hst H Hfo).
Qed.
