(* C13: whenever the consumer is not started nothing of its COMMIT side is left either - no commit waiter, no commit request
   in flight, no commit-retry timer - as long as the application does not itself call commit() on the stopped consumer
   (the code accepts that call and sends the request).  Holds after every nested execution, in particular after a stop()
   made from inside the processor and whatever runs after it in the same event; with ConsumerNotStarted.v (fetch side) this
   is full quiescence for the rest of that event and until the next start() or manual commit(). *)
From Coq Require Import Lia.
From AV Require Import Base.Util Model.Consumer Proofs.ConsumerBase Proofs.ConsumerFrame Proofs.ConsumerStop Proofs.ConsumerInv
  Proofs.ConsumerRun Proofs.ConsumerNotStarted.
Open Scope Z_scope.

Definition NC (s : state) : Prop := s_startd s = None -> s_cds s = [] /\ s_creq s = None /\ s_ccall s = None.

(* what the methods that never recurse (other than commit() made by hand) may do *)
Definition KQ (s s' : state) : Prop :=
  (s_startd s' = None <-> s_startd s = None) /\
  (s_startd s = None -> s_cds s' = s_cds s /\ s_creq s' = s_creq s /\ s_ccall s' = s_ccall s).
Lemma KQ_refl s : KQ s s. Proof. unfold KQ. tauto. Qed.
Lemma KQ_trans a b c : KQ a b -> KQ b c -> KQ a c.
Proof.
  unfold KQ. intros (a1 & a2) (b1 & b2). split; [tauto|]. intro H. destruct (a2 H) as (x1 & x2 & x3).
  destruct (b2 (proj2 a1 H)) as (y1 & y2 & y3). repeat split; congruence.
Qed.
Ltac kq_explicit := solve [ unfold KQ; psimpl; repeat split; auto; try (intros; congruence); try (intros; discriminate);
  repeat match goal with D : s_startd _ = _ |- _ => rewrite D in * end; try (intros; congruence); try (intros; discriminate);
  unfold is_some in *; bsimp; intros; try congruence; try discriminate ].
Ltac kq_chain :=
  lazymatch goal with
  | |- KQ ?s ?s' =>
    first [ match goal with
            | H : KQ ?a ?b |- _ =>
              lazymatch s' with context [b] => idtac end;
              apply (KQ_trans s b s'); [ apply (KQ_trans s a b); [ clear H; kq_chain | exact H ] | kq_explicit ]
            end
          | kq_explicit ]
  end.
Ltac use L := repeat match goal with E : _ = (_, _, _) |- _ => apply L in E end.

Lemma startd_errback_kq fk s r s' o : startd_errback fk s = (r, s', o) -> KQ s s'.
Proof. intro H. unfold startd_errback in H. mi H; kq_chain. Qed.
Lemma handle_auto_commit_error_kq fk s r s' o : handle_auto_commit_error fk s = (r, s', o) -> KQ s s'.
Proof. intro H. unfold handle_auto_commit_error in H. mi H; use startd_errback_kq; kq_chain. Qed.
Lemma handle_processor_error_kq fk s r s' o : handle_processor_error fk s = (r, s', o) -> KQ s s'.
Proof. intro H. unfold handle_processor_error in H. mi H; use startd_errback_kq; kq_chain. Qed.
(* _auto_commit does nothing on a consumer that is not started *)
Lemma auto_commit_kq bc s r s' o : auto_commit bc s = (r, s', o) -> KQ s s'.
Proof.
  intro H. destruct (s_startd s) eqn:Esd.
  - pose proof (auto_commit_kp _ _ _ _ _ H) as (K & _). unfold KQ. split; [exact K|]. intro Hx. congruence.
  - unfold auto_commit in H. mi H; try apply KQ_refl.
    all: exfalso; unfold is_some in *; rewrite ?Esd in *; cbn [negb] in *; rewrite ?orb_true_r in *; cbn [orb] in *; discriminate.
Qed.
Lemma proc_chain_kq last fk s r s' o : proc_chain last fk s = (r, s', o) -> KQ s s'.
Proof. intro H. unfold proc_chain in H. mi H; use auto_commit_kq; use handle_processor_error_kq; kq_chain. Qed.
Lemma pop_plan_kq s r s' o : pop_plan s = (r, s', o) -> KQ s s'.
Proof. intro H. unfold pop_plan in H. mi H; kq_chain. Qed.
Lemma emit_shutd_kq x s r s' o : emit_shutd x s = (r, s', o) -> KQ s s'.
Proof. intro H. unfold emit_shutd in H. mi H; kq_chain. Qed.
Lemma interrupted_kq s r s' o : interrupted s = (r, s', o) -> KQ s s'.
Proof. intro H. unfold interrupted in H. mi H; use emit_shutd_kq; kq_chain. Qed.
Lemma retry_fetch_kq z s r s' o : retry_fetch z s = (r, s', o) -> KQ s s'.
Proof. intro H. unfold retry_fetch in H. mi H; kq_chain. Qed.
Lemma handle_fetch_error_kq fk s r s' o : handle_fetch_error fk s = (r, s', o) -> KQ s s'.
Proof. intro H. unfold handle_fetch_error in H. mi H; use startd_errback_kq; use retry_fetch_kq; kq_chain. Qed.
Lemma handle_offset_error_kq fk s r s' o : handle_offset_error fk s = (r, s', o) -> KQ s s'.
Proof. intro H. unfold handle_offset_error in H. mi H; use startd_errback_kq; use retry_fetch_kq; kq_chain. Qed.
Lemma do_fetch_kq s r s' o : do_fetch s = (r, s', o) -> KQ s s'.
Proof. intro H. unfold do_fetch in H. mi H; use startd_errback_kq; kq_chain. Qed.
Lemma handle_offset_response_kq kd v s r s' o : handle_offset_response kd v s = (r, s', o) -> KQ s s'.
Proof. intro H. unfold handle_offset_response in H. mi H; use do_fetch_kq; kq_chain. Qed.

(* ---------------- the re-entrant part ---------------- *)
Ltac qsolve := first [ assumption | solve [
  bsimp; unfold is_some in *;
  repeat match goal with D : match s_startd ?x with Some _ => true | None => false end = true |- _ =>
           let b := fresh "b" in let Eb := fresh "Eb" in destruct (s_startd x) as [b|] eqn:Eb; [clear D | discriminate D] end;
  repeat match goal with K : KQ _ _ |- _ => destruct K as (? & ?) end;
  repeat match goal with K : KP _ _ |- _ => destruct K as (? & _) end;
  unfold NC in *; psimpl;
  intuition (try congruence; try discriminate) ] ].
Ltac qfwd := repeat match goal with
  | P : NC ?a -> _ |- _ => let Q := fresh "Q" in assert (Q : NC a) by qsolve; specialize (P Q); clear Q
  end.

Section RecQ.
Variable f : nat.
Hypothesis IH : forall k s r s' o, run f k s = (r, s', o) -> fuel_ok o = true -> NC s -> NC s'.

Ltac use_ih := repeat match goal with
  | E : run f ?k ?s1 = (?r, ?s2, ?o1), Hf : fuel_ok ?o1 = true |- _ =>
    let P := fresh "P" in pose proof (IH _ _ _ _ _ E Hf) as P; clear E
  end.
Ltac specs :=
  use startd_errback_kq; use handle_auto_commit_error_kq; use handle_processor_error_kq; use auto_commit_kq; use proc_chain_kq;
  use pop_plan_kq; use emit_shutd_kq; use interrupted_kq; use retry_fetch_kq;
  use send_commit_request_kp; use commit_kp; use api_commit_kp.

Lemma api_stop_q s r s' o : api_stop (run f) s = (r, s', o) -> fuel_ok o = true -> NC s -> NC s'.
Proof. intros H Hf HN. unfold api_stop in H. mi H; fuel_split; use_ih; qfwd; qsolve. Qed.
Lemma api_shutdown_q s r s' o : api_shutdown (run f) s = (r, s', o) -> fuel_ok o = true -> NC s -> NC s'.
Proof. intros H Hf HN. unfold api_shutdown in H. mi H; split_state_if; fuel_split; use_ih; qfwd; qsolve. Qed.
Lemma handle_commit_error_q fk i a s r s' o :
  handle_commit_error (run f) fk i a s = (r, s', o) -> fuel_ok o = true -> NC s -> s_startd s <> None -> NC s'.
Proof. intros H Hf HN Hs. unfold handle_commit_error in H. mi H; fuel_split; use_ih; qfwd; qsolve. Qed.
Lemma fire_all_q cr : forall ds s r s' o, fire_all (run f) ds cr s = (r, s', o) -> fuel_ok o = true -> NC s -> NC s'.
Proof.
  induction ds as [|d ds IHds]; intros s r s' o H Hf HN; cbn [fire_all] in H.
  - mi H. exact HN.
  - mi H; fuel_split; use_ih; qfwd.
    all: match goal with E : fire_all _ _ _ _ = _ |- _ => apply IHds in E; assumption end.
Qed.
Lemma finish_block_q s r s' o : finish_block (run f) s = (r, s', o) -> fuel_ok o = true -> NC s -> NC s'.
Proof. intros H Hf HN. unfold finish_block in H. mi H; fuel_split; use_ih; qfwd; qsolve. Qed.

Ltac specs2 :=
  specs;
  repeat match goal with
  | E : api_stop _ _ = _, Hf : fuel_ok _ = true |- _ => let X := fresh "X" in pose proof (api_stop_q _ _ _ _ E Hf) as X; clear E
  | E : api_shutdown _ _ = _, Hf : fuel_ok _ = true |- _ => let X := fresh "X" in pose proof (api_shutdown_q _ _ _ _ E Hf) as X; clear E
  | E : fire_all _ _ _ _ = _, Hf : fuel_ok _ = true |- _ => let X := fresh "X" in pose proof (fire_all_q _ _ _ _ _ _ E Hf) as X; clear E
  | E : finish_block _ _ = _, Hf : fuel_ok _ = true |- _ => let X := fresh "X" in pose proof (finish_block_q _ _ _ _ E Hf) as X; clear E
  end.
Ltac go H := cbn [body] in H; mi H; fuel_split; use_ih; specs2; qfwd; qsolve.

Lemma body_KStopCds_q s r s' o : body (run f) KStopCds s = (r, s', o) -> fuel_ok o = true -> NC s -> NC s'.
Proof.
  intros H Hf HN. cbn [body] in H; mi H; fuel_split; use_ih; specs2.
  all: try (assert (Hx : s_startd s <> None) by (intro Hn; destruct (HN Hn) as (Hc & _); rewrite Hc in D; discriminate D)).
  all: qfwd; qsolve.
Qed.
Lemma body_KFireProc_q fk s r s' o : body (run f) (KFireProc fk) s = (r, s', o) -> fuel_ok o = true -> NC s -> NC s'.
Proof. intros H Hf HN. go H. Qed.
Lemma body_KCommitAndStop_q s r s' o : body (run f) KCommitAndStop s = (r, s', o) -> fuel_ok o = true -> NC s -> NC s'.
Proof. intros H Hf HN. go H. Qed.
Lemma body_KShutFinish_q fk s r s' o : body (run f) (KShutFinish fk) s = (r, s', o) -> fuel_ok o = true -> NC s -> NC s'.
Proof. intros H Hf HN. go H. Qed.
Lemma body_KFireCd_q d cr s r s' o : body (run f) (KFireCd d cr) s = (r, s', o) -> fuel_ok o = true -> NC s -> NC s'.
Proof. intros H Hf HN. go H. Qed.
Lemma body_KDeliver_q cr s r s' o : body (run f) (KDeliver cr) s = (r, s', o) -> fuel_ok o = true -> NC s -> NC s'.
Proof. intros H Hf HN. go H. Qed.
Lemma body_KProcLoop_q msgs s r s' o : body (run f) (KProcLoop msgs) s = (r, s', o) -> fuel_ok o = true -> NC s -> NC s'.
Proof. intros H Hf HN. go H. Qed.
Lemma body_KFetchResp_q offs ts s r s' o : body (run f) (KFetchResp offs ts) s = (r, s', o) -> fuel_ok o = true -> NC s -> NC s'.
Proof. intros H Hf HN. go H. Qed.
End RecQ.

(* stop() itself: the waiters are all fired, the commit request is cancelled, the commit-retry timer is cancelled, and nothing
   that runs inside stop() re-creates them *)
Ltac fwq := repeat match goal with
  | E : run ?f ?k ?a = (?r, ?b, ?o1), Hf : fuel_ok ?o1 = true |- _ =>
    let S := fresh "S" in assert (S : s_stopping a = true) by (psimpl; congruence);
    let I3 := fresh "I3" in pose proof (run_stop _ _ _ _ _ _ E Hf) as I3; cbn beta iota in I3; specialize (I3 S);
    let A := fresh "A" in destruct I3 as (I3 & _ & A); cbn [achieves] in A; pose proof (i_stopping _ _ I3); clear E
  | E : stop_req ?a = (_, ?b, _) |- _ =>
    apply stop_req_in in E; [|psimpl; congruence]; destruct E as (E & _ & _); pose proof (i_stopping _ _ E)
  | E : stop_mblock ?a = (_, ?b, _) |- _ => apply stop_mblock_in in E; destruct E as (E & _ & _); pose proof (i_stopping _ _ E)
  | E : stop_rcall ?a = (_, ?b, _) |- _ => apply stop_rcall_in in E; destruct E as (E & _ & _); pose proof (i_stopping _ _ E)
  | E : stop_ccall ?a = (_, ?b, _) |- _ =>
    let Cc := fresh "Cc" in apply stop_ccall_in in E; destruct E as (E & _ & Cc); pose proof (i_stopping _ _ E)
  | E : stop_looper ?a = (_, ?b, _) |- _ => apply stop_looper_in in E; destruct E as (E & _ & _); pose proof (i_stopping _ _ E)
  | E : stop_susp ?a = (_, ?b, _) |- _ => apply stop_susp_in in E; destruct E as (E & _ & _); pose proof (i_stopping _ _ E)
  end.

Lemma body_KStop_q f s r s' o : body (run f) KStop s = (r, s', o) -> fuel_ok o = true -> NC s -> NC s'.
Proof.
  intros H Hf HN. cbn [body] in H. unfold stop_startd, stop_proc, stop_creq, handle_commit_error in H.
  change (is_cancel FK_CANCELLED) with true in H.
  mi H; fuel_split; fwq.
  all: try exact HN.
  (* stop() aborted half-way: still started *)
  all: try (solve [ match goal with |- NC ?y =>
         lazymatch y with set_startd None _ => fail | _ => idtac end;
         let I := fresh "I" in assert (I : In3 (set_stopping true s) y) by in3_chain;
         let Hs := fresh "Hs" in pose proof (i_startd _ _ I) as Hs; psimpl; rewrite D in Hs;
         unfold NC; intro Hn; rewrite Hn in Hs; discriminate Hs end ]).
  (* stop() ran to its end *)
  all: match goal with |- NC (set_startd None (set_stopping false ?x)) =>
         assert (Hc : s_cds x = [])
           by (match goal with A : s_cds ?b = [] |- _ => apply (i_cds b x); [in3_chain | exact A] end);
         assert (Hq : s_creq x = None)
           by (first [ match goal with I : In3 (set_creq None ?b) _ |- _ => apply (i_creq (set_creq None b) x); [in3_chain | reflexivity] end
                     | match goal with A : s_creq ?b = None |- _ => apply (i_creq b x); [in3_chain | exact A] end ]);
         assert (Hl : s_ccall x = None)
           by (match goal with A : s_ccall ?b = None |- _ => apply (i_ccall b x); [in3_chain | exact A] end);
         unfold NC; psimpl; auto
       end.
Qed.

Theorem run_q fuel k s r s' o : run fuel k s = (r, s', o) -> fuel_ok o = true -> NC s -> NC s'.
Proof.
  intro H. refine (run_ind (fun _ _ => True) (fun k s _ s' o => fuel_ok o = true -> NC s -> NC s') _ _ fuel k s r s' o I H); clear.
  - intros k s _ Hf. discriminate Hf.
  - intros f IH k s r s' o _ H Hf HP.
    assert (IH' : forall k s r s' o, run f k s = (r, s', o) -> fuel_ok o = true -> NC s -> NC s') by (intros; eapply IH; eauto).
    destruct k.
    + exact (body_KStop_q f _ _ _ _ H Hf HP).
    + exact (body_KStopCds_q f IH' _ _ _ _ H Hf HP).
    + exact (body_KFireProc_q f IH' _ _ _ _ _ H Hf HP).
    + exact (body_KProcLoop_q f IH' _ _ _ _ _ H Hf HP).
    + exact (body_KFetchResp_q f IH' _ _ _ _ _ _ H Hf HP).
    + exact (body_KCommitAndStop_q f IH' _ _ _ _ H Hf HP).
    + exact (body_KShutFinish_q f IH' _ _ _ _ _ H Hf HP).
    + exact (body_KFireCd_q f IH' _ _ _ _ _ _ H Hf HP).
    + exact (body_KDeliver_q f IH' _ _ _ _ _ H Hf HP).
Qed.


(* ---------------- between two events ---------------- *)
Ltac top_ihq := fuel_split; repeat match goal with
  | E : run _ ?k ?s1 = (?r, ?s2, ?o1), Hf : fuel_ok ?o1 = true |- _ =>
    let P := fresh "P" in pose proof (run_q _ _ _ _ _ _ E Hf) as P; clear E
  end.
Ltac specs_topq :=
  use startd_errback_kq; use handle_auto_commit_error_kq; use handle_processor_error_kq; use auto_commit_kq; use proc_chain_kq;
  use pop_plan_kq; use emit_shutd_kq; use interrupted_kq; use retry_fetch_kq; use handle_fetch_error_kq; use handle_offset_error_kq;
  use do_fetch_kq; use handle_offset_response_kq; use send_commit_request_kp; use commit_kp; use api_commit_kp.

(* every event except a commit() the application makes by hand on a consumer that is not started *)
Lemma handle_q fuel e s s' o : handle fuel e s = (Ok tt, s', o) -> fuel_ok o = true -> NC s ->
  (e = ECommit -> s_startd s <> None) -> NC s'.
Proof.
  intros H Hf HN He. unfold handle in H. cbn zeta in H. destruct e.
  all: first [ specialize (He eq_refl) | clear He ].
  all: unfold flush_pend, handle_commit_error, api_stop, api_shutdown in H; mi H; split_state_if; top_ihq; specs_topq; qfwd.
  all: qsolve.
Qed.

Lemma NC_init c n0 buf : NC (init c n0 buf).
Proof. intros _. cbn. auto. Qed.

Definition commit_idle (s : state) : bool :=
  implb (is_none (s_startd s)) (is_nil (s_cds s) && is_none (s_creq s) && is_none (s_ccall s)).
Lemma commit_idle_iff s : commit_idle s = true <-> NC s.
Proof.
  unfold commit_idle, NC, is_none, is_nil. destruct (s_startd s); cbn [implb].
  - split; [intros _ Hx; discriminate Hx | reflexivity].
  - destruct (s_cds s), (s_creq s), (s_ccall s); cbn; split; intro H; auto; try discriminate;
      try (destruct (H eq_refl) as (? & ? & ?); discriminate).
Qed.

(* one event: the commit side of a stopped consumer stays empty unless the application itself calls commit() on it *)
Theorem commit_idle_step fuel s e s' o : step fuel s e = (s', o) -> fuel_ok o = true -> commit_idle s = true ->
  (e = ECommit -> s_startd s <> None) -> commit_idle s' = true.
Proof.
  intros H Hf Hc He. apply step_inv in H. destruct H as (o1 & H & ->). apply fuel_ok_app_inv in Hf. destruct Hf as (Hf & _).
  apply commit_idle_iff. apply commit_idle_iff in Hc. exact (handle_q _ _ _ _ _ H Hf Hc He).
Qed.

(* whole runs: as long as no commit() was made by hand on the stopped consumer, after EVERY step a consumer that is not
   started has no commit waiter, no commit request in flight and no commit-retry timer *)
Definition manual_commit_on_stopped (t : tstep) : bool :=
  match t_ev t with ECommit => is_none (s_startd (t_pre t)) | _ => false end.
Fixpoint commit_idle_run (tr : list tstep) : bool :=
  match tr with
  | [] => true
  | t :: r => manual_commit_on_stopped t || (commit_idle (t_post t) && commit_idle_run r)
  end.
Theorem commit_idle_run_holds fuel : forall evs s, commit_idle s = true -> all_fuel_ok (run_steps fuel s evs) = true ->
  commit_idle_run (run_steps fuel s evs) = true.
Proof.
  induction evs as [|e evs IH]; intros s Hc Hf; cbn [run_steps] in *; [reflexivity|].
  destruct (step fuel s e) as [s1 o] eqn:E. cbn [all_fuel_ok forallb t_out] in Hf. apply andb_prop in Hf. destruct Hf as (Hf1 & Hf2).
  cbn [commit_idle_run]. unfold manual_commit_on_stopped. cbn [t_ev t_pre t_post].
  destruct (match e with ECommit => is_none (s_startd s) | _ => false end) eqn:Em; [reflexivity|]. cbn [orb].
  assert (He : e = ECommit -> s_startd s <> None).
  { intros -> Hn. rewrite Hn in Em. discriminate Em. }
  rewrite (commit_idle_step _ _ _ _ _ E Hf1 Hc He). cbn [andb]. apply IH; [exact (commit_idle_step _ _ _ _ _ E Hf1 Hc He) | exact Hf2].
Qed.
