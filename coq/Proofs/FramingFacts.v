(* Facts about Model/Framing.v: the receiver loop is independent of how the byte stream is chunked. *)
From AV Require Import Base.Util Proofs.UtilFacts Model.Framing.
From Coq Require Import Lia ZifyBool.
Ltac Zify.zify_post_hook ::= Z.to_euclidean_division_equations.

Lemma take_app_le {A} n (a b : list A) : (n <= length a)%nat -> take n (a ++ b) = take n a.
Proof.
  revert a; induction n as [|n IH]; intros [|x a] H; cbn in *; try reflexivity; try lia.
  f_equal. apply IH. lia.
Qed.

Lemma drop_app_le {A} n (a b : list A) : (n <= length a)%nat -> drop n (a ++ b) = drop n a ++ b.
Proof.
  revert a; induction n as [|n IH]; intros [|x a] H; cbn in *; try reflexivity; try lia.
  apply IH. lia.
Qed.

Lemma drop_length_le {A} n (a : list A) : (length (drop n a) <= length a)%nat.
Proof. revert a; induction n as [|n IH]; intros [|x a]; cbn; try lia. specialize (IH a). lia. Qed.

Lemma take_all {A} (a : list A) : take (length a) a = a.
Proof. induction a; cbn; congruence. Qed.
Lemma drop_all {A} (a : list A) : drop (length a) a = [].
Proof. induction a; cbn; congruence. Qed.

Lemma be32_enc32 n : 0 <= n < 4294967296 ->
  be32 ((n / 16777216) mod 256) ((n / 65536) mod 256) ((n / 256) mod 256) (n mod 256) = n.
Proof. unfold be32. intros. lia. Qed.

(* ---- fuel: any amount above the length of the input gives the same answer, and never runs out ---- *)
Lemma rx_loop_fuel ok : forall f1 f2 rest, (length rest < f1)%nat -> (length rest < f2)%nat ->
  rx_loop ok f1 rest = rx_loop ok f2 rest.
Proof.
  induction f1 as [|f1 IH]; intros f2 rest H1 H2; [lia|].
  destruct f2 as [|f2]; [lia|]. cbn [rx_loop].
  destruct rest as [|b0 [|b1 [|b2 [|b3 body]]]]; try reflexivity.
  destruct (MAX_LENGTH <? be32 b0 b1 b2 b3); [reflexivity|].
  destruct (Z.of_nat (length body) <? be32 b0 b1 b2 b3); [reflexivity|].
  destruct (ok _); [|reflexivity].
  rewrite (IH f2); [reflexivity| |];
    pose proof (drop_length_le (Z.to_nat (be32 b0 b1 b2 b3)) body); cbn [length] in *; lia.
Qed.

Definition parse (ok : list Z -> bool) (s : list Z) := rx_loop ok (S (length s)) s.

Lemma parse_fuel ok f s : (length s < f)%nat -> rx_loop ok f s = parse ok s.
Proof. intro H. unfold parse. apply rx_loop_fuel; lia. Qed.

Lemma data_received_parse ok buf c : data_received ok buf c = parse ok (buf ++ c).
Proof. reflexivity. Qed.

Lemma rx_loop_no_fuel ok : forall f rest fs, (length rest < f)%nat -> rx_loop ok f rest <> (fs, RxFuel).
Proof.
  induction f as [|f IH]; intros rest fs H; [lia|]. cbn [rx_loop].
  destruct rest as [|b0 [|b1 [|b2 [|b3 body]]]]; try discriminate.
  destruct (MAX_LENGTH <? be32 b0 b1 b2 b3); [discriminate|].
  destruct (Z.of_nat (length body) <? be32 b0 b1 b2 b3); [discriminate|].
  destruct (ok _); [|discriminate].
  destruct (rx_loop ok f (drop _ body)) as [fs' e'] eqn:E.
  intro X. injection X as _ ->. eapply IH; [|exact E].
  pose proof (drop_length_le (Z.to_nat (be32 b0 b1 b2 b3)) body); cbn [length] in *; lia.
Qed.

Lemma parse_no_fuel ok s fs : parse ok s <> (fs, RxFuel).
Proof. apply rx_loop_no_fuel. lia. Qed.

(* one unfolding of the loop on a stream that starts with a complete header *)
Lemma rx_loop_S4 ok f b0 b1 b2 b3 body :
  rx_loop ok (S f) (b0 :: b1 :: b2 :: b3 :: body) =
  let len := be32 b0 b1 b2 b3 in
  if MAX_LENGTH <? len then ([], RxLimit len)
  else if Z.of_nat (length body) <? len then ([], RxMore (b0 :: b1 :: b2 :: b3 :: body))
  else let n := Z.to_nat len in
       if ok (take n body) then let (fs, e) := rx_loop ok f (drop n body) in (take n body :: fs, e)
       else ([take n body], RxRaised).
Proof. reflexivity. Qed.

Lemma parse_cons4 ok b0 b1 b2 b3 body :
  parse ok (b0 :: b1 :: b2 :: b3 :: body) =
  let len := be32 b0 b1 b2 b3 in
  if MAX_LENGTH <? len then ([], RxLimit len)
  else if Z.of_nat (length body) <? len then ([], RxMore (b0 :: b1 :: b2 :: b3 :: body))
  else let n := Z.to_nat len in
       if ok (take n body) then let (fs, e) := parse ok (drop n body) in (take n body :: fs, e)
       else ([take n body], RxRaised).
Proof.
  unfold parse at 1. rewrite rx_loop_S4. cbv zeta.
  destruct (MAX_LENGTH <? be32 b0 b1 b2 b3); [reflexivity|].
  destruct (Z.of_nat (length body) <? be32 b0 b1 b2 b3); [reflexivity|].
  destruct (ok _); [|reflexivity].
  rewrite parse_fuel; [reflexivity|].
  pose proof (drop_length_le (Z.to_nat (be32 b0 b1 b2 b3)) body). cbn [length]. lia.
Qed.

Lemma parse_short ok s : (length s < 4)%nat -> parse ok s = ([], RxMore s).
Proof.
  intro H. unfold parse. cbn [rx_loop].
  destruct s as [|b0 [|b1 [|b2 [|b3 body]]]]; try reflexivity. cbn in H. lia.
Qed.

(* ---- the stream may be extended: what was parsed stays parsed, an abort stays the same abort ---- *)
Lemma parse_app ok : forall n s t fs e, (length s <= n)%nat -> parse ok s = (fs, e) ->
  match e with
  | RxMore r => parse ok (s ++ t) = (let (fs2, e2) := parse ok (r ++ t) in (fs ++ fs2, e2))
                /\ parse ok r = ([], RxMore r)
  | RxFuel => False
  | _ => parse ok (s ++ t) = (fs, e)
  end.
Proof.
  induction n as [|n IH]; intros s t fs e Hn H.
  - destruct s; [|cbn in Hn; lia]. cbn in H. injection H as <- <-. cbn [app].
    split; [destruct (parse ok t); reflexivity | reflexivity].
  - destruct s as [|b0 [|b1 [|b2 [|b3 body]]]];
      try (rewrite parse_short in H by (cbn; lia); injection H as <- <-;
           split; [destruct (parse ok (_ ++ t)); reflexivity | apply parse_short; cbn; lia]).
    rewrite parse_cons4 in H. cbv zeta in H.
    change ((b0 :: b1 :: b2 :: b3 :: body) ++ t) with (b0 :: b1 :: b2 :: b3 :: (body ++ t)).
    destruct (MAX_LENGTH <? be32 b0 b1 b2 b3) eqn:E1.
    { injection H as <- <-. rewrite parse_cons4. cbv zeta. rewrite E1. reflexivity. }
    destruct (Z.of_nat (length body) <? be32 b0 b1 b2 b3) eqn:E2.
    { injection H as <- <-. split.
      - change (b0 :: b1 :: b2 :: b3 :: body ++ t) with ((b0 :: b1 :: b2 :: b3 :: body) ++ t).
        destruct (parse ok (_ ++ t)); reflexivity.
      - rewrite parse_cons4. cbv zeta. rewrite E1, E2. reflexivity. }
    assert (Hlen : (Z.to_nat (be32 b0 b1 b2 b3) <= length body)%nat) by lia.
    rewrite parse_cons4. cbv zeta. rewrite E1.
    replace (Z.of_nat (length (body ++ t)) <? be32 b0 b1 b2 b3) with false
      by (rewrite app_length; lia).
    rewrite take_app_le, drop_app_le by exact Hlen.
    destruct (ok (take _ body)) eqn:E3.
    + destruct (parse ok (drop _ body)) as [fs1 e1] eqn:E4. injection H as <- <-.
      specialize (IH (drop (Z.to_nat (be32 b0 b1 b2 b3)) body) t fs1 e1).
      pose proof (drop_length_le (Z.to_nat (be32 b0 b1 b2 b3)) body).
      cbn [length] in Hn. specialize (IH ltac:(lia) E4).
      destruct e1.
      * destruct IH as [IH1 IH2]. rewrite IH1. split; [|exact IH2].
        destruct (parse ok (rest ++ t)); reflexivity.
      * rewrite IH. reflexivity.
      * rewrite IH. reflexivity.
      * contradiction.
    + injection H as <- <-. reflexivity.
Qed.

Lemma parse_app_more ok s t fs r : parse ok s = (fs, RxMore r) ->
  parse ok (s ++ t) = (let (fs2, e2) := parse ok (r ++ t) in (fs ++ fs2, e2)) /\ parse ok r = ([], RxMore r).
Proof. intro H. exact (parse_app ok (length s) s t fs (RxMore r) (le_n _) H). Qed.

Lemma parse_app_limit ok s t fs len : parse ok s = (fs, RxLimit len) -> parse ok (s ++ t) = (fs, RxLimit len).
Proof. intro H. exact (parse_app ok (length s) s t fs (RxLimit len) (le_n _) H). Qed.

Lemma parse_app_raised ok s t fs : parse ok s = (fs, RxRaised) -> parse ok (s ++ t) = (fs, RxRaised).
Proof. intro H. exact (parse_app ok (length s) s t fs RxRaised (le_n _) H). Qed.

(* ---- chunking invariance ---- *)
Definition irreducible ok (buf : list Z) := parse ok buf = ([], RxMore buf).

Definition is_more (r : list (list Z) * rx_end) : Prop := exists rest, snd r = RxMore rest.

Lemma chunk_invariance ok : forall chunks buf fs r, irreducible ok buf ->
  parse ok (buf ++ concat chunks) = (fs, RxMore r) ->
  concat (map fst (fst (rx_run ok buf chunks))) = fs /\ snd (rx_run ok buf chunks) = r
  /\ Forall is_more (fst (rx_run ok buf chunks)).
Proof.
  induction chunks as [|c cs IH]; intros buf fs r Hb H.
  - cbn [concat] in H. cbn [rx_run fst snd map concat]. rewrite app_nil_r in H. unfold irreducible in Hb.
    rewrite Hb in H. injection H as <- <-. repeat split. constructor.
  - cbn [rx_run concat] in *. rewrite data_received_parse.
    destruct (parse ok (buf ++ c)) as [fs1 e1] eqn:E1. cbn [snd].
    rewrite app_assoc in H.
    destruct e1 as [r1| | |].
    + destruct (parse_app_more ok _ (concat cs) _ _ E1) as [P1 P2]. rewrite P1 in H.
      destruct (parse ok (r1 ++ concat cs)) as [fs2 e2] eqn:E2. injection H as <- ->.
      cbn [rx_newbuf]. specialize (IH r1 fs2 r P2 E2).
      destruct (rx_run ok r1 cs) as [rs b]. cbn [fst snd map concat] in *.
      destruct IH as (I1 & I2 & I3). rewrite I1. repeat split; [exact I2|].
      constructor; [exists r1; reflexivity | exact I3].
    + rewrite (parse_app_limit ok _ (concat cs) _ _ E1) in H. discriminate.
    + rewrite (parse_app_raised ok _ (concat cs) _ E1) in H. discriminate.
    + exfalso. exact (parse_no_fuel ok _ _ E1).
Qed.

(* ---- encoded frames parse back ---- *)
Definition frame_ok (ok : list Z -> bool) (f : list Z) : Prop :=
  ok f = true /\ Z.of_nat (length f) <= MAX_LENGTH.

Lemma parse_encode_frame ok body t : frame_ok ok body ->
  parse ok (encode_frame body ++ t) = (let (fs, e) := parse ok t in (body :: fs, e)).
Proof.
  intros [Hok Hlen]. unfold encode_frame, enc32. cbn [app].
  rewrite parse_cons4. cbv zeta.
  unfold MAX_LENGTH in *.
  rewrite be32_enc32 by lia.
  replace (2147483647 <? Z.of_nat (length body)) with false by lia.
  replace (Z.of_nat (length (body ++ t)) <? Z.of_nat (length body)) with false by (rewrite app_length; lia).
  rewrite Nat2Z.id.
  rewrite take_app_le, drop_app_le by lia.
  rewrite take_all, drop_all. cbn [app]. rewrite Hok. reflexivity.
Qed.

Lemma parse_encode_frames ok frames t : Forall (frame_ok ok) frames ->
  parse ok (concat (map encode_frame frames) ++ t) = (let (fs, e) := parse ok t in (frames ++ fs, e)).
Proof.
  induction 1 as [|f fr Hf _ IH]; cbn [map concat app].
  - destruct (parse ok t); reflexivity.
  - rewrite <- app_assoc. rewrite parse_encode_frame by exact Hf. rewrite IH.
    destruct (parse ok t); reflexivity.
Qed.

(* C06_reassembly *)
Theorem reassembly ok frames tail chunks : Forall (frame_ok ok) frames -> irreducible ok tail ->
  concat chunks = concat (map encode_frame frames) ++ tail ->
  concat (map fst (fst (rx_run ok [] chunks))) = frames /\ snd (rx_run ok [] chunks) = tail
  /\ Forall is_more (fst (rx_run ok [] chunks)).
Proof.
  intros Hf Ht Hc.
  pose proof (parse_encode_frames ok frames tail Hf) as P. rewrite Ht in P. rewrite app_nil_r in P.
  apply (chunk_invariance ok chunks [] frames tail); [reflexivity|]. cbn [app]. rewrite Hc. exact P.
Qed.

Lemma irreducible_nil ok : irreducible ok [].
Proof. reflexivity. Qed.

(* a strict prefix of an encoded frame is irreducible: nothing is delivered early *)
Lemma irreducible_prefix ok body n : Z.of_nat (length body) <= MAX_LENGTH ->
  (n < length (encode_frame body))%nat -> irreducible ok (take n (encode_frame body)).
Proof.
  intros Hlen Hn. unfold irreducible.
  destruct (Nat.lt_ge_cases n 4) as [H4|H4].
  - apply parse_short.
    assert (forall {A} k (l : list A), (length (take k l) <= k)%nat) as TL.
    { intros A k; induction k; intros [|x l]; cbn; try lia. specialize (IHk l). lia. }
    specialize (TL _ n (encode_frame body)). lia.
  - unfold encode_frame, enc32 in *. cbn [app length] in Hn.
    destruct n as [|[|[|[|m]]]]; try lia. cbn [app take].
    rewrite parse_cons4. cbv zeta. unfold MAX_LENGTH in *. rewrite be32_enc32 by lia.
    replace (2147483647 <? Z.of_nat (length body)) with false by lia.
    assert (forall {A} k (l : list A), (k <= length l)%nat -> length (take k l) = k) as TL.
    { intros A k; induction k; intros [|x l] Hk; cbn in *; try lia. rewrite IHk; lia. }
    rewrite TL by lia.
    replace (Z.of_nat m <? Z.of_nat (length body)) with true by lia. reflexivity.
Qed.

(* ---- the length limit ---- *)
Lemma parse_limit ok frames len tail : Forall (frame_ok ok) frames -> MAX_LENGTH < len < 4294967296 ->
  parse ok (concat (map encode_frame frames) ++ enc32 len ++ tail) = (frames, RxLimit len).
Proof.
  intros Hf Hl. rewrite parse_encode_frames by exact Hf.
  unfold enc32. cbn [app]. rewrite parse_cons4. cbv zeta. rewrite be32_enc32 by (unfold MAX_LENGTH in *; lia).
  replace (MAX_LENGTH <? len) with true by lia. rewrite app_nil_r. reflexivity.
Qed.

(* once a call has hit the limit, every later call on that connection gives the very same answer *)
Lemma rx_run_after_limit ok : forall cs buf fs len, parse ok buf = (fs, RxLimit len) ->
  Forall (fun r => r = (fs, RxLimit len)) (fst (rx_run ok buf cs)).
Proof.
  induction cs as [|c cs IH]; intros buf fs len H; cbn [rx_run]; [constructor|].
  rewrite data_received_parse. rewrite (parse_app_limit ok _ c _ _ H). cbn [snd rx_newbuf].
  specialize (IH (buf ++ c) fs len (parse_app_limit ok _ c _ _ H)).
  destruct (rx_run ok (buf ++ c) cs) as [rs b]. cbn [fst] in *. constructor; [reflexivity | exact IH].
Qed.

Lemma limit_chunked ok : forall chunks buf fs len, irreducible ok buf ->
  parse ok (buf ++ concat chunks) = (fs, RxLimit len) ->
  exists pre fc post, fst (rx_run ok buf chunks) = pre ++ (fc, RxLimit len) :: post
    /\ Forall is_more pre /\ concat (map fst pre) ++ fc = fs
    /\ Forall (fun r => r = (fc, RxLimit len)) post.
Proof.
  induction chunks as [|c cs IH]; intros buf fs len Hb H.
  - cbn [concat] in H. rewrite app_nil_r in H. unfold irreducible in Hb. rewrite Hb in H. discriminate.
  - cbn [rx_run concat] in *. rewrite data_received_parse.
    destruct (parse ok (buf ++ c)) as [fs1 e1] eqn:E1. cbn [snd].
    rewrite app_assoc in H.
    destruct e1 as [r1| len1 | |].
    + destruct (parse_app_more ok _ (concat cs) _ _ E1) as [P1 P2]. rewrite P1 in H.
      destruct (parse ok (r1 ++ concat cs)) as [fs2 e2] eqn:E2. injection H as <- ->.
      cbn [rx_newbuf]. destruct (IH r1 fs2 len P2 E2) as (pre & fc & post & I1 & I2 & I3 & I4).
      destruct (rx_run ok r1 cs) as [rs b]. cbn [fst] in *. subst rs.
      exists ((fs1, RxMore r1) :: pre), fc, post. repeat split.
      * constructor; [exists r1; reflexivity | exact I2].
      * cbn [map concat fst]. rewrite <- app_assoc. rewrite I3. reflexivity.
      * exact I4.
    + pose proof (parse_app_limit ok _ (concat cs) _ _ E1) as P. rewrite P in H. injection H as <- <-.
      cbn [rx_newbuf]. pose proof (rx_run_after_limit ok cs (buf ++ c) fs1 len1 E1) as A.
      destruct (rx_run ok (buf ++ c) cs) as [rs b]. cbn [fst] in *.
      exists [], fs1, rs. repeat split; [constructor | exact A].
    + rewrite (parse_app_raised ok _ (concat cs) _ E1) in H. discriminate.
    + exfalso. exact (parse_no_fuel ok _ _ E1).
Qed.

(* C06_length_limit *)
Theorem length_limit ok frames len tail chunks : Forall (frame_ok ok) frames -> MAX_LENGTH < len < 4294967296 ->
  concat chunks = concat (map encode_frame frames) ++ enc32 len ++ tail ->
  exists pre fc post, fst (rx_run ok [] chunks) = pre ++ (fc, RxLimit len) :: post
    /\ Forall is_more pre /\ concat (map fst pre) ++ fc = frames
    /\ Forall (fun r => r = (fc, RxLimit len)) post.
Proof.
  intros Hf Hl Hc. apply limit_chunked; [reflexivity|]. cbn [app]. rewrite Hc. apply parse_limit; assumption.
Qed.

(* ok4 is exactly "handleResponse does not raise" *)
Lemma ok4_length f : ok4 f = true <-> (4 <= length f)%nat.
Proof.
  unfold ok4, corr_id. destruct f as [|b0 [|b1 [|b2 [|b3 r]]]]; cbn; split; intro; try lia; try discriminate; reflexivity.
Qed.
