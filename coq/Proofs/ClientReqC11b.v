(* C11: the bound for a request of any owner (uses the monotone facts of Proofs/ClientReqMono.v). *)
From AV Require Import Base.Util Proofs.UtilFacts Model.Framing Proofs.FramingFacts
  Proofs.BrokerClientTbl Proofs.BrokerClientInv Proofs.BrokerClientC06 Proofs.BrokerClientC10.
From AV Require Model.BrokerClient.
From AV Require Import Model.ClientReq Proofs.ClientReqBase Proofs.ClientReqStep Proofs.ClientReqC11 Proofs.ClientReqMono
  Proofs.ClientReqStruct.
From Coq Require Import Lia.

(* the bound for a request of ANY owner: when its DelayedCall fires, its Deferred has fired by the end of the step *)
Lemma bound_any C i b h q t : TInvC [] C -> nth_error (c_bcs C) i = Some b -> nth_error (b_reqs b) h = Some q -> q_timer q = Some t ->
  exists b', nth_error (c_bcs (fst (step C (ETimer t)))) i = Some b' /\ In h (BrokerClient.t_fired (BrokerClient.s_t (b_st b')))
             /\ b_node b' = b_node b.
Proof.
  intros T Eb Eq Et. destruct q as [ow tm to]. cbn [q_timer] in Et. subst tm.
  cbn [step]. rewrite (timer_names _ _ _ _ _ _ T Eb Eq eq_refl). unfold creq_at. rewrite Eb, Eq, Nat.eqb_refl.
  destruct (timeout_wf C i h b ow t to T Eb Eq) as [Mo T2].
  set (C1 := upd_creq C i h (fun q => mkCreq (q_owner q) None true)) in *.
  unfold ev_bc at 1. unfold bc_event.
  assert (exists b1, nth_error (c_bcs C1) i = Some b1 /\ b_node b1 = b_node b /\ b_st b1 = b_st b) as (b1 & Eb1 & En1 & Es1).
  { eexists. split; [unfold C1, upd_creq, upd_bc; cbn [c_bcs with_bcs]; rewrite (nth_upd_same _ _ _ _ Eb); reflexivity|]. split; reflexivity. }
  destruct (apply_bc C1 i (BrokerClient.ECancel h)) as [C2 mo] eqn:A. cbn [fst snd] in Mo, T2. subst mo.
  assert (exists b2, nth_error (c_bcs C2) i = Some b2 /\ b_node b2 = b_node b /\ sfired (b_st b2) h) as (b2 & Eb2 & En2 & F2).
  { unfold apply_bc in A. rewrite Eb1 in A. destruct (BrokerClient.step (b_st b1) (BrokerClient.ECancel h)) as [s' mo'] eqn:Es.
    injection A as <- _. eexists. split; [unfold upd_bc; cbn [c_bcs with_bcs]; rewrite (nth_upd_same _ _ _ _ Eb1); reflexivity|].
    split; [exact En1|]. cbn [set_st b_st].
    assert (TInvC [(i, h)] (upd_bc C1 i (set_st s'))) as T2' by exact T2.
    assert (nth_error (c_bcs (upd_bc C1 i (set_st s'))) i = Some (set_st s' b1)) as E
      by (unfold upd_bc; cbn [c_bcs with_bcs]; rewrite (nth_upd_same _ _ _ _ Eb1); reflexivity).
    destruct (TInvC_bc _ _ _ _ T2' E) as (_ & _ & _ & _ & P). apply P. left. reflexivity. }
  destruct (Rmono_proc succ1 Rmono_succ1 [BrokerClient.ODef h BrokerClient.FailCancelled] C2 i (TInvC_all _ _ T2)) as [A3 M3].
  pose proof (proc_wf succ1 succ1_wf [BrokerClient.ODef h BrokerClient.FailCancelled] [] C2 i) as T3.
  cbn [def_handles flat_map app tag map] in T3. specialize (T3 T2).
  destruct (proc succ1 C2 i [BrokerClient.ODef h BrokerClient.FailCancelled]) as [C3 o3]. cbn [fst] in *.
  destruct (M3 i b2 Eb2) as (b3 & Eb3 & En3 & _ & F3 & _).
  destruct (g_dot (c_cfg C3)); cbn [fst].
  - destruct (Rmono_ev_bc C3 i BrokerClient.EDisconnect A3) as [_ M4].
    destruct (ev_bc C3 i BrokerClient.EDisconnect) as [C4 o4]. cbn [fst] in *.
    destruct (M4 i b3 Eb3) as (b4 & Eb4 & En4 & _ & F4 & _). exists b4. split; [exact Eb4|]. split; [apply F4, F3, F2 | congruence].
  - exists b3. split; [exact Eb3|]. split; [apply F3, F2 | congruence].
Qed.

Lemma c11_bound_any_full g evs i b h q t :
  nth_error (c_bcs (fst (run (init g) evs))) i = Some b -> nth_error (b_reqs b) h = Some q -> q_timer q = Some t ->
  exists b', nth_error (c_bcs (fst (step (fst (run (init g) evs)) (ETimer t)))) i = Some b'
             /\ In h (BrokerClient.t_fired (BrokerClient.s_t (b_st b'))) /\ b_node b' = b_node b.
Proof. apply bound_any. apply reachable_wf. Qed.
