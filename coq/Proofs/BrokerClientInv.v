(* The invariant of the broker-client machine and what every step guarantees (induction base for C06 / C10). *)
From AV Require Import Base.Util Proofs.UtilFacts Model.Framing Model.BrokerClient
  Proofs.FramingFacts Proofs.BrokerClientTbl.
From Coq Require Import Lia Sorting.Sorted.

Definition reqs (s : state) : list req := t_reqs (s_t s).

Record CInv (s : state) : Prop := {
  ci_t : TInv (s_t s);
  (* no connection: nothing is marked sent (hence no tombstones) *)
  ci_unsent : s_proto s = false -> Forall (fun r => r_sent r = false) (reqs s);
  (* connection up: everything in the table has been written on it and awaits a reply *)
  ci_sent : s_proto s = true -> Forall (fun r => r_sent r = true /\ r_expect r = true) (reqs s);
  ci_conn : s_proto s = true -> s_connector s = CNone;
  ci_closed : s_down s <> DNone -> reqs s = [] /\ (s_connector s = CNone \/ s_connector s = CStale);
  ci_open : s_down s = DNone -> s_connector s <> CStale;
  ci_dpend : s_down s = DPending -> s_proto s = true;
  ci_dfired : s_down s = DFired -> s_proto s = false;
  (* requests waiting without a connection: an attempt or a back-off timer is pending *)
  ci_reconn : s_down s = DNone -> s_proto s = false -> reqs s <> [] ->
              s_connector s = CAttempt \/ s_connector s = CTimer
}.

Definition step_ok (s s' : state) (outs : list output) : Prop :=
  CInv s' /\ (exists x, t_dlog (s_t s') = t_dlog (s_t s) ++ x)
  /\ scan (t_dlog (s_t s')) (t_fired (s_t s)) outs = Some (t_fired (s_t s')).

Lemma CInv_init : CInv init.
Proof.
  constructor; cbn; try discriminate; try constructor; try contradiction; try apply TInv_init; auto.
Qed.

Lemma step_ok_same s : CInv s -> step_ok s s [].
Proof. intro C. split; [exact C | split; [exists []; rewrite app_nil_r; reflexivity | reflexivity]]. Qed.

(* operations that neither add entries nor touch the sent / expect flags *)
Definition sub_flags (t t' : tbl) : Prop :=
  forall x', In x' (t_reqs t') ->
    exists x, In x (t_reqs t) /\ r_sent x' = r_sent x /\ r_expect x' = r_expect x /\ r_h x' = r_h x.

Lemma sub_flags_refl t : sub_flags t t.
Proof. intros x Hx. exists x. auto. Qed.
Lemma sub_flags_trans t1 t2 t3 : sub_flags t1 t2 -> sub_flags t2 t3 -> sub_flags t1 t3.
Proof.
  intros A B x3 H3. destruct (B x3 H3) as (x2 & H2 & E1 & E2 & E3). destruct (A x2 H2) as (x1 & H1 & F1 & F2 & F3).
  exists x1. repeat split; congruence.
Qed.

Lemma sub_flags_del t rid l f : sub_flags t (mkT (del rid (t_reqs t)) l f).
Proof. intros x Hx. cbn in Hx. apply in_del in Hx. exists x. tauto. Qed.
Lemma sub_flags_tomb t rid l f : sub_flags t (mkT (upd rid set_cancelled (t_reqs t)) l f).
Proof.
  intros x' Hx. cbn in Hx. apply in_upd in Hx. destruct Hx as (x & Hx & ->). exists x.
  destruct (r_id x =? rid); auto.
Qed.

Lemma fire_reqs t h o : t_reqs (fst (fire t h o)) = t_reqs t.
Proof. unfold fire. destruct (is_fired t h); reflexivity. Qed.

Lemma cancel_sub t h : sub_flags t (fst (cancel t h)).
Proof.
  unfold cancel. destruct (nth_error (t_dlog t) h); [|apply sub_flags_refl].
  destruct (is_fired t h); [apply sub_flags_refl|].
  destruct (lookup z (t_reqs t)); [|apply sub_flags_refl].
  intros x Hx. rewrite fire_reqs in Hx. destruct (r_sent r).
  - apply (sub_flags_tomb t z (t_dlog t) (t_fired t)). exact Hx.
  - apply (sub_flags_del t z (t_dlog t) (t_fired t)). exact Hx.
Qed.

Lemma handle_response_sub t f : sub_flags t (fst (handle_response t f)).
Proof.
  unfold handle_response. destruct (corr_id f); [|apply sub_flags_refl].
  destruct (lookup z (t_reqs t)); [|apply sub_flags_refl].
  destruct (r_cancelled r).
  - apply (sub_flags_del t z (t_dlog t) (t_fired t)).
  - intros x Hx. rewrite fire_reqs in Hx. apply (sub_flags_del t z (t_dlog t) (t_fired t)). exact Hx.
Qed.

Lemma deliver_sub : forall fs t, sub_flags t (fst (deliver t fs)).
Proof.
  induction fs as [|f fs IH]; intro t; cbn [deliver]; [apply sub_flags_refl|].
  pose proof (handle_response_sub t f) as A. destruct (handle_response t f) as [t1 o1].
  specialize (IH t1). destruct (deliver t1 fs) as [t2 o2]. cbn [fst] in *. eapply sub_flags_trans; eauto.
Qed.

Lemma Forall_sub (P : bool -> bool -> Prop) t t' : sub_flags t t' ->
  Forall (fun r => P (r_sent r) (r_expect r)) (t_reqs t) -> Forall (fun r => P (r_sent r) (r_expect r)) (t_reqs t').
Proof.
  intros S F. rewrite Forall_forall in *. intros x' Hx'. destruct (S x' Hx') as (x & Hx & -> & -> & _). auto.
Qed.

Lemma sub_flags_nil t t' : sub_flags t t' -> t_reqs t = [] -> t_reqs t' = [].
Proof.
  intros S E. destruct (t_reqs t') as [|x l] eqn:E'; [reflexivity|].
  destruct (S x) as (y & Hy & _); [rewrite E'; left; reflexivity|]. rewrite E in Hy. contradiction.
Qed.

(* a table operation of that kind keeps the machine invariant *)
Lemma lift_ok s t' outs : CInv s -> op_ok (s_t s) t' outs -> sub_flags (s_t s) t' -> step_ok s (with_t s t') outs.
Proof.
  intros C (T' & D & Sc) Sub. split; [|split].
  - constructor; cbn [with_t s_t s_proto s_connector s_down reqs]; try apply C.
    + exact T'.
    + intro P. apply (Forall_sub (fun a _ => a = false) _ _ Sub). apply (ci_unsent s C P).
    + intro P. apply (Forall_sub (fun a b => a = true /\ b = true) _ _ Sub). apply (ci_sent s C P).
    + intro Dn. destruct (ci_closed s C Dn) as [E K]. split; [|exact K]. eapply sub_flags_nil; eauto.
    + intros Dn P Ne. apply (ci_reconn s C Dn P). intro E. apply Ne. eapply sub_flags_nil; eauto.
  - exists []. cbn. rewrite app_nil_r. exact D.
  - cbn [with_t s_t]. rewrite D. exact Sc.
Qed.

Lemma CInv_mk t p rx c d f a :
  TInv t ->
  (p = false -> Forall (fun r => r_sent r = false) (t_reqs t)) ->
  (p = true -> Forall (fun r => r_sent r = true /\ r_expect r = true) (t_reqs t)) ->
  (p = true -> c = CNone) ->
  (d <> DNone -> t_reqs t = [] /\ (c = CNone \/ c = CStale)) ->
  (d = DNone -> c <> CStale) ->
  (d = DPending -> p = true) ->
  (d = DFired -> p = false) ->
  (d = DNone -> p = false -> t_reqs t <> [] -> c = CAttempt \/ c = CTimer) ->
  CInv (mkS t p rx c d f a).
Proof. intros. constructor; assumption. Qed.

Ltac triv := intros; try discriminate; try congruence; try tauto; auto.
Ltac break C := destruct C as [Ct Cu Cs Cc Ccl Co Cdp Cdf Cr]; unfold reqs in *; cbn [s_t s_proto s_rxbuf s_connector s_down s_failures s_addr] in *.
Ltac dlog_same := exists []; cbn; rewrite app_nil_r; reflexivity.

(* ---- makeRequest ---- *)
Lemma send_request_new t old r : t_reqs t = old ++ [r] -> NoDup (map r_id (old ++ [r])) -> r_sent r = false ->
  ~ In (r_h r) (t_fired t) ->
  send_request t r = (mkT (old ++ sq_reqs [r]) (t_dlog t) (rev (sq_fired [r]) ++ t_fired t), sq_outs [r]).
Proof.
  intros Ht ND Hs Hf. pose proof (send_each_all [r] old t Ht ND) as X.
  cbn [send_each] in X. rewrite Hs in X. destruct (send_request t r) as [a b].
  rewrite app_nil_r in X. apply X.
  - constructor; auto.
  - cbn. constructor; [intros [] | constructor].
  - constructor; auto.
Qed.

Lemma make_ok s rid e s' outs : CInv s -> make_request s rid e = (s', outs) -> step_ok s s' outs.
Proof.
  intros C H. unfold make_request in H. destruct s as [t p rx c d f a].
  cbn [s_t s_proto s_rxbuf s_connector s_down s_failures s_addr] in H.
  destruct (lookup rid (t_reqs t)) eqn:L.
  { injection H as <- <-. apply step_ok_same. exact C. }
  break C. rename Ct into T.
  set (h := length (t_dlog t)) in *.
  assert (Hh : ~ In h (t_fired t)). { intro F. apply (ti_fired_lt _ T) in F. unfold h in F. lia. }
  destruct d.
  - (* open *)
    set (r := mkReq rid h e false false) in *.
    set (t1 := mkT (t_reqs t ++ [r]) (t_dlog t ++ [rid]) (t_fired t)) in *.
    assert (T1 : TInv t1) by (apply TInv_add; auto).
    destruct p.
    + (* connected: written at once *)
      pose proof (send_request_new t1 (t_reqs t) r eq_refl (ti_ids _ T1) eq_refl Hh) as SR.
      pose proof (send_request_ok t1 r _ _ T1 ltac:(cbn; apply in_app_iff; right; left; reflexivity) eq_refl SR) as (T2 & D2 & S2).
      unfold lift, with_t in H. rewrite SR in H. cbn [fst snd s_t s_proto s_rxbuf s_connector s_down s_failures s_addr] in H.
      injection H as <- <-. split; [|split].
      * apply CInv_mk; cbn [t_reqs]; [> exact T2 | triv | | triv | triv | triv | triv | triv | triv].
        intros _. apply Forall_app. split; [apply Cs; reflexivity|].
        unfold sq_reqs. cbn [filter r_expect r]. destruct e; cbn; constructor; auto.
      * exists [rid]. reflexivity.
      * cbn [s_t t_dlog t_fired] in *. exact S2.
    + (* not connected: queued *)
      assert (U1 : Forall (fun r => r_sent r = false) (t_reqs t1)).
      { cbn. apply Forall_app. split; [apply Cu; reflexivity | constructor; auto]. }
      assert (Ne : t_reqs t1 <> []). { cbn. destruct (t_reqs t); discriminate. }
      destruct c.
      * unfold connect, try_connect, with_connector, with_failures, with_t in H.
        cbn [s_t s_proto s_rxbuf s_connector s_down s_failures s_addr] in H. injection H as <- <-. split; [|split].
        -- apply CInv_mk; [> exact T1 | triv | triv | triv | triv | triv | triv | triv | triv].
        -- exists [rid]. reflexivity.
        -- reflexivity.
      * unfold with_t in H. cbn [s_t s_proto s_rxbuf s_connector s_down s_failures s_addr] in H.
        injection H as <- <-. split; [|split].
        -- apply CInv_mk; [> exact T1 | triv | triv | triv | triv | triv | triv | triv | triv].
        -- exists [rid]. reflexivity.
        -- reflexivity.
      * unfold with_t in H. cbn [s_t s_proto s_rxbuf s_connector s_down s_failures s_addr] in H.
        injection H as <- <-. split; [|split].
        -- apply CInv_mk; [> exact T1 | triv | triv | triv | triv | triv | triv | triv | triv].
        -- exists [rid]. reflexivity.
        -- reflexivity.
      * exfalso. apply Co; reflexivity.
  - (* closed, close Deferred pending *)
    unfold lift, with_t in H. rewrite fire_unfired in H by exact Hh.
    cbn [fst snd t_reqs t_dlog t_fired s_t s_proto s_rxbuf s_connector s_down s_failures s_addr] in H.
    injection H as <- <-. split; [|split].
    + apply CInv_mk; cbn [t_reqs]; [> apply TInv_add_closed; exact T | triv | triv | triv | triv | triv | triv | triv | triv].
    + exists [rid]. reflexivity.
    + cbn [s_t t_dlog t_fired scan outcome_ok]. unfold memb. rewrite (proj2 (memb_nIn _ _) Hh). reflexivity.
  - unfold lift, with_t in H. rewrite fire_unfired in H by exact Hh.
    cbn [fst snd t_reqs t_dlog t_fired s_t s_proto s_rxbuf s_connector s_down s_failures s_addr] in H.
    injection H as <- <-. split; [|split].
    + apply CInv_mk; cbn [t_reqs]; [> apply TInv_add_closed; exact T | triv | triv | triv | triv | triv | triv | triv | triv].
    + exists [rid]. reflexivity.
    + cbn [s_t t_dlog t_fired scan outcome_ok]. unfold memb. rewrite (proj2 (memb_nIn _ _) Hh). reflexivity.
Qed.

(* ---- connection events ---- *)
Lemma connok_ok s s' outs : CInv s -> step s EConnOk = (s', outs) -> step_ok s s' outs.
Proof.
  intros C H. cbn [step] in H. destruct s as [t p rx c d f a].
  cbn [s_t s_proto s_rxbuf s_connector s_down s_failures s_addr] in H.
  destruct c; try (injection H as <- <-; apply step_ok_same; exact C).
  break C.
  assert (d = DNone) as -> by (destruct d; auto; destruct Ccl as [_ [X|X]]; discriminate).
  assert (p = false) as -> by (destruct p; auto; discriminate Cc; reflexivity).
  unfold with_rxbuf, with_proto, with_connector, with_failures, lift, with_t in H.
  cbn [s_t s_proto s_rxbuf s_connector s_down s_failures s_addr] in H.
  destruct (send_queued_ok t Ct (Cu eq_refl)) as [SQ (T' & D & Sc)].
  rewrite SQ in H. cbn [fst snd] in H. injection H as <- <-.
  split; [|split].
  - apply CInv_mk; cbn [t_reqs]; [> exact T' | triv | | triv | triv | triv | triv | triv | triv].
    intros _. unfold sq_reqs. rewrite Forall_forall. intros x Hx. apply in_map_iff in Hx.
    destruct Hx as (y & <- & Hy). apply filter_In in Hy. cbn. tauto.
  - dlog_same.
  - cbn [s_t t_dlog t_fired]. exact Sc.
Qed.

Lemma connfail_ok s s' outs : CInv s -> step s EConnFail = (s', outs) -> step_ok s s' outs.
Proof.
  intros C H. cbn [step] in H. destruct s as [t p rx c d f a].
  cbn [s_t s_proto s_rxbuf s_connector s_down s_failures s_addr] in H.
  destruct c; try (injection H as <- <-; apply step_ok_same; exact C).
  break C.
  assert (d = DNone) as -> by (destruct d; auto; destruct Ccl as [_ [X|X]]; discriminate).
  assert (p = false) as -> by (destruct p; auto; discriminate Cc; reflexivity).
  unfold with_connector, with_failures in H. cbn [s_t s_proto s_rxbuf s_connector s_down s_failures s_addr] in H.
  injection H as <- <-. split; [|split; [dlog_same | reflexivity]].
  apply CInv_mk; [> exact Ct | triv | triv | triv | triv | triv | triv | triv | triv].
Qed.

Lemma fire_ok s s' outs : CInv s -> step s EFire = (s', outs) -> step_ok s s' outs.
Proof.
  intros C H. cbn [step] in H. destruct s as [t p rx c d f a].
  cbn [s_t s_proto s_rxbuf s_connector s_down s_failures s_addr] in H.
  destruct c; try (injection H as <- <-; apply step_ok_same; exact C).
  break C.
  assert (d = DNone) as -> by (destruct d; auto; destruct Ccl as [_ [X|X]]; discriminate).
  assert (p = false) as -> by (destruct p; auto; discriminate Cc; reflexivity).
  unfold try_connect, with_connector in H. cbn [s_t s_proto s_rxbuf s_connector s_down s_failures s_addr] in H.
  injection H as <- <-. split; [|split; [dlog_same | reflexivity]].
  apply CInv_mk; [> exact Ct | triv | triv | triv | triv | triv | triv | triv | triv].
Qed.

Lemma lost_ok s s' outs : CInv s -> step s ELost = (s', outs) -> step_ok s s' outs.
Proof.
  intros C H. cbn [step] in H. destruct s as [t p rx c d f a].
  cbn [s_t s_proto s_rxbuf s_connector s_down s_failures s_addr] in H.
  destruct p; [|injection H as <- <-; apply step_ok_same; exact C].
  fold live in H. fold (lost_reqs (t_reqs t)) in H.
  break C.
  pose proof (TInv_lost t Ct) as TL.
  assert (c = CNone) as -> by (apply Cc; reflexivity).
  assert (U : Forall (fun r => r_sent r = false) (lost_reqs (t_reqs t))).
  { unfold lost_reqs. rewrite Forall_forall. intros x Hx. apply in_map_iff in Hx. destruct Hx as (y & <- & _). reflexivity. }
  unfold with_t, with_rxbuf, with_proto in H. cbn [s_t s_proto s_rxbuf s_connector s_down s_failures s_addr] in H.
  destruct d.
  - destruct (lost_reqs (t_reqs t)) eqn:E.
    + injection H as <- <-. split; [|split; [dlog_same | reflexivity]].
      apply CInv_mk; cbn [t_with_reqs t_reqs]; [> exact TL | triv | triv | triv | triv | triv | triv | triv | triv].
    + unfold connect, try_connect, with_connector, with_failures in H.
      cbn [s_t s_proto s_rxbuf s_connector s_down s_failures s_addr] in H.
      injection H as <- <-. split; [|split; [dlog_same | reflexivity]].
      apply CInv_mk; cbn [t_with_reqs t_reqs]; [> exact TL | intros _; exact U | triv | triv | triv | triv | triv | triv | triv].
  - destruct (Ccl ltac:(discriminate)) as [Er _].
    unfold fire_down in H. unfold with_down in H. cbn [s_t s_proto s_rxbuf s_connector s_down s_failures s_addr] in H.
    injection H as <- <-. split; [|split; [dlog_same | reflexivity]].
    apply CInv_mk; cbn [t_with_reqs t_reqs]; [> exact TL | triv | triv | triv | | triv | triv | triv | triv].
    intros _. unfold lost_reqs. rewrite Er. cbn. auto.
  - discriminate Cdf; reflexivity.
Qed.

Lemma data_in_ok s chunk s' outs : CInv s -> data_in s chunk = (s', outs) -> step_ok s s' outs.
Proof.
  intros C H. unfold data_in in H. rewrite data_received_parse in H.
  destruct (parse ok4 (s_rxbuf s ++ chunk)) as [fs e] eqn:Ep.
  pose proof (deliver_ok fs (s_t s) _ _ (ci_t s C) (surjective_pairing _)) as OK.
  pose proof (deliver_sub fs (s_t s)) as Sub.
  destruct (deliver (s_t s) fs) as [t1 o1]. cbn [fst snd] in *.
  pose proof (lift_ok s t1 o1 C OK Sub) as (C1 & D1 & S1).
  assert (R : forall b, step_ok s (with_rxbuf (with_t s t1) b) o1).
  { intro b. split; [|split]; auto.
    constructor; cbn [with_rxbuf s_t s_proto s_connector s_down reqs]; apply C1. }
  destruct e.
  - injection H as <- <-. apply R.
  - injection H as <- <-. destruct (R (rx_newbuf (s_rxbuf s) chunk (RxLimit len))) as (A & B & S).
    split; [exact A | split; [exact B|]]. rewrite scan_app. cbn [with_rxbuf with_t s_t] in *. rewrite S. reflexivity.
  - injection H as <- <-. apply R.
  - exfalso. exact (parse_no_fuel _ _ _ Ep).
Qed.

Lemma close_ok s s' outs : CInv s -> step s EClose = (s', outs) -> step_ok s s' outs.
Proof.
  intros C H. cbn [step] in H. destruct s as [t p rx c d f a].
  cbn [s_t s_proto s_rxbuf s_connector s_down s_failures s_addr] in H.
  destruct d; try (injection H as <- <-; split; [exact C | split; [dlog_same | reflexivity]]).
  break C. rename Ct into T.
  destruct (close_table_ok t T) as (FA & (T' & D' & Sc) & All).
  set (fo := map (fun r => ODef (r_h r) FailClosed) (filter live (rev (t_reqs t)))) in *.
  set (t' := mkT [] (t_dlog t) (rev (map r_h (filter live (rev (t_reqs t)))) ++ t_fired t)) in *.
  assert (Pre : forall o1 : list output, (forall x, In x o1 -> x = OLose \/ x = OCancelAttempt \/ x = OCancelTimer \/ x = OCloseFired) ->
           scan (t_dlog t) (t_fired t) (o1 ++ fo) = Some (t_fired t')).
  { intros o1 Ho. rewrite scan_app. replace (scan (t_dlog t) (t_fired t) o1) with (Some (t_fired t)); [exact Sc|].
    symmetry. induction o1 as [|x o1 IH]; [reflexivity|].
    destruct (Ho x (or_introl eq_refl)) as [-> | [-> | [-> | ->]]]; cbn [scan]; apply IH; intros y Hy; apply Ho; right; exact Hy. }
  unfold fire_down in H. unfold with_down, with_connector, with_t in H.
  cbn [s_t s_proto s_rxbuf s_connector s_down s_failures s_addr] in H.
  destruct p.
  - (* connected: ask the transport to close; the close Deferred waits for connectionLost *)
    cbn [s_t s_proto s_rxbuf s_connector s_down s_failures s_addr] in H.
    rewrite FA in H. injection H as <- <-. split; [|split].
    + apply CInv_mk; cbn [t_reqs t']; [> exact T' | triv | intros _; constructor | triv | | triv | triv | triv | triv].
      intros _. split; auto.
    + dlog_same.
    + cbn [s_t t_dlog t_fired]. apply (Pre [OLose]). intros x [<-|[]]. auto.
  - destruct c; cbn [s_t s_proto s_rxbuf s_connector s_down s_failures s_addr] in H.
    + rewrite FA in H. injection H as <- <-. split; [|split].
      * apply CInv_mk; cbn [t_reqs t']; [> exact T' | intros _; constructor | triv | triv | triv | triv | triv | triv | triv].
      * dlog_same.
      * cbn [s_t t_dlog t_fired]. apply (Pre [OCloseFired]). intros x [<-|[]]. auto.
    + rewrite FA in H. injection H as <- <-. split; [|split].
      * apply CInv_mk; cbn [t_reqs t']; [> exact T' | intros _; constructor | triv | triv | triv | triv | triv | triv | triv].
      * dlog_same.
      * cbn [s_t t_dlog t_fired]. apply (Pre [OCancelAttempt; OCloseFired]). intros x [<-|[<-|[]]]; auto.
    + rewrite FA in H. injection H as <- <-. split; [|split].
      * apply CInv_mk; cbn [t_reqs t']; [> exact T' | intros _; constructor | triv | triv | triv | triv | triv | triv | triv].
      * dlog_same.
      * cbn [s_t t_dlog t_fired]. apply (Pre [OCancelTimer; OCloseFired]). intros x [<-|[<-|[]]]; auto.
    + exfalso. apply Co; reflexivity.
Qed.

Theorem step_inv s e s' outs : CInv s -> step s e = (s', outs) -> step_ok s s' outs.
Proof.
  intros C H. destruct e.
  - apply (make_ok s rid expect); assumption.
  - cbn [step] in H. unfold lift in H. injection H as <- <-.
    apply lift_ok; [exact C | | apply cancel_sub].
    apply (cancel_ok (s_t s) h); [apply C | apply surjective_pairing].
  - apply connok_ok; assumption.
  - apply connfail_ok; assumption.
  - apply lost_ok; assumption.
  - cbn [step] in H. destruct (s_proto s); [eapply data_in_ok; eauto | injection H as <- <-; apply step_ok_same; exact C].
  - cbn [step] in H. destruct (s_proto s); [eapply data_in_ok; eauto | injection H as <- <-; apply step_ok_same; exact C].
  - apply fire_ok; assumption.
  - apply close_ok; assumption.
  - cbn [step] in H. destruct (s_proto s); injection H as <- <-; [|apply step_ok_same; exact C].
    split; [exact C | split; [dlog_same | reflexivity]].
  - cbn [step] in H. destruct same; injection H as <- <-.
    + split; [|split; [dlog_same | reflexivity]].
      constructor; cbn [with_addr s_t s_proto s_connector s_down reqs]; apply C.
    + split; [exact C | split; [dlog_same | reflexivity]].
Qed.

(* ------------------------------------------------------------------ whole runs *)
Theorem run_inv : forall evs s s' outs, CInv s -> run s evs = (s', outs) -> step_ok s s' outs.
Proof.
  induction evs as [|e evs IH]; intros s s' outs C H; cbn [run] in H.
  - injection H as <- <-. apply step_ok_same. exact C.
  - destruct (step s e) as [s1 o1] eqn:E1. destruct (run s1 evs) as [s2 o2] eqn:E2. injection H as <- <-.
    destruct (step_inv _ _ _ _ C E1) as (C1 & (x1 & D1) & S1).
    destruct (IH _ _ _ C1 E2) as (C2 & (x2 & D2) & S2).
    split; [exact C2 | split].
    + exists (x1 ++ x2). rewrite D2, D1, app_assoc. reflexivity.
    + rewrite scan_app. rewrite D2. rewrite (scan_dlog_app _ x2 _ _ _ S1). rewrite <- D2. exact S2.
Qed.

Lemma run_app : forall a b s, run s (a ++ b) =
  let (s1, o1) := run s a in let (s2, o2) := run s1 b in (s2, o1 ++ o2).
Proof.
  induction a as [|e a IH]; intros b s; cbn [app run].
  - destruct (run s b); reflexivity.
  - destruct (step s e) as [s1 o1]. rewrite IH. destruct (run s1 a) as [s2 o2]. destruct (run s2 b) as [s3 o3].
    rewrite app_assoc. reflexivity.
Qed.

Corollary reachable_inv evs : CInv (fst (run init evs)).
Proof. destruct (run init evs) as [s o] eqn:E. exact (proj1 (run_inv _ _ _ _ CInv_init E)). Qed.

Lemma CInv_attempt_open s : CInv s -> (s_connector s = CAttempt \/ s_connector s = CTimer) ->
  s_down s = DNone /\ s_proto s = false.
Proof.
  intros C K. split.
  - destruct (s_down s) eqn:D; auto; destruct (ci_closed s C) as [_ [X|X]]; try congruence; destruct K; congruence.
  - destruct (s_proto s) eqn:P; auto. pose proof (ci_conn s C P). destruct K; congruence.
Qed.
