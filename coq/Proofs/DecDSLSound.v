(* Interpreting the decoder-language term of each decoder (Model.DecAst, translated from the source by
   harness/py2dsl.py) is the hand-written decoder of Model.Responses, for every input. *)
From Coq Require Import Lia.
From AV Require Import Base.Util Model.Prim Model.Crc Model.MsgSet Model.Responses Model.DecDSL Model.DecEmb Model.DecAst.

Ltac dsl := unfold run, emb_res, emb_gen; cbn [exec then_ lift at_cur unpack_seq bind read_kind set_all set get lookup map fst snd eval eval_atom eval_atoms
                 s_env s_rest app compare emb_res emb_gen].
Ltac unreaders := unfold read_i8, read_u8, read_i16, read_u16, read_i32, read_u32, read_i64 in *.
Ltac rd1 :=
  match goal with
  | |- context [unpack ?f ?d] => destruct (unpack f d) as [[? ?]|?]; dsl; try reflexivity
  | |- context [read_short_ascii ?d] => destruct (read_short_ascii d) as [[? ?]|?]; dsl; try reflexivity
  | |- context [read_short_text ?d] => destruct (read_short_text d) as [[? ?]|?]; dsl; try reflexivity
  | |- context [read_short_bytes ?d] => destruct (read_short_bytes d) as [[[?|] ?]|?]; dsl; try reflexivity
  | |- context [read_int_string ?d] => destruct (read_int_string d) as [[[?|] ?]|?]; dsl; try reflexivity
  end.

Section Sound.
  Variable msgset : list Z -> dres.

  Lemma sound_correlation_id data :
    run 0 msgset data ast_get_response_correlation_id = emb_res VInt (get_response_correlation_id data).
  Proof. unfold ast_get_response_correlation_id, get_response_correlation_id. unreaders. dsl. repeat rd1.
Qed.

  Lemma sound_heartbeat data :
    run 0 msgset data ast_decode_heartbeat_response
    = emb_res (fun e => VStruct K_HeartbeatResponse [VInt e]) (decode_heartbeat_response data).
  Proof. unfold ast_decode_heartbeat_response, decode_heartbeat_response, decode_error_only. unreaders. dsl. repeat rd1.
Qed.

  Lemma sound_leave data :
    run 0 msgset data ast_decode_leave_group_response
    = emb_res (fun e => VStruct K_LeaveGroupResponse [VInt e]) (decode_leave_group_response data).
  Proof. unfold ast_decode_leave_group_response, decode_leave_group_response, decode_error_only. unreaders. dsl. repeat rd1.
Qed.

  Lemma sound_sync data :
    run 0 msgset data ast_decode_sync_group_response = emb_res v_sync (decode_sync_group_response data).
  Proof. unfold ast_decode_sync_group_response, decode_sync_group_response. unreaders. dsl. repeat rd1.
Qed.

  Lemma sound_coordinator data :
    run 0 msgset data ast_decode_consumermetadata_response = emb_res v_coordinator (decode_consumermetadata_response data).
  Proof. unfold ast_decode_consumermetadata_response, decode_consumermetadata_response. unreaders. dsl. repeat rd1.
Qed.
End Sound.
