(* Interpreting the decoder-language term of each decoder (Model.DecAst, translated from the source by
   harness/py2dsl.py) is the hand-written decoder of Model.Responses, for every input. *)
From Coq Require Import Lia.
From AV Require Import Base.Util Model.Prim Model.Crc Model.MsgSet Model.Responses Model.DecDSL Model.DecEmb Model.DecAst.

(* never unfold [exec] on a loop body that is not yet applied to a state *)
Arguments exec param msgset data0 !p !s /.

Ltac dsl := unfold run, emb_res, emb_gen; cbn [p_body p_nvars repeat exec then_ lift at_cur unpack_seq bind read_kind set_all set get lookup map fst snd eval eval_atom eval_atoms
                 s_env s_rest app compare negb emb_res emb_gen].
Ltac unreaders := unfold read_i8, read_u8, read_i16, read_u16, read_i32, read_u32, read_i64 in *.
Ltac rd1 :=
  match goal with
  | |- context [unpack ?f ?d] => destruct (unpack f d) as [[? ?]|?]; dsl; try reflexivity
  | |- context [read_short_ascii ?d] => destruct (read_short_ascii d) as [[? ?]|?]; dsl; try reflexivity
  | |- context [read_short_text ?d] => destruct (read_short_text d) as [[? ?]|?]; dsl; try reflexivity
  | |- context [read_short_bytes ?d] => destruct (read_short_bytes d) as [[[?|] ?]|?]; dsl; try reflexivity
  | |- context [read_int_string ?d] => destruct (read_int_string d) as [[[?|] ?]|?]; dsl; try reflexivity
  end.

(* ------------------------------------------------------------------ counted loops: the interpreter's loop over
   states is the model's [for_range] over the remaining bytes.
   [E ts ...] = the local variables as a function of the loop's temporaries [ts] (slots assigned inside the body,
   whose values after the loop nobody reads) and of what the loop accumulates. *)
Section Loops.
  Variable param : Z.
  Variable msgset : list Z -> dres.
  Variable data0 : list Z.

  (* a loop that reads one element per iteration and appends it to an accumulator *)
  Lemma sfor_collect {A T} (body : state -> out) (rd : list Z -> res (A * list Z)) (E : T -> list A -> env) (step : T -> A -> T) :
    (forall ts acc d, body (mk_state (E ts acc) d) =
        match rd d with
        | Ok (a, d') => ([], Next (mk_state (E (step ts a) (acc ++ [a])) d'))
        | Err e => ([], Raise e)
        end) ->
    forall fuel n ts acc d,
      sfor_range body fuel n (mk_state (E ts acc) d) =
      match for_range (one rd) fuel n d with
      | (xs, Ok d') => ([], Next (mk_state (E (fold_left step xs ts) (acc ++ xs)) d'))
      | (_, Err e) => ([], Raise e)
      end.
  Proof.
    intros Hb. induction fuel as [|f IH]; intros n ts acc d.
    - cbn [sfor_range for_range]. destruct (n <=? 0); [cbn; now rewrite app_nil_r|reflexivity].
    - cbn [sfor_range for_range]. destruct (n <=? 0); [cbn; now rewrite app_nil_r|].
      rewrite Hb. replace (one rd d) with (match rd d with Ok (a, rest) => ([a], Ok rest) | Err e => @gfail A e end) by reflexivity.
      destruct (rd d) as [[a d']|e]; [|reflexivity].
      cbn [then_]. rewrite IH. destruct (for_range (one rd) f (n - 1) d') as [xs [d''|e]]; cbn [app fold_left].
      + now rewrite <- app_assoc.
      + reflexivity.
  Qed.

  (* the same when the temporaries after an iteration are not a function of the element read *)
  Lemma sfor_collect_ex {A T} (body : state -> out) (rd : list Z -> res (A * list Z)) (E : T -> list A -> env) :
    (forall ts acc d, exists ts',
        body (mk_state (E ts acc) d) =
        match rd d with
        | Ok (a, d') => ([], Next (mk_state (E ts' (acc ++ [a])) d'))
        | Err e => ([], Raise e)
        end) ->
    forall fuel n ts acc d, exists ts',
      sfor_range body fuel n (mk_state (E ts acc) d) =
      match for_range (one rd) fuel n d with
      | (xs, Ok d') => ([], Next (mk_state (E ts' (acc ++ xs)) d'))
      | (_, Err e) => ([], Raise e)
      end.
  Proof.
    intros Hb. induction fuel as [|f IH]; intros n ts acc d.
    - exists ts. cbn [sfor_range for_range]. destruct (n <=? 0); [cbn; now rewrite app_nil_r|reflexivity].
    - cbn [sfor_range for_range]. destruct (n <=? 0); [exists ts; cbn; now rewrite app_nil_r|].
      destruct (Hb ts acc d) as [ts1 H1]. rewrite H1.
      replace (one rd d) with (match rd d with Ok (a, rest) => ([a], Ok rest) | Err e => @gfail A e end) by reflexivity.
      destruct (rd d) as [[a d']|e]; [|exists ts; reflexivity].
      cbn [then_]. destruct (IH (n - 1) ts1 (acc ++ [a]) d') as [ts2 H2]. exists ts2. rewrite H2.
      destruct (for_range (one rd) f (n - 1) d') as [xs [d''|e]]; cbn [app].
      + now rewrite <- app_assoc.
      + reflexivity.
  Qed.

  (* a loop whose body yields: the items are the model's items, in order; an exception comes after them *)
  Lemma sfor_yield {B T} (body : state -> out) (part : list Z -> gen B) (emb : B -> val) (E : T -> env) :
    (forall ts d, exists ts',
        body (mk_state (E ts) d) =
        (map emb (fst (part d)), match snd (part d) with Ok d' => Next (mk_state (E ts') d') | Err e => Raise e end)) ->
    forall fuel n ts d, exists ts',
      sfor_range body fuel n (mk_state (E ts) d) =
      (map emb (fst (for_range part fuel n d)),
       match snd (for_range part fuel n d) with Ok d' => Next (mk_state (E ts') d') | Err e => Raise e end).
  Proof.
    intros Hb. induction fuel as [|f IH]; intros n ts d.
    - exists ts. cbn [sfor_range for_range]. destruct (n <=? 0); reflexivity.
    - cbn [sfor_range for_range]. destruct (n <=? 0); [exists ts; reflexivity|].
      destruct (Hb ts d) as [ts1 H1]. rewrite H1. destruct (part d) as [ys [d'|e]]; cbn [fst snd then_].
      + destruct (IH (n - 1) ts1 d') as [ts2 H2]. exists ts2. rewrite H2.
        destruct (for_range part f (n - 1) d') as [zs o]. cbn [fst snd]. now rewrite map_app.
      + exists ts. reflexivity.
  Qed.
End Loops.

(* Python's dict update on embedded keys/values is the model's [dict_set] *)
Lemma dict_put_map {K V} (eqb : K -> K -> bool) (ek : K -> val) (ev : V -> val) :
  (forall a b, key_eqb (ek a) (ek b) = eqb a b) ->
  forall d k v, dict_put (map (fun kv => (ek (fst kv), ev (snd kv))) d) (ek k) (ev v)
                = map (fun kv => (ek (fst kv), ev (snd kv))) (dict_set eqb d k v).
Proof.
  intros H. unfold dict_put. induction d as [|[k' v'] d IH]; intros k v; [reflexivity|].
  cbn [map dict_set fst snd]. rewrite H. destruct (eqb k' k); [reflexivity|]. cbn [map fst snd]. now rewrite IH.
Qed.

Lemma dict_of_snoc {K V} (eqb : K -> K -> bool) (l : list (K * V)) k v :
  dict_of eqb (l ++ [(k, v)]) = dict_set eqb (dict_of eqb l) k v.
Proof. unfold dict_of. now rewrite fold_left_app. Qed.

(* rewrite the loop in the goal with [sfor_collect], starting from the empty accumulator and temporaries [ts] *)
Ltac collect rd E step ts :=
  match goal with
  | |- context [sfor_range ?b ?f ?n (mk_state _ ?d)] =>
      let HC := fresh "HC" in
      pose proof (fun Hb => sfor_collect b rd E step Hb f n ts [] d) as HC;
      cbv beta in HC; cbn [map app fst snd dict_of fold_left] in HC; rewrite HC; clear HC
  end.

(* rewrite the loop in the goal with [sfor_yield]; the first goal left is the characterisation of the loop body *)
Ltac yield_loop part emb E ts0 :=
  match goal with
  | |- context [sfor_range ?b ?ff ?nn (mk_state _ ?dd)] =>
      let H := fresh "HY" in
      let ts' := fresh "ts'" in
      destruct (sfor_yield b part emb E) with (fuel := ff) (n := nn) (ts := ts0) (d := dd) as [ts' H];
      [ | cbn [fst snd] in H; rewrite H; clear H ]
  end.
Ltac collect_ex rd E ts0 :=
  match goal with
  | |- context [sfor_range ?b ?ff ?nn (mk_state _ ?dd)] =>
      let HC := fresh "HC" in
      let ts' := fresh "ts'" in
      pose proof (fun Hb => sfor_collect_ex b rd E Hb ff nn ts0 nil dd) as HC; cbv beta in HC;
      destruct HC as [ts' HC];
      [ | cbn [map app fst snd dict_of fold_left] in HC; rewrite HC; clear HC ]
  end.
Ltac finish_loop :=
  unfold loop;
  match goal with
  | |- context [for_range ?p ?f ?n ?d] => destruct (for_range p f n d) as [? [?|?]]; cbn [fst snd then_ app]; rewrite ?app_nil_r
  end.

Section Sound.
  Variable msgset : list Z -> dres.

  Lemma sound_correlation_id data :
    run 0 msgset data ast_get_response_correlation_id = emb_res VInt (get_response_correlation_id data).
  Proof. unfold ast_get_response_correlation_id, get_response_correlation_id. unreaders. dsl. repeat rd1.
Qed.

  Lemma sound_heartbeat data :
    run 0 msgset data ast_decode_heartbeat_response
    = emb_res (fun e => VStruct K_HeartbeatResponse [VInt e]) (decode_heartbeat_response data).
  Proof. unfold ast_decode_heartbeat_response, decode_heartbeat_response, decode_error_only. unreaders. dsl. repeat rd1.
Qed.

  Lemma sound_leave data :
    run 0 msgset data ast_decode_leave_group_response
    = emb_res (fun e => VStruct K_LeaveGroupResponse [VInt e]) (decode_leave_group_response data).
  Proof. unfold ast_decode_leave_group_response, decode_leave_group_response, decode_error_only. unreaders. dsl. repeat rd1.
Qed.

  Lemma sound_sync data :
    run 0 msgset data ast_decode_sync_group_response = emb_res v_sync (decode_sync_group_response data).
  Proof. unfold ast_decode_sync_group_response, decode_sync_group_response. unreaders. dsl. repeat rd1.
Qed.

  Lemma sound_coordinator data :
    run 0 msgset data ast_decode_consumermetadata_response = emb_res v_coordinator (decode_consumermetadata_response data).
  Proof. unfold ast_decode_consumermetadata_response, decode_consumermetadata_response. unreaders. dsl. repeat rd1.
Qed.

  (* ---------------------------------------------------------------- OffsetCommit: topics / partitions, one item each *)
  Lemma sound_offset_commit data :
    run 0 msgset data ast_decode_offset_commit_response = emb_gen v_commit (decode_offset_commit_response data).
  Proof.
    unfold ast_decode_offset_commit_response, decode_offset_commit_response, topics_after_header. unreaders. dsl.
    destruct (unpack Fi data) as [[c r1]|e]; dsl; [|reflexivity].
    destruct (unpack Fi r1) as [[nt r2]|e]; dsl; [|reflexivity].
    (* inner loop, for a topic t *)
    assert (Hin : forall t np (ts : val * val) d, exists ts',
               exec 0 msgset data (SSeq (SUnpack CCur [Fi; Fh] [5; 6]%nat) (SYield (ECtor K_OffsetCommitResponse [AVar 3; AVar 5; AVar 6])))
                    (mk_state [VInt c; VInt nt; VUnbound; VText t; VInt np; fst ts; snd ts] d)
               = (map v_commit (fst (commit_part t d)),
                  match snd (commit_part t d) with
                  | Ok d' => Next (mk_state [VInt c; VInt nt; VUnbound; VText t; VInt np; fst ts'; snd ts'] d')
                  | Err e => Raise e end)).
    { intros t np ts d. unfold commit_part. unreaders. dsl.
      destruct (unpack Fi d) as [[p d1]|e]; dsl; [|exists ts; reflexivity].
      destruct (unpack Fh d1) as [[er d2]|e]; dsl; [|exists ts; reflexivity].
      exists (VInt p, VInt er). reflexivity. }
    (* outer loop *)
    assert (Hout : forall (ts : val * val * val * val) d, exists ts',
               exec 0 msgset data
                    (SSeq (SRead CCur RShortAscii 3) (SSeq (SUnpack CCur [Fi] [4%nat])
                       (SFor 4 (SSeq (SUnpack CCur [Fi; Fh] [5; 6]%nat) (SYield (ECtor K_OffsetCommitResponse [AVar 3; AVar 5; AVar 6]))))))
                    (mk_state [VInt c; VInt nt; VUnbound; fst (fst (fst ts)); snd (fst (fst ts)); snd (fst ts); snd ts] d)
               = (map v_commit (fst (by_topic commit_part d)),
                  match snd (by_topic commit_part d) with
                  | Ok d' => Next (mk_state [VInt c; VInt nt; VUnbound; fst (fst (fst ts')); snd (fst (fst ts')); snd (fst ts'); snd ts'] d')
                  | Err e => Raise e end)).
    { intros [[[t0 np0] p0] e0] d. unfold by_topic. unreaders. dsl.
      destruct (read_short_ascii d) as [[t d1]|e]; dsl; [|exists (t0, np0, p0, e0); reflexivity].
      destruct (unpack Fi d1) as [[np d2]|e]; dsl; [|exists (t0, np0, p0, e0); reflexivity].
      destruct (sfor_yield _ (commit_part t) v_commit
                  (fun ts : val * val => [VInt c; VInt nt; VUnbound; VText t; VInt np; fst ts; snd ts]) (Hin t np)
                  (S (length d2)) np (p0, e0) d2) as [[p' e'] H].
      cbn [fst snd] in H. rewrite H. unfold loop.
      destruct (for_range (commit_part t) (S (length d2)) np d2) as [ys [d'|e]]; cbn [fst snd then_].
      - exists (VText t, VInt np, p', e'). reflexivity.
      - exists (t0, np0, p0, e0). reflexivity. }
    destruct (sfor_yield _ (by_topic commit_part) v_commit
                (fun ts : val * val * val * val => [VInt c; VInt nt; VUnbound; fst (fst (fst ts)); snd (fst (fst ts)); snd (fst ts); snd ts]) Hout
                (S (length r2)) nt (VUnbound, VUnbound, VUnbound, VUnbound) r2) as [ts' H].
    cbn [fst snd] in H. rewrite H. unfold loop.
    destruct (for_range (by_topic commit_part) (S (length r2)) nt r2) as [ys [d'|e]]; reflexivity.
  Qed.

  (* ---------------------------------------------------------------- JoinGroup protocol metadata: a list of strings *)
  Lemma sound_subscription data :
    run 0 msgset data ast_decode_join_group_protocol_metadata = emb_res v_subscription (decode_join_group_protocol_metadata data).
  Proof.
    unfold ast_decode_join_group_protocol_metadata, decode_join_group_protocol_metadata. unreaders. dsl.
    destruct (unpack Fh data) as [[v r1]|e]; dsl; [|reflexivity].
    destruct (unpack Fi r1) as [[n r2]|e]; dsl; [|reflexivity].
    collect read_short_text
            (fun (ts : val) (acc : list (list Z)) => [VInt v; VInt n; VList (map VText acc); VUnbound; ts; VUnbound])
            (fun (_ : val) (a : list Z) => VText a) VUnbound.
    2:{ intros ts acc d. dsl. destruct (read_short_text d) as [[a d']|e]; dsl; [|reflexivity]. now rewrite map_app. }
    unfold read_n, loop.
    destruct (for_range (one read_short_text) (S (length r2)) n r2) as [xs [r3|e]]; dsl; [|reflexivity].
    destruct (read_int_string r3) as [[[u|] r4]|e]; dsl; reflexivity.
  Qed.

  (* ---------------------------------------------------------------- JoinGroup response: a list of members *)
  Lemma sound_join data :
    run 0 msgset data ast_decode_join_group_response = emb_res v_join (decode_join_group_response data).
  Proof.
    unfold ast_decode_join_group_response, decode_join_group_response. unreaders. dsl.
    destruct (unpack Fi data) as [[c r1]|e]; dsl; [|reflexivity].
    destruct (unpack Fh r1) as [[er r2]|e]; dsl; [|reflexivity].
    destruct (unpack Fi r2) as [[g r3]|e]; dsl; [|reflexivity].
    destruct (read_short_text r3) as [[pr r4]|e]; dsl; [|reflexivity].
    destruct (read_short_text r4) as [[ld r5]|e]; dsl; [|reflexivity].
    destruct (read_short_text r5) as [[me r6]|e]; dsl; [|reflexivity].
    destruct (unpack Fi r6) as [[n r7]|e]; dsl; [|reflexivity].
    collect read_join_member
            (fun (ts : val * val) (acc : list join_member) =>
               [VInt c; VInt er; VInt g; VText pr; VText ld; VText me; VInt n; VList (map v_member acc); VUnbound; fst ts; snd ts])
            (fun (_ : val * val) (m : join_member) => (VText (jmb_id m), v_ob (jmb_metadata m))) (VUnbound, VUnbound).
    2:{ intros ts acc d. unfold read_join_member. dsl.
        destruct (read_short_text d) as [[a d1]|e]; dsl; [|reflexivity].
        destruct (read_int_string d1) as [[[b|] d2]|e]; dsl; try reflexivity; now rewrite map_app. }
    unfold read_n, loop.
    destruct (for_range (one read_join_member) (S (length r7)) n r7) as [xs [r8|e]]; dsl; reflexivity.
  Qed.

  (* ---------------------------------------------------------------- SyncGroup member assignment: a dict by topic *)
  Lemma sound_assignment data :
    run 0 msgset data ast_decode_sync_group_member_assignment = emb_res v_assignment (decode_sync_group_member_assignment data).
  Proof.
    unfold ast_decode_sync_group_member_assignment, decode_sync_group_member_assignment. unreaders. dsl.
    destruct (unpack Fh data) as [[v r1]|e]; dsl; [|reflexivity].
    destruct (unpack Fi r1) as [[n r2]|e]; dsl; [|reflexivity].
    destruct (v =? 0) eqn:V0; dsl; [|reflexivity].
    match goal with
    | |- context [sfor_range ?b ?ff ?nn (mk_state _ ?dd)] =>
        destruct (sfor_collect_ex b read_assigned
                    (fun (ts : val * val * val) (acc : list (list Z * list Z)) =>
                       [VInt v; VInt n; VDict (map (fun tp => (VText (fst tp), v_ints (snd tp))) (dict_of zlist_eqb acc));
                        VUnbound; fst (fst ts); snd (fst ts); snd ts; VUnbound])) with (fuel := ff) (n := nn) (ts := (VUnbound, VUnbound, VUnbound))
                    (acc := @nil (list Z * list Z)) (d := dd) as [ts' HC]
    end.
    { intros ts acc d. unfold read_assigned. unreaders. dsl.
      destruct (read_short_ascii d) as [[t d1]|e]; dsl; [|exists ts; reflexivity].
      destruct (unpack Fi d1) as [[np d2]|e]; dsl; [|exists ts; reflexivity].
      destruct (read_ints np d2) as [[ps d3]|e]; dsl; [|exists ts; reflexivity].
      exists (VText t, VInt np, v_ints ps). cbn [fst snd]. rewrite dict_of_snoc.
      change (VTuple (map VInt ps)) with (v_ints ps).
      now rewrite (dict_put_map zlist_eqb VText v_ints (fun a b => eq_refl) (dict_of zlist_eqb acc) t ps). }
    cbn [map app fst snd dict_of fold_left] in HC. rewrite HC. clear HC.
    unfold read_n, loop.
    destruct (for_range (one read_assigned) (S (length r2)) n r2) as [xs [r3|e]]; dsl; [|reflexivity].
    destruct (read_int_string r3) as [[[u|] r4]|e]; dsl; reflexivity.
  Qed.

  (* ---------------------------------------------------------------- OffsetFetch *)
  Lemma sound_offset_fetch data :
    run 0 msgset data ast_decode_offset_fetch_response = emb_gen v_ofetch (decode_offset_fetch_response data).
  Proof.
    unfold ast_decode_offset_fetch_response, decode_offset_fetch_response, topics_after_header. unreaders. dsl.
    destruct (unpack Fi data) as [[c r1]|e]; dsl; [|reflexivity].
    destruct (unpack Fi r1) as [[nt r2]|e]; dsl; [|reflexivity].
    yield_loop (by_topic ofetch_part) v_ofetch
               (fun '(t, np, p, o, m, er) => [VInt c; VInt nt; VUnbound; t; np; p; o; m; er])
               (VUnbound, VUnbound, VUnbound, VUnbound, VUnbound, VUnbound).
    { intros [[[[[t0 np0] p0] o0] m0] e0] d. unfold by_topic. unreaders. dsl.
      destruct (read_short_ascii d) as [[t d1]|e]; dsl; [|exists (t0, np0, p0, o0, m0, e0); reflexivity].
      destruct (unpack Fi d1) as [[np d2]|e]; dsl; [|exists (t0, np0, p0, o0, m0, e0); reflexivity].
      yield_loop (ofetch_part t) v_ofetch
                 (fun '(p, o, m, er) => [VInt c; VInt nt; VUnbound; VText t; VInt np; p; o; m; er]) (p0, o0, m0, e0).
      { intros [[[p1 o1] m1] e1] d'. unfold ofetch_part. unreaders. dsl.
        destruct (unpack Fi d') as [[p d3]|e]; dsl; [|exists (p1, o1, m1, e1); reflexivity].
        destruct (unpack Fq d3) as [[o d4]|e]; dsl; [|exists (p1, o1, m1, e1); reflexivity].
        destruct (read_short_bytes d4) as [[md d5]|e]; dsl; [|exists (p1, o1, m1, e1); reflexivity].
        destruct (unpack Fh d5) as [[er d6]|e]; dsl; [|exists (p1, o1, m1, e1); destruct md; reflexivity].
        exists (VInt p, VInt o, v_ob md, VInt er). destruct md; reflexivity. }
      destruct ts' as [[[p' o'] m'] e']. finish_loop.
      - exists (VText t, VInt np, p', o', m', e'). reflexivity.
      - exists (t0, np0, p0, o0, m0, e0). reflexivity. }
    finish_loop; reflexivity.
  Qed.

  (* ---------------------------------------------------------------- Produce: the two nested generators and the dispatch *)
  Lemma sound_produce_v0 data :
    run 0 msgset data ast_decode_produce_response__v0 = emb_gen v_produce (decode_produce_v0 data).
  Proof.
    unfold ast_decode_produce_response__v0, decode_produce_v0, topics_after_header. unreaders. dsl.
    destruct (unpack Fi data) as [[c r1]|e]; dsl; [|reflexivity].
    destruct (unpack Fi r1) as [[nt r2]|e]; dsl; [|reflexivity].
    yield_loop (by_topic produce_part_v0) v_produce
               (fun '(t, np, p, er, o) => [VInt c; VInt nt; VUnbound; t; np; p; er; o])
               (VUnbound, VUnbound, VUnbound, VUnbound, VUnbound).
    { intros [[[[t0 np0] p0] e0] o0] d. unfold by_topic. unreaders. dsl.
      destruct (read_short_ascii d) as [[t d1]|e]; dsl; [|exists (t0, np0, p0, e0, o0); reflexivity].
      destruct (unpack Fi d1) as [[np d2]|e]; dsl; [|exists (t0, np0, p0, e0, o0); reflexivity].
      yield_loop (produce_part_v0 t) v_produce
                 (fun '(p, er, o) => [VInt c; VInt nt; VUnbound; VText t; VInt np; p; er; o]) (p0, e0, o0).
      { intros [[p1 e1] o1] d'. unfold produce_part_v0. unreaders. dsl.
        destruct (unpack Fi d') as [[p d3]|e]; dsl; [|exists (p1, e1, o1); reflexivity].
        destruct (unpack Fh d3) as [[er d4]|e]; dsl; [|exists (p1, e1, o1); reflexivity].
        destruct (unpack Fq d4) as [[o d5]|e]; dsl; [|exists (p1, e1, o1); reflexivity].
        exists (VInt p, VInt er, VInt o). reflexivity. }
      destruct ts' as [[p' e'] o']. finish_loop.
      - exists (VText t, VInt np, p', e', o'). reflexivity.
      - exists (t0, np0, p0, e0, o0). reflexivity. }
    finish_loop; reflexivity.
  Qed.

  Lemma sound_produce_v2 data :
    run 0 msgset data ast_decode_produce_response__v2 = emb_gen v_produce (decode_produce_v2 data).
  Proof.
    unfold ast_decode_produce_response__v2, decode_produce_v2, topics_after_header. unreaders. dsl.
    destruct (unpack Fi data) as [[c r1]|e]; dsl; [|reflexivity].
    destruct (unpack Fi r1) as [[nt r2]|e]; dsl; [|reflexivity].
    yield_loop (by_topic produce_part_v2) v_produce
               (fun '(t, np, p, er, o, l) => [VInt c; VInt nt; VUnbound; t; np; p; er; o; l; VUnbound])
               (VUnbound, VUnbound, VUnbound, VUnbound, VUnbound, VUnbound).
    { intros [[[[[t0 np0] p0] e0] o0] l0] d. unfold by_topic. unreaders. dsl.
      destruct (read_short_ascii d) as [[t d1]|e]; dsl; [|exists (t0, np0, p0, e0, o0, l0); reflexivity].
      destruct (unpack Fi d1) as [[np d2]|e]; dsl; [|exists (t0, np0, p0, e0, o0, l0); reflexivity].
      yield_loop (produce_part_v2 t) v_produce
                 (fun '(p, er, o, l) => [VInt c; VInt nt; VUnbound; VText t; VInt np; p; er; o; l; VUnbound]) (p0, e0, o0, l0).
      { intros [[[p1 e1] o1] l1] d'. unfold produce_part_v2. unreaders. dsl.
        destruct (unpack Fi d') as [[p d3]|e]; dsl; [|exists (p1, e1, o1, l1); reflexivity].
        destruct (unpack Fh d3) as [[er d4]|e]; dsl; [|exists (p1, e1, o1, l1); reflexivity].
        destruct (unpack Fq d4) as [[o d5]|e]; dsl; [|exists (p1, e1, o1, l1); reflexivity].
        destruct (unpack Fq d5) as [[l d6]|e]; dsl; [|exists (p1, e1, o1, l1); reflexivity].
        exists (VInt p, VInt er, VInt o, VInt l). reflexivity. }
      destruct ts' as [[[p' e'] o'] l']. finish_loop.
      - exists (VText t, VInt np, p', e', o', l'). reflexivity.
      - exists (t0, np0, p0, e0, o0, l0). reflexivity. }
    destruct ts' as [[[[[t' np'] p'] e'] o'] l'].
    finish_loop; [|reflexivity]. dsl.
    match goal with |- context [unpack Fi ?d] => destruct (unpack Fi d) as [[th d']|e]; dsl; rewrite ?app_nil_r; reflexivity end.
  Qed.

  (* the dispatch: which nested generator a given api_version selects (None = ValueError at call time) *)
  Lemma sound_produce_dispatch ver data :
    decode_produce_response ver data
    = match select ast_decode_produce_response__dispatch ver with
      | Some 0%nat => Some (decode_produce_v0 data)
      | Some 1%nat => Some (decode_produce_v2 data)
      | _ => None
      end.
  Proof.
    unfold decode_produce_response, ast_decode_produce_response__dispatch. cbn [select compare].
    destruct (ver =? 0); [reflexivity|]. destruct (1 <=? ver); reflexivity.
  Qed.

  (* ---------------------------------------------------------------- ListOffsets: a list of offsets per partition *)
  Lemma sound_offsets data :
    run 0 msgset data ast_decode_offset_response = emb_gen v_offset (decode_offset_response data).
  Proof.
    unfold ast_decode_offset_response, decode_offset_response, topics_after_header. unreaders. dsl.
    destruct (unpack Fi data) as [[c r1]|e]; dsl; [|reflexivity].
    destruct (unpack Fi r1) as [[nt r2]|e]; dsl; [|reflexivity].
    yield_loop (by_topic offset_part) v_offset
               (fun '(t, np, p, er, n, l, o) => [VInt c; VInt nt; VUnbound; t; np; p; er; n; l; o])
               (VUnbound, VUnbound, VUnbound, VUnbound, VUnbound, VUnbound, VUnbound).
    { intros [[[[[[t0 np0] p0] e0] n0] l0] o0] d. unfold by_topic. unreaders. dsl.
      destruct (read_short_ascii d) as [[t d1]|e]; dsl; [|exists (t0, np0, p0, e0, n0, l0, o0); reflexivity].
      destruct (unpack Fi d1) as [[np d2]|e]; dsl; [|exists (t0, np0, p0, e0, n0, l0, o0); reflexivity].
      yield_loop (offset_part t) v_offset
                 (fun '(p, er, n, l, o) => [VInt c; VInt nt; VUnbound; VText t; VInt np; p; er; n; l; o]) (p0, e0, n0, l0, o0).
      { intros [[[[p1 e1] n1] l1] o1] d'. unfold offset_part. unreaders. dsl.
        destruct (unpack Fi d') as [[p d3]|e]; dsl; [|exists (p1, e1, n1, l1, o1); reflexivity].
        destruct (unpack Fh d3) as [[er d4]|e]; dsl; [|exists (p1, e1, n1, l1, o1); reflexivity].
        destruct (unpack Fi d4) as [[n d5]|e]; dsl; [|exists (p1, e1, n1, l1, o1); reflexivity].
        collect (unpack Fq)
                (fun (ts : val) (acc : list Z) => [VInt c; VInt nt; VUnbound; VText t; VInt np; VInt p; VInt er; VInt n; VList (map VInt acc); ts])
                (fun (_ : val) (a : Z) => VInt a) o1.
        2:{ intros ts acc d6. dsl. destruct (unpack Fq d6) as [[a d7]|e]; dsl; [|reflexivity]. now rewrite map_app. }
        unfold read_n, loop.
        destruct (for_range (one (unpack Fq)) (S (length d5)) n d5) as [xs [d6|e]]; dsl.
        - exists (VInt p, VInt er, VInt n, VList (map VInt xs), fold_left (fun (_ : val) (a : Z) => VInt a) xs o1). reflexivity.
        - exists (p1, e1, n1, l1, o1). reflexivity. }
      destruct ts' as [[[[p' e'] n'] l'] o']. finish_loop.
      - exists (VText t, VInt np, p', e', n', l', o'). reflexivity.
      - exists (t0, np0, p0, e0, n0, l0, o0). reflexivity. }
    finish_loop; reflexivity.
  Qed.

  (* ---------------------------------------------------------------- ApiVersions: struct.iter_unpack over the rest *)
  Lemma sound_api_versions data :
    run 0 msgset data ast_decode_api_versions_response = emb_res v_api_versions (decode_api_versions_response data).
  Proof.
    unfold ast_decode_api_versions_response, decode_api_versions_response. unreaders. dsl.
    destruct (unpack Fi data) as [[c r1]|e]; dsl; [|reflexivity].
    destruct (unpack Fh r1) as [[er r2]|e]; dsl; [|reflexivity].
    destruct (unpack Fi r2) as [[cnt r3]|e]; dsl; [|reflexivity].
    change (fmt_bytes [Fh; Fh; Fh]) with 6.
    destruct (negb (len r3 mod 6 =? 0)); [reflexivity|].
    assert (H : forall fuel d (ts : val * val * val) acc, exists ts',
               siter [Fh; Fh; Fh] [4; 5; 6]%nat (exec 0 msgset data (SAppend 3 (ECtor K_ApiVersion [AVar 4; AVar 5; AVar 6]))) fuel d
                     (mk_state [VInt c; VInt er; VInt cnt; VList (map v_api_version acc); fst (fst ts); snd (fst ts); snd ts] r3)
               = match iter_unpack read_api_version fuel d with
                 | Ok vs => ([], Next (mk_state [VInt c; VInt er; VInt cnt; VList (map v_api_version (acc ++ vs));
                                                  fst (fst ts'); snd (fst ts'); snd ts'] r3))
                 | Err e => ([], Raise e)
                 end).
    { induction fuel as [|f IH]; intros d ts acc.
      - exists ts. destruct d; cbn [siter iter_unpack]; [now rewrite app_nil_r|reflexivity].
      - destruct d as [|b d]; [exists ts; cbn [siter iter_unpack]; now rewrite app_nil_r|].
        cbn [siter iter_unpack].
        replace (read_api_version (b :: d)) with (do (k, q1) <- unpack Fh (b :: d); do (mn, q2) <- unpack Fh q1; do (mx, q3) <- unpack Fh q2;
                                                  Ok (mk_api_version k mn mx, q3)) by reflexivity. dsl.
        destruct (unpack Fh (b :: d)) as [[k d1]|e]; dsl; [|exists ts; reflexivity].
        destruct (unpack Fh d1) as [[mn d2]|e]; dsl; [|exists ts; reflexivity].
        destruct (unpack Fh d2) as [[mx d3]|e]; dsl; [|exists ts; reflexivity].
        destruct (IH d3 (VInt k, VInt mn, VInt mx) (acc ++ [mk_api_version k mn mx])) as [ts' H']. exists ts'.
        cbn [fst snd] in H'. rewrite map_app in H'. cbn [map] in H'. unfold v_api_version at 2 in H'. cbn [av_key av_min av_max] in H'.
        rewrite H'. destruct (iter_unpack read_api_version f d3) as [vs|e]; dsl; [|reflexivity].
        now rewrite <- app_assoc. }
    destruct (H (length r3) r3 (VUnbound, VUnbound, VUnbound) []) as [ts' H']. cbn [map fst snd app] in H'. rewrite H'.
    destruct (iter_unpack read_api_version (length r3) r3) as [vs|e]; dsl; reflexivity.
  Qed.

  (* ---------------------------------------------------------------- Metadata: three dicts, MAX_BROKERS guard *)
  Definition kv_broker (kb : Z * broker_metadata) : val * val := (VInt (fst kb), v_broker (snd kb)).
  Definition kv_part (kp : Z * partition_metadata) : val * val := (VInt (fst kp), v_partition (snd kp)).
  Definition kv_topic (kt : list Z * topic_metadata) : val * val := (VText (fst kt), v_topic (snd kt)).
  Definition d_brokers (acc : list broker_metadata) : val :=
    VDict (map kv_broker (dict_of Z.eqb (map (fun b => (bm_node b, b)) acc))).
  Definition d_parts (acc : list partition_metadata) : val :=
    VDict (map kv_part (dict_of Z.eqb (map (fun pm => (pm_partition pm, pm)) acc))).
  Definition d_topics (acc : list topic_metadata) : val :=
    VDict (map kv_topic (dict_of zlist_eqb (map (fun t => (tm_topic t, t)) acc))).

  Lemma d_brokers_snoc acc b :
    VDict (dict_put (map kv_broker (dict_of Z.eqb (map (fun b => (bm_node b, b)) acc))) (VInt (bm_node b)) (v_broker b)) = d_brokers (acc ++ [b]).
  Proof.
    unfold d_brokers. rewrite map_app. cbn [map]. rewrite dict_of_snoc.
    now rewrite <- (dict_put_map Z.eqb VInt v_broker (fun a b => eq_refl)).
  Qed.
  Lemma d_parts_snoc acc pm :
    VDict (dict_put (map kv_part (dict_of Z.eqb (map (fun pm => (pm_partition pm, pm)) acc))) (VInt (pm_partition pm)) (v_partition pm)) = d_parts (acc ++ [pm]).
  Proof.
    unfold d_parts. rewrite map_app. cbn [map]. rewrite dict_of_snoc.
    now rewrite <- (dict_put_map Z.eqb VInt v_partition (fun a b => eq_refl)).
  Qed.
  Lemma d_topics_snoc acc t :
    VDict (dict_put (map kv_topic (dict_of zlist_eqb (map (fun t => (tm_topic t, t)) acc))) (VText (tm_topic t)) (v_topic t)) = d_topics (acc ++ [t]).
  Proof.
    unfold d_topics. rewrite map_app. cbn [map]. rewrite dict_of_snoc.
    now rewrite <- (dict_put_map zlist_eqb VText v_topic (fun a b => eq_refl)).
  Qed.

  Lemma sound_metadata data :
    run 0 msgset data ast_decode_metadata_response = emb_res v_metadata (decode_metadata_response data).
  Proof.
    unfold ast_decode_metadata_response, decode_metadata_response. unreaders. dsl.
    destruct (unpack Fi data) as [[c r1]|e]; dsl; [|reflexivity].
    destruct (unpack Fi r1) as [[nb r2]|e]; dsl; [|reflexivity].
    unfold MAX_BROKERS. destruct (1024 <? nb); dsl; [reflexivity|].
    (* brokers *)
    change (VDict []) with (d_brokers []).
    collect_ex read_broker
               (fun '(b4, b5, b6) (acc : list broker_metadata) =>
                  [VInt c; VInt nb; d_brokers acc; VUnbound; b4; b5; b6; VUnbound; VUnbound; VUnbound; VUnbound; VUnbound; VUnbound; VUnbound;
                   VUnbound; VUnbound; VUnbound; VUnbound; VUnbound; VUnbound; VUnbound])
               (VUnbound, VUnbound, VUnbound).
    { intros [[b4 b5] b6] acc d. unfold read_broker, d_brokers. unreaders. dsl.
      destruct (unpack Fi d) as [[node d1]|e]; dsl; [|exists (b4, b5, b6); reflexivity].
      destruct (read_short_ascii d1) as [[host d2]|e]; dsl; [|exists (b4, b5, b6); reflexivity].
      destruct (unpack Fi d2) as [[port d3]|e]; dsl; [|exists (b4, b5, b6); reflexivity].
      exists (VInt node, VText host, VInt port).
      pose proof (d_brokers_snoc acc (mk_broker_metadata node host port)) as S. unfold d_brokers in S.
      unfold v_broker in S. cbn [bm_node bm_host bm_port] in S. now rewrite S. }
    destruct ts' as [[b4 b5] b6]. unfold read_n at 1, loop.
    destruct (for_range (one read_broker) (S (length r2)) nb r2) as [bs [r3|e]]; dsl; [|reflexivity].
    destruct (unpack Fi r3) as [[nt r4]|e]; dsl; [|reflexivity].
    (* topics *)
    change (VDict []) with (d_topics []).
    collect_ex read_topic_metadata
               (fun '(t9, t10, t11, t12, t14, t15, t16, t17, t18, t19, t20) (acc : list topic_metadata) =>
                  [VInt c; VInt nb; d_brokers bs; VUnbound; b4; b5; b6; VInt nt; d_topics acc; t9; t10; t11; t12; VUnbound;
                   t14; t15; t16; t17; t18; t19; t20])
               (VUnbound, VUnbound, VUnbound, VUnbound, VUnbound, VUnbound, VUnbound, VUnbound, VUnbound, VUnbound, VUnbound).
    { intros [[[[[[[[[[t9 t10] t11] t12] t14] t15] t16] t17] t18] t19] t20] acc d. unfold read_topic_metadata. unreaders. dsl.
      destruct (unpack Fh d) as [[terr d1]|e]; dsl; [|exists (t9, t10, t11, t12, t14, t15, t16, t17, t18, t19, t20); reflexivity].
      destruct (read_short_ascii d1) as [[name d2]|e]; dsl; [|exists (t9, t10, t11, t12, t14, t15, t16, t17, t18, t19, t20); reflexivity].
      destruct (unpack Fi d2) as [[np d3]|e]; dsl; [|exists (t9, t10, t11, t12, t14, t15, t16, t17, t18, t19, t20); reflexivity].
      change (VDict []) with (d_parts []).
      collect_ex (read_partition_metadata name)
                 (fun '(p14, p15, p16, p17, p18, p19, p20) (pacc : list partition_metadata) =>
                    [VInt c; VInt nb; d_brokers bs; VUnbound; b4; b5; b6; VInt nt; d_topics acc; VInt terr; VText name; VInt np; d_parts pacc;
                     VUnbound; p14; p15; p16; p17; p18; p19; p20])
                 (t14, t15, t16, t17, t18, t19, t20).
      { intros [[[[[[p14 p15] p16] p17] p18] p19] p20] pacc d'. unfold read_partition_metadata, d_parts. unreaders. dsl.
        destruct (unpack Fh d') as [[perr q1]|e]; dsl; [|exists (p14, p15, p16, p17, p18, p19, p20); reflexivity].
        destruct (unpack Fi q1) as [[pid q2]|e]; dsl; [|exists (p14, p15, p16, p17, p18, p19, p20); reflexivity].
        destruct (unpack Fi q2) as [[leader q3]|e]; dsl; [|exists (p14, p15, p16, p17, p18, p19, p20); reflexivity].
        destruct (unpack Fi q3) as [[nrep q4]|e]; dsl; [|exists (p14, p15, p16, p17, p18, p19, p20); reflexivity].
        destruct (read_ints nrep q4) as [[reps q5]|e]; dsl; [|exists (p14, p15, p16, p17, p18, p19, p20); reflexivity].
        destruct (unpack Fi q5) as [[nisr q6]|e]; dsl; [|exists (p14, p15, p16, p17, p18, p19, p20); reflexivity].
        destruct (read_ints nisr q6) as [[isr q7]|e]; dsl; [|exists (p14, p15, p16, p17, p18, p19, p20); reflexivity].
        exists (VInt perr, VInt pid, VInt leader, VInt nrep, v_ints reps, VInt nisr, v_ints isr).
        pose proof (d_parts_snoc pacc (mk_partition_metadata name pid perr leader reps isr)) as S. unfold d_parts in S.
        unfold v_partition in S. cbn [pm_topic pm_partition pm_error pm_leader pm_replicas pm_isr] in S. unfold v_ints in *. now rewrite S. }
      destruct ts' as [[[[[[p14 p15] p16] p17] p18] p19] p20]. unfold read_n, loop.
      destruct (for_range (one (read_partition_metadata name)) (S (length d3)) np d3) as [pms [d4|e]]; unfold d_topics, d_parts; dsl.
      - exists (VInt terr, VText name, VInt np, d_parts pms, p14, p15, p16, p17, p18, p19, p20).
        pose proof (d_topics_snoc acc (mk_topic_metadata name terr (dict_of Z.eqb (map (fun pm => (pm_partition pm, pm)) pms)))) as S.
        unfold d_topics in S. unfold v_topic in S. cbn [tm_topic tm_error tm_partitions] in S. unfold d_parts, kv_part in *. now rewrite S.
      - exists (t9, t10, t11, t12, t14, t15, t16, t17, t18, t19, t20). reflexivity. }
    destruct ts' as [[[[[[[[[[t9 t10] t11] t12] t14] t15] t16] t17] t18] t19] t20]. unfold read_n, loop.
    destruct (for_range (one read_topic_metadata) (S (length r4)) nt r4) as [tms [r5|e]]; dsl; reflexivity.
  Qed.
End Sound.

(* ---------------------------------------------------------------- Fetch: api_version selects the header layout; the
   record set of every partition goes to _decode_message_set_iter (here: [dec_set depth orc]) *)
Lemma sound_fetch depth orc ver data :
  run ver (dec_set depth orc) data ast_decode_fetch_response = emb_gen v_fetch (decode_fetch_response ver depth orc data).
Proof.
  set (msgset := dec_set depth orc).
  assert (Hloops : forall c nt th r2,
    (let (ys, f) := exec ver msgset data
        (SFor 1 (SSeq (SRead CCur RShortAscii 4) (SSeq (SUnpack CCur [Fi] [5%nat]) (SFor 5 (SSeq (SUnpack CCur [Fi; Fh; Fq] [6; 7; 8]%nat)
           (SSeq (SRead CCur RIntString 9) (SYield (ECtor K_FetchResponse [AVar 4; AVar 6; AVar 7; AVar 8; AMsgSetIter 9]))))))))
        (mk_state [VInt c; VInt nt; th; VUnbound; VUnbound; VUnbound; VUnbound; VUnbound; VUnbound; VUnbound] r2) in
     match f with Next _ => (ys, Ok VNone) | Ret v => (ys, Ok v) | Raise e => (ys, Err e) end)
    = emb_gen v_fetch (loop (by_topic (fetch_part depth orc)) nt r2)).
  { intros c nt th r2. dsl.
    yield_loop (by_topic (fetch_part depth orc)) v_fetch
               (fun '(t, np, p, er, h, ms) => [VInt c; VInt nt; th; VUnbound; t; np; p; er; h; ms])
               (VUnbound, VUnbound, VUnbound, VUnbound, VUnbound, VUnbound).
    { intros [[[[[t0 np0] p0] e0] h0] m0] d. unfold by_topic. unreaders. dsl.
      destruct (read_short_ascii d) as [[t d1]|e]; dsl; [|exists (t0, np0, p0, e0, h0, m0); reflexivity].
      destruct (unpack Fi d1) as [[np d2]|e]; dsl; [|exists (t0, np0, p0, e0, h0, m0); reflexivity].
      yield_loop (fetch_part depth orc t) v_fetch
                 (fun '(p, er, h, ms) => [VInt c; VInt nt; th; VUnbound; VText t; VInt np; p; er; h; ms]) (p0, e0, h0, m0).
      { intros [[[p1 e1] h1] m1] d'. unfold fetch_part, messages_of. unreaders. dsl.
        destruct (unpack Fi d') as [[p d3]|e]; dsl; [|exists (p1, e1, h1, m1); reflexivity].
        destruct (unpack Fh d3) as [[er d4]|e]; dsl; [|exists (p1, e1, h1, m1); reflexivity].
        destruct (unpack Fq d4) as [[h d5]|e]; dsl; [|exists (p1, e1, h1, m1); reflexivity].
        destruct (read_int_string d5) as [[ms d6]|e]; dsl; [|exists (p1, e1, h1, m1); reflexivity].
        exists (VInt p, VInt er, VInt h, v_ob ms). destruct ms; reflexivity. }
      destruct ts' as [[[p' e'] h'] m']. finish_loop.
      - exists (VText t, VInt np, p', e', h', m'). reflexivity.
      - exists (t0, np0, p0, e0, h0, m0). reflexivity. }
    finish_loop; reflexivity. }
  unfold ast_decode_fetch_response, decode_fetch_response, topics_after_header. unreaders. dsl.
  destruct (ver =? 0).
  - dsl. destruct (unpack Fi data) as [[c r1]|e]; dsl; [|reflexivity].
    destruct (unpack Fi r1) as [[nt r2]|e]; dsl; [|reflexivity].
    etransitivity; [|exact (Hloops c nt VUnbound r2)]. unfold msgset. dsl.
    match goal with |- context [sfor_range ?b ?f ?n ?st] => destruct (sfor_range b f n st) as [? ?] end; reflexivity.
  - destruct (2 <=? ver).
    + dsl. destruct (unpack Fi data) as [[c r1]|e]; dsl; [|reflexivity].
      destruct (unpack Fi r1) as [[th r2]|e]; dsl; [|reflexivity].
      destruct (unpack Fi r2) as [[nt r3]|e]; dsl; [|reflexivity].
      etransitivity; [|exact (Hloops c nt (VInt th) r3)]. unfold msgset. dsl.
      match goal with |- context [sfor_range ?b ?f ?n ?st] => destruct (sfor_range b f n st) as [? ?] end; reflexivity.
    + dsl. reflexivity.
Qed.
