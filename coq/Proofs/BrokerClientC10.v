(* C10: resend after a connection drop, reconnection, back-off, close. *)
From AV Require Import Base.Util Proofs.UtilFacts Model.Framing Model.BrokerClient
  Proofs.FramingFacts Proofs.BrokerClientTbl Proofs.BrokerClientInv Proofs.BrokerClientC06.
From Coq Require Import Lia Sorting.Sorted.

(* projections of a trace *)
Definition writes (outs : list output) : list (nat * Z) :=
  flat_map (fun o => match o with OWrite h rid => [(h, rid)] | _ => [] end) outs.
Definition scheds (outs : list output) : list nat :=
  flat_map (fun o => match o with OSched k => [k] | _ => [] end) outs.
Definition connects (outs : list output) : list Z :=
  flat_map (fun o => match o with OConnect a => [a] | _ => [] end) outs.

Lemma writes_app a b : writes (a ++ b) = writes a ++ writes b.
Proof. apply flat_map_app. Qed.
Lemma scheds_app a b : scheds (a ++ b) = scheds a ++ scheds b.
Proof. apply flat_map_app. Qed.
Lemma connects_app a b : connects (a ++ b) = connects a ++ connects b.
Proof. apply flat_map_app. Qed.

(* outputs of the pure table operations: Deferred firings and exceptions only *)
Definition tbl_out (o : output) : Prop :=
  match o with ODef _ _ | ORaised _ | OErr _ _ => True | _ => False end.

Lemma tbl_out_quiet outs : Forall tbl_out outs -> writes outs = [] /\ scheds outs = [] /\ connects outs = [].
Proof.
  induction 1 as [|o outs Ho _ IH]; [auto|]. destruct IH as (A & B & D).
  destruct o; cbn in Ho; try contradiction; cbn; auto.
Qed.

Lemma fire_tbl_out t h o : Forall tbl_out (snd (fire t h o)).
Proof. unfold fire. destruct (is_fired t h); repeat constructor. Qed.

Lemma cancel_tbl_out t h : Forall tbl_out (snd (cancel t h)).
Proof.
  unfold cancel. destruct (nth_error _ h); [|constructor]. destruct (is_fired t h); [constructor|].
  destruct (lookup _ _); [apply fire_tbl_out | repeat constructor].
Qed.

Lemma handle_response_tbl_out t f : Forall tbl_out (snd (handle_response t f)).
Proof.
  unfold handle_response. destruct (corr_id f); [|repeat constructor]. destruct (lookup _ _); [|constructor].
  destruct (r_cancelled r); [constructor | apply fire_tbl_out].
Qed.

Lemma deliver_tbl_out : forall fs t, Forall tbl_out (snd (deliver t fs)).
Proof.
  induction fs as [|f fs IH]; intro t; cbn [deliver]; [constructor|].
  pose proof (handle_response_tbl_out t f) as A. destruct (handle_response t f) as [t1 o1].
  specialize (IH t1). destruct (deliver t1 fs) as [t2 o2]. cbn [snd] in *. apply Forall_app. auto.
Qed.

Lemma fail_all_tbl_out : forall rs t, Forall tbl_out (snd (fail_all t rs)).
Proof.
  induction rs as [|r rs IH]; intro t; cbn [fail_all]; [constructor|].
  destruct (r_cancelled r); [apply IH|].
  pose proof (fire_tbl_out t (r_h r) FailClosed) as A. destruct (fire t (r_h r) FailClosed) as [t1 o1].
  specialize (IH t1). destruct (fail_all t1 rs) as [t2 o2]. cbn [snd] in *. apply Forall_app. auto.
Qed.

Lemma data_in_quiet s chunk : writes (snd (data_in s chunk)) = [] /\ scheds (snd (data_in s chunk)) = []
  /\ connects (snd (data_in s chunk)) = [].
Proof.
  unfold data_in. destruct (data_received ok4 (s_rxbuf s) chunk) as [fs e].
  pose proof (deliver_tbl_out fs (s_t s)) as A. destruct (deliver (s_t s) fs) as [t1 o1]. cbn [snd] in A.
  destruct (tbl_out_quiet _ A) as (W & S & K).
  destruct e; cbn [snd]; rewrite ?writes_app, ?scheds_app, ?connects_app, ?W, ?S, ?K; auto.
Qed.


Lemma data_in_sub s chunk : sub_flags (s_t s) (s_t (fst (data_in s chunk))).
Proof.
  unfold data_in. destruct (data_received ok4 (s_rxbuf s) chunk) as [fs e].
  pose proof (deliver_sub fs (s_t s)) as A. destruct (deliver (s_t s) fs) as [t1 o1]. cbn [fst] in A.
  destruct e; cbn; exact A.
Qed.

Lemma fail_all_reqs : forall rs t, t_reqs (fst (fail_all t rs)) = t_reqs t.
Proof.
  induction rs as [|r rs IH]; intro t; cbn [fail_all]; [reflexivity|].
  destruct (r_cancelled r); [apply IH|].
  pose proof (fire_reqs t (r_h r) FailClosed) as A. destruct (fire t (r_h r) FailClosed) as [t1 o1].
  specialize (IH t1). destruct (fail_all t1 rs) as [t2 o2]. cbn [fst] in *. congruence.
Qed.

(* close(): no write, no connection attempt, no timer; the table is emptied *)
Lemma close_quiet s : writes (snd (step s EClose)) = [] /\ t_dlog (s_t (fst (step s EClose))) = t_dlog (s_t s)
  /\ sub_flags (s_t s) (s_t (fst (step s EClose)))
  /\ scheds (snd (step s EClose)) = [] /\ connects (snd (step s EClose)) = []
  /\ (s_down s = DNone -> reqs (fst (step s EClose)) = []).
Proof.
  pose proof (dlog_is_make_log s EClose) as D. cbn beta iota in D.
  split; [|split; [exact D|]].
  - cbn [step]. destruct (s_down s); try reflexivity.
    destruct (s_proto s) eqn:P; [|destruct (s_connector s) eqn:K]; cbn; rewrite ?P, ?K; cbn;
      match goal with |- context [fail_all ?a ?b] =>
        pose proof (fail_all_tbl_out b a) as A; destruct (fail_all a b) as [t2 o2] end; cbn in *;
      apply (tbl_out_quiet _ A).
  - assert (X : s_down s = DNone -> reqs (fst (step s EClose)) = []).
    { intro Dn. unfold reqs. cbn [step]. rewrite Dn.
      destruct (s_proto s) eqn:P; [|destruct (s_connector s) eqn:K]; cbn; rewrite ?P, ?K; cbn;
      match goal with |- context [fail_all ?a ?b] =>
        pose proof (fail_all_reqs b a) as A; destruct (fail_all a b) as [t2 o2] end; cbn in *; exact A. }
    split; [|split; [|split; [|exact X]]].
    + destruct (s_down s) eqn:Dn; try (cbn [step]; rewrite Dn; apply sub_flags_refl).
      intros x Hx. unfold reqs in X. rewrite (X eq_refl) in Hx. contradiction.
    + cbn [step]. destruct (s_down s); try reflexivity.
      destruct (s_proto s) eqn:P; [|destruct (s_connector s) eqn:K]; cbn; rewrite ?P, ?K; cbn;
      match goal with |- context [fail_all ?a ?b] =>
        pose proof (fail_all_tbl_out b a) as A; destruct (fail_all a b) as [t2 o2] end; cbn in *;
      apply (tbl_out_quiet _ A).
    + cbn [step]. destruct (s_down s); try reflexivity.
      destruct (s_proto s) eqn:P; [|destruct (s_connector s) eqn:K]; cbn; rewrite ?P, ?K; cbn;
      match goal with |- context [fail_all ?a ?b] =>
        pose proof (fail_all_tbl_out b a) as A; destruct (fail_all a b) as [t2 o2] end; cbn in *;
      apply (tbl_out_quiet _ A).
Qed.

(* ------------------------------------------------------------------ C10_resend *)
Lemma writes_sq rs : writes (sq_outs rs) = map (fun r => (r_h r, r_id r)) rs.
Proof.
  induction rs as [|r rs IH]; [reflexivity|]. unfold sq_outs in *. cbn [flat_map map].
  rewrite writes_app. rewrite IH. destruct (r_expect r); reflexivity.
Qed.

Lemma SSorted_seq : forall n a, StronglySorted lt (seq a n).
Proof.
  induction n as [|n IH]; intro a; cbn; constructor; [apply IH|].
  rewrite Forall_forall. intros x Hx. apply in_seq in Hx. lia.
Qed.

Definition unfired (s : state) (h : nat) : bool := negb (memb h (t_fired (s_t s))).

(* the Deferreds that have not fired, in issue order *)
Definition pending (s : state) : list nat := filter (unfired s) (seq 0 (length (t_dlog (s_t s)))).

(* without a connection the table is exactly the pending Deferreds, in issue order *)
Lemma table_is_pending s : CInv s -> s_proto s = false -> map r_h (reqs s) = pending s.
Proof.
  intros C P. pose proof (ci_t s C) as T. pose proof (ci_unsent s C P) as U. rewrite Forall_forall in U.
  apply SSorted_lt_ext.
  - apply (ti_sorted _ T).
  - unfold pending. rewrite <- (map_id (filter _ _)). apply SSorted_map_filter. rewrite map_id. apply SSorted_seq.
  - intro h. unfold pending. rewrite filter_In, in_seq. unfold unfired. rewrite negb_true_iff. unfold memb. rewrite memb_nIn.
    split.
    + intro Hin. apply in_map_iff in Hin. destruct Hin as (r & <- & Hr).
      destruct (TInv_entry _ r T Hr) as (E1 & E2 & E3 & _). split.
      * split; [lia|]. cbn. apply nth_error_Some. congruence.
      * apply E3. destruct (r_cancelled r); auto. rewrite (U r Hr) in E2. symmetry. auto.
    + intros [[_ Hl] Hf]. cbn in Hl. destruct (ti_complete _ T h Hl Hf) as (r & Hr & <-). apply in_map. exact Hr.
Qed.

Theorem resend s : CInv s -> s_connector s = CAttempt ->
  exists s', step s EConnOk = (s', sq_outs (reqs s))
    /\ writes (sq_outs (reqs s)) = map (fun r => (r_h r, r_id r)) (reqs s)
    /\ map r_h (reqs s) = pending s
    /\ NoDup (map r_h (reqs s))
    /\ reqs s' = sq_reqs (reqs s) /\ s_proto s' = true /\ s_failures s' = 0%nat.
Proof.
  intros C K. destruct (CInv_attempt_open s C (or_introl K)) as [Dn P].
  cbn [step]. rewrite K. cbn [with_rxbuf with_proto with_connector with_failures s_down s_t]. rewrite Dn.
  destruct (send_queued_ok (s_t s) (ci_t s C) (ci_unsent s C P)) as [SQ _].
  unfold lift. rewrite SQ. cbn [fst snd]. eexists. split; [reflexivity|].
  split; [apply writes_sq|]. split; [apply table_is_pending; auto|].
  split; [apply TInv_handles_nodup; apply C|]. cbn. auto.
Qed.

(* events that cannot change the table while no connection is up *)
Definition quiet (e : event) : bool :=
  match e with
  | EConnFail | EFire | EDisconnect | EUpdate _ _ | ELost | EData _ | EFrame _ => true
  | _ => false
  end.

Lemma quiet_step s e s' o : CInv s -> s_proto s = false -> quiet e = true -> step s e = (s', o) ->
  s_t s' = s_t s /\ s_proto s' = false /\ s_down s' = s_down s /\ writes o = [].
Proof.
  intros C P Q H. destruct e; try discriminate; cbn [step] in H; rewrite ?P in H.
  - destruct (s_connector s) eqn:K; try (injection H as <- <-; auto).
    destruct (CInv_attempt_open s C (or_introl K)) as [Dn _]. rewrite Dn in H. injection H as <- <-. cbn. auto.
  - injection H as <- <-. auto.
  - injection H as <- <-. auto.
  - injection H as <- <-. auto.
  - destruct (s_connector s); injection H as <- <-; cbn; auto.
  - injection H as <- <-. auto.
  - destruct same; injection H as <- <-; cbn; auto.
Qed.

Lemma quiet_run : forall evs s s' o, CInv s -> s_proto s = false -> Forall (fun e => quiet e = true) evs ->
  run s evs = (s', o) -> s_t s' = s_t s /\ s_proto s' = false /\ s_down s' = s_down s /\ writes o = [] /\ CInv s'.
Proof.
  induction evs as [|e evs IH]; intros s s' o C P Q H; cbn [run] in H.
  - injection H as <- <-. auto.
  - inversion Q as [|? ? Q1 Q2]; subst.
    destruct (step s e) as [s1 o1] eqn:E1. destruct (run s1 evs) as [s2 o2] eqn:E2. injection H as <- <-.
    destruct (quiet_step _ _ _ _ C P Q1 E1) as (A1 & A2 & A3 & A4).
    pose proof (proj1 (step_inv _ _ _ _ C E1)) as C1.
    destruct (IH _ _ _ C1 A2 Q2 E2) as (B1 & B2 & B3 & B4 & B5).
    rewrite writes_app, A4, B4.
    split; [congruence | split; [exact B2 | split; [congruence | split; [reflexivity | exact B5]]]].
Qed.

(* C10_resend, in the words of the property: what was unanswered and not cancelled when the connection was lost
   is what the next connection carries, in issue order, each once *)
Theorem resend_at_loss s s1 o1 mid s2 o2 : CInv s -> s_proto s = true -> s_down s = DNone ->
  step s ELost = (s1, o1) -> Forall (fun e => quiet e = true) mid -> run s1 mid = (s2, o2) ->
  s_connector s2 = CAttempt ->
  exists s3 o3, step s2 EConnOk = (s3, o3)
    /\ writes o3 = map (fun r => (r_h r, r_id r)) (filter live (reqs s))
    /\ NoDup (map fst (writes o3))
    /\ writes o1 = [] /\ writes o2 = [].
Proof.
  intros C P Dn H1 Q H2 K2.
  pose proof (proj1 (step_inv _ _ _ _ C H1)) as C1.
  assert (R1 : reqs s1 = lost_reqs (reqs s) /\ s_proto s1 = false /\ writes o1 = []).
  { cbn [step] in H1. rewrite P in H1. cbn [with_t with_rxbuf with_proto s_down] in H1. rewrite Dn in H1.
    fold live in H1. fold (lost_reqs (t_reqs (s_t s))) in H1. unfold reqs.
    destruct (lost_reqs (t_reqs (s_t s))) eqn:E; injection H1 as <- <-; cbn; rewrite ?E; auto. }
  destruct R1 as (R1 & P1 & W1).
  destruct (quiet_run _ _ _ _ C1 P1 Q H2) as (T2 & P2 & _ & W2 & C2).
  destruct (resend s2 C2 K2) as (s3 & S3 & W3 & _ & ND & _).
  exists s3, (sq_outs (reqs s2)). split; [exact S3|].
  assert (E : reqs s2 = lost_reqs (reqs s)) by (unfold reqs in *; congruence).
  split; [|split; [|auto]].
  - rewrite W3, E. unfold lost_reqs. rewrite map_map. reflexivity.
  - rewrite W3. rewrite map_map. cbn [fst]. exact ND.
Qed.

(* ------------------------------------------------------------------ each request is written at most once per connection *)
Definition wcount (h : nat) (outs : list output) : nat := count_occ Nat.eq_dec (map fst (writes outs)) h.

Definition writable (s : state) (h : nat) : Prop :=
  (length (t_dlog (s_t s)) <= h)%nat \/ exists r, In r (reqs s) /\ r_h r = h /\ r_sent r = false.

Lemma wcount_app h a b : wcount h (a ++ b) = (wcount h a + wcount h b)%nat.
Proof. unfold wcount. rewrite writes_app, map_app, count_occ_app. reflexivity. Qed.

Lemma wcount_quiet h o : writes o = [] -> wcount h o = 0%nat.
Proof. unfold wcount. intros ->. reflexivity. Qed.

Definition w_ok (s s' : state) (o : list output) (h : nat) : Prop :=
  (wcount h o <= 1)%nat /\ (wcount h o = 1%nat -> writable s h /\ ~ writable s' h) /\ (writable s' h -> writable s h).

(* a step that writes nothing and, as far as the table goes, only removes entries or keeps their sent flags *)
Lemma w_ok_sub s s' o h : writes o = [] -> t_dlog (s_t s') = t_dlog (s_t s) -> sub_flags (s_t s) (s_t s') -> w_ok s s' o h.
Proof.
  intros W D Sub. unfold w_ok. rewrite (wcount_quiet h o W). split; [lia|]. split; [discriminate|].
  intros [Hl|(r' & Hr' & Eh & Es)]; [left; congruence|]. right.
  destruct (Sub r' Hr') as (r & Hr & E1 & _ & E3). exists r. split; [exact Hr | split; congruence].
Qed.

Lemma w_ok_same s o h : writes o = [] -> w_ok s s o h.
Proof. intro W. apply w_ok_sub; auto. apply sub_flags_refl. Qed.

Lemma writes_tbl o : Forall tbl_out o -> writes o = [].
Proof. intro H. apply (tbl_out_quiet o H). Qed.

Lemma step_w_ok s e s' o h : CInv s -> step s e = (s', o) -> (e = ELost -> s_proto s = false) -> w_ok s s' o h.
Proof.
  intros C H NL. destruct e.
  - (* makeRequest *)
    cbn [step] in H. unfold make_request in H. destruct s as [t p rx c d f a].
    cbn [s_t s_proto s_rxbuf s_connector s_down s_failures s_addr] in H.
    destruct (lookup rid (t_reqs t)) eqn:L; [injection H as <- <-; apply w_ok_same; reflexivity|].
    pose proof C as C0. break C. rename Ct into T.
    assert (Hh : ~ In (length (t_dlog t)) (t_fired t)). { intro F. apply (ti_fired_lt _ T) in F. lia. }
    assert (Hlt : forall r, In r (t_reqs t) -> (r_h r < length (t_dlog t))%nat).
    { intros r Hr. destruct (TInv_entry t r T Hr) as (X1 & _). apply nth_error_Some. congruence. }
    destruct d.
    + set (r := mkReq rid (length (t_dlog t)) expect false false) in *.
      set (t1 := mkT (t_reqs t ++ [r]) (t_dlog t ++ [rid]) (t_fired t)) in *.
      assert (T1 : TInv t1) by (apply TInv_add; auto).
      destruct p.
      * pose proof (send_request_new t1 (t_reqs t) r eq_refl (ti_ids _ T1) eq_refl Hh) as SR.
        unfold lift, with_t in H. rewrite SR in H. cbn [fst snd s_t s_proto s_rxbuf s_connector s_down s_failures s_addr] in H.
        injection H as <- <-. unfold w_ok, wcount, writable, reqs.
        replace (map fst (writes _)) with [length (t_dlog t)] by (destruct expect; reflexivity).
        cbn [s_t t_reqs t_dlog t1 count_occ]. rewrite app_length. cbn [length].
        destruct (Nat.eq_dec (length (t_dlog t)) h) as [<-|Hne].
        -- split; [lia|]. split.
           ++ intros _. split; [left; lia|]. intros [Hl|(x & Hx & Eh & Es)]; [lia|].
              apply in_app_iff in Hx. destruct Hx as [Hx|Hx]; [apply Hlt in Hx; lia|].
              unfold sq_reqs in Hx. cbn [filter r_expect r] in Hx. destruct expect; cbn in Hx; [|contradiction].
              destruct Hx as [<-|[]]. discriminate.
           ++ intros _. left. lia.
        -- split; [lia|]. split; [discriminate|].
           intros [Hl|(x & Hx & Eh & Es)]; [left; lia|].
           apply in_app_iff in Hx. destruct Hx as [Hx|Hx]; [right; eauto|].
           unfold sq_reqs in Hx. cbn [filter r_expect r] in Hx. destruct expect; cbn in Hx; [|contradiction].
           destruct Hx as [<-|[]]. discriminate.
      * assert (G : forall c' f', w_ok (mkS t false rx c DNone f a) (mkS t1 false rx c' DNone f' a) [] h
                              /\ w_ok (mkS t false rx c DNone f a) (mkS t1 false rx c' DNone f' a) [OConnect a] h).
        { intros c' f'. assert (X : forall oo, writes oo = [] -> w_ok (mkS t false rx c DNone f a) (mkS t1 false rx c' DNone f' a) oo h).
          { intros oo W. unfold w_ok. rewrite (wcount_quiet h oo W). split; [lia|]. split; [discriminate|].
            unfold writable, reqs. cbn [s_t t_reqs t_dlog t1]. rewrite app_length. cbn [length].
            intros [Hl|(x & Hx & Eh & Es)]; [left; lia|]. apply in_app_iff in Hx. destruct Hx as [Hx|[<-|[]]]; [right; eauto|].
            left. cbn in Eh. lia. }
          split; apply X; reflexivity. }
        destruct c; unfold connect, try_connect, with_connector, with_failures, with_t in H;
          cbn [s_t s_proto s_rxbuf s_connector s_down s_failures s_addr] in H; injection H as <- <-; apply G.
    + unfold lift, with_t in H. rewrite fire_unfired in H by exact Hh.
      cbn [fst snd t_reqs t_dlog t_fired s_t s_proto s_rxbuf s_connector s_down s_failures s_addr] in H.
      injection H as <- <-. unfold w_ok, wcount. cbn [writes flat_map app map count_occ]. split; [lia|]. split; [discriminate|].
      unfold writable, reqs. cbn [s_t t_reqs t_dlog]. rewrite app_length. cbn [length].
      intros [Hl|X]; [left; lia | right; exact X].
    + unfold lift, with_t in H. rewrite fire_unfired in H by exact Hh.
      cbn [fst snd t_reqs t_dlog t_fired s_t s_proto s_rxbuf s_connector s_down s_failures s_addr] in H.
      injection H as <- <-. unfold w_ok, wcount. cbn [writes flat_map app map count_occ]. split; [lia|]. split; [discriminate|].
      unfold writable, reqs. cbn [s_t t_reqs t_dlog]. rewrite app_length. cbn [length].
      intros [Hl|X]; [left; lia | right; exact X].
  - cbn [step] in H. unfold lift in H. injection H as <- <-. apply w_ok_sub.
    + apply writes_tbl. apply cancel_tbl_out.
    + cbn. apply cancel_dlog.
    + cbn. apply cancel_sub.
  - (* connection established: every queued request is written *)
    destruct (s_connector s) eqn:K; try (cbn [step] in H; rewrite K in H; injection H as <- <-; apply w_ok_same; reflexivity).
    destruct (resend s C K) as (s3 & S3 & W3 & _ & ND & R3 & P3 & _). rewrite S3 in H. injection H as <- <-.
    destruct (CInv_attempt_open s C (or_introl K)) as [Dn P].
    pose proof (ci_unsent s C P) as U. rewrite Forall_forall in U.
    assert (D3 : t_dlog (s_t s3) = t_dlog (s_t s)).
    { cbn [step] in S3. rewrite K in S3.
      cbn [with_rxbuf with_proto with_connector with_failures s_down s_t] in S3. rewrite Dn in S3.
      unfold lift in S3. injection S3 as <- _. cbn. apply send_each_dlog. }
    unfold w_ok, wcount. rewrite W3, map_map. cbn [fst].
    change (map (fun x : req => r_h x) (reqs s)) with (map r_h (reqs s)).
    pose proof (NoDup_count_occ Nat.eq_dec (map r_h (reqs s))) as NC. rewrite NC in ND.
    split; [apply ND|]. split.
    + intro E1. assert (Hin : In h (map r_h (reqs s))).
      { apply (count_occ_In Nat.eq_dec). lia. }
      apply in_map_iff in Hin. destruct Hin as (r & Eh & Hr). split.
      * right. exists r. auto.
      * intros [Hl|(x & Hx & Ex & Es)].
        -- rewrite D3 in Hl. destruct (TInv_entry _ r (ci_t s C) Hr) as (X1 & _).
           assert (r_h r < length (t_dlog (s_t s)))%nat by (apply nth_error_Some; congruence). lia.
        -- rewrite R3 in Hx. unfold sq_reqs in Hx. apply in_map_iff in Hx. destruct Hx as (y & <- & _). discriminate.
    + intros [Hl|(x & Hx & Ex & Es)]; [left; congruence|].
      rewrite R3 in Hx. unfold sq_reqs in Hx. apply in_map_iff in Hx. destruct Hx as (y & <- & _). discriminate.
  - cbn [step] in H. destruct (s_connector s) eqn:K; try (injection H as <- <-; apply w_ok_same; reflexivity).
    destruct (CInv_attempt_open s C (or_introl K)) as [Dn _]. rewrite Dn in H. injection H as <- <-.
    apply w_ok_sub; [reflexivity | reflexivity | apply sub_flags_refl].
  - cbn [step] in H. rewrite (NL eq_refl) in H. injection H as <- <-. apply w_ok_same. reflexivity.
  - cbn [step] in H. destruct (s_proto s); [|injection H as <- <-; apply w_ok_same; reflexivity].
    pose proof (data_in_quiet s chunk) as (W & _). pose proof (data_in_dlog s chunk) as D.
    pose proof (data_in_sub s chunk) as Sb. rewrite H in *. cbn [fst snd] in *. apply w_ok_sub; auto.
  - cbn [step] in H. destruct (s_proto s); [|injection H as <- <-; apply w_ok_same; reflexivity].
    pose proof (data_in_quiet s (encode_frame body)) as (W & _). pose proof (data_in_dlog s (encode_frame body)) as D.
    pose proof (data_in_sub s (encode_frame body)) as Sb. rewrite H in *. cbn [fst snd] in *. apply w_ok_sub; auto.
  - cbn [step] in H. destruct (s_connector s); injection H as <- <-; try (apply w_ok_same; reflexivity).
    apply w_ok_sub; [reflexivity | reflexivity | apply sub_flags_refl].
  - pose proof (close_quiet s) as (W & D & Sb & _). rewrite H in *. cbn [fst snd] in *. apply w_ok_sub; auto.
  - cbn [step] in H. destruct (s_proto s); injection H as <- <-; apply w_ok_same; reflexivity.
  - cbn [step] in H. destruct same; injection H as <- <-; [|apply w_ok_same; reflexivity].
    apply w_ok_sub; [reflexivity | reflexivity | apply sub_flags_refl].
Qed.

(* between two connection losses every request is written at most once *)
Theorem write_once : forall evs s s' o h, CInv s -> Forall (fun e => e <> ELost) evs -> run s evs = (s', o) ->
  w_ok s s' o h.
Proof.
  induction evs as [|e evs IH]; intros s s' o h C NL H; cbn [run] in H.
  - injection H as <- <-. apply w_ok_same. reflexivity.
  - inversion NL as [|? ? N1 N2]; subst.
    destruct (step s e) as [s1 o1] eqn:E1. destruct (run s1 evs) as [s2 o2] eqn:E2. injection H as <- <-.
    pose proof (step_w_ok s e s1 o1 h C E1 ltac:(intro; contradiction)) as (A1 & A2 & A3).
    pose proof (proj1 (step_inv _ _ _ _ C E1)) as C1.
    destruct (IH s1 s2 o2 h C1 N2 E2) as (B1 & B2 & B3).
    unfold w_ok. rewrite wcount_app.
    assert (X : wcount h o1 = 1%nat -> wcount h o2 = 0%nat).
    { intro E. destruct (A2 E) as [_ Nw]. destruct (Nat.eq_dec (wcount h o2) 1) as [Y|Y]; [|lia].
      exfalso. apply Nw. apply (B2 Y). }
    split; [|split].
    + destruct (Nat.eq_dec (wcount h o1) 1) as [Y|Y]; [rewrite (X Y); lia | lia].
    + intro E. destruct (Nat.eq_dec (wcount h o1) 1) as [Y|Y].
      * destruct (A2 Y) as [W1 Nw]. split; [exact W1|]. intro W2. apply Nw. apply B3. exact W2.
      * assert (wcount h o2 = 1%nat) as Z by lia. destruct (B2 Z) as [W1 Nw]. split; [apply A3; exact W1 | exact Nw].
    + intro W. apply A3. apply B3. exact W.
Qed.

(* ------------------------------------------------------------------ C10_reconnect_iff_pending *)
Lemma filter_nil_iff {A} (p : A -> bool) l : filter p l = [] <-> forall x, In x l -> p x = false.
Proof.
  induction l as [|a l IH]; cbn; [tauto|]. destruct (p a) eqn:E; split; intro H.
  - discriminate.
  - rewrite (H a (or_introl eq_refl)) in E. discriminate.
  - intros x [<-|Hx]; auto. apply IH; auto.
  - apply IH. intros x Hx. apply H. right. exact Hx.
Qed.

Definition idle (s : state) : Prop := s_proto s = false /\ s_connector s = CNone /\ s_down s = DNone.

Theorem reconnect_on_loss s s' o : CInv s -> s_proto s = true -> s_down s = DNone -> step s ELost = (s', o) ->
  reqs s' = lost_reqs (reqs s) /\ s_proto s' = false /\
  ((exists r, In r (reqs s) /\ r_cancelled r = false) ->
     o = [OConnect (s_addr s)] /\ s_connector s' = CAttempt /\ s_failures s' = 0%nat) /\
  ((forall r, In r (reqs s) -> r_cancelled r = true) -> o = [] /\ idle s' /\ reqs s' = []).
Proof.
  intros C P Dn H. cbn [step] in H. rewrite P in H. cbn [with_t with_rxbuf with_proto s_down] in H. rewrite Dn in H.
  fold live in H. fold (lost_reqs (t_reqs (s_t s))) in H. unfold reqs, idle.
  pose proof (ci_conn s C P) as K.
  assert (E0 : lost_reqs (t_reqs (s_t s)) = [] <-> forall r, In r (t_reqs (s_t s)) -> r_cancelled r = true).
  { unfold lost_reqs. split.
    - intros E r Hr. destruct (r_cancelled r) eqn:Cr; auto. exfalso.
      assert (In (set_sent false r) (map (set_sent false) (filter live (t_reqs (s_t s))))) as X.
      { apply in_map. apply filter_In. split; auto. unfold live. rewrite Cr. reflexivity. }
      rewrite E in X. contradiction.
    - intro A. rewrite (proj2 (filter_nil_iff _ _)); [reflexivity|]. intros r Hr. unfold live. rewrite (A r Hr). reflexivity. }
  destruct (lost_reqs (t_reqs (s_t s))) eqn:E.
  - injection H as <- <-. cbn. split; [reflexivity|]. split; [reflexivity|]. split.
    + intros (r & Hr & Cr). rewrite (proj1 E0 eq_refl r Hr) in Cr. discriminate.
    + intros _. auto.
  - unfold connect, try_connect in H. injection H as <- <-. cbn. split; [reflexivity|]. split; [reflexivity|]. split.
    + intros _. auto.
    + intro A. exfalso. assert (r :: l = []) as X by (apply E0; assumption). discriminate.
Qed.


Lemma idle_empty s : CInv s -> idle s -> reqs s = [].
Proof.
  intros C (P & K & D). destruct (reqs s) eqn:E; [reflexivity|]. exfalso.
  destruct (ci_reconn s C D P) as [X|X]; try congruence.
Qed.

(* an idle client (no connection, no attempt, not closed) opens a connection exactly when a request is made *)
Theorem idle_connects s e s' o : CInv s -> idle s -> step s e = (s', o) ->
  match e with
  | EMake rid ex => o = [OConnect (s_addr s)] /\ s_connector s' = CAttempt /\ s_failures s' = 0%nat
                    /\ reqs s' = [mkReq rid (length (t_dlog (s_t s))) ex false false]
  | EClose => connects o = []
  | _ => connects o = [] /\ idle s'
  end.
Proof.
  intros C I H. pose proof (idle_empty s C I) as E. destruct I as (P & K & D). unfold idle, reqs in *.
  destruct e; cbn [step] in H; rewrite ?P, ?K in H.
  - unfold make_request in H. rewrite E in H. cbn [lookup find] in H. rewrite D, P, K in H.
    unfold connect, try_connect in H. injection H as <- <-. cbn. rewrite ?E. auto.
  - unfold lift in H. injection H as <- <-. cbn. split; auto.
    apply (tbl_out_quiet _ (cancel_tbl_out (s_t s) h)).
  - injection H as <- <-. auto.
  - injection H as <- <-. auto.
  - injection H as <- <-. auto.
  - injection H as <- <-. auto.
  - injection H as <- <-. auto.
  - injection H as <- <-. auto.
  - pose proof (close_quiet s) as (_ & _ & _ & _ & X & _). cbn [step] in X. rewrite H in X. exact X.
  - injection H as <- <-. auto.
  - destruct same; injection H as <- <-; cbn; auto.
Qed.

(* ------------------------------------------------------------------ C10_backoff *)
Definition connecting (s : state) : Prop := s_connector s = CAttempt \/ s_connector s = CTimer.

Theorem backoff_fail s : CInv s -> s_connector s = CAttempt ->
  step s EConnFail = (with_connector (with_failures s (S (s_failures s))) CTimer, [OSched (S (s_failures s))]).
Proof.
  intros C K. destruct (CInv_attempt_open s C (or_introl K)) as [Dn _]. cbn [step]. rewrite K, Dn. reflexivity.
Qed.

Theorem backoff_fire s : s_connector s = CTimer -> step s EFire = (with_connector s CAttempt, [OConnect (s_addr s)]).
Proof. intro K. cbn [step]. rewrite K. reflexivity. Qed.

Lemma backoff_seg_step s e s' o : CInv s -> connecting s -> e <> EClose -> e <> EConnOk -> step s e = (s', o) ->
  connecting s' /\ ((scheds o = [] /\ s_failures s' = s_failures s)
                    \/ (scheds o = [S (s_failures s)] /\ s_failures s' = S (s_failures s))).
Proof.
  intros C K N1 N2 H. destruct (CInv_attempt_open s C K) as [Dn P]. unfold connecting in *.
  destruct e; try contradiction; cbn [step] in H; rewrite ?P in H.
  - unfold make_request in H. destruct (lookup rid (t_reqs (s_t s))); [injection H as <- <-; auto|].
    rewrite Dn, P in H. destruct (s_connector s) eqn:Kc; try (destruct K; discriminate);
      injection H as <- <-; cbn; rewrite ?Kc; auto.
  - unfold lift in H. injection H as <- <-. cbn. split; auto. left. split; auto.
    apply (tbl_out_quiet _ (cancel_tbl_out (s_t s) h)).
  - destruct (s_connector s) eqn:Kc; try (injection H as <- <-; rewrite ?Kc; auto; fail).
    rewrite Dn in H. injection H as <- <-. cbn. auto.
  - injection H as <- <-. auto.
  - injection H as <- <-. auto.
  - injection H as <- <-. auto.
  - destruct (s_connector s) eqn:Kc; injection H as <- <-; cbn; rewrite ?Kc; auto.
  - injection H as <- <-. auto.
  - destruct same; injection H as <- <-; cbn; auto.
Qed.

(* while connecting, the k-th failure in a row waits policy(k): the timer indices are consecutive *)
Theorem backoff_run : forall evs s s' o, CInv s -> connecting s ->
  Forall (fun e => e <> EClose /\ e <> EConnOk) evs -> run s evs = (s', o) ->
  connecting s' /\ (s_failures s <= s_failures s')%nat
  /\ scheds o = seq (S (s_failures s)) (s_failures s' - s_failures s).
Proof.
  induction evs as [|e evs IH]; intros s s' o C K N H; cbn [run] in H.
  - injection H as <- <-. rewrite Nat.sub_diag. auto.
  - inversion N as [|? ? [N1 N2] N']; subst.
    destruct (step s e) as [s1 o1] eqn:E1. destruct (run s1 evs) as [s2 o2] eqn:E2. injection H as <- <-.
    destruct (backoff_seg_step _ _ _ _ C K N1 N2 E1) as (K1 & A).
    pose proof (proj1 (step_inv _ _ _ _ C E1)) as C1.
    destruct (IH _ _ _ C1 K1 N' E2) as (K2 & L & Sq). rewrite scheds_app, Sq.
    destruct A as [[A1 A2]|[A1 A2]]; rewrite A1, A2 in *.
    + cbn [app]. auto.
    + split; [exact K2|]. split; [lia|]. cbn [app].
      replace (s_failures s2 - s_failures s)%nat with (S (s_failures s2 - S (s_failures s))) by lia. reflexivity.
Qed.

(* ------------------------------------------------------------------ C10_close *)
Definition closed (s : state) : Prop := s_down s <> DNone.

Definition defs (outs : list output) : list output :=
  filter (fun o => match o with ODef _ _ => true | _ => false end) outs.

Lemma defs_app a b : defs (a ++ b) = defs a ++ defs b.
Proof. apply filter_app. Qed.

Lemma defs_all l : defs (map (fun r => ODef (r_h r) FailClosed) l) = map (fun r => ODef (r_h r) FailClosed) l.
Proof. induction l as [|x l IH]; [reflexivity|]. cbn [map]. unfold defs in *. cbn [filter]. rewrite IH. reflexivity. Qed.

Lemma defs_skip o l : (match o with ODef _ _ => false | _ => true end) = true -> defs (o :: l) = defs l.
Proof. unfold defs. cbn [filter]. destruct o; try reflexivity. discriminate. Qed.

Theorem close_step s s' o : CInv s -> s_down s = DNone -> step s EClose = (s', o) ->
  closed s' /\ reqs s' = []
  /\ (forall h, (h < length (t_dlog (s_t s)))%nat -> In h (t_fired (s_t s')))          (* every Deferred has fired *)
  /\ defs o = map (fun r => ODef (r_h r) FailClosed) (filter live (rev (reqs s)))     (* the pending ones: ClientError, newest first *)
  /\ writes o = [] /\ connects o = [] /\ scheds o = []
  /\ (s_proto s = true -> In OLose o /\ s_down s' = DPending /\ ~ In OCloseFired o)
  /\ (s_proto s = false -> In OCloseFired o /\ s_down s' = DFired)
  /\ (s_connector s = CAttempt -> In OCancelAttempt o)
  /\ (s_connector s = CTimer -> In OCancelTimer o)
  /\ ~ connecting s'.
Proof.
  intros C Dn H. pose proof (close_quiet s) as (W & _ & _ & Sc & Cn & R). rewrite H in *. cbn [fst snd] in *.
  destruct (close_table_ok (s_t s) (ci_t s C)) as (FA & _ & All).
  cbn [step] in H. rewrite Dn in H. unfold reqs, closed, connecting in *.
  unfold fire_down in H. unfold with_down, with_connector, with_t in H.
  destruct s as [t p rx c d f a]. cbn [s_t s_proto s_rxbuf s_connector s_down s_failures s_addr] in *. subst d.
  destruct p.
  - cbn [s_t s_proto s_rxbuf s_connector s_down s_failures s_addr] in H. rewrite FA in H. injection H as <- <-.
    cbn [s_t s_proto s_rxbuf s_connector s_down s_failures s_addr t_reqs t_fired].
    pose proof (ci_conn _ C eq_refl) as K. cbn in K. subst c.
    split; [discriminate|]. split; [reflexivity|]. split; [exact All|]. rewrite !defs_skip by reflexivity. rewrite defs_all.
    repeat split; auto; try discriminate.
    + left. reflexivity.
    + intros [X|X]; [discriminate|]. apply in_map_iff in X. destruct X as (r & X & _). discriminate.
    + intros [X|X]; discriminate.
  - destruct c; cbn [s_t s_proto s_rxbuf s_connector s_down s_failures s_addr] in H;
      try (rewrite FA in H; injection H as <- <-;
           cbn [s_t s_proto s_rxbuf s_connector s_down s_failures s_addr t_reqs t_fired];
           split; [discriminate|]; split; [reflexivity|]; split; [exact All|];
           rewrite !defs_skip by reflexivity; rewrite defs_all;
           repeat split; auto; try discriminate; cbn; auto;
           try (intros [X|X]; discriminate); fail).
    exfalso. exact (ci_open _ C eq_refl eq_refl).
Qed.

Lemma handle_response_empty t f : t_reqs t = [] -> fst (handle_response t f) = t /\ defs (snd (handle_response t f)) = [].
Proof.
  intro E. unfold handle_response. destruct (corr_id f); [|auto]. rewrite E. cbn. auto.
Qed.

Lemma deliver_empty : forall fs t, t_reqs t = [] -> fst (deliver t fs) = t /\ defs (snd (deliver t fs)) = [].
Proof.
  induction fs as [|f fs IH]; intros t E; cbn [deliver]; [auto|].
  destruct (handle_response_empty t f E) as [A1 A2]. destruct (handle_response t f) as [t1 o1]. cbn [fst snd] in *. subst t1.
  destruct (IH t E) as [B1 B2]. destruct (deliver t fs) as [t2 o2]. cbn [fst snd] in *. rewrite defs_app, A2, B2. auto.
Qed.

Ltac four := split; [auto | split; [auto | split; [auto | split; [auto | ] ] ] ].

Lemma closed_step s e s' o : CInv s -> closed s -> step s e = (s', o) ->
  closed s' /\ writes o = [] /\ connects o = [] /\ scheds o = []
  /\ (forall h oc, In (ODef h oc) o -> oc = FailClosed /\ exists rid ex, e = EMake rid ex).
Proof.
  intros C Cl H. unfold closed in *. destruct (ci_closed s C Cl) as [E K]. unfold reqs in E.
  assert (NoDef : forall oo : list output, defs oo = [] -> forall h oc, In (ODef h oc) oo -> False).
  { intros oo ND h oc Hin. assert (In (ODef h oc) (defs oo)) as Y by (apply filter_In; auto). rewrite ND in Y. contradiction. }
  destruct e; cbn [step] in H.
  - unfold make_request in H. rewrite E in H. cbn [lookup find] in H.
    assert (X : lift s (fire (mkT [] (t_dlog (s_t s) ++ [rid]) (t_fired (s_t s))) (length (t_dlog (s_t s))) FailClosed) = (s', o))
      by (destruct (s_down s); [contradiction | exact H | exact H]).
    unfold lift, fire in X. destruct (is_fired _ _); injection X as <- <-; cbn [with_t s_down fst snd]; four;
      intros h oc [Y|[]]; try discriminate. injection Y as _ <-. eauto.
  - unfold lift in H. injection H as <- <-. cbn [with_t s_down fst snd].
    pose proof (tbl_out_quiet _ (cancel_tbl_out (s_t s) h)) as (A & B & D). four.
    intros h0 oc Hin. exfalso. unfold cancel in Hin. destruct (nth_error _ h); [|contradiction].
    destruct (is_fired _ h); [contradiction|]. rewrite E in Hin. cbn in Hin. destruct Hin as [X|[]]. discriminate.
  - destruct (s_connector s) eqn:Kc; try (destruct K; discriminate); injection H as <- <-; four; contradiction.
  - destruct (s_connector s) eqn:Kc; try (destruct K; discriminate); injection H as <- <-; four; contradiction.
  - destruct (s_proto s); [|injection H as <- <-; four; contradiction].
    cbn [with_t with_rxbuf with_proto s_down] in H.
    assert (X : fire_down (with_t (with_rxbuf (with_proto s false) []) (t_with_reqs (s_t s) (map (set_sent false) (filter (fun r => negb (r_cancelled r)) (t_reqs (s_t s)))))) = (s', o))
      by (destruct (s_down s); [contradiction | exact H | exact H]).
    unfold fire_down in X. cbn [with_t with_rxbuf with_proto s_down] in X.
    destruct (s_down s) eqn:Dn; try contradiction; injection X as <- <-; cbn [with_down with_t with_rxbuf with_proto s_down]; rewrite ?Dn; (split; [discriminate|]);
      (split; [reflexivity|]); (split; [reflexivity|]); (split; [reflexivity|]); intros h oc [Y|[]]; discriminate.
  - destruct (s_proto s); [|injection H as <- <-; four; contradiction].
    pose proof (data_in_quiet s chunk) as (A & B & D). rewrite H in *. cbn [snd] in *.
    unfold data_in in H. destruct (data_received ok4 (s_rxbuf s) chunk) as [fs e].
    destruct (deliver_empty fs (s_t s) E) as [F1 F2]. destruct (deliver (s_t s) fs) as [t1 o1]. cbn [fst snd] in *.
    assert (G : forall x, defs (o1 ++ x) = defs x) by (intro; rewrite defs_app, F2; reflexivity).
    assert (ND : defs o = []).
    { destruct e; injection H as _ <-; rewrite ?G; auto; rewrite <- (app_nil_r o1), G; reflexivity. }
    assert (SD : s_down s' = s_down s) by (destruct e; injection H as <- _; reflexivity).
    rewrite SD. four. intros h oc Hin. exfalso. exact (NoDef o ND h oc Hin).
  - destruct (s_proto s); [|injection H as <- <-; four; contradiction].
    pose proof (data_in_quiet s (encode_frame body)) as (A & B & D). rewrite H in *. cbn [snd] in *.
    unfold data_in in H. destruct (data_received ok4 (s_rxbuf s) (encode_frame body)) as [fs e].
    destruct (deliver_empty fs (s_t s) E) as [F1 F2]. destruct (deliver (s_t s) fs) as [t1 o1]. cbn [fst snd] in *.
    assert (G : forall x, defs (o1 ++ x) = defs x) by (intro; rewrite defs_app, F2; reflexivity).
    assert (ND : defs o = []).
    { destruct e; injection H as _ <-; rewrite ?G; auto; rewrite <- (app_nil_r o1), G; reflexivity. }
    assert (SD : s_down s' = s_down s) by (destruct e; injection H as <- _; reflexivity).
    rewrite SD. four. intros h oc Hin. exfalso. exact (NoDef o ND h oc Hin).
  - destruct (s_connector s) eqn:Kc; try (destruct K; discriminate); injection H as <- <-; four; contradiction.
  - assert (X : (s, [ORaised 2]) = (s', o)) by (destruct (s_down s); [contradiction | exact H | exact H]).
    injection X as <- <-. four. intros h oc [Y|[]]; discriminate.
  - destruct (s_proto s); injection H as <- <-; four; try contradiction; intros h oc [Y|[]]; discriminate.
  - destruct same; injection H as <- <-; cbn [with_addr s_down]; four; try contradiction; intros h oc [Y|[]]; discriminate.
Qed.

(* after close(): nothing is ever written, no connection is attempted, no timer is armed;
   the only Deferreds that fire are those of new makeRequest calls, failing with ClientError *)
Theorem closed_forever : forall evs s s' o, CInv s -> closed s -> run s evs = (s', o) ->
  closed s' /\ writes o = [] /\ connects o = [] /\ scheds o = []
  /\ (forall h oc, In (ODef h oc) o -> oc = FailClosed).
Proof.
  induction evs as [|e evs IH]; intros s s' o C Cl H; cbn [run] in H.
  - injection H as <- <-. four. contradiction.
  - destruct (step s e) as [s1 o1] eqn:E1. destruct (run s1 evs) as [s2 o2] eqn:E2. injection H as <- <-.
    destruct (closed_step _ _ _ _ C Cl E1) as (Cl1 & A1 & A2 & A3 & A4).
    pose proof (proj1 (step_inv _ _ _ _ C E1)) as C1.
    destruct (IH _ _ _ C1 Cl1 E2) as (Cl2 & B1 & B2 & B3 & B4).
    rewrite writes_app, connects_app, scheds_app, A1, A2, A3, B1, B2, B3. four.
    intros h oc Hin. apply in_app_iff in Hin. destruct Hin as [Hin|Hin]; [apply (A4 h oc Hin) | eapply B4; eauto].
Qed.
