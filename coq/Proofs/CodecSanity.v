(* Sanity examples for Model.Crc and Model.MsgSet (vm_compute on closed terms; no general theorems here). *)
From AV Require Import Base.Util Model.Prim Model.Crc Model.MsgSet.

(* the standard CRC-32 check value: zlib.crc32(b"123456789") = 0xCBF43926 *)
Example crc32_check : crc32 [49;50;51;52;53;54;55;56;57] = 0xCBF43926.
Proof. vm_compute. reflexivity. Qed.

Example crc32_empty : crc32 [] = 0.
Proof. vm_compute. reflexivity. Qed.

Definition clk : nat -> Z := fun k => 1600000000000 + Z.of_nat k.
Definition reqs : list send_request := [(Some [107], [Some [1;2;3]; None]); (None, [Some []])].

(* create_message_set -> _encode_message_set(offset) -> _decode_message_set_iter, as one closed computation *)
Definition pipeline (codec magic off : Z) (depth : nat) (cut : option nat) : res (list message * dres) :=
  do ms <- create_message_set marker_oracle clk reqs codec magic;
  do bs <- encode_message_set clk 0 ms (Some off) magic;
  Ok (ms, dec_set depth marker_oracle (match cut with Some n => take n bs | None => bs end)).

Definition delivered (r : res (list message * dres)) : res (list Z * option err) :=
  do x <- r; Ok (map fst (fst (snd x)), snd (snd x)).

(* uncompressed, format 0 and 1: the messages come back with offsets 100.. *)
Example roundtrip_plain0 :
  (do x <- pipeline CODEC_NONE 0 100 1 None; Ok (map snd (fst (snd x)), map fst (fst (snd x)), snd (snd x)))
  = (do x <- pipeline CODEC_NONE 0 100 1 None; Ok (fst x, [100; 101; 102], None)).
Proof. vm_compute. reflexivity. Qed.
Example roundtrip_plain1 :
  (do x <- pipeline CODEC_NONE 1 100 1 None; Ok (map snd (fst (snd x)), map fst (fst (snd x)), snd (snd x)))
  = (do x <- pipeline CODEC_NONE 1 100 1 None; Ok (fst x, [100; 101; 102], None)).
Proof. vm_compute. reflexivity. Qed.

(* format-1 gzip wrapper stored at offset 102.  create_gzip_message writes every inner offset as 0
   (_encode_message_set(offset=None)), so `absolute` reports 102 for each inner message: what the code does today.
   Depth 1 is not enough for one wrapper: Fuel. *)
Example wrapper_v1_offsets : delivered (pipeline CODEC_GZIP 1 102 2 None) = Ok ([102; 102; 102], None).
Proof. vm_compute. reflexivity. Qed.
Example wrapper_v0_offsets : delivered (pipeline CODEC_GZIP 0 102 2 None) = Ok ([0; 0; 0], None).
Proof. vm_compute. reflexivity. Qed.
Example wrapper_needs_depth : delivered (pipeline CODEC_GZIP 1 102 1 None) = Ok ([], Some Fuel).
Proof. vm_compute. reflexivity. Qed.

(* truncation: inside the second message -> the first is delivered, silent stop; inside the first -> FetchTooSmall *)
Example truncation_after_one : delivered (pipeline CODEC_NONE 0 5 1 (Some 40%nat)) = Ok ([5], None).
Proof. vm_compute. reflexivity. Qed.
Example truncation_before_any : delivered (pipeline CODEC_NONE 0 5 1 (Some 20%nat)) = Ok ([], Some FetchTooSmall).
Proof. vm_compute. reflexivity. Qed.

(* snappy is unavailable under marker_oracle (as in the sandbox) *)
Example snappy_unavailable : delivered (pipeline CODEC_SNAPPY 0 0 2 None) = Err NotImpl.
Proof. vm_compute. reflexivity. Qed.
