(* The message-extraction loop of _handle_fetch_response (Model/Consumer.v [extract], consumer.py:938-958) against an
   honest broker's reply: what is extracted is exactly the log segment [fetch_offset, new fetch_offset). *)
From Coq Require Import Lia.
From AV Require Import Base.Util Model.Consumer Model.ConsumerLog.

Lemma increasing_tail x l : increasing (x :: l) -> increasing l.
Proof. cbn. tauto. Qed.
Lemma increasing_lb x l : increasing (x :: l) -> Forall (fun y => x < y) l.
Proof.
  revert x. induction l as [|y l IH]; intros x H; constructor.
  - cbn in H. tauto.
  - destruct H as [Hxy H]. specialize (IH y H). eapply Forall_impl; [|exact IH]. cbn. intros; lia.
Qed.
Lemma increasing_app a b : increasing (a ++ b) -> increasing a /\ increasing b /\ forall x y, In x a -> In y b -> x < y.
Proof.
  induction a as [|x a IH]; intro H.
  - cbn. repeat split; auto. intros ? ? [].
  - pose proof (increasing_lb _ _ H) as Hlb. change ((x :: a) ++ b) with (x :: (a ++ b)) in H.
    destruct (IH (increasing_tail _ _ H)) as (Ha & Hb & Hab). split; [|split; auto].
    + destruct a; cbn in *; tauto.
    + intros u v [<-|Hu] Hv; auto. rewrite Forall_forall in Hlb. apply Hlb. apply in_or_app; auto.
Qed.
Lemma increasingb_ok l : increasingb l = true <-> increasing l.
Proof.
  induction l as [|x l IH]; cbn [increasingb increasing]; [tauto|].
  rewrite andb_true_iff, IH. destruct l; [tauto|]. rewrite Z.ltb_lt. tauto.
Qed.

Lemma filter_none {A} (f : A -> bool) a : (forall x, In x a -> f x = false) -> filter f a = [].
Proof.
  induction a as [|x a IH]; intro H; cbn; [reflexivity|]. rewrite H by (left; reflexivity).
  apply IH. intros; apply H; right; auto.
Qed.
Lemma filter_all {A} (f : A -> bool) a : (forall x, In x a -> f x = true) -> filter f a = a.
Proof.
  induction a as [|x a IH]; intro H; cbn; [reflexivity|]. rewrite H by (left; reflexivity).
  f_equal. apply IH. intros; apply H; right; auto.
Qed.

(* an increasing list splits at any offset *)
Lemma filter_split_incr l st foff : increasing l -> st <= foff ->
  filter (fun x => st <=? x) l = filter (fun x => (st <=? x) && (x <? foff)) l ++ filter (fun x => foff <=? x) l.
Proof.
  intros Hinc Hle. induction l as [|x l IH]; [reflexivity|].
  pose proof (increasing_lb _ _ Hinc) as Hlb. specialize (IH (increasing_tail _ _ Hinc)). cbn [filter].
  destruct (foff <=? x) eqn:F.
  - apply Z.leb_le in F. assert ((st <=? x) = true) as -> by (apply Z.leb_le; lia).
    assert ((x <? foff) = false) as -> by (apply Z.ltb_ge; lia). cbn [andb].
    rewrite Forall_forall in Hlb.
    rewrite (filter_none (fun x0 => (st <=? x0) && (x0 <? foff)) l).
    2:{ intros y Hy. specialize (Hlb _ Hy). apply andb_false_iff. right. apply Z.ltb_ge. lia. }
    rewrite (filter_all (fun x0 => st <=? x0) l), (filter_all (fun x0 => foff <=? x0) l); [reflexivity| |].
    + intros y Hy. specialize (Hlb _ Hy). apply Z.leb_le. lia.
    + intros y Hy. specialize (Hlb _ Hy). apply Z.leb_le. lia.
  - apply Z.leb_gt in F. assert ((x <? foff) = true) as -> by (apply Z.ltb_lt; lia). rewrite andb_true_r.
    destruct (st <=? x); cbn [app]; rewrite IH; reflexivity.
Qed.

(* extract on a strictly increasing reply: the messages at or above the fetch offset, all of them, in order; the
   fetch offset moves just past the last one *)
Lemma extract_increasing : forall offs foff, increasing offs ->
  fst (extract foff offs) = filter (fun x => foff <=? x) offs
  /\ foff <= snd (extract foff offs)
  /\ (forall x, In x offs -> x < snd (extract foff offs))
  /\ ((fst (extract foff offs) = [] /\ snd (extract foff offs) = foff)
      \/ (exists m, In m offs /\ snd (extract foff offs) = m + 1)).
Proof.
  induction offs as [|o r IH]; intros foff Hinc; cbn [extract filter].
  - cbn. repeat split; auto; try lia. all: try (intros ? []).
  - pose proof (increasing_lb _ _ Hinc) as Hlb. specialize (IH) with (1 := increasing_tail _ _ Hinc).
    destruct (o <? foff) eqn:E.
    + apply Z.ltb_lt in E. assert (E' : (foff <=? o) = false) by (apply Z.leb_gt; lia). rewrite E'.
      destruct (IH foff) as (I1 & I2 & I3 & I4). repeat split; auto.
      * intros x [<-|Hx]; [lia | auto].
      * destruct I4 as [I4 | (m & Hm & I4)]; [left; auto | right; exists m; split; [right|]; auto].
    + apply Z.ltb_ge in E. assert (E' : (foff <=? o) = true) by (apply Z.leb_le; lia). rewrite E'.
      destruct (IH (o + 1)) as (I1 & I2 & I3 & I4).
      destruct (extract (o + 1) r) as [ms f] eqn:Ex. cbn [fst snd] in *. repeat split.
      * f_equal. rewrite I1. apply filter_ext_in. intros a Ha. rewrite Forall_forall in Hlb. specialize (Hlb _ Ha).
        destruct (o + 1 <=? a) eqn:A, (foff <=? a) eqn:B; auto.
        -- apply Z.leb_le in A. apply Z.leb_gt in B. lia.
        -- apply Z.leb_gt in A. lia.
      * lia.
      * intros x [<-|Hx]; [lia | auto].
      * right. destruct I4 as [[_ I4] | (m & Hm & I4)].
        -- exists o. split; [left; reflexivity | lia].
        -- exists m. split; [right|]; auto.
Qed.

(* against an honest reply: nothing of the log between the old and the new fetch offset is left out, nothing is
   repeated, the order is the log's: for every start position st <= fetch offset,
   log[st, new fetch offset) = log[st, fetch offset) ++ extracted *)
Theorem extract_honest log foff offs ms foff' :
  increasing log -> honest log foff offs -> extract foff offs = (ms, foff') ->
  foff <= foff' /\ forall st, st <= foff -> seg st foff' log = seg st foff log ++ ms.
Proof.
  intros Hinc (pre & post & -> & Hpre) Ex.
  destruct (increasing_app _ _ Hinc) as (Hp & Hrest & Hpr). destruct (increasing_app _ _ Hrest) as (Ho & Hpost & Hop).
  destruct (extract_increasing offs foff Ho) as (E1 & E2 & E3 & E4). rewrite Ex in *. cbn [fst snd] in *.
  split; [exact E2|]. intros st Hst.
  destruct E4 as [[-> ->] | (m & Hm & ->)]; [rewrite app_nil_r; reflexivity|].
  unfold seg. rewrite !filter_app. rewrite Forall_forall in Hpre.
  assert (P1 : filter (fun x => (st <=? x) && (x <? m + 1)) pre = filter (fun x => (st <=? x) && (x <? foff)) pre).
  { apply filter_ext_in. intros a Ha. specialize (Hpre _ Ha). cbn in Hpre.
    assert ((a <? m + 1) = true) as -> by (apply Z.ltb_lt; lia). assert ((a <? foff) = true) as -> by (apply Z.ltb_lt; lia).
    reflexivity. }
  assert (P3 : filter (fun x => (st <=? x) && (x <? m + 1)) post = []).
  { apply filter_none. intros y Hy. specialize (Hop _ _ Hm Hy). apply andb_false_iff. right. apply Z.ltb_ge. lia. }
  assert (P3' : filter (fun x => (st <=? x) && (x <? foff)) post = []).
  { apply filter_none. intros y Hy. specialize (Hop _ _ Hm Hy). apply andb_false_iff. right. apply Z.ltb_ge. lia. }
  assert (P2 : filter (fun x => (st <=? x) && (x <? m + 1)) offs = filter (fun x => (st <=? x) && (x <? foff)) offs ++ ms).
  { rewrite E1, <- (filter_split_incr offs st foff Ho Hst). apply filter_ext_in. intros a Ha. specialize (E3 _ Ha).
    assert ((a <? m + 1) = true) as -> by (apply Z.ltb_lt; lia). apply andb_true_r. }
  rewrite P1, P2, P3, P3', !app_nil_r, app_assoc. reflexivity.
Qed.

Corollary extract_is_segment log foff offs ms foff' :
  increasing log -> honest log foff offs -> extract foff offs = (ms, foff') -> ms = seg foff foff' log.
Proof.
  intros Hi Hh Ex. destruct (extract_honest _ _ _ _ _ Hi Hh Ex) as [_ H]. rewrite (H foff) by lia.
  unfold seg at 1. rewrite filter_none; [reflexivity|]. intros x _. destruct (foff <=? x) eqn:A, (x <? foff) eqn:B; auto.
  apply Z.leb_le in A. apply Z.ltb_lt in B. lia.
Qed.

(* bounded progress: an honest reply that holds an entry at or above the fetch offset strictly advances it *)
Lemma extract_progress foff offs ms foff' x :
  extract foff offs = (ms, foff') -> In x offs -> foff <= x -> increasing offs -> foff < foff' /\ ms <> [].
Proof.
  intros Ex Hx Hle Ho. destruct (extract_increasing offs foff Ho) as (E1 & E2 & E3 & E4). rewrite Ex in *. cbn [fst snd] in *.
  split; [specialize (E3 _ Hx); lia|]. rewrite E1. intro Hnil.
  assert (In x (filter (fun y => foff <=? y) offs)) by (apply filter_In; split; auto; apply Z.leb_le; lia).
  rewrite Hnil in H. destruct H.
Qed.

(* what the loop does on ANY reply (honest or not): strictly increasing output at or above the fetch offset *)
Lemma extract_sorted : forall offs foff ms foff', extract foff offs = (ms, foff') ->
  increasing ms /\ Forall (fun x => foff <= x < foff') ms /\ foff <= foff'.
Proof.
  induction offs as [|o r IH]; intros foff ms foff' Ex; cbn [extract] in Ex.
  - inversion Ex; subst. cbn. repeat split; auto; lia.
  - destruct (o <? foff) eqn:E; [eauto|]. apply Z.ltb_ge in E.
    destruct (extract (o + 1) r) as [ms1 f1] eqn:Ex1. inversion Ex; subst. destruct (IH _ _ _ Ex1) as (I1 & I2 & I3).
    split; [|split]; try lia.
    + cbn [increasing]. split; auto. destruct ms1; auto. inversion I2; subst. lia.
    + constructor; [lia|]. eapply Forall_impl; [|exact I2]. cbn. intros; lia.
Qed.
