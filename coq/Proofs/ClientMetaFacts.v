(* C08: facts about the metadata cache model (Model/ClientMeta.v): the per-topic view, the invariant of
   reachable states and its preservation, exactness and frame of _merge_topic_metadata. *)
From AV Require Import Base.Util Model.ClientMeta Proofs.ClientMetaDict.
From Coq Require Import Lia Permutation Sorted.

Notation zget := (dget Z.eqb).
Notation tget := (dget tp_eqb).

Local Ltac zeq := first [apply Z.eqb_eq | apply tp_eqb_eq].

(* ---- Z / tpk instances of the dictionary laws ---- *)
Lemma zget_set_same : forall {V} k (v : V) d, zget k (dset Z.eqb k v d) = Some v.
Proof. intros. apply dget_dset_same. exact Z.eqb_eq. Qed.
Lemma zget_set_other : forall {V} k k' (v : V) d, k <> k' -> zget k (dset Z.eqb k' v d) = zget k d.
Proof. intros. apply dget_dset_other; [exact Z.eqb_eq|assumption]. Qed.
Lemma zget_del_same : forall {V} k (d : list (Z * V)), zget k (ddel Z.eqb k d) = None.
Proof. intros. apply dget_ddel_same. Qed.
Lemma zget_del_other : forall {V} k k' (d : list (Z * V)), k <> k' -> zget k (ddel Z.eqb k' d) = zget k d.
Proof. intros. apply dget_ddel_other; [exact Z.eqb_eq|assumption]. Qed.
Lemma tget_set_same : forall {V} k (v : V) d, tget k (dset tp_eqb k v d) = Some v.
Proof. intros. apply dget_dset_same. exact tp_eqb_eq. Qed.
Lemma tget_set_other : forall {V} k k' (v : V) d, k <> k' -> tget k (dset tp_eqb k' v d) = tget k d.
Proof. intros. apply dget_dset_other; [exact tp_eqb_eq|assumption]. Qed.
Lemma tget_del_same : forall {V} k (d : list (tpk * V)), tget k (ddel tp_eqb k d) = None.
Proof. intros. apply dget_ddel_same. Qed.
Lemma tget_del_other : forall {V} k k' (d : list (tpk * V)), k <> k' -> tget k (ddel tp_eqb k' d) = tget k d.
Proof. intros. apply dget_ddel_other; [exact tp_eqb_eq|assumption]. Qed.

Lemma zdmem_true : forall {V} k (d : list (Z * V)), dmem Z.eqb k d = true <-> exists v, zget k d = Some v.
Proof.
  intros V k d. unfold dmem. destruct (zget k d) as [v|].
  - split; [eauto|reflexivity].
  - split; [discriminate|]. intros [v H]. discriminate.
Qed.

(* ---- the view of one topic, and the invariant ---- *)
Definition same_topic (t : Z) (a b : state) : Prop :=
  zget t (s_terrs a) = zget t (s_terrs b) /\
  zget t (s_tparts a) = zget t (s_tparts b) /\
  forall p, tget (t, p) (s_t2b a) = tget (t, p) (s_t2b b).

Lemma same_topic_refl : forall t a, same_topic t a a.
Proof. intros. repeat split. Qed.
Lemma same_topic_trans : forall t a b c, same_topic t a b -> same_topic t b c -> same_topic t a c.
Proof.
  intros t a b c [H1 [H2 H3]] [H4 [H5 H6]]. split; [congruence|]. split; [congruence|]. intro p. rewrite H3. apply H6.
Qed.

Definition inv1 (st : state) : Prop :=
  forall t p v, tget (t, p) (s_t2b st) = Some v -> exists ps, zget t (s_tparts st) = Some ps /\ In p ps.
Definition inv_lead (st : state) : Prop :=
  forall k n a, tget k (s_t2b st) = Some (Some (n, a)) -> dmem Z.eqb n (s_brokers st) = true.
Definition inv_g2c (st : state) : Prop :=
  forall g n a, zget g (s_g2c st) = Some (n, a) -> dmem Z.eqb n (s_brokers st) = true.
Definition inv_cl (st : state) : Prop :=
  forall n c, zget n (s_clients st) = Some c -> zget n (s_brokers st) = Some (c_target c).
Definition WF (st : state) : Prop := inv1 st /\ inv_lead st /\ inv_g2c st /\ inv_cl st.

Lemma wf_WF : forall st, wf st = true -> WF st.
Proof.
  intros st H. unfold wf in H. rewrite !andb_true_iff in H. destruct H as [[H1 H2] H3].
  rewrite forallb_forall in H1, H2, H3. repeat split.
  - intros t p v Hg. apply dget_some_in in Hg; [|exact tp_eqb_eq]. apply H1 in Hg.
    unfold wf_t2b_entry in Hg. simpl in Hg. apply andb_true_iff in Hg. destruct Hg as [Hg _].
    destruct (zget t (s_tparts st)) as [ps|]; [|discriminate]. exists ps. split; [reflexivity|].
    apply zmem_in. exact Hg.
  - intros k n a Hg. apply dget_some_in in Hg; [|exact tp_eqb_eq]. apply H1 in Hg.
    unfold wf_t2b_entry in Hg. simpl in Hg. apply andb_true_iff in Hg. tauto.
  - intros g n a Hg. apply dget_some_in in Hg; [|exact Z.eqb_eq]. apply H2 in Hg. exact Hg.
  - intros n c Hg. apply dget_some_in in Hg; [|exact Z.eqb_eq]. apply H3 in Hg. simpl in Hg.
    destruct (zget n (s_brokers st)) as [a|]; [|discriminate]. apply addr_eqb_eq in Hg. subst. reflexivity.
Qed.

Lemma WF_init : forall boot, WF (init_state boot).
Proof. intro boot. repeat split; intros; simpl in *; discriminate. Qed.

(* ---- reset_topic ---- *)
Lemma fold_ddel_get : forall t ps (d : list (tpk * option bmeta)) k,
  tget k (fold_left (fun d p => ddel tp_eqb (t, p) d) ps d) =
  if (fst k =? t) && zmem (snd k) ps then None else tget k d.
Proof.
  intros t ps. induction ps as [|p r IH]; intros d k; simpl.
  - rewrite andb_false_r. reflexivity.
  - rewrite IH. destruct k as [kt kp]. simpl.
    destruct (kt =? t) eqn:Et; simpl.
    + apply Z.eqb_eq in Et. subst kt. destruct (zmem kp r) eqn:Em.
      * rewrite orb_true_r. reflexivity.
      * rewrite orb_false_r. destruct (kp =? p) eqn:Ep.
        -- apply Z.eqb_eq in Ep. subst. apply tget_del_same.
        -- apply tget_del_other. intro H. inversion H. subst. rewrite Z.eqb_refl in Ep. discriminate.
    + apply tget_del_other. intro H. inversion H. subst. rewrite Z.eqb_refl in Et. discriminate.
Qed.

Lemma reset_topic_fields : forall st t,
  s_brokers (reset_topic st t) = s_brokers st /\ s_clients (reset_topic st t) = s_clients st /\
  s_g2c (reset_topic st t) = s_g2c st /\ s_boot (reset_topic st t) = s_boot st /\
  s_closed (reset_topic st t) = s_closed st.
Proof. intros st t. unfold reset_topic. destruct (zget t (s_tparts st)); simpl; repeat split. Qed.

Lemma reset_topic_t2b : forall st t k,
  tget k (s_t2b (reset_topic st t)) =
  match zget t (s_tparts st) with
  | Some ps => if (fst k =? t) && zmem (snd k) ps then None else tget k (s_t2b st)
  | None => tget k (s_t2b st)
  end.
Proof.
  intros st t k. unfold reset_topic. destruct (zget t (s_tparts st)) as [ps|]; simpl; [|reflexivity].
  apply fold_ddel_get.
Qed.

Lemma reset_topic_tparts : forall st t t',
  zget t' (s_tparts (reset_topic st t)) = if t' =? t then None else zget t' (s_tparts st).
Proof.
  intros st t t'. unfold reset_topic. destruct (zget t (s_tparts st)) as [ps|] eqn:E; simpl.
  - destruct (t' =? t) eqn:Et.
    + apply Z.eqb_eq in Et. subst. apply zget_del_same.
    + apply zget_del_other. intro H. subst. rewrite Z.eqb_refl in Et. discriminate.
  - destruct (t' =? t) eqn:Et; [|reflexivity]. apply Z.eqb_eq in Et. subst. exact E.
Qed.

Lemma reset_topic_terrs : forall st t t',
  zget t' (s_terrs (reset_topic st t)) = if t' =? t then None else zget t' (s_terrs st).
Proof.
  intros st t t'. unfold reset_topic.
  assert (H : forall st1, s_terrs st1 = s_terrs st ->
              zget t' (s_terrs (set_terrs st1 (ddel Z.eqb t (s_terrs st1)))) = if t' =? t then None else zget t' (s_terrs st)).
  { intros st1 Hs. simpl. rewrite Hs. destruct (t' =? t) eqn:Et.
    - apply Z.eqb_eq in Et. subst. apply zget_del_same.
    - apply zget_del_other. intro H. subst. rewrite Z.eqb_refl in Et. discriminate. }
  apply H. destruct (zget t (s_tparts st)); reflexivity.
Qed.

Lemma reset_topic_cleared : forall st t, inv1 st -> forall p, tget (t, p) (s_t2b (reset_topic st t)) = None.
Proof.
  intros st t Hinv p. rewrite reset_topic_t2b. simpl. rewrite Z.eqb_refl. simpl.
  destruct (tget (t, p) (s_t2b st)) as [v|] eqn:E.
  - destruct (Hinv _ _ _ E) as [ps [H1 H2]]. rewrite H1. apply zmem_in in H2. rewrite H2. reflexivity.
  - destruct (zget t (s_tparts st)); [destruct (zmem p l)|]; reflexivity.
Qed.

Lemma reset_topic_other : forall st t t', t' <> t -> same_topic t' st (reset_topic st t).
Proof.
  intros st t t' Hne. assert (E : (t' =? t) = false) by (apply Z.eqb_neq; exact Hne).
  repeat split.
  - rewrite reset_topic_terrs, E. reflexivity.
  - rewrite reset_topic_tparts, E. reflexivity.
  - intro p. rewrite reset_topic_t2b. simpl. rewrite E. simpl. destruct (zget t (s_tparts st)); reflexivity.
Qed.

Lemma reset_topic_t2b_sub : forall st t k v,
  tget k (s_t2b (reset_topic st t)) = Some v -> tget k (s_t2b st) = Some v.
Proof.
  intros st t k v. rewrite reset_topic_t2b. destruct (zget t (s_tparts st)); [|auto].
  destruct ((fst k =? t) && zmem (snd k) l); [discriminate|auto].
Qed.

Lemma reset_topic_inv1 : forall st t, inv1 st -> inv1 (reset_topic st t).
Proof.
  intros st t Hinv t' p v Hg. destruct (Z.eq_dec t' t) as [->|Hne].
  - rewrite reset_topic_cleared in Hg by exact Hinv. discriminate.
  - rewrite reset_topic_tparts. replace (t' =? t) with false by (symmetry; apply Z.eqb_neq; exact Hne).
    apply (Hinv t' p v). eapply reset_topic_t2b_sub. exact Hg.
Qed.

Lemma reset_topic_WF : forall st t, WF st -> WF (reset_topic st t).
Proof.
  intros st t [H1 [H2 [H3 H4]]]. destruct (reset_topic_fields st t) as [Eb [Ec [Eg _]]].
  repeat split.
  - apply reset_topic_inv1. exact H1.
  - intros k n a Hg. rewrite Eb. eapply H2. eapply reset_topic_t2b_sub. exact Hg.
  - intros g n a Hg. rewrite Eb. rewrite Eg in Hg. eapply H3. exact Hg.
  - intros n c Hg. rewrite Eb. rewrite Ec in Hg. apply H4. exact Hg.
Qed.

Lemma reset_topics_WF : forall ts st, WF st -> WF (reset_topics st ts).
Proof.
  unfold reset_topics. induction ts as [|t r IH]; intros st H; simpl; [exact H|].
  apply IH. apply reset_topic_WF. exact H.
Qed.

Lemma reset_group_WF : forall st g, WF st -> WF (reset_group st g).
Proof.
  intros st g [H1 [H2 [H3 H4]]]. repeat split; try assumption.
  intros g' n a Hg. simpl in *. destruct (Z.eq_dec g' g) as [->|Hne].
  - rewrite zget_del_same in Hg. discriminate.
  - rewrite zget_del_other in Hg by exact Hne. eapply H3. exact Hg.
Qed.

Lemma reset_groups_WF : forall gs st, WF st -> WF (reset_groups st gs).
Proof.
  unfold reset_groups. induction gs as [|g r IH]; intros st H; simpl; [exact H|].
  apply IH. apply reset_group_WF. exact H.
Qed.

Lemma reset_all_WF : forall st, WF st -> WF (reset_all st).
Proof.
  intros st [H1 [H2 [H3 H4]]]. repeat split; try (intros; simpl in *; discriminate). exact H4.
Qed.

Lemma close_client_WF : forall st, WF (fst (close_client st)).
Proof. intro st. repeat split; intros; simpl in *; discriminate. Qed.

Lemma close_early_WF : forall st, WF st -> WF (close_early st).
Proof.
  intros st [H1 [H2 [H3 H4]]]. repeat split; try assumption. intros n c Hc. simpl in Hc. discriminate.
Qed.

Lemma close_finish_WF : forall st0 st, WF st -> WF (close_finish st0 st).
Proof.
  intros st0 st H. unfold close_finish. destruct (negb (s_closed st0) && s_closed st); [apply reset_all_WF|]; exact H.
Qed.

(* ---- _update_brokers ---- *)
Lemma by_id_nodup_keys : forall bs, NoDup (map fst (by_id bs)).
Proof.
  intro bs. unfold by_id. apply (fold_dset_nodup Z.eqb Z.eqb_eq (fun b : bmeta => fst b) (fun b => snd b)). constructor.
Qed.

Lemma by_id_of_nodup : forall bs : list bmeta, NoDup (map fst bs) -> by_id bs = bs.
Proof.
  intros bs H. unfold by_id.
  pose proof (fold_dset_fresh Z.eqb Z.eqb_eq (fun b : bmeta => fst b) (fun b => snd b) bs [] H (fun x _ F => F)) as H0.
  cbv beta in H0. etransitivity; [exact H0|]. simpl. rewrite <- (map_id bs) at 2. apply map_ext. intros [a b]. reflexivity.
Qed.

Lemma zget_dupdate : forall u d n, NoDup (map fst u) ->
  zget n (dupdate d u) = match zget n u with Some a => Some a | None => zget n d end.
Proof.
  unfold dupdate. induction u as [|e r IH]; intros d n Hnd; simpl; [reflexivity|].
  inversion Hnd; subst. rewrite IH by assumption.
  destruct (n =? fst e) eqn:E.
  - apply Z.eqb_eq in E. subst n.
    assert (Hn : zget (fst e) r = None) by (apply dget_none_notin; [exact Z.eqb_eq|exact H1]).
    rewrite Hn. apply zget_set_same.
  - destruct (zget n r); [reflexivity|]. apply zget_set_other. intro H. subst. rewrite Z.eqb_refl in E. discriminate.
Qed.

Lemma dmem_dupdate_mono : forall u d n, NoDup (map fst u) ->
  dmem Z.eqb n d = true -> dmem Z.eqb n (dupdate d u) = true.
Proof.
  intros u d n Hnd H. unfold dmem in *. rewrite zget_dupdate by exact Hnd.
  destruct (zget n u); [reflexivity|exact H].
Qed.

Lemma zget_map_retarget : forall bid cl n,
  zget n (map (retarget bid) cl) = option_map (fun c => snd (retarget bid (n, c))) (zget n cl).
Proof.
  intros bid cl n. induction cl as [|e r IH]; simpl; [reflexivity|].
  assert (Hk : fst (retarget bid e) = fst e).
  { unfold retarget. destruct (zget (fst e) bid); reflexivity. }
  rewrite Hk. destruct (n =? fst e) eqn:E; [|exact IH].
  apply Z.eqb_eq in E. subst n. simpl. destruct e as [k c]. reflexivity.
Qed.

Lemma zget_filter_key : forall {V} (P : Z -> bool) (l : list (Z * V)) n,
  zget n (filter (fun c => P (fst c)) l) = if P n then zget n l else None.
Proof.
  intros V P l n. induction l as [|e r IH]; simpl; [destruct (P n); reflexivity|].
  destruct (P (fst e)) eqn:Ep; simpl.
  - destruct (n =? fst e) eqn:E; [|exact IH]. apply Z.eqb_eq in E. subst. rewrite Ep. reflexivity.
  - destruct (n =? fst e) eqn:E; [|exact IH]. apply Z.eqb_eq in E. subst. rewrite Ep in IH. rewrite Ep. exact IH.
Qed.

Lemma map_fst_retarget : forall bid cl, map fst (map (retarget bid) cl) = map fst cl.
Proof.
  intros bid cl. rewrite map_map. apply map_ext. intro e. unfold retarget. destruct (zget (fst e) bid); reflexivity.
Qed.

(* the clients after _update_brokers *)
Lemma update_brokers_clients : forall st bs remove n,
  zget n (s_clients (fst (update_brokers st bs remove))) =
  if remove && negb (dmem Z.eqb n (by_id bs)) then None
  else option_map (fun c => snd (retarget (by_id bs) (n, c))) (zget n (s_clients st)).
Proof.
  intros st bs remove n. unfold update_brokers. destruct remove; simpl.
  - rewrite (zget_filter_key (fun k => dmem Z.eqb k (by_id bs))). rewrite zget_map_retarget.
    destruct (dmem Z.eqb n (by_id bs)); reflexivity.
  - apply zget_map_retarget.
Qed.

Lemma update_brokers_fields : forall st bs remove,
  let st' := fst (update_brokers st bs remove) in
  s_brokers st' = dupdate (s_brokers st) (by_id bs) /\ s_t2b st' = s_t2b st /\ s_tparts st' = s_tparts st /\
  s_terrs st' = s_terrs st /\ s_g2c st' = s_g2c st /\ s_boot st' = s_boot st /\ s_closed st' = s_closed st.
Proof. intros st bs remove. unfold update_brokers. destruct remove; simpl; repeat split. Qed.

Lemma update_brokers_WF : forall st bs remove, WF st -> WF (fst (update_brokers st bs remove)).
Proof.
  intros st bs remove [H1 [H2 [H3 H4]]].
  destruct (update_brokers_fields st bs remove) as [Eb [Et [Ep [Ee [Eg _]]]]].
  pose proof (by_id_nodup_keys bs) as Hnd.
  repeat split.
  - intros t p v Hg. rewrite Et in Hg. rewrite Ep. eapply H1. exact Hg.
  - intros k n a Hg. rewrite Et in Hg. rewrite Eb. apply dmem_dupdate_mono; [exact Hnd|]. eapply H2. exact Hg.
  - intros g n a Hg. rewrite Eg in Hg. rewrite Eb. apply dmem_dupdate_mono; [exact Hnd|]. eapply H3. exact Hg.
  - intros n c Hg. rewrite update_brokers_clients in Hg. rewrite Eb. rewrite zget_dupdate by exact Hnd.
    destruct (remove && negb (dmem Z.eqb n (by_id bs))); [discriminate|].
    destruct (zget n (s_clients st)) as [c0|] eqn:E0; [|discriminate]. simpl in Hg. inversion Hg; subst c.
    unfold retarget. simpl. destruct (zget n (by_id bs)) as [a|]; simpl; [reflexivity|]. apply H4. exact E0.
Qed.

(* ---- merge_parts / merge_topic / merge_topics ---- *)
Definition leader_val (nb : list (Z * addr)) (leader : Z) : option (option bmeta) :=
  if leader =? -1 then Some None
  else match zget leader nb with Some a => Some (Some (leader, a)) | None => None end.

Definition parts_known (nb : list (Z * addr)) (parts : list (Z * Z)) : bool :=
  forallb (fun pl => (snd pl =? -1) || dmem Z.eqb (snd pl) nb) parts.

Lemma tget_set_tp : forall {V} t p (v : V) d k,
  tget k (dset tp_eqb (t, p) v d) = if tp_eqb k (t, p) then Some v else tget k d.
Proof.
  intros V t p v d k. destruct (tp_eqb k (t, p)) eqn:E.
  - apply tp_eqb_eq in E. subst. apply tget_set_same.
  - apply tget_set_other. intro H. subst. rewrite (proj2 (tp_eqb_eq _ _) eq_refl) in E. discriminate.
Qed.

(* whatever the outcome: other topics untouched, the list only grows, every new entry is for a listed
   partition and names a broker of the response *)
Lemma merge_parts_any : forall nb t parts tps t2b tps' t2b' ok,
  merge_parts nb t parts tps t2b = (tps', t2b', ok) ->
  (forall k, fst k <> t -> tget k t2b' = tget k t2b) /\
  (forall p, In p tps -> In p tps') /\
  (forall k v, tget k t2b' = Some v -> tget k t2b = Some v \/
     (fst k = t /\ In (snd k) tps' /\ match v with Some bm => dmem Z.eqb (fst bm) nb = true | None => True end)).
Proof.
  intros nb t parts. induction parts as [|[p l] r IH]; intros tps t2b tps' t2b' ok H; simpl in H.
  - inversion H; subst. repeat split; auto.
  - assert (Hstep : forall v, (match v with Some bm => dmem Z.eqb (fst bm) nb = true | None => True end) ->
        merge_parts nb t r (tps ++ [p]) (dset tp_eqb (t, p) v t2b) = (tps', t2b', ok) ->
        (forall k, fst k <> t -> tget k t2b' = tget k t2b) /\
        (forall q, In q tps -> In q tps') /\
        (forall k v0, tget k t2b' = Some v0 -> tget k t2b = Some v0 \/
           (fst k = t /\ In (snd k) tps' /\ match v0 with Some bm => dmem Z.eqb (fst bm) nb = true | None => True end))).
    { intros v Hv Hm. apply IH in Hm. destruct Hm as [Ha [Hb Hc]]. repeat split.
      - intros k Hk. rewrite Ha by exact Hk. rewrite tget_set_tp.
        destruct (tp_eqb k (t, p)) eqn:E; [|reflexivity]. apply tp_eqb_eq in E. subst k. simpl in Hk. congruence.
      - intros q Hq. apply Hb. rewrite in_app_iff. left. exact Hq.
      - intros k v0 Hg. apply Hc in Hg. destruct Hg as [Hg|Hg]; [|right; exact Hg].
        rewrite tget_set_tp in Hg. destruct (tp_eqb k (t, p)) eqn:E; [|left; exact Hg].
        apply tp_eqb_eq in E. subst k. inversion Hg; subst v0. right. simpl. split; [reflexivity|]. split; [|exact Hv].
        apply Hb. rewrite in_app_iff. right. left. reflexivity. }
    destruct (l =? -1).
    + apply (Hstep None); [exact I|exact H].
    + destruct (zget l nb) as [a|] eqn:Ea.
      * apply (Hstep (Some (l, a))); [|exact H]. simpl. unfold dmem. rewrite Ea. reflexivity.
      * inversion H; subst. repeat split; auto. intros q Hq. rewrite in_app_iff. left. exact Hq.
Qed.

(* a truthful response: no KeyError, the list is the response's, the entries are the response's *)
Lemma merge_parts_ok : forall nb t parts tps t2b,
  parts_known nb parts = true ->
  exists t2b', merge_parts nb t parts tps t2b = (tps ++ map fst parts, t2b', true) /\
    (forall p, ~ In p (map fst parts) -> tget (t, p) t2b' = tget (t, p) t2b) /\
    (NoDup (map fst parts) -> forall p l, In (p, l) parts ->
       exists v, leader_val nb l = Some v /\ tget (t, p) t2b' = Some v).
Proof.
  intros nb t parts. induction parts as [|[p l] r IH]; intros tps t2b Hk; simpl.
  - exists t2b. rewrite app_nil_r. repeat split; auto. intros _ p l [].
  - simpl in Hk. apply andb_true_iff in Hk. destruct Hk as [Hl Hr]. simpl in Hl.
    assert (Hstep : forall v, leader_val nb l = Some v ->
      exists t2b', merge_parts nb t r (tps ++ [p]) (dset tp_eqb (t, p) v t2b) = (tps ++ p :: map fst r, t2b', true) /\
        (forall q, ~ In q (p :: map fst r) -> tget (t, q) t2b' = tget (t, q) t2b) /\
        (NoDup (p :: map fst r) -> forall q l0, In (q, l0) ((p, l) :: r) ->
           exists v0, leader_val nb l0 = Some v0 /\ tget (t, q) t2b' = Some v0)).
    { intros v Hv. destruct (IH (tps ++ [p]) (dset tp_eqb (t, p) v t2b) Hr) as [t2b' [Hm [Ha Hb]]].
      exists t2b'. split; [rewrite Hm, <- app_assoc; reflexivity|]. split.
      - intros q Hq. simpl in Hq. rewrite Ha by tauto. apply tget_set_other. intro E. inversion E. subst. tauto.
      - intros Hnd q l0 [Hin|Hin].
        + inversion Hin; subst q l0. exists v. split; [exact Hv|]. inversion Hnd; subst.
          rewrite Ha by assumption. apply tget_set_same.
        + inversion Hnd; subst. apply Hb; assumption. }
    unfold leader_val in Hstep. destruct (l =? -1) eqn:El.
    + apply Hstep. reflexivity.
    + simpl in Hl. unfold dmem in Hl. destruct (zget l nb) as [a|] eqn:Ea; [|discriminate].
      apply Hstep. reflexivity.
Qed.

Lemma merge_topic_fields : forall nb st te,
  let st' := fst (merge_topic nb st te) in
  s_brokers st' = s_brokers st /\ s_clients st' = s_clients st /\ s_g2c st' = s_g2c st /\
  s_boot st' = s_boot st /\ s_closed st' = s_closed st.
Proof.
  intros nb st [t [err parts]]. unfold merge_topic.
  destruct (reset_topic_fields st t) as [E1 [E2 [E3 [E4 E5]]]].
  destruct parts as [|pl r]; [simpl; repeat split; assumption|].
  destruct (merge_parts nb t (pl :: r) [] _) as [[tps t2b'] [|]]; simpl; repeat split; assumption.
Qed.

(* processing topic t leaves every other topic's view alone - whatever the response says *)
Lemma merge_topic_other : forall nb st t err parts t',
  t' <> t -> same_topic t' st (fst (merge_topic nb st (t, (err, parts)))).
Proof.
  intros nb st t err parts t' Hne.
  destruct (reset_topic_other st t t' Hne) as [R1 [R2 R3]].
  unfold merge_topic. set (st1 := reset_topic st t) in *.
  destruct parts as [|pl r].
  - unfold same_topic. simpl. split; [|split; [exact R2|exact R3]]. rewrite zget_set_other by exact Hne. exact R1.
  - destruct (merge_parts nb t (pl :: r) [] _) as [[tps t2b'] ok] eqn:Em.
    apply merge_parts_any in Em. destruct Em as [Ha _].
    assert (Hv : same_topic t' st (set_tparts (set_t2b (set_terrs st1 (dset Z.eqb t err (s_terrs st1))) t2b')
                                   (dset Z.eqb t (if ok then zisort tps else tps) (s_tparts st1)))).
    { unfold same_topic. simpl. split; [|split].
      - rewrite zget_set_other by exact Hne. exact R1.
      - rewrite zget_set_other by exact Hne. exact R2.
      - intro p. rewrite Ha by (simpl; exact Hne). apply R3. }
    destruct ok; exact Hv.
Qed.

Lemma merge_topic_inv1 : forall nb st te, inv1 st -> inv1 (fst (merge_topic nb st te)).
Proof.
  intros nb st [t0 [err0 parts0]] Hinv. unfold merge_topic.
  pose proof (reset_topic_inv1 st t0 Hinv) as H1. pose proof (reset_topic_cleared st t0 Hinv) as Hcl.
  set (st1 := reset_topic st t0) in *. destruct parts0 as [|pl r0]; [exact H1|].
  destruct (merge_parts nb t0 (pl :: r0) [] _) as [[tps t2b'] ok] eqn:Em.
  apply merge_parts_any in Em. destruct Em as [_ [_ Hc]].
  assert (Hv : inv1 (set_tparts (set_t2b (set_terrs st1 (dset Z.eqb t0 err0 (s_terrs st1))) t2b')
                                (dset Z.eqb t0 (if ok then zisort tps else tps) (s_tparts st1)))).
  { intros t p v Hg. simpl in *. apply Hc in Hg. destruct Hg as [Hg|[Ht [Hin _]]].
    - destruct (Z.eq_dec t t0) as [->|Hne]; [rewrite Hcl in Hg; discriminate|].
      rewrite zget_set_other by exact Hne. eapply H1. exact Hg.
    - simpl in Ht, Hin. subst t. rewrite zget_set_same. eexists. split; [reflexivity|].
      destruct ok; [apply zisort_in|]; exact Hin. }
  destruct ok; exact Hv.
Qed.

Lemma merge_topic_WF : forall nb st te,
  (forall n, dmem Z.eqb n nb = true -> dmem Z.eqb n (s_brokers st) = true) ->
  WF st -> WF (fst (merge_topic nb st te)).
Proof.
  intros nb st te Hnb Hwf. split; [apply merge_topic_inv1; destruct Hwf; assumption|].
  destruct te as [t [err parts]].
  pose proof (reset_topic_WF st t Hwf) as [H1 [H2 [H3 H4]]].
  destruct (reset_topic_fields st t) as [Eb1 [Ec1 [Eg1 _]]].
  unfold merge_topic in *. set (st1 := reset_topic st t) in *.
  destruct parts as [|pl r].
  - simpl in *. repeat split; assumption.
  - destruct (merge_parts nb t (pl :: r) [] _) as [[tps t2b'] ok] eqn:Em.
    apply merge_parts_any in Em. destruct Em as [Ha [_ Hc]].
    assert (Hv : let st' := (set_tparts (set_t2b (set_terrs st1 (dset Z.eqb t err (s_terrs st1))) t2b')
                                (dset Z.eqb t (if ok then zisort tps else tps) (s_tparts st1))) in
                 inv_lead st' /\ inv_g2c st' /\ inv_cl st').
    { simpl. split; [|split].
      - intros k n a Hg. simpl in *. apply Hc in Hg. destruct Hg as [Hg|[_ [_ Hd]]].
        + eapply H2. exact Hg.
        + simpl in Hd. rewrite Eb1. apply Hnb. exact Hd.
      - exact H3.
      - exact H4. }
    destruct ok; exact Hv.
Qed.

(* the exact view of one topic after a truthful response *)
Definition topic_exact (nb : list (Z * addr)) (t err : Z) (parts : list (Z * Z)) (st : state) : Prop :=
  zget t (s_terrs st) = Some err /\
  zget t (s_tparts st) = (if is_nil parts then None else Some (zisort (map fst parts))) /\
  (forall p l, In (p, l) parts -> exists v, leader_val nb l = Some v /\ tget (t, p) (s_t2b st) = Some v) /\
  (forall p, ~ In p (map fst parts) -> tget (t, p) (s_t2b st) = None).

Lemma topic_exact_same : forall nb t err parts a b, same_topic t a b -> topic_exact nb t err parts a -> topic_exact nb t err parts b.
Proof.
  intros nb t err parts a b [S1 [S2 S3]] [E1 [E2 [E3 E4]]]. repeat split.
  - congruence.
  - congruence.
  - intros p l Hin. destruct (E3 p l Hin) as [v [Hv Hg]]. exists v. split; [exact Hv|]. rewrite <- S3. exact Hg.
  - intros p Hp. rewrite <- S3. apply E4. exact Hp.
Qed.

Lemma merge_topic_exact : forall nb st t err parts,
  inv1 st -> parts_known nb parts = true -> NoDup (map fst parts) ->
  snd (merge_topic nb st (t, (err, parts))) = true /\
  topic_exact nb t err parts (fst (merge_topic nb st (t, (err, parts)))).
Proof.
  intros nb st t err parts Hinv Hk Hnd. unfold merge_topic.
  pose proof (reset_topic_cleared st t Hinv) as Hcl.
  assert (Htp : zget t (s_tparts (reset_topic st t)) = None) by (rewrite reset_topic_tparts, Z.eqb_refl; reflexivity).
  set (st1 := reset_topic st t) in *. clearbody st1.
  destruct parts as [|pl r].
  - simpl. split; [reflexivity|]. repeat split; simpl.
    + apply zget_set_same.
    + exact Htp.
    + intros p l [].
    + intros p _. apply Hcl.
  - cbv beta iota zeta. remember (pl :: r) as parts eqn:Ep.
    destruct (merge_parts_ok nb t parts [] (s_t2b (set_terrs st1 (dset Z.eqb t err (s_terrs st1)))) Hk)
      as [t2b' [Hm [Ha Hb]]].
    rewrite Hm. simpl. split; [reflexivity|].
    assert (Hnn : is_nil parts = false) by (subst parts; reflexivity).
    unfold topic_exact. rewrite Hnn. simpl. repeat split.
    + apply zget_set_same.
    + rewrite zget_set_same. reflexivity.
    + intros p l Hin. apply (Hb Hnd). exact Hin.
    + intros p Hp. rewrite Ha by exact Hp. apply Hcl.
Qed.

Definition topics_known (nb : list (Z * addr)) (topics : list (Z * (Z * list (Z * Z)))) : bool :=
  forallb (fun t => parts_known nb (snd (snd t))) topics.

Local Opaque merge_topic.

Lemma merge_topics_fields : forall nb topics st,
  let st' := fst (merge_topics nb topics st) in
  s_brokers st' = s_brokers st /\ s_clients st' = s_clients st /\ s_g2c st' = s_g2c st /\
  s_boot st' = s_boot st /\ s_closed st' = s_closed st.
Proof.
  intros nb topics. induction topics as [|te r IH]; intro st; simpl; [repeat split|].
  destruct (merge_topic_fields nb st te) as [E1 [E2 [E3 [E4 E5]]]].
  destruct (merge_topic nb st te) as [st1 [|]] eqn:Em; simpl in *.
  - destruct (IH st1) as [F1 [F2 [F3 [F4 F5]]]]. repeat split; congruence.
  - repeat split; assumption.
Qed.

Lemma merge_topics_frame : forall nb topics st t,
  ~ In t (map fst topics) -> same_topic t st (fst (merge_topics nb topics st)).
Proof.
  intros nb topics. induction topics as [|[t0 [err parts]] r IH]; intros st t Hn; simpl.
  - apply same_topic_refl.
  - simpl in Hn. pose proof (merge_topic_other nb st t0 err parts t) as Ho.
    destruct (merge_topic nb st (t0, (err, parts))) as [st1 [|]] eqn:Em; simpl in *.
    + eapply same_topic_trans; [apply Ho; intro; subst; tauto|]. apply IH. tauto.
    + apply Ho. intro; subst; tauto.
Qed.

Lemma merge_topics_WF : forall nb topics st,
  (forall n, dmem Z.eqb n nb = true -> dmem Z.eqb n (s_brokers st) = true) ->
  WF st -> WF (fst (merge_topics nb topics st)).
Proof.
  intros nb topics. induction topics as [|te r IH]; intros st Hnb Hwf; simpl; [exact Hwf|].
  pose proof (merge_topic_WF nb st te Hnb Hwf) as H1.
  destruct (merge_topic_fields nb st te) as [Eb _].
  destruct (merge_topic nb st te) as [st1 [|]] eqn:Em; simpl in *; [|exact H1].
  apply IH; [|exact H1]. intros n Hn. rewrite Eb. apply Hnb. exact Hn.
Qed.

Lemma merge_topics_exact : forall nb topics st,
  inv1 st -> topics_known nb topics = true -> NoDup (map fst topics) ->
  (forall te, In te topics -> NoDup (map fst (snd (snd te)))) ->
  snd (merge_topics nb topics st) = true /\
  forall t err parts, In (t, (err, parts)) topics -> topic_exact nb t err parts (fst (merge_topics nb topics st)).
Proof.
  intros nb topics. induction topics as [|[t0 [err0 parts0]] r IH]; intros st Hinv Hk Hnd Hpn; simpl.
  - split; [reflexivity|]. intros t err parts [].
  - simpl in Hk. apply andb_true_iff in Hk. destruct Hk as [Hk0 Hkr]. simpl in Hk0.
    inversion Hnd; subst.
    destruct (merge_topic_exact nb st t0 err0 parts0 Hinv Hk0 (Hpn _ (or_introl eq_refl))) as [Hok Hex].
    pose proof (merge_topic_inv1 nb st (t0, (err0, parts0)) Hinv) as Hinv1.
    destruct (merge_topic nb st (t0, (err0, parts0))) as [st1 ok1] eqn:Em. simpl in *. subst ok1.
    destruct (IH st1 Hinv1 Hkr H2 (fun te H => Hpn te (or_intror H))) as [Hok2 Hex2].
    split; [exact Hok2|]. intros t err parts [Hin|Hin].
    + inversion Hin; subst t err parts. eapply topic_exact_same; [|exact Hex].
      apply merge_topics_frame. exact H1.
    + apply Hex2. exact Hin.
Qed.

(* ---- merge ---- *)
Lemma merge_eq : forall st nr full,
  merge st nr full =
  (fst (merge_topics (n_brokers nr) (n_topics nr)
          (fst (update_brokers st (n_brokers nr) (full && negb (is_nil (n_brokers nr)))))),
   snd (update_brokers st (n_brokers nr) (full && negb (is_nil (n_brokers nr)))),
   snd (merge_topics (n_brokers nr) (n_topics nr)
          (fst (update_brokers st (n_brokers nr) (full && negb (is_nil (n_brokers nr))))))).
Proof.
  intros st nr full. unfold merge.
  destruct (update_brokers st (n_brokers nr) _) as [st1 gone]. simpl.
  destruct (merge_topics (n_brokers nr) (n_topics nr) st1) as [st2 ok]. reflexivity.
Qed.

Lemma resp_wf_parts : forall nr, resp_wf nr = true ->
  NoDup (map fst (n_brokers nr)) /\ NoDup (map fst (n_topics nr)) /\
  (forall te, In te (n_topics nr) -> NoDup (map fst (snd (snd te)))) /\
  topics_known (n_brokers nr) (n_topics nr) = true.
Proof.
  intros nr H. unfold resp_wf, keys_unique, leaders_known in H. rewrite !andb_true_iff in H.
  destruct H as [[[H1 H2] H3] H4]. repeat split.
  - apply nodupb_nodup. exact H1.
  - apply nodupb_nodup. exact H2.
  - intros te Hin. rewrite forallb_forall in H3. apply nodupb_nodup. apply H3. exact Hin.
  - exact H4.
Qed.

Lemma merge_WF : forall st nr full, WF st -> WF (fst (fst (merge st nr full))).
Proof.
  intros st nr full Hwf. rewrite merge_eq. simpl.
  set (rm := full && negb (is_nil (n_brokers nr))).
  apply merge_topics_WF; [|apply update_brokers_WF; exact Hwf].
  intros n Hn. destruct (update_brokers_fields st (n_brokers nr) rm) as [Eb _]. rewrite Eb.
  unfold dmem. rewrite zget_dupdate by apply by_id_nodup_keys.
  (* n is a key of the response's brokers, hence of by_id *)
  assert (Hin : dmem Z.eqb n (by_id (n_brokers nr)) = true).
  { apply (dmem_in Z.eqb Z.eqb_eq). apply (dmem_in Z.eqb Z.eqb_eq) in Hn.
    clear - Hn. unfold by_id. revert Hn. generalize (@nil (Z * addr)).
    induction (n_brokers nr) as [|b r IH]; intros acc Hn; simpl in *; [destruct Hn|].
    destruct Hn as [Hn|Hn].
    - subst n. clear IH. assert (Hk : In (fst b) (map fst (dset Z.eqb (fst b) (snd b) acc))).
      { rewrite (dset_keys Z.eqb Z.eqb_eq). destruct (dmem Z.eqb (fst b) acc) eqn:E.
        - apply (dmem_in Z.eqb Z.eqb_eq). exact E.
        - rewrite in_app_iff. right. left. reflexivity. }
      revert Hk. generalize (dset Z.eqb (fst b) (snd b) acc). induction r as [|c r' IHr]; intros d Hk; simpl; [exact Hk|].
      apply IHr. rewrite (dset_keys Z.eqb Z.eqb_eq). destruct (dmem Z.eqb (fst c) d); [exact Hk|]. rewrite in_app_iff. left. exact Hk.
    - apply IH. exact Hn. }
  unfold dmem in Hin. destruct (zget n (by_id (n_brokers nr))); [reflexivity|discriminate].
Qed.

(* ---- the three statements about one metadata response ---- *)
Lemma update_brokers_same_topic : forall st bs remove t, same_topic t st (fst (update_brokers st bs remove)).
Proof.
  intros st bs remove t. destruct (update_brokers_fields st bs remove) as [_ [Et [Ep [Ee _]]]].
  unfold same_topic. rewrite Et, Ep, Ee. repeat split.
Qed.

Lemma merge_exact : forall st nr full st' gone ok,
  WF st -> resp_wf nr = true -> merge st nr full = (st', gone, ok) ->
  ok = true /\
  (forall n a, In (n, a) (n_brokers nr) -> zget n (s_brokers st') = Some a) /\
  (forall t err parts, In (t, (err, parts)) (n_topics nr) ->
     topic_exact (n_brokers nr) t err parts st' /\ metadata_error_for_topic st' t = err).
Proof.
  intros st nr full st' gone ok Hwf Hr Hm. rewrite merge_eq in Hm. inversion Hm; subst; clear Hm.
  destruct (resp_wf_parts nr Hr) as [Nb [Nt [Np Hk]]].
  set (rm := full && negb (is_nil (n_brokers nr))).
  pose proof (update_brokers_WF st (n_brokers nr) rm Hwf) as [Hinv _].
  destruct (merge_topics_exact (n_brokers nr) (n_topics nr) _ Hinv Hk Nt Np) as [Hok Hex].
  split; [exact Hok|]. split.
  - intros n a Hin. destruct (merge_topics_fields (n_brokers nr) (n_topics nr) (fst (update_brokers st (n_brokers nr) rm))) as [Eb _].
    rewrite Eb. destruct (update_brokers_fields st (n_brokers nr) rm) as [Eb2 _]. rewrite Eb2.
    rewrite (by_id_of_nodup _ Nb). rewrite zget_dupdate by exact Nb.
    rewrite (dget_in_nodup Z.eqb Z.eqb_eq n a _ Nb Hin). reflexivity.
  - intros t err parts Hin. pose proof (Hex t err parts Hin) as He. split; [exact He|].
    unfold metadata_error_for_topic. destruct He as [He _]. rewrite He. reflexivity.
Qed.

Lemma merge_frame : forall st nr full st' gone ok t,
  merge st nr full = (st', gone, ok) -> ~ In t (map fst (n_topics nr)) ->
  same_topic t st st' /\ s_g2c st' = s_g2c st /\ s_boot st' = s_boot st /\ s_closed st' = s_closed st.
Proof.
  intros st nr full st' gone ok t Hm Hn. rewrite merge_eq in Hm. inversion Hm; subst; clear Hm.
  set (rm := full && negb (is_nil (n_brokers nr))).
  destruct (merge_topics_fields (n_brokers nr) (n_topics nr) (fst (update_brokers st (n_brokers nr) rm))) as [_ [_ [Eg [Eo Ec]]]].
  destruct (update_brokers_fields st (n_brokers nr) rm) as [_ [_ [_ [_ [Eg2 [Eo2 Ec2]]]]]].
  split; [|repeat split; congruence].
  eapply same_topic_trans; [apply update_brokers_same_topic|]. apply merge_topics_frame. exact Hn.
Qed.

Lemma map_fst_filter : forall {V} (P : Z -> bool) (l : list (Z * V)),
  map fst (filter (fun c => P (fst c)) l) = filter P (map fst l).
Proof.
  intros V P l. induction l as [|e r IH]; simpl; [reflexivity|].
  destruct (P (fst e)); simpl; rewrite IH; reflexivity.
Qed.

Lemma merge_clients : forall st nr full st' gone ok,
  NoDup (map fst (n_brokers nr)) -> merge st nr full = (st', gone, ok) ->
  let remove := full && negb (is_nil (n_brokers nr)) in
  gone = (if remove then filter (fun n => negb (dmem Z.eqb n (n_brokers nr))) (map fst (s_clients st)) else []) /\
  map fst (s_clients st') =
    (if remove then filter (fun n => dmem Z.eqb n (n_brokers nr)) (map fst (s_clients st)) else map fst (s_clients st)) /\
  (forall n c, zget n (s_clients st') = Some c ->
     exists c0, zget n (s_clients st) = Some c0 /\ c_conn c = c_conn c0 /\
                c_target c = match zget n (n_brokers nr) with Some a => a | None => c_target c0 end).
Proof.
  intros st nr full st' gone ok Nb Hm remove. rewrite merge_eq in Hm. inversion Hm; subst; clear Hm.
  fold remove.
  destruct (merge_topics_fields (n_brokers nr) (n_topics nr) (fst (update_brokers st (n_brokers nr) remove))) as [_ [Ec _]].
  rewrite Ec. split; [|split].
  - unfold update_brokers. rewrite (by_id_of_nodup _ Nb). destruct remove; simpl; [|reflexivity].
    rewrite (map_fst_filter (fun n => negb (dmem Z.eqb n (n_brokers nr)))), map_fst_retarget. reflexivity.
  - unfold update_brokers. rewrite (by_id_of_nodup _ Nb). destruct remove; simpl.
    + rewrite (map_fst_filter (fun n => dmem Z.eqb n (n_brokers nr))), map_fst_retarget. reflexivity.
    + apply map_fst_retarget.
  - intros n c Hg. rewrite update_brokers_clients in Hg. rewrite (by_id_of_nodup _ Nb) in Hg.
    destruct (remove && negb (dmem Z.eqb n (n_brokers nr))); [discriminate|].
    destruct (zget n (s_clients st)) as [c0|]; [|discriminate]. simpl in Hg. inversion Hg; subst c.
    exists c0. split; [reflexivity|]. unfold retarget. simpl. destruct (zget n (n_brokers nr)); simpl; auto.
Qed.

(* every decoded response has unique keys, whatever bytes the broker sent *)
Lemma norm_parts_nodup : forall ps, NoDup (map fst (norm_parts ps)).
Proof.
  intro ps. unfold norm_parts.
  apply (fold_dset_nodup Z.eqb Z.eqb_eq (fun e : Z * Z * Z => snd (fst e)) (fun e => snd e)). constructor.
Qed.

Lemma norm_topics_entries : forall ts acc,
  (forall te, In te acc -> NoDup (map fst (snd (snd te)))) ->
  forall te, In te (fold_left (fun d t => dset Z.eqb (rt_id t) (rt_err t, norm_parts (rt_parts t)) d) ts acc) ->
  NoDup (map fst (snd (snd te))).
Proof.
  induction ts as [|t r IH]; intros acc Hacc te Hin; simpl in Hin; [apply Hacc; exact Hin|].
  eapply IH; [|exact Hin]. clear - Hacc. intros te Hin.
  induction acc as [|e a IHa]; simpl in Hin.
  - destruct Hin as [<-|[]]. simpl. apply norm_parts_nodup.
  - destruct (rt_id t =? fst e).
    + destruct Hin as [<-|Hin]; [simpl; apply norm_parts_nodup|apply Hacc; right; exact Hin].
    + destruct Hin as [<-|Hin]; [apply Hacc; left; reflexivity|].
      apply IHa; [|exact Hin]. intros te0 H0. apply Hacc. right. exact H0.
Qed.

Lemma norm_resp_keys_unique : forall r, keys_unique (norm_resp r) = true.
Proof.
  intro r. unfold keys_unique, norm_resp. simpl. rewrite !andb_true_iff. repeat split.
  - apply nodupb_nodup. apply by_id_nodup_keys.
  - apply nodupb_nodup. unfold norm_topics.
    apply (fold_dset_nodup Z.eqb Z.eqb_eq (fun t => rt_id t) (fun t => (rt_err t, norm_parts (rt_parts t)))). constructor.
  - apply forallb_forall. intros te Hin. apply nodupb_nodup.
    eapply norm_topics_entries; [|exact Hin]. intros te0 [].
Qed.

(* ---- invalidation ---- *)
(* no cached leader for any partition of t, and has_metadata_for_topic(t) is False *)
Definition cleared (t : Z) (st : state) : Prop :=
  (forall p, leader_of st (t, p) = None) /\ has_metadata_for_topic st t = false.

Lemma nometa_iff : forall st t, has_metadata_for_topic st t = false <-> zget t (s_tparts st) = None.
Proof.
  intros st t. unfold has_metadata_for_topic, dmem. destruct (zget t (s_tparts st)); split; intro H; congruence.
Qed.

Lemma cleared_reset_topic_same : forall st t, inv1 st -> cleared t (reset_topic st t).
Proof.
  intros st t H. split.
  - intro p. unfold leader_of. apply reset_topic_cleared. exact H.
  - apply nometa_iff. rewrite reset_topic_tparts, Z.eqb_refl. reflexivity.
Qed.

Lemma cleared_reset_topic_mono : forall st t t', cleared t st -> cleared t (reset_topic st t').
Proof.
  intros st t t' [H Hm]. split.
  - intro p. unfold leader_of in *. destruct (tget (t, p) (s_t2b (reset_topic st t'))) eqn:E; [|reflexivity].
    apply reset_topic_t2b_sub in E. rewrite H in E. discriminate.
  - apply nometa_iff. apply nometa_iff in Hm. rewrite reset_topic_tparts. destruct (t =? t'); [reflexivity|exact Hm].
Qed.

Lemma handle_responses_facts : forall rs st group fail out st' res,
  WF st -> handle_responses st group fail rs out = (st', res) ->
  WF st' /\ (forall t, cleared t st -> cleared t st') /\
  (forall g, zget g (s_g2c st) = None -> zget g (s_g2c st') = None) /\
  s_brokers st' = s_brokers st /\ s_clients st' = s_clients st /\ s_closed st' = s_closed st /\
  match res with
  | HOk _ =>
      (forall r, In r rs -> is_topic_err (r_err r) = true -> cleared (r_topic r) st') /\
      (forall r g, In r rs -> is_group_err (r_err r) = true -> group = Some g -> zget g (s_g2c st') = None)
  | HRaise e =>
      fail = true /\ exists r, In r rs /\ r_err r = e /\ e <> 0 /\
        (is_topic_err e = true -> cleared (r_topic r) st') /\
        (forall g, is_group_err e = true -> group = Some g -> zget g (s_g2c st') = None)
  | HType => group = None
  end.
Proof.
  induction rs as [|r rest IH]; intros st group fail out st' res Hwf H; simpl in H.
  - inversion H; subst. split; [exact Hwf|]. split; [auto|]. split; [auto|]. split; [reflexivity|]. split; [reflexivity|].
    split; [reflexivity|]. split; intros; simpl in *; tauto.
  - assert (Hcont : forall st1, WF st1 ->
        (forall t, cleared t st -> cleared t st1) ->
        (forall g, zget g (s_g2c st) = None -> zget g (s_g2c st1) = None) ->
        s_brokers st1 = s_brokers st -> s_clients st1 = s_clients st -> s_closed st1 = s_closed st ->
        (is_topic_err (r_err r) = true -> cleared (r_topic r) st1) ->
        (forall g, is_group_err (r_err r) = true -> group = Some g -> zget g (s_g2c st1) = None) ->
        handle_responses st1 group fail rest (r :: out) = (st', res) ->
        WF st' /\ (forall t, cleared t st -> cleared t st') /\
        (forall g, zget g (s_g2c st) = None -> zget g (s_g2c st') = None) /\
        s_brokers st' = s_brokers st /\ s_clients st' = s_clients st /\ s_closed st' = s_closed st /\
        match res with
        | HOk _ =>
            (forall r0, In r0 (r :: rest) -> is_topic_err (r_err r0) = true -> cleared (r_topic r0) st') /\
            (forall r0 g, In r0 (r :: rest) -> is_group_err (r_err r0) = true -> group = Some g -> zget g (s_g2c st') = None)
        | HRaise e =>
            fail = true /\ exists r0, In r0 (r :: rest) /\ r_err r0 = e /\ e <> 0 /\
              (is_topic_err e = true -> cleared (r_topic r0) st') /\
              (forall g, is_group_err e = true -> group = Some g -> zget g (s_g2c st') = None)
        | HType => group = None
        end).
    { intros st1 W1 C1 G1 B1 L1 K1 T1 Gr1 Hh. destruct (IH _ _ _ _ _ _ W1 Hh) as [W2 [C2 [G2 [B2 [L2 [K2 R2]]]]]].
      split; [exact W2|]. split; [intros t Ht; apply C2, C1, Ht|]. split; [intros g Hg; apply G2, G1, Hg|].
      split; [congruence|]. split; [congruence|]. split; [congruence|].
      destruct res as [o|e|].
      - destruct R2 as [Ra Rb]. split.
        + intros r0 [<-|Hin] He; [apply C2, T1, He|apply Ra; assumption].
        + intros r0 g [<-|Hin] He Hg; [apply G2, (Gr1 g He Hg)|eapply Rb; eassumption].
      - destruct R2 as [Hf [r0 [Hin [He [Hne [Ht Hg]]]]]]. split; [exact Hf|]. exists r0.
        split; [right; exact Hin|]. split; [exact He|]. split; [exact Hne|]. split; [exact Ht|exact Hg].
      - exact R2. }
    destruct (r_err r =? 0) eqn:E0.
    + apply Z.eqb_eq in E0. apply (Hcont st); [exact Hwf|auto|auto|reflexivity|reflexivity|reflexivity
                                 |intro He; rewrite E0 in He; discriminate|intros g He; rewrite E0 in He; discriminate|exact H].
    + apply Z.eqb_neq in E0. destruct (is_topic_err (r_err r)) eqn:Et.
      * assert (Hcl : cleared (r_topic r) (reset_topic st (r_topic r))) by (apply cleared_reset_topic_same; destruct Hwf; assumption).
        destruct (reset_topic_fields st (r_topic r)) as [Fb [Fc [Fg [_ Fk]]]].
        assert (Hgr : forall g, is_group_err (r_err r) = true -> group = Some g -> zget g (s_g2c (reset_topic st (r_topic r))) = None).
        { intros g He. exfalso. unfold is_topic_err, is_group_err in *. 
          destruct (r_err r =? 3) eqn:A; [apply Z.eqb_eq in A; rewrite A in He; discriminate|].
          destruct (r_err r =? 6) eqn:B; [apply Z.eqb_eq in B; rewrite B in He; discriminate|]. discriminate. }
        destruct fail.
        -- inversion H; subst. split; [apply reset_topic_WF; exact Hwf|].
           split; [intros t Ht; apply cleared_reset_topic_mono; exact Ht|].
           split; [intros g Hg; rewrite Fg; exact Hg|]. split; [exact Fb|]. split; [exact Fc|]. split; [exact Fk|].
           split; [reflexivity|]. exists r. split; [left; reflexivity|]. split; [reflexivity|]. split; [exact E0|].
           split; [intros _; exact Hcl|exact Hgr].
        -- apply (Hcont (reset_topic st (r_topic r)));
             [apply reset_topic_WF; exact Hwf|intros t Ht; apply cleared_reset_topic_mono; exact Ht
             |intros g Hg; rewrite Fg; exact Hg|exact Fb|exact Fc|exact Fk|intros _; exact Hcl|exact Hgr|exact H].
      * destruct (is_group_err (r_err r)) eqn:Eg.
        -- destruct group as [g|]; [|inversion H; subst; split; [exact Hwf|]; split; [auto|]; split; [auto|]; split; [reflexivity|]; split; [reflexivity|]; split; reflexivity].
           assert (Hg0 : zget g (s_g2c (reset_group st g)) = None) by (simpl; apply zget_del_same).
           assert (Hgm : forall g', zget g' (s_g2c st) = None -> zget g' (s_g2c (reset_group st g)) = None).
           { intros g' Hn. simpl. apply dget_ddel_none. exact Hn. }
           destruct fail.
           ++ inversion H; subst. split; [apply reset_group_WF; exact Hwf|].
              split; [auto|]. split; [exact Hgm|]. split; [reflexivity|]. split; [reflexivity|]. split; [reflexivity|].
              split; [reflexivity|]. exists r. split; [left; reflexivity|]. split; [reflexivity|]. split; [exact E0|].
              split; [intro He; congruence|]. intros g' _ Hs. inversion Hs; subst. exact Hg0.
           ++ apply (Hcont (reset_group st g));
                [apply reset_group_WF; exact Hwf|intros t Ht; exact Ht|exact Hgm|reflexivity|reflexivity|reflexivity
                |intro He; congruence|intros g' _ Hs; inversion Hs; subst; exact Hg0|exact H].
        -- destruct fail.
           ++ inversion H; subst. split; [exact Hwf|]. split; [auto|]. split; [auto|].
              split; [reflexivity|]. split; [reflexivity|]. split; [reflexivity|].
              split; [reflexivity|]. exists r. split; [left; reflexivity|]. split; [reflexivity|]. split; [exact E0|].
              split; [intro He; congruence|intros g' He; congruence].
           ++ apply (Hcont st); [exact Hwf|auto|auto|reflexivity|reflexivity|reflexivity
                                 |intro He; congruence|intros g' He; congruence|exact H].
Qed.

(* ---- broker clients ---- *)
Lemma zget_app_single : forall {V} (l : list (Z * V)) n c k,
  zget k (l ++ [(n, c)]) = match zget k l with Some v => Some v | None => if k =? n then Some c else None end.
Proof.
  intros V l n c k. induction l as [|e r IH]; simpl; [reflexivity|].
  destruct (k =? fst e); [reflexivity|exact IH].
Qed.

Lemma get_client_facts : forall st n st1,
  get_client st n = Some st1 ->
  s_brokers st1 = s_brokers st /\ s_t2b st1 = s_t2b st /\ s_tparts st1 = s_tparts st /\ s_terrs st1 = s_terrs st /\
  s_g2c st1 = s_g2c st /\ s_boot st1 = s_boot st /\ s_closed st1 = s_closed st /\
  (exists c, zget n (s_clients st1) = Some c /\
             (match zget n (s_clients st) with Some c0 => c = c0 | None => c_conn c = None /\ zget n (s_brokers st) = Some (c_target c) end)) /\
  (forall k, k <> n -> zget k (s_clients st1) = zget k (s_clients st)).
Proof.
  intros st n st1 H. unfold get_client in H. unfold dmem in H.
  destruct (zget n (s_clients st)) as [c0|] eqn:Ec.
  - inversion H; subst. repeat split; auto. exists c0. rewrite Ec. auto.
  - destruct (zget n (s_brokers st)) as [a|] eqn:Eb; [|discriminate]. inversion H; subst. simpl.
    repeat split; auto.
    + eexists. rewrite zget_app_single, Ec, Z.eqb_refl. split; [reflexivity|]. simpl. auto.
    + intros k Hk. rewrite zget_app_single. destruct (zget k (s_clients st)); [reflexivity|].
      replace (k =? n) with false by (symmetry; apply Z.eqb_neq; exact Hk). reflexivity.
Qed.

Lemma get_client_WF : forall st n st1, WF st -> get_client st n = Some st1 -> WF st1.
Proof.
  intros st n st1 [H1 [H2 [H3 H4]]] Hg.
  destruct (get_client_facts st n st1 Hg) as [Eb [Et [Ep [Ee [Eg [_ [_ [[c [Hc Hc0]] Ho]]]]]]]].
  repeat split.
  - intros t p v. rewrite Et, Ep. apply H1.
  - intros k m a. rewrite Et, Eb. apply H2.
  - intros g m a. rewrite Eg, Eb. apply H3.
  - intros k ck Hk. rewrite Eb. destruct (Z.eq_dec k n) as [->|Hne].
    + rewrite Hc in Hk. inversion Hk; subst ck. destruct (zget n (s_clients st)) as [c0|] eqn:E0.
      * subst c. apply H4. exact E0.
      * tauto.
    + rewrite Ho in Hk by exact Hne. apply H4. exact Hk.
Qed.

Lemma get_client_some : forall st n, WF st ->
  (dmem Z.eqb n (s_brokers st) = true \/ dmem Z.eqb n (s_clients st) = true) -> exists st1, get_client st n = Some st1.
Proof.
  intros st n Hwf H. unfold get_client. destruct (dmem Z.eqb n (s_clients st)) eqn:Ec; [eauto|].
  destruct H as [H|H]; [|discriminate]. unfold dmem in H. destruct (zget n (s_brokers st)); [eauto|discriminate].
Qed.

(* request_on: where the request goes, and what is left behind *)
Lemma request_on_facts : forall st n st2 a,
  request_on st n = Some (st2, a) ->
  s_brokers st2 = s_brokers st /\ s_t2b st2 = s_t2b st /\ s_tparts st2 = s_tparts st /\ s_terrs st2 = s_terrs st /\
  s_g2c st2 = s_g2c st /\ s_boot st2 = s_boot st /\ s_closed st2 = s_closed st /\
  (forall k, k <> n -> zget k (s_clients st2) = zget k (s_clients st)) /\
  (exists c, zget n (s_clients st2) = Some c /\ c_conn c = Some a /\
     match zget n (s_clients st) with
     | Some c0 => c_target c = c_target c0 /\ a = match c_conn c0 with Some x => x | None => c_target c0 end
     | None => zget n (s_brokers st) = Some a /\ c_target c = a
     end).
Proof.
  intros st n st2 a H. unfold request_on in H.
  destruct (get_client st n) as [st1|] eqn:Eg; [|discriminate].
  destruct (get_client_facts st n st1 Eg) as [Eb [Et [Ep [Ee [Egc [Ebo [Ecl [[c [Hc Hc0]] Ho]]]]]]]].
  rewrite Hc in H. destruct (c_conn c) as [x|] eqn:Ex.
  - inversion H; subst st2 a. repeat split; auto. exists c. split; [exact Hc|]. split; [exact Ex|].
    destruct (zget n (s_clients st)) as [c0|]; [subst c0; rewrite Ex; auto|]. destruct Hc0 as [Hc0 _]. congruence.
  - inversion H; subst st2 a. simpl. repeat split; auto.
    + intros k Hk. rewrite zget_set_other by exact Hk. apply Ho. exact Hk.
    + eexists. rewrite zget_set_same. split; [reflexivity|]. simpl. split; [reflexivity|].
      destruct (zget n (s_clients st)) as [c0|]; [subst c0; rewrite Ex; auto|]. destruct Hc0 as [_ Hc0]. auto.
Qed.

Lemma request_on_WF : forall st n st2 a, WF st -> request_on st n = Some (st2, a) -> WF st2.
Proof.
  intros st n st2 a Hwf H. pose proof H as H0. unfold request_on in H.
  destruct (get_client st n) as [st1|] eqn:Eg; [|discriminate].
  pose proof (get_client_WF st n st1 Hwf Eg) as [H1 [H2 [H3 H4]]].
  destruct (zget n (s_clients st1)) as [c|] eqn:Ec; [|discriminate].
  destruct (c_conn c) as [x|]; inversion H; subst; [repeat split; assumption|].
  repeat split; try assumption. intros k ck Hk. simpl in *. destruct (Z.eq_dec k n) as [->|Hne].
  - rewrite zget_set_same in Hk. inversion Hk; subst ck. simpl. apply H4. exact Ec.
  - rewrite zget_set_other in Hk by exact Hne. apply H4. exact Hk.
Qed.

Lemma request_on_some : forall st n, WF st -> dmem Z.eqb n (s_brokers st) = true -> exists st2 a, request_on st n = Some (st2, a).
Proof.
  intros st n Hwf H. destruct (get_client_some st n Hwf (or_introl H)) as [st1 Hg].
  unfold request_on. rewrite Hg. destruct (get_client_facts st n st1 Hg) as [_ [_ [_ [_ [_ [_ [_ [[c [Hc _]] _]]]]]]]].
  rewrite Hc. destruct (c_conn c); eauto.
Qed.

Lemma drop_conn_WF : forall st n, WF st -> WF (drop_conn st n).
Proof.
  intros st n [H1 [H2 [H3 H4]]]. unfold drop_conn. destruct (zget n (s_clients st)) as [c|] eqn:Ec; [|repeat split; assumption].
  repeat split; try assumption. intros k ck Hk. simpl in *. destruct (Z.eq_dec k n) as [->|Hne].
  - rewrite zget_set_same in Hk. inversion Hk; subst ck. simpl. apply H4. exact Ec.
  - rewrite zget_set_other in Hk by exact Hne. apply H4. exact Hk.
Qed.

Lemma coord_ok_WF : forall st g bm, WF st -> WF (coord_ok st g bm).
Proof.
  intros st g bm [H1 [H2 [H3 H4]]]. unfold coord_ok.
  set (st0 := set_g2c st (dset Z.eqb g bm (s_g2c st))).
  destruct (update_brokers_fields st0 [bm] false) as [Eb [Et [Ep [Ee [Eg _]]]]].
  pose proof (by_id_nodup_keys [bm]) as Hnd.
  repeat split.
  - intros t p v. rewrite Et, Ep. apply H1.
  - intros k n a Hk. rewrite Et in Hk. rewrite Eb. apply dmem_dupdate_mono; [exact Hnd|]. eapply H2. exact Hk.
  - intros g' n a Hk. rewrite Eg in Hk. rewrite Eb. simpl in Hk. destruct (Z.eq_dec g' g) as [->|Hne].
    + rewrite zget_set_same in Hk. inversion Hk; subst bm. unfold dmem. rewrite zget_dupdate by exact Hnd.
      simpl. rewrite Z.eqb_refl. reflexivity.
    + rewrite zget_set_other in Hk by exact Hne. apply dmem_dupdate_mono; [exact Hnd|]. eapply H3. exact Hk.
  - intros n c Hk. rewrite update_brokers_clients in Hk. rewrite Eb. rewrite zget_dupdate by exact Hnd.
    change (s_clients st0) with (s_clients st) in Hk. cbn [andb] in Hk.
    destruct (zget n (s_clients st)) as [c0|] eqn:E0; [|discriminate]. cbn [option_map] in Hk. inversion Hk; subst c.
    unfold retarget. cbn [fst snd]. destruct (zget n (by_id [bm])) as [a|]; cbn [fst snd c_target]; [reflexivity|]. apply H4. exact E0.
Qed.
