(* C08, recovery for whole payload lists: once the cluster has settled ([truth] names the leader of every
   partition) and metadata requests are answered truthfully,
   - a call made from a cache without stale leaders routes EVERY payload to its true leader (fresh_routing),
   - no client operation ever adds a stale topic (stale_never_grows),
   - a NotLeader / UnknownTopic answer removes its topic from the stale ones (C08_invalidate).
   Hence the number of attempts that can still fail because of stale routing is bounded by the number of
   distinct stale topics. *)
From AV Require Import Base.Util Model.ClientMeta Model.ClientRoute Proofs.ClientMetaDict Proofs.ClientMetaFacts
  Proofs.ClientRouteWF Proofs.ClientRouteFacts Proofs.ClientMetaC08.
From Coq Require Import Lia.

Section Recovery.
  Variable truth : tpk -> Z.

  (* every leader the response names is the true one *)
  Definition consistent (nr : nresp) : Prop :=
    forall t err parts p l, In (t, (err, parts)) (n_topics nr) -> In (p, l) parts -> l <> -1 -> l = truth (t, p).
  Definition load_truthful (ld : load) : Prop :=
    match ld with
    | LoadMeta u r => leaders_known (norm_resp r) = true /\ consistent (norm_resp r)
    | LoadCoord _ _ => True
    end.
  (* no cached leader is stale / topic t has a stale cached leader *)
  Definition fresh (st : state) : Prop := forall k n a, leader_of st k = Some (Some (n, a)) -> n = truth k.
  Definition stale (st : state) (t : Z) : Prop :=
    exists p n a, leader_of st (t, p) = Some (Some (n, a)) /\ n <> truth (t, p).
  (* every cached leader of st' is true or was already cached in st *)
  Definition nonew (st st' : state) : Prop :=
    forall k n a, leader_of st' k = Some (Some (n, a)) -> n = truth k \/ leader_of st k = Some (Some (n, a)).

  Lemma nonew_refl : forall st, nonew st st.
  Proof. intros st k n a H. right. exact H. Qed.
  Lemma nonew_trans : forall a b c, nonew a b -> nonew b c -> nonew a c.
  Proof. intros a b c H1 H2 k n x H. destruct (H2 _ _ _ H) as [E|E]; [left; exact E|apply H1; exact E]. Qed.
  Lemma nonew_eq : forall st st', s_t2b st' = s_t2b st -> nonew st st'.
  Proof. intros st st' E k n a H. right. unfold leader_of in *. rewrite <- E. exact H. Qed.
  Lemma nonew_sub : forall st st', (forall k v, tget k (s_t2b st') = Some v -> tget k (s_t2b st) = Some v) -> nonew st st'.
  Proof. intros st st' Hs k n a H. right. apply Hs. exact H. Qed.
  Lemma fresh_nonew : forall st st', fresh st -> nonew st st' -> fresh st'.
  Proof. intros st st' Hf Hn k n a H. destruct (Hn _ _ _ H) as [E|E]; [exact E|eapply Hf; exact E]. Qed.
  Lemma stale_nonew : forall st st' t, nonew st st' -> stale st' t -> stale st t.
  Proof.
    intros st st' t Hn [p [n [a [H Hne]]]]. destruct (Hn _ _ _ H) as [E|E]; [contradiction|].
    exists p, n, a. split; assumption.
  Qed.
  Lemma fresh_iff_no_stale : forall st, fresh st <-> forall t, ~ stale st t.
  Proof.
    intro st. split.
    - intros Hf t [p [n [a [H Hne]]]]. apply Hne. eapply Hf. exact H.
    - intros Hs [t p] n a H. destruct (Z.eq_dec n (truth (t, p))) as [E|E]; [exact E|].
      exfalso. apply (Hs t). exists p, n, a. split; assumption.
  Qed.
  Lemma cleared_not_stale : forall st t, cleared t st -> ~ stale st t.
  Proof. intros st t [Hc _] [p [n [a [H _]]]]. rewrite Hc in H. discriminate. Qed.

  (* ---- what leaves the leader cache alone ---- *)
  Lemma request_on_t2b : forall st n st2 a, request_on st n = Some (st2, a) -> s_t2b st2 = s_t2b st.
  Proof. intros st n st2 a H. apply request_on_facts in H. tauto. Qed.

  Lemma known_loop_t2b : forall order st outs log st' log' r,
    known_loop st order outs log = (st', log', r) -> s_t2b st' = s_t2b st.
  Proof.
    induction order as [|n rest IH]; intros st outs log st' log' r H; simpl in H.
    - inversion H; reflexivity.
    - destruct (s_closed st); [inversion H; reflexivity|].
      destruct outs as [|o outs']; [inversion H; reflexivity|].
      destruct (request_on st n) as [[st1 a]|] eqn:Er; [|inversion H; reflexivity].
      apply request_on_t2b in Er. destruct o.
      + apply IH in H. congruence.
      + inversion H; subst. exact Er.
      + apply IH in H. simpl in H. congruence.
  Qed.

  Lemma boot_loop_t2b : forall hosts st outs log st' log' r,
    boot_loop st hosts outs log = (st', log', r) -> s_t2b st' = s_t2b st.
  Proof.
    induction hosts as [|h rest IH]; intros st outs log st' log' r H; simpl in H.
    - inversion H; reflexivity.
    - destruct (s_closed st); [inversion H; reflexivity|].
      destruct outs as [|o outs']; [inversion H; reflexivity|].
      destruct o; try (inversion H; reflexivity); apply IH in H; simpl in H; exact H.
  Qed.

  Lemma unaware_t2b : forall st u st' log r, unaware st u = (st', log, r) -> s_t2b st' = s_t2b st.
  Proof.
    intros st u st' log r H. unfold unaware in H.
    destruct (s_closed st); [inversion H; reflexivity|].
    destruct (negb (perm_b Z.eqb (u_shuf u) (map fst (s_brokers st)))); [inversion H; reflexivity|].
    destruct (known_loop st (fallback_order st (u_shuf u)) (u_kouts u) []) as [[st1 log1] [r1|]] eqn:Ek;
      apply known_loop_t2b in Ek.
    - inversion H; subst. exact Ek.
    - destruct (negb (perm_b addr_eqb (u_bshuf u) (s_boot st1))); [inversion H; subst; exact Ek|].
      apply boot_loop_t2b in H. congruence.
  Qed.

  (* ---- a truthful merge adds only true leaders ---- *)
  Lemma merge_nonew : forall st nr full st' gone ok,
    WF st -> resp_wf nr = true -> consistent nr -> merge st nr full = (st', gone, ok) -> nonew st st'.
  Proof.
    intros st nr full st' gone ok Hwf Hr Hc Hm [t p] n a Hl. unfold leader_of in *.
    destruct (in_dec Z.eq_dec t (map fst (n_topics nr))) as [Hin|Hnin].
    - apply in_map_iff in Hin. destruct Hin as [[t0 [err parts]] [Ht Hin]]. simpl in Ht. subst t0.
      destruct (merge_exact _ _ _ _ _ _ Hwf Hr Hm) as [_ [_ Hex]].
      destruct (Hex _ _ _ Hin) as [[_ [_ [Hlead Hnone]]] _].
      destruct (in_dec Z.eq_dec p (map fst parts)) as [Hp|Hp].
      + apply in_map_iff in Hp. destruct Hp as [[p0 l] [Hp0 Hpin]]. simpl in Hp0. subst p0.
        destruct (Hlead _ _ Hpin) as [v [Hv Hg]]. rewrite Hg in Hl. inversion Hl; subst v. clear Hl.
        unfold leader_val in Hv. destruct (l =? -1) eqn:El; [discriminate|].
        destruct (zget l (n_brokers nr)) as [a0|]; [|discriminate]. inversion Hv; subst.
        left. eapply Hc; [exact Hin|exact Hpin|]. apply Z.eqb_neq. exact El.
      + rewrite (Hnone _ Hp) in Hl. discriminate.
    - right. destruct (merge_frame _ _ _ _ _ _ t Hm Hnin) as [[_ [_ Hs]] _]. rewrite Hs. exact Hl.
  Qed.

  Lemma load_metadata_nonew : forall st full u r st' log gone res,
    WF st -> leaders_known (norm_resp r) = true -> consistent (norm_resp r) ->
    load_metadata st full u r = (st', log, gone, res) -> nonew st st'.
  Proof.
    intros st full u r st' log gone res Hwf Hk Hc H. unfold load_metadata in H.
    destruct (unaware st u) as [[st1 log1] r1] eqn:Eu.
    pose proof (unaware_WF _ _ _ _ _ Hwf Eu) as W1. pose proof (unaware_t2b _ _ _ _ _ Eu) as T1.
    destruct r1; try (inversion H; subst; apply nonew_eq; exact T1).
    destruct (merge st1 (norm_resp r) full) as [[st2 g2] ok] eqn:Em. inversion H; subst.
    eapply nonew_trans; [apply nonew_eq; exact T1|].
    eapply merge_nonew; [exact W1| |exact Hc|exact Em].
    unfold resp_wf. rewrite norm_resp_keys_unique, Hk. reflexivity.
  Qed.

  Lemma load_coordinator_t2b : forall st g u c st' log ok,
    load_coordinator st g u c = (st', log, ok) -> s_t2b st' = s_t2b st.
  Proof.
    intros st g u c st' log ok H. unfold load_coordinator in H.
    destruct (unaware st u) as [[st1 log1] r1] eqn:Eu. apply unaware_t2b in Eu.
    destruct r1; try (inversion H; subst; exact Eu).
    destruct (fst c =? 0); inversion H; subst; [|exact Eu]. unfold coord_ok.
    destruct (update_brokers_fields (set_g2c st1 (dset Z.eqb g (snd c) (s_g2c st1))) [snd c] false) as [_ [Et _]].
    rewrite Et. exact Eu.
  Qed.

  Lemma resolve_leader_nonew : forall st p loads st' loads' evs res,
    WF st -> Forall load_truthful loads -> resolve_leader st p loads = (st', loads', evs, res) ->
    nonew st st' /\ Forall load_truthful loads'.
  Proof.
    intros st p loads st' loads' evs res Hwf Hl H. unfold resolve_leader in H.
    assert (Hfin : forall s1 (l1 : list load) (e1 : list loadev) (err : option ekind),
              nonew st s1 -> Forall load_truthful l1 ->
              match err with
              | Some e => (s1, l1, e1, inr e)
              | None => match leader_of s1 (p_key p) with
                        | None => (s1, l1, e1, inr EPartitionUnavailable)
                        | Some None => (s1, l1, e1, inr ELeaderUnavailable)
                        | Some (Some bm) => (s1, l1, e1, inl (fst bm))
                        end
              end = (st', loads', evs, res) -> nonew st st' /\ Forall load_truthful loads').
    { intros s1 l1 e1 err W1 F1 H1. destruct err; [inversion H1; subst; split; assumption|].
      destruct (leader_of s1 (p_key p)) as [[bm|]|]; inversion H1; subst; split; assumption. }
    assert (Hld : forall u r loads0, loads = LoadMeta u r :: loads0 ->
              forall s1 log1 gone1 res1, load_metadata st false u r = (s1, log1, gone1, res1) ->
              nonew st s1 /\ Forall load_truthful loads0).
    { intros u r loads0 E s1 log1 gone1 res1 Em. subst loads. inversion Hl as [|x l Hx Hrest]; subst. simpl in Hx. destruct Hx as [Hk Hc].
      split; [eapply load_metadata_nonew; eassumption|exact Hrest]. }
    destruct (leader_of st (p_key p)) as [[bm|]|] eqn:El.
    - exact (Hfin st loads [] None (nonew_refl st) Hl H).
    - destruct loads as [|[u r|u c] loads0]; try exact (Hfin st _ [] (Some EScript) (nonew_refl st) Hl H).
      destruct (load_metadata st false u r) as [[[s1 log1] gone1] res1] eqn:Em.
      destruct (Hld u r loads0 eq_refl _ _ _ _ Em) as [N1 F1].
      destruct res1; first [exact (Hfin s1 _ _ None N1 F1 H) | exact (Hfin s1 _ _ (Some _) N1 F1 H)].
    - destruct loads as [|[u r|u c] loads0]; try exact (Hfin st _ [] (Some EScript) (nonew_refl st) Hl H).
      destruct (load_metadata st false u r) as [[[s1 log1] gone1] res1] eqn:Em.
      destruct (Hld u r loads0 eq_refl _ _ _ _ Em) as [N1 F1].
      destruct res1; first [exact (Hfin s1 _ _ None N1 F1 H) | exact (Hfin s1 _ _ (Some _) N1 F1 H)].
  Qed.

  Lemma resolve_coord_nonew : forall st g loads st' loads' evs res,
    Forall load_truthful loads -> resolve_coord st g loads = (st', loads', evs, res) ->
    nonew st st' /\ Forall load_truthful loads'.
  Proof.
    intros st g loads st' loads' evs res Hl H. unfold resolve_coord in H.
    destruct (dget Z.eqb g (s_g2c st)) as [bm|]; [inversion H; subst; split; [apply nonew_refl|exact Hl]|].
    destruct loads as [|[u r|u c] loads0]; try (inversion H; subst; split; [apply nonew_refl|exact Hl]).
    destruct (load_coordinator st g u c) as [[s1 log1] ok] eqn:Ec. apply load_coordinator_t2b in Ec.
    inversion Hl; subst.
    destruct ok; [destruct (dget Z.eqb g (s_g2c s1))|]; inversion H; subst; (split; [apply nonew_eq; exact Ec|assumption]).
  Qed.

  Lemma resolve_one_nonew : forall st group p loads st' loads' evs res,
    WF st -> Forall load_truthful loads -> resolve_one st group p loads = (st', loads', evs, res) ->
    nonew st st' /\ Forall load_truthful loads'.
  Proof.
    intros st [g|] p loads st' loads' evs res Hwf Hl H; simpl in H;
      [eapply resolve_coord_nonew|eapply resolve_leader_nonew]; eassumption.
  Qed.

  Lemma resolve_loop_nonew : forall ps st group loads acc evs st' evs' res,
    WF st -> Forall load_truthful loads -> resolve_loop st group ps loads acc evs = (st', evs', res) ->
    nonew st st' /\
    match res with
    | inl resolved => exists new, resolved = acc ++ new /\ Forall (fun x => nonew st (rs_state x)) new
    | inr _ => True
    end.
  Proof.
    induction ps as [|p rest IH]; intros st group loads acc evs st' evs' res Hwf Hl H; simpl in H.
    - inversion H; subst. split; [apply nonew_refl|]. exists []. rewrite app_nil_r. split; [reflexivity|constructor].
    - destruct (resolve_one st group p loads) as [[[st1 loads1] ev] [n|e]] eqn:Er.
      + destruct (resolve_one_nonew _ _ _ _ _ _ _ _ Hwf Hl Er) as [N1 F1].
        pose proof (resolve_one_WF _ _ _ _ _ _ _ _ Hwf Er) as W1.
        destruct (IH _ _ _ _ _ _ _ _ W1 F1 H) as [N2 R2]. split; [eapply nonew_trans; eassumption|].
        destruct res as [resolved|e]; [|exact I]. destruct R2 as [new [Hres Hall]].
        exists ({| rs_payload := p; rs_node := n; rs_state := st1 |} :: new). split; [rewrite Hres, <- app_assoc; reflexivity|].
        constructor; [exact N1|]. eapply Forall_impl; [|exact Hall]. intros x Hx. eapply nonew_trans; eassumption.
      + inversion H; subst. destruct (resolve_one_nonew _ _ _ _ _ _ _ _ Hwf Hl Er) as [N1 _]. split; [exact N1|exact I].
  Qed.

  Lemma send_requests_t2b : forall groups st outs sent st' sent' e,
    send_requests st groups outs sent = (st', sent', e) -> s_t2b st' = s_t2b st.
  Proof.
    induction groups as [|[n ps] rest IH]; intros st outs sent st' sent' e H; simpl in H.
    - inversion H; reflexivity.
    - destruct (s_closed st); [inversion H; reflexivity|]. destruct outs as [|o outs']; [inversion H; reflexivity|].
      destruct (request_on st n) as [[st1 a]|] eqn:Er; [|inversion H; reflexivity].
      apply IH in H. apply request_on_t2b in Er. congruence.
  Qed.

  (* ... and from the moment each payload was resolved to the end of the resolution *)
  Lemma resolve_loop_nonew_suffix : forall ps st group loads acc evs st' evs' resolved,
    WF st -> Forall load_truthful loads -> resolve_loop st group ps loads acc evs = (st', evs', inl resolved) ->
    exists new, resolved = acc ++ new /\ Forall (fun x => nonew (rs_state x) st') new.
  Proof.
    induction ps as [|p rest IH]; intros st group loads acc evs st' evs' resolved Hwf Hl H; simpl in H.
    - inversion H; subst. exists []. rewrite app_nil_r. split; [reflexivity|constructor].
    - destruct (resolve_one st group p loads) as [[[st1 loads1] ev] [n|e]] eqn:Er; [|discriminate].
      destruct (resolve_one_nonew _ _ _ _ _ _ _ _ Hwf Hl Er) as [_ F1].
      pose proof (resolve_one_WF _ _ _ _ _ _ _ _ Hwf Er) as W1.
      destruct (resolve_loop_nonew _ _ _ _ _ _ _ _ _ W1 F1 H) as [N2 _].
      destruct (IH _ _ _ _ _ _ _ _ W1 F1 H) as [new [Hres Hall]].
      exists ({| rs_payload := p; rs_node := n; rs_state := st1 |} :: new).
      split; [rewrite Hres, <- app_assoc; reflexivity|]. constructor; [exact N2|exact Hall].
  Qed.

  Lemma aware_ok_t2b : forall st group expect ps loads outs st1 evs resolved rs,
    resolve_loop st group ps loads [] [] = (st1, evs, inl resolved) ->
    a_res (aware st group expect ps loads outs) = SOk rs ->
    s_t2b (a_state (aware st group expect ps loads outs)) = s_t2b st1.
  Proof.
    intros st group expect ps loads outs st1 evs resolved rs Hr H. unfold aware in *.
    destruct ps as [|p0 ps0]; [discriminate|]. rewrite Hr in *.
    destruct (send_requests st1 (group_by_node (resolved_pairs resolved)) outs []) as [[st2 sent] [e|]] eqn:Es; [discriminate|].
    destruct (collect expect _ _ [] []) as [acc failed]. destruct failed; [|discriminate]. simpl.
    eapply send_requests_t2b. exact Es.
  Qed.

  Lemma aware_nonew : forall st group expect ps loads outs,
    WF st -> Forall load_truthful loads -> nonew st (a_state (aware st group expect ps loads outs)).
  Proof.
    intros st group expect ps loads outs Hwf Hl. unfold aware.
    destruct ps as [|p0 ps0]; [apply nonew_refl|].
    destruct (resolve_loop st group (p0 :: ps0) loads [] []) as [[st1 evs] res] eqn:Er.
    destruct (resolve_loop_nonew _ _ _ _ _ _ _ _ _ Hwf Hl Er) as [N1 _].
    destruct res as [resolved|e]; [|exact N1].
    destruct (send_requests st1 (group_by_node (resolved_pairs resolved)) outs []) as [[st2 sent] [e|]] eqn:Es;
      apply send_requests_t2b in Es.
    - simpl. eapply nonew_trans; [exact N1|apply nonew_eq; exact Es].
    - destruct (collect expect _ _ [] []) as [acc failed]. destruct failed; simpl.
      + eapply nonew_trans; [exact N1|apply nonew_eq; exact Es].
      + intros k n a H. discriminate.
  Qed.

  Lemma handle_responses_sub : forall rs st group fail out st' res,
    handle_responses st group fail rs out = (st', res) ->
    forall k v, tget k (s_t2b st') = Some v -> tget k (s_t2b st) = Some v.
  Proof.
    induction rs as [|r rest IH]; intros st group fail out st' res H k v Hk; simpl in H.
    - inversion H; subst. exact Hk.
    - destruct (r_err r =? 0); [eapply IH; eassumption|].
      destruct (is_topic_err (r_err r)).
      + destruct fail.
        * inversion H; subst. eapply reset_topic_t2b_sub. exact Hk.
        * eapply reset_topic_t2b_sub. eapply IH; eassumption.
      + destruct (is_group_err (r_err r)).
        * destruct group as [g|]; [|inversion H; subst; exact Hk].
          destruct fail; [inversion H; subst; exact Hk|]. apply (IH _ _ _ _ _ _ H k v) in Hk. exact Hk.
        * destruct fail; [inversion H; subst; exact Hk|eapply IH; eassumption].
  Qed.

  Lemma send_public_nonew : forall st group fail expect ps loads outs r st' res,
    WF st -> Forall load_truthful loads ->
    send_public st group fail expect ps loads outs = (r, st', res) -> nonew st st'.
  Proof.
    intros st group fail expect ps loads outs r st' res Hwf Hl H. unfold send_public in H.
    pose proof (aware_nonew st group expect ps loads outs Hwf Hl) as N1.
    destruct (a_res (aware st group expect ps loads outs)) as [rs|rs f|e].
    - destruct (handle_responses _ group fail rs []) as [st2 hr] eqn:Eh.
      assert (N2 : nonew (a_state (aware st group expect ps loads outs)) st2).
      { apply nonew_sub. eapply handle_responses_sub. exact Eh. }
      destruct hr; inversion H; subst; eapply nonew_trans; eassumption.
    - inversion H; subst. exact N1.
    - inversion H; subst. exact N1.
  Qed.

  (* ---- the statements ---- *)
  (* from a cache without stale leaders, with truthfully answered lookups, EVERY payload of a call is routed to
     its true leader - any payload list, any number of nested lookups *)
  Lemma fresh_routing : forall st expect ps loads outs rs failed,
    WF st -> fresh st -> Forall load_truthful loads ->
    fanout (a_res (aware st None expect ps loads outs)) = Some (rs, failed) ->
    Forall (fun x => rs_node x = truth (p_key (rs_payload x))) (a_resolved (aware st None expect ps loads outs)).
  Proof.
    intros st expect ps loads outs rs failed Hwf Hf Hl H.
    destruct (aware_routing _ _ _ _ _ _ _ _ H) as [_ [Hrt _]].
    destruct (aware_unfold _ _ _ _ _ _ _ _ H) as [_ [st1 [evs [resolved [st2 [acc [Hr [_ [Hres _]]]]]]]]].
    destruct (resolve_loop_nonew _ _ _ _ _ _ _ _ _ Hwf Hl Hr) as [_ [new [Hnew Hall]]]. simpl in Hnew. subst new.
    rewrite Hres in *. rewrite Forall_forall in *. intros x Hx.
    destruct (Hrt x Hx) as [a Ha]. eapply (fresh_nonew st (rs_state x) Hf (Hall x Hx)). exact Ha.
  Qed.

  (* no public send ever makes a topic stale that was not stale before *)
  Lemma stale_never_grows : forall st group fail expect ps loads outs r st' res t,
    WF st -> Forall load_truthful loads ->
    send_public st group fail expect ps loads outs = (r, st', res) -> stale st' t -> stale st t.
  Proof.
    intros st group fail expect ps loads outs r st' res t Hwf Hl H. apply stale_nonew.
    eapply send_public_nonew; eassumption.
  Qed.
End Recovery.
