(* Byte-level codecs of the member assignment and of the member metadata: decode (encode x) = x. *)
From AV Require Import Base.Util Proofs.UtilFacts Model.Assign Proofs.AssignOrder Proofs.AssignDict.
From Coq Require Import Lia ZifyBool.
Ltac Zify.zify_post_hook ::= Z.to_euclidean_division_equations.

Lemma dec_enc_i16 x : in_i16 x = true -> dec_i16 ((x / 256) mod 256) (x mod 256) = x.
Proof. unfold in_i16, dec_i16. intro H. destruct (_ <? 32768) eqn:E; lia. Qed.
Lemma dec_enc_i32 x : in_i32 x = true ->
  dec_i32 ((x / 16777216) mod 256) ((x / 65536) mod 256) ((x / 256) mod 256) (x mod 256) = x.
Proof. unfold in_i32, dec_i32. intro H. destruct (_ <? 2147483648) eqn:E; lia. Qed.
Ltac Zify.zify_post_hook ::= idtac.

Lemma rd_enc_i16 x r : in_i16 x = true -> rd_i16 (enc_i16 x ++ r) = Ok (x, r).
Proof. intro H. unfold enc_i16, rd_i16. cbn [app]. now rewrite dec_enc_i16. Qed.
Lemma rd_enc_i32 x r : in_i32 x = true -> rd_i32 (enc_i32 x ++ r) = Ok (x, r).
Proof. intro H. unfold enc_i32, rd_i32. cbn [app]. now rewrite dec_enc_i32. Qed.

Lemma bind_ok {A B} (r : result A) (f : A -> result B) b :
  bind r f = Ok b -> exists a, r = Ok a /\ f a = Ok b.
Proof. destruct r; cbn [bind]; [eauto | discriminate]. Qed.

Lemma pack_i16_ok x b : pack_i16 x = Ok b -> in_i16 x = true /\ b = enc_i16 x.
Proof. unfold pack_i16. destruct (in_i16 x); [intros [= <-]; auto | discriminate]. Qed.
Lemma pack_i32_ok x b : pack_i32 x = Ok b -> in_i32 x = true /\ b = enc_i32 x.
Proof. unfold pack_i32. destruct (in_i32 x); [intros [= <-]; auto | discriminate]. Qed.

Lemma len_app {A} (a b : list A) : len (a ++ b) = len a + len b.
Proof. unfold len. rewrite app_length. lia. Qed.
Lemma len_nonneg {A} (a : list A) : 0 <= len a.
Proof. unfold len. lia. Qed.
Lemma len_cons {A} (x : A) l : len (x :: l) = len l + 1.
Proof. unfold len. cbn [length]. lia. Qed.
Lemma to_nat_len {A} (a : list A) : Z.to_nat (len a) = length a.
Proof. unfold len. apply Nat2Z.id. Qed.

Lemma take_app {A} (a b : list A) : take (length a) (a ++ b) = a.
Proof. induction a as [|x a IH]; cbn; [now destruct b | now rewrite IH]. Qed.
Lemma drop_app {A} (a b : list A) : drop (length a) (a ++ b) = b.
Proof. induction a as [|x a IH]; cbn; [reflexivity | exact IH]. Qed.

(* ---- int32 arrays ---- *)
Lemma pack_i32s_rd xs : forall b r, pack_i32s xs = Ok b ->
  rd_i32s (length xs) (b ++ r) = Ok (xs, r) /\ len b = 4 * len xs.
Proof.
  induction xs as [|x xs IH]; intros b r; cbn [pack_i32s].
  - intros [= <-]. split; reflexivity.
  - intro H. apply bind_ok in H. destruct H as (bx & Hx & H). apply bind_ok in H. destruct H as (bs & Hs & H).
    injection H as <-. apply pack_i32_ok in Hx. destruct Hx as [Hx ->]. destruct (IH bs r Hs) as [IH1 IH2].
    split.
    + cbn [length rd_i32s]. rewrite <- app_assoc, rd_enc_i32 by assumption. cbn [bind fst snd]. rewrite IH1. reflexivity.
    + rewrite len_app, len_cons, IH2. unfold enc_i32, len. cbn [length]. lia.
Qed.

(* ---- strings ---- *)
Lemma write_read_short_bytes b w r : write_short_bytes b = Ok w -> read_short_bytes (w ++ r) = Ok (Some b, r).
Proof.
  unfold write_short_bytes. destruct (32767 <? len b) eqn:E; [discriminate|]. intro H.
  assert (Hw : w = enc_i16 (len b) ++ b) by congruence. subst w. clear H.
  unfold read_short_bytes. rewrite <- app_assoc, rd_enc_i16.
  - cbn [bind]. pose proof (len_nonneg b). destruct (len b =? -1) eqn:E1; [lia|]. destruct (len b <? -1) eqn:E2; [lia|].
    rewrite len_app. pose proof (len_nonneg r). destruct (len b + len r <? len b) eqn:E3; [lia|].
    now rewrite to_nat_len, take_app, drop_app.
  - unfold in_i16. pose proof (len_nonneg b). lia.
Qed.

Lemma ascii_below s : forallb is_ascii s = true -> forallb (fun c => c <? 128) s = true.
Proof.
  intro H. apply forallb_forall. intros c Hc. eapply forallb_forall in H; [|exact Hc]. unfold is_ascii in H. lia.
Qed.

Lemma write_read_short_ascii t w r : write_short_ascii t = Ok w -> read_short_ascii (w ++ r) = Ok (t, r).
Proof.
  unfold write_short_ascii. destruct (forallb is_ascii t) eqn:E; [|discriminate]. intro H.
  unfold read_short_ascii. rewrite (write_read_short_bytes _ _ _ H). cbn [bind]. now rewrite ascii_below.
Qed.

Lemma write_read_int_string ud w r : write_int_string ud = Ok w -> read_int_string (w ++ r) = Ok (ud, r).
Proof.
  unfold write_int_string, read_int_string. destruct ud as [u|].
  - intro H. apply bind_ok in H. destruct H as (h & Hh & H). injection H as <-.
    apply pack_i32_ok in Hh. destruct Hh as [Hh ->]. rewrite <- app_assoc, rd_enc_i32 by assumption. cbn [bind].
    pose proof (len_nonneg u). destruct (len u =? -1) eqn:E1; [lia|]. destruct (len u <? -1) eqn:E2; [lia|].
    rewrite len_app. pose proof (len_nonneg r). destruct (len u + len r <? len u) eqn:E3; [lia|].
    now rewrite to_nat_len, take_app, drop_app.
  - intro H. apply pack_i32_ok in H. destruct H as [H ->]. rewrite rd_enc_i32 by assumption. reflexivity.
Qed.

(* ---- member assignment ---- *)
Lemma dec_topics_eq fuel n d acc :
  dec_topics fuel n d acc =
  if n <=? 0 then Ok (acc, d)
  else match fuel with
       | O => Err EFuel
       | S f =>
           bind (read_short_ascii d) (fun tr =>
           bind (rd_i32 (snd tr)) (fun nr =>
             let '(np, r) := nr in
             if np <? 0 then Err EStruct
             else if len r <? 4 * np then Err EUnderflow
             else bind (rd_i32s (Z.to_nat np) r) (fun pr =>
                    dec_topics f (n - 1) (snd pr) (dict_set acc (fst tr) (fst pr)))))
       end.
Proof. destruct fuel; reflexivity. Qed.

Lemma enc_topics_len d : forall b, enc_topics d = Ok b -> (length d <= length b)%nat.
Proof.
  induction d as [|[t ps] d IH]; intros b; cbn [enc_topics]; [intros [= <-]; cbn; lia|].
  intro H. apply bind_ok in H. destruct H as (bt & Ht & H). apply bind_ok in H. destruct H as (bn & Hn & H).
  apply bind_ok in H. destruct H as (bp & Hp & H). apply bind_ok in H. destruct H as (br & Hr & H). injection H as <-.
  specialize (IH br Hr). apply pack_i32_ok in Hn. destruct Hn as [_ ->].
  rewrite !app_length. unfold enc_i32. cbn [length]. lia.
Qed.

Lemma dec_enc_topics d : forall b, enc_topics d = Ok b -> forall fuel r acc, (length d <= fuel)%nat ->
  dec_topics fuel (len d) (b ++ r) acc = Ok (fold_left (fun acc e => dict_set acc (fst e) (snd e)) d acc, r).
Proof.
  induction d as [|[t ps] d IH]; intros b; cbn [enc_topics].
  - intros [= <-] fuel r acc _. rewrite dec_topics_eq. reflexivity.
  - intro H. apply bind_ok in H. destruct H as (bt & Ht & H). apply bind_ok in H. destruct H as (bn & Hn & H).
    apply bind_ok in H. destruct H as (bp & Hp & H). apply bind_ok in H. destruct H as (br & Hr & H). injection H as <-.
    intros fuel r acc Hf. rewrite dec_topics_eq. rewrite len_cons. pose proof (len_nonneg d).
    destruct (len d + 1 <=? 0) eqn:E0; [lia|]. destruct fuel as [|f]; [cbn [length] in Hf; lia|].
    rewrite <- !app_assoc. rewrite (write_read_short_ascii _ _ _ Ht). cbn [bind fst snd].
    apply pack_i32_ok in Hn. destruct Hn as [Hn ->]. rewrite rd_enc_i32 by assumption. cbn [bind].
    pose proof (len_nonneg ps). destruct (len ps <? 0) eqn:E1; [lia|].
    destruct (pack_i32s_rd ps bp (br ++ r) Hp) as [R L].
    rewrite len_app. pose proof (len_nonneg (br ++ r)). destruct (len bp + len (br ++ r) <? 4 * len ps) eqn:E2; [lia|].
    rewrite to_nat_len, R. cbn [bind fst snd]. replace (len d + 1 - 1) with (len d) by lia.
    rewrite (IH br Hr f r _); [reflexivity|]. cbn [length] in Hf. lia.
Qed.

(* decode (encode x) = x, trailing bytes ignored; any version other than 0 is refused by the decoder *)
Lemma enc_dec_assignment v d ud b : enc_assignment v d ud = Ok b -> NoDup (map fst d) -> forall rest,
  dec_assignment (b ++ rest) = if v =? 0 then Ok (v, d, ud) else Err EProtocol.
Proof.
  unfold enc_assignment. intros H N rest.
  apply bind_ok in H. destruct H as (bv & Hv & H). apply bind_ok in H. destruct H as (bn & Hn & H).
  apply bind_ok in H. destruct H as (bt & Ht & H). apply bind_ok in H. destruct H as (bu & Hu & H). injection H as <-.
  apply pack_i16_ok in Hv. destruct Hv as [Hv ->]. apply pack_i32_ok in Hn. destruct Hn as [Hn ->].
  unfold dec_assignment. rewrite <- !app_assoc. rewrite rd_enc_i16 by assumption. cbn [bind fst snd].
  rewrite rd_enc_i32 by assumption. cbn [bind fst snd].
  destruct (v =? 0) eqn:Ev; cbn [negb]; [|reflexivity].
  rewrite (dec_enc_topics d bt Ht).
  - cbn [bind fst snd]. rewrite (write_read_int_string _ _ _ Hu). cbn [bind fst].
    rewrite dict_fold_id by (cbn [map app]; exact N). reflexivity.
  - apply enc_topics_len in Ht. rewrite !app_length. lia.
Qed.

(* ---- the encoder cannot raise on in-range values ---- *)
Lemma pack_i32s_total xs : forallb in_i32 xs = true -> exists b, pack_i32s xs = Ok b.
Proof.
  induction xs as [|x xs IH]; cbn [forallb pack_i32s]; [eauto|].
  intro H. apply andb_prop in H. destruct H as [H1 H2]. destruct (IH H2) as [b Hb].
  unfold pack_i32. rewrite H1, Hb. cbn [bind]. eauto.
Qed.

Lemma write_short_ascii_total t : topic_ok t = true -> exists b, write_short_ascii t = Ok b.
Proof.
  unfold topic_ok, write_short_ascii, write_short_bytes. intro H. apply andb_prop in H. destruct H as [H1 H2].
  rewrite H1. destruct (32767 <? len t) eqn:E; [lia | eauto].
Qed.

Lemma enc_topics_total d :
  forallb (fun e => topic_ok (fst e) && (len (snd e) <=? 2147483647) && forallb in_i32 (snd e)) d = true ->
  exists b, enc_topics d = Ok b.
Proof.
  induction d as [|[t ps] d IH]; cbn [forallb enc_topics fst snd]; [eauto|].
  intro H. apply andb_prop in H. destruct H as [H H3]. apply andb_prop in H. destruct H as [H H2].
  apply andb_prop in H. destruct H as [H0 H1].
  destruct (write_short_ascii_total t H0) as [bt ->]. cbn [bind].
  unfold pack_i32 at 1. pose proof (len_nonneg ps). replace (in_i32 (len ps)) with true by (unfold in_i32; lia). cbn [bind].
  destruct (pack_i32s_total ps H2) as [bp ->]. cbn [bind]. destruct (IH H3) as [br ->]. cbn [bind]. eauto.
Qed.

Lemma write_int_string_total ud : ud_ok ud = true -> exists b, write_int_string ud = Ok b.
Proof.
  unfold ud_ok, write_int_string. destruct ud as [u|]; intro H.
  - unfold pack_i32. pose proof (len_nonneg u). replace (in_i32 (len u)) with true by (unfold in_i32; lia). cbn [bind]. eauto.
  - cbn. eauto.
Qed.

Lemma enc_assignment_total v d ud :
  in_i16 v = true -> adict_ok d = true -> ud_ok ud = true -> exists b, enc_assignment v d ud = Ok b.
Proof.
  intros Hv Hd Hu. unfold adict_ok in Hd. apply andb_prop in Hd. destruct Hd as [H1 H2].
  unfold enc_assignment, pack_i16. rewrite Hv. cbn [bind].
  unfold pack_i32. pose proof (len_nonneg d). replace (in_i32 (len d)) with true by (unfold in_i32; lia). cbn [bind].
  destruct (enc_topics_total d H2) as [bt ->]. cbn [bind].
  destruct (write_int_string_total ud Hu) as [bu ->]. cbn [bind]. eauto.
Qed.

(* ---- member metadata (subscriptions as byte strings) ---- *)
Lemma dec_subs_eq fuel n d acc :
  dec_subs fuel n d acc =
  if n <=? 0 then Ok (rev acc, d)
  else match fuel with
       | O => Err EFuel
       | S f => bind (read_short_bytes d) (fun br =>
                  match br with
                  | (None, _) => Err ENone
                  | (Some b, r) => dec_subs f (n - 1) r (b :: acc)
                  end)
       end.
Proof. destruct fuel; reflexivity. Qed.

Lemma enc_subs_len subs : forall b, enc_subs subs = Ok b -> (length subs <= length b)%nat.
Proof.
  induction subs as [|s subs IH]; intros b; cbn [enc_subs]; [intros [= <-]; cbn; lia|].
  intro H. apply bind_ok in H. destruct H as (bs & Hs & H). apply bind_ok in H. destruct H as (br & Hr & H). injection H as <-.
  specialize (IH br Hr). unfold write_short_bytes in Hs. destruct (32767 <? len s); [discriminate|]. injection Hs as <-.
  rewrite !app_length. unfold enc_i16. cbn [length]. lia.
Qed.

Lemma dec_enc_subs subs : forall b, enc_subs subs = Ok b -> forall fuel r acc, (length subs <= fuel)%nat ->
  dec_subs fuel (len subs) (b ++ r) acc = Ok (rev acc ++ subs, r).
Proof.
  induction subs as [|s subs IH]; intros b; cbn [enc_subs].
  - intros [= <-] fuel r acc _. rewrite dec_subs_eq. cbn. now rewrite app_nil_r.
  - intro H. apply bind_ok in H. destruct H as (bs & Hs & H). apply bind_ok in H. destruct H as (br & Hr & H). injection H as <-.
    intros fuel r acc Hf. rewrite dec_subs_eq, len_cons. pose proof (len_nonneg subs).
    destruct (len subs + 1 <=? 0) eqn:E0; [lia|]. destruct fuel as [|f]; [cbn [length] in Hf; lia|].
    rewrite <- app_assoc, (write_read_short_bytes _ _ _ Hs). cbn [bind].
    replace (len subs + 1 - 1) with (len subs) by lia. rewrite (IH br Hr f r); [|cbn [length] in Hf; lia].
    cbn [rev]. now rewrite <- app_assoc.
Qed.

Lemma enc_dec_metadata v subs ud b : enc_metadata v subs ud = Ok b -> forall rest,
  dec_metadata (b ++ rest) = Ok (v, subs, ud).
Proof.
  unfold enc_metadata. intros H rest.
  apply bind_ok in H. destruct H as (bv & Hv & H). apply bind_ok in H. destruct H as (bn & Hn & H).
  apply bind_ok in H. destruct H as (bs & Hs & H). apply bind_ok in H. destruct H as (bu & Hu & H). injection H as <-.
  apply pack_i16_ok in Hv. destruct Hv as [Hv ->]. apply pack_i32_ok in Hn. destruct Hn as [Hn ->].
  unfold dec_metadata. rewrite <- !app_assoc. rewrite rd_enc_i16 by assumption. cbn [bind fst snd].
  rewrite rd_enc_i32 by assumption. cbn [bind fst snd].
  rewrite (dec_enc_subs subs bs Hs).
  - cbn [bind fst snd rev app]. now rewrite (write_read_int_string _ _ _ Hu).
  - apply enc_subs_len in Hs. rewrite !app_length. lia.
Qed.
