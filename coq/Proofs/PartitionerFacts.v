From AV Require Import Base.Util Model.Murmur Model.Partitioner Proofs.UtilFacts.
From Coq Require Import Lia Permutation Sorting.Sorted.

(* ---------- hashed partitioner ---------- *)
Lemma hashed_index_range key n : 0 < n -> 0 <= hashed_index key n < n.
Proof. intro H. unfold hashed_index. apply Z.mod_pos_bound. exact H. Qed.

Lemma hashed_in_range key parts : parts <> [] ->
  exists p, hashed_partition key parts = Some p /\ In p parts.
Proof.
  intro Hne. unfold hashed_partition. destruct parts as [|a r] eqn:E; [contradiction|]. rewrite <- E.
  assert (Hn : 0 < Z.of_nat (length parts)) by (subst parts; cbn [length]; lia).
  pose proof (hashed_index_range key _ Hn) as [H0 H1].
  destruct (nth_error parts (Z.to_nat (hashed_index key (Z.of_nat (length parts))))) as [p|] eqn:N.
  - exists p. split; [reflexivity|]. eapply nth_error_In; exact N.
  - apply nth_error_None in N. lia.
Qed.

Lemma hashed_empty key : hashed_partition key [] = None.
Proof. reflexivity. Qed.

(* ---------- round robin ---------- *)
Definition rr_inv (s : rr) : Prop :=
  (rr_pos s < length (rr_cyc s))%nat /\ rr_sorted s = zsort (rr_cyc s).

Lemma rr_set_inv parts st s : rr_set parts st = Some s -> rr_inv s.
Proof.
  unfold rr_set. destruct parts as [|a r] eqn:E; [discriminate|]. rewrite <- E.
  intro H. injection H as <-. split; cbn [rr_pos rr_cyc rr_sorted]; [|reflexivity].
  apply Nat.mod_upper_bound. subst parts; cbn [length]; lia.
Qed.

Lemma rr_next_some s : rr_inv s -> exists p, rr_next s = Some (p,
  {| rr_sorted := rr_sorted s; rr_cyc := rr_cyc s;
     rr_pos := Nat.modulo (S (rr_pos s)) (length (rr_cyc s)) |}) /\ nth_error (rr_cyc s) (rr_pos s) = Some p.
Proof.
  intros [Hp _]. unfold rr_next. destruct (nth_error (rr_cyc s) (rr_pos s)) as [p|] eqn:N.
  - exists p. split; reflexivity.
  - apply nth_error_None in N. lia.
Qed.

Lemma rr_next_inv s p s' : rr_inv s -> rr_next s = Some (p, s') ->
  rr_inv s' /\ rr_sorted s' = rr_sorted s /\ rr_cyc s' = rr_cyc s.
Proof.
  intros Hi H. destruct (rr_next_some s Hi) as [q [E _]]. rewrite E in H. injection H as <- <-.
  destruct Hi as [Hp Hs]. repeat split; cbn [rr_pos rr_cyc rr_sorted]; try assumption.
  apply Nat.mod_upper_bound. lia.
Qed.

Lemma rr_partition_inv s parts st p s' : rr_inv s -> rr_partition s parts st = Some (p, s') -> rr_inv s'.
Proof.
  intros Hi. unfold rr_partition. destruct (zlist_eqb (rr_sorted s) parts).
  - intro H. eapply rr_next_inv in H; [tauto | exact Hi].
  - destruct (rr_set parts st) as [s0|] eqn:E; [|discriminate].
    intro H. eapply rr_next_inv in H; [tauto | eapply rr_set_inv; exact E].
Qed.


Lemma skipn_cons_nth (c : list Z) p x : nth_error c p = Some x -> skipn p c = x :: skipn (S p) c.
Proof. revert p. induction c as [|a c IH]; intros [|p] H; cbn in *; try discriminate.
  - injection H as ->. reflexivity.
  - apply IH in H. exact H. Qed.

Lemma firstn_skipn_one (c : list Z) p x : nth_error c p = Some x -> firstn 1 (skipn p c) = [x].
Proof. intro H. rewrite (skipn_cons_nth c p x H). reflexivity. Qed.

(* m consecutive selections from the internal cycle *)
Fixpoint steps (s : rr) (m : nat) : list Z * rr :=
  match m with
  | O => ([], s)
  | S m' => match rr_next s with
            | Some (p, s') => let (o, s'') := steps s' m' in (p :: o, s'')
            | None => ([], s)
            end
  end.

Lemma steps_app s a b :
  steps s (a + b) = let (o1, s1) := steps s a in let (o2, s2) := steps s1 b in (o1 ++ o2, s2).
Proof.
  revert s. induction a as [|a IH]; intro s; cbn [steps Nat.add].
  - destruct (steps s b); reflexivity.
  - destruct (rr_next s) as [[p s']|] eqn:E.
    + rewrite IH. destruct (steps s' a) as [o1 s1]. destruct (steps s1 b) as [o2 s2]. reflexivity.
    + destruct b; cbn [steps]; [reflexivity|]. rewrite E. reflexivity.
Qed.

(* from position p, j steps with p + j <= n output c[p .. p+j) and land on (p+j) mod n *)
Lemma steps_segment : forall j srt c p, (0 < length c)%nat -> (p + j <= length c)%nat -> (p < length c)%nat ->
  steps {| rr_sorted := srt; rr_cyc := c; rr_pos := p |} j =
  (firstn j (skipn p c), {| rr_sorted := srt; rr_cyc := c; rr_pos := Nat.modulo (p + j) (length c) |}).
Proof.
  induction j as [|j IH]; intros srt c p Hn Hj Hp.
  - cbn [steps firstn]. rewrite Nat.add_0_r, Nat.mod_small by exact Hp. reflexivity.
  - cbn [steps]. unfold rr_next. cbn [rr_cyc rr_pos rr_sorted].
    destruct (nth_error c p) as [x|] eqn:N; [|apply nth_error_None in N; lia].
    destruct (Nat.eq_dec (S p) (length c)) as [E|E].
    + (* wrapped: j must be 0 *)
      assert (j = 0)%nat by lia. subst j. rewrite E, Nat.mod_same by lia. cbn [steps].
      replace (p + 1)%nat with (length c) by lia. rewrite Nat.mod_same by lia.
      f_equal. rewrite (firstn_skipn_one c p x N). reflexivity.
    + rewrite (Nat.mod_small (S p)) by lia.
      rewrite IH by lia. replace (S p + j)%nat with (p + S j)%nat by lia.
      f_equal. rewrite (skipn_cons_nth c p x N). reflexivity.
Qed.

(* one full turn of the cycle from any position: a rotation of c, back at the same position *)
Lemma steps_turn srt c p : (p < length c)%nat ->
  steps {| rr_sorted := srt; rr_cyc := c; rr_pos := p |} (length c) =
  (skipn p c ++ firstn p c, {| rr_sorted := srt; rr_cyc := c; rr_pos := p |}).
Proof.
  intro Hp. replace (length c) with ((length c - p) + p)%nat at 1 by lia.
  rewrite steps_app. rewrite steps_segment by lia.
  replace (p + (length c - p))%nat with (length c) by lia. rewrite Nat.mod_same by lia.
  rewrite steps_segment by lia. cbn [Nat.add skipn]. rewrite Nat.mod_small by exact Hp.
  f_equal. f_equal. apply firstn_all2. rewrite skipn_length. lia.
Qed.

Lemma turn_perm (c : list Z) p : Permutation (skipn p c ++ firstn p c) c.
Proof. rewrite Permutation_app_comm. rewrite firstn_skipn. apply Permutation_refl. Qed.

Lemma count_occ_perm (a b : list Z) x : Permutation a b -> count_occ Z.eq_dec a x = count_occ Z.eq_dec b x.
Proof. intro H. revert x. apply (Permutation_count_occ Z.eq_dec). exact H. Qed.

Lemma steps_turns srt c p k : (p < length c)%nat -> forall x,
  count_occ Z.eq_dec (fst (steps {| rr_sorted := srt; rr_cyc := c; rr_pos := p |} (k * length c))) x
  = (k * count_occ Z.eq_dec c x)%nat
  /\ snd (steps {| rr_sorted := srt; rr_cyc := c; rr_pos := p |} (k * length c))
     = {| rr_sorted := srt; rr_cyc := c; rr_pos := p |}.
Proof.
  intros Hp x. induction k as [|k [IH1 IH2]]; [cbn; split; reflexivity|].
  cbn [Nat.mul]. rewrite steps_app. rewrite steps_turn by exact Hp.
  destruct (steps {| rr_sorted := srt; rr_cyc := c; rr_pos := p |} (k * length c)) as [o2 s2].
  cbn [fst snd] in *. split; [|exact IH2].
  rewrite count_occ_app, IH1. rewrite (count_occ_perm _ _ x (turn_perm c p)). reflexivity.
Qed.

(* link with the public call sequence *)
Definition aligned (s : rr) (parts : list Z) : Prop := rr_inv s /\ rr_sorted s = parts.

Lemma rr_run_aligned : forall starts s parts, aligned s parts ->
  rr_run s (map (fun st => (parts, st)) starts) = fst (steps s (length starts)).
Proof.
  induction starts as [|st starts IH]; intros s parts [Hi Hs]; [reflexivity|].
  cbn [map rr_run length steps]. unfold rr_partition. rewrite Hs, zlist_eqb_refl.
  destruct (rr_next_some s Hi) as [p [E _]]. rewrite E.
  pose proof (rr_next_inv s p _ Hi E) as [Hi' [Hs' _]].
  rewrite (IH _ parts) by (split; [exact Hi' | congruence]).
  destruct (steps _ (length starts)). reflexivity.
Qed.

Lemma aligned_perm s parts : aligned s parts -> Permutation (rr_cyc s) parts.
Proof. intros [[_ Hs] E]. rewrite <- E, Hs. apply ZSort.Permuted_sort. Qed.

Lemma rr_fair_aligned s parts k starts x : aligned s parts ->
  length starts = (k * length parts)%nat ->
  count_occ Z.eq_dec (rr_run s (map (fun st => (parts, st)) starts)) x = (k * count_occ Z.eq_dec parts x)%nat.
Proof.
  intros Ha Hl. rewrite (rr_run_aligned _ _ _ Ha). pose proof (aligned_perm _ _ Ha) as P.
  rewrite Hl, <- (Permutation_length P). destruct Ha as [[Hp Hs] E]. destruct s as [srt c p].
  cbn [rr_cyc rr_pos rr_sorted] in *. rewrite (proj1 (steps_turns srt c p k Hp x)).
  rewrite (count_occ_perm _ _ x P). reflexivity.
Qed.

(* a call with a list different from the remembered one behaves like a fresh partitioner *)
Lemma rr_run_reset s parts st rest s0 : rr_sorted s <> parts -> rr_set parts st = Some s0 -> zsort parts = parts ->
  rr_run s ((parts, st) :: rest) = rr_run s0 ((parts, st) :: rest).
Proof.
  intros Hne E Hsorted. cbn [rr_run]. unfold rr_partition.
  apply zlist_eqb_neq in Hne. rewrite Hne, E.
  assert (rr_sorted s0 = parts) as ->.
  { unfold rr_set in E. destruct parts; [discriminate|]. injection E as <-. exact Hsorted. }
  rewrite zlist_eqb_refl. reflexivity.
Qed.

Lemma rr_set_aligned parts st s0 : rr_set parts st = Some s0 -> zsort parts = parts -> aligned s0 parts.
Proof. intros E Hs. split; [eapply rr_set_inv; exact E|].
  unfold rr_set in E. destruct parts; [discriminate|]. injection E as <-. exact Hs. Qed.

Lemma rr_fair s parts k starts x : rr_inv s -> parts <> [] -> zsort parts = parts ->
  length starts = (k * length parts)%nat ->
  count_occ Z.eq_dec (rr_run s (map (fun st => (parts, st)) starts)) x = (k * count_occ Z.eq_dec parts x)%nat.
Proof.
  intros Hi Hne Hsorted Hl.
  destruct (zlist_eqb (rr_sorted s) parts) eqn:E.
  - apply zlist_eqb_eq in E. apply rr_fair_aligned; [split; assumption | exact Hl].
  - apply zlist_eqb_neq in E. destruct starts as [|st starts].
    + cbn [length] in Hl. destruct k; [reflexivity|]. destruct parts; [contradiction|cbn in Hl; lia].
    + destruct (rr_set parts st) as [s0|] eqn:E0; [|destruct parts; [contradiction|discriminate]].
      cbn [map]. rewrite (rr_run_reset s parts st _ s0 E E0 Hsorted).
      change ((parts, st) :: map (fun st0 => (parts, st0)) starts) with (map (fun st0 => (parts, st0)) (st :: starts)).
      apply rr_fair_aligned; [eapply rr_set_aligned; eassumption | exact Hl].
Qed.

(* restart: a changed list starts its cycle at the (random or 0) start position of the new list *)
Lemma rr_restart s parts st : rr_sorted s <> parts -> parts <> [] ->
  exists p s', rr_partition s parts st = Some (p, s') /\
               nth_error parts (Nat.modulo st (length parts)) = Some p /\ rr_cyc s' = parts /\ rr_inv s'.
Proof.
  intros Hne Hnn. unfold rr_partition. apply zlist_eqb_neq in Hne. rewrite Hne.
  destruct (rr_set parts st) as [s0|] eqn:E0; [|destruct parts; [contradiction|discriminate]].
  pose proof (rr_set_inv _ _ _ E0) as Hi. destruct (rr_next_some s0 Hi) as [p [E N]].
  exists p. eexists. split; [exact E|].
  assert (rr_cyc s0 = parts /\ rr_pos s0 = Nat.modulo st (length parts)) as [Hc Hp].
  { unfold rr_set in E0. destruct parts; [contradiction|]. injection E0 as <-. split; reflexivity. }
  rewrite Hc, Hp in N. split; [exact N|]. split; [exact Hc|].
  eapply rr_next_inv in E; [tauto|exact Hi].
Qed.

(* sortedness characterisation used by the non-vacuity examples: an ascending list is its own sort *)
Example sorted_example : zsort [2; 5; 9] = [2; 5; 9]. Proof. reflexivity. Qed.

Lemma text_utf8_agree cps key parts : utf8 cps = Some key ->
  hashed_partition_text cps parts = hashed_partition key parts.
Proof. intro H. unfold hashed_partition_text. rewrite H. reflexivity. Qed.
