(* C07: from reachable (invariant) states neither the fan-out nor a broker-agnostic request can hit
   KeyError at client.py:915 (self._brokers[node_id]): every node a payload resolves to, and every node the
   fallback order names, has a known address.  The model's EKeyErrorBroker / UKeyError results are unreachable. *)
From AV Require Import Base.Util Model.ClientMeta Model.ClientRoute Proofs.ClientMetaDict Proofs.ClientMetaFacts
  Proofs.ClientRouteWF Proofs.ClientRouteFacts Proofs.ClientRouteFallback.
From Coq Require Import Lia Permutation.

Definition bmono (st st' : state) : Prop :=
  forall n, dmem Z.eqb n (s_brokers st) = true -> dmem Z.eqb n (s_brokers st') = true.

Lemma bmono_refl : forall st, bmono st st.
Proof. intros st n H. exact H. Qed.
Lemma bmono_trans : forall a b c, bmono a b -> bmono b c -> bmono a c.
Proof. intros a b c H1 H2 n H. apply H2, H1, H. Qed.
Lemma bmono_eq : forall st st', s_brokers st' = s_brokers st -> bmono st st'.
Proof. intros st st' E n H. rewrite E. exact H. Qed.

Lemma request_on_brokers : forall st n st2 a, request_on st n = Some (st2, a) -> s_brokers st2 = s_brokers st.
Proof. intros st n st2 a H. apply request_on_facts in H. tauto. Qed.

Lemma known_loop_brokers : forall order st outs log st' log' r,
  known_loop st order outs log = (st', log', r) -> s_brokers st' = s_brokers st.
Proof.
  induction order as [|n rest IH]; intros st outs log st' log' r H; simpl in H.
  - inversion H; reflexivity.
  - destruct (s_closed st); [inversion H; reflexivity|].
    destruct outs as [|o outs']; [inversion H; reflexivity|].
    destruct (request_on st n) as [[st1 a]|] eqn:Er; [|inversion H; reflexivity].
    apply request_on_brokers in Er. destruct o.
    + apply IH in H. congruence.
    + inversion H; subst. exact Er.
    + apply IH in H. simpl in H. congruence.
Qed.

Lemma boot_loop_brokers : forall hosts st outs log st' log' r,
  boot_loop st hosts outs log = (st', log', r) -> s_brokers st' = s_brokers st.
Proof.
  induction hosts as [|h rest IH]; intros st outs log st' log' r H; simpl in H.
  - inversion H; reflexivity.
  - destruct (s_closed st); [inversion H; reflexivity|].
    destruct outs as [|o outs']; [inversion H; reflexivity|].
    destruct o; try (inversion H; reflexivity); apply IH in H; simpl in H; exact H.
Qed.

Lemma unaware_brokers : forall st u st' log r, unaware st u = (st', log, r) -> s_brokers st' = s_brokers st.
Proof.
  intros st u st' log r H. unfold unaware in H.
  destruct (s_closed st); [inversion H; reflexivity|].
  destruct (negb (perm_b Z.eqb (u_shuf u) (map fst (s_brokers st)))); [inversion H; reflexivity|].
  destruct (known_loop st (fallback_order st (u_shuf u)) (u_kouts u) []) as [[st1 log1] [r1|]] eqn:Ek;
    apply known_loop_brokers in Ek.
  - inversion H; subst. exact Ek.
  - destruct (negb (perm_b addr_eqb (u_bshuf u) (s_boot st1))); [inversion H; subst; exact Ek|].
    apply boot_loop_brokers in H. congruence.
Qed.

Lemma update_brokers_bmono : forall st bs remove, bmono st (fst (update_brokers st bs remove)).
Proof.
  intros st bs remove n H. destruct (update_brokers_fields st bs remove) as [Eb _]. rewrite Eb.
  apply dmem_dupdate_mono; [apply by_id_nodup_keys|exact H].
Qed.

Lemma merge_bmono : forall st nr full, bmono st (fst (fst (merge st nr full))).
Proof.
  intros st nr full. rewrite merge_eq. simpl.
  eapply bmono_trans; [apply update_brokers_bmono|]. apply bmono_eq.
  destruct (merge_topics_fields (n_brokers nr) (n_topics nr)
              (fst (update_brokers st (n_brokers nr) (full && negb (is_nil (n_brokers nr)))))) as [Eb _]. exact Eb.
Qed.

Lemma load_metadata_bmono : forall st full u r st' log gone res,
  load_metadata st full u r = (st', log, gone, res) -> bmono st st'.
Proof.
  intros st full u r st' log gone res H. unfold load_metadata in H.
  destruct (unaware st u) as [[st1 log1] r1] eqn:Eu. apply unaware_brokers in Eu.
  destruct r1; try (inversion H; subst; apply bmono_eq; exact Eu).
  pose proof (merge_bmono st1 (norm_resp r) full) as Hm.
  destruct (merge st1 (norm_resp r) full) as [[st2 g2] ok]. simpl in Hm. inversion H; subst.
  eapply bmono_trans; [apply bmono_eq; exact Eu|exact Hm].
Qed.

Lemma load_coordinator_bmono : forall st g u c st' log ok,
  load_coordinator st g u c = (st', log, ok) -> bmono st st'.
Proof.
  intros st g u c st' log ok H. unfold load_coordinator in H.
  destruct (unaware st u) as [[st1 log1] r1] eqn:Eu. apply unaware_brokers in Eu.
  destruct r1; try (inversion H; subst; apply bmono_eq; exact Eu).
  destruct (fst c =? 0); inversion H; subst; [|apply bmono_eq; exact Eu].
  eapply bmono_trans; [apply bmono_eq; exact Eu|]. unfold coord_ok.
  intros n Hn. apply (update_brokers_bmono (set_g2c st1 (dset Z.eqb g (snd c) (s_g2c st1))) [snd c] false). exact Hn.
Qed.

Lemma resolve_leader_bmono : forall st p loads st' loads' evs res,
  resolve_leader st p loads = (st', loads', evs, res) -> bmono st st'.
Proof.
  intros st p loads st' loads' evs res H. unfold resolve_leader in H.
  assert (Hfin : forall s1 (l1 : list load) (e1 : list loadev) (err : option ekind), bmono st s1 ->
            match err with
            | Some e => (s1, l1, e1, inr e)
            | None => match leader_of s1 (p_key p) with
                      | None => (s1, l1, e1, inr EPartitionUnavailable)
                      | Some None => (s1, l1, e1, inr ELeaderUnavailable)
                      | Some (Some bm) => (s1, l1, e1, inl (fst bm))
                      end
            end = (st', loads', evs, res) -> bmono st st').
  { intros s1 l1 e1 err W1 H1. destruct err; [inversion H1; subst; exact W1|].
    destruct (leader_of s1 (p_key p)) as [[bm|]|]; inversion H1; subst; exact W1. }
  destruct (leader_of st (p_key p)) as [[bm|]|] eqn:El.
  - exact (Hfin st loads [] None (bmono_refl st) H).
  - destruct loads as [|[u r|u c] loads0]; try exact (Hfin st _ [] (Some EScript) (bmono_refl st) H).
    destruct (load_metadata st false u r) as [[[s1 log1] gone1] res1] eqn:Em.
    pose proof (load_metadata_bmono _ _ _ _ _ _ _ _ Em) as W1.
    destruct res1; first [exact (Hfin s1 _ _ None W1 H) | exact (Hfin s1 _ _ (Some _) W1 H)].
  - destruct loads as [|[u r|u c] loads0]; try exact (Hfin st _ [] (Some EScript) (bmono_refl st) H).
    destruct (load_metadata st false u r) as [[[s1 log1] gone1] res1] eqn:Em.
    pose proof (load_metadata_bmono _ _ _ _ _ _ _ _ Em) as W1.
    destruct res1; first [exact (Hfin s1 _ _ None W1 H) | exact (Hfin s1 _ _ (Some _) W1 H)].
Qed.

Lemma resolve_coord_bmono : forall st g loads st' loads' evs res,
  resolve_coord st g loads = (st', loads', evs, res) -> bmono st st'.
Proof.
  intros st g loads st' loads' evs res H. unfold resolve_coord in H.
  destruct (dget Z.eqb g (s_g2c st)) as [bm|]; [inversion H; subst; apply bmono_refl|].
  destruct loads as [|[u r|u c] loads0]; try (inversion H; subst; apply bmono_refl).
  destruct (load_coordinator st g u c) as [[s1 log1] ok] eqn:Ec.
  pose proof (load_coordinator_bmono _ _ _ _ _ _ _ Ec) as W1.
  destruct ok; [destruct (dget Z.eqb g (s_g2c s1))|]; inversion H; subst; exact W1.
Qed.

(* every node a payload was resolved to has an address when the resolution loop ends *)
Lemma resolve_loop_known : forall ps st group loads acc evs st' evs' resolved,
  WF st -> (forall x, In x acc -> dmem Z.eqb (rs_node x) (s_brokers st) = true) ->
  resolve_loop st group ps loads acc evs = (st', evs', inl resolved) ->
  forall x, In x resolved -> dmem Z.eqb (rs_node x) (s_brokers st') = true.
Proof.
  induction ps as [|p rest IH]; intros st group loads acc evs st' evs' resolved Hwf Hacc H; simpl in H.
  - inversion H; subst. exact Hacc.
  - destruct (resolve_one st group p loads) as [[[st1 loads1] ev] [n|e]] eqn:Er; [|discriminate].
    pose proof (resolve_one_WF _ _ _ _ _ _ _ _ Hwf Er) as W1.
    assert (Hm : bmono st st1).
    { destruct group as [g|]; simpl in Er; [eapply resolve_coord_bmono|eapply resolve_leader_bmono]; exact Er. }
    eapply IH; [exact W1| |exact H].
    intros x Hx. rewrite in_app_iff in Hx. destruct Hx as [Hx|[<-|[]]]; [apply Hm, Hacc, Hx|]. simpl.
    destruct W1 as [_ [Hlead [Hg2c _]]]. destruct group as [g|]; simpl in Er.
    + destruct (resolve_coord_ok _ _ _ _ _ _ _ Er) as [a Ha]. eapply Hg2c. exact Ha.
    + destruct (resolve_leader_ok _ _ _ _ _ _ _ Er) as [a Ha]. eapply Hlead. exact Ha.
Qed.

Lemma send_requests_no_keyerror : forall groups st outs sent st' sent' e,
  WF st -> (forall g, In g groups -> dmem Z.eqb (fst g) (s_brokers st) = true) ->
  send_requests st groups outs sent = (st', sent', Some e) -> e <> EKeyErrorBroker.
Proof.
  induction groups as [|[n ps] rest IH]; intros st outs sent st' sent' e Hwf Hk H; simpl in H; [discriminate|].
  destruct (s_closed st); [inversion H; discriminate|].
  destruct outs as [|o outs']; [inversion H; discriminate|].
  destruct (request_on_some st n Hwf (Hk (n, ps) (or_introl eq_refl))) as [st2 [a Hr]]. rewrite Hr in H.
  eapply IH; [eapply request_on_WF; eassumption| |exact H].
  intros g Hg. rewrite (request_on_brokers _ _ _ _ Hr). apply Hk. right. exact Hg.
Qed.

Lemma aware_no_keyerror : forall st group expect ps loads outs,
  WF st -> a_res (aware st group expect ps loads outs) <> SErr EKeyErrorBroker.
Proof.
  intros st group expect ps loads outs Hwf. unfold aware.
  destruct ps as [|p0 ps0]; [discriminate|].
  destruct (resolve_loop st group (p0 :: ps0) loads [] []) as [[st1 evs] [resolved|e]] eqn:Er.
  - pose proof (resolve_loop_WF _ _ _ _ _ _ _ _ _ Hwf Er) as W1.
    pose proof (resolve_loop_known _ _ _ _ _ _ _ _ _ Hwf (fun x (F : In x []) => match F with end) Er) as Hk.
    destruct (send_requests st1 (group_by_node (resolved_pairs resolved)) outs []) as [[st2 sent] [e|]] eqn:Es.
    + simpl. intro Heq. inversion Heq; subst e.
      eapply (send_requests_no_keyerror _ _ _ _ _ _ _ W1); [|exact Es|reflexivity].
      intros [n g] Hg. simpl. apply group_by_node_in in Hg. destruct Hg as [Hsel Hne].
      rewrite sel_resolved in Hsel. subst g.
      destruct (filter (fun x => rs_node x =? n) resolved) as [|x xs] eqn:Ef; [contradiction Hne; reflexivity|].
      assert (Hin : In x (filter (fun x => rs_node x =? n) resolved)) by (rewrite Ef; left; reflexivity).
      apply filter_In in Hin. destruct Hin as [Hin Hn]. apply Z.eqb_eq in Hn. subst n. apply Hk. exact Hin.
    + destruct (collect expect _ _ [] []) as [acc failed]. destruct failed; discriminate.
  - (* resolution failed: the error is one of the resolution errors *)
    simpl. intro Heq. inversion Heq; subst e. clear - Er.
    revert Er. generalize (@nil rstep) (@nil loadev) loads st. generalize (p0 :: ps0).
    induction l as [|p rest IH]; intros acc evs0 lds s H; simpl in H; [discriminate|].
    destruct (resolve_one s group p lds) as [[[s1 l1] ev] [n|e]] eqn:E1.
    + eapply IH. exact H.
    + inversion H; subst e. clear - E1. destruct group as [g|]; simpl in E1.
      * unfold resolve_coord in E1. destruct (dget Z.eqb g (s_g2c s)); [discriminate|].
        destruct lds as [|[u r|u c] lds0]; try (inversion E1; discriminate).
        destruct (load_coordinator s g u c) as [[s2 lg] ok]. destruct ok; [destruct (dget Z.eqb g (s_g2c s2))|]; inversion E1.
      * unfold resolve_leader in E1.
        assert (Hfin : forall s2 (l2 : list load) (e2 : list loadev) (err : option ekind), err <> Some EKeyErrorBroker ->
            match err with
            | Some e => (s2, l2, e2, inr e)
            | None => match leader_of s2 (p_key p) with
                      | None => (s2, l2, e2, inr EPartitionUnavailable)
                      | Some None => (s2, l2, e2, inr ELeaderUnavailable)
                      | Some (Some bm) => (s2, l2, e2, inl (fst bm))
                      end
            end = (s1, l1, ev, @inr Z ekind EKeyErrorBroker) -> False).
        { intros s2 l2 e2 err Hne H1. destruct err as [e|]; [inversion H1; subst; apply Hne; reflexivity|].
          destruct (leader_of s2 (p_key p)) as [[bm|]|]; inversion H1. }
        destruct (leader_of s (p_key p)) as [[bm|]|].
        -- exact (Hfin s lds [] None ltac:(discriminate) E1).
        -- destruct lds as [|[u r|u c] lds0]; try exact (Hfin s _ [] (Some EScript) ltac:(discriminate) E1).
           destruct (load_metadata s false u r) as [[[s2 lg] gn] rs].
           destruct rs; first [exact (Hfin s2 _ _ None ltac:(discriminate) E1) | exact (Hfin s2 _ _ (Some _) ltac:(discriminate) E1)].
        -- destruct lds as [|[u r|u c] lds0]; try exact (Hfin s _ [] (Some EScript) ltac:(discriminate) E1).
           destruct (load_metadata s false u r) as [[[s2 lg] gn] rs].
           destruct rs; first [exact (Hfin s2 _ _ None ltac:(discriminate) E1) | exact (Hfin s2 _ _ (Some _) ltac:(discriminate) E1)].
Qed.

(* the broker-agnostic loop never meets a node without an address *)
Lemma known_loop_no_keyerror : forall order st outs log st' log' r,
  WF st -> (forall n, In n order -> dmem Z.eqb n (s_brokers st) = true) ->
  known_loop st order outs log = (st', log', r) -> r <> Some UKeyError.
Proof.
  induction order as [|n rest IH]; intros st outs log st' log' r Hwf Hk H; simpl in H.
  - inversion H; discriminate.
  - destruct (s_closed st); [inversion H; discriminate|].
    destruct outs as [|o outs']; [inversion H; discriminate|].
    destruct (request_on_some st n Hwf (Hk n (or_introl eq_refl))) as [st2 [a Hr]]. rewrite Hr in H.
    pose proof (request_on_WF _ _ _ _ Hwf Hr) as W2. pose proof (request_on_brokers _ _ _ _ Hr) as B2.
    destruct o.
    + eapply IH; [exact W2| |exact H]. intros m Hm. rewrite B2. apply Hk. right. exact Hm.
    + inversion H; discriminate.
    + eapply IH; [apply close_early_WF; exact W2| |exact H]. intros m Hm. simpl. rewrite B2. apply Hk. right. exact Hm.
Qed.

Lemma unaware_no_keyerror : forall st u st' log r, WF st -> unaware st u = (st', log, r) -> r <> UKeyError.
Proof.
  intros st u st' log r Hwf H. unfold unaware in H.
  destruct (s_closed st); [inversion H; discriminate|].
  destruct (perm_b Z.eqb (u_shuf u) (map fst (s_brokers st))) eqn:Ep; simpl in H; [|inversion H; discriminate].
  apply (perm_b_sound Z.eqb Z.eqb_eq) in Ep.
  destruct (known_loop st (fallback_order st (u_shuf u)) (u_kouts u) []) as [[st1 log1] [r1|]] eqn:Ek.
  - inversion H; subst. intro Heq. subst r.
    eapply (known_loop_no_keyerror _ _ _ _ _ _ _ Hwf); [|exact Ek|reflexivity].
    intros n Hn. apply (dmem_in Z.eqb Z.eqb_eq). eapply Permutation_in; [exact Ep|].
    eapply Permutation_in; [apply csort_perm|exact Hn].
  - destruct (negb (perm_b addr_eqb (u_bshuf u) (s_boot st1))); [inversion H; discriminate|].
    clear - H. revert H. generalize log1 (u_bouts u) st1. induction (u_bshuf u) as [|h rest IH]; intros lg os s H; simpl in H.
    + destruct (s_closed s); inversion H; discriminate.
    + destruct (s_closed s); [inversion H; discriminate|]. destruct os as [|o os']; [inversion H; discriminate|].
      destruct o; try (inversion H; discriminate); eapply IH; exact H.
Qed.
