(* Structure of the reachable states of the client request layer: open broker clients are exactly the ones in
   self.clients, and an operation that waits for a request points at a closure it owns whose DelayedCall is armed. *)
From AV Require Import Base.Util Proofs.UtilFacts Model.Framing Proofs.FramingFacts
  Proofs.BrokerClientTbl Proofs.BrokerClientInv Proofs.BrokerClientC06 Proofs.BrokerClientC10.
From AV Require Model.BrokerClient.
From AV Require Import Model.ClientReq Proofs.ClientReqBase Proofs.ClientReqStep Proofs.ClientReqC11 Proofs.ClientReqMono.
From Coq Require Import Lia.

(* ------------------------------------------------------------------ structure of a client state:
   open broker clients are the ones in self.clients; an operation waiting for a request points at a closure it owns
   whose DelayedCall is armed.
   [exc = Some (i, h, p)]: inside _mrtb_cb of request (i, h), after its DelayedCall was disarmed and before operation p
   moved on.   [ex]: broker clients popped from self.clients that are about to be closed. *)
Definition in_clients (C : cstate) (i : nat) : Prop :=
  match c_clients C with Some cl => exists n, In (n, i) cl | None => False end.
Definition is_open (s : BrokerClient.state) : Prop := BrokerClient.s_down s = BrokerClient.DNone.

Record SInv (exc : option (nat * nat * nat)) (ex : list nat) (C : cstate) : Prop := {
  s_keys : match c_clients C with Some cl => NoDup (map fst cl) | None => True end;
  s_open : forall i n s qs, nth_error (cores C) i = Some (n, s, qs) -> is_open s -> in_clients C i \/ In i ex;
  s_ops : forall p o rest i h, nth_error (c_ops C) p = Some o -> o_phase o = PKnown rest i h ->
            exists n s qs q, nth_error (cores C) i = Some (n, s, qs) /\ nth_error qs h = Some q
                             /\ q_owner q = OfOp p /\ (q_timer q <> None \/ exc = Some (i, h, p))
}.

Lemma SInv_frame exc ex C C' : cores C' = cores C -> c_clients C' = c_clients C -> c_ops C' = c_ops C ->
  SInv exc ex C -> SInv exc ex C'.
Proof.
  intros E1 E2 E3 [K O P]. constructor.
  - rewrite E2. exact K.
  - intros i n s qs H Ho. rewrite E1 in H. unfold in_clients. rewrite E2. exact (O i n s qs H Ho).
  - intros p o rest i h Hp Hph. rewrite E3 in Hp. rewrite E1. exact (P p o rest i h Hp Hph).
Qed.

Lemma SInv_core exc ex C C' : same_core C C' -> same_rest C C' -> SInv exc ex C -> SInv exc ex C'.
Proof. intros [E _] (_ & E2 & _ & _ & _ & E6 & _). apply SInv_frame; assumption. Qed.

Lemma SInv_none_any exc ex C : SInv None ex C -> SInv exc ex C.
Proof.
  intros [K O P]. constructor; auto. intros p o rest i h Hp Hph.
  destruct (P p o rest i h Hp Hph) as (n & s & qs & q & A & B & D & [E|E]); [|discriminate].
  exists n, s, qs, q. auto.
Qed.

(* operation p no longer waits for the disarmed request *)
Lemma SInv_discharge i0 h0 p ex C : SInv (Some (i0, h0, p)) ex C ->
  (forall o rest i h, nth_error (c_ops C) p = Some o -> o_phase o = PKnown rest i h ->
     exists n s qs q, nth_error (cores C) i = Some (n, s, qs) /\ nth_error qs h = Some q /\ q_owner q = OfOp p /\ q_timer q <> None) ->
  SInv None ex C.
Proof.
  intros [K O P] X. constructor; auto. intros p' o rest i h Hp Hph. destruct (Nat.eq_dec p' p) as [->|N].
  - destruct (X o rest i h Hp Hph) as (n & s & qs & q & A & B & D & E). exists n, s, qs, q. auto.
  - destruct (P p' o rest i h Hp Hph) as (n & s & qs & q & A & B & D & [E|E]); [|congruence]. exists n, s, qs, q. auto.
Qed.

Lemma SInv_drop_ex exc i ex C : SInv exc (i :: ex) C ->
  (forall n s qs, nth_error (cores C) i = Some (n, s, qs) -> ~ is_open s) -> SInv exc ex C.
Proof.
  intros [K O P] X. constructor; auto. intros j n s qs H Ho. destruct (O j n s qs H Ho) as [Y|[<-|Y]]; auto.
  exfalso. exact (X n s qs H Ho).
Qed.

Lemma SInv_more_ex exc ex ex' C : SInv exc ex C -> incl ex ex' -> SInv exc ex' C.
Proof. intros [K O P] I. constructor; auto. intros j n s qs H Ho. destruct (O j n s qs H Ho); auto. Qed.

Lemma TInvC_all pend C : TInvC pend C -> AllCInv C.
Proof. intros T i b Hb. destruct (TInvC_bc _ _ _ _ T Hb) as (I & _). exact I. Qed.

(* ------------------------------------------------------------------ one M7 step *)
Lemma open_before s e s' mo : CInv s -> BrokerClient.step s e = (s', mo) -> is_open s' -> is_open s.
Proof.
  intros I H Ho. unfold is_open in *. destruct (BrokerClient.s_down s) eqn:D; [reflexivity| |];
    exfalso; assert (closed s) as Cl by (unfold closed; congruence);
    apply (proj1 (closed_step _ _ _ _ I Cl H)); exact Ho.
Qed.

Lemma apply_bc_S exc ex C i e : AllCInv C -> SInv exc ex C -> SInv exc ex (fst (apply_bc C i e)).
Proof.
  intros T [K O P]. unfold apply_bc. destruct (nth_error (c_bcs C) i) as [b|] eqn:Eb; [|constructor; assumption].
  destruct (BrokerClient.step (b_st b) e) as [s' mo] eqn:Es. cbn [fst].
  pose proof (T i b Eb) as I.
  constructor.
  - exact K.
  - intros j n s qs H Ho. rewrite cores_set_st in H. apply nth_upd_inv in H.
    destruct H as [[<- (c & Hc & E)]|[N H]]; [|exact (O j n s qs H Ho)].
    destruct c as [[n0 s0] qs0]. unfold core_st in E. cbn [fst snd] in E. injection E as -> -> ->.
    rewrite (cores_nth _ _ _ Eb) in Hc. injection Hc as <- <- <-.
    apply (O i (b_node b) (b_st b) (b_reqs b) (cores_nth _ _ _ Eb)). exact (open_before _ _ _ _ I Es Ho).
  - intros p o rest j h Hp Hph. destruct (P p o rest j h Hp Hph) as (n & s & qs & q & A & B & D & E).
    rewrite cores_set_st. destruct (Nat.eq_dec i j) as [<-|N].
    + rewrite (nth_upd_same _ _ _ _ A). unfold core_st. cbn [fst snd]. exists n, s', qs, q. auto.
    + rewrite nth_upd_other by exact N. exists n, s, qs, q. auto.
Qed.

Lemma tr_list_S exc ex os C i : SInv exc ex C -> SInv exc ex (fst (tr_list C i os)).
Proof. apply SInv_core; [apply tr_list_core | apply tr_list_rest]. Qed.

Lemma tr_out_S exc ex o C i : SInv exc ex C -> SInv exc ex (fst (tr_out C i o)).
Proof. apply SInv_core; [apply tr_out_core | apply tr_out_rest]. Qed.

Lemma make_def_kind s rid e s' mo oc : BrokerClient.make_request s rid e = (s', mo) -> first_def mo = Some oc ->
  oc = BrokerClient.SuccNone \/ oc = BrokerClient.FailClosed.
Proof.
  unfold BrokerClient.make_request. destruct (BrokerClient.lookup rid _).
  - intro H. injection H as <- <-. discriminate.
  - destruct (BrokerClient.s_down s).
    + destruct (BrokerClient.s_proto s).
      * unfold BrokerClient.lift, BrokerClient.send_request. cbn [BrokerClient.r_expect BrokerClient.r_id BrokerClient.r_h].
        destruct e.
        -- intro H. injection H as <- <-. discriminate.
        -- unfold BrokerClient.fire. destruct (BrokerClient.is_fired _ _); cbn; intro H; injection H as <- <-; cbn; intro E; [discriminate|].
           injection E as <-. auto.
      * destruct (BrokerClient.s_connector s); cbn; intro H; injection H as <- <-; discriminate.
    + unfold BrokerClient.lift, BrokerClient.fire. destruct (BrokerClient.is_fired _ _); cbn; intro H; injection H as <- <-; cbn; intro E; [discriminate|].
      injection E as <-. auto.
    + unfold BrokerClient.lift, BrokerClient.fire. destruct (BrokerClient.is_fired _ _); cbn; intro H; injection H as <- <-; cbn; intro E; [discriminate|].
      injection E as <-. auto.
Qed.

(* _make_request_to_broker *)
Lemma make_req_S exc ex pend C i rid expect mint ow C' r out :
  TInvC pend C -> SInv exc ex C -> make_req C i rid expect mint ow = (C', r, out) ->
  SInv exc ex C' /\ c_ops C' = c_ops C /\ c_clients C' = c_clients C
  /\ (forall h, r = MPending h -> exists n s qs t, nth_error (cores C') i = Some (n, s, qs)
                                   /\ nth_error qs h = Some (mkCreq ow (Some t) false))
  /\ (forall h r0, r = MFired h r0 -> r0 = RNone \/ r0 = RClosed).
Proof.
  intros T S H. unfold make_req in H.
  destruct (nth_error (c_bcs C) i) as [b|] eqn:Eb.
  2:{ injection H as <- <- _. split; [exact S|]. split; [reflexivity|]. split; [reflexivity|]. split; intros; discriminate. }
  destruct (TInvC_bc _ _ _ _ T Eb) as (I & L & _).
  pose proof (apply_bc_S exc ex C i (BrokerClient.EMake rid expect) (TInvC_all _ _ T) S) as S1.
  pose proof (apply_bc_rest C i (BrokerClient.EMake rid expect)) as R1.
  unfold apply_bc in H, S1, R1. rewrite Eb in H, S1, R1.
  destruct (BrokerClient.step (b_st b) (BrokerClient.EMake rid expect)) as [s' mo] eqn:Es. cbn [fst] in S1, R1.
  set (C1 := upd_bc C i (set_st s')) in *.
  destruct (raised_dup mo).
  { injection H as <- <- _. destruct R1 as (_ & R2 & _ & _ & _ & R6 & _). split; [exact S1|]. split; [exact R6|]. split; [exact R2|].
    split; intros; discriminate. }
  pose proof (tr_list_S exc ex (filter (fun o => negb (is_def o)) mo) C1 i S1) as S2.
  pose proof (tr_list_rest (filter (fun o => negb (is_def o)) mo) C1 i) as R2.
  pose proof (tr_list_core (filter (fun o => negb (is_def o)) mo) C1 i) as K2.
  destruct (tr_list C1 i (filter (fun o => negb (is_def o)) mo)) as [C2 o2]. cbn [fst] in S2, R2, K2.
  unfold new_timer in H.
  set (h0 := length (BrokerClient.t_dlog (BrokerClient.s_t (b_st b)))) in *.
  assert (forall q, let C3 := upd_bc (with_timers C2 (c_timers C2 ++ [TReq i h0])) i (fun b0 => set_reqs (b_reqs b0 ++ [q]) b0) in
            SInv exc ex C3 /\ c_ops C3 = c_ops C /\ c_clients C3 = c_clients C
            /\ exists n s qs, nth_error (cores C3) i = Some (n, s, qs) /\ nth_error qs h0 = Some q) as G.
  { intros q C3.
    assert (cores C3 = nth_upd (cores C2) i (core_reqs (fun l => l ++ [q]))) as E3
      by (unfold C3; rewrite (cores_set_reqs _ i (fun l => l ++ [q])); reflexivity).
    assert (nth_error (cores C2) i = Some (b_node b, s', b_reqs b)) as Ei.
    { destruct K2 as [K2 _]. rewrite K2. unfold C1. rewrite cores_set_st, (nth_upd_same _ _ _ _ (cores_nth _ _ _ Eb)). reflexivity. }
    destruct R1 as (_ & R12 & _ & _ & _ & R16 & _). destruct R2 as (_ & R22 & _ & _ & _ & R26 & _).
    destruct S2 as [K O P].
    split; [|split; [cbn; congruence | split; [cbn; congruence|]]].
    - constructor.
      + exact K.
      + intros j n s qs Hj Ho. rewrite E3 in Hj. apply nth_upd_inv in Hj.
        destruct Hj as [[<- (c & Hc & E)]|[N Hj]]; [|exact (O j n s qs Hj Ho)].
        rewrite Ei in Hc. injection Hc as <-. unfold core_reqs in E. cbn [fst snd] in E. injection E as -> -> ->.
        exact (O i _ _ _ Ei Ho).
      + intros p o rest j h Hp Hph. destruct (P p o rest j h Hp Hph) as (n & s & qs & q0 & A & B & D & E).
        rewrite E3. destruct (Nat.eq_dec i j) as [<-|N].
        * rewrite (nth_upd_same _ _ _ _ A). unfold core_reqs. cbn [fst snd]. exists n, s, (qs ++ [q]), q0.
          split; [reflexivity|]. split; [apply nth_error_app_l; exact B | auto].
        * rewrite nth_upd_other by exact N. exists n, s, qs, q0. auto.
    - rewrite E3, (nth_upd_same _ _ _ _ Ei). unfold core_reqs. cbn [fst snd]. eexists _, _, _. split; [reflexivity|].
      unfold h0. fold (sdlog (b_st b)). rewrite <- L. apply nth_error_snoc. }
  destruct (first_def mo) as [oc|] eqn:Fd; injection H as <- <- _.
  - destruct (G (mkCreq ow None false)) as (A & B & D & _). split; [exact A|]. split; [exact B|]. split; [exact D|].
    split; [intros h E; discriminate|]. intros h r0 E. injection E as _ <-.
    cbn [BrokerClient.step] in Es. destruct (make_def_kind _ _ _ _ _ _ Es Fd) as [->| ->]; cbn; auto.
  - destruct (G (mkCreq ow (Some (length (c_timers C2))) false)) as (A & B & D & n & s & qs & E1 & E2).
    split; [exact A|]. split; [exact B|]. split; [exact D|].
    split; [|intros h r0 E; discriminate]. intros h E. injection E as <-. exists n, s, qs, (length (c_timers C2)). auto.
Qed.

Lemma assoc_in {B} k (l : list (Z * B)) v : assoc k l = Some v -> In (k, v) l.
Proof.
  induction l as [|[k' v'] l IH]; cbn; [discriminate|]. destruct (k =? k') eqn:E.
  - intro H. injection H as ->. left. apply Z.eqb_eq in E. congruence.
  - intro H. right. auto.
Qed.

Lemma assoc_none {B} k (l : list (Z * B)) : assoc k l = None -> ~ In k (map fst l).
Proof.
  induction l as [|[k' v'] l IH]; cbn; [tauto|]. destruct (k =? k') eqn:E; [discriminate|].
  intros H [X|X]; [apply Z.eqb_neq in E; congruence | exact (IH H X)].
Qed.

Lemma get_client_S exc ex C cl node C1 i : SInv exc ex C -> c_clients C = Some cl -> get_client C cl node = Some (C1, i) ->
  SInv exc ex C1 /\ c_ops C1 = c_ops C /\ (exists cl1, c_clients C1 = Some cl1).
Proof.
  intros [K O P] Ec H. unfold get_client in H. destruct (assoc node cl) eqn:A.
  { injection H as <- _. split; [constructor; assumption|]. split; [reflexivity | eauto]. }
  destruct (assoc node (c_brokers C)) as [a|]; [|discriminate]. injection H as <- _.
  split; [|split; [reflexivity | eexists; reflexivity]].
  assert (forall X, cores (with_clients (with_bcs C (c_bcs C ++ [mkBc node (BrokerClient.with_addr BrokerClient.init a) [] None])) X)
                    = cores C ++ [(node, BrokerClient.with_addr BrokerClient.init a, [])]) as E
    by (intro X; unfold cores; cbn; rewrite map_app; reflexivity).
  constructor.
  - cbn [c_clients with_clients]. rewrite Ec in K. rewrite map_app. cbn [map fst].
    apply NoDup_app_intro; [exact K | constructor; [intros [] | constructor] |].
    intros x Hx [<-|[]]. exact (assoc_none _ _ A Hx).
  - intros j n s qs Hj Ho. rewrite E in Hj. unfold in_clients. cbn [c_clients with_clients].
    apply nth_error_snoc_inv in Hj. destruct Hj as [Hj|[-> Hj]].
    + destruct (O j n s qs Hj Ho) as [X|X]; [|right; exact X]. left. unfold in_clients in X. rewrite Ec in X.
      destruct X as [m X]. exists m. apply in_or_app. left. exact X.
    + left. exists node. apply in_or_app. right. left. unfold cores. rewrite map_length. reflexivity.
  - intros p o rest j h Hp Hph. cbn [c_ops with_clients with_bcs] in Hp.
    destruct (P p o rest j h Hp Hph) as (n & s & qs & q & A1 & B & D & E1). rewrite E. exists n, s, qs, q.
    split; [apply nth_error_app_l; exact A1 | auto].
Qed.

(* ending / moving an operation *)
Lemma set_phase_S exc ex C p ph : SInv exc ex C ->
  (forall rest i h, ph = PKnown rest i h ->
     exists n s qs q, nth_error (cores C) i = Some (n, s, qs) /\ nth_error qs h = Some q /\ q_owner q = OfOp p /\ q_timer q <> None) ->
  SInv (match exc with Some (i0, h0, p0) => if Nat.eqb p0 p then None else exc | None => None end) ex (set_phase C p ph).
Proof.
  intros [K O P] X. constructor.
  - exact K.
  - exact O.
  - intros p' o rest i h Hp Hph. unfold set_phase in Hp. cbn [c_ops with_ops] in Hp. apply nth_upd_inv in Hp.
    change (cores (set_phase C p ph)) with (cores C).
    destruct Hp as [[<- (o0 & Ho0 & ->)]|[N Hp]].
    + cbn [o_phase] in Hph. destruct (X rest i h Hph) as (n & s & qs & q & A & B & D & E). exists n, s, qs, q. auto.
    + destruct (P p' o rest i h Hp Hph) as (n & s & qs & q & A & B & D & [E|E]); exists n, s, qs, q; split; auto; split; auto; split; auto.
      right. rewrite E. destruct (Nat.eqb p' p) eqn:Q; [apply Nat.eqb_eq in Q; congruence | reflexivity].
Qed.

Definition exc_for (exc : option (nat * nat * nat)) (p : nat) : Prop :=
  match exc with Some (_, _, p0) => p0 = p | None => True end.

Lemma exc_clear exc p : exc_for exc p ->
  (match exc with Some (i0, h0, p0) => if Nat.eqb p0 p then None else exc | None => None end) = None.
Proof. destruct exc as [[[i0 h0] p0]|]; cbn; [intros ->; rewrite Nat.eqb_refl; reflexivity | reflexivity]. Qed.

Lemma op_fail_S exc ex C p r : SInv exc ex C -> exc_for exc p -> nth_error (c_ops C) p <> None -> SInv None ex (fst (op_fail C p r)).
Proof.
  intros S X N. unfold op_fail. destruct (nth_error (c_ops C) p); [|congruence]. cbn [fst].
  rewrite <- (exc_clear exc p X). apply set_phase_S; [exact S|]. intros rest i h E. discriminate.
Qed.

Lemma boot_next_S exc ex C p hosts : SInv exc ex C -> exc_for exc p -> nth_error (c_ops C) p <> None ->
  SInv None ex (fst (boot_next C p hosts)).
Proof.
  intros S X N. unfold boot_next. destruct (closing C); [apply (op_fail_S exc); assumption|].
  destruct hosts; [apply (op_fail_S exc); assumption|]. cbn [fst].
  rewrite <- (exc_clear exc p X). apply set_phase_S; [|intros rest i h E; discriminate].
  eapply SInv_frame; [| | |exact S]; reflexivity.
Qed.

Lemma op_known_S : forall nodes exc ex pend C p rid, TInvC pend C -> SInv exc ex C -> exc_for exc p ->
  nth_error (c_ops C) p <> None -> SInv None ex (fst (op_known C p rid nodes)).
Proof.
  induction nodes as [|n rest IH]; intros exc ex pend C p rid T S X N; cbn [op_known].
  - apply (boot_next_S exc); assumption.
  - destruct (c_clients C) as [cl|] eqn:Ec; [|apply (op_fail_S exc); assumption].
    destruct (get_client C cl n) as [[C1 i]|] eqn:G; [|apply (op_fail_S exc); assumption].
    destruct (get_client_S _ _ _ _ _ _ _ S Ec G) as (S1 & O1 & _).
    pose proof (get_client_wf _ _ _ _ _ _ T G) as T1.
    destruct (make_req C1 i rid true (-1) (OfOp p)) as [[C2 r] o2] eqn:M.
    destruct (make_req_S _ _ _ _ _ _ _ _ _ _ _ _ T1 S1 M) as (S2 & O2 & _ & Pn & Fr).
    pose proof (make_req_wf _ _ _ _ _ _ _ _ _ _ T1 M) as T2.
    assert (nth_error (c_ops C2) p <> None) as N2 by (rewrite O2, O1; exact N).
    destruct r as [|h|h r]; cbn [fst].
    + pose proof (IH exc ex pend C2 p rid T2 S2 X N2) as Y. destruct (op_known C2 p rid rest). exact Y.
    + rewrite <- (exc_clear exc p X). apply set_phase_S; [exact S2|]. intros rest' i' h' E. injection E as _ <- <-.
      destruct (Pn h eq_refl) as (n0 & s0 & qs0 & t & A & B). exists n0, s0, qs0, (mkCreq (OfOp p) (Some t) false).
      split; [exact A|]. split; [exact B|]. split; [reflexivity | discriminate].
    + destruct (Fr h r eq_refl) as [-> | ->].
      * pose proof (IH exc ex pend C2 p rid T2 S2 X N2) as Y. destruct (op_known C2 p rid rest). exact Y.
      * pose proof (IH exc ex pend C2 p rid T2 S2 X N2) as Y. destruct (op_known C2 p rid rest). exact Y.
Qed.

(* ------------------------------------------------------------------ the continuation of a fired Deferred *)
Definition exc_q (q : creq) (i h : nat) : option (nat * nat * nat) :=
  match q_owner q with OfOp p => Some (i, h, p) | Direct _ => None end.

Lemma cores_upd_creq C i h f : cores (upd_creq C i h f) = nth_upd (cores C) i (core_reqs (fun l => nth_upd l h f)).
Proof. unfold upd_creq. apply (cores_set_reqs C i (fun l => nth_upd l h f)). Qed.

Lemma clear_S ex C i h f b q : (forall x, q_owner (f x) = q_owner x) ->
  nth_error (c_bcs C) i = Some b -> nth_error (b_reqs b) h = Some q ->
  SInv None ex C -> SInv (exc_q q i h) ex (upd_creq C i h f).
Proof.
  intros Fo Eb Eq [K O P]. pose proof (cores_nth _ _ _ Eb) as Ec. constructor.
  - exact K.
  - intros j n s qs Hj Ho. rewrite cores_upd_creq in Hj. apply nth_upd_inv in Hj.
    destruct Hj as [[<- (c & Hc & E)]|[N Hj]]; [|exact (O j n s qs Hj Ho)].
    destruct c as [[n0 s0] qs0]. unfold core_reqs in E. cbn [fst snd] in E. injection E as -> -> ->. exact (O i _ _ _ Hc Ho).
  - intros p o rest j h' Hp Hph. destruct (P p o rest j h' Hp Hph) as (n & s & qs & q0 & A & B & D & [E|E]); [|discriminate].
    rewrite cores_upd_creq. destruct (Nat.eq_dec i j) as [<-|N].
    + rewrite (nth_upd_same _ _ _ _ A). unfold core_reqs. cbn [fst snd].
      rewrite Ec in A. injection A as <- <- <-.
      destruct (Nat.eq_dec h h') as [<-|Nh].
      * rewrite Eq in B. injection B as <-. exists (b_node b), (b_st b), (nth_upd (b_reqs b) h f), (f q).
        split; [reflexivity|]. split; [apply nth_upd_same; exact Eq|]. split; [rewrite Fo; exact D|].
        right. unfold exc_q. rewrite D. reflexivity.
      * exists (b_node b), (b_st b), (nth_upd (b_reqs b) h f), q0.
        split; [reflexivity|]. split; [rewrite nth_upd_other by exact Nh; exact B | auto].
    + rewrite nth_upd_other by exact N. exists n, s, qs, q0. auto.
Qed.

Section LevelS.
Variable succ : cstate -> nat -> list Z -> cstate * list output.
Variable allow : bool.
Hypothesis succ_wf : forall pend C p f, TInvC pend C -> TInvC pend (fst (succ C p f)).
Hypothesis succ_S : allow = true -> forall ex pend C p f i h, TInvC pend C -> SInv (Some (i, h, p)) ex C ->
  nth_error (c_ops C) p <> None -> SInv None ex (fst (succ C p f)).

Lemma on_def_S ex pend C i h oc b q :
  TInvC ((i, h) :: pend) C -> nth_error (c_bcs C) i = Some b -> nth_error (b_reqs b) h = Some q ->
  (q_timer q <> None -> SInv None ex C) -> (q_timer q = None -> SInv (exc_q q i h) ex C) ->
  (allow = false -> forall f, oc <> BrokerClient.Succ f) ->
  SInv None ex (fst (on_def succ C i h oc)).
Proof.
  intros T Eb Eq Sa Su Hoc. unfold on_def. rewrite Eb, Eq.
  assert (forall b', nth_error (c_bcs C) i = Some b' -> sfired (b_st b') h) as Fi.
  { intros b' Hb'. destruct (TInvC_bc _ _ _ _ T Hb') as (_ & _ & _ & _ & P). apply P. left. reflexivity. }
  set (C1o1 := match q_timer q with
               | Some t => (upd_creq C i h (fun q0 => mkCreq (q_owner q0) None (q_to q0)), [OCancelTimer t])
               | None => (C, []) end).
  assert (TInvC pend (fst C1o1) /\ SInv (exc_q q i h) ex (fst C1o1) /\ c_ops (fst C1o1) = c_ops C) as (T1 & S1 & O1).
  { unfold C1o1. destruct (q_timer q) as [t|] eqn:Et; cbn [fst].
    - split; [|split; [|reflexivity]].
      + apply (TInvC_drop _ _ i h).
        * apply upd_creq_clear; auto.
        * intros b' q' t' Hb' Hq' Ht'. unfold upd_creq, upd_bc in Hb'. cbn [c_bcs with_bcs] in Hb'.
          rewrite (nth_upd_same _ _ _ _ Eb) in Hb'. injection Hb' as <-. cbn [set_reqs b_reqs] in Hq'.
          rewrite (nth_upd_same _ _ _ _ Eq) in Hq'. injection Hq' as <-. cbn in Ht'. discriminate.
      + apply (clear_S ex C i h _ b q); auto. apply Sa. discriminate.
    - split; [|split; [apply Su; reflexivity | reflexivity]].
      apply (TInvC_drop _ _ _ _ T). intros b' q' t' Hb' Hq'. congruence. }
  destruct C1o1 as [C1 o1]. cbn [fst] in T1, S1, O1.
  unfold exc_q in S1. destruct (q_owner q) as [d|p] eqn:Eo; [exact S1|].
  destruct (nth_error (c_ops C1) p) as [[k al rid ph]|] eqn:Ep.
  2:{ cbn [fst]. apply (SInv_discharge _ _ _ _ _ S1). intros o rest i' h' Hp. congruence. }
  assert (nth_error (c_ops C1) p <> None) as Np by congruence.
  destruct ph as [rest i' h'| | | |];
    try (cbn [fst]; apply (SInv_discharge _ _ _ _ _ S1); intros o rest0 i0 h0 Hp Hph; rewrite Ep in Hp; injection Hp as <-; discriminate).
  destruct (Nat.eqb i i' && Nat.eqb h h') eqn:Em.
  2:{ cbn [fst]. apply (SInv_discharge _ _ _ _ _ S1). intros o rest0 i0 h0 Hp Hph. rewrite Ep in Hp. injection Hp as <-.
      cbn [o_phase] in Hph. injection Hph as _ <- <-.
      destruct (s_ops _ _ _ S1 p _ rest i' h' Ep eq_refl) as (n & s & qs & q0 & A & B & D & [E|E]).
      - exists n, s, qs, q0. auto.
      - injection E as -> ->. rewrite !Nat.eqb_refl in Em. discriminate. }
  destruct (if q_to q then RTimedOut else res_of oc) eqn:Er;
    try (pose proof (op_known_S rest _ ex pend C1 p rid T1 S1 eq_refl Np) as Y; destruct (op_known C1 p rid rest); exact Y).
  - (* a response *)
    destruct allow eqn:Al.
    + pose proof (succ_S eq_refl ex pend C1 p frame i h T1 S1 Np) as Y. destruct (succ C1 p frame). exact Y.
    + exfalso. destruct (q_to q); [discriminate|]. destruct oc; try discriminate. exact (Hoc eq_refl frame0 eq_refl).
  - pose proof (op_fail_S _ ex C1 p RCancelled S1 eq_refl Np) as Y. destruct (op_fail C1 p RCancelled). exact Y.
Qed.

Lemma proc_S : forall os ex pend C i, TInvC (tag i (def_handles os) ++ pend) C -> SInv None ex C ->
  (allow = false -> forall h f, ~ In (BrokerClient.ODef h (BrokerClient.Succ f)) os) ->
  SInv None ex (fst (proc succ C i os)).
Proof.
  induction os as [|o os IH]; intros ex pend C i T S Hs; cbn [proc]; [exact S|].
  assert (TInvC (tag i (def_handles os) ++ pend) (fst (match o with BrokerClient.ODef h oc => on_def succ C i h oc | _ => tr_out C i o end))
          /\ SInv None ex (fst (match o with BrokerClient.ODef h oc => on_def succ C i h oc | _ => tr_out C i o end))) as [T1 S1].
  { destruct o; try (split; [eapply TInvC_same_core; [exact T | apply tr_out_core] | apply tr_out_S; exact S]).
    split; [apply on_def_wf; [exact succ_wf | exact T]|].
    destruct (nth_error (c_bcs C) i) as [b|] eqn:Eb; [|unfold on_def; rewrite Eb; exact S].
    destruct (nth_error (b_reqs b) h) as [q|] eqn:Eq; [|unfold on_def; rewrite Eb, Eq; exact S].
    apply (on_def_S ex (tag i (def_handles os) ++ pend) C i h o b q); auto.
    - intros _. apply SInv_none_any. exact S.
    - intros Al f ->. apply (Hs Al h f). left. reflexivity. }
  destruct (match o with BrokerClient.ODef h oc => on_def succ C i h oc | _ => tr_out C i o end) as [C1 o1]. cbn [fst] in T1, S1.
  pose proof (IH ex pend C1 i T1 S1) as Y. destruct (proc succ C1 i os). apply Y.
  intros Al h f Hin. apply (Hs Al h f). right. exact Hin.
Qed.

Lemma bc_event_S ex pend C i e : is_make e = false -> TInvC pend C -> SInv None ex C ->
  (allow = false -> forall b h f, nth_error (c_bcs C) i = Some b ->
     ~ In (BrokerClient.ODef h (BrokerClient.Succ f)) (snd (BrokerClient.step (b_st b) e))) ->
  SInv None ex (fst (bc_event succ C i e)).
Proof.
  intros M T S Hs. unfold bc_event. pose proof (apply_bc_S None ex C i e (TInvC_all _ _ T) S) as S1.
  destruct (apply_bc C i e) as [C1 mo] eqn:A. cbn [fst] in S1.
  destruct (apply_bc_wf _ _ _ _ _ _ T M A) as [T1 _].
  apply (proc_S mo ex pend C1 i T1 S1). intros Al h f Hin.
  unfold apply_bc in A. destruct (nth_error (c_bcs C) i) as [b|] eqn:Eb; [|injection A as _ <-; exact Hin].
  apply (Hs Al b h f eq_refl). destruct (BrokerClient.step (b_st b) e). injection A as _ <-. exact Hin.
Qed.
End LevelS.

(* ------------------------------------------------------------------ closing broker clients *)

Lemma fail_all_no_succ : forall rs t h f, ~ In (BrokerClient.ODef h (BrokerClient.Succ f)) (snd (BrokerClient.fail_all t rs)).
Proof.
  induction rs as [|r rs IH]; intros t h f; cbn [BrokerClient.fail_all]; [intros []|].
  destruct (BrokerClient.r_cancelled r); [apply IH|].
  unfold BrokerClient.fire. destruct (BrokerClient.is_fired t (BrokerClient.r_h r)).
  - pose proof (IH t h f) as X. destruct (BrokerClient.fail_all t rs). cbn [snd] in *. intros [Y|Y]; [discriminate | exact (X Y)].
  - set (t1 := BrokerClient.mkT _ _ _). pose proof (IH t1 h f) as X. destruct (BrokerClient.fail_all t1 rs). cbn [snd] in *.
    intros [Y|Y]; [discriminate | exact (X Y)].
Qed.

Lemma close_no_succ s h f : ~ In (BrokerClient.ODef h (BrokerClient.Succ f)) (snd (BrokerClient.step s BrokerClient.EClose)).
Proof.
  cbn [BrokerClient.step]. destruct (BrokerClient.s_down s); [|intros [X|[]]; discriminate | intros [X|[]]; discriminate].
  set (s0 := BrokerClient.with_down s BrokerClient.DPending).
  set (X := if BrokerClient.s_proto s0 then (s0, [BrokerClient.OLose]) else
            match BrokerClient.s_connector s0 with
            | BrokerClient.CNone => BrokerClient.fire_down s0
            | BrokerClient.CAttempt => let (s', o') := BrokerClient.fire_down (BrokerClient.with_connector s0 BrokerClient.CStale) in (s', BrokerClient.OCancelAttempt :: o')
            | BrokerClient.CTimer => let (s', o') := BrokerClient.fire_down (BrokerClient.with_connector s0 BrokerClient.CStale) in (s', BrokerClient.OCancelTimer :: o')
            | BrokerClient.CStale => (s0, [])
            end).
  assert (forall o, In o (snd X) -> forall h f, o <> BrokerClient.ODef h (BrokerClient.Succ f)) as NX.
  { unfold X. destruct (BrokerClient.s_proto s0); [intros o [<-|[]] h0 f0; discriminate|].
    destruct (BrokerClient.s_connector s0); unfold BrokerClient.fire_down; cbn;
      intros o Ho h0 f0; repeat (destruct Ho as [<-|Ho]; [discriminate|]); destruct Ho. }
  destruct X as [s1 o1]. cbn [snd] in NX.
  pose proof (fail_all_no_succ (rev (BrokerClient.t_reqs (BrokerClient.s_t s1))) (BrokerClient.t_with_reqs (BrokerClient.s_t s1) []) h f) as Y.
  destruct (BrokerClient.fail_all _ _) as [t2 o2]. cbn [snd] in *. intro Z. apply in_app_or in Z. destruct Z as [Z|Z]; [exact (NX _ Z h f eq_refl) | exact (Y Z)].
Qed.

Lemma close_closes s : ~ is_open (fst (BrokerClient.step s BrokerClient.EClose)).
Proof.
  unfold is_open. cbn [BrokerClient.step]. destruct (BrokerClient.s_down s) eqn:D; cbn [fst]; try congruence.
  set (s0 := BrokerClient.with_down s BrokerClient.DPending).
  assert (forall x, BrokerClient.s_down (fst (BrokerClient.fire_down x)) <> BrokerClient.DNone \/ BrokerClient.s_down x = BrokerClient.DNone) as FD.
  { intro x. unfold BrokerClient.fire_down. destruct (BrokerClient.s_down x) eqn:E; cbn; rewrite ?E; auto; left; discriminate. }
  destruct (BrokerClient.s_proto s0).
  - destruct (BrokerClient.fail_all _ _). cbn. discriminate.
  - destruct (BrokerClient.s_connector s0); unfold BrokerClient.fire_down; cbn; destruct (BrokerClient.fail_all _ _); cbn; discriminate.
Qed.

Lemma closed_after_proc succ (Hs : forall C p f, Rmono C (fst (succ C p f))) pend C i os b :
  TInvC pend C -> nth_error (c_bcs C) i = Some b -> ~ is_open (b_st b) ->
  forall n s qs, nth_error (cores (fst (proc succ C i os))) i = Some (n, s, qs) -> ~ is_open s.
Proof.
  intros T Eb Cl n s qs H. destruct (Rmono_proc succ Hs os C i (TInvC_all _ _ T)) as [_ M].
  destruct (cores_nth_inv _ _ _ _ _ H) as (b' & Hb' & _ & <- & _).
  destruct (M i b Eb) as (b2 & Hb2 & _ & K & _). rewrite Hb' in Hb2. injection Hb2 as <-.
  intro O. apply K; [exact Cl | exact O].
Qed.

Lemma close_each_S : forall l ex pend C, TInvC pend C -> SInv None (l ++ ex) C -> SInv None ex (fst (close_each C l)).
Proof.
  induction l as [|i l IH]; intros ex pend C T S; cbn [close_each]; [exact S|].
  assert (SInv None (l ++ ex) (fst (bc_event succ0 C i BrokerClient.EClose))) as S1.
  { pose proof (bc_event_S succ0 false succ0_wf (fun (H : false = true) => match Bool.diff_false_true H with end)
                           ((i :: l) ++ ex) pend C i BrokerClient.EClose eq_refl T S) as S1.
    assert (SInv None ((i :: l) ++ ex) (fst (bc_event succ0 C i BrokerClient.EClose))) as S1'.
    { apply S1. intros _ b h f _. apply close_no_succ. }
    clear S1. apply (SInv_drop_ex _ i). { exact S1'. }
    intros n s qs H. unfold bc_event, apply_bc in H.
    destruct (nth_error (c_bcs C) i) as [b|] eqn:Eb.
    - destruct (BrokerClient.step (b_st b) BrokerClient.EClose) as [s' mo] eqn:Es.
      set (C1 := upd_bc C i (set_st s')) in *.
      assert (TInvC (tag i (def_handles mo) ++ pend) C1) as T1.
      { assert (apply_bc C i BrokerClient.EClose = (C1, mo)) as A by (unfold apply_bc; rewrite Eb, Es; reflexivity).
        exact (proj1 (apply_bc_wf _ _ _ BrokerClient.EClose _ _ T eq_refl A)). }
      refine (closed_after_proc succ0 (fun C0 p f => Rmono_refl C0) _ C1 i mo (set_st s' b) T1 _ _ n s qs H).
      + unfold C1, upd_bc. cbn [c_bcs with_bcs]. rewrite (nth_upd_same _ _ _ _ Eb). reflexivity.
      + cbn [set_st b_st]. pose proof (close_closes (b_st b)) as X. rewrite Es in X. exact X.
    - cbn [proc fst] in H. pose proof (cores_nth_inv _ _ _ _ _ H) as (b & Hb & _). congruence. }
  pose proof (bc_event_wf succ0 succ0_wf pend C i BrokerClient.EClose eq_refl T) as T1.
  destruct (bc_event succ0 C i BrokerClient.EClose) as [C1 o1]. cbn [fst] in *.
  pose proof (IH ex pend C1 T1 S1) as Y. destruct (close_each C1 l). exact Y.
Qed.

Lemma dl_S exc ex C x : SInv exc ex C -> SInv exc ex (with_dl C x).
Proof. apply SInv_frame; reflexivity. Qed.

Lemma dl_refresh_S exc ex C : SInv exc ex C -> SInv exc ex (fst (dl_refresh C)).
Proof.
  apply SInv_core; [apply dl_refresh_core|]. unfold dl_refresh. destruct (c_dl C) as [l|]; [|apply same_rest_refl].
  destruct (filter (bc_pending C) l); [|repeat split]. destruct (c_wait _); repeat split.
Qed.

Lemma close_brokerclients_S ex pend C l : TInvC pend C -> SInv None (l ++ ex) C -> SInv None ex (fst (close_brokerclients C l)).
Proof.
  intros T S. unfold close_brokerclients. pose proof (close_each_S l ex pend C T S) as S1.
  destruct (close_each C l) as [C1 o1]. cbn [fst] in S1.
  set (C1' := with_dl C1 _). pose proof (dl_refresh_S None ex C1' (dl_S _ _ _ _ S1)) as S2.
  destruct (dl_refresh C1') as [C2 o2]. exact S2.
Qed.

(* ------------------------------------------------------------------ refreshing the broker table *)
Lemma update_each_S : forall bs exc ex pend C cl, TInvC pend C -> SInv exc ex C -> SInv exc ex (update_each C cl bs).
Proof.
  induction bs as [|[n a] bs IH]; intros exc ex pend C cl T S; cbn [update_each]; [exact S|].
  destruct (assoc n cl) as [i|]; [|eapply IH; eauto].
  destruct (apply_bc C i (BrokerClient.EUpdate true a)) as [C1 mo] eqn:A.
  destruct (apply_bc_wf _ _ _ (BrokerClient.EUpdate true a) _ _ T eq_refl A) as [T1 _].
  assert (mo = []) as -> by (unfold apply_bc in A; destruct (nth_error (c_bcs C) i); [|congruence]; cbn in A; congruence).
  pose proof (apply_bc_S exc ex C i (BrokerClient.EUpdate true a) (TInvC_all _ _ T) S) as S1. rewrite A in S1. cbn [fst] in *.
  eapply IH; eauto.
Qed.

Lemma zinsert_in x l y : In y (zinsert x l) <-> y = x \/ In y l.
Proof.
  induction l as [|z l IH]; cbn [zinsert]; [cbn; intuition|].
  destruct (x <? z); [cbn; intuition|]. destruct (x =? z) eqn:E.
  - apply Z.eqb_eq in E. subst z. cbn. intuition.
  - cbn [In]. rewrite IH. intuition.
Qed.

Lemma zsort_set_in l y : In y (zsort_set l) <-> In y l.
Proof.
  unfold zsort_set. induction l as [|x l IH]; cbn [fold_right]; [tauto|]. rewrite zinsert_in, IH. cbn. intuition.
Qed.

Lemma assoc_nodup {B} k v (l : list (Z * B)) : NoDup (map fst l) -> In (k, v) l -> assoc k l = Some v.
Proof.
  induction l as [|[k' v'] l IH]; cbn [map fst assoc In]; [tauto|]. intros ND [E|H].
  - injection E as -> ->. rewrite Z.eqb_refl. reflexivity.
  - inversion ND as [|? ? Nin ND']; subst. destruct (k =? k') eqn:E.
    + apply Z.eqb_eq in E. subst k'. exfalso. apply Nin. apply (in_map fst) in H. exact H.
    + apply IH; assumption.
Qed.

Lemma update_brokers_S ex pend C brokers remove : TInvC pend C -> SInv None ex C ->
  SInv None ex (fst (update_brokers C brokers remove)).
Proof.
  intros T S. unfold update_brokers.
  set (by_id := dict_update [] brokers). set (C1 := with_brokers C _).
  assert (TInvC pend C1) as T1 by (eapply TInvC_same_core; [exact T | unfold C1; score]).
  assert (SInv None ex C1) as S1 by (eapply SInv_frame; [| | |exact S]; reflexivity).
  destruct (c_clients C1) as [cl|] eqn:Ec.
  2:{ destruct by_id; [destruct remove|]; exact S1. }
  pose proof (update_each_S by_id None ex pend C1 cl T1 S1) as S2.
  pose proof (update_each_wf by_id pend C1 cl T1) as T2.
  pose proof (update_each_clients by_id C1 cl) as Ec2. rewrite Ec in Ec2.
  destruct remove; [|exact S2].
  set (gone := zsort_set (map fst (filter (fun kv => negb (has_key (fst kv) by_id)) cl))).
  set (idx := flat_map (fun n => match assoc n cl with Some i => [i] | None => [] end) gone).
  set (cl' := filter (fun kv => has_key (fst kv) by_id) cl).
  destruct idx as [|i0 idx0] eqn:Ei; [exact S2|]. rewrite <- Ei.
  apply (close_brokerclients_S ex pend); [eapply TInvC_same_core; [exact T2 | score]|].
  destruct S2 as [K O P]. rewrite Ec2 in K. constructor.
  - cbn [c_clients with_clients]. apply NoDup_map_filter. exact K.
  - intros j n s qs Hj Ho. change (cores (with_clients (update_each C1 cl by_id) (Some cl'))) with (cores (update_each C1 cl by_id)) in Hj.
    destruct (O j n s qs Hj Ho) as [X|X]; [|right; apply in_or_app; right; exact X].
    unfold in_clients in X. rewrite Ec2 in X. destruct X as [m X].
    unfold in_clients. cbn [c_clients with_clients].
    destruct (has_key m by_id) eqn:Hk.
    + left. exists m. unfold cl'. apply filter_In. split; [exact X | exact Hk].
    + right. apply in_or_app. left. unfold idx. apply in_flat_map. exists m. split.
      * unfold gone. apply zsort_set_in. change m with (fst (m, j)). apply in_map. apply filter_In. split; [exact X | cbn; rewrite Hk; reflexivity].
      * rewrite (assoc_nodup m j cl K X). left. reflexivity.
  - exact P.
Qed.

Lemma merge_S ex pend C payload all : TInvC pend C -> SInv None ex C -> SInv None ex (fst (merge C payload all)).
Proof.
  intros T S. unfold merge. destruct (parse_meta payload) as [[brokers topics]|]; [|exact S].
  set (rm := all && _). pose proof (update_brokers_S ex pend C brokers rm T S) as S1.
  destruct (update_brokers C brokers rm) as [C1 o1]. cbn [fst] in *.
  eapply SInv_frame; [| | |exact S1]; reflexivity.
Qed.

Lemma succ1_S_gen exc ex pend C p f : TInvC pend C -> SInv exc ex C -> exc_for exc p ->
  (exc <> None -> nth_error (c_ops C) p <> None) -> SInv None ex (fst (succ1 C p f)).
Proof.
  intros T S X N. unfold succ1. destruct (nth_error (c_ops C) p) as [o|] eqn:Eo.
  2:{ cbn [fst]. destruct exc; [exfalso; apply N; [discriminate | reflexivity] | exact S]. }
  assert (SInv None ex (set_phase C p PDone)) as S1.
  { rewrite <- (exc_clear exc p X). apply set_phase_S; [exact S|]. intros rest i h E. discriminate. }
  assert (TInvC pend (set_phase C p PDone)) as T1 by (eapply TInvC_same_core; [exact T | apply set_phase_core]).
  destruct (o_kind o =? 1).
  - destruct (closing (set_phase C p PDone)); [exact S1|].
    pose proof (merge_S ex pend _ (drop 4 f) (o_all o) T1 S1) as Y. destruct (merge (set_phase C p PDone) (drop 4 f) (o_all o)). exact Y.
  - destruct (is_ltp (o_kind o)); [|exact S1]. destruct (closing (set_phase C p PDone)); [exact S1|].
    pose proof (merge_S ex pend _ (drop 4 f) false T1 S1) as Y. destruct (merge (set_phase C p PDone) (drop 4 f) false) as [C2 o2]. cbn [fst] in Y.
    destruct (missing (drop 4 f)); [|exact Y]. unfold new_timer. cbn [fst].
    apply (set_phase_S None); [eapply SInv_frame; [| | |exact Y]; reflexivity|]. intros rest i h E. discriminate.
Qed.

Lemma restart_op_S ex C p rid : SInv None ex C -> SInv None ex (restart_op C p rid).
Proof.
  intros [K O P]. constructor; [exact K | exact O|].
  intros p' o rest i h Hp Hph. unfold restart_op in Hp. cbn [c_ops with_ops] in Hp. apply nth_upd_inv in Hp.
  change (cores (restart_op C p rid)) with (cores C).
  destruct Hp as [[<- (o0 & Ho0 & ->)]|[N Hp]]; [discriminate Hph | exact (P p' o rest i h Hp Hph)].
Qed.

Lemma succ1_S : true = true -> forall ex pend C p f i h, TInvC pend C -> SInv (Some (i, h, p)) ex C ->
  nth_error (c_ops C) p <> None -> SInv None ex (fst (succ1 C p f)).
Proof. intros _ ex pend C p f i h T S N. apply (succ1_S_gen (Some (i, h, p)) ex pend); auto. reflexivity. Qed.

Lemma ev_bc_S ex pend C i e : is_make e = false -> TInvC pend C -> SInv None ex C -> SInv None ex (fst (ev_bc C i e)).
Proof.
  intros M T S. apply (bc_event_S succ1 true succ1_wf succ1_S ex pend C i e M T S). intros H. discriminate.
Qed.

Lemma cancel_boots_S : forall n ex C p, SInv None ex C -> SInv None ex (fst (cancel_boots C n p)).
Proof.
  induction n as [|n IH]; intros ex C p Sv; cbn [cancel_boots]; [exact Sv|].
  set (X := match nth_error (c_ops C) p with
            | Some (mkOp _ _ _ (PBootConn a rest)) => let (C', o') := boot_next (set_boot C a KDead) p rest in (C', OBootCancel a :: o')
            | Some (mkOp _ _ _ (PBootReq a t rest)) => let (C', o') := boot_next C p rest in (C', OCancelTimer t :: OBootLose a :: o')
            | Some (mkOp _ _ _ (PWait t)) => let (C', o') := op_fail C p RCancelled in (C', OCancelTimer t :: o')
            | _ => (C, []) end).
  assert (SInv None ex (fst X)) as S1.
  { unfold X. destruct (nth_error (c_ops C) p) as [[k al rid ph]|] eqn:Eo; [|exact Sv]. destruct ph; try exact Sv.
    - assert (SInv None ex (set_boot C a KDead)) as S0 by (eapply SInv_frame; [| | |exact Sv]; reflexivity).
      pose proof (boot_next_S None ex (set_boot C a KDead) p rest S0 I) as Y.
      destruct (boot_next (set_boot C a KDead) p rest). cbn [fst] in *. apply Y. cbn [c_ops set_boot with_boots]. congruence.
    - pose proof (boot_next_S None ex C p rest Sv I) as Y. destruct (boot_next C p rest). cbn [fst] in *. apply Y. congruence.
    - pose proof (op_fail_S None ex C p RCancelled Sv I) as Y. destruct (op_fail C p RCancelled). cbn [fst] in *. apply Y. congruence. }
  destruct X as [C1 o1]. cbn [fst] in S1. pose proof (IH ex C1 (S p) S1) as Y. destruct (cancel_boots C1 n (S p)). exact Y.
Qed.

(* ------------------------------------------------------------------ every step *)
Lemma SInv_init g : SInv None [] (init g).
Proof.
  constructor.
  - cbn. constructor.
  - intros i n s qs H. destruct i; discriminate.
  - intros p o rest i h H. destruct p; discriminate.
Qed.

Theorem step_S C e : TInvC [] C -> SInv None [] C -> SInv None [] (fst (step C e)).
Proof.
  intros T Sv. destruct e; cbn [step].
  - (* ESend *)
    destruct (c_clients C) as [cl|] eqn:Ec; [|exact Sv].
    destruct (get_client C cl node) as [[C1 i]|] eqn:G; [|exact Sv].
    destruct (get_client_S _ _ _ _ _ _ _ Sv Ec G) as (S1 & _ & _).
    pose proof (get_client_wf _ _ _ _ _ _ T G) as T1. unfold next_id.
    set (C2 := with_corr C1 _).
    assert (TInvC [] C2) as T2 by (eapply TInvC_same_core; [exact T1 | unfold C2; score]).
    assert (SInv None [] C2) as S2 by (eapply SInv_frame; [| | |exact S1]; reflexivity).
    destruct (make_req C2 i _ expect mint _) as [[C3 r] o3] eqn:M.
    destruct (make_req_S _ _ _ _ _ _ _ _ _ _ _ _ T2 S2 M) as (S3 & _).
    destruct r; cbn [fst]; [exact S3 | |]; (eapply SInv_frame; [| | |exact S3]; reflexivity).
  - destruct (nth_error (c_direct C) d) as [[i h]|]; [|exact Sv]. apply (ev_bc_S [] []); auto.
  - (* EOp *)
    unfold next_id. cbn [fst snd]. set (C1 := with_corr C _). set (op0 := mkOp kind all _ PDone).
    set (C2 := with_ops C1 (c_ops C1 ++ [op0])).
    assert (TInvC [] C2) as T2 by (eapply TInvC_same_core; [exact T | unfold C2, C1; score]).
    assert (SInv None [] C2) as S2.
    { destruct Sv as [K O P]. constructor; [exact K | exact O|]. intros p o rest i h Hp Hph.
      change (c_ops C2) with (c_ops C ++ [op0]) in Hp. apply nth_error_snoc_inv in Hp.
      destruct Hp as [Hp|[_ ->]]; [exact (P p o rest i h Hp Hph) | discriminate]. }
    assert (nth_error (c_ops C2) (length (c_ops C1)) <> None) as N2.
    { change (c_ops C2) with (c_ops C ++ [op0]). change (length (c_ops C1)) with (length (c_ops C)). rewrite nth_error_snoc. discriminate. }
    destruct (c_clients C2); [apply (op_known_S _ None [] []); auto; exact I | apply (op_fail_S None); auto; exact I].
  - apply (update_brokers_S [] []); assumption.
  - (* EClose *)
    destruct (c_clients C) as [cl|] eqn:Ec; [|exact Sv].
    assert (TInvC [] (with_clients C None)) as T0 by (eapply TInvC_same_core; [exact T | score]).
    assert (SInv None (map snd cl ++ []) (with_clients C None)) as S0.
    { destruct Sv as [K O P]. constructor; [exact I| |exact P]. intros j n s qs Hj Ho.
      destruct (O j n s qs Hj Ho) as [X|[]]. unfold in_clients in X. rewrite Ec in X. destruct X as [m X].
      right. apply in_or_app. left. change j with (snd (m, j)). apply in_map. exact X. }
    pose proof (close_brokerclients_S [] [] _ (map snd cl) T0 S0) as S1.
    destruct (close_brokerclients (with_clients C None) (map snd cl)) as [C1 o1]. cbn [fst] in S1.
    pose proof (cancel_boots_S (length (c_ops C1)) [] C1 0 S1) as S2.
    destruct (cancel_boots C1 (length (c_ops C1)) 0) as [C2 o2]. cbn [fst] in S2.
    destruct (c_dl (with_topics C2 [])); cbn [fst]; (eapply SInv_frame; [| | |exact S2]; reflexivity).
  - eapply SInv_frame; [| | |exact Sv]; reflexivity.
  - apply (ev_bc_S [] []); auto.
  - apply (ev_bc_S [] []); auto.
  - apply (ev_bc_S [] []); auto.
  - apply (ev_bc_S [] []); auto.
  - (* ETimer *)
    destruct (nth_error (c_timers C) t) as [[i h|i|p a|p]|]; [| | | |exact Sv].
    + unfold creq_at. destruct (nth_error (c_bcs C) i) as [b|] eqn:Eb; [|exact Sv].
      destruct (nth_error (b_reqs b) h) as [[ow [t'|] to]|] eqn:Eq; try exact Sv.
      destruct (Nat.eqb t t'); [|exact Sv].
      destruct (timeout_wf C i h b ow t' to T Eb Eq) as [Mo T2].
      set (C1 := upd_creq C i h (fun q => mkCreq (q_owner q) None true)) in *.
      pose proof (clear_S [] C i h (fun q => mkCreq (q_owner q) None true) b _ (fun x => eq_refl) Eb Eq Sv) as S1. fold C1 in S1.
      assert (AllCInv C1) as A1.
      { intros j b' Hb'. unfold C1, upd_creq, upd_bc in Hb'. cbn [c_bcs with_bcs] in Hb'. apply nth_upd_inv in Hb'.
        destruct Hb' as [[<- (x & Hx & ->)]|[N Hb']]; [exact (TInvC_all _ _ T _ _ Hx) | exact (TInvC_all _ _ T _ _ Hb')]. }
      pose proof (apply_bc_S _ [] C1 i (BrokerClient.ECancel h) A1 S1) as S2.
      unfold ev_bc at 1. unfold bc_event.
      destruct (apply_bc C1 i (BrokerClient.ECancel h)) as [C2 mo] eqn:A. cbn [fst snd] in Mo, T2, S2. subst mo.
      assert (exists b2, nth_error (c_bcs C2) i = Some b2 /\ nth_error (b_reqs b2) h = Some (mkCreq ow None true)) as (b2 & Eb2 & Eq2).
      { unfold apply_bc in A.
        assert (nth_error (c_bcs C1) i = Some (set_reqs (nth_upd (b_reqs b) h (fun q => mkCreq (q_owner q) None true)) b)) as Eb1
          by (unfold C1, upd_creq, upd_bc; cbn [c_bcs with_bcs]; rewrite (nth_upd_same _ _ _ _ Eb); reflexivity).
        rewrite Eb1 in A. destruct (BrokerClient.step _ _) as [s' mo']. injection A as <- _.
        eexists. split; [unfold upd_bc; cbn [c_bcs with_bcs]; rewrite (nth_upd_same _ _ _ _ Eb1); reflexivity|].
        cbn [set_st set_reqs b_reqs]. rewrite (nth_upd_same _ _ _ _ Eq). reflexivity. }
      cbn [proc].
      pose proof (on_def_S succ1 true succ1_S [] [] C2 i h BrokerClient.FailCancelled b2 _ T2 Eb2 Eq2) as S3.
      assert (SInv None [] (fst (on_def succ1 C2 i h BrokerClient.FailCancelled))) as S3'.
      { apply S3; [intros N; exfalso; apply N; reflexivity | intros _; exact S2 | intros H; discriminate]. }
      pose proof (on_def_wf succ1 succ1_wf [] C2 i h BrokerClient.FailCancelled T2) as T3.
      destruct (on_def succ1 C2 i h BrokerClient.FailCancelled) as [C3 o3]. cbn [fst] in *.
      destruct (g_dot (c_cfg C3)); cbn [fst]; [|exact S3'].
      pose proof (ev_bc_S [] [] C3 i BrokerClient.EDisconnect eq_refl T3 S3') as S4.
      destruct (ev_bc C3 i BrokerClient.EDisconnect). exact S4.
    + destruct (nth_error (c_bcs C) i) as [b|]; [|exact Sv].
      destruct (match b_timer b with Some t' => Nat.eqb t t' | None => false end); [|exact Sv].
      apply (ev_bc_S [] []); auto.
      * eapply TInvC_same_core; [exact T | apply upd_bc_core; intros; reflexivity].
      * eapply SInv_core; [apply upd_bc_core; intros; reflexivity | repeat split | exact Sv].
    + unfold phase_of. destruct (nth_error (c_ops C) p) as [o|] eqn:Eo; [|exact Sv].
      destruct (o_phase o); try exact Sv. destruct (Nat.eqb a a0 && Nat.eqb t t0); [|exact Sv].
      pose proof (boot_next_S None [] C p rest Sv I) as Y. destruct (boot_next C p rest). cbn [fst] in *. apply Y. congruence.
    + unfold phase_of. destruct (nth_error (c_ops C) p) as [[k al rid0 ph]|] eqn:Eo; [|exact Sv]. cbn [o_phase].
      destruct ph; try exact Sv. destruct (Nat.eqb t t0); [|exact Sv]. unfold next_id. cbn [fst snd].
      set (C1 := with_corr C _). set (C2 := restart_op C1 p _).
      assert (TInvC [] C2) as T2 by (eapply TInvC_same_core; [exact T | unfold C2, C1; score]).
      assert (SInv None [] C2) as S2 by (apply restart_op_S; eapply SInv_frame; [| | |exact Sv]; reflexivity).
      assert (nth_error (c_ops C2) p <> None) as N2.
      { unfold C2, restart_op. cbn [c_ops with_ops with_corr]. rewrite (nth_upd_same _ _ _ _ Eo). discriminate. }
      destruct (c_clients C2); [apply (op_known_S _ None [] []); auto; exact I | apply (op_fail_S None); auto; exact I].
  - (* EBootOk *)
    destruct (nth_error (c_boots C) a) as [[[p rid] [| |]]|]; try exact Sv.
    destruct (phase_of C p); try exact Sv. destruct (Nat.eqb a a0); [|exact Sv].
    unfold new_timer. cbn [fst].
    apply (set_phase_S None); [|intros rest0 i h E; discriminate]. eapply SInv_frame; [| | |exact Sv]; reflexivity.
  - (* EBootFail *)
    destruct (nth_error (c_boots C) a) as [[[p rid] [| |]]|]; try exact Sv.
    unfold phase_of. destruct (nth_error (c_ops C) p) as [o|] eqn:Eo; [|exact Sv].
    destruct (o_phase o); try exact Sv. destruct (Nat.eqb a a0); [|exact Sv].
    assert (SInv None [] (set_boot C a KDead)) as S0 by (eapply SInv_frame; [| | |exact Sv]; reflexivity).
    pose proof (boot_next_S None [] (set_boot C a KDead) p rest S0 I) as Y. destruct (boot_next (set_boot C a KDead) p rest).
    cbn [fst] in *. apply Y. cbn [c_ops set_boot with_boots]. congruence.
  - (* EBootReply *)
    destruct (nth_error (c_boots C) a) as [[[p rid'] [|pend|]]|]; try exact Sv.
    destruct (pend && zlist_eqb (id4 rid) (id4 rid')); [|exact Sv].
    assert (SInv None [] (set_boot C a (KLive false))) as S0 by (eapply SInv_frame; [| | |exact Sv]; reflexivity).
    assert (TInvC [] (set_boot C a (KLive false))) as T0 by (eapply TInvC_same_core; [exact T | apply set_boot_core]).
    destruct (phase_of (set_boot C a (KLive false)) p); try exact S0. destruct (Nat.eqb a a0); [|exact S0].
    pose proof (succ1_S_gen None [] [] _ p (id4 rid ++ payload) T0 S0 I) as Y.
    destruct (succ1 (set_boot C a (KLive false)) p (id4 rid ++ payload)). cbn [fst] in *. apply Y. intro N. exfalso. apply N. reflexivity.
  - (* EBootLost *)
    destruct (nth_error (c_boots C) a) as [[[p rid'] [|pend|]]|]; try exact Sv.
    assert (SInv None [] (set_boot C a KDead)) as S0 by (eapply SInv_frame; [| | |exact Sv]; reflexivity).
    destruct pend; [|exact S0].
    unfold phase_of. destruct (nth_error (c_ops (set_boot C a KDead)) p) as [o|] eqn:Eo; [|exact S0].
    destruct (o_phase o); try exact S0. destruct (Nat.eqb a a0); [|exact S0].
    pose proof (boot_next_S None [] (set_boot C a KDead) p rest S0 I) as Y. destruct (boot_next (set_boot C a KDead) p rest).
    cbn [fst] in *. apply Y. congruence.
  - (* EResend *)
    destruct (c_clients C) as [cl|] eqn:Ec; [|exact Sv].
    destruct (nth_error (c_direct C) d) as [[i h0]|]; [|exact Sv].
    destruct (make_req C i _ expect mint _) as [[C3 r] o3] eqn:M.
    destruct (make_req_S _ _ _ _ _ _ _ _ _ _ _ _ T Sv M) as (S3 & _).
    destruct r; cbn [fst]; [exact S3 | |]; (eapply SInv_frame; [| | |exact S3]; reflexivity).
Qed.

Theorem run_S : forall evs C, TInvC [] C -> SInv None [] C -> SInv None [] (fst (run C evs)).
Proof.
  induction evs as [|e evs IH]; intros C T Sv; cbn [run]; [exact Sv|].
  pose proof (step_wf C e T) as T1. pose proof (step_S C e T Sv) as S1.
  destruct (step C e) as [C1 o1]. cbn [fst] in *.
  pose proof (IH C1 T1 S1) as Y. destruct (run C1 evs). exact Y.
Qed.

Corollary reachable_S g evs : SInv None [] (fst (run (init g) evs)).
Proof. apply run_S; [apply TInvC_init | apply SInv_init]. Qed.
