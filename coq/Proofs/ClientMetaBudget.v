(* C08, last clause: the retry loop of a caller, as the property sees it, composed over attempts.
   After the last fault the topology is FIXED ([truth] names the leader of every partition) and the cluster is
   honest: every metadata lookup is answered truthfully, every request is answered, and a broker answers 0 for a
   partition it leads and NotLeader (6) for one it does not.  Attempt k sends the SAME payload list with the cache
   the previous attempts left behind.  Proved by induction on the number of distinct payload topics that still have
   a stale cached leader: that number strictly decreases with every failed attempt, so the number of failed
   attempts before the first success is at most that number; a single-topic call fails at most once. *)
From AV Require Import Base.Util Model.ClientMeta Model.ClientRoute Proofs.ClientMetaDict Proofs.ClientMetaFacts
  Proofs.ClientRouteWF Proofs.ClientRouteFacts Proofs.ClientMetaC08 Proofs.ClientMetaRecovery.
From Coq Require Import Lia Permutation.

(* ---- generic list facts ---- *)
Lemma filter_length_le : forall {A} (f g : A -> bool) l,
  (forall x, In x l -> f x = true -> g x = true) -> (length (filter f l) <= length (filter g l))%nat.
Proof.
  intros A f g l H. induction l as [|x l IH]; simpl; [lia|].
  assert (IH' : (length (filter f l) <= length (filter g l))%nat) by (apply IH; intros y Hy; apply H; right; exact Hy).
  destruct (f x) eqn:Ef; destruct (g x) eqn:Eg; simpl; try lia.
  rewrite (H x (or_introl eq_refl) Ef) in Eg. discriminate.
Qed.

Lemma filter_length_lt : forall {A} (f g : A -> bool) l x0,
  (forall x, In x l -> f x = true -> g x = true) -> In x0 l -> f x0 = false -> g x0 = true ->
  (length (filter f l) < length (filter g l))%nat.
Proof.
  intros A f g l x0 H Hin Hf Hg. induction l as [|x l IH]; [destruct Hin|]. simpl.
  assert (Hle : (length (filter f l) <= length (filter g l))%nat)
    by (apply filter_length_le; intros y Hy; apply H; right; exact Hy).
  destruct Hin as [->|Hin].
  - rewrite Hf, Hg. simpl. lia.
  - assert (IH' := IH (fun y Hy => H y (or_intror Hy)) Hin).
    destruct (f x) eqn:Ef; destruct (g x) eqn:Eg; simpl; try lia.
    rewrite (H x (or_introl eq_refl) Ef) in Eg. discriminate.
Qed.

Lemma nodup_key_inj : forall {A B} (f : A -> B) (l : list A) a b,
  NoDup (map f l) -> In a l -> In b l -> f a = f b -> a = b.
Proof.
  intros A B f l a b Hnd Ha Hb Hf. induction l as [|x l IH]; [destruct Ha|].
  simpl in Hnd. inversion Hnd as [|y m Hnotin Hnd']; subst.
  destruct Ha as [->|Ha]; destruct Hb as [->|Hb]; try reflexivity.
  - exfalso. apply Hnotin. rewrite Hf. apply in_map. exact Hb.
  - exfalso. apply Hnotin. rewrite <- Hf. apply in_map. exact Ha.
  - apply IH; assumption.
Qed.

Lemma same_keys_same_lists : forall {A B} (f : A -> B) (pool l1 l2 : list A),
  NoDup (map f pool) -> (forall x, In x l1 -> In x pool) -> (forall x, In x l2 -> In x pool) ->
  map f l1 = map f l2 -> l1 = l2.
Proof.
  intros A B f pool l1. induction l1 as [|a l1 IH]; intros l2 Hnd H1 H2 Hm; destruct l2 as [|b l2]; try discriminate; [reflexivity|].
  simpl in Hm. inversion Hm as [[Hab Hrest]]. f_equal.
  - eapply nodup_key_inj; [exact Hnd|apply H1; left; reflexivity|apply H2; left; reflexivity|exact Hab].
  - apply IH; [exact Hnd| | |exact Hrest]; intros x Hx; [apply H1|apply H2]; right; exact Hx.
Qed.

Section Budget.
  Variable truth : tpk -> Z.

  (* ---- the honest cluster ---- *)
  Definition honest_answer (n : Z) (p : payload) : resp :=
    {| r_topic := p_topic p; r_part := p_part p; r_err := if n =? truth (p_key p) then 0 else 6; r_tag := p_tag p |}.
  (* every request is answered, by its node, for exactly its payloads, truthfully *)
  Definition honest_outs (reqs : list reqev) (outs : list rout) : Prop :=
    outs = map (fun q => ROk (map (honest_answer (rq_node q)) (rq_payloads q))) reqs.

  Record attempt := { at_loads : list load; at_outs : list rout }.
  Definition run_attempt (fail : bool) (ps : list payload) (st : state) (a : attempt) :=
    send_public st None fail true ps (at_loads a) (at_outs a).
  (* what the environment guarantees for one attempt made in cache state st *)
  Definition good (ps : list payload) (st : state) (a : attempt) : Prop :=
    Forall (load_truthful truth) (at_loads a) /\
    fanout (a_res (aware st None true ps (at_loads a) (at_outs a))) <> None /\
    honest_outs (a_reqs (aware st None true ps (at_loads a) (at_outs a))) (at_outs a).

  Definition success_b (ps : list payload) (res : pres) : bool :=
    match res with
    | POk rs => forallb (fun r => r_err r =? 0) rs && list_eqb tp_eqb (map r_key rs) (map p_key ps)
    | _ => false
    end.

  (* ---- the measure: distinct payload topics with a stale cached leader ---- *)
  Definition stale_tb (st : state) (t : Z) : bool :=
    existsb (fun e => (fst (fst e) =? t) &&
                      match tget (fst e) (s_t2b st) with
                      | Some (Some (n, _)) => negb (n =? truth (fst e))
                      | _ => false
                      end) (s_t2b st).
  Definition stale_count (ps : list payload) (st : state) : nat :=
    length (filter (stale_tb st) (nodup Z.eq_dec (map p_topic ps))).

  Lemma stale_tb_iff : forall st t, stale_tb st t = true <-> stale truth st t.
  Proof.
    intros st t. unfold stale_tb. rewrite existsb_exists. split.
    - intros [[[t0 p] v] [Hin Hc]]. simpl in Hc. apply andb_true_iff in Hc. destruct Hc as [Ht Hv].
      apply Z.eqb_eq in Ht. subst t0.
      destruct (tget (t, p) (s_t2b st)) as [[[n a]|]|] eqn:E; try discriminate.
      exists p, n, a. split; [exact E|]. apply negb_true_iff in Hv. apply Z.eqb_neq. exact Hv.
    - intros [p [n [a [Hl Hne]]]]. exists ((t, p), Some (n, a)). split.
      + apply (dget_some_in tp_eqb tp_eqb_eq). exact Hl.
      + simpl. rewrite Z.eqb_refl. unfold leader_of in Hl. rewrite Hl. simpl.
        apply negb_true_iff. apply Z.eqb_neq. exact Hne.
  Qed.

  (* ---- answers of an honest cluster ---- *)
  Lemma honest_outs_answers : forall reqs,
    answers (map rq_payloads reqs) (map to_outcome (map (fun q => ROk (map (honest_answer (rq_node q)) (rq_payloads q))) reqs))
    = flat_map (fun q => map (honest_answer (rq_node q)) (rq_payloads q)) reqs.
  Proof.
    induction reqs as [|q reqs IH]; [reflexivity|]. unfold answers in *. simpl. rewrite IH. reflexivity.
  Qed.

  Lemma honest_outs_failed : forall reqs,
    failed_part (map rq_payloads reqs) (map to_outcome (map (fun q => ROk (map (honest_answer (rq_node q)) (rq_payloads q))) reqs)) = [].
  Proof. induction reqs as [|q reqs IH]; [reflexivity|]. unfold failed_part in *. simpl. exact IH. Qed.

  Lemma honest_outs_honest : forall reqs,
    honest (map rq_payloads reqs) (map to_outcome (map (fun q => ROk (map (honest_answer (rq_node q)) (rq_payloads q))) reqs)).
  Proof.
    induction reqs as [|q reqs IH]; [constructor|]. unfold honest in *. simpl. constructor; [|exact IH]. simpl.
    rewrite map_map. apply Permutation_refl.
  Qed.

  Lemma handle_06 : forall rs st fail acc st' res,
    Forall (fun r => r_err r = 0 \/ r_err r = 6) rs ->
    handle_responses st None fail rs acc = (st', res) ->
    res <> HType /\ (Forall (fun r => r_err r = 0) rs -> st' = st /\ res = HOk (rev acc ++ rs)).
  Proof.
    induction rs as [|r rs IH]; intros st fail acc st' res Hall H; simpl in H.
    - inversion H; subst. split; [discriminate|]. intros _. rewrite app_nil_r. split; reflexivity.
    - inversion Hall as [|x l Hx Hrest]; subst. destruct Hx as [E|E]; rewrite E in H; simpl in H.
      + destruct (IH _ _ _ _ _ Hrest H) as [Hn Hz]. split; [exact Hn|]. intro Hz0. inversion Hz0; subst.
        destruct (Hz H3) as [Hs Hr]. split; [exact Hs|]. rewrite Hr. simpl. rewrite <- app_assoc. reflexivity.
      + split.
        * destruct fail; [inversion H; discriminate|]. apply (IH _ _ _ _ _ Hrest H).
        * intro Hz0. inversion Hz0; subst. rewrite E in H2. discriminate.
  Qed.

  (* ---- one attempt against the honest cluster ---- *)
  Lemma attempt_responses : forall st ps loads outs rs failed,
    NoDup (map p_key ps) ->
    fanout (a_res (aware st None true ps loads outs)) = Some (rs, failed) ->
    honest_outs (a_reqs (aware st None true ps loads outs)) outs ->
    failed = [] /\
    rs = map (fun x => honest_answer (rs_node x) (rs_payload x)) (a_resolved (aware st None true ps loads outs)).
  Proof.
    intros st ps loads outs rs failed Hnd Hf Hh. unfold honest_outs in Hh.
    set (r := aware st None true ps loads outs) in *.
    destruct (aware_results _ _ _ _ _ _ _ _ Hf) as [Hfail [_ [_ Hexp]]]. fold r in Hfail, Hexp.
    destruct (aware_routing _ _ _ _ _ _ _ _ Hf) as [Hmap [_ [_ [Hreq [Hcov Hperm]]]]]. fold r in Hmap, Hreq, Hcov, Hperm.
    destruct (Hexp eq_refl) as [Hin [_ Hhon]]. clear Hexp.
    rewrite Hh in Hfail, Hin, Hhon. rewrite honest_outs_failed in Hfail. rewrite honest_outs_answers in Hin.
    split; [exact Hfail|].
    destruct (Hhon (honest_outs_honest _) Hnd) as [_ [_ Hkeys]]. specialize (Hkeys Hfail).
    set (A := flat_map (fun q => map (honest_answer (rq_node q)) (rq_payloads q)) (a_reqs r)) in *.
    assert (HkA : map r_key A = map p_key (concat (map rq_payloads (a_reqs r)))).
    { unfold A. clear. induction (a_reqs r) as [|q l IH]; [reflexivity|]. simpl. rewrite !map_app, IH. f_equal.
      rewrite map_map. reflexivity. }
    assert (HndA : NoDup (map r_key A)).
    { rewrite HkA. eapply Permutation_NoDup; [apply Permutation_sym; apply Permutation_map; exact Hperm|exact Hnd]. }
    apply (same_keys_same_lists r_key A); [exact HndA|exact Hin| |].
    - intros y Hy. apply in_map_iff in Hy. destruct Hy as [x [<- Hx]].
      destruct (Hcov x Hx) as [q [Hq Hn]]. unfold A. apply in_flat_map. exists q. split; [exact Hq|].
      rewrite <- Hn. apply in_map. destruct (Hreq q Hq) as [_ Hpl]. rewrite Hpl. apply in_map.
      apply filter_In. split; [exact Hx|]. rewrite Hn. apply Z.eqb_refl.
    - rewrite Hkeys, map_map. simpl. rewrite <- Hmap, map_map. reflexivity.
  Qed.

  Lemma list_eqb_refl : forall (l : list tpk), list_eqb tp_eqb l l = true.
  Proof.
    induction l as [|k l IH]; [reflexivity|]. simpl. rewrite IH, (proj2 (tp_eqb_eq k k) eq_refl). reflexivity.
  Qed.

  (* the cached leader of key k is not the true one *)
  Definition kstale (st : state) (k : tpk) : Prop :=
    exists n a, leader_of st k = Some (Some (n, a)) /\ n <> truth k.

  (* the step of the induction *)
  Lemma attempt_step : forall fail ps st a r st' res,
    WF st -> NoDup (map p_key ps) -> good ps st a -> run_attempt fail ps st a = (r, st', res) ->
    WF st' /\ (forall t, stale truth st' t -> stale truth st t) /\
    ((success_b ps res = true /\ st' = a_state r /\
      Forall (fun x => rs_node x = truth (p_key (rs_payload x))) (a_resolved r)) \/
     (success_b ps res = false /\
      (exists t, In t (map p_topic ps) /\ stale truth st t /\ ~ stale truth st' t) /\
      (exists p, In p ps /\ kstale st (p_key p)))).
  Proof.
    intros fail ps st a r st' res Hwf Hnd [Hl [Hfan Hh]] H. unfold run_attempt in H.
    split; [eapply send_public_WF; eassumption|].
    split; [intros t; eapply stale_never_grows; eassumption|].
    pose proof (send_public_invalidates _ _ _ _ _ _ _ _ _ _ Hwf H) as Hinv.
    unfold send_public in H. set (ar := aware st None true ps (at_loads a) (at_outs a)) in *.
    destruct (fanout (a_res ar)) as [[rs failed]|] eqn:Ef; [|contradiction Hfan; reflexivity]. clear Hfan.
    destruct (attempt_responses _ _ _ _ _ _ Hnd Ef Hh) as [Hfl Hrs]. fold ar in Hrs.
    destruct (aware_routing _ _ _ _ _ _ _ _ Ef) as [Hmap [Hrt _]]. fold ar in Hmap, Hrt.
    destruct (aware_unfold _ _ _ _ _ _ _ _ Ef) as [_ [st1 [evs [resolved [st2 [acc [Hr [_ [Hres [_ [_ Hok]]]]]]]]]]]. fold ar in Hres, Hok.
    destruct (resolve_loop_nonew truth _ _ _ _ _ _ _ _ _ Hwf Hl Hr) as [_ [new [Hnew Hnn]]]. simpl in Hnew. subst new.
    rewrite Hres in *.
    assert (Hsok : a_res ar = SOk rs).
    { destruct (proj1 Hok Hfl) as [rs' Hs']. rewrite Hs' in Ef. simpl in Ef. injection Ef as E1. rewrite Hs', E1. reflexivity. }
    rewrite Hsok in H.
    assert (H06 : Forall (fun x => r_err x = 0 \/ r_err x = 6) rs).
    { rewrite Hrs. apply Forall_forall. intros y Hy. apply in_map_iff in Hy. destruct Hy as [x [<- _]]. simpl.
      destruct (rs_node x =? truth (p_key (rs_payload x))); auto. }
    destruct (handle_responses (a_state ar) None fail rs []) as [st2' hr] eqn:Eh.
    destruct (handle_06 _ _ _ _ _ _ H06 Eh) as [Hnt Hzero].
    (* is some payload routed to a node that does not lead it? *)
    destruct (forallb (fun x => rs_node x =? truth (p_key (rs_payload x))) resolved) eqn:Eall.
    - (* all routed to the truth: every answer is 0 *)
      left. rewrite forallb_forall in Eall.
      assert (Hz : Forall (fun x => r_err x = 0) rs).
      { rewrite Hrs. apply Forall_forall. intros y Hy. apply in_map_iff in Hy. destruct Hy as [x [<- Hx]]. simpl.
        rewrite (Eall x Hx). reflexivity. }
      destruct (Hzero Hz) as [Hst Hhr]. subst st2' hr. simpl in H. inversion H; subst r st' res.
      split; [|split; [reflexivity|]].
      + simpl. apply andb_true_iff. split.
        * apply forallb_forall. intros y Hy. rewrite Forall_forall in Hz. rewrite (Hz y Hy). reflexivity.
        * rewrite Hrs, map_map. simpl. rewrite <- Hmap, map_map. apply list_eqb_refl.
      + rewrite Hres. apply Forall_forall. intros x Hx. apply Z.eqb_eq. apply Eall. exact Hx.
    - (* some payload x went to a node that does not lead it *)
      right.
      assert (Hex : exists x, In x resolved /\ rs_node x <> truth (p_key (rs_payload x))).
      { clear - Eall. induction resolved as [|x l IH]; [discriminate|]. simpl in Eall.
        destruct (rs_node x =? truth (p_key (rs_payload x))) eqn:E.
        - destruct (IH Eall) as [y [Hy Hn]]. exists y. split; [right; exact Hy|exact Hn].
        - exists x. split; [left; reflexivity|]. apply Z.eqb_neq. exact E. }
      assert (Hstale_of : forall x, In x resolved -> rs_node x <> truth (p_key (rs_payload x)) ->
                 In (p_topic (rs_payload x)) (map p_topic ps) /\ stale truth st (p_topic (rs_payload x)) /\
                 In (rs_payload x) ps /\ kstale st (p_key (rs_payload x))).
      { intros x Hx Hne.
        assert (Hk : kstale st (p_key (rs_payload x))).
        { rewrite Forall_forall in Hrt, Hnn. destruct (Hrt x Hx) as [ad Had].
          destruct (Hnn x Hx _ _ _ Had) as [E|E]; [contradiction|]. exists (rs_node x), ad. split; [exact E|exact Hne]. }
        split; [|split; [|split; [|exact Hk]]].
        - rewrite <- Hmap, map_map. apply in_map_iff. exists x. split; [reflexivity|exact Hx].
        - destruct Hk as [n [ad [E Hn]]]. exists (p_part (rs_payload x)), n, ad. split; [|exact Hn].
          destruct (rs_payload x); exact E.
        - rewrite <- Hmap. apply in_map. exact Hx. }
      assert (Herr_of : forall y, In y rs -> r_err y <> 0 ->
                 exists x, In x resolved /\ rs_node x <> truth (p_key (rs_payload x)) /\ r_topic y = p_topic (rs_payload x)).
      { intros y Hy Hne. rewrite Hrs in Hy. apply in_map_iff in Hy. destruct Hy as [x [<- Hx]]. simpl in Hne.
        exists x. split; [exact Hx|]. split; [|reflexivity].
        destruct (rs_node x =? truth (p_key (rs_payload x))) eqn:E; [contradiction Hne; reflexivity|apply Z.eqb_neq; exact E]. }
      destruct Hex as [x0 [Hx0 Hne0]].
      assert (Hy0 : In (honest_answer (rs_node x0) (rs_payload x0)) rs) by (rewrite Hrs; apply (in_map (fun x => honest_answer (rs_node x) (rs_payload x))); exact Hx0).
      assert (He0 : r_err (honest_answer (rs_node x0) (rs_payload x0)) = 6).
      { simpl. destruct (rs_node x0 =? truth (p_key (rs_payload x0))) eqn:E; [apply Z.eqb_eq in E; contradiction|reflexivity]. }
      destruct hr as [out|e|]; [| |contradiction Hnt; reflexivity]; inversion H; subst r st' res.
      + (* errors delivered: every error topic is cleared *)
        apply handle_responses_out in Eh. simpl in Eh. subst out. split.
        * simpl. apply andb_false_iff. left. apply not_true_iff_false. intro Hfa. rewrite forallb_forall in Hfa.
          specialize (Hfa _ Hy0). rewrite He0 in Hfa. discriminate.
        * destruct (Hstale_of x0 Hx0 Hne0) as [Hin [Hst [Hp0 Hk0]]]. split; [|exists (rs_payload x0); split; assumption].
          exists (p_topic (rs_payload x0)). split; [exact Hin|]. split; [exact Hst|].
          apply cleared_not_stale. destruct Hinv as [Hc _].
          apply (Hc (honest_answer (rs_node x0) (rs_payload x0)) Hy0). rewrite He0. reflexivity.
      + (* the first error is raised: its topic is cleared *)
        split; [reflexivity|]. destruct Hinv as [_ [Hne [rs' [y [Hs' [Hy [Hey [Hcl _]]]]]]]].
        rewrite Hsok in Hs'. inversion Hs'; subst rs'.
        assert (Hne' : r_err y <> 0) by (rewrite Hey; exact Hne).
        destruct (Herr_of y Hy Hne') as [x [Hx [Hnx Ht]]]. destruct (Hstale_of x Hx Hnx) as [Hin [Hst [Hpx Hkx]]].
        split; [|exists (rs_payload x); split; assumption].
        exists (p_topic (rs_payload x)). split; [exact Hin|]. split; [exact Hst|].
        apply cleared_not_stale. rewrite <- Ht. apply Hcl.
        rewrite Forall_forall in H06. destruct (H06 y Hy) as [E|E]; [congruence|]. rewrite <- Hey, E. reflexivity.
  Qed.

  (* no payload has a stale cached leader => the attempt succeeds (contrapositive of the failure case) *)
  Lemma attempt_succeeds_if_keys_fresh : forall fail ps st a r st' res,
    WF st -> NoDup (map p_key ps) -> good ps st a -> run_attempt fail ps st a = (r, st', res) ->
    (forall p, In p ps -> ~ kstale st (p_key p)) -> success_b ps res = true.
  Proof.
    intros fail ps st a r st' res Hwf Hnd Hg H Hfresh.
    destruct (attempt_step _ _ _ _ _ _ _ Hwf Hnd Hg H) as [_ [_ [[Hs _]|[_ [_ [p [Hp Hk]]]]]]]; [exact Hs|].
    exfalso. exact (Hfresh p Hp Hk).
  Qed.

  (* with errors DELIVERED (fail_on_error=False) one attempt heals every payload of the call: afterwards no payload
     key has a stale cached leader - wrongly routed ones had their topic cleared, rightly routed ones kept or
     re-learnt a true leader *)
  Lemma attempt_heals_all_keys : forall ps st a r st' res,
    WF st -> NoDup (map p_key ps) -> good ps st a -> run_attempt false ps st a = (r, st', res) ->
    forall p, In p ps -> ~ kstale st' (p_key p).
  Proof.
    intros ps st a r st' res Hwf Hnd [Hl [Hfan Hh]] H p Hp [n [ad [Hlead Hne]]]. unfold run_attempt in H.
    pose proof (send_public_invalidates _ _ _ _ _ _ _ _ _ _ Hwf H) as Hinv.
    unfold send_public in H. set (ar := aware st None true ps (at_loads a) (at_outs a)) in *.
    destruct (fanout (a_res ar)) as [[rs failed]|] eqn:Ef; [|contradiction Hfan; reflexivity]. clear Hfan.
    destruct (attempt_responses _ _ _ _ _ _ Hnd Ef Hh) as [Hfl Hrs]. fold ar in Hrs.
    destruct (aware_routing _ _ _ _ _ _ _ _ Ef) as [Hmap [Hrt _]]. fold ar in Hmap, Hrt.
    destruct (aware_unfold _ _ _ _ _ _ _ _ Ef) as [_ [st1 [evs [resolved [st2 [acc [Hr [_ [Hres [_ [_ Hok]]]]]]]]]]].
    fold ar in Hres, Hok.
    destruct (resolve_loop_nonew_suffix truth _ _ _ _ _ _ _ _ _ Hwf Hl Hr) as [new [Hnew Hsuf]]. simpl in Hnew. subst new.
    rewrite Hres in *.
    assert (Hsok : a_res ar = SOk rs).
    { destruct (proj1 Hok Hfl) as [rs' Hs']. rewrite Hs' in Ef. simpl in Ef. injection Ef as E1. rewrite Hs', E1. reflexivity. }
    pose proof (aware_ok_t2b truth _ _ _ _ _ _ _ _ _ _ Hr Hsok) as Ht2b. fold ar in Ht2b.
    rewrite Hsok in H.
    assert (H06 : Forall (fun x => r_err x = 0 \/ r_err x = 6) rs).
    { rewrite Hrs. apply Forall_forall. intros y Hy. apply in_map_iff in Hy. destruct Hy as [x [<- _]]. simpl.
      destruct (rs_node x =? truth (p_key (rs_payload x))); auto. }
    destruct (handle_responses (a_state ar) None false rs []) as [st2' hr] eqn:Eh.
    destruct (handle_06 _ _ _ _ _ _ H06 Eh) as [Hnt _].
    pose proof (aware_WF st None true ps (at_loads a) (at_outs a) Hwf) as War. fold ar in War.
    destruct (handle_responses_facts _ _ _ _ _ _ _ War Eh) as [_ [_ [_ [_ [_ [_ Hres']]]]]].
    destruct hr as [out|e|]; [|destruct Hres' as [Hf _]; discriminate|contradiction Hnt; reflexivity].
    inversion H; subst r st' res. apply handle_responses_out in Eh as Hout. simpl in Hout. subst out.
    (* the resolved step of p *)
    rewrite <- Hmap in Hp. apply in_map_iff in Hp. destruct Hp as [x [Hxp Hx]]. rewrite <- Hxp in Hlead, Hne. clear Hxp.
    destruct (Z.eq_dec (rs_node x) (truth (p_key (rs_payload x)))) as [Eq|Nq].
    - (* rightly routed: whatever is cached at the end is true or was cached when x was resolved *)
      assert (Hl1 : leader_of st1 (p_key (rs_payload x)) = Some (Some (n, ad))).
      { unfold leader_of in *. rewrite <- Ht2b. eapply handle_responses_sub; [exact Eh|exact Hlead]. }
      rewrite Forall_forall in Hsuf, Hrt. destruct (Hsuf x Hx _ _ _ Hl1) as [E|E]; [contradiction|].
      destruct (Hrt x Hx) as [ad' Had]. rewrite Had in E. injection E as En _. apply Hne. rewrite <- En. exact Eq.
    - (* wrongly routed: the answer was NotLeader, the topic is cleared *)
      destruct Hinv as [Hc _].
      assert (Hy : In (honest_answer (rs_node x) (rs_payload x)) rs)
        by (rewrite Hrs; apply (in_map (fun x => honest_answer (rs_node x) (rs_payload x))); exact Hx).
      assert (He : is_topic_err (r_err (honest_answer (rs_node x) (rs_payload x))) = true).
      { simpl. destruct (rs_node x =? truth (p_key (rs_payload x))) eqn:E; [apply Z.eqb_eq in E; contradiction|reflexivity]. }
      destruct (Hc _ Hy He) as [Hcl _]. simpl in Hcl. specialize (Hcl (p_part (rs_payload x))).
      destruct (rs_payload x) as [pt pp pg]. unfold p_key in Hlead. simpl in *. rewrite Hcl in Hlead. discriminate.
  Qed.

  (* ---- the retry loop ---- *)
  Fixpoint all_good (fail : bool) (ps : list payload) (st : state) (atts : list attempt) : Prop :=
    match atts with
    | [] => True
    | a :: rest => good ps st a /\ all_good fail ps (snd (fst (run_attempt fail ps st a))) rest
    end.
  (* index of the first successful attempt *)
  Fixpoint first_success (fail : bool) (ps : list payload) (st : state) (atts : list attempt) : option nat :=
    match atts with
    | [] => None
    | a :: rest =>
        if success_b ps (snd (run_attempt fail ps st a)) then Some 0%nat
        else option_map S (first_success fail ps (snd (fst (run_attempt fail ps st a))) rest)
    end.

  Lemma stale_count_lt : forall ps st st' t,
    (forall t, stale truth st' t -> stale truth st t) -> In t (map p_topic ps) -> stale truth st t -> ~ stale truth st' t ->
    (stale_count ps st' < stale_count ps st)%nat.
  Proof.
    intros ps st st' t Hsub Hin Hs Hn. unfold stale_count.
    apply (filter_length_lt _ _ _ t).
    - intros x _ Hx. apply stale_tb_iff. apply Hsub. apply stale_tb_iff. exact Hx.
    - apply nodup_In. exact Hin.
    - apply not_true_iff_false. intro Hx. apply Hn. apply stale_tb_iff. exact Hx.
    - apply stale_tb_iff. exact Hs.
  Qed.

  Lemma within_budget : forall fail ps atts st,
    WF st -> NoDup (map p_key ps) -> all_good fail ps st atts -> (stale_count ps st < length atts)%nat ->
    exists k, first_success fail ps st atts = Some k /\ (k <= stale_count ps st)%nat.
  Proof.
    intros fail ps atts. induction atts as [|a rest IH]; intros st Hwf Hnd Hg Hlen; [simpl in Hlen; lia|].
    simpl in Hg. destruct Hg as [Hga Hrest]. simpl.
    destruct (run_attempt fail ps st a) as [[r st'] res] eqn:Er. simpl in *.
    destruct (attempt_step _ _ _ _ _ _ _ Hwf Hnd Hga Er) as [Wf' [Hsub [[Hs _]|[Hs [[t [Hin [Hst Hnst]]] _]]]]]; rewrite Hs.
    - exists 0%nat. split; [reflexivity|lia].
    - pose proof (stale_count_lt ps st st' t Hsub Hin Hst Hnst) as Hlt.
      destruct (IH st' Wf' Hnd Hrest ltac:(lia)) as [k [Hk Hle]]. exists (S k). rewrite Hk. split; [reflexivity|lia].
  Qed.

  (* errors delivered (fail_on_error=False, what Producer does): at most ONE attempt fails, whatever the number of
     stale topics among the payloads *)
  Lemma within_budget_delivering : forall ps atts st,
    WF st -> NoDup (map p_key ps) -> all_good false ps st atts -> (2 <= length atts)%nat ->
    exists k, first_success false ps st atts = Some k /\ (k <= 1)%nat.
  Proof.
    intros ps atts st Hwf Hnd Hg Hlen. destruct atts as [|a1 [|a2 rest]]; simpl in Hlen; try lia.
    simpl in Hg. destruct Hg as [Hg1 [Hg2 _]]. simpl.
    destruct (run_attempt false ps st a1) as [[r1 st1] res1] eqn:E1. simpl in *.
    destruct (success_b ps res1) eqn:S1; [exists 0%nat; split; [reflexivity|lia]|].
    pose proof (send_public_WF _ _ _ _ _ _ _ _ _ _ Hwf E1) as W1.
    pose proof (attempt_heals_all_keys _ _ _ _ _ _ Hwf Hnd Hg1 E1) as Hfresh.
    destruct (run_attempt false ps st1 a2) as [[r2 st2] res2] eqn:E2. simpl in *.
    rewrite (attempt_succeeds_if_keys_fresh _ _ _ _ _ _ _ W1 Hnd Hg2 E2 Hfresh).
    exists 1%nat. split; [reflexivity|lia].
  Qed.

  (* the successful attempt reaches the true leaders *)
  Lemma first_success_routes : forall fail ps atts st k,
    WF st -> NoDup (map p_key ps) -> all_good fail ps st atts -> first_success fail ps st atts = Some k ->
    exists st_k a, nth_error atts k = Some a /\ WF st_k /\
      success_b ps (snd (run_attempt fail ps st_k a)) = true /\
      Forall (fun x => rs_node x = truth (p_key (rs_payload x))) (a_resolved (fst (fst (run_attempt fail ps st_k a)))).
  Proof.
    intros fail ps atts. induction atts as [|a rest IH]; intros st k Hwf Hnd Hg H; [discriminate|].
    simpl in Hg, H. destruct Hg as [Hga Hrest].
    destruct (run_attempt fail ps st a) as [[r st'] res] eqn:Er. simpl in *.
    destruct (attempt_step _ _ _ _ _ _ _ Hwf Hnd Hga Er) as [Wf' [_ [[Hs [_ Hrt]]|[Hs _]]]]; rewrite Hs in H.
    - inversion H; subst k. exists st, a. split; [reflexivity|]. split; [exact Hwf|]. rewrite Er. simpl. split; assumption.
    - destruct (first_success fail ps st' rest) as [k'|] eqn:Ek; [|discriminate]. inversion H; subst k.
      destruct (IH st' k' Wf' Hnd Hrest Ek) as [sk [ak [Hn Hr]]]. exists sk, ak. split; [exact Hn|exact Hr].
  Qed.

  Lemma stale_count_single_topic : forall ps st t,
    (forall p, In p ps -> p_topic p = t) -> (stale_count ps st <= 1)%nat.
  Proof.
    intros ps st t Hall. unfold stale_count.
    assert (Hl : (length (nodup Z.eq_dec (map p_topic ps)) <= 1)%nat).
    { assert (Hsub : forall x, In x (nodup Z.eq_dec (map p_topic ps)) -> x = t).
      { intros x Hx. apply nodup_In in Hx. apply in_map_iff in Hx. destruct Hx as [p [<- Hp]]. apply Hall. exact Hp. }
      pose proof (NoDup_nodup Z.eq_dec (map p_topic ps)) as Hnd.
      destruct (nodup Z.eq_dec (map p_topic ps)) as [|x [|y l]]; simpl; try lia.
      inversion Hnd as [|x0 l0 Hnotin _]; subst. exfalso. apply Hnotin.
      rewrite (Hsub x (or_introl eq_refl)), (Hsub y (or_intror (or_introl eq_refl))). left. reflexivity. }
    eapply Nat.le_trans; [apply filter_length_le with (g := fun _ => true); auto|].
    rewrite (filter_all (fun _ => true)); [exact Hl|reflexivity].
  Qed.
End Budget.

(* ---- the statements used by Props/C08.v ---- *)
Lemma recovery_within_budget : forall truth fail ps atts st,
  WF st -> NoDup (map p_key ps) -> all_good truth fail ps st atts ->
  (stale_count truth ps st < length atts)%nat ->
  exists k st_k a,
    first_success fail ps st atts = Some k /\ (k <= stale_count truth ps st)%nat /\
    nth_error atts k = Some a /\ WF st_k /\
    success_b ps (snd (run_attempt fail ps st_k a)) = true /\
    Forall (fun x => rs_node x = truth (p_key (rs_payload x))) (a_resolved (fst (fst (run_attempt fail ps st_k a)))).
Proof.
  intros truth fail ps atts st Hwf Hnd Hg Hlen.
  destruct (within_budget truth fail ps atts st Hwf Hnd Hg Hlen) as [k [Hk Hle]].
  destruct (first_success_routes truth fail ps atts st k Hwf Hnd Hg Hk) as [sk [a [Hn [Hw [Hs Hr]]]]].
  exists k, sk, a. split; [exact Hk|]. split; [exact Hle|]. split; [exact Hn|]. split; [exact Hw|]. split; [exact Hs|exact Hr].
Qed.

Lemma recovery_single_topic : forall truth fail ps atts st t,
  WF st -> NoDup (map p_key ps) -> (forall p, In p ps -> p_topic p = t) ->
  all_good truth fail ps st atts -> (2 <= length atts)%nat ->
  exists k, first_success fail ps st atts = Some k /\ (k <= 1)%nat.
Proof.
  intros truth fail ps atts st t Hwf Hnd Hone Hg Hlen.
  pose proof (stale_count_single_topic truth ps st t Hone) as H1.
  destruct (within_budget truth fail ps atts st Hwf Hnd Hg ltac:(lia)) as [k [Hk Hle]].
  exists k. split; [exact Hk|lia].
Qed.
