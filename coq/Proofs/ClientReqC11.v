(* Lemmas behind Props/C11.v: the per-request timer of the client request layer (Model/ClientReq.v). *)
From AV Require Import Base.Util Proofs.UtilFacts Model.Framing Proofs.FramingFacts
  Proofs.BrokerClientTbl Proofs.BrokerClientInv Proofs.BrokerClientC06.
From AV Require Model.BrokerClient.
From AV Require Import Model.ClientReq Proofs.ClientReqBase Proofs.ClientReqStep.
From Coq Require Import Lia.


(* ------------------------------------------------------------------ timer armed <-> request unresolved *)
Lemma armed_iff C i b h q : TInvC [] C ->
  nth_error (c_bcs C) i = Some b -> nth_error (b_reqs b) h = Some q ->
  (q_timer q <> None <-> ~ sfired (b_st b) h).
Proof.
  intros T Eb Eq. destruct (TInvC_bc _ _ _ _ T Eb) as (_ & _ & D & U & _). split.
  - intro N. destruct (q_timer q) as [t|] eqn:Et; [|congruence]. destruct (D h q t Eq Et) as [_ [X|[]]]. exact X.
  - intro F. exact (U h q Eq F).
Qed.

Lemma timer_names C i b h q t : TInvC [] C ->
  nth_error (c_bcs C) i = Some b -> nth_error (b_reqs b) h = Some q -> q_timer q = Some t ->
  nth_error (c_timers C) t = Some (TReq i h).
Proof. intros T Eb Eq Et. destruct (TInvC_bc _ _ _ _ T Eb) as (_ & _ & D & _). exact (proj1 (D h q t Eq Et)). Qed.

(* ------------------------------------------------------------------ timeout first *)
Lemma cancel_state s h s' mo : BrokerClient.step s (BrokerClient.ECancel h) = (s', mo) ->
  BrokerClient.s_proto s' = BrokerClient.s_proto s /\ BrokerClient.s_down s' = BrokerClient.s_down s
  /\ BrokerClient.s_connector s' = BrokerClient.s_connector s.
Proof. cbn [BrokerClient.step]. unfold BrokerClient.lift. intro H. injection H as <- _. cbn. auto. Qed.

Lemma bound_direct C i b h d t to :
  TInvC [] C -> nth_error (c_bcs C) i = Some b -> nth_error (b_reqs b) h = Some (mkCreq (Direct d) (Some t) to) ->
  exists C', step C (ETimer t)
             = (C', OReq d RTimedOut :: (if g_dot (c_cfg C) && BrokerClient.s_proto (b_st b) then [OLose i] else []))
    /\ exists b', nth_error (c_bcs C') i = Some b' /\ sfired (b_st b') h
                  /\ nth_error (b_reqs b') h = Some (mkCreq (Direct d) None true)
                  /\ BrokerClient.step (b_st b) (BrokerClient.ECancel h) = (b_st b', [BrokerClient.ODef h BrokerClient.FailCancelled]).
Proof.
  intros T Eb Eq. cbn [step]. rewrite (timer_names _ _ _ _ _ _ T Eb Eq eq_refl).
  unfold creq_at. rewrite Eb, Eq. rewrite Nat.eqb_refl.
  destruct (timeout_wf C i h b (Direct d) t to T Eb Eq) as [Mo T2].
  set (C1 := upd_creq C i h (fun q => mkCreq (q_owner q) None true)) in *.
  unfold ev_bc at 1. unfold bc_event.
  assert (nth_error (c_bcs C1) i = Some (set_reqs (nth_upd (b_reqs b) h (fun q => mkCreq (q_owner q) None true)) b)) as Eb1.
  { unfold C1, upd_creq, upd_bc. cbn [c_bcs with_bcs]. rewrite (nth_upd_same _ _ _ _ Eb). reflexivity. }
  unfold apply_bc in *. rewrite Eb1 in *. cbn [set_reqs b_st] in *.
  destruct (BrokerClient.step (b_st b) (BrokerClient.ECancel h)) as [s' mo] eqn:Es. cbn [fst snd] in Mo, T2. subst mo.
  set (b2 := set_st s' (set_reqs (nth_upd (b_reqs b) h (fun q => mkCreq (q_owner q) None true)) b)).
  set (C2 := upd_bc C1 i (set_st s')) in *.
  assert (nth_error (c_bcs C2) i = Some b2) as Eb2.
  { unfold C2, upd_bc. cbn [c_bcs with_bcs]. rewrite (nth_upd_same _ _ _ _ Eb1). reflexivity. }
  assert (nth_error (b_reqs b2) h = Some (mkCreq (Direct d) None true)) as Eq2.
  { unfold b2. cbn [set_st set_reqs b_reqs]. rewrite (nth_upd_same _ _ _ _ Eq). reflexivity. }
  cbn [proc]. unfold on_def. rewrite Eb2, Eq2. cbn [q_timer q_to q_owner app].
  assert (c_cfg C2 = c_cfg C) as Ec by reflexivity. rewrite Ec.
  assert (sfired s' h) as Fh.
  { destruct (TInvC_bc _ _ _ _ T2 Eb2) as (_ & _ & _ & _ & P). apply P. left. reflexivity. }
  destruct (cancel_state _ _ _ _ Es) as (Ep & _ & _).
  destruct (g_dot (c_cfg C)) eqn:Ed; cbn [andb].
  - unfold ev_bc, bc_event, apply_bc. rewrite Eb2. unfold b2 at 1. cbn [set_st b_st BrokerClient.step].
    rewrite Ep. destruct (BrokerClient.s_proto (b_st b)); cbn [proc tr_out app].
    + eexists. split; [reflexivity|]. exists b2. split; [|split; [exact Fh|split; [exact Eq2|reflexivity]]].
      unfold upd_bc. cbn [c_bcs with_bcs]. rewrite (nth_upd_same _ _ _ _ Eb2). reflexivity.
    + eexists. split; [reflexivity|]. exists b2. split; [|split; [exact Fh|split; [exact Eq2|reflexivity]]].
      unfold upd_bc. cbn [c_bcs with_bcs]. rewrite (nth_upd_same _ _ _ _ Eb2). reflexivity.
  - eexists. split; [reflexivity|]. exists b2. split; [exact Eb2|]. split; [exact Fh|]. split; [exact Eq2 | reflexivity].
Qed.


(* ------------------------------------------------------------------ a late reply *)
Lemma late_reply_inert C i b rid payload cid :
  TInvC [] C -> nth_error (c_bcs C) i = Some b ->
  BrokerClient.s_proto (b_st b) = true -> BrokerClient.s_rxbuf (b_st b) = [] ->
  Z.of_nat (length (id4 rid ++ payload)) <= MAX_LENGTH ->
  corr_id (id4 rid ++ payload) = Some cid ->
  (forall r, In r (BrokerClient.t_reqs (BrokerClient.s_t (b_st b))) -> BrokerClient.r_id r = cid -> BrokerClient.r_cancelled r = true) ->
  exists s', step C (EReply i rid payload) = (upd_bc C i (set_st s'), [])
    /\ BrokerClient.t_fired (BrokerClient.s_t s') = BrokerClient.t_fired (BrokerClient.s_t (b_st b))
    /\ sdlog s' = sdlog (b_st b)
    /\ BrokerClient.t_reqs (BrokerClient.s_t s') = BrokerClient.del cid (BrokerClient.t_reqs (BrokerClient.s_t (b_st b)))
    /\ BrokerClient.s_proto s' = true /\ BrokerClient.s_connector s' = BrokerClient.s_connector (b_st b)
    /\ BrokerClient.s_down s' = BrokerClient.s_down (b_st b).
Proof.
  intros T Eb P B L Ec Hc. destruct (TInvC_bc _ _ _ _ T Eb) as (I & _).
  assert (frame_ok ok4 (id4 rid ++ payload)) as F.
  { split; [unfold ok4; rewrite Ec; reflexivity | exact L]. }
  destruct (no_crosstalk (b_st b) (id4 rid ++ payload) cid I P B F Ec Hc) as (s' & Es & E1 & E2 & E3 & _ & E4 & E5 & E6 & _).
  exists s'. cbn [step]. unfold ev_bc, bc_event, apply_bc. rewrite Eb, Es. cbn [proc].
  split; [reflexivity|]. repeat split; auto. congruence.
Qed.

(* ------------------------------------------------------------------ the timer armed when a request is issued *)
Definition is_k2 (o : output) : bool := match o with OSched _ 2 _ => true | _ => false end.

Lemma tr_out_no_k2 C i o : filter is_k2 (snd (tr_out C i o)) = [].
Proof.
  destruct o; cbn [tr_out snd]; try reflexivity.
  - destruct (nth_error (c_bcs C) i) as [b|]; [|reflexivity]. destruct (b_timer b); reflexivity.
  - unfold dl_refresh. destruct (c_dl C) as [l|]; [|reflexivity]. destruct (filter (bc_pending C) l); [|reflexivity].
    destruct (c_wait _); reflexivity.
Qed.

Lemma tr_list_no_k2 : forall os C i, filter is_k2 (snd (tr_list C i os)) = [].
Proof.
  induction os as [|o os IH]; intros C i; cbn [tr_list]; [reflexivity|].
  pose proof (tr_out_no_k2 C i o) as H1. destruct (tr_out C i o) as [C1 o1]. cbn [snd] in H1.
  pose proof (IH C1 i) as H2. destruct (tr_list C1 i os) as [C2 o2]. cbn [snd] in *.
  rewrite filter_app, H1, H2. reflexivity.
Qed.

(* what the translation of non-Deferred outputs leaves alone *)
Definition same_rest (C C' : cstate) : Prop :=
  c_cfg C' = c_cfg C /\ c_clients C' = c_clients C /\ c_brokers C' = c_brokers C /\ c_topics C' = c_topics C
  /\ c_corr C' = c_corr C /\ c_ops C' = c_ops C /\ c_direct C' = c_direct C /\ c_boots C' = c_boots C.

Lemma same_rest_refl C : same_rest C C. Proof. repeat split. Qed.
Lemma same_rest_trans A B C : same_rest A B -> same_rest B C -> same_rest A C.
Proof. unfold same_rest. intros (a1&a2&a3&a4&a5&a6&a7&a8) (b1&b2&b3&b4&b5&b6&b7&b8). repeat split; congruence. Qed.

Lemma tr_out_rest C i o : same_rest C (fst (tr_out C i o)).
Proof.
  destruct o; cbn [tr_out fst]; try apply same_rest_refl.
  - repeat split.
  - destruct (nth_error (c_bcs C) i) as [b|]; [|apply same_rest_refl]. destruct (b_timer b); repeat split.
  - unfold dl_refresh. destruct (c_dl C) as [l|]; [|apply same_rest_refl]. destruct (filter (bc_pending C) l); [|repeat split].
    destruct (c_wait _); repeat split.
Qed.

Lemma tr_list_rest : forall os C i, same_rest C (fst (tr_list C i os)).
Proof.
  induction os as [|o os IH]; intros C i; cbn [tr_list]; [apply same_rest_refl|].
  pose proof (tr_out_rest C i o) as H1. destruct (tr_out C i o) as [C1 o1]. cbn [fst] in H1.
  pose proof (IH C1 i) as H2. destruct (tr_list C1 i os) as [C2 o2]. cbn [fst] in *.
  eapply same_rest_trans; eauto.
Qed.

Lemma apply_bc_rest C i e : same_rest C (fst (apply_bc C i e)).
Proof. unfold apply_bc. destruct (nth_error (c_bcs C) i); [|apply same_rest_refl]. destruct (BrokerClient.step _ _). repeat split. Qed.

Lemma get_client_cfg C cl n C1 i : get_client C cl n = Some (C1, i) -> c_cfg C1 = c_cfg C /\ c_direct C1 = c_direct C.
Proof.
  unfold get_client. destruct (assoc n cl); [intro H; injection H as <- _; split; reflexivity|].
  destruct (assoc n (c_brokers C)); [|discriminate]. intro H. injection H as <- _. split; reflexivity.
Qed.

(* a request that is accepted (nothing raised) arms exactly one DelayedCall, with delay max(timeout, min_timeout) *)
Lemma timer_at_issue C node expect mint C' o : step C (ESend node expect mint) = (C', o) ->
  (forall k, ~ In (ORaised k) o) ->
  filter is_k2 o = [OSched (length (c_timers C') - 1) 2 (delay_of C mint)]
  /\ length (c_direct C') = S (length (c_direct C)).
Proof.
  cbn [step]. intros H NR.
  destruct (c_clients C) as [cl|]; [|injection H as _ <-; exfalso; apply (NR 4); left; reflexivity].
  destruct (get_client C cl node) as [[C1 i]|] eqn:G; [|injection H as _ <-; exfalso; apply (NR 6); left; reflexivity].
  destruct (get_client_cfg _ _ _ _ _ G) as [Ecfg Edir0].
  unfold next_id in H. set (C2 := with_corr C1 _) in *. set (rid := (c_corr C1 + 1) mod 2147483648) in *.
  assert (delay_of C2 mint = delay_of C mint) as Ed by (unfold delay_of, C2; cbn [c_cfg with_corr]; rewrite Ecfg; reflexivity).
  unfold make_req in H. destruct (nth_error (c_bcs C2) i) as [b|] eqn:Eb.
  2:{ injection H as _ <-. exfalso. apply (NR 1). cbn. right. left. reflexivity. }
  pose proof (apply_bc_rest C2 i (BrokerClient.EMake rid expect)) as R3.
  destruct (apply_bc C2 i (BrokerClient.EMake rid expect)) as [C3 mo]. cbn [fst] in R3.
  destruct (raised_dup mo).
  { injection H as _ <-. exfalso. apply (NR 1). left. reflexivity. }
  pose proof (tr_list_no_k2 (filter (fun o0 => negb (is_def o0)) mo) C3 i) as K.
  pose proof (tr_list_core (filter (fun o0 => negb (is_def o0)) mo) C3 i) as SC.
  pose proof (tr_list_rest (filter (fun o0 => negb (is_def o0)) mo) C3 i) as R4.
  destruct (tr_list C3 i (filter (fun o0 => negb (is_def o0)) mo)) as [C4 o4]. cbn [snd fst] in K, SC, R4.
  assert (c_direct C4 = c_direct C2) as Edir.
  { destruct R3 as (_&_&_&_&_&_&X&_). destruct R4 as (_&_&_&_&_&_&Y&_). congruence. }
  unfold new_timer in H. rewrite Ed in H.
  destruct (first_def mo); injection H as <- <-; cbn [c_direct with_direct upd_bc with_bcs c_timers with_timers];
    rewrite ?filter_app, K; cbn [filter is_k2 app]; rewrite app_length; cbn [length];
    (split; [repeat f_equal; lia | rewrite Edir; rewrite app_length; cbn; unfold C2; cbn [c_direct with_corr]; rewrite Edir0; lia]).
Qed.

(* ------------------------------------------------------------------ the statements of Props/C11.v *)
Lemma c11_armed_iff g evs i b h q :
  nth_error (c_bcs (fst (run (init g) evs))) i = Some b -> nth_error (b_reqs b) h = Some q ->
  (q_timer q <> None <-> ~ In h (BrokerClient.t_fired (BrokerClient.s_t (b_st b)))).
Proof. apply armed_iff. apply reachable_wf. Qed.

Lemma c11_bound g evs i b h d t to :
  nth_error (c_bcs (fst (run (init g) evs))) i = Some b ->
  nth_error (b_reqs b) h = Some (mkCreq (Direct d) (Some t) to) ->
  exists C', step (fst (run (init g) evs)) (ETimer t)
             = (C', OReq d RTimedOut :: (if g_dot (c_cfg (fst (run (init g) evs))) && BrokerClient.s_proto (b_st b) then [OLose i] else []))
    /\ exists b', nth_error (c_bcs C') i = Some b' /\ In h (BrokerClient.t_fired (BrokerClient.s_t (b_st b')))
                  /\ nth_error (b_reqs b') h = Some (mkCreq (Direct d) None true)
                  /\ BrokerClient.step (b_st b) (BrokerClient.ECancel h) = (b_st b', [BrokerClient.ODef h BrokerClient.FailCancelled]).
Proof. apply bound_direct. apply reachable_wf. Qed.

Lemma c11_bound_any g evs i b h q t :
  nth_error (c_bcs (fst (run (init g) evs))) i = Some b -> nth_error (b_reqs b) h = Some q -> q_timer q = Some t ->
  nth_error (c_timers (fst (run (init g) evs))) t = Some (TReq i h)
  /\ exists s', BrokerClient.step (b_st b) (BrokerClient.ECancel h) = (s', [BrokerClient.ODef h BrokerClient.FailCancelled])
                /\ In h (BrokerClient.t_fired (BrokerClient.s_t s')).
Proof.
  intros Eb Eq Et. pose proof (reachable_wf g evs) as T. split; [eapply timer_names; eauto|].
  destruct (TInvC_bc _ _ _ _ T Eb) as (I & L & D & _).
  destruct (BrokerClient.step (b_st b) (BrokerClient.ECancel h)) as [s' mo] eqn:Es. exists s'.
  assert (mo = [BrokerClient.ODef h BrokerClient.FailCancelled]) as ->.
  { eapply cancel_fires; [exact I | | | exact Es].
    - rewrite <- L. apply nth_error_Some. congruence.
    - destruct (D h q t Eq Et) as [_ [X|[]]]. exact X. }
  split; [reflexivity|]. destruct (fired_after_step _ _ _ _ I Es) as (_ & _ & F). rewrite F. cbn. left. reflexivity.
Qed.

Lemma c11_late_reply_inert g evs i b rid payload cid :
  nth_error (c_bcs (fst (run (init g) evs))) i = Some b ->
  BrokerClient.s_proto (b_st b) = true -> BrokerClient.s_rxbuf (b_st b) = [] ->
  Z.of_nat (length (id4 rid ++ payload)) <= MAX_LENGTH ->
  corr_id (id4 rid ++ payload) = Some cid ->
  (forall r, In r (BrokerClient.t_reqs (BrokerClient.s_t (b_st b))) -> BrokerClient.r_id r = cid -> BrokerClient.r_cancelled r = true) ->
  exists s', step (fst (run (init g) evs)) (EReply i rid payload) = (upd_bc (fst (run (init g) evs)) i (set_st s'), [])
    /\ BrokerClient.t_fired (BrokerClient.s_t s') = BrokerClient.t_fired (BrokerClient.s_t (b_st b))
    /\ BrokerClient.t_dlog (BrokerClient.s_t s') = BrokerClient.t_dlog (BrokerClient.s_t (b_st b))
    /\ BrokerClient.t_reqs (BrokerClient.s_t s') = BrokerClient.del cid (BrokerClient.t_reqs (BrokerClient.s_t (b_st b)))
    /\ BrokerClient.s_proto s' = true /\ BrokerClient.s_connector s' = BrokerClient.s_connector (b_st b)
    /\ BrokerClient.s_down s' = BrokerClient.s_down (b_st b).
Proof. apply late_reply_inert. apply reachable_wf. Qed.

(* every broker client inside the client is in a state satisfying M7's invariant, so that the step-level theorems of
   C06 / C10 (own response, no crosstalk, re-send after a loss, back-off, close) apply to it *)
Lemma c11_brokerclients_inv g evs i b :
  nth_error (c_bcs (fst (run (init g) evs))) i = Some b -> CInv (b_st b) /\ length (b_reqs b) = length (BrokerClient.t_dlog (BrokerClient.s_t (b_st b))).
Proof. intro Eb. destruct (TInvC_bc _ _ _ _ (reachable_wf g evs) Eb) as (I & L & _). split; assumption. Qed.
